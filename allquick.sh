#!/bin/bash
# usage: allquick.sh [tier] [seed]   — runs every claimed property's check sequentially, prints one line each; exit 1 if any fails
TIER=${1:-quick}; export VERIF_SEED=${2:-1}
cd "$(dirname "$0")"; rc=0
for p in $(ls props | grep -E '^C[0-9][0-9]\.json$' | sed 's/.json//'); do
  out=$(./check $p $TIER 2>&1); r=$?
  echo "$p rc=$r $(echo "$out" | grep -v '^KNOWN-FINDING' | tail -n 1 | cut -c1-160)"
  [ $r -ne 0 ] && rc=1
done
exit $rc
