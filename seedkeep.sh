#!/bin/bash
# usage: seedkeep.sh <Cxx> <n> "<which checks catch it / notes>"
ID=$1; N=$2; NOTE=$3
D=/verif/seeded/$ID-$N; mkdir -p $D
cp /tmp/seed/$ID/out/$N/patch.diff /tmp/seed/$ID/out/$N/demo_test.go $D/
python3 - "$ID" "$N" "$NOTE" <<'PY'
import json,sys
i,n,note=sys.argv[1:4]
m=json.load(open(f'/tmp/seed/{i}/out/{n}/meta.json'))
m['integrator_verified']={'what_i_ran':'seedverify.sh: scratch worktree — demo passes at HEAD, patch applies, go build + baseline (root and lz4) pass with patch, demo fails with patch; then ./check quick with VERIF_REPO=<that worktree> (same code path as applying to /repo)','result':note}
json.dump(m,open(f'/verif/seeded/{i}-{n}/meta.json','w'),indent=1)
PY
echo kept $D
