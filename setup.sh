#!/bin/bash
# Offline setup after a fresh restore: build the Lean project (models, proofs, native driver) and every harness.
set -e
cd "$(dirname "$0")"
export GOFLAGS=-mod=mod GOPROXY=off GOSUMDB=off GOTOOLCHAIN=local
mkdir -p .build evidence replays
(cd tools/go2lean && GOFLAGS= go build -o ../../.build/go2lean . && cd ../.. && .build/go2lean /repo tools/go2lean/targets.json lean) || echo "setup: go2lean failed"
(cd lean && lake build 2>&1 | tail -3)
cp /repo/go.sum harness/go.sum 2>/dev/null || true
for d in harness/cmd/*/; do
  h=$(basename $d)
  (cd harness && go build -tags "verif verif_$h" -o ../.build/$h ./cmd/$h) || echo "setup: harness $h failed to build"
done
echo setup done
