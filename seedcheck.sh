#!/bin/bash
# usage: seedcheck.sh <Cxx> <n> [props to check, default: the seeded property]
# verifies a seeded change from /tmp/seed/<id>/out/<n> in the scratch worktree /tmp/seed/<id>/wt
# (builds, baseline passes, demo fails with / passes without), then applies it to /repo, runs the checks, reverts.
set -u
ID=$1; N=$2; shift 2
PROPS=${@:-$ID}
export GOFLAGS=-mod=mod GOPROXY=off GOSUMDB=off GOTOOLCHAIN=local
S=/tmp/seed/$ID; O=$S/out/$N; WT=$S/wt
[ -d /verif/seeded/$ID-$N ] && O=/verif/seeded/$ID-$N
PLACE=$(python3 -c "import json;print(json.load(open('$O/meta.json'))['demo_placement'].split()[0])")
case "$PLACE" in */|.) PLACE="${PLACE%/}/zz_seed_demo_test.go";; esac
CMD=$(python3 -c "import json;print(json.load(open('$O/meta.json'))['demo_cmd'])")
cd $WT && git checkout -q -- . && git clean -fdq
echo "== demo WITHOUT patch"; cp $O/demo_test.go $WT/$PLACE; (cd $WT && timeout 600 bash -c "$CMD" >/tmp/seed_demo0.txt 2>&1; echo "rc=$?"); tail -3 /tmp/seed_demo0.txt
git apply $O/patch.diff || { echo "PATCH DOES NOT APPLY"; exit 1; }
rm -f $WT/$PLACE
echo "== build + baseline WITH patch"; (go build ./... && go test -vet=off -count=1 ./... 2>&1 | tail -5; cd lz4 && go test -vet=off -count=1 ./... 2>&1 | tail -1)
cp $O/demo_test.go $WT/$PLACE
echo "== demo WITH patch"; (timeout 600 bash -c "$CMD" >/tmp/seed_demo1.txt 2>&1; echo "rc=$?"); tail -5 /tmp/seed_demo1.txt | cut -c1-300
git checkout -q -- . && git clean -fdq
echo "== /verif checks with patch applied to /repo"
cd /repo && git apply $O/patch.diff && cd /verif && for p in $PROPS; do ./check $p quick 2>&1 | grep -v KNOWN-FINDING | tail -3; done
git -C /repo apply -R $O/patch.diff || echo 'REVERT FAILED'; git -C /repo status --short | grep -v '^??' 
