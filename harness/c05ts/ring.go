package c05ts

import (
	"encoding/hex"
	"strings"

	"github.com/gocql/gocql"
	"verifharness/c05util"
	"verifharness/vh"
)

// Token strings from the network (op `ring <hex partitioner name> <hosts> <hex lookup>`): hosts = `;`-separated,
// each a `,`-separated list of hex token strings (`-` = the empty string, `.` = a host without tokens). The real
// newTokenRing (partitioner chosen by name suffix, ParseString of every string, sort.Sort with token.Less) and
// GetHostForToken(ParseString(lookup)) through the hook VerifC05hRing, with recover(). Answer:
// `err` (unsupported partitioner) | `ok:<n>:<tokens in ring order>:<end token>`; tokens as hex of token.String().
// For RandomPartitioner a string that is no base-10 integer leaves the big.Int "undefined" (math/big): then only
// `ok:<n>:?:?` is compared. Model: Model/TokenRing.lean.

func unhexTok(s string) (string, bool) {
	if s == "-" {
		return "", true
	}
	b, err := hex.DecodeString(s)
	return string(b), err == nil
}

func hx(s string) string {
	if s == "" {
		return "-"
	}
	return hex.EncodeToString([]byte(s))
}

func isDec(s string) bool {
	if len(s) > 0 && (s[0] == '+' || s[0] == '-') {
		s = s[1:]
	}
	if s == "" {
		return false
	}
	for i := 0; i < len(s); i++ {
		if s[i] < '0' || s[i] > '9' {
			return false
		}
	}
	return true
}

func RingExec(w []string) (string, bool) {
	if len(w) == 0 || w[0] != "ring" {
		return "", false
	}
	if len(w) != 4 {
		return "bad-op", true
	}
	name, ok := unhexTok(w[1])
	lookup, ok2 := unhexTok(w[3])
	if !ok || !ok2 {
		return "bad-op", true
	}
	var hosts [][]string
	undef := !isDec(lookup)
	for _, h := range strings.Split(w[2], ";") {
		var toks []string
		if h != "." {
			for _, t := range strings.Split(h, ",") {
				s, ok := unhexTok(t)
				if !ok {
					return "bad-op", true
				}
				if !isDec(s) {
					undef = true
				}
				toks = append(toks, s)
			}
		}
		hosts = append(hosts, toks)
	}
	var ans string
	crash := c05util.Guard(func() {
		order, end, err := gocql.VerifC05hRing(name, hosts, lookup)
		if err != nil {
			ans = "err"
			return
		}
		if strings.HasSuffix(name, "RandomPartitioner") && !strings.HasSuffix(name, "Murmur3Partitioner") &&
			!strings.HasSuffix(name, "OrderedPartitioner") && undef {
			ans = "ok:" + itoa(len(order)) + ":?:?"
			return
		}
		var hs []string
		for _, t := range order {
			hs = append(hs, hx(t))
		}
		e := end
		if end != "none" {
			e = hx(end)
		}
		ans = "ok:" + itoa(len(order)) + ":" + strings.Join(hs, ",") + ":" + e
	})
	if crash != "" {
		return crash, true
	}
	return ans, true
}

var ringNames = []string{"org.apache.cassandra.dht.Murmur3Partitioner", "org.apache.cassandra.dht.RandomPartitioner",
	"org.apache.cassandra.dht.ByteOrderedPartitioner", "org.apache.cassandra.dht.OrderedPartitioner", "Murmur3Partitioner",
	"RandomPartitioner", "OrderPreservingPartitioner", "com.example.FooPartitioner", "", "RandomPartitioner ", "xMurmur3PartitionerRandomPartitioner"}

var ringToks = []string{"", "0", "-0", "+7", "12", "-12", "12x4", "x", "-", "+", " 5", "5 ", "1_000", "0x10", "007",
	"9223372036854775807", "9223372036854775808", "-9223372036854775808", "-9223372036854775809",
	"170141183460469231731687303715884105728", "340282366920938463463374607431768211456", "99999999999999999999999999999999999999999999",
	"1e3", "٣", "\x00", "--1", "+-1", "1-"}

func genTok(r *vh.Rng) string {
	if r.Intn(4) != 0 {
		return ringToks[r.Intn(len(ringToks))]
	}
	n := r.Intn(6)
	b := make([]byte, n)
	for i := range b {
		b[i] = "0123456789-+ x_"[r.Intn(15)]
	}
	return string(b)
}

func RingGen(r *vh.Rng, tier string, emit func(op, impl, class string, nontrivial bool)) {
	do := func(name string, hosts [][]string, lookup string) {
		var hs []string
		for _, h := range hosts {
			if len(h) == 0 {
				hs = append(hs, ".")
				continue
			}
			var ts []string
			for _, t := range h {
				ts = append(ts, hx(t))
			}
			hs = append(hs, strings.Join(ts, ","))
		}
		op := "ring " + hx(name) + " " + strings.Join(hs, ";") + " " + hx(lookup)
		a, _ := RingExec(strings.Fields(op))
		emit(op, a, "ring/"+strings.SplitN(a, ":", 2)[0], true)
	}
	// every partitioner name x every token string next to a well-formed one (so that the sort compares it), as ring
	// member and as lookup
	for _, n := range ringNames {
		for _, t := range ringToks {
			do(n, [][]string{{"5", t}, {"-3"}}, "4")
			do(n, [][]string{{"5"}, {"100", "-3"}}, t)
		}
		do(n, [][]string{{}}, "1")
		do(n, [][]string{{"1"}}, "1")
	}
	m := 300
	if tier == "thorough" {
		m = 20000
	}
	for i := 0; i < m; i++ {
		var hosts [][]string
		for j, nh := 0, 1+r.Intn(3); j < nh; j++ {
			var ts []string
			for k, nt := 0, r.Intn(4); k < nt; k++ {
				ts = append(ts, genTok(r))
			}
			hosts = append(hosts, ts)
		}
		do(ringNames[r.Intn(len(ringNames))], hosts, genTok(r))
	}
}
