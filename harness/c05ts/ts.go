// Package c05ts: C05 part 1 — schema type-string parsers (metadata.go parseType, helpers.go
// getCassandraType / splitCompositeTypes / apacheToCassandraType, metadata.go getTypeInfo) run on
// arbitrary strings; answer = canonical rendering of the resulting type tree, or crash:<func>:<kind>.
package c05ts

import (
	"sort"
	"strings"

	"github.com/gocql/gocql"
	"verifharness/c05util"
	"verifharness/vh"
)

func renderTy(t gocql.TypeInfo) string {
	switch v := t.(type) {
	case gocql.NativeType:
		if v.Type() == gocql.TypeCustom {
			return "c" + vh.Hex([]byte(v.Custom()))
		}
		return "n" + itoa(int(v.Type()))
	case gocql.CollectionType:
		switch v.Type() {
		case gocql.TypeList:
			return "L(" + renderTy(v.Elem) + ")"
		case gocql.TypeSet:
			return "S(" + renderTy(v.Elem) + ")"
		case gocql.TypeMap:
			return "M(" + renderTy(v.Key) + "," + renderTy(v.Elem) + ")"
		}
		return "?coll"
	case gocql.TupleTypeInfo:
		parts := make([]string, len(v.Elems))
		for i, e := range v.Elems {
			parts[i] = renderTy(e)
		}
		return "T(" + strings.Join(parts, ",") + ")"
	case nil:
		return "nil"
	}
	return "?"
}

func itoa(n int) string {
	if n == 0 {
		return "0"
	}
	s := ""
	for n > 0 {
		s = string(rune('0'+n%10)) + s
		n /= 10
	}
	return s
}

func isASCII(b []byte) bool {
	for _, c := range b {
		if c >= 0x80 {
			return false
		}
	}
	return true
}

// Exec answers one op line (already split into words).
func Exec(w []string) (string, bool) {
	if len(w) != 2 {
		return "", false
	}
	switch w[0] {
	case "ts", "gct", "gctx", "gti", "gtix", "a2c":
	default:
		return "", false
	}
	in, err := vh.UnHex(w[1])
	if err != nil {
		return "bad-op", true
	}
	s := string(in)
	var ans string
	crash := c05util.Guard(func() {
		switch w[0] {
		case "ts":
			comp, types, rev, colls := gocql.VerifC05ParseType(s)
			var sb strings.Builder
			if comp {
				sb.WriteString("C[")
			} else {
				sb.WriteString("S[")
			}
			for i, t := range types {
				if i > 0 {
					sb.WriteByte(',')
				}
				if rev[i] {
					sb.WriteString("r:")
				}
				sb.WriteString(renderTy(t))
			}
			sb.WriteString("]{")
			keys := make([]string, 0, len(colls))
			for k := range colls {
				keys = append(keys, k)
			}
			sort.Strings(keys)
			for i, k := range keys {
				if i > 0 {
					sb.WriteByte(',')
				}
				sb.WriteString(vh.Hex([]byte(k)) + "=" + renderTy(colls[k]))
			}
			sb.WriteString("}")
			ans = "ok:" + sb.String()
		case "gct":
			ans = "ok:" + renderTy(gocql.VerifC05GetCassandraType(s))
		case "gctx":
			gocql.VerifC05GetCassandraType(s)
			ans = "ok"
		case "gti":
			ans = "ok:" + renderTy(gocql.VerifC05GetTypeInfo(s))
		case "gtix":
			gocql.VerifC05GetTypeInfo(s)
			ans = "ok"
		case "a2c":
			ans = "ok:" + vh.Hex([]byte(gocql.VerifC05ApacheToCassandraType(s)))
		}
	})
	if crash != "" {
		return crash, true
	}
	return ans, true
}

const ap = "org.apache.cassandra.db.marshal."

var simpleClasses = []string{"AsciiType", "LongType", "BytesType", "BooleanType", "CounterColumnType", "DecimalType",
	"DoubleType", "FloatType", "Int32Type", "ShortType", "ByteType", "TimeType", "DateType", "TimestampType", "UUIDType",
	"LexicalUUIDType", "UTF8Type", "IntegerType", "TimeUUIDType", "InetAddressType", "DurationType", "TupleType",
	"FooType", "DynamicCompositeType", "x", "c", "u", "s", "t", "o", "m"}

func ws(r *vh.Rng) string {
	switch r.Intn(8) {
	case 0:
		return " "
	case 1:
		return "\n\t "
	}
	return ""
}

// genClass builds a (mostly) well-formed Java class string.
func genClass(r *vh.Rng, depth int) string {
	pfx := ap
	if r.Intn(6) == 0 {
		pfx = ""
	}
	k := r.Intn(12)
	if depth <= 0 && k < 6 {
		k = 11
	}
	switch k {
	case 0, 1:
		return pfx + "ListType" + ws(r) + "(" + ws(r) + genClass(r, depth-1) + ws(r) + ")"
	case 2:
		return pfx + "SetType(" + genClass(r, depth-1) + ")"
	case 3, 4:
		return pfx + "MapType(" + genClass(r, depth-1) + "," + ws(r) + genClass(r, depth-1) + ")"
	case 5:
		return pfx + "ReversedType(" + genClass(r, depth-1) + ")"
	case 6:
		// arbitrary class with params (custom)
		n := r.Intn(3)
		ps := make([]string, n)
		for i := range ps {
			ps[i] = genClass(r, depth-1)
		}
		return pfx + "FooType(" + strings.Join(ps, ",") + ")"
	}
	return pfx + simpleClasses[r.Intn(len(simpleClasses))]
}

var hexNames = []string{"6162", "61", "", "zz", "6", "4142", "6162", "AbCd", "0g"}

func genComposite(r *vh.Rng) string {
	n := 1 + r.Intn(3)
	ps := make([]string, 0, n+1)
	for i := 0; i < n; i++ {
		ps = append(ps, genClass(r, 2))
	}
	if r.Intn(2) == 0 {
		m := r.Intn(3)
		cs := make([]string, m)
		for i := range cs {
			name := hexNames[r.Intn(len(hexNames))]
			if r.Intn(8) == 0 {
				cs[i] = genClass(r, 1) // unnamed collection param
			} else {
				cs[i] = name + ws(r) + ":" + ws(r) + genClass(r, 1)
			}
		}
		coll := ap + "ColumnToCollectionType(" + strings.Join(cs, ",") + ")"
		if r.Intn(6) == 0 {
			coll = ap + "ColumnToCollectionType"
		}
		ps = append(ps, coll)
	}
	sep := ","
	if r.Intn(5) == 0 {
		sep = ", "
	}
	return ws(r) + ap + "CompositeType(" + strings.Join(ps, sep) + ")"
}

var baseNames = []string{"ascii", "bigint", "blob", "boolean", "counter", "date", "decimal", "double", "duration", "float",
	"int", "smallint", "tinyint", "time", "timestamp", "uuid", "varchar", "text", "varint", "timeuuid", "inet", "MapType",
	"ListType", "SetType", "TupleType", "foo", "", "frozen", "map"}

func genCQL(r *vh.Rng, depth int) string {
	k := r.Intn(10)
	if depth <= 0 && k < 6 {
		k = 9
	}
	sep := ", "
	if r.Intn(3) == 0 {
		sep = ","
	}
	switch k {
	case 0:
		return "frozen<" + genCQL(r, depth-1) + ">"
	case 1:
		return "list<" + genCQL(r, depth-1) + ">"
	case 2:
		return "set<" + genCQL(r, depth-1) + ">"
	case 3, 4:
		return "map<" + genCQL(r, depth-1) + sep + genCQL(r, depth-1) + ">"
	case 5:
		n := r.Intn(4)
		ps := make([]string, n)
		for i := range ps {
			ps[i] = genCQL(r, depth-1)
		}
		return "tuple<" + strings.Join(ps, sep) + ">"
	}
	return baseNames[r.Intn(len(baseNames))]
}

func mutate(r *vh.Rng, s string, alphabet string) string {
	b := []byte(s)
	n := 1 + r.Intn(3)
	for i := 0; i < n; i++ {
		switch r.Intn(5) {
		case 0: // truncate
			if len(b) > 0 {
				b = b[:r.Intn(len(b)+1)]
			}
		case 1: // delete one byte
			if len(b) > 0 {
				p := r.Intn(len(b))
				b = append(b[:p:p], b[p+1:]...)
			}
		case 2: // insert a structural byte
			p := r.Intn(len(b) + 1)
			c := alphabet[r.Intn(len(alphabet))]
			nb := append([]byte{}, b[:p]...)
			nb = append(nb, c)
			b = append(nb, b[p:]...)
		case 3: // replace
			if len(b) > 0 {
				b[r.Intn(len(b))] = alphabet[r.Intn(len(alphabet))]
			}
		case 4: // drop a suffix starting at a structural byte
			if i := strings.LastIndexAny(string(b), "()<>,:"); i >= 0 {
				b = b[:i+r.Intn(2)]
			}
		}
	}
	return string(b)
}

type emitFn = func(op, impl, class string, nontrivial bool)

func outcomeClass(a string) string {
	if strings.HasPrefix(a, "crash:") {
		return "known/" + a[6:]
	}
	if i := strings.IndexByte(a, ':'); i >= 0 {
		return a[:i]
	}
	return a
}

// Gen generates the type-string cases of one run.
func Gen(r *vh.Rng, tier string, emit emitFn) {
	mult := 1
	if tier == "thorough" {
		mult = 30
	}
	do := func(op, s string) {
		if (op == "gct" || op == "gti") && !isASCII([]byte(s)) {
			op += "x"
		}
		line := op + " " + vh.Hex([]byte(s))
		a, _ := Exec(strings.Fields(line))
		emit(line, a, "ts/"+op+"/"+outcomeClass(a), len(s) > 0)
	}
	// the reproduced crashers of DESIGN.md D12 and the shapes named in the task
	fixed := []string{"A(", ap + "CompositeType()", ap + "CompositeType", ap + "ListType", ap + "SetType", ap + "MapType",
		ap + "MapType(" + ap + "Int32Type)", ap + "ReversedType", ap + "ReversedType()", "A(B", "A(B:", "A(B(C)", "A( ", "A(B,",
		ap + "CompositeType(" + ap + "ColumnToCollectionType(" + ap + "Int32Type))",
		ap + "CompositeType(" + ap + "ReversedType)", ap + "CompositeType(" + ap + "Int32Type," + ap + "ColumnToCollectionType)",
		ap + "CompositeType(" + ap + "ColumnToCollectionType)", "", " ", "(", ")", "A()", "A(,", "A)", "A(B,,", "A(B C)", "A(B:C:D)",
		ap + "ListType(" + ap + "ListType)", ap + "MapType(" + ap + "ListType," + ap + "Int32Type)"}
	for _, s := range fixed {
		do("ts", s)
		do("a2c", s)
		do("gti", s)
	}
	for _, s := range []string{"frozen<", "set<", "list<", "map<", "tuple<", "frozen<>", "map<>", "tuple<>", "map<int>", "map<int,int>",
		"map<int, int>", "map<int, int, int>", "tuple<int, text,map<int,int>>", "map<text, frozen<list<int>>>", "list<list<list<int>>>",
		"frozen<frozen<frozen<", "map<,>", "map<, >", "tuple<,,>", "tuple<a,,b>", "tuple< int ,\ttext >", ">", "<", "map<>>, <int>"} {
		do("gct", s)
	}
	// every truncation of a few well-formed strings
	for i := 0; i < 6*mult; i++ {
		var s string
		if i%2 == 0 {
			s = genComposite(r)
		} else {
			s = genClass(r, 3)
		}
		for k := 0; k <= len(s); k++ {
			do("ts", s[:k])
		}
		c := genCQL(r, 3)
		for k := 0; k <= len(c); k++ {
			do("gct", c[:k])
		}
	}
	n := 1500 * mult
	for i := 0; i < n; i++ {
		var s string
		switch r.Intn(3) {
		case 0:
			s = genComposite(r)
		case 1:
			s = genClass(r, 3)
		default:
			s = genClass(r, 1)
		}
		if r.Intn(2) == 0 {
			s = mutate(r, s, "(),: \tAz.9")
		}
		do("ts", s)
		if i%3 == 0 {
			if len(s) < 400 && strings.Count(s, ",")+strings.Count(s, "(") < 12 {
				do("a2c", s)
				do("gti", s)
			}
		}
		c := genCQL(r, 3)
		if r.Intn(2) == 0 {
			c = mutate(r, c, "<>, \tmapfrozenlistup")
		}
		do("gct", c)
	}
	// small alphabets, random short strings (exhaustive in thorough)
	alpha := "A(),: "
	alphaC := "<>, ma"
	if tier == "thorough" {
		var rec func(prefix string, n int, al string, op string)
		rec = func(prefix string, n int, al string, op string) {
			do(op, prefix)
			if n == 0 {
				return
			}
			for i := 0; i < len(al); i++ {
				rec(prefix+string(al[i]), n-1, al, op)
			}
		}
		rec("", 6, alpha, "ts")
		rec("map<", 5, alphaC, "gct")
		rec("tuple<", 5, alphaC, "gct")
	}
	for i := 0; i < 2000*mult; i++ {
		l := r.Intn(9)
		b := make([]byte, l)
		for j := range b {
			b[j] = alpha[r.Intn(len(alpha))]
		}
		do("ts", string(b))
		for j := range b {
			b[j] = alphaC[r.Intn(len(alphaC))]
		}
		do("gct", []string{"map<", "tuple<", "frozen<", "list<", ""}[r.Intn(5)]+string(b))
	}
	// arbitrary bytes (incl. invalid UTF-8): outcome class only for the rune-based splitter
	for i := 0; i < 300*mult; i++ {
		b := r.Bytes(r.Intn(24))
		do("ts", string(b))
		do("gct", "tuple<"+string(b)+",map<"+string(r.Bytes(r.Intn(6)))+">>")
		do("a2c", string(b))
		do("gti", ap+string(b))
	}
	// allocation amplification of apacheToCassandraType (finding KF-C05-ts-alloc): k single-letter
	// fields drawn from the letters of "custom" are each replaced by "custom" everywhere
	for _, k := range []int{6, 12, 18} {
		parts := make([]string, k)
		for i := range parts {
			parts[i] = string("custom"[i%6])
		}
		do("a2c", strings.Join(parts, ","))
	}
}
