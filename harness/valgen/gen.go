package valgen

import (
	"math/big"
	"strconv"

	"verifharness/vh"
)

// Generators: CQL type trees to depth 3, a Go type to bind to each (documented ones mostly, some
// undocumented / mismatching), and values drawn from boundary pools.

type Gen struct {
	R *vh.Rng
}

func (g *Gen) pick(ss []string) string { return ss[g.R.Intn(len(ss))] }
func (g *Gen) chance(pct int) bool     { return g.R.Intn(100) < pct }

var hashableScalars = []string{"int", "bigint", "text", "varchar", "smallint", "tinyint", "varint", "uuid", "boolean", "timestamp", "ascii", "time"}

// Ty: a random type tree.
func (g *Gen) Ty(depth int) *Ty {
	if depth <= 0 || g.chance(45) {
		return &Ty{Name: g.pick(Scalars)}
	}
	switch g.R.Intn(6) {
	case 0:
		return &Ty{Name: "list", Elems: []*Ty{g.Ty(depth - 1)}}
	case 1:
		return &Ty{Name: "set", Elems: []*Ty{g.Ty(depth - 1)}}
	case 2:
		return &Ty{Name: "map", Elems: []*Ty{{Name: g.pick(hashableScalars)}, g.Ty(depth - 1)}}
	case 3, 4:
		n := 1 + g.R.Intn(3)
		t := &Ty{Name: "tuple"}
		uniform := g.chance(30)
		var first *Ty
		for i := 0; i < n; i++ {
			e := g.Ty(depth - 1)
			if uniform {
				if first == nil {
					first = e
				}
				e = first
			}
			t.Elems = append(t.Elems, e)
		}
		return t
	default:
		n := 1 + g.R.Intn(3)
		t := &Ty{Name: "udt"}
		for i := 0; i < n; i++ {
			t.Names = append(t.Names, string(rune('a'+i)))
			t.Elems = append(t.Elems, g.Ty(depth-1))
		}
		return t
	}
}

func kgt(k string, named bool) *GT {
	if named {
		return &GT{Name: "nk", Kind: k}
	}
	return &GT{Name: "k", Kind: k}
}

var mismatchGTs = []string{"bool", "f64", "string", "dur", "f32"}
var mismatchScalarGTs = []string{"bool", "f64", "string", "bytes", "time", "uuid", "big", "cdur", "dec", "ip", "a16", "f32", "dur"}

// docGTs: the documented Go source types of a scalar column (weights by repetition).
func (g *Gen) scalarGT(t string) *GT {
	anyInt := func() *GT { return kgt(g.pick(Kinds), g.chance(25)) }
	i64 := func() *GT { return kgt("int64", false) }
	switch t {
	case "tinyint", "smallint", "int":
		switch g.R.Intn(10) {
		case 0:
			return &GT{Name: "string"}
		case 1:
			return &GT{Name: "dur"}
		}
		return anyInt()
	case "bigint", "counter", "varint":
		switch g.R.Intn(10) {
		case 0:
			return &GT{Name: "string"}
		case 1, 2:
			return &GT{Name: "big"}
		case 3:
			return &GT{Name: "dur"}
		}
		return anyInt()
	case "ascii", "text", "varchar", "blob":
		return &GT{Name: g.pick([]string{"string", "string", "bytes", "bytes", "nstring", "nbytes"})}
	case "boolean":
		return &GT{Name: g.pick([]string{"bool", "bool", "nbool"})}
	case "float":
		return &GT{Name: g.pick([]string{"f32", "f32", "nf32"})}
	case "double":
		return &GT{Name: g.pick([]string{"f64", "f64", "nf64"})}
	case "decimal":
		return &GT{Name: "dec"}
	case "time":
		switch g.R.Intn(4) {
		case 0:
			return &GT{Name: "dur"}
		case 1:
			return kgt("int64", true)
		}
		return i64()
	case "timestamp":
		switch g.R.Intn(5) {
		case 0:
			return i64()
		case 1:
			return kgt("int64", true)
		}
		return &GT{Name: "time"}
	case "date":
		switch g.R.Intn(6) {
		case 0, 1:
			return i64()
		case 2:
			return &GT{Name: "string"}
		}
		return &GT{Name: "time"}
	case "duration":
		switch g.R.Intn(6) {
		case 0:
			return i64()
		case 1:
			return kgt("int64", true)
		case 2:
			return &GT{Name: "dur"}
		}
		return &GT{Name: "cdur"}
	case "uuid", "timeuuid":
		return &GT{Name: g.pick([]string{"uuid", "uuid", "a16", "bytes", "string"})}
	case "inet":
		return &GT{Name: "ip"}
	}
	return &GT{Name: "string"}
}

func hashableGT(gt *GT) bool {
	switch gt.Name {
	case "k", "nk", "string", "nstring", "bool", "nbool", "uuid", "a16", "dur":
		return true
	}
	return false
}

// GoType chooses a Go type to bind to a column of type t.
func (g *Gen) GoType(t *Ty, depth int) *GT { return noByteSlices(g.goType(t, depth)) }

// noByteSlices: a slice / array of (named) uint8 is a []byte to reflect — such values are written as `b`, not `sl`
func noByteSlices(gt *GT) *GT {
	for _, e := range gt.Elems {
		noByteSlices(e)
		if e.Name == "mset" { // map[X]struct{} only as the value bound to the column itself
			e.Name = "slice"
		}
	}
	if (gt.Name == "slice" || gt.Name == "array" || gt.Name == "mset") && (gt.Elems[0].Name == "k" || gt.Elems[0].Name == "nk") && gt.Elems[0].Kind == "uint8" {
		gt.Elems[0] = &GT{Name: gt.Elems[0].Name, Kind: "uint16"}
	}
	return gt
}

func (g *Gen) goType(t *Ty, depth int) *GT {
	if g.chance(6) {
		return &GT{Name: "ptr", Elems: []*GT{g.goType(t, depth)}}
	}
	if g.chance(4) {
		if t.IsScalar() {
			return &GT{Name: g.pick(mismatchScalarGTs)}
		}
		return &GT{Name: g.pick(mismatchGTs)}
	}
	switch t.Name {
	case "list", "set":
		e := g.goType(t.Elems[0], depth-1)
		switch x := g.R.Intn(20); {
		case x < 11:
			return &GT{Name: "slice", Elems: []*GT{e}}
		case x < 14:
			return &GT{Name: "array", N: g.R.Intn(4), Elems: []*GT{e}}
		case x < 17:
			return &GT{Name: "slice", Elems: []*GT{{Name: "iface"}}}
		default:
			if hashableGT(e) {
				return &GT{Name: "mset", Elems: []*GT{e}}
			}
			return &GT{Name: "slice", Elems: []*GT{e}}
		}
	case "map":
		k := g.goType(t.Elems[0], 0)
		for tries := 0; !hashableGT(k) && tries < 20; tries++ {
			k = g.scalarGT(t.Elems[0].Name)
		}
		if !hashableGT(k) {
			k = &GT{Name: "string"}
		}
		v := g.goType(t.Elems[1], depth-1)
		if g.chance(10) {
			v = &GT{Name: "iface"}
		}
		return &GT{Name: "map", Elems: []*GT{k, v}}
	case "tuple":
		uniform := true
		for _, e := range t.Elems {
			if e != t.Elems[0] {
				uniform = false
			}
		}
		x := g.R.Intn(20)
		if uniform && x < 8 {
			e := g.goType(t.Elems[0], depth-1)
			if x < 4 {
				return &GT{Name: "slice", Elems: []*GT{e}}
			}
			return &GT{Name: "array", N: len(t.Elems), Elems: []*GT{e}}
		}
		if x < 12 {
			return &GT{Name: "slice", Elems: []*GT{{Name: "iface"}}}
		}
		if x < 14 {
			// [N]interface{}: the reflect.Array branch of marshalTuple with interface elements (nil, typed nils, ...)
			return &GT{Name: "array", N: len(t.Elems), Elems: []*GT{{Name: "iface"}}}
		}
		s := &GT{Name: "struct"}
		for _, e := range t.Elems {
			s.Elems = append(s.Elems, g.goType(e, depth-1))
		}
		if g.chance(8) && len(s.Elems) > 1 {
			s.Elems = s.Elems[1:]
		}
		return s
	case "udt":
		x := g.R.Intn(20)
		if x < 10 {
			return &GT{Name: "umap"}
		}
		s := &GT{Name: "ustruct"}
		for i, e := range t.Elems {
			if g.chance(15) {
				continue // a UDT field without a Go field
			}
			s.Names = append(s.Names, t.Names[i])
			s.Elems = append(s.Elems, g.goType(e, depth-1))
		}
		if g.chance(10) {
			s.Names = append(s.Names, "zz")
			s.Elems = append(s.Elems, &GT{Name: "string"})
		}
		if len(s.Elems) == 0 || x == 19 {
			st := &GT{Name: "struct"}
			for _, e := range t.Elems {
				st.Elems = append(st.Elems, g.goType(e, depth-1))
			}
			return st
		}
		return s
	}
	return g.scalarGT(t.Name)
}

// ---------- integer pools ----------

func bi(n int64) *big.Int { return big.NewInt(n) }

func (g *Gen) Pool64() *big.Int {
	switch g.R.Intn(10) {
	case 0:
		return bi(int64(g.R.Intn(5)) - 2)
	case 1, 2, 3, 4:
		e := []uint{7, 8, 15, 16, 31, 32, 63, 64}[g.R.Intn(8)]
		n := pow2(e)
		n.Add(n, bi(int64(g.R.Intn(3))-1))
		if g.R.Bool() {
			n.Neg(n)
		}
		return n
	case 5:
		return new(big.Int).SetUint64(g.R.U64())
	case 6:
		return bi(int64(g.R.U64()))
	case 7:
		return bi(int64(g.R.U64()) >> uint(g.R.Intn(64)))
	case 8:
		return bi(int64(g.R.Intn(70000)) - 35000)
	default:
		return bi(int64(g.R.Intn(600)) - 300)
	}
}

// PoolBig: integers of 1..40 bytes on both sides of every byte-length boundary.
func (g *Gen) PoolBig() *big.Int {
	if g.chance(35) {
		return g.Pool64()
	}
	k := uint(1 + g.R.Intn(40))
	var n *big.Int
	switch g.R.Intn(4) {
	case 0:
		n = pow2(8*k - 1)
	case 1:
		n = pow2(8 * k)
	case 2:
		n = new(big.Int).SetBytes(g.R.Bytes(int(k)))
	default:
		n = new(big.Int).SetBytes(append([]byte{0xff}, g.R.Bytes(int(k)-1)...))
	}
	n.Add(n, bi(int64(g.R.Intn(3))-1))
	if g.R.Bool() {
		n.Neg(n)
	}
	return n
}

func (g *Gen) IntOfKind(k string) *big.Int {
	for i := 0; i < 12; i++ {
		if n := g.Pool64(); KindHolds(k, n) {
			return n
		}
	}
	b := KindBits(k)
	n := new(big.Int).SetUint64(g.R.U64())
	n.And(n, new(big.Int).Sub(pow2(b), bi(1)))
	if KindSigned(k) {
		n.Sub(n, pow2(b-1))
	}
	return n
}

func (g *Gen) decString(n *big.Int) []byte {
	s := n.String()
	switch g.R.Intn(12) {
	case 0:
		if n.Sign() >= 0 {
			s = "+" + s
		}
	case 1:
		if n.Sign() >= 0 {
			s = "00" + s
		} else {
			s = "-00" + s[1:]
		}
	case 2:
		s = g.pick([]string{"", "-", "+", "1_0", " 1", "1 ", "0x10", "12a", "--1", "+-1", "1.0", "１"})
	}
	return []byte(s)
}

var secPool = []int64{0, -1, 1, -43200, 43200, 86399, 86400, -86400, -86401, -86399, 1000000000, -1000000000, zeroTimeSec, zeroTimeSec + 1,
	9223372036854775, 9223372036854776, -9223372036854775, -9223372036854776, 185542587187199, -185542587273600, 1 << 40, -(1 << 40)}
var nsecPool = []int64{0, 0, 0, 1, 999999, 1000000, 1000001, 500000000, 999999999, 999000000}

func (g *Gen) timeVal() *Val {
	var sec int64
	switch g.R.Intn(4) {
	case 0:
		sec = int64(g.R.U64()) >> uint(10+g.R.Intn(40))
	case 1:
		sec = (int64(g.R.Intn(40000)) - 20000) * 86400
		if g.R.Bool() {
			sec += int64(g.R.Intn(86400))
		}
	default:
		sec = secPool[g.R.Intn(len(secPool))]
	}
	nsec := nsecPool[g.R.Intn(len(nsecPool))]
	if g.chance(20) {
		nsec = int64(g.R.Intn(1000000000))
	}
	return &Val{Tag: "t", Int: bi(sec), Int2: bi(nsec)}
}

var f32Pool = []uint64{0, 0x80000000, 0x3f800000, 0xbf800000, 0x7f800000, 0xff800000, 0x7fc00000, 0x7fa00000, 0x7f800001, 0xffc00001, 0x00000001, 0x7f7fffff, 0xff800001}
var f64Pool = []uint64{0, 0x8000000000000000, 0x3ff0000000000000, 0x7ff0000000000000, 0xfff0000000000000, 0x7ff8000000000000, 0x7ff4000000000000, 0x7ff0000000000001, 0xfff8000000000001, 1, 0x7fefffffffffffff}

func (g *Gen) bytesVal() []byte {
	switch g.R.Intn(6) {
	case 0:
		return []byte{}
	case 1:
		return []byte{byte(g.R.U64())}
	case 2:
		return []byte("héllo")
	default:
		return g.R.Bytes(g.R.Intn(12))
	}
}

func (g *Gen) ipVal() []byte {
	switch g.R.Intn(10) {
	case 0:
		return nil
	case 1:
		return g.R.Bytes(1 + g.R.Intn(20))
	case 2, 3, 4:
		return g.R.Bytes(4)
	case 5, 6:
		return append([]byte{0, 0, 0, 0, 0, 0, 0, 0, 0, 0, 0xff, 0xff}, g.R.Bytes(4)...)
	case 7:
		b := append([]byte{0, 0, 0, 0, 0, 0, 0, 0, 0, 0, 0xff, 0xff}, g.R.Bytes(4)...)
		b[g.R.Intn(12)] ^= byte(1 << uint(g.R.Intn(8)))
		return b
	default:
		return g.R.Bytes(16)
	}
}

func (g *Gen) uuidString(b []byte) []byte {
	const hx = "0123456789abcdef"
	var s []byte
	for i, x := range b {
		if i == 4 || i == 6 || i == 8 || i == 10 {
			s = append(s, '-')
		}
		s = append(s, hx[x>>4], hx[x&15])
	}
	switch g.R.Intn(8) {
	case 0:
		return []byte(string(s[:len(s)-1]))
	case 1:
		return append(s, '0')
	case 2:
		for i := range s {
			if s[i] >= 'a' && s[i] <= 'f' && g.R.Bool() {
				s[i] -= 32
			}
		}
	case 3:
		var t []byte
		for _, c := range s {
			if c != '-' {
				t = append(t, c)
			}
		}
		return t
	case 4:
		s[g.R.Intn(len(s))] = g.pick([]string{"g", "-", " ", "z"})[0]
	}
	return s
}

// Value: a value of Go type gt for a column of type t.
func (g *Gen) Value(t *Ty, gt *GT) *Val {
	switch gt.Name {
	case "k", "nk":
		tag := "i"
		if gt.Name == "nk" {
			tag = "ni"
		}
		n := g.IntOfKind(gt.Kind)
		if gt.Kind == "int64" && (t.Name == "date" || t.Name == "timestamp") && g.chance(70) {
			tv := g.timeVal()
			ms := new(big.Int).Mul(tv.Int, bi(1000))
			ms.Add(ms, new(big.Int).Div(tv.Int2, bi(1000000)))
			if KindHolds("int64", ms) {
				n = ms
			}
		}
		return &Val{Tag: tag, Kind: gt.Kind, Int: n}
	case "string", "nstring":
		tag := "s"
		if gt.Name == "nstring" {
			tag = "ns"
		}
		var b []byte
		switch {
		case isIntCol(t.Name):
			b = g.decString(g.PoolBig())
		case t.Name == "uuid" || t.Name == "timeuuid":
			b = g.uuidString(g.R.Bytes(16))
		case t.Name == "date" || t.Name == "duration" || t.Name == "inet":
			b = []byte{} // standard-library parsers are not modelled: only the empty string
		default:
			b = g.bytesVal()
		}
		return &Val{Tag: tag, Bytes: b}
	case "bytes", "nbytes":
		pre := ""
		if gt.Name == "nbytes" {
			pre = "n"
		}
		if g.chance(12) {
			return &Val{Tag: pre + "bnil"}
		}
		b := g.bytesVal()
		if t.Name == "uuid" || t.Name == "timeuuid" {
			b = g.R.Bytes([]int{16, 16, 16, 16, 16, 16, 0, 15, 17, 32}[g.R.Intn(10)])
		}
		return &Val{Tag: pre + "b", Bytes: b}
	case "bool", "nbool":
		return &Val{Tag: gt.Name, Bool: g.R.Bool()}
	case "f32", "nf32":
		bits := f32Pool[g.R.Intn(len(f32Pool))]
		if g.chance(40) {
			bits = g.R.U64() & 0xffffffff
		}
		return &Val{Tag: gt.Name, Bits: bits}
	case "f64", "nf64":
		bits := f64Pool[g.R.Intn(len(f64Pool))]
		if g.chance(40) {
			bits = g.R.U64()
		}
		return &Val{Tag: gt.Name, Bits: bits}
	case "big":
		return &Val{Tag: "big", Int: g.PoolBig()}
	case "dec":
		sc := []int64{0, 1, -1, 2, 10, 2147483647, -2147483648, 300}[g.R.Intn(8)]
		return &Val{Tag: "dec", Int: g.PoolBig(), Int2: bi(sc)}
	case "time":
		return g.timeVal()
	case "dur":
		return &Val{Tag: "dur", Int: g.IntOfKind("int64")}
	case "cdur":
		return &Val{Tag: "cd", Int: g.IntOfKind("int32"), Int2: g.IntOfKind("int32"), Int3: g.IntOfKind("int64")}
	case "uuid", "a16":
		return &Val{Tag: gt.Name, Bytes: g.R.Bytes(16)}
	case "ip":
		return &Val{Tag: "ip", Bytes: g.ipVal()}
	case "ptr":
		if g.chance(25) {
			return &Val{Tag: "nilptr"}
		}
		return &Val{Tag: "ptr", Elems: []*Val{g.Value(t, gt.Elems[0])}}
	case "iface":
		if g.chance(12) {
			return &Val{Tag: "nil"}
		}
		if g.chance(3) {
			return &Val{Tag: "unset"}
		}
		inner := g.GoType(t, 2)
		if inner.Name == "mset" {
			inner = &GT{Name: "slice", Elems: inner.Elems}
		}
		return g.Value(t, inner)
	case "slice", "array", "mset":
		var et *Ty
		n := g.R.Intn(4)
		if g.chance(5) {
			n = 4 + g.R.Intn(5)
		}
		if gt.Name == "array" {
			n = gt.N
		}
		if t.Name == "tuple" && gt.Name != "array" {
			n = len(t.Elems)
			if g.chance(5) {
				n = g.R.Intn(4)
			}
		}
		if gt.Name == "slice" && g.chance(8) {
			return &Val{Tag: "slnil", GT: gt.Elems[0]}
		}
		var es []*Val
		for i := 0; i < n; i++ {
			switch t.Name {
			case "list", "set":
				et = t.Elems[0]
			case "tuple":
				et = t.Elems[i%len(t.Elems)]
			default:
				et = &Ty{Name: "int"}
			}
			es = append(es, g.Value(et, gt.Elems[0]))
		}
		tag := map[string]string{"slice": "sl", "array": "arr", "mset": "mset"}[gt.Name]
		if gt.Name == "slice" && gt.Elems[0].Name == "iface" {
			return &Val{Tag: "ifs", Elems: es}
		}
		return &Val{Tag: tag, GT: gt.Elems[0], Elems: es}
	case "map":
		if g.chance(8) {
			return &Val{Tag: "mapnil", GT: gt.Elems[0], GT2: gt.Elems[1]}
		}
		kt, vt := &Ty{Name: "int"}, &Ty{Name: "int"}
		if t.Name == "map" {
			kt, vt = t.Elems[0], t.Elems[1]
		}
		n := g.R.Intn(4)
		v := &Val{Tag: "map", GT: gt.Elems[0], GT2: gt.Elems[1]}
		for i := 0; i < n; i++ {
			v.Elems = append(v.Elems, g.Value(kt, gt.Elems[0]), g.Value(vt, gt.Elems[1]))
		}
		return v
	case "struct":
		v := &Val{Tag: "st"}
		for i, e := range gt.Elems {
			et := &Ty{Name: "int"}
			if (t.Name == "tuple" || t.Name == "udt") && i < len(t.Elems) {
				et = t.Elems[i]
			}
			v.Elems = append(v.Elems, g.Value(et, e))
		}
		return v
	case "ustruct":
		v := &Val{Tag: "us"}
		for i, e := range gt.Elems {
			et := &Ty{Name: "text"}
			if t.Name == "udt" {
				if j := lookup(gt.Names[i], t.Names); j >= 0 {
					et = t.Elems[j]
				}
			}
			v.Names = append(v.Names, gt.Names[i])
			v.Elems = append(v.Elems, g.Value(et, e))
		}
		return v
	case "umap":
		if g.chance(6) {
			return &Val{Tag: "umnil"}
		}
		v := &Val{Tag: "um"}
		if t.Name != "udt" {
			return v
		}
		for i, e := range t.Elems {
			if g.chance(20) {
				continue
			}
			v.Names = append(v.Names, t.Names[i])
			v.Elems = append(v.Elems, g.Value(e, &GT{Name: "iface"}))
		}
		if g.chance(10) {
			v.Names = append(v.Names, "zz")
			v.Elems = append(v.Elems, &Val{Tag: "s", Bytes: []byte("x")})
		}
		return v
	}
	panic("gen: gotype " + gt.Name)
}

// Case: a protocol version, a type, and a value bound to it (entries of maps in canonical order).
func (g *Gen) Case(depth int) (proto byte, t *Ty, v *Val) {
	proto = byte(1 + g.R.Intn(5))
	t = g.Ty(depth)
	gt := g.GoType(t, depth)
	if g.chance(3) {
		v = &Val{Tag: g.pick([]string{"nil", "unset", "nilptr"})}
	} else {
		if gt.Name == "mset" && t.Name != "list" && t.Name != "set" {
			gt = &GT{Name: "slice", Elems: gt.Elems}
		}
		v = g.Value(t, gt)
	}
	Normalize(proto, t, v)
	return
}

func Itoa(n int) string { return strconv.Itoa(n) }

// ---------- unmarshal targets ----------

// GoTypeOf mirrors helpers.go goType: the Go type gocql itself creates for a column.
func GoTypeOf(t *Ty) *GT {
	switch t.Name {
	case "varchar", "ascii", "inet", "text":
		return &GT{Name: "string"}
	case "bigint", "counter":
		return kgt("int64", false)
	case "time":
		return &GT{Name: "dur"}
	case "timestamp", "date":
		return &GT{Name: "time"}
	case "blob":
		return &GT{Name: "bytes"}
	case "boolean":
		return &GT{Name: "bool"}
	case "float":
		return &GT{Name: "f32"}
	case "double":
		return &GT{Name: "f64"}
	case "int":
		return kgt("int", false)
	case "smallint":
		return kgt("int16", false)
	case "tinyint":
		return kgt("int8", false)
	case "decimal":
		return &GT{Name: "ptr", Elems: []*GT{{Name: "dec"}}}
	case "uuid", "timeuuid":
		return &GT{Name: "uuid"}
	case "list", "set":
		return &GT{Name: "slice", Elems: []*GT{GoTypeOf(t.Elems[0])}}
	case "map":
		return &GT{Name: "map", Elems: []*GT{GoTypeOf(t.Elems[0]), GoTypeOf(t.Elems[1])}}
	case "varint":
		return &GT{Name: "ptr", Elems: []*GT{{Name: "big"}}}
	case "tuple":
		return &GT{Name: "slice", Elems: []*GT{{Name: "iface"}}}
	case "udt":
		return &GT{Name: "umap"}
	case "duration":
		return &GT{Name: "cdur"}
	}
	panic("gotype of " + t.Name)
}

func (g *Gen) scalarTarget(t string) *GT {
	anyInt := func() *GT { return kgt(g.pick(Kinds), g.chance(25)) }
	switch t {
	case "tinyint", "smallint", "int", "bigint", "counter":
		switch g.R.Intn(12) {
		case 0:
			return &GT{Name: "string"}
		case 1, 2:
			return &GT{Name: "big"}
		case 3:
			return &GT{Name: "dur"}
		}
		return anyInt()
	case "varint":
		if g.chance(30) {
			return &GT{Name: "big"}
		}
		return anyInt()
	case "ascii", "text", "varchar", "blob":
		return &GT{Name: g.pick([]string{"string", "string", "bytes", "bytes", "nstring", "nbytes"})}
	case "boolean":
		return &GT{Name: g.pick([]string{"bool", "bool", "nbool"})}
	case "float":
		return &GT{Name: g.pick([]string{"f32", "f32", "nf32"})}
	case "double":
		return &GT{Name: g.pick([]string{"f64", "f64", "nf64"})}
	case "decimal":
		return &GT{Name: "dec"}
	case "time":
		return g.pickGT([]*GT{kgt("int64", false), kgt("int64", true), {Name: "dur"}})
	case "timestamp":
		return g.pickGT([]*GT{kgt("int64", false), kgt("int64", true), {Name: "time"}, {Name: "time"}})
	case "date":
		return &GT{Name: "time"}
	case "duration":
		return &GT{Name: "cdur"}
	case "uuid", "timeuuid":
		return &GT{Name: g.pick([]string{"uuid", "uuid", "a16", "bytes", "string"})}
	case "inet":
		return &GT{Name: "ip"}
	}
	return &GT{Name: "string"}
}

func (g *Gen) pickGT(gs []*GT) *GT { return gs[g.R.Intn(len(gs))] }

var mismatchTargets = []string{"bool", "f64", "string", "dur", "f32"}
var mismatchScalarTargets = []string{"bool", "f64", "string", "bytes", "dur", "f32"}

// Target chooses a Go type to decode a column of type t into.
func (g *Gen) Target(t *Ty, depth int) *GT { return noByteSlices(g.target(t, depth, true)) }

func (g *Gen) target(t *Ty, depth int, top bool) *GT {
	if g.chance(12) {
		return &GT{Name: "ptr", Elems: []*GT{g.target(t, depth, false)}}
	}
	if g.chance(4) {
		if t.IsScalar() {
			return &GT{Name: g.pick(mismatchScalarTargets)}
		}
		return &GT{Name: g.pick(mismatchTargets)}
	}
	if g.chance(10) {
		return GoTypeOf(t)
	}
	switch t.Name {
	case "list", "set":
		e := g.target(t.Elems[0], depth-1, false)
		if g.chance(20) {
			return &GT{Name: "array", N: g.R.Intn(4), Elems: []*GT{e}}
		}
		return &GT{Name: "slice", Elems: []*GT{e}}
	case "map":
		k := g.scalarTarget(t.Elems[0].Name)
		for tries := 0; !hashableGT(k) && tries < 20; tries++ {
			k = g.scalarTarget(t.Elems[0].Name)
		}
		if !hashableGT(k) {
			k = &GT{Name: "string"}
		}
		return &GT{Name: "map", Elems: []*GT{k, g.target(t.Elems[1], depth-1, false)}}
	case "tuple":
		x := g.R.Intn(20)
		if !top && x < 9 {
			x = 9 + g.R.Intn(11)
		}
		switch {
		case x < 9:
			s := &GT{Name: "ifs"}
			for _, e := range t.Elems {
				s.Elems = append(s.Elems, g.target(e, depth-1, false))
			}
			return s
		case x < 15:
			s := &GT{Name: "struct"}
			for _, e := range t.Elems {
				f := GoTypeOf(e)
				if g.chance(30) {
					f = &GT{Name: "ptr", Elems: []*GT{f}}
				} else if g.chance(10) {
					f = &GT{Name: "iface"}
				} else if g.chance(4) {
					f = g.target(e, depth-1, false)
				}
				s.Elems = append(s.Elems, f)
			}
			if g.chance(5) && len(s.Elems) > 1 {
				s.Elems = s.Elems[1:]
			}
			return s
		case x < 18:
			return &GT{Name: "slice", Elems: []*GT{{Name: "iface"}}}
		default:
			n := len(t.Elems)
			if g.chance(20) {
				n++
			}
			return &GT{Name: "array", N: n, Elems: []*GT{{Name: "iface"}}}
		}
	case "udt":
		if g.chance(45) {
			return &GT{Name: "umap"}
		}
		s := &GT{Name: "ustruct"}
		for i, e := range t.Elems {
			if g.chance(15) {
				continue
			}
			s.Names = append(s.Names, t.Names[i])
			s.Elems = append(s.Elems, g.target(e, depth-1, false))
		}
		if g.chance(10) || len(s.Elems) == 0 {
			s.Names = append(s.Names, "zz")
			s.Elems = append(s.Elems, &GT{Name: "string"})
		}
		return s
	}
	return g.scalarTarget(t.Name)
}

// CaseTyped: like Case, also returning the Go type the value was generated for (nil for a bare nil / unset).
func (g *Gen) CaseTyped(depth int) (proto byte, t *Ty, gt *GT, v *Val) {
	proto = byte(1 + g.R.Intn(5))
	t = g.Ty(depth)
	gt = g.GoType(t, depth)
	if gt.Name == "mset" && t.Name != "list" && t.Name != "set" {
		gt = &GT{Name: "slice", Elems: gt.Elems}
	}
	v = g.Value(t, gt)
	Normalize(proto, t, v)
	return
}
