package valgen

import "math/big"

// The Go mirror of Marshal.documented / Marshal.excluded (lean/Model/MarshalInterp.lean): which inputs are a
// documented (column type, Go type) pair, and which of those lie in the exact known-deviation set that the
// `_partial` theorems exclude.  Both classifiers are compared on every case through the `cls` op.

func isIntCol(t string) bool {
	switch t {
	case "tinyint", "smallint", "int", "bigint", "counter", "varint":
		return true
	}
	return false
}
func isText(t string) bool {
	switch t {
	case "ascii", "text", "varchar", "blob":
		return true
	}
	return false
}
func intColBytes(t string) int {
	switch t {
	case "tinyint":
		return 1
	case "smallint":
		return 2
	case "int":
		return 4
	case "bigint", "counter":
		return 8
	}
	return 0
}

func documentedScalar(t string, v *Val) bool {
	switch v.Tag {
	case "nil":
		return true
	case "i", "ni":
		if isIntCol(t) {
			return true
		}
		switch t {
		case "time", "timestamp", "duration":
			return v.Kind == "int64"
		case "date":
			return v.Kind == "int64" && v.Tag == "i"
		}
		return false
	case "dur":
		return isIntCol(t) || t == "time" || t == "duration"
	case "s":
		return isIntCol(t) || isText(t) || t == "uuid" || t == "timeuuid" || t == "date" || t == "duration" || t == "inet"
	case "ns":
		return isText(t)
	case "b", "bnil":
		return isText(t) || t == "uuid" || t == "timeuuid"
	case "nb", "nbnil":
		return isText(t)
	case "bool", "nbool":
		return t == "boolean"
	case "f32", "nf32":
		return t == "float"
	case "f64", "nf64":
		return t == "double"
	case "big":
		return t == "bigint" || t == "counter" || t == "varint"
	case "dec":
		return t == "decimal"
	case "t":
		return t == "timestamp" || t == "date"
	case "cd":
		return t == "duration"
	case "uuid", "a16":
		return t == "uuid" || t == "timeuuid"
	case "ip":
		return t == "inet"
	}
	return false
}

func lookup(name string, names []string) int {
	for i, n := range names {
		if n == name {
			return i
		}
	}
	return -1
}

func Documented(t *Ty, v *Val) bool {
	v = v.Plain()
	switch v.Tag {
	case "nilptr":
		return true
	case "ptr":
		return Documented(t, v.Elems[0])
	}
	all := func(et *Ty, vs []*Val) bool {
		for _, e := range vs {
			if !Documented(et, e) {
				return false
			}
		}
		return true
	}
	switch t.Name {
	case "list", "set":
		switch v.Tag {
		case "nil", "slnil":
			return true
		case "sl", "arr", "ifs", "mset":
			return all(t.Elems[0], v.Elems)
		}
		return false
	case "map":
		switch v.Tag {
		case "nil", "mapnil":
			return true
		case "map":
			for i := 0; i+1 < len(v.Elems); i += 2 {
				if !Documented(t.Elems[0], v.Elems[i]) || !Documented(t.Elems[1], v.Elems[i+1]) {
					return false
				}
			}
			return true
		}
		return false
	case "tuple":
		switch v.Tag {
		case "nil":
			return true
		case "ifs", "st", "sl", "arr", "slnil":
			if len(v.Elems) != len(t.Elems) {
				return false
			}
			for i, e := range v.Elems {
				if !Documented(t.Elems[i], e) {
					return false
				}
			}
			return true
		}
		return false
	case "udt":
		switch v.Tag {
		case "um", "us", "umnil":
			for j, e := range v.Elems {
				if i := lookup(v.Names[j], t.Names); i >= 0 && !Documented(t.Elems[i], e) {
					return false
				}
			}
			return true
		}
		return false
	}
	return documentedScalar(t.Name, v)
}

func pow2(n uint) *big.Int { return new(big.Int).Lsh(big.NewInt(1), n) }

func floorDiv(a *big.Int, b int64) *big.Int {
	q, m := new(big.Int).DivMod(a, big.NewInt(b), new(big.Int)) // Euclidean: m >= 0, so q = floor for b > 0
	_ = m
	return q
}
func floorMod(a *big.Int, b int64) *big.Int {
	return new(big.Int).Mod(a, big.NewInt(b))
}

func fitsS(bytes uint, n *big.Int) bool {
	return n.Cmp(new(big.Int).Neg(pow2(8*bytes-1))) >= 0 && n.Cmp(pow2(8*bytes-1)) < 0
}
func fitsU(bytes uint, n *big.Int) bool { return n.Sign() >= 0 && n.Cmp(pow2(8*bytes)) < 0 }

// minimal two's complement length (Java BigInteger.toByteArray().length)
func VarintLen(n *big.Int) int {
	if n.Sign() >= 0 {
		return n.BitLen()/8 + 1
	}
	m := new(big.Int).Not(n) // -n-1
	return m.BitLen()/8 + 1
}

func quiet32(x uint64) uint64 {
	if (x>>23)&0xff == 0xff && x&0x7fffff != 0 {
		return x | 0x400000
	}
	return x
}

const zeroTimeSec = -62135596800

func excludedScalar(t string, v *Val) bool {
	switch v.Tag {
	case "i", "ni":
		if w := intColBytes(t); w > 0 {
			return !KindSigned(v.Kind) && v.Int.Cmp(pow2(uint(8*w-1))) >= 0
		}
		return false // (KF-C12-5 repaired: an out-of-range day is an error)
	case "t":
		sec, nsec := v.Int, v.Int2
		if sec.Cmp(big.NewInt(zeroTimeSec)) == 0 && nsec.Sign() == 0 {
			return true
		}
		exact := new(big.Int).Add(new(big.Int).Mul(sec, big.NewInt(1000)), floorDiv(nsec, 1000000))
		if !fitsS(8, new(big.Int).Mul(sec, big.NewInt(1000))) || !fitsS(8, exact) {
			return true
		}
		return false
	case "nf32":
		return quiet32(v.Bits) != v.Bits
	case "s":
		return t == "date" || t == "duration" || t == "inet"
	}
	return false
}

func marshalsNil(v *Val) bool {
	switch v.Tag {
	case "nilptr", "unset", "bnil", "nbnil", "slnil", "mapnil":
		return true
	case "ip":
		return len(v.Bytes) == 0 // (KF-C12-10 repaired: other lengths than 0 / 4 / 16 are errors)
	}
	return false
}

func Excluded(proto byte, t *Ty, v *Val) bool {
	v = v.Plain()
	switch v.Tag {
	case "nilptr":
		return false
	case "ptr":
		return Excluded(proto, t, v.Elems[0])
	}
	// (a pointer to a nil interface{} marshals like the nil it points to: `ptr nil` counts, C12_cex_ptr_nil_v2)
	nullish := func(e *Val) bool { d := deref(e); return d.Tag == "nil" || marshalsNil(d) }
	switch t.Name {
	case "list", "set":
		switch v.Tag {
		case "sl", "arr", "ifs", "mset":
			for _, e := range v.Elems {
				if Excluded(proto, t.Elems[0], e) || (proto <= 2 && nullish(e)) {
					return true
				}
			}
			return false
		case "unset":
			return true
		}
		return false
	case "map":
		switch v.Tag {
		case "map":
			for i := 0; i+1 < len(v.Elems); i += 2 {
				k, val := v.Elems[i], v.Elems[i+1]
				if Excluded(proto, t.Elems[0], k) || Excluded(proto, t.Elems[1], val) || (proto <= 2 && (nullish(k) || nullish(val))) {
					return true
				}
			}
			return false
		case "unset":
			return true
		}
		return false
	case "tuple":
		switch v.Tag {
		case "ifs", "st", "sl", "arr":
			for i, e := range v.Elems {
				if i >= len(t.Elems) {
					break
				}
				if Excluded(proto, t.Elems[i], e) {
					return true
				}
			}
		}
		return false
	case "udt":
		switch v.Tag {
		case "um", "us":
			for j, e := range v.Elems {
				if i := lookup(v.Names[j], t.Names); i >= 0 && Excluded(proto, t.Elems[i], e) {
					return true
				}
			}
		}
		return false
	}
	return excludedScalar(t.Name, v)
}

// Classify: undocumented / excluded / clean (op `cls`).
func Classify(proto byte, t *Ty, v *Val) string {
	if !Documented(t, v) {
		return "undocumented"
	}
	if Excluded(proto, t, v) {
		return "excluded"
	}
	return "clean"
}
