// Package valgen: shared code of the C12 / C02 harnesses — the token syntax of CQL types, Go values and Go
// types (the same prefix notation lean/Driver/C12.lean parses), construction of real Go values by reflection,
// canonical printing of decoded values, and the generators.
package valgen

import (
	"fmt"
	"math"
	"math/big"
	"net"
	"reflect"
	"sort"
	"strconv"
	"strings"
	"time"
	"unsafe"

	"github.com/gocql/gocql"
	"gopkg.in/inf.v0"
)

// ---------- named types (reflect.Kind fallbacks) ----------

type NInt int
type NInt8 int8
type NInt16 int16
type NInt32 int32
type NInt64 int64
type NUint uint
type NUint8 uint8
type NUint16 uint16
type NUint32 uint32
type NUint64 uint64
type NString string
type NBytes []byte
type NBool bool
type NF32 float32
type NF64 float64

var kindTypes = map[string][2]reflect.Type{
	"int":    {reflect.TypeOf(int(0)), reflect.TypeOf(NInt(0))},
	"int8":   {reflect.TypeOf(int8(0)), reflect.TypeOf(NInt8(0))},
	"int16":  {reflect.TypeOf(int16(0)), reflect.TypeOf(NInt16(0))},
	"int32":  {reflect.TypeOf(int32(0)), reflect.TypeOf(NInt32(0))},
	"int64":  {reflect.TypeOf(int64(0)), reflect.TypeOf(NInt64(0))},
	"uint":   {reflect.TypeOf(uint(0)), reflect.TypeOf(NUint(0))},
	"uint8":  {reflect.TypeOf(uint8(0)), reflect.TypeOf(NUint8(0))},
	"uint16": {reflect.TypeOf(uint16(0)), reflect.TypeOf(NUint16(0))},
	"uint32": {reflect.TypeOf(uint32(0)), reflect.TypeOf(NUint32(0))},
	"uint64": {reflect.TypeOf(uint64(0)), reflect.TypeOf(NUint64(0))},
}

var Kinds = []string{"int", "int8", "int16", "int32", "int64", "uint", "uint8", "uint16", "uint32", "uint64"}

func KindSigned(k string) bool { return k[0] == 'i' }
func KindBits(k string) uint {
	switch k {
	case "int8", "uint8":
		return 8
	case "int16", "uint16":
		return 16
	case "int32", "uint32":
		return 32
	}
	return 64
}

// KindHolds: can a Go variable of kind k hold n?
func KindHolds(k string, n *big.Int) bool {
	b := KindBits(k)
	if KindSigned(k) {
		lo := new(big.Int).Neg(new(big.Int).Lsh(big.NewInt(1), b-1))
		hi := new(big.Int).Lsh(big.NewInt(1), b-1)
		return n.Cmp(lo) >= 0 && n.Cmp(hi) < 0
	}
	return n.Sign() >= 0 && n.Cmp(new(big.Int).Lsh(big.NewInt(1), b)) < 0
}

var (
	tString   = reflect.TypeOf("")
	tBytes    = reflect.TypeOf([]byte(nil))
	tBool     = reflect.TypeOf(false)
	tF32      = reflect.TypeOf(float32(0))
	tF64      = reflect.TypeOf(float64(0))
	tBig      = reflect.TypeOf(big.Int{})
	tDec      = reflect.TypeOf(inf.Dec{})
	tTime     = reflect.TypeOf(time.Time{})
	tDur      = reflect.TypeOf(time.Duration(0))
	tCDur     = reflect.TypeOf(gocql.Duration{})
	tUUID     = reflect.TypeOf(gocql.UUID{})
	tA16      = reflect.TypeOf([16]byte{})
	tIP       = reflect.TypeOf(net.IP(nil))
	tIface    = reflect.TypeOf((*interface{})(nil)).Elem()
	tIfaces   = reflect.TypeOf([]interface{}(nil))
	tUMap     = reflect.TypeOf(map[string]interface{}(nil))
	tEmpty    = reflect.TypeOf(struct{}{})
	tNString  = reflect.TypeOf(NString(""))
	tNBytes   = reflect.TypeOf(NBytes(nil))
	tNBool    = reflect.TypeOf(NBool(false))
	tNF32     = reflect.TypeOf(NF32(0))
	tNF64     = reflect.TypeOf(NF64(0))
	tIntPtr   = reflect.TypeOf((*int)(nil))
	namedByTy = map[reflect.Type]bool{}
)

func init() {
	for _, p := range kindTypes {
		namedByTy[p[1]] = true
	}
	for _, t := range []reflect.Type{tNString, tNBytes, tNBool, tNF32, tNF64} {
		namedByTy[t] = true
	}
}

// ---------- CQL types ----------

type Ty struct {
	Name  string // scalar name, or list/set/map/tuple/udt
	Elems []*Ty  // list/set: 1; map: 2 (key, value); tuple/udt: fields
	Names []string
}

var Scalars = []string{"ascii", "bigint", "blob", "boolean", "counter", "decimal", "double", "float", "int", "text",
	"timestamp", "uuid", "varchar", "varint", "timeuuid", "inet", "date", "time", "smallint", "tinyint", "duration"}

var scalarIDs = map[string]gocql.Type{
	"ascii": gocql.TypeAscii, "bigint": gocql.TypeBigInt, "blob": gocql.TypeBlob, "boolean": gocql.TypeBoolean,
	"counter": gocql.TypeCounter, "decimal": gocql.TypeDecimal, "double": gocql.TypeDouble, "float": gocql.TypeFloat,
	"int": gocql.TypeInt, "text": gocql.TypeText, "timestamp": gocql.TypeTimestamp, "uuid": gocql.TypeUUID,
	"varchar": gocql.TypeVarchar, "varint": gocql.TypeVarint, "timeuuid": gocql.TypeTimeUUID, "inet": gocql.TypeInet,
	"date": gocql.TypeDate, "time": gocql.TypeTime, "smallint": gocql.TypeSmallInt, "tinyint": gocql.TypeTinyInt,
	"duration": gocql.TypeDuration,
}

func (t *Ty) IsScalar() bool { _, ok := scalarIDs[t.Name]; return ok }

func (t *Ty) String() string {
	switch t.Name {
	case "list", "set":
		return t.Name + " " + t.Elems[0].String()
	case "map":
		return "map " + t.Elems[0].String() + " " + t.Elems[1].String()
	case "tuple":
		s := "tuple " + strconv.Itoa(len(t.Elems))
		for _, e := range t.Elems {
			s += " " + e.String()
		}
		return s
	case "udt":
		s := "udt " + strconv.Itoa(len(t.Elems))
		for i, e := range t.Elems {
			s += " " + t.Names[i] + " " + e.String()
		}
		return s
	}
	return t.Name
}

// Info builds the gocql.TypeInfo tree (every node carries the protocol version).
func (t *Ty) Info(proto byte) gocql.TypeInfo {
	switch t.Name {
	case "list":
		return gocql.CollectionType{NativeType: gocql.NewNativeType(proto, gocql.TypeList, ""), Elem: t.Elems[0].Info(proto)}
	case "set":
		return gocql.CollectionType{NativeType: gocql.NewNativeType(proto, gocql.TypeSet, ""), Elem: t.Elems[0].Info(proto)}
	case "map":
		return gocql.CollectionType{NativeType: gocql.NewNativeType(proto, gocql.TypeMap, ""), Key: t.Elems[0].Info(proto), Elem: t.Elems[1].Info(proto)}
	case "tuple":
		es := make([]gocql.TypeInfo, len(t.Elems))
		for i, e := range t.Elems {
			es[i] = e.Info(proto)
		}
		return gocql.TupleTypeInfo{NativeType: gocql.NewNativeType(proto, gocql.TypeTuple, ""), Elems: es}
	case "udt":
		fs := make([]gocql.UDTField, len(t.Elems))
		for i, e := range t.Elems {
			fs[i] = gocql.UDTField{Name: t.Names[i], Type: e.Info(proto)}
		}
		return gocql.UDTTypeInfo{NativeType: gocql.NewNativeType(proto, gocql.TypeUDT, ""), KeySpace: "ks", Name: "u", Elements: fs}
	}
	return gocql.NewNativeType(proto, scalarIDs[t.Name], "")
}

type toks struct {
	w []string
	i int
}

func (p *toks) next() string {
	if p.i >= len(p.w) {
		panic("bad-op: out of tokens")
	}
	s := p.w[p.i]
	p.i++
	return s
}
func (p *toks) num() int {
	n, err := strconv.Atoi(p.next())
	if err != nil {
		panic("bad-op: number")
	}
	return n
}
func (p *toks) big() *big.Int {
	n, ok := new(big.Int).SetString(p.next(), 10)
	if !ok {
		panic("bad-op: integer")
	}
	return n
}
func (p *toks) hex() []byte {
	b, err := UnHexC(p.next())
	if err != nil {
		panic("bad-op: hex")
	}
	return b
}

func parseTy(p *toks) *Ty {
	w := p.next()
	switch w {
	case "list", "set":
		return &Ty{Name: w, Elems: []*Ty{parseTy(p)}}
	case "map":
		k := parseTy(p)
		v := parseTy(p)
		return &Ty{Name: w, Elems: []*Ty{k, v}}
	case "tuple":
		n := p.num()
		t := &Ty{Name: w}
		for i := 0; i < n; i++ {
			t.Elems = append(t.Elems, parseTy(p))
		}
		return t
	case "udt":
		n := p.num()
		t := &Ty{Name: w}
		for i := 0; i < n; i++ {
			t.Names = append(t.Names, p.next())
			t.Elems = append(t.Elems, parseTy(p))
		}
		return t
	}
	if _, ok := scalarIDs[w]; !ok {
		panic("bad-op: type " + w)
	}
	return &Ty{Name: w}
}

// ---------- Go types ----------

type GT struct {
	Name  string // k nk string nstring bytes nbytes bool nbool f32 nf32 f64 nf64 big dec time dur cdur uuid a16 ip ptr slice array map iface ifs struct umap ustruct
	Kind  string // for k / nk
	N     int    // array length
	Elems []*GT
	Names []string
}

func (g *GT) String() string {
	switch g.Name {
	case "k", "nk":
		return g.Name + " " + g.Kind
	case "ptr", "slice":
		return g.Name + " " + g.Elems[0].String()
	case "array":
		return "array " + strconv.Itoa(g.N) + " " + g.Elems[0].String()
	case "map":
		return "map " + g.Elems[0].String() + " " + g.Elems[1].String()
	case "ifs", "struct":
		s := g.Name + " " + strconv.Itoa(len(g.Elems))
		for _, e := range g.Elems {
			s += " " + e.String()
		}
		return s
	case "ustruct":
		s := "ustruct " + strconv.Itoa(len(g.Elems))
		for i, e := range g.Elems {
			s += " " + g.Names[i] + " " + e.String()
		}
		return s
	}
	return g.Name
}

func parseGT(p *toks) *GT {
	w := p.next()
	switch w {
	case "k", "nk":
		k := p.next()
		if _, ok := kindTypes[k]; !ok {
			panic("bad-op: kind")
		}
		return &GT{Name: w, Kind: k}
	case "ptr", "slice":
		return &GT{Name: w, Elems: []*GT{parseGT(p)}}
	case "array":
		n := p.num()
		return &GT{Name: w, N: n, Elems: []*GT{parseGT(p)}}
	case "map":
		k := parseGT(p)
		v := parseGT(p)
		return &GT{Name: w, Elems: []*GT{k, v}}
	case "ifs", "struct":
		n := p.num()
		g := &GT{Name: w}
		for i := 0; i < n; i++ {
			g.Elems = append(g.Elems, parseGT(p))
		}
		return g
	case "ustruct":
		n := p.num()
		g := &GT{Name: w}
		for i := 0; i < n; i++ {
			g.Names = append(g.Names, p.next())
			g.Elems = append(g.Elems, parseGT(p))
		}
		return g
	case "string", "nstring", "bytes", "nbytes", "bool", "nbool", "f32", "nf32", "f64", "nf64", "big", "dec", "time",
		"dur", "cdur", "uuid", "a16", "ip", "iface", "umap":
		return &GT{Name: w}
	}
	panic("bad-op: gotype " + w)
}

func structOf(ts []reflect.Type, names []string) reflect.Type {
	fs := make([]reflect.StructField, len(ts))
	for i, t := range ts {
		fs[i] = reflect.StructField{Name: "F" + strconv.Itoa(i), Type: t}
		if names != nil {
			fs[i].Tag = reflect.StructTag(`cql:"` + names[i] + `"`)
		}
	}
	return reflect.StructOf(fs)
}

// RType is the reflect.Type of a Go type descriptor.
func (g *GT) RType() reflect.Type {
	switch g.Name {
	case "k":
		return kindTypes[g.Kind][0]
	case "nk":
		return kindTypes[g.Kind][1]
	case "string":
		return tString
	case "nstring":
		return tNString
	case "bytes":
		return tBytes
	case "nbytes":
		return tNBytes
	case "bool":
		return tBool
	case "nbool":
		return tNBool
	case "f32":
		return tF32
	case "nf32":
		return tNF32
	case "f64":
		return tF64
	case "nf64":
		return tNF64
	case "big":
		return tBig
	case "dec":
		return tDec
	case "time":
		return tTime
	case "dur":
		return tDur
	case "cdur":
		return tCDur
	case "uuid":
		return tUUID
	case "a16":
		return tA16
	case "ip":
		return tIP
	case "iface":
		return tIface
	case "umap":
		return tUMap
	case "ifs":
		return tIfaces
	case "ptr":
		return reflect.PtrTo(g.Elems[0].RType())
	case "slice":
		return reflect.SliceOf(g.Elems[0].RType())
	case "array":
		return reflect.ArrayOf(g.N, g.Elems[0].RType())
	case "map":
		return reflect.MapOf(g.Elems[0].RType(), g.Elems[1].RType())
	case "struct", "ustruct":
		ts := make([]reflect.Type, len(g.Elems))
		for i, e := range g.Elems {
			ts[i] = e.RType()
		}
		return structOf(ts, g.Names)
	}
	panic("bad gotype " + g.Name)
}

// ---------- Go values ----------

type Val struct {
	Tag   string // the leading token
	Kind  string
	Int   *big.Int
	Int2  *big.Int
	Int3  *big.Int
	Bytes []byte
	Bits  uint64
	Bool  bool
	GT    *GT // element type of sl / slnil / arr / mset ; key type of map
	GT2   *GT // value type of map
	N     int // slrep / mapseq: number of elements
	plain *Val
	Elems []*Val
	Names []string
}

// Plain: the equivalent `sl` / `map` value of a compact `slrep` / `mapseq` value (the copies share one *Val).
func (v *Val) Plain() *Val {
	if v == nil || (v.Tag != "slrep" && v.Tag != "mapseq") {
		return v
	}
	if v.plain != nil {
		return v.plain
	}
	if v.Tag == "slrep" {
		p := &Val{Tag: "sl", GT: v.GT, Elems: make([]*Val, v.N)}
		for i := range p.Elems {
			p.Elems[i] = v.Elems[0]
		}
		v.plain = p
		return p
	}
	p := &Val{Tag: "map", GT: v.GT, GT2: v.GT2, Elems: make([]*Val, 0, 2*v.N)}
	for i := 0; i < v.N; i++ {
		p.Elems = append(p.Elems, &Val{Tag: "i", Kind: v.Kind, Int: big.NewInt(int64(i))}, v.Elems[0])
	}
	v.plain = p
	return p
}

func (v *Val) String() string {
	var sb strings.Builder
	v.write(&sb)
	return sb.String()
}

func (v *Val) write(sb *strings.Builder) {
	sb.WriteString(v.Tag)
	switch v.Tag {
	case "i", "ni":
		sb.WriteString(" " + v.Kind + " " + v.Int.String())
	case "s", "ns", "b", "nb", "uuid", "a16", "ip":
		sb.WriteString(" " + HexC(v.Bytes))
	case "bool", "nbool":
		if v.Bool {
			sb.WriteString(" 1")
		} else {
			sb.WriteString(" 0")
		}
	case "f32", "nf32", "f64", "nf64":
		sb.WriteString(" " + strconv.FormatUint(v.Bits, 10))
	case "big", "dur":
		sb.WriteString(" " + v.Int.String())
	case "dec", "t":
		sb.WriteString(" " + v.Int.String() + " " + v.Int2.String())
	case "cd":
		sb.WriteString(" " + v.Int.String() + " " + v.Int2.String() + " " + v.Int3.String())
	case "ptr":
		sb.WriteString(" ")
		v.Elems[0].write(sb)
	case "sl", "arr", "mset":
		sb.WriteString(" " + v.GT.String() + " " + strconv.Itoa(len(v.Elems)))
		for _, e := range v.Elems {
			sb.WriteString(" ")
			e.write(sb)
		}
	case "slnil":
		sb.WriteString(" " + v.GT.String())
	case "slrep":
		sb.WriteString(" " + v.GT.String() + " " + strconv.Itoa(v.N) + " ")
		v.Elems[0].write(sb)
	case "mapseq":
		sb.WriteString(" " + v.Kind + " " + v.GT2.String() + " " + strconv.Itoa(v.N) + " ")
		v.Elems[0].write(sb)
	case "ifs", "st":
		sb.WriteString(" " + strconv.Itoa(len(v.Elems)))
		for _, e := range v.Elems {
			sb.WriteString(" ")
			e.write(sb)
		}
	case "map":
		sb.WriteString(" " + v.GT.String() + " " + v.GT2.String() + " " + strconv.Itoa(len(v.Elems)/2))
		for _, e := range v.Elems {
			sb.WriteString(" ")
			e.write(sb)
		}
	case "mapnil":
		sb.WriteString(" " + v.GT.String() + " " + v.GT2.String())
	case "um", "us":
		sb.WriteString(" " + strconv.Itoa(len(v.Elems)))
		for i, e := range v.Elems {
			sb.WriteString(" " + v.Names[i] + " ")
			e.write(sb)
		}
	}
}

func parseVal(p *toks) *Val {
	w := p.next()
	v := &Val{Tag: w}
	switch w {
	case "nil", "unset", "nilptr", "bnil", "nbnil", "umnil":
	case "i", "ni":
		v.Kind = p.next()
		if _, ok := kindTypes[v.Kind]; !ok {
			panic("bad-op: kind")
		}
		v.Int = p.big()
		if !KindHolds(v.Kind, v.Int) {
			panic("bad-op: value out of range of its Go kind")
		}
	case "s", "ns", "b", "nb", "uuid", "a16", "ip":
		v.Bytes = p.hex()
		if (w == "uuid" || w == "a16") && len(v.Bytes) != 16 {
			panic("bad-op: 16 bytes")
		}
	case "bool", "nbool":
		v.Bool = p.next() == "1"
	case "f32", "nf32", "f64", "nf64":
		n, err := strconv.ParseUint(p.next(), 10, 64)
		if err != nil {
			panic("bad-op: bits")
		}
		v.Bits = n
	case "big", "dur":
		v.Int = p.big()
	case "dec", "t":
		v.Int = p.big()
		v.Int2 = p.big()
	case "cd":
		v.Int = p.big()
		v.Int2 = p.big()
		v.Int3 = p.big()
	case "ptr":
		v.Elems = []*Val{parseVal(p)}
	case "sl", "arr", "mset":
		v.GT = parseGT(p)
		n := p.num()
		for i := 0; i < n; i++ {
			v.Elems = append(v.Elems, parseVal(p))
		}
	case "slnil":
		v.GT = parseGT(p)
	case "slrep": // slrep GT n V: a slice of n copies of V
		v.GT = parseGT(p)
		v.N = p.num()
		if v.N < 0 || v.N > 1<<20 {
			panic("bad-op: slrep count")
		}
		v.Elems = []*Val{parseVal(p)}
	case "mapseq": // mapseq K GV n V: map[K]GV{0: V, 1: V, ..., n-1: V}
		v.Kind = p.next()
		if _, ok := kindTypes[v.Kind]; !ok {
			panic("bad-op: kind")
		}
		v.GT = &GT{Name: "k", Kind: v.Kind}
		v.GT2 = parseGT(p)
		v.N = p.num()
		if v.N < 0 || v.N > 1<<20 || !KindHolds(v.Kind, big.NewInt(int64(v.N))) {
			panic("bad-op: mapseq count")
		}
		v.Elems = []*Val{parseVal(p)}
	case "ifs", "st":
		n := p.num()
		for i := 0; i < n; i++ {
			v.Elems = append(v.Elems, parseVal(p))
		}
	case "map":
		v.GT = parseGT(p)
		v.GT2 = parseGT(p)
		n := p.num()
		for i := 0; i < 2*n; i++ {
			v.Elems = append(v.Elems, parseVal(p))
		}
	case "mapnil":
		v.GT = parseGT(p)
		v.GT2 = parseGT(p)
	case "um", "us":
		n := p.num()
		for i := 0; i < n; i++ {
			v.Names = append(v.Names, p.next())
			v.Elems = append(v.Elems, parseVal(p))
		}
	default:
		panic("bad-op: value " + w)
	}
	return v
}

func f32FromBits(b uint32) float32 { return *(*float32)(unsafe.Pointer(&b)) }

// Build constructs the real Go value.
func (v *Val) Build() interface{} {
	rv := v.build(nil)
	if !rv.IsValid() {
		return nil
	}
	return rv.Interface()
}

func setInt(rv reflect.Value, k string, n *big.Int) {
	if KindSigned(k) {
		rv.SetInt(n.Int64())
	} else {
		rv.SetUint(n.Uint64())
	}
}

// build: `want` is the static type of the slot the value goes into (nil = interface{} / unknown); typed nils
// and anonymous structs take their type from it.
func (v *Val) build(want reflect.Type) reflect.Value {
	if want != nil && want.Kind() == reflect.Interface {
		want = nil
	}
	switch v.Tag {
	case "nil":
		if want != nil {
			return reflect.Zero(want)
		}
		return reflect.Value{}
	case "unset":
		return reflect.ValueOf(gocql.UnsetValue)
	case "nilptr":
		if want != nil && want.Kind() == reflect.Ptr {
			return reflect.Zero(want)
		}
		return reflect.Zero(tIntPtr)
	case "i", "ni":
		idx := 0
		if v.Tag == "ni" {
			idx = 1
		}
		rv := reflect.New(kindTypes[v.Kind][idx]).Elem()
		setInt(rv, v.Kind, v.Int)
		return rv
	case "s":
		return reflect.ValueOf(string(v.Bytes))
	case "ns":
		return reflect.ValueOf(NString(v.Bytes))
	case "b":
		return reflect.ValueOf(append([]byte{}, v.Bytes...))
	case "bnil":
		return reflect.ValueOf([]byte(nil))
	case "nb":
		return reflect.ValueOf(NBytes(append([]byte{}, v.Bytes...)))
	case "nbnil":
		return reflect.ValueOf(NBytes(nil))
	case "bool":
		return reflect.ValueOf(v.Bool)
	case "nbool":
		return reflect.ValueOf(NBool(v.Bool))
	case "f32":
		return reflect.ValueOf(f32FromBits(uint32(v.Bits)))
	case "nf32":
		// keep the exact bit pattern (a conversion through float64 would quiet a signalling NaN)
		x := new(NF32)
		*(*uint32)(unsafe.Pointer(x)) = uint32(v.Bits)
		return reflect.ValueOf(x).Elem()
	case "f64":
		return reflect.ValueOf(math.Float64frombits(v.Bits))
	case "nf64":
		return reflect.ValueOf(NF64(math.Float64frombits(v.Bits)))
	case "big":
		return reflect.ValueOf(*new(big.Int).Set(v.Int))
	case "dec":
		return reflect.ValueOf(*inf.NewDecBig(new(big.Int).Set(v.Int), inf.Scale(v.Int2.Int64())))
	case "t":
		return reflect.ValueOf(time.Unix(v.Int.Int64(), v.Int2.Int64()).UTC())
	case "dur":
		return reflect.ValueOf(time.Duration(v.Int.Int64()))
	case "cd":
		return reflect.ValueOf(gocql.Duration{Months: int32(v.Int.Int64()), Days: int32(v.Int2.Int64()), Nanoseconds: v.Int3.Int64()})
	case "uuid":
		var u gocql.UUID
		copy(u[:], v.Bytes)
		return reflect.ValueOf(u)
	case "a16":
		var u [16]byte
		copy(u[:], v.Bytes)
		return reflect.ValueOf(u)
	case "ip":
		if len(v.Bytes) == 0 {
			return reflect.ValueOf(net.IP(nil))
		}
		return reflect.ValueOf(net.IP(append([]byte{}, v.Bytes...)))
	case "ptr":
		var we reflect.Type
		if want != nil && want.Kind() == reflect.Ptr {
			we = want.Elem()
		}
		e := v.Elems[0].build(we)
		if !e.IsValid() {
			p := reflect.New(tIface)
			return p
		}
		p := reflect.New(e.Type())
		p.Elem().Set(e)
		return p
	case "sl":
		et := v.GT.RType()
		s := reflect.MakeSlice(reflect.SliceOf(et), len(v.Elems), len(v.Elems))
		for i, e := range v.Elems {
			if b := e.build(et); b.IsValid() {
				s.Index(i).Set(b)
			}
		}
		return s
	case "slnil":
		return reflect.Zero(reflect.SliceOf(v.GT.RType()))
	case "slrep":
		et := v.GT.RType()
		s := reflect.MakeSlice(reflect.SliceOf(et), v.N, v.N)
		for i := 0; i < v.N; i++ {
			if b := v.Elems[0].build(et); b.IsValid() {
				s.Index(i).Set(b)
			}
		}
		return s
	case "mapseq":
		kt, vt := v.GT.RType(), v.GT2.RType()
		m := reflect.MakeMapWithSize(reflect.MapOf(kt, vt), v.N)
		for i := 0; i < v.N; i++ {
			k := reflect.New(kt).Elem()
			setInt(k, v.Kind, big.NewInt(int64(i)))
			val := v.Elems[0].build(vt)
			if !val.IsValid() {
				val = reflect.Zero(vt)
			}
			m.SetMapIndex(k, val)
		}
		return m
	case "arr":
		et := v.GT.RType()
		a := reflect.New(reflect.ArrayOf(len(v.Elems), et)).Elem()
		for i, e := range v.Elems {
			if b := e.build(et); b.IsValid() {
				a.Index(i).Set(b)
			}
		}
		return a
	case "ifs":
		s := make([]interface{}, len(v.Elems))
		for i, e := range v.Elems {
			s[i] = e.Build()
		}
		return reflect.ValueOf(s)
	case "map":
		m := reflect.MakeMap(reflect.MapOf(v.GT.RType(), v.GT2.RType()))
		for i := 0; i+1 < len(v.Elems); i += 2 {
			val := v.Elems[i+1].build(v.GT2.RType())
			if !val.IsValid() {
				val = reflect.Zero(v.GT2.RType())
			}
			m.SetMapIndex(v.Elems[i].build(v.GT.RType()), val)
		}
		return m
	case "mapnil":
		return reflect.Zero(reflect.MapOf(v.GT.RType(), v.GT2.RType()))
	case "mset":
		m := reflect.MakeMap(reflect.MapOf(v.GT.RType(), tEmpty))
		for _, e := range v.Elems {
			m.SetMapIndex(e.build(v.GT.RType()), reflect.ValueOf(struct{}{}))
		}
		return m
	case "st", "us":
		vals := make([]reflect.Value, len(v.Elems))
		ts := make([]reflect.Type, len(v.Elems))
		for i, e := range v.Elems {
			var wf reflect.Type
			if want != nil && want.Kind() == reflect.Struct && want.NumField() == len(v.Elems) {
				wf = want.Field(i).Type
			}
			vals[i] = e.build(wf)
			if wf != nil && wf.Kind() == reflect.Interface {
				ts[i] = wf
				continue
			}
			if vals[i].IsValid() {
				ts[i] = vals[i].Type()
			} else {
				ts[i] = tIface
			}
		}
		var names []string
		if v.Tag == "us" {
			names = v.Names
		}
		st := structOf(ts, names)
		if want != nil && want.Kind() == reflect.Struct && want.NumField() == len(v.Elems) {
			st = want
		}
		s := reflect.New(st).Elem()
		for i := range vals {
			if vals[i].IsValid() {
				s.Field(i).Set(vals[i])
			}
		}
		return s
	case "um":
		m := map[string]interface{}{}
		for i, e := range v.Elems {
			m[v.Names[i]] = e.Build()
		}
		return reflect.ValueOf(m)
	case "umnil":
		return reflect.ValueOf(map[string]interface{}(nil))
	}
	panic("bad value tag " + v.Tag)
}

// ---------- printing decoded values ----------

func kindOf(t reflect.Type) string {
	switch t.Kind() {
	case reflect.Int:
		return "int"
	case reflect.Int8:
		return "int8"
	case reflect.Int16:
		return "int16"
	case reflect.Int32:
		return "int32"
	case reflect.Int64:
		return "int64"
	case reflect.Uint:
		return "uint"
	case reflect.Uint8:
		return "uint8"
	case reflect.Uint16:
		return "uint16"
	case reflect.Uint32:
		return "uint32"
	case reflect.Uint64:
		return "uint64"
	}
	return ""
}

func showElems(rv reflect.Value) []string {
	es := make([]string, rv.Len())
	for i := range es {
		es[i] = Show(rv.Index(i))
	}
	return es
}

// Show prints a Go value in the canonical token syntax (no Go types; map entries sorted by printed key).
func Show(rv reflect.Value) string {
	if !rv.IsValid() {
		return "nil"
	}
	t := rv.Type()
	switch t {
	case tTime:
		tm := rv.Interface().(time.Time)
		return fmt.Sprintf("t %d %d", tm.Unix(), tm.Nanosecond())
	case tBig:
		x := rv.Interface().(big.Int)
		return "big " + x.String()
	case tDec:
		x := rv.Interface().(inf.Dec)
		return "dec " + x.UnscaledBig().String() + " " + strconv.Itoa(int(x.Scale()))
	case tCDur:
		d := rv.Interface().(gocql.Duration)
		return fmt.Sprintf("cd %d %d %d", d.Months, d.Days, d.Nanoseconds)
	case tUUID:
		u := rv.Interface().(gocql.UUID)
		return "uuid " + HexC(u[:])
	case tA16:
		u := rv.Interface().([16]byte)
		return "a16 " + HexC(u[:])
	case tIP:
		return "ip " + HexC([]byte(rv.Interface().(net.IP)))
	case tDur:
		return fmt.Sprintf("dur %d", rv.Int())
	case tIfaces:
		if rv.IsNil() {
			return "slnil"
		}
		return "ifs " + strconv.Itoa(rv.Len()) + showRuns(showElems(rv))
	case tUMap:
		if rv.IsNil() {
			return "umnil"
		}
		keys := rv.MapKeys()
		names := make([]string, len(keys))
		for i, k := range keys {
			names[i] = k.String()
		}
		sort.Strings(names)
		s := "um " + strconv.Itoa(len(names))
		for _, n := range names {
			s += " " + n + " " + Show(rv.MapIndex(reflect.ValueOf(n)))
		}
		return s
	}
	named := namedByTy[t]
	pre := func(a, b string) string {
		if named {
			return b
		}
		return a
	}
	switch t.Kind() {
	case reflect.Int, reflect.Int8, reflect.Int16, reflect.Int32, reflect.Int64:
		return pre("i ", "ni ") + kindOf(t) + " " + strconv.FormatInt(rv.Int(), 10)
	case reflect.Uint, reflect.Uint8, reflect.Uint16, reflect.Uint32, reflect.Uint64:
		return pre("i ", "ni ") + kindOf(t) + " " + strconv.FormatUint(rv.Uint(), 10)
	case reflect.String:
		return pre("s ", "ns ") + HexC([]byte(rv.String()))
	case reflect.Bool:
		if rv.Bool() {
			return pre("bool", "nbool") + " 1"
		}
		return pre("bool", "nbool") + " 0"
	case reflect.Float32:
		c := reflect.New(t).Elem()
		c.Set(rv)
		bits := *(*uint32)(unsafe.Pointer(c.UnsafeAddr()))
		return pre("f32 ", "nf32 ") + strconv.FormatUint(uint64(bits), 10)
	case reflect.Float64:
		return pre("f64 ", "nf64 ") + strconv.FormatUint(math.Float64bits(rv.Float()), 10)
	case reflect.Ptr:
		if rv.IsNil() {
			return "nilptr"
		}
		return "ptr " + Show(rv.Elem())
	case reflect.Interface:
		if rv.IsNil() {
			return "nil"
		}
		return Show(rv.Elem())
	case reflect.Slice:
		if t.Elem().Kind() == reflect.Uint8 {
			if rv.IsNil() {
				return pre("bnil", "nbnil")
			}
			return pre("b ", "nb ") + HexC(rv.Bytes())
		}
		if rv.IsNil() {
			return "slnil"
		}
		return "sl " + strconv.Itoa(rv.Len()) + showRuns(showElems(rv))
	case reflect.Array:
		return "arr " + strconv.Itoa(rv.Len()) + showRuns(showElems(rv))
	case reflect.Map:
		if rv.IsNil() {
			return "mapnil"
		}
		type kv struct{ k, v string }
		var es []kv
		it := rv.MapRange()
		for it.Next() {
			es = append(es, kv{Show(it.Key()), Show(it.Value())})
		}
		sort.Slice(es, func(i, j int) bool { return es[i].k < es[j].k })
		var sb strings.Builder
		sb.WriteString("map " + strconv.Itoa(len(es)))
		for _, e := range es {
			sb.WriteString(" " + e.k + " " + e.v)
		}
		return sb.String()
	case reflect.Struct:
		tagged := t.NumField() > 0 && t.Field(0).Tag.Get("cql") != ""
		if tagged {
			s := "us " + strconv.Itoa(t.NumField())
			for i := 0; i < t.NumField(); i++ {
				s += " " + t.Field(i).Tag.Get("cql") + " " + Show(rv.Field(i))
			}
			return s
		}
		s := "st " + strconv.Itoa(t.NumField())
		for i := 0; i < t.NumField(); i++ {
			s += " " + Show(rv.Field(i))
		}
		return s
	}
	return "unprintable:" + t.String()
}

// ---------- op parsing helpers ----------

// ParseTV parses `<proto> <type> <value>`.
func ParseTV(w []string) (proto byte, t *Ty, v *Val) {
	p := &toks{w: w}
	proto = byte(p.num())
	t = parseTy(p)
	v = parseVal(p)
	if p.i != len(w) {
		panic("bad-op: trailing tokens")
	}
	return
}

// ParseDec parses `<proto> <type> <hex|null> <gotype>`.
func ParseDec(w []string) (proto byte, t *Ty, data []byte, g *GT) {
	p := &toks{w: w}
	proto = byte(p.num())
	t = parseTy(p)
	d := p.next()
	if d != "null" {
		b, err := UnHexC(d)
		if err != nil {
			panic("bad-op: hex")
		}
		data = b
	}
	g = parseGT(p)
	if p.i != len(w) {
		panic("bad-op: trailing tokens")
	}
	return
}

// ParseRT parses `<proto> <type> <value> <gotype>` (C02).
func ParseRT(w []string) (proto byte, t *Ty, v *Val, g *GT) {
	p := &toks{w: w}
	proto = byte(p.num())
	t = parseTy(p)
	v = parseVal(p)
	g = parseGT(p)
	if p.i != len(w) {
		panic("bad-op: trailing tokens")
	}
	return
}
