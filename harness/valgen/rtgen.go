package valgen

import (
	"math/big"
)

// Generators for the same-Go-type round trip (C02 `rtsame`) through tuples and UDTs, and for sizes / counts on both
// sides of every width boundary of both collection framings (shared by C02 and C12).

// TypeOfVal: the Go type a value token denotes (nil when the token alone does not fix it: nil, unset, nilptr).
func TypeOfVal(v *Val) *GT {
	switch v.Tag {
	case "i":
		return &GT{Name: "k", Kind: v.Kind}
	case "ni":
		return &GT{Name: "nk", Kind: v.Kind}
	case "s":
		return &GT{Name: "string"}
	case "ns":
		return &GT{Name: "nstring"}
	case "b", "bnil":
		return &GT{Name: "bytes"}
	case "nb", "nbnil":
		return &GT{Name: "nbytes"}
	case "bool", "nbool", "f32", "nf32", "f64", "nf64", "big", "dec", "dur", "uuid", "a16", "ip":
		return &GT{Name: v.Tag}
	case "t":
		return &GT{Name: "time"}
	case "cd":
		return &GT{Name: "cdur"}
	case "ptr":
		if in := TypeOfVal(v.Elems[0]); in != nil {
			return &GT{Name: "ptr", Elems: []*GT{in}}
		}
		return nil
	case "sl", "slnil", "slrep":
		return &GT{Name: "slice", Elems: []*GT{v.GT}}
	case "arr":
		return &GT{Name: "array", N: len(v.Elems), Elems: []*GT{v.GT}}
	case "ifs":
		return &GT{Name: "slice", Elems: []*GT{{Name: "iface"}}}
	case "map", "mapnil", "mapseq":
		return &GT{Name: "map", Elems: []*GT{v.GT, v.GT2}}
	case "um", "umnil":
		return &GT{Name: "umap"}
	}
	return nil
}

func sameGT(a, b *GT) bool { return a != nil && b != nil && a.String() == b.String() }

// ---------- Go types for which the same-type round trip is claimed ----------

func (g *Gen) rtElem(t *Ty, depth int) *GT {
	e := g.rtType(t, depth)
	if g.chance(25) {
		return &GT{Name: "ptr", Elems: []*GT{e}}
	}
	return e
}

// RTType: a Go type to bind to (and decode back into) a column of type t such that, for suitable values, Marshal
// followed by Unmarshal into the same Go type is claimed to give the value back.
func (g *Gen) RTType(t *Ty) *GT { return noByteSlices(g.rtType(t, 3)) }

func (g *Gen) rtKey(t *Ty) *GT {
	for tries := 0; tries < 30; tries++ {
		if k := g.scalarGT(t.Name); hashableGT(k) {
			return k
		}
	}
	return &GT{Name: "string"}
}

// fieldOf: a tuple field target is filled with `Set` from a value of goType(elem): the field type is that type
// or a pointer to it
func (g *Gen) fieldOf(t *Ty) *GT {
	f := GoTypeOf(t)
	if g.chance(50) {
		return &GT{Name: "ptr", Elems: []*GT{f}}
	}
	return f
}

func (g *Gen) rtType(t *Ty, depth int) *GT {
	switch t.Name {
	case "list", "set":
		e := g.rtElem(t.Elems[0], depth-1)
		if g.chance(15) {
			return &GT{Name: "array", N: g.R.Intn(4), Elems: []*GT{e}}
		}
		return &GT{Name: "slice", Elems: []*GT{e}}
	case "map":
		return &GT{Name: "map", Elems: []*GT{g.rtKey(t.Elems[0]), g.rtElem(t.Elems[1], depth-1)}}
	case "tuple":
		uniform := true
		for _, e := range t.Elems {
			if e.String() != t.Elems[0].String() {
				uniform = false
			}
		}
		x := g.R.Intn(20)
		switch {
		case x < 4:
			return &GT{Name: "slice", Elems: []*GT{{Name: "iface"}}}
		case x < 6:
			return &GT{Name: "array", N: len(t.Elems), Elems: []*GT{{Name: "iface"}}}
		case x < 10 && uniform:
			f := g.fieldOf(t.Elems[0])
			if g.R.Bool() {
				return &GT{Name: "slice", Elems: []*GT{f}}
			}
			return &GT{Name: "array", N: len(t.Elems), Elems: []*GT{f}}
		}
		s := &GT{Name: "struct"}
		for _, e := range t.Elems {
			s.Elems = append(s.Elems, g.fieldOf(e))
		}
		return s
	case "udt":
		if g.chance(40) {
			return &GT{Name: "umap"}
		}
		s := &GT{Name: "ustruct"}
		for i, e := range t.Elems {
			if g.chance(10) && len(t.Elems) > 1 {
				continue // a UDT field without a Go field: written as null, skipped when read
			}
			s.Names = append(s.Names, t.Names[i])
			s.Elems = append(s.Elems, g.rtElem(e, depth-1))
		}
		if len(s.Elems) == 0 {
			s.Names = append(s.Names, t.Names[0])
			s.Elems = append(s.Elems, g.rtElem(t.Elems[0], depth-1))
		}
		return s
	}
	return g.scalarGT(t.Name)
}

// RTValue: a value of Go type gt for a column of type t, biased towards null / empty / zero.
func (g *Gen) RTValue(t *Ty, gt *GT) *Val {
	switch gt.Name {
	case "ptr":
		if g.chance(25) {
			return &Val{Tag: "nilptr"}
		}
		return &Val{Tag: "ptr", Elems: []*Val{g.RTValue(t, gt.Elems[0])}}
	case "iface":
		return g.RTValue(t, GoTypeOf(t))
	case "slice", "array":
		et := gt.Elems[0]
		if t.Name == "tuple" {
			var es []*Val
			for _, e := range t.Elems {
				es = append(es, g.RTValue(e, et))
			}
			if gt.Name == "array" {
				return &Val{Tag: "arr", GT: et, Elems: es}
			}
			if et.Name == "iface" {
				return &Val{Tag: "ifs", Elems: es}
			}
			return &Val{Tag: "sl", GT: et, Elems: es}
		}
		if t.Name != "list" && t.Name != "set" {
			return g.Value(t, gt)
		}
		n := g.R.Intn(4)
		if g.chance(6) {
			n = 4 + g.R.Intn(5)
		}
		if gt.Name == "array" {
			n = gt.N
		} else if g.chance(8) {
			return &Val{Tag: "slnil", GT: et}
		}
		var es []*Val
		for i := 0; i < n; i++ {
			es = append(es, g.RTValue(t.Elems[0], et))
		}
		if gt.Name == "array" {
			return &Val{Tag: "arr", GT: et, Elems: es}
		}
		return &Val{Tag: "sl", GT: et, Elems: es}
	case "map":
		if t.Name != "map" {
			return g.Value(t, gt)
		}
		if g.chance(8) {
			return &Val{Tag: "mapnil", GT: gt.Elems[0], GT2: gt.Elems[1]}
		}
		v := &Val{Tag: "map", GT: gt.Elems[0], GT2: gt.Elems[1]}
		for i, n := 0, g.R.Intn(4); i < n; i++ {
			v.Elems = append(v.Elems, g.RTValue(t.Elems[0], gt.Elems[0]), g.RTValue(t.Elems[1], gt.Elems[1]))
		}
		return v
	case "struct":
		if t.Name != "tuple" || len(gt.Elems) != len(t.Elems) {
			return g.Value(t, gt)
		}
		v := &Val{Tag: "st"}
		for i, e := range gt.Elems {
			v.Elems = append(v.Elems, g.RTValue(t.Elems[i], e))
		}
		return v
	case "ustruct":
		if t.Name != "udt" {
			return g.Value(t, gt)
		}
		v := &Val{Tag: "us"}
		for i, e := range gt.Elems {
			j := lookup(gt.Names[i], t.Names)
			if j < 0 {
				return g.Value(t, gt)
			}
			v.Names = append(v.Names, gt.Names[i])
			v.Elems = append(v.Elems, g.RTValue(t.Elems[j], e))
		}
		return v
	case "umap":
		if t.Name != "udt" {
			return g.Value(t, gt)
		}
		v := &Val{Tag: "um"}
		for i, e := range t.Elems {
			v.Names = append(v.Names, t.Names[i])
			v.Elems = append(v.Elems, g.RTValue(e, GoTypeOf(e)))
		}
		return v
	case "string", "nstring":
		if isText(t.Name) && g.chance(25) {
			return &Val{Tag: map[string]string{"string": "s", "nstring": "ns"}[gt.Name], Bytes: []byte{}}
		}
	case "k", "nk":
		if g.chance(12) {
			return &Val{Tag: map[string]string{"k": "i", "nk": "ni"}[gt.Name], Kind: gt.Kind, Int: big.NewInt(0)}
		}
	}
	return g.Value(t, gt)
}

// PtrKeyed: does the type tree contain a map whose key column has a POINTER as its default Go type (varint ->
// *big.Int, decimal -> *inf.Dec)?  goType(map<varint, X>) is map[*big.Int]X: Go compares such keys by pointer
// identity, which neither the model (structural equality of keys) nor the canonical printing of maps can express;
// the generators that bind / decode through goType(...) leave these trees out.
func PtrKeyed(t *Ty) bool {
	if t.Name == "map" && GoTypeOf(t.Elems[0]).Name == "ptr" {
		return true
	}
	for _, e := range t.Elems {
		if PtrKeyed(e) {
			return true
		}
	}
	return false
}

// RTCase: a protocol version, a type tree, a round-trip Go type and a value of it.
func (g *Gen) RTCase(depth int) (proto byte, t *Ty, gt *GT, v *Val) {
	proto = byte(1 + g.R.Intn(5))
	t = g.Ty(depth)
	for tries := 0; (t.IsScalar() || PtrKeyed(t)) && tries < 50; tries++ { // composite types are the point of this generator
		t = g.Ty(depth)
	}
	if PtrKeyed(t) {
		t = &Ty{Name: "list", Elems: []*Ty{{Name: "text"}}}
	}
	gt = g.RTType(t)
	v = g.RTValue(t, gt)
	Normalize(proto, t, v)
	return
}

// ---------- sizes and counts at the width boundaries of the collection framings ----------

// Boundary sizes: both sides of 2^7, 2^8, 2^15 (sign of a 16-bit length), 2^16 (width of the protocol <= 2 framing).
var BoundarySizes = []int{0, 1, 127, 128, 255, 256, 32767, 32768, 65535, 65536}

type BCase struct {
	Proto byte
	T     *Ty
	GT    *GT
	V     *Val
	Class string
	// EncodeOnly: a map with >= 32767 entries — the model's map decoder (an association list with replace-on-equal-key)
	// is quadratic, so the model-vs-code decode ops are not emitted for it (the spec-backed ops are)
	EncodeOnly bool
}

func bigSize(n int) bool { return n >= 32767 }

// payload: a text / blob value of exactly n bytes and the Go type it has
func (g *Gen) payload(n int) (*Ty, *GT, *Val) {
	x := byte('a' + g.R.Intn(26))
	switch g.R.Intn(6) {
	case 0:
		return &Ty{Name: "blob"}, &GT{Name: "bytes"}, &Val{Tag: "b", Bytes: Rep(x, n)}
	case 1:
		return &Ty{Name: "blob"}, &GT{Name: "nbytes"}, &Val{Tag: "nb", Bytes: Rep(x, n)}
	case 2:
		return &Ty{Name: "varchar"}, &GT{Name: "nstring"}, &Val{Tag: "ns", Bytes: Rep(x, n)}
	case 3:
		return &Ty{Name: "blob"}, &GT{Name: "string"}, &Val{Tag: "s", Bytes: Rep(x, n)}
	default:
		return &Ty{Name: "text"}, &GT{Name: "string"}, &Val{Tag: "s", Bytes: Rep(x, n)}
	}
}

// small neighbour of the payload type (so that a mis-framed big element shows in the elements after it)
func neighbour(pv *Val, b byte) *Val { return &Val{Tag: pv.Tag, Bytes: []byte{b}} }

var elemContexts = []string{"list", "set", "mapkey", "mapval", "list-list", "list-tuple", "tuple-list", "list-udt", "udt-map", "map-list"}

// elemCase: an element whose ENCODING is exactly n bytes long, in one of the element positions of the two collection
// framings (nil when n is too small for the context).
func (g *Gen) elemCase(proto byte, ctx string, n int) *BCase {
	w := 2 // width of a length of the collection framing
	if proto > 2 {
		w = 4
	}
	intT, intG := &Ty{Name: "int"}, &GT{Name: "k", Kind: "int"}
	one := &Val{Tag: "i", Kind: "int", Int: big.NewInt(1)}
	class := "boundary/elem/" + ctx
	mk := func(t *Ty, gt *GT, v *Val) *BCase { return &BCase{Proto: proto, T: t, GT: gt, V: v, Class: class} }
	// with or without neighbours
	around := func(pv *Val) []*Val {
		switch g.R.Intn(3) {
		case 0:
			return []*Val{pv}
		case 1:
			return []*Val{pv, neighbour(pv, 't')}
		}
		return []*Val{neighbour(pv, 'h'), pv, neighbour(pv, 't')}
	}
	switch ctx {
	case "list", "set":
		pt, pg, pv := g.payload(n)
		return mk(&Ty{Name: ctx, Elems: []*Ty{pt}}, &GT{Name: "slice", Elems: []*GT{pg}}, &Val{Tag: "sl", GT: pg, Elems: around(pv)})
	case "mapkey":
		pt, pg, pv := g.payload(n)
		if !hashableGT(pg) {
			pt, pg, pv = &Ty{Name: "text"}, &GT{Name: "string"}, &Val{Tag: "s", Bytes: pv.Bytes}
		}
		v := &Val{Tag: "map", GT: pg, GT2: intG, Elems: []*Val{pv, one}}
		if g.R.Bool() && n != 1 {
			v.Elems = append(v.Elems, neighbour(pv, 'z'), one)
		}
		return mk(&Ty{Name: "map", Elems: []*Ty{pt, intT}}, &GT{Name: "map", Elems: []*GT{pg, intG}}, v)
	case "mapval":
		pt, pg, pv := g.payload(n)
		v := &Val{Tag: "map", GT: intG, GT2: pg, Elems: []*Val{one, pv}}
		if g.R.Bool() {
			v.Elems = append(v.Elems, &Val{Tag: "i", Kind: "int", Int: big.NewInt(2)}, neighbour(pv, 't'))
		}
		return mk(&Ty{Name: "map", Elems: []*Ty{intT, pt}}, &GT{Name: "map", Elems: []*GT{intG, pg}}, v)
	case "list-list", "map-list":
		// inner list with one element: encoding = w + (w + m) bytes
		m := n - 2*w
		if m < 0 {
			return nil
		}
		pt, pg, pv := g.payload(m)
		it, ig := &Ty{Name: "list", Elems: []*Ty{pt}}, &GT{Name: "slice", Elems: []*GT{pg}}
		iv := &Val{Tag: "sl", GT: pg, Elems: []*Val{pv}}
		small := &Val{Tag: "sl", GT: pg, Elems: []*Val{neighbour(pv, 't')}}
		if ctx == "map-list" {
			return mk(&Ty{Name: "map", Elems: []*Ty{intT, it}}, &GT{Name: "map", Elems: []*GT{intG, ig}},
				&Val{Tag: "map", GT: intG, GT2: ig, Elems: []*Val{one, iv, {Tag: "i", Kind: "int", Int: big.NewInt(2)}, small}})
		}
		return mk(&Ty{Name: "list", Elems: []*Ty{it}}, &GT{Name: "slice", Elems: []*GT{ig}}, &Val{Tag: "sl", GT: ig, Elems: []*Val{iv, small}})
	case "list-tuple":
		// a tuple with one field: encoding = 4 + m bytes
		m := n - 4
		if m < 0 {
			return nil
		}
		pt, _, pv := g.payload(m)
		pg := GoTypeOf(pt)
		pv = &Val{Tag: map[string]string{"string": "s", "bytes": "b"}[pg.Name], Bytes: pv.Bytes}
		tt := &Ty{Name: "tuple", Elems: []*Ty{pt}}
		tg := &GT{Name: "struct", Elems: []*GT{pg}}
		tv := &Val{Tag: "st", Elems: []*Val{pv}}
		sm := &Val{Tag: "st", Elems: []*Val{neighbour(pv, 't')}}
		return mk(&Ty{Name: "list", Elems: []*Ty{tt}}, &GT{Name: "slice", Elems: []*GT{tg}}, &Val{Tag: "sl", GT: tg, Elems: []*Val{tv, sm}})
	case "list-udt":
		m := n - 4
		if m < 0 {
			return nil
		}
		pt, pg, pv := g.payload(m)
		ut := &Ty{Name: "udt", Names: []string{"a"}, Elems: []*Ty{pt}}
		ug := &GT{Name: "ustruct", Names: []string{"a"}, Elems: []*GT{pg}}
		uv := &Val{Tag: "us", Names: []string{"a"}, Elems: []*Val{pv}}
		sm := &Val{Tag: "us", Names: []string{"a"}, Elems: []*Val{neighbour(pv, 't')}}
		return mk(&Ty{Name: "list", Elems: []*Ty{ut}}, &GT{Name: "slice", Elems: []*GT{ug}}, &Val{Tag: "sl", GT: ug, Elems: []*Val{uv, sm}})
	case "tuple-list":
		// a list element of n bytes inside a list that is a tuple field
		pt, pg, pv := g.payload(n)
		_ = pg
		it := &Ty{Name: "list", Elems: []*Ty{pt}}
		return mk(&Ty{Name: "tuple", Elems: []*Ty{it, intT}}, &GT{Name: "struct", Elems: []*GT{GoTypeOf(it), {Name: "k", Kind: "int"}}},
			&Val{Tag: "st", Elems: []*Val{{Tag: "sl", GT: GoTypeOf(pt), Elems: retag(around(pv), GoTypeOf(pt))}, one}})
	case "udt-map":
		pt, pg, pv := g.payload(n)
		mt := &Ty{Name: "map", Elems: []*Ty{intT, pt}}
		mg := &GT{Name: "map", Elems: []*GT{intG, pg}}
		mv := &Val{Tag: "map", GT: intG, GT2: pg, Elems: []*Val{one, pv, {Tag: "i", Kind: "int", Int: big.NewInt(2)}, neighbour(pv, 't')}}
		return mk(&Ty{Name: "udt", Names: []string{"a", "b"}, Elems: []*Ty{mt, intT}},
			&GT{Name: "ustruct", Names: []string{"a", "b"}, Elems: []*GT{mg, intG}},
			&Val{Tag: "us", Names: []string{"a", "b"}, Elems: []*Val{mv, one}})
	}
	return nil
}

// retag: the same byte strings as values of Go type gt (string / bytes)
func retag(vs []*Val, gt *GT) []*Val {
	tag := map[string]string{"string": "s", "bytes": "b", "nstring": "ns", "nbytes": "nb"}[gt.Name]
	out := make([]*Val, len(vs))
	for i, v := range vs {
		out[i] = &Val{Tag: tag, Bytes: v.Bytes}
	}
	return out
}

var countContexts = []string{"list", "set", "map"}

// countCase: a collection of exactly n (tiny) elements.
func (g *Gen) countCase(proto byte, ctx string, n int) *BCase {
	class := "boundary/count/" + ctx
	switch ctx {
	case "list", "set":
		var et *Ty
		var eg *GT
		var ev *Val
		switch g.R.Intn(3) {
		case 0:
			et, eg, ev = &Ty{Name: "text"}, &GT{Name: "string"}, &Val{Tag: "s", Bytes: []byte{}}
		case 1:
			et, eg, ev = &Ty{Name: "tinyint"}, &GT{Name: "k", Kind: "int8"}, &Val{Tag: "i", Kind: "int8", Int: big.NewInt(int64(g.R.Intn(256) - 128))}
		default:
			et, eg, ev = &Ty{Name: "boolean"}, &GT{Name: "bool"}, &Val{Tag: "bool", Bool: g.R.Bool()}
		}
		return &BCase{Proto: proto, T: &Ty{Name: ctx, Elems: []*Ty{et}}, GT: &GT{Name: "slice", Elems: []*GT{eg}},
			V: &Val{Tag: "slrep", GT: eg, N: n, Elems: []*Val{ev}}, Class: class}
	case "map":
		kt := []string{"int", "bigint"}[g.R.Intn(2)]
		kk := map[string]string{"int": "int32", "bigint": "int64"}[kt]
		if g.R.Bool() {
			kk = "int"
		}
		vg, vv := &GT{Name: "string"}, &Val{Tag: "s", Bytes: []byte{}}
		return &BCase{Proto: proto, T: &Ty{Name: "map", Elems: []*Ty{{Name: kt}, {Name: "text"}}},
			GT: &GT{Name: "map", Elems: []*GT{{Name: "k", Kind: kk}, vg}},
			V:  &Val{Tag: "mapseq", Kind: kk, GT: &GT{Name: "k", Kind: kk}, GT2: vg, N: n, Elems: []*Val{vv}}, Class: class, EncodeOnly: n > 4096}
	}
	return nil
}

// near: n, or (sometimes) a size right next to it
func (g *Gen) near(n int) int {
	switch g.R.Intn(6) {
	case 0:
		if n > 0 {
			return n - 1
		}
	case 1:
		return n + 1
	}
	return n
}

// BoundaryCases: element lengths and element counts on both sides of every width boundary, for list / set / map
// (key and value positions) and for collections nested in / around tuples and UDTs, under both framings.
// quick: every small size everywhere; the four sizes around 2^15 and 2^16 in every context under protocol 1 and 2
// (the 2-byte framing) and a random one of them under 3, 4, 5; thorough: the full product, twice.
func (g *Gen) BoundaryCases(tier string) []BCase {
	var out []BCase
	add := func(c *BCase) {
		if c != nil {
			Normalize(c.Proto, c.T, c.V)
			out = append(out, *c)
		}
	}
	rounds := 1
	if tier == "thorough" {
		rounds = 2
	}
	for round := 0; round < rounds; round++ {
		for proto := byte(1); proto <= 5; proto++ {
			for _, ctx := range elemContexts {
				pick := 32767 + g.R.Intn(2) + 32768*g.R.Intn(2) // one of 32767, 32768, 65535, 65536
				for _, n := range BoundarySizes {
					if bigSize(n) && tier != "thorough" && proto > 2 && n != pick {
						continue
					}
					if bigSize(n) && tier != "thorough" && proto == 1 && ctx != "list" && ctx != "mapkey" && ctx != "mapval" && n != pick {
						continue
					}
					m := n
					if round > 0 {
						m = g.near(n)
					}
					add(g.elemCase(proto, ctx, m))
				}
			}
			for _, ctx := range countContexts {
				pick := 32767 + g.R.Intn(2) + 32768*g.R.Intn(2)
				for _, n := range BoundarySizes {
					if bigSize(n) && tier != "thorough" {
						if proto != 2 && n != pick {
							continue
						}
						if ctx == "map" && n != pick && n != 32768 {
							continue
						}
					}
					add(g.countCase(proto, ctx, n))
				}
			}
		}
	}
	return out
}

// NoByteSlices: a slice / array of (named) uint8 is a []byte to reflect; such element types are replaced by uint16.
func NoByteSlices(gt *GT) *GT { return noByteSlices(gt) }
