package valgen

import (
	"encoding/hex"
	"errors"
	"strconv"
	"strings"
)

// Compact byte strings (the same grammar is read and written by lean/Driver/C12.lean):
//
//	bytes ::= "-" | part ("+" part)*
//	part  ::= hexdigits | "rep:" XX ":" N        (N copies of the byte XX)
//
// so that elements of 32768 / 65535 / 65536 bytes (the width boundaries of the collection framings) cost a few
// characters in an op line.  HexC is canonical: every maximal run of at least RunMin equal bytes is written as a
// `rep` part, everything else as hex digits.

const RunMin = 24

func HexC(b []byte) string {
	if len(b) == 0 {
		return "-"
	}
	var parts []string
	var lit []byte
	flush := func() {
		if len(lit) > 0 {
			parts = append(parts, hex.EncodeToString(lit))
			lit = lit[:0]
		}
	}
	for i := 0; i < len(b); {
		j := i
		for j < len(b) && b[j] == b[i] {
			j++
		}
		if j-i >= RunMin {
			flush()
			parts = append(parts, "rep:"+hex.EncodeToString(b[i:i+1])+":"+strconv.Itoa(j-i))
		} else {
			lit = append(lit, b[i:j]...)
		}
		i = j
	}
	flush()
	return strings.Join(parts, "+")
}

func UnHexC(s string) ([]byte, error) {
	if s == "-" {
		return []byte{}, nil
	}
	out := []byte{}
	for _, p := range strings.Split(s, "+") {
		if strings.HasPrefix(p, "rep:") {
			f := strings.Split(p, ":")
			if len(f) != 3 || len(f[1]) != 2 {
				return nil, errors.New("bad rep part")
			}
			x, err := hex.DecodeString(f[1])
			if err != nil {
				return nil, err
			}
			n, err := strconv.Atoi(f[2])
			if err != nil || n < 0 || n > 1<<26 {
				return nil, errors.New("bad rep count")
			}
			for k := 0; k < n; k++ {
				out = append(out, x[0])
			}
			continue
		}
		if p == "" {
			return nil, errors.New("empty part")
		}
		x, err := hex.DecodeString(p)
		if err != nil {
			return nil, err
		}
		out = append(out, x...)
	}
	return out, nil
}

// Rep builds n copies of a byte.
func Rep(x byte, n int) []byte {
	b := make([]byte, n)
	for i := range b {
		b[i] = x
	}
	return b
}

// showRuns joins printed elements, writing a run of at least ShowRunMin equal adjacent elements as `rep <k> <elem>`
// (the same rule as showVals in lean/Driver/C12.lean).
const ShowRunMin = 8

func showRuns(es []string) string {
	var sb strings.Builder
	for i := 0; i < len(es); {
		j := i
		for j < len(es) && es[j] == es[i] {
			j++
		}
		if j-i >= ShowRunMin {
			sb.WriteString(" rep " + strconv.Itoa(j-i) + " " + es[i])
		} else {
			for k := i; k < j; k++ {
				sb.WriteString(" " + es[k])
			}
		}
		i = j
	}
	return sb.String()
}
