package valgen

import (
	"bytes"
	"math/big"
	"reflect"
	"sort"

	"github.com/gocql/gocql"
)

// ---------- calling the real code ----------

// Marshal calls gocql.Marshal; status is ok / null / err / crash.
func Marshal(proto byte, t *Ty, v *Val) (data []byte, status string) {
	defer func() {
		if r := recover(); r != nil {
			data, status = nil, "crash"
		}
	}()
	b, err := gocql.Marshal(t.Info(proto), v.Build())
	if err != nil {
		return nil, "err"
	}
	if b == nil {
		return nil, "null"
	}
	return b, "ok"
}

// MarshalAnswer is the canonical answer line of an `enc` op.
func MarshalAnswer(proto byte, t *Ty, v *Val) string {
	b, st := Marshal(proto, t, v)
	if st != "ok" {
		return st
	}
	return "ok " + HexC(Canon(proto, t, v, b))
}

// Unmarshal calls gocql.Unmarshal into a fresh zero value of the Go type and prints the result.
func Unmarshal(proto byte, t *Ty, data []byte, g *GT) (ans string) {
	defer func() {
		if r := recover(); r != nil {
			ans = "crash"
		}
	}()
	info := t.Info(proto)
	if g.Name == "ifs" {
		ptrs := make([]interface{}, len(g.Elems))
		vals := make([]reflect.Value, len(g.Elems))
		for i, e := range g.Elems {
			vals[i] = reflect.New(e.RType())
			ptrs[i] = vals[i].Interface()
		}
		if err := gocql.Unmarshal(info, data, ptrs); err != nil {
			return "err"
		}
		s := "ok ifs " + itoa(len(vals))
		for _, v := range vals {
			s += " " + Show(v.Elem())
		}
		return s
	}
	target := reflect.New(g.RType())
	if err := gocql.Unmarshal(info, data, target.Interface()); err != nil {
		return "err"
	}
	return "ok " + Show(target.Elem())
}

func itoa(n int) string { return big.NewInt(int64(n)).String() }

// ---------- canonical order of map entries ----------

func deref(v *Val) *Val {
	for v != nil && v.Tag == "ptr" {
		v = v.Elems[0]
	}
	return v.Plain()
}

func readSize(proto byte, d []byte) (n int, rest []byte, ok bool) {
	if proto > 2 {
		if len(d) < 4 {
			return 0, nil, false
		}
		return int(int32(uint32(d[0])<<24 | uint32(d[1])<<16 | uint32(d[2])<<8 | uint32(d[3]))), d[4:], true
	}
	if len(d) < 2 {
		return 0, nil, false
	}
	return int(d[0])<<8 | int(d[1]), d[2:], true
}

func putSize(proto byte, n int) []byte {
	if proto > 2 {
		return []byte{byte(n >> 24), byte(n >> 16), byte(n >> 8), byte(n)}
	}
	return []byte{byte(n >> 8), byte(n)}
}

type item struct {
	null bool
	b    []byte
}

func readItem(proto byte, d []byte) (it item, rest []byte, ok bool) {
	n, r, ok := readSize(proto, d)
	if !ok {
		return it, nil, false
	}
	if n < 0 {
		return item{null: true}, r, true
	}
	if len(r) < n {
		return it, nil, false
	}
	return item{b: r[:n]}, r[n:], true
}

func putItem(proto byte, it item) []byte {
	if it.null {
		return putSize(proto, -1)
	}
	return append(putSize(proto, len(it.b)), it.b...)
}

// keyEnc: the canonical encoding of a map key / set element (nil for null or failure).
func keyEnc(proto byte, t *Ty, v *Val) []byte {
	b, st := Marshal(proto, t, v)
	if st != "ok" {
		return nil
	}
	return Canon(proto, t, v, b)
}

// Canon rewrites the encoding so that map entries (and the elements of a set given as map[X]struct{}) appear
// in ascending order of their encoded key; anything that does not parse is returned unchanged.
func Canon(proto byte, t *Ty, v *Val, data []byte) []byte {
	v = deref(v)
	if t.IsScalar() || v == nil {
		return data
	}
	switch t.Name {
	case "list", "set":
		n, rest, ok := readSize(proto, data)
		if !ok || n < 0 || n > len(rest) { // (a count beyond the bytes that are there does not parse: no 2^31-element allocation)
			return data
		}
		items := make([]item, 0, n)
		for i := 0; i < n; i++ {
			it, r, ok := readItem(proto, rest)
			if !ok {
				return data
			}
			rest = r
			if !it.null && v.Tag != "mset" && i < len(v.Elems) {
				it.b = Canon(proto, t.Elems[0], v.Elems[i], it.b)
			}
			items = append(items, it)
		}
		if v.Tag == "mset" {
			sort.SliceStable(items, func(i, j int) bool { return bytes.Compare(items[i].b, items[j].b) < 0 })
		}
		out := putSize(proto, n)
		for _, it := range items {
			out = append(out, putItem(proto, it)...)
		}
		return append(out, rest...)
	case "map":
		if v.Tag != "map" {
			return data
		}
		n, rest, ok := readSize(proto, data)
		if !ok || n < 0 || n > len(rest) {
			return data
		}
		type pair struct{ k, v item }
		pairs := make([]pair, 0, n)
		encs := make(map[string]int, len(v.Elems)/2)
		for i := 0; i < len(v.Elems)/2; i++ {
			if e := keyEnc(proto, t.Elems[0], v.Elems[2*i]); e != nil {
				if _, dup := encs[string(e)]; !dup {
					encs[string(e)] = i
				}
			}
		}
		for i := 0; i < n; i++ {
			k, r, ok := readItem(proto, rest)
			if !ok {
				return data
			}
			val, r2, ok := readItem(proto, r)
			if !ok {
				return data
			}
			rest = r2
			if !val.null {
				if j, ok := encs[string(k.b)]; ok {
					val.b = Canon(proto, t.Elems[1], v.Elems[2*j+1], val.b)
				}
			}
			pairs = append(pairs, pair{k, val})
		}
		sort.SliceStable(pairs, func(i, j int) bool { return bytes.Compare(pairs[i].k.b, pairs[j].k.b) < 0 })
		out := putSize(proto, n)
		for _, p := range pairs {
			out = append(out, putItem(proto, p.k)...)
			out = append(out, putItem(proto, p.v)...)
		}
		return append(out, rest...)
	case "tuple", "udt":
		rest := data
		var out []byte
		for i := range t.Elems {
			if len(rest) == 0 {
				break
			}
			it, r, ok := readItem(4, rest)
			if !ok {
				return data
			}
			rest = r
			var ev *Val
			if t.Name == "tuple" {
				if i < len(v.Elems) {
					ev = v.Elems[i]
				}
			} else {
				for j, nm := range v.Names {
					if nm == t.Names[i] && j < len(v.Elems) {
						ev = v.Elems[j]
					}
				}
			}
			if !it.null && ev != nil {
				it.b = Canon(proto, t.Elems[i], ev, it.b)
			}
			out = append(out, putItem(4, it)...)
		}
		return append(out, rest...)
	}
	return data
}

// Normalize orders map entries / set elements of the Go value by their canonical encoded key and drops
// duplicate keys, so that the op line names one definite entry order (a Go map has none).
func Normalize(proto byte, t *Ty, v *Val) {
	if v == nil {
		return
	}
	if v.Tag == "slrep" || v.Tag == "mapseq" { // one element / ascending integer keys: nothing to order
		Normalize(proto, elemTy(t), v.Elems[0])
		return
	}
	if v.Tag == "ptr" {
		Normalize(proto, t, v.Elems[0])
		return
	}
	switch t.Name {
	case "list", "set":
		for _, e := range v.Elems {
			Normalize(proto, t.Elems[0], e)
		}
		if v.Tag == "mset" {
			seen := map[string]bool{}
			var es []*Val
			for _, e := range v.Elems {
				if s := e.String(); !seen[s] {
					seen[s] = true
					es = append(es, e)
				}
			}
			encs := map[*Val][]byte{}
			for _, e := range es {
				encs[e] = keyEnc(proto, t.Elems[0], e)
			}
			sort.SliceStable(es, func(i, j int) bool { return bytes.Compare(encs[es[i]], encs[es[j]]) < 0 })
			v.Elems = es
		}
	case "map":
		if v.Tag != "map" {
			return
		}
		type pair struct {
			k, v *Val
			enc  []byte
		}
		seen := map[string]bool{}
		var ps []pair
		for i := 0; i+1 < len(v.Elems); i += 2 {
			// one entry per ENCODED key: two Go keys with the same encoding ("256" and "+256" bound to a smallint
			// key) would be two wire entries with equal keys whose order is Go's map iteration order
			enc := keyEnc(proto, t.Elems[0], v.Elems[i])
			s := "v:" + v.Elems[i].String()
			if enc != nil {
				s = "e:" + string(enc)
			}
			if !seen[s] && !seen["v:"+v.Elems[i].String()] {
				seen[s] = true
				seen["v:"+v.Elems[i].String()] = true
				Normalize(proto, t.Elems[1], v.Elems[i+1])
				ps = append(ps, pair{v.Elems[i], v.Elems[i+1], enc})
			}
		}
		sort.SliceStable(ps, func(i, j int) bool { return bytes.Compare(ps[i].enc, ps[j].enc) < 0 })
		v.Elems = v.Elems[:0]
		for _, p := range ps {
			v.Elems = append(v.Elems, p.k, p.v)
		}
	case "tuple":
		for i, e := range v.Elems {
			if i < len(t.Elems) {
				Normalize(proto, t.Elems[i], e)
			}
		}
	case "udt":
		for j, e := range v.Elems {
			for i, nm := range t.Names {
				if j < len(v.Names) && nm == v.Names[j] {
					Normalize(proto, t.Elems[i], e)
				}
			}
		}
	}
}

func elemTy(t *Ty) *Ty {
	switch t.Name {
	case "list", "set":
		return t.Elems[0]
	case "map":
		return t.Elems[1]
	}
	return &Ty{Name: "int"}
}
