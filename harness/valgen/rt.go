package valgen

import (
	"math/big"
	"reflect"
)

// C02: Marshal then Unmarshal.

// RoundTrip: gocql.Marshal, then gocql.Unmarshal of the produced bytes into a fresh value of Go type g.
// merr / uerr / crash / ok <decoded value>.
func RoundTrip(proto byte, t *Ty, v *Val, g *GT) string {
	b, st := Marshal(proto, t, v)
	switch st {
	case "err":
		return "merr"
	case "crash":
		return "crash"
	}
	if b != nil {
		b = Canon(proto, t, v, b) // a Go map has no order: fix the order of map entries / set elements
	}
	ans := Unmarshal(proto, t, b, g) // b == nil for null
	if ans == "err" {
		return "uerr"
	}
	return ans
}

// RoundTripSame: the property's oracle — decoded value equal to the original (same Go type).
func RoundTripSame(proto byte, t *Ty, v *Val, g *GT) (ans string) {
	defer func() {
		if r := recover(); r != nil {
			ans = "crash"
		}
	}()
	r := RoundTrip(proto, t, v, g)
	if r == "merr" || r == "uerr" || r == "crash" {
		return r
	}
	orig := "ok " + Show(reflect.ValueOf(v.Build()))
	if v.Build() == nil {
		orig = "ok nil"
	}
	if r == orig {
		return "same"
	}
	return "diff:" + r[3:]
}

func canonicalUUIDString(b []byte) bool {
	if len(b) != 36 {
		return false
	}
	for i, c := range b {
		if i == 8 || i == 13 || i == 18 || i == 23 {
			if c != '-' {
				return false
			}
		} else if !(c >= '0' && c <= '9' || c >= 'a' && c <= 'f') {
			return false
		}
	}
	return true
}

// DocumentedTarget: is Go type g a documented Unmarshal target for scalar column type t (marshal.go:193-224)?
func DocumentedTarget(t string, gt *GT) bool {
	for gt.Name == "ptr" {
		gt = gt.Elems[0]
	}
	n := gt.Name
	switch t {
	case "tinyint", "smallint", "int", "bigint", "counter":
		return n == "k" || n == "nk" || n == "big" || n == "string" || n == "dur"
	case "varint":
		return n == "k" || n == "nk" || n == "big" || n == "dur"
	case "ascii", "text", "varchar", "blob":
		return n == "string" || n == "nstring" || n == "bytes" || n == "nbytes"
	case "boolean":
		return n == "bool" || n == "nbool"
	case "float":
		return n == "f32" || n == "nf32"
	case "double":
		return n == "f64" || n == "nf64"
	case "decimal":
		return n == "dec"
	case "time":
		return (n == "k" || n == "nk") && gt.Kind == "int64" || n == "dur"
	case "timestamp":
		return (n == "k" || n == "nk") && gt.Kind == "int64" || n == "time"
	case "date":
		return n == "time"
	case "duration":
		return n == "cdur"
	case "uuid", "timeuuid":
		return n == "uuid" || n == "a16" || n == "bytes" || n == "string"
	case "inet":
		return n == "ip"
	}
	return false
}

// RTClean: the scalar (column type, Go type, value) triples for which C02's same-type round trip is claimed
// (theorem C02_scalar_roundtrip): documented in both directions, and the value is exactly representable in
// the column (a time.Time bound to timestamp carries no sub-millisecond part, bound to date it is a midnight;
// a decimal string is in canonical form; …).  Everything else is compared model-vs-code only (`rt`).
func RTClean(proto byte, t *Ty, gt *GT, v *Val) bool {
	if !t.IsScalar() || !Documented(t, v) || !DocumentedTarget(t.Name, gt) {
		return false
	}
	under := false
	for v.Tag == "ptr" {
		v = v.Elems[0]
		under = true
	}
	if under && marshalsNil(v) {
		return false // *(*T)(nil): Marshal sees null, Unmarshal gives back a nil outer pointer
	}
	tn := t.Name
	switch v.Tag {
	case "nilptr":
		return true
	case "nil", "unset":
		return false
	case "b":
		return len(v.Bytes) > 0 // []byte{} comes back as []byte(nil)
	case "s":
		if isIntCol(tn) {
			n, ok := new(big.Int).SetString(string(v.Bytes), 10)
			return ok && n.String() == string(v.Bytes)
		}
		if tn == "uuid" || tn == "timeuuid" {
			return canonicalUUIDString(v.Bytes)
		}
		return isText(tn)
	case "t":
		if Excluded(proto, t, v) && !(v.Int.Cmp(big.NewInt(zeroTimeSec)) == 0 && v.Int2.Sign() == 0) {
			return false
		}
		if tn == "timestamp" {
			return floorMod(v.Int2, 1000000).Sign() == 0
		}
		return v.Int2.Sign() == 0 && floorMod(v.Int, 86400).Sign() == 0
	case "nf32":
		return quiet32(v.Bits) == v.Bits
	case "ip":
		if len(v.Bytes) == 4 {
			return true
		}
		if len(v.Bytes) != 16 {
			return false
		}
		mapped := true
		for i := 0; i < 10; i++ {
			if v.Bytes[i] != 0 {
				mapped = false
			}
		}
		return !(mapped && v.Bytes[10] == 0xff && v.Bytes[11] == 0xff)
	}
	return true
}

// RTCleanAny extends RTClean to lists / sets (bound as slices or arrays), maps, tuples and UDTs with clean leaves,
// nested to any depth: the property's oracle `rtsame` does not depend on the model, so it is applied there too.
// Tuples: a struct / slice / array target is filled by `Set` from a value of goType(elem), so the claim is made for
// fields of exactly that type or a pointer to it (null <-> nil pointer, empty <-> pointer to the empty value), and
// for []interface{} / [n]interface{} holding values of goType(elem) (a null would come back as the zero value: not
// claimed).  UDTs: a struct with cql tags whose fields are any round-trip type (pointer fields: null <-> nil), and
// map[string]interface{} holding a goType(elem) value for every field.
func RTCleanAny(proto byte, t *Ty, gt *GT, v *Val) bool {
	if gt == nil {
		return false
	}
	v = v.Plain()
	if gt.Name == "ptr" {
		switch v.Tag {
		case "nilptr":
			return true
		case "ptr":
			if marshalsNil(v.Elems[0]) {
				return false
			}
			return RTCleanAny(proto, t, gt.Elems[0], v.Elems[0])
		}
		return false
	}
	switch t.Name {
	case "list", "set":
		if gt.Name != "slice" && gt.Name != "array" {
			return false
		}
		if v.Tag == "slnil" {
			return true
		}
		if (v.Tag != "sl" && v.Tag != "arr") || Excluded(proto, t, v) {
			return false
		}
		for _, e := range v.Elems {
			if !RTCleanAny(proto, t.Elems[0], gt.Elems[0], e) {
				return false
			}
		}
		return true
	case "map":
		if gt.Name != "map" {
			return false
		}
		if v.Tag == "mapnil" {
			return true
		}
		if v.Tag != "map" || Excluded(proto, t, v) {
			return false
		}
		for i := 0; i+1 < len(v.Elems); i += 2 {
			if !RTCleanAny(proto, t.Elems[0], gt.Elems[0], v.Elems[i]) || !RTCleanAny(proto, t.Elems[1], gt.Elems[1], v.Elems[i+1]) {
				return false
			}
		}
		return true
	case "tuple":
		field := func(et *Ty, f *GT, e *Val) bool {
			g0 := GoTypeOf(et)
			switch {
			case f.Name == "iface":
				return sameGT(TypeOfVal(e), g0) && RTCleanAny(proto, et, g0, e)
			case sameGT(f, g0):
				return g0.Name != "ptr" && RTCleanAny(proto, et, g0, e)
			case f.Name == "ptr" && sameGT(f.Elems[0], g0):
				return e.Tag == "nilptr" || (e.Tag == "ptr" && !marshalsNil(deref(e)) && RTCleanAny(proto, et, g0, e.Elems[0]))
			}
			return false
		}
		switch {
		case gt.Name == "struct" && v.Tag == "st":
			if len(gt.Elems) != len(t.Elems) || len(v.Elems) != len(t.Elems) {
				return false
			}
			for i, e := range v.Elems {
				if !field(t.Elems[i], gt.Elems[i], e) {
					return false
				}
			}
			return true
		case (gt.Name == "slice" && (v.Tag == "sl" || v.Tag == "ifs")) || (gt.Name == "array" && v.Tag == "arr" && gt.N == len(t.Elems)):
			if len(v.Elems) != len(t.Elems) {
				return false
			}
			for i, e := range v.Elems {
				if !field(t.Elems[i], gt.Elems[0], e) {
					return false
				}
			}
			return true
		}
		return false
	case "udt":
		switch {
		case gt.Name == "ustruct" && v.Tag == "us":
			if len(v.Names) != len(gt.Names) || len(t.Elems) == 0 {
				return false
			}
			seen := map[string]bool{}
			for i, nm := range v.Names {
				j := lookup(nm, t.Names)
				if nm != gt.Names[i] || j < 0 || seen[nm] {
					return false
				}
				seen[nm] = true
				if !RTCleanAny(proto, t.Elems[j], gt.Elems[i], v.Elems[i]) {
					return false
				}
			}
			return true
		case gt.Name == "umap" && v.Tag == "um":
			if len(v.Names) != len(t.Names) {
				return false
			}
			for i, nm := range v.Names {
				g0 := GoTypeOf(t.Elems[i])
				if nm != t.Names[i] || !sameGT(TypeOfVal(v.Elems[i]), g0) || !RTCleanAny(proto, t.Elems[i], g0, v.Elems[i]) {
					return false
				}
			}
			return true
		}
		return false
	}
	return RTClean(proto, t, gt, v)
}
