package c05frame

import (
	"bytes"
	"context"
	"fmt"
	"os"
	"os/exec"
	"runtime/debug"
	"strconv"
	"strings"
	"time"

	"github.com/gocql/gocql"
)

// Recursion depth is linear in the input for readTypeInfo (list<list<...>>: 2 body bytes per level),
// getCassandraType (frozen<frozen<...: 8 bytes per level) and parseType (A(A(A(...))): 2 bytes per
// level). A goroutine stack overflow is fatal (not recoverable). The child runs under this stack
// limit so that a few hundred KB of input show what ~10-100 MB do under Go's default 1 GB limit.
const DeepStackLimit = 32 << 20

func deepInput(what string, depth int) []byte {
	var b bytes.Buffer
	switch what {
	case "typeinfo": // RESULT/ROWS, one column whose type is list<list<...<int>>>
		w := &fb{}
		w.int4(2, "")
		w.int4(1, "")
		w.int4(1, "")
		w.str("k")
		w.str("t")
		w.str("c")
		b.Write(w.b)
		for i := 0; i < depth; i++ {
			b.Write([]byte{0, 0x20})
		}
		b.Write([]byte{0, 9, 0, 0, 0, 0})
	case "gct":
		b.WriteString(strings.Repeat("frozen<", depth) + "int" + strings.Repeat(">", depth))
	case "ts":
		b.WriteString(strings.Repeat("A(", depth) + "B" + strings.Repeat(")", depth))
	}
	return b.Bytes()
}

// DeepChild is the subprocess side: `e2e deep <what> <depth>`.
func DeepChild(args []string) {
	if len(args) != 2 {
		os.Exit(2)
	}
	depth, _ := strconv.Atoi(args[1])
	in := deepInput(args[0], depth)
	if os.Getenv("VERIF_C05_DEEP_STACK") != "default" {
		debug.SetMaxStack(DeepStackLimit)
	}
	switch args[0] {
	case "typeinfo":
		_, err := gocql.VerifC05ParseFrame(4, 0x84, 0, 0x08, in)
		fmt.Println("returned", err == nil)
	case "gct":
		gocql.VerifC05GetCassandraType(string(in))
		fmt.Println("returned")
	case "ts":
		gocql.VerifC05ParseType(string(in))
		fmt.Println("returned")
	default:
		os.Exit(2)
	}
}

func deepAnswer(what string, depth int) string {
	exe, err := os.Executable()
	if err != nil {
		exe = os.Args[0]
	}
	ctx, cancel := context.WithTimeout(context.Background(), 120*time.Second)
	defer cancel()
	cmd := exec.CommandContext(ctx, exe, "e2e", "deep", what, strconv.Itoa(depth))
	var so, se bytes.Buffer
	cmd.Stdout, cmd.Stderr = &so, &se
	cmd.Env = append(os.Environ(), "GOTRACEBACK=single")
	err = cmd.Run()
	if ctx.Err() != nil {
		return "fail:timeout"
	}
	if err == nil {
		return "survived"
	}
	stderr := se.String()
	if strings.Contains(stderr, "stack overflow") || strings.Contains(stderr, "goroutine stack exceeds") {
		fn := map[string]string{"typeinfo": "readTypeInfo", "gct": "getCassandraType", "ts": "parseClassNode"}[what]
		if strings.Contains(stderr, "."+fn) || strings.Contains(stderr, ")."+fn) {
			return "crash:" + fn + ":stackoverflow"
		}
		return "crash:unknown:stackoverflow"
	}
	return "fail:exit"
}
