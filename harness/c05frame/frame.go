package c05frame

import (
	"fmt"
	"runtime"
	"strconv"
	"strings"

	"github.com/gocql/gocql"
	"verifharness/c05util"
	"verifharness/vh"
)

const rowCap = 20000

func atoi(s string) int {
	v, err := strconv.Atoi(s)
	if err != nil {
		panic("bad-int")
	}
	return v
}

func kindName(k string) string {
	k = strings.TrimPrefix(k, "*")
	return strings.TrimPrefix(k, "gocql.")
}

// Exec answers one op line.
//
//	frame <proto> <resp 0|1> <flags> <op> <hex body>   → ok:<frame type> | err | crash:<func>:<kind>
//	rows  <proto> <flags> <hex body>                   → ok:<frame type> | ok:rows:<n> | ok:rows:capped | err:rows:<n> | err | crash:…
//	hdr   <hex wire>                                   → ok:<version>:<flags>:<stream>:<op>:<length> | err
//	body  <proto> <length> <flags> <hex avail>         → ok:<cap of read buffer> | err:<cap>
func Exec(w []string) (ans string, mine bool) {
	if len(w) == 0 {
		return "", false
	}
	switch w[0] {
	case "frame", "rows", "hdr", "body", "falloc", "newrow":
	case "alloc":
		if len(w) < 2 || w[1] != "rows" {
			return "", false
		}
		return execAllocRows(w)
	case "deep":
		if len(w) != 3 {
			return "bad-op", true
		}
		return deepAnswer(w[1], atoi(w[2])), true
	case "prim":
		if len(w) != 2 {
			return "bad-op", true
		}
		return primAnswer(w[1]), true
	default:
		return "", false
	}
	defer func() {
		if r := recover(); r != nil {
			ans, mine = "bad-op", true
		}
	}()
	hx := func(s string) []byte {
		b, err := vh.UnHex(s)
		if err != nil {
			panic("bad-hex")
		}
		return b
	}
	switch w[0] {
	case "frame":
		if len(w) != 6 {
			return "bad-op", true
		}
		proto, resp, flags, op, body := atoi(w[1]), atoi(w[2]), atoi(w[3]), atoi(w[4]), hx(w[5])
		hv := byte(proto)
		if resp == 1 {
			hv |= 0x80
		}
		crash := c05util.Guard(func() {
			kind, err := gocql.VerifC05ParseFrame(byte(proto), hv, byte(flags), byte(op), body)
			if err != nil {
				ans = "err"
			} else {
				ans = "ok:" + kindName(kind)
			}
		})
		if crash != "" {
			return crash, true
		}
		return ans, true
	case "falloc":
		// bytes allocated while parsing one frame (runtime.MemStats.TotalAlloc delta), as a coarse class
		if len(w) != 5 {
			return "bad-op", true
		}
		proto, flags, op, body := atoi(w[1]), atoi(w[2]), atoi(w[3]), hx(w[4])
		var m0, m1 runtime.MemStats
		runtime.GC()
		runtime.ReadMemStats(&m0)
		crash := c05util.Guard(func() {
			gocql.VerifC05ParseFrame(byte(proto), byte(proto)|0x80, byte(flags), byte(op), body)
		})
		runtime.ReadMemStats(&m1)
		if crash != "" {
			return crash, true
		}
		d := m1.TotalAlloc - m0.TotalAlloc
		switch {
		case d < 4<<20:
			return "alloc:small", true
		case d >= 48<<20:
			return "alloc:big", true
		}
		return "alloc:mid", true
	case "rows":
		if len(w) != 4 {
			return "bad-op", true
		}
		proto, flags, body := atoi(w[1]), atoi(w[2]), hx(w[3])
		crash := c05util.Guard(func() {
			kind, rows, capped, err := gocql.VerifC05RowsScan(byte(proto), byte(flags), body, rowCap)
			switch {
			case kind == "" && err != nil:
				ans = "err"
			case kind != "rows":
				ans = "ok:" + kindName(kind)
			case capped:
				ans = "ok:rows:capped"
			case err != nil:
				ans = fmt.Sprintf("err:rows:%d", rows)
			default:
				ans = fmt.Sprintf("ok:rows:%d", rows)
			}
		})
		if crash != "" {
			return crash, true
		}
		return ans, true
	case "newrow":
		if len(w) != 4 {
			return "bad-op", true
		}
		proto, flags, body := atoi(w[1]), atoi(w[2]), hx(w[3])
		crash := c05util.Guard(func() {
			kind, n, err := gocql.VerifC05RowData(byte(proto), byte(flags), body)
			switch {
			case kind == "" && err != nil:
				ans = "err"
			case kind != "rows":
				ans = "ok:" + kindName(kind)
			case err != nil:
				ans = "err:newrow"
			default:
				ans = fmt.Sprintf("ok:newrow:%d", n)
			}
		})
		if crash != "" {
			return crash, true
		}
		return ans, true
	case "hdr":
		if len(w) != 2 {
			return "bad-op", true
		}
		wire := hx(w[1])
		crash := c05util.Guard(func() {
			v, fl, st, op, ln, err := gocql.VerifC05ReadHeader(wire)
			if err != nil {
				ans = "err"
			} else {
				ans = fmt.Sprintf("ok:%d:%d:%d:%d:%d", v, fl, st, op, ln)
			}
		})
		if crash != "" {
			return crash, true
		}
		return ans, true
	case "body":
		if len(w) != 5 {
			return "bad-op", true
		}
		proto, length, flags, avail := atoi(w[1]), atoi(w[2]), atoi(w[3]), hx(w[4])
		crash := c05util.Guard(func() {
			c, _, err := gocql.VerifC05ReadFrame(byte(proto), byte(flags), length, avail)
			if err != nil {
				ans = fmt.Sprintf("err:%d", c)
			} else {
				ans = fmt.Sprintf("ok:%d", c)
			}
		})
		if crash != "" {
			return crash, true
		}
		return ans, true
	}
	return "", false
}

func put(b []byte, f field, v uint32) []byte {
	nb := append([]byte{}, b...)
	if f.w == 2 {
		nb[f.off], nb[f.off+1] = byte(v>>8), byte(v)
	} else {
		nb[f.off], nb[f.off+1], nb[f.off+2], nb[f.off+3] = byte(v>>24), byte(v>>16), byte(v>>8), byte(v)
	}
	return nb
}

func get(b []byte, f field) uint32 {
	if f.w == 2 {
		return uint32(b[f.off])<<8 | uint32(b[f.off+1])
	}
	return uint32(b[f.off])<<24 | uint32(b[f.off+1])<<16 | uint32(b[f.off+2])<<8 | uint32(b[f.off+3])
}

// hugePk screens out inputs on which the REAL code would `make([]int, n)` with n > 2^24 (a 16 GB
// allocation takes a minute): a prepared result (kind 4, proto >= 4) whose pk count is reachable.
// It is a cheap pre-scan of the leading fields written in Go; the skipped inputs are counted.
func hugePk(proto, flags, op int, b []byte) bool {
	if op != 0x08 || proto&0x7f < 4 {
		return false
	}
	p := 0
	need := func(n int) bool { return p+n <= len(b) }
	rdShort := func() (int, bool) {
		if !need(2) {
			return 0, false
		}
		v := int(b[p])<<8 | int(b[p+1])
		p += 2
		return v, true
	}
	rdInt := func() (int32, bool) {
		if !need(4) {
			return 0, false
		}
		v := int32(uint32(b[p])<<24 | uint32(b[p+1])<<16 | uint32(b[p+2])<<8 | uint32(b[p+3]))
		p += 4
		return v, true
	}
	skipStr := func() bool {
		n, ok := rdShort()
		if !ok || !need(n) {
			return false
		}
		p += n
		return true
	}
	if flags&2 != 0 {
		if !need(16) {
			return false
		}
		p += 16
	}
	if flags&8 != 0 {
		n, ok := rdShort()
		if !ok {
			return false
		}
		for i := 0; i < n; i++ {
			if !skipStr() {
				return false
			}
		}
	}
	if flags&4 != 0 {
		n, ok := rdShort()
		if !ok {
			return false
		}
		for i := 0; i < n; i++ {
			if !skipStr() {
				return false
			}
			l, ok := rdInt()
			if !ok {
				return false
			}
			if l > 0 {
				if !need(int(l)) {
					return false
				}
				p += int(l)
			}
		}
	}
	k, ok := rdInt()
	if !ok || k != 4 {
		return false
	}
	if !skipStr() { // short bytes id
		return false
	}
	if _, ok := rdInt(); !ok { // flags
		return false
	}
	cc, ok := rdInt()
	if !ok || cc < 0 {
		return false
	}
	pk, ok := rdInt()
	return ok && pk > 1<<24
}

type emitFn = func(op, impl, class string, nontrivial bool)

// Skipped counts the generated inputs not executed because the real code would allocate > 128 MiB
// for the partition-key index list (see hugePk).
var Skipped int

type gen struct {
	r       *vh.Rng
	emit    emitFn
	skipped int
	nrows   int
}

func outcomeClass(a string) string {
	if strings.HasPrefix(a, "crash:") {
		return "known/" + a[6:]
	}
	if i := strings.IndexByte(a, ':'); i >= 0 {
		return a[:i]
	}
	return a
}

func (g *gen) frame(proto, resp, flags, op int, body []byte, why string) {
	if hugePk(proto, flags, op, body) {
		g.skipped++
		return
	}
	line := fmt.Sprintf("frame %d %d %d %d %s", proto, resp, flags, op, vh.Hex(body))
	a, _ := Exec(strings.Fields(line))
	g.emit(line, a, fmt.Sprintf("frame/op%02x/%s/%s", op, why, outcomeClass(a)), len(body) > 0)
}

func (g *gen) rows(proto, flags int, body []byte, why string) {
	if hugePk(proto, flags, 0x08, body) {
		g.skipped++
		return
	}
	line := fmt.Sprintf("rows %d %d %s", proto, flags, vh.Hex(body))
	a, _ := Exec(strings.Fields(line))
	g.emit(line, a, "rows/"+why+"/"+outcomeClass(a), len(body) > 0)
	g.nrows++
	if why == "wf" || why == "mapkey" || strings.HasPrefix(why, "field-type") || strings.HasPrefix(why, "field-tuple") || g.nrows%4 == 0 {
		// MapScan / SliceMap destinations (Iter.RowData -> goType) for the same metadata
		line = fmt.Sprintf("newrow %d %d %s", proto, flags, vh.Hex(body))
		a, _ = Exec(strings.Fields(line))
		g.emit(line, a, "newrow/"+why+"/"+outcomeClass(a), len(body) > 0)
	}
}

var fieldValues = func(orig uint32, w int) []uint32 {
	if w == 2 {
		return []uint32{0xFFFF, 0, orig + 1, orig - 1, 0x7FFF, 0x8000, 4, 16, 0x31, 0x30}
	}
	return []uint32{0xFFFFFFFF, 0xFFFFFFFE, 0, orig + 1, orig - 1, 0x7FFFFFFF, 0x80000000, 1000, 65536, 1 << 20}
}

// Gen generates the frame / rows / header cases of one run.
func Gen(r *vh.Rng, tier string, emit emitFn) {
	g := &gen{r: r, emit: emit}
	mult := 1
	if tier == "thorough" {
		mult = 30
	}
	// known sites, D6 / D7 / D12 / D15 witnesses first
	g.fixed()
	// well-formed frames, every truncation, every tracked field replaced
	for i := 0; i < 40*mult; i++ {
		proto := 1 + r.Intn(5)
		flags, op, w := genFrame(r, proto)
		g.frame(proto, 1, flags, op, w.b, "wf")
		if op == 0x08 {
			g.rows(proto, flags, w.b, "wf")
		}
		for k := 0; k < len(w.b); k++ {
			g.frame(proto, 1, flags, op, w.b[:k], "trunc")
			if op == 0x08 && k%2 == 0 {
				g.rows(proto, flags, w.b[:k], "trunc")
			}
		}
		for _, f := range w.fields {
			for _, v := range fieldValues(get(w.b, f), f.w) {
				nb := put(w.b, f, v)
				g.frame(proto, 1, flags, op, nb, "field-"+f.tag)
				if op == 0x08 {
					g.rows(proto, flags, nb, "field-"+f.tag)
				}
			}
		}
	}
	// rows: many more well-formed row sets with truncations at every offset and cell fields replaced
	for i := 0; i < 60*mult; i++ {
		proto := 1 + r.Intn(5)
		w := &fb{}
		genRows(r, proto, w)
		g.rows(proto, 0, w.b, "wf")
		for k := 0; k < len(w.b); k++ {
			g.rows(proto, 0, w.b[:k], "trunc")
		}
		for _, f := range w.fields {
			for _, v := range fieldValues(get(w.b, f), f.w) {
				g.rows(proto, 0, put(w.b, f, v), "field-"+f.tag)
			}
		}
	}
	// random mutations of well-formed frames, other protocol numbers, request direction, all opcodes
	for i := 0; i < 1500*mult; i++ {
		proto := 1 + r.Intn(5)
		flags, op, w := genFrame(r, proto)
		b := append([]byte{}, w.b...)
		for k := 0; k < 1+r.Intn(3) && len(b) > 0; k++ {
			switch r.Intn(4) {
			case 0:
				b[r.Intn(len(b))] = byte(r.U64())
			case 1:
				b[r.Intn(len(b))] ^= 1 << uint(r.Intn(8))
			case 2:
				b = b[:r.Intn(len(b)+1)]
			case 3:
				b = append(b, r.Bytes(r.Intn(5))...)
			}
		}
		resp := 1
		if r.Intn(40) == 0 {
			resp = 0
		}
		if r.Intn(20) == 0 {
			proto = []int{0, 6, 7, 127, 5, 4}[r.Intn(6)]
		}
		if r.Intn(10) == 0 {
			flags = r.Intn(32)
		}
		if r.Intn(10) == 0 {
			op = r.Intn(20)
		}
		g.frame(proto, resp, flags, op, b, "mut")
		if op == 0x08 && i%2 == 0 {
			g.rows(proto, flags, b, "mut")
		}
	}
	// pure random bodies for every opcode x version
	ops := []int{0x00, 0x02, 0x03, 0x06, 0x08, 0x0C, 0x0E, 0x10, 0x01, 0x07, 0x11, 0xFF}
	for i := 0; i < 25*mult; i++ {
		for _, op := range ops {
			for proto := 1; proto <= 5; proto++ {
				b := r.Bytes(r.Intn(40))
				if r.Bool() && len(b) >= 4 {
					// plausible leading code/kind so that deeper parsers are reached
					b[0], b[1], b[2] = 0, 0, 0
					b[3] = byte(r.Intn(7))
					if op == 0 {
						c := errCodes[r.Intn(len(errCodes))]
						b[2], b[3] = byte(c>>8), byte(c)
					}
				}
				g.frame(proto, 1, []int{0, 0, 0, 2, 4, 8, 14, 1, 16}[r.Intn(9)], op, b, "rand")
			}
		}
	}
	g.headers(mult)
	g.allocs(mult)
	g.allocRowsGen(mult)
	for _, n := range primFuncs {
		emit("prim "+n, primAnswer(n), "prim", true)
	}
	// recursion depth = input length / constant: process-fatal stack overflow, shown in a subprocess
	// under a 32 MiB stack limit (KF-C05-13)
	deep := [][2]interface{}{{"typeinfo", 100}, {"typeinfo", 1500000}}
	if tier == "thorough" {
		deep = append(deep, [][2]interface{}{{"gct", 100}, {"gct", 1500000}, {"ts", 100}, {"ts", 1500000}}...)
	}
	for _, d := range deep {
		line := fmt.Sprintf("deep %s %d", d[0], d[1])
		a := deepAnswer(d[0].(string), d[1].(int))
		emit(line, a, "deep/"+a, true)
	}
	Skipped += g.skipped
}

// fixed emits the witnesses of the known findings and a few boundary frames.
func (g *gen) fixed() {
	w := func(f func(w *fb)) []byte { x := &fb{}; f(x); return x.b }
	// D6: EVENT STATUS_CHANGE, inet size 16, 2 bytes left
	ev := func(kind string, size byte, left int) []byte {
		return w(func(x *fb) {
			x.str(kind)
			x.str("UP")
			x.byte1(size)
			x.b = append(x.b, make([]byte, left)...)
		})
	}
	for proto := 1; proto <= 5; proto++ {
		for _, kind := range []string{"STATUS_CHANGE", "TOPOLOGY_CHANGE"} {
			for _, size := range []byte{4, 16, 0, 5, 255} {
				for _, left := range []int{0, 1, 2, 3, 4, 7, 8, 15, 16, 19, 20, 24} {
					g.frame(proto, 1, 0, 0x0C, ev(kind, size, left), "inet")
				}
			}
		}
		// v5 error map uses readInetAdressOnly as well
		for _, code := range []int32{0x1300, 0x1500} {
			for _, left := range []int{0, 1, 2, 3, 4, 5, 6, 15, 16, 17, 18} {
				b := w(func(x *fb) {
					x.int4(code, "")
					x.str("m")
					x.short(1, "")
					x.int4(1, "")
					x.int4(1, "")
					x.int4(1, "")
					x.byte1(16)
					x.b = append(x.b, make([]byte, left)...)
				})
				g.frame(proto, 1, 0, 0x00, b, "inet-errmap")
			}
		}
		// D7: PREPARED with pk count -1 / large
		for _, pk := range []int32{-1, -2, -2147483648, 0, 1, 2, 3, 1000, 65536, 1 << 20, 1 << 24} {
			b := w(func(x *fb) {
				x.int4(4, "")
				x.shortBytes([]byte{1, 2})
				x.int4(4, "") // no metadata
				x.int4(0, "")
				x.int4(pk, "")
				x.short(0, "")
				x.short(0, "")
				x.int4(4, "")
				x.int4(0, "")
			})
			g.frame(proto, 1, 0, 0x08, b, "pk")
			g.rows(proto, 0, b, "pk")
		}
		// D12: rows shorter than declared: 1 column, 2 rows announced, k bytes of cells
		for _, nrows := range []int32{1, 2, 3, 1000, 2147483647} {
			for left := 0; left <= 9; left++ {
				b := w(func(x *fb) {
					x.int4(2, "")
					x.int4(1, "")
					x.int4(1, "")
					x.str("ks")
					x.str("t")
					x.str("c")
					x.short(9, "")
					x.int4(nrows, "")
					cells := []byte{0, 0, 0, 1, 7, 0, 0, 0, 1}
					x.b = append(x.b, cells[:left]...)
				})
				g.rows(proto, 0, b, "short")
			}
		}
		// zero-element tuple columns: dest[i:] is empty
		for _, cols := range [][]int{{0}, {1, 0}, {0, 1}, {0, 0}, {2, 0}, {0, 2, 0}, {1, 1}} {
			b := w(func(x *fb) {
				x.int4(2, "")
				x.int4(1, "")
				x.int4(int32(len(cols)), "")
				x.str("ks")
				x.str("t")
				for _, n := range cols {
					x.str("c")
					if n == 1 {
						x.short(9, "")
					} else {
						x.short(0x31, "")
						k := n
						if n == 2 {
							k = 2
						}
						x.short(k, "")
						for j := 0; j < k; j++ {
							x.short(9, "")
						}
					}
				}
				x.int4(1, "")
				for range cols {
					x.int4(-1, "")
				}
			})
			g.rows(proto, 0, b, "tuple0")
		}
		// tuple cell whose field length is beyond the cell
		for _, fl := range []int32{9, 1, 2, -1, 0, 2147483647, -2147483648} {
			b := w(func(x *fb) {
				x.int4(2, "")
				x.int4(1, "")
				x.int4(1, "")
				x.str("ks")
				x.str("t")
				x.str("c")
				x.short(0x31, "")
				x.short(2, "")
				x.short(9, "")
				x.short(9, "")
				x.int4(1, "")
				x.int4(5, "")
				x.int4(fl, "")
				x.byte1(7)
			})
			g.rows(proto, 0, b, "tuplefield")
		}
		// map columns with every key type: reflect.MapOf panics on keys that are not comparable in Go
		keyTypes := [][]int{{3}, {9}, {0x0D}, {0x0C}, {0x20, 9}, {0x22, 9}, {0x21, 9, 9}, {0x31, 0}, {0x31, 1, 9}, {0x30}, {0x0E}, {0x10}, {0x15}, {0x77}, {0x21, 3, 9}}
		for _, kt := range keyTypes {
			for _, wrap := range []int{0, 0x20, 0x21} {
				b := w(func(x *fb) {
					x.int4(2, "")
					x.int4(1, "")
					x.int4(1, "")
					x.str("ks")
					x.str("t")
					x.str("c")
					if wrap == 0x20 {
						x.short(0x20, "")
					}
					if wrap == 0x21 {
						x.short(0x21, "")
						x.short(9, "")
					}
					x.short(0x21, "")
					for i, v := range kt {
						if kt[0] == 0x30 && i == 0 {
							x.short(0x30, "")
							x.str("ks")
							x.str("u")
							x.short(0, "")
							continue
						}
						x.short(v, "")
					}
					x.short(9, "")
					x.int4(0, "")
				})
				g.rows(proto, 0, b, "mapkey")
			}
		}
		// 0 columns, many rows: Scan spins without reading
		for _, n := range []int32{5, 19999, 20000, 20001, 2147483647} {
			b := w(func(x *fb) {
				x.int4(2, "")
				x.int4(0, "")
				x.int4(0, "")
				x.int4(n, "")
			})
			g.rows(proto, 0, b, "nocols")
		}
		// column counts around the 1000 switch, with no column data
		for _, n := range []int32{999, 1000, 1001, 2147483647, -1} {
			b := w(func(x *fb) {
				x.int4(2, "")
				x.int4(1, "")
				x.int4(n, "")
				x.str("ks")
				x.str("t")
			})
			g.frame(proto, 1, 0, 0x08, b, "colcount")
		}
		// nested tuple / udt descriptions with maximal counts (allocation amplification, KF)
		for _, depth := range []int{1, 4, 16} {
			for _, id := range []int{0x31, 0x30} {
				b := w(func(x *fb) {
					x.int4(2, "")
					x.int4(1, "")
					x.int4(1, "")
					x.str("ks")
					x.str("t")
					x.str("c")
					for d := 0; d < depth; d++ {
						x.short(id, "")
						if id == 0x30 {
							x.str("")
							x.str("")
						}
						x.short(0xFFFF, "")
						if id == 0x30 {
							x.str("")
						}
					}
				})
				g.frame(proto, 1, 0, 0x08, b, "nest")
			}
		}
	}
}

// headers: readHeader on every prefix of well-formed and random headers; readFrame's allocation.
func (g *gen) headers(mult int) {
	r := g.r
	hdr := func(wire []byte, why string) {
		line := "hdr " + vh.Hex(wire)
		a, _ := Exec(strings.Fields(line))
		g.emit(line, a, "hdr/"+why+"/"+outcomeClass(a), len(wire) > 0)
	}
	for i := 0; i < 60*mult; i++ {
		var h []byte
		switch r.Intn(3) {
		case 0:
			h = r.Bytes(9)
		case 1:
			h = r.Bytes(9)
			h[0] = byte(0x80 | (1 + r.Intn(5)))
		default:
			h = r.Bytes(9)
			h[0] = byte(r.Intn(8)) | byte(r.Intn(2))<<7
			copy(h[5:], [][]byte{{0, 0, 0, 0}, {0xff, 0xff, 0xff, 0xff}, {0x10, 0, 0, 0}, {0x10, 0, 0, 1}, {0x7f, 0xff, 0xff, 0xff}, {0x80, 0, 0, 0}}[r.Intn(6)])
		}
		for k := 0; k <= len(h); k++ {
			hdr(h[:k], "prefix")
		}
		hdr(append(h, r.Bytes(3)...), "extra")
	}
	body := func(proto, length, flags int, avail []byte, why string) {
		line := fmt.Sprintf("body %d %d %d %s", proto, length, flags, vh.Hex(avail))
		a, _ := Exec(strings.Fields(line))
		g.emit(line, a, "body/"+why+"/"+outcomeClass(a), true)
	}
	for _, l := range []int{-1, -2147483648, 0, 1, 127, 128, 129, 4096, 65536, 1 << 20, 1 << 24} {
		body(4, l, 0, nil, "noavail")
		body(4, l, 0, []byte{1, 2, 3}, "short")
		body(4, l, 1, make([]byte, 200), "compressflag")
	}
	// D15: a 9-byte header announcing 256 MiB allocates 256 MiB before any body byte arrives
	body(4, 1<<28, 0, nil, "d15")
	body(4, 1<<28+1, 0, nil, "toobig")
	body(4, 2147483647, 0, []byte{1}, "toobig")
	for i := 0; i < 20*mult; i++ {
		n := r.Intn(300)
		body(1+r.Intn(5), n+r.Intn(3)-1, r.Intn(2)*r.Intn(2), r.Bytes(n), "rand")
	}
}

// allocs: allocation class of frame parsing (KF-C05-7, KF-C05-8): well-formed frames are small; a
// partition-key count of 2^24 and 80 nested maximal tuple / UDT descriptions are big.
func (g *gen) allocs(mult int) {
	r := g.r
	fa := func(proto, flags, op int, body []byte, why string) {
		line := fmt.Sprintf("falloc %d %d %d %s", proto, flags, op, vh.Hex(body))
		a, _ := Exec(strings.Fields(line))
		g.emit(line, a, "falloc/"+why+"/"+a, true)
	}
	for i := 0; i < 20*mult; i++ {
		proto := 1 + r.Intn(5)
		flags, op, w := genFrame(r, proto)
		if hugePk(proto, flags, op, w.b) {
			continue
		}
		fa(proto, flags, op, w.b, "wf")
	}
	w := func(f func(w *fb)) []byte { x := &fb{}; f(x); return x.b }
	fa(4, 0, 0x08, w(func(x *fb) {
		x.int4(4, "")
		x.shortBytes(nil)
		x.int4(4, "")
		x.int4(0, "")
		x.int4(1<<24, "")
	}), "pk")
	for _, id := range []int{0x31, 0x30} {
		fa(4, 0, 0x08, w(func(x *fb) {
			x.int4(2, "")
			x.int4(1, "")
			x.int4(1, "")
			x.str("k")
			x.str("t")
			x.str("c")
			for d := 0; d < 80; d++ {
				x.short(id, "")
				if id == 0x30 {
					x.str("")
					x.str("")
				}
				x.short(0xFFFF, "")
				if id == 0x30 {
					x.str("")
				}
			}
		}), "nest")
	}
}
