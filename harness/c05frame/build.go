// Package c05frame: C05 parts 3+4 — response frames, frame headers and row iteration on arbitrary
// bytes through the REAL framer.parseFrame / readHeader / readFrame / Iter.Scan.
package c05frame

import (
	"verifharness/vh"
)

// field is a length / count / code field of a generated body: offset, width (2 or 4) and a tag.
type field struct {
	off, w int
	tag    string
}

// fb builds a frame body and remembers where its length/count fields are.
type fb struct {
	b      []byte
	fields []field
}

func (w *fb) mark(width int, tag string) { w.fields = append(w.fields, field{len(w.b), width, tag}) }
func (w *fb) byte1(v byte)               { w.b = append(w.b, v) }
func (w *fb) short(v int, tag string) {
	if tag != "" {
		w.mark(2, tag)
	}
	w.b = append(w.b, byte(v>>8), byte(v))
}
func (w *fb) int4(v int32, tag string) {
	if tag != "" {
		w.mark(4, tag)
	}
	w.b = append(w.b, byte(v>>24), byte(v>>16), byte(v>>8), byte(v))
}
func (w *fb) str(s string) {
	w.short(len(s), "strlen")
	w.b = append(w.b, s...)
}
func (w *fb) bytes4(p []byte, null bool) {
	if null {
		w.int4(-1, "byteslen")
		return
	}
	w.int4(int32(len(p)), "byteslen")
	w.b = append(w.b, p...)
}
func (w *fb) shortBytes(p []byte) {
	w.short(len(p), "sbyteslen")
	w.b = append(w.b, p...)
}
func (w *fb) strList(l []string) {
	w.short(len(l), "listcount")
	for _, s := range l {
		w.str(s)
	}
}

var words = []string{"", "a", "ks", "tbl", "col", "SIMPLE", "BATCH", "UP", "DOWN", "NEW_NODE", "CREATED", "UPDATED", "DROPPED",
	"org.apache.cassandra.db.marshal.TupleType", "org.apache.cassandra.db.marshal.ListType", "org.apache.cassandra.db.marshal.UTF8Type",
	"org.apache.cassandra.db.marshal.MapType", "org.apache.cassandra.db.marshal.Foo", "x.y.Z", "CQL_VERSION", "3.0.0", "COMPRESSION", "snappy"}

func word(r *vh.Rng) string { return words[r.Intn(len(words))] }

var nativeIDs = []int{1, 2, 3, 4, 5, 6, 7, 8, 9, 0xA, 0xB, 0xC, 0xD, 0xE, 0xF, 0x10, 0x11, 0x12, 0x13, 0x14, 0x15}

// typ writes a type description ([option]) of bounded depth.
func (w *fb) typ(r *vh.Rng, depth int) {
	k := r.Intn(14)
	if depth <= 0 && k >= 8 {
		k = r.Intn(8)
	}
	switch {
	case k < 7:
		w.short(nativeIDs[r.Intn(len(nativeIDs))], "typeid")
	case k == 7:
		w.short(0, "typeid") // custom
		w.str(word(r))
	case k == 8, k == 9:
		w.short([]int{0x20, 0x22}[r.Intn(2)], "typeid")
		w.typ(r, depth-1)
	case k == 10:
		w.short(0x21, "typeid")
		w.typ(r, depth-1)
		w.typ(r, depth-1)
	case k == 11, k == 12:
		w.short(0x31, "typeid")
		n := r.Intn(4)
		w.short(n, "tuplecount")
		for i := 0; i < n; i++ {
			w.typ(r, depth-1)
		}
	default:
		w.short(0x30, "typeid")
		w.str(word(r))
		w.str(word(r))
		n := r.Intn(3)
		w.short(n, "udtcount")
		for i := 0; i < n; i++ {
			w.str(word(r))
			w.typ(r, depth-1)
		}
	}
}

// colSpec describes the columns written by metadata (for building matching row data).
type colSpec struct {
	tuple bool
	n     int
}

// typTop writes a column type and reports whether it is a tuple (top level) and its element count.
func (w *fb) typTop(r *vh.Rng) colSpec {
	if r.Intn(5) == 0 {
		w.short(0x31, "typeid")
		n := r.Intn(4)
		w.short(n, "tuplecount")
		for i := 0; i < n; i++ {
			w.typ(r, 1)
		}
		return colSpec{true, n}
	}
	w.typ(r, 2)
	return colSpec{false, 1}
}

// metadata writes <flags><colcount>[paging][global spec]<cols>.
func (w *fb) metadata(r *vh.Rng, prepared bool, proto int, ncols int) []colSpec {
	flags := 0
	if r.Intn(2) == 0 {
		flags |= 1
	}
	if r.Intn(4) == 0 {
		flags |= 2
	}
	if r.Intn(8) == 0 {
		flags |= 4
	}
	w.int4(int32(flags), "metaflags")
	w.int4(int32(ncols), "colcount")
	if prepared && proto >= 4 {
		npk := r.Intn(3)
		w.int4(int32(npk), "pkcount")
		for i := 0; i < npk; i++ {
			w.short(r.Intn(ncols+1), "")
		}
	}
	if flags&2 != 0 {
		w.bytes4(r.Bytes(r.Intn(6)), false)
	}
	if flags&4 != 0 {
		return nil
	}
	if flags&1 != 0 {
		w.str("ks")
		w.str("tbl")
	}
	cols := make([]colSpec, 0, ncols)
	for i := 0; i < ncols; i++ {
		if flags&1 == 0 {
			w.str("ks")
			w.str("tbl")
		}
		w.str(word(r))
		cols = append(cols, w.typTop(r))
	}
	return cols
}

// cell writes one [bytes] cell; tuple cells hold n inner [bytes].
func (w *fb) cell(r *vh.Rng, c colSpec) {
	if r.Intn(8) == 0 {
		w.int4(-1, "celllen")
		return
	}
	if !c.tuple {
		p := r.Bytes(r.Intn(5))
		w.int4(int32(len(p)), "celllen")
		w.b = append(w.b, p...)
		return
	}
	inner := &fb{}
	for i := 0; i < c.n; i++ {
		if r.Intn(6) == 0 {
			inner.int4(-1, "fieldlen")
		} else {
			p := r.Bytes(r.Intn(4))
			inner.int4(int32(len(p)), "fieldlen")
			inner.b = append(inner.b, p...)
		}
	}
	w.int4(int32(len(inner.b)), "celllen")
	base := len(w.b)
	for _, f := range inner.fields {
		w.fields = append(w.fields, field{base + f.off, f.w, f.tag})
	}
	w.b = append(w.b, inner.b...)
}

var errCodes = []int32{0x0000, 0x000A, 0x0100, 0x1000, 0x1001, 0x1002, 0x1003, 0x1100, 0x1200, 0x1300, 0x1400, 0x1500, 0x1600, 0x1700,
	0x2000, 0x2100, 0x2200, 0x2300, 0x2400, 0x2500, 0x7777, -1}

func (w *fb) inet(r *vh.Rng) {
	if r.Bool() {
		w.byte1(4)
		w.b = append(w.b, r.Bytes(4)...)
	} else {
		w.byte1(16)
		w.b = append(w.b, r.Bytes(16)...)
	}
}

func (w *fb) errorBody(r *vh.Rng, proto int, code int32) {
	w.int4(code, "errcode")
	w.str("msg")
	failure := func() {
		w.short(r.Intn(11), "")
		w.int4(int32(r.Intn(4)), "")
		w.int4(int32(r.Intn(4)), "")
		if proto > 4 {
			n := r.Intn(3)
			w.int4(int32(n), "errmapcount")
			for i := 0; i < n; i++ {
				w.inet(r)
				w.short(r.Intn(5), "")
			}
		} else {
			w.int4(int32(r.Intn(3)), "")
		}
	}
	switch code {
	case 0x1000, 0x1700:
		w.short(1, "")
		w.int4(3, "")
		w.int4(2, "")
	case 0x1100:
		w.short(1, "")
		w.int4(3, "")
		w.int4(2, "")
		w.str("SIMPLE")
	case 0x1200:
		w.short(1, "")
		w.int4(3, "")
		w.int4(2, "")
		w.byte1(byte(r.Intn(2)))
	case 0x2400:
		w.str("ks")
		w.str("tbl")
	case 0x2500:
		w.shortBytes(r.Bytes(r.Intn(17)))
	case 0x1300:
		failure()
		w.byte1(byte(r.Intn(2)))
	case 0x1500:
		failure()
		w.str("SIMPLE")
	case 0x1400:
		w.str("ks")
		w.str("fn")
		w.strList([]string{"int", "text"}[:r.Intn(3)])
	}
}

func (w *fb) schemaChange(r *vh.Rng, proto int) {
	w.str([]string{"CREATED", "UPDATED", "DROPPED"}[r.Intn(3)])
	if proto <= 2 {
		w.str("ks")
		w.str([]string{"", "tbl"}[r.Intn(2)])
		return
	}
	t := []string{"KEYSPACE", "TABLE", "TYPE", "FUNCTION", "AGGREGATE", "OTHER", ""}[r.Intn(7)]
	w.str(t)
	switch t {
	case "KEYSPACE":
		w.str("ks")
	case "TABLE", "TYPE":
		w.str("ks")
		w.str("obj")
	case "FUNCTION", "AGGREGATE":
		w.str("ks")
		w.str("fn")
		w.strList([]string{"int", "text"}[:r.Intn(3)])
	}
}

// genFrame builds a well-formed frame of a random kind; returns header flags, opcode, body builder.
func genFrame(r *vh.Rng, proto int) (flags int, op int, w *fb) {
	w = &fb{}
	if r.Intn(6) == 0 {
		flags |= 2
		w.b = append(w.b, r.Bytes(16)...)
	}
	if r.Intn(8) == 0 {
		flags |= 8
		w.strList([]string{"warn1", "w2"}[:1+r.Intn(2)])
	}
	if r.Intn(8) == 0 {
		flags |= 4
		n := r.Intn(3)
		w.short(n, "mapcount")
		for i := 0; i < n; i++ {
			w.str(word(r))
			w.bytes4(r.Bytes(r.Intn(4)), r.Intn(5) == 0)
		}
	}
	switch r.Intn(12) {
	case 0, 1:
		op = 0x00
		w.errorBody(r, proto, errCodes[r.Intn(len(errCodes))])
	case 2:
		op = 0x02
	case 3:
		op = 0x03
		w.str("org.apache.cassandra.auth.PasswordAuthenticator")
	case 4:
		op = 0x06
		n := r.Intn(4)
		w.short(n, "mapcount")
		for i := 0; i < n; i++ {
			w.str(word(r))
			l := make([]string, r.Intn(3))
			for j := range l {
				l[j] = word(r)
			}
			w.strList(l)
		}
	case 5:
		op = []int{0x0E, 0x10}[r.Intn(2)]
		w.bytes4(r.Bytes(r.Intn(8)), r.Intn(4) == 0)
	case 6, 7:
		op = 0x0C
		switch r.Intn(4) {
		case 0:
			w.str("TOPOLOGY_CHANGE")
			w.str("NEW_NODE")
			w.inet(r)
			w.int4(9042, "")
		case 1:
			w.str("STATUS_CHANGE")
			w.str("UP")
			w.inet(r)
			w.int4(9042, "")
		case 2:
			w.str("SCHEMA_CHANGE")
			w.schemaChange(r, proto)
		default:
			w.str(word(r))
		}
	default:
		op = 0x08
		switch r.Intn(8) {
		case 0:
			w.int4(1, "kind")
		case 1:
			w.int4(3, "kind")
			w.str("ks")
		case 2:
			w.int4(5, "kind")
			w.schemaChange(r, proto)
		case 3, 4:
			w.int4(4, "kind")
			w.shortBytes(r.Bytes(r.Intn(17)))
			w.metadata(r, true, proto, r.Intn(4))
			if proto >= 2 {
				w.metadata(r, false, proto, r.Intn(3))
			}
		default:
			genRows(r, proto, w)
		}
	}
	return
}

// genRows writes a ROWS result: kind, metadata, row count, cells.
func genRows(r *vh.Rng, proto int, w *fb) {
	w.int4(2, "kind")
	cols := w.metadata(r, false, proto, r.Intn(4))
	nrows := r.Intn(4)
	w.int4(int32(nrows), "rowcount")
	for i := 0; i < nrows; i++ {
		for _, c := range cols {
			w.cell(r, c)
		}
	}
}
