package c05frame

import (
	"bytes"
	"go/ast"
	"go/parser"
	"go/printer"
	"go/token"
	"path/filepath"
	"strings"

	"verifharness/c05disp"
)

// primFuncs are the functions whose length checks / slice expressions / make calls are re-extracted
// from the CURRENT source (go/ast) on every run and compared with the table the Lean model was
// written from (Driver/C05.lean `primExpect`): the (guard, need) facts of DESIGN.md 3.1.
var primFuncs = []string{"readByte", "readInt", "readShort", "readString", "readLongString", "readUUID", "readStringList",
	"readBytesInternal", "readBytes", "readShortBytes", "readInetAdressOnly", "readInet", "readConsistency", "readBytesMap",
	"readStringMultiMap", "readErrorMap", "readTypeInfo", "parsePreparedMetadata", "parseResultMetadata", "readCol",
	"parseResultRows", "readHeader", "readFrame", "parseFrame"}

func exprStr(fset *token.FileSet, e ast.Node) string {
	var b bytes.Buffer
	printer.Fprint(&b, fset, e)
	return strings.Join(strings.Fields(b.String()), "")
}

// isBuf reports whether e is `f.buf` or `p` (readHeader's header buffer).
func isBuf(e ast.Expr) bool {
	switch v := e.(type) {
	case *ast.SelectorExpr:
		return v.Sel.Name == "buf" || v.Sel.Name == "readBuffer"
	case *ast.Ident:
		return v.Name == "p"
	}
	return false
}

var primCache map[string]string

// extractPrims returns, per function, `g=[guards] u=[index/slice expressions on the buffer] m=[make calls] p=[panic kinds]`.
func extractPrims() map[string]string {
	if primCache != nil {
		return primCache
	}
	out := map[string]string{}
	dir, err := c05disp.FindGocqlDir()
	if err != nil {
		out["error"] = err.Error()
		return out
	}
	fset := token.NewFileSet()
	f, err := parser.ParseFile(fset, filepath.Join(dir, "frame.go"), nil, 0)
	if err != nil {
		out["error"] = err.Error()
		return out
	}
	want := map[string]bool{}
	for _, n := range primFuncs {
		want[n] = true
	}
	for _, d := range f.Decls {
		fd, ok := d.(*ast.FuncDecl)
		if !ok || !want[fd.Name.Name] || fd.Body == nil {
			continue
		}
		var guards, uses, makes, panics []string
		ast.Inspect(fd.Body, func(n ast.Node) bool {
			switch v := n.(type) {
			case *ast.IfStmt:
				c := exprStr(fset, v.Cond)
				if strings.Contains(c, "len(f.buf)") || strings.Contains(c, "len(p)") || strings.Contains(c, "Count<") ||
					strings.Contains(c, "length") || strings.Contains(c, "numRows<") {
					guards = append(guards, c)
				}
			case *ast.IndexExpr:
				if isBuf(v.X) {
					uses = append(uses, exprStr(fset, v))
				}
			case *ast.SliceExpr:
				if isBuf(v.X) {
					uses = append(uses, exprStr(fset, v))
				}
			case *ast.CallExpr:
				if id, ok := v.Fun.(*ast.Ident); ok {
					if id.Name == "make" {
						makes = append(makes, exprStr(fset, v))
					}
					if id.Name == "panic" && len(v.Args) == 1 {
						a := exprStr(fset, v.Args[0])
						switch {
						case strings.HasPrefix(a, "fmt.Errorf"), strings.HasPrefix(a, "err"):
							panics = append(panics, "error")
						default:
							panics = append(panics, a)
						}
					}
				}
			}
			return true
		})
		out[fd.Name.Name] = "g=[" + strings.Join(guards, ";") + "]u=[" + strings.Join(uses, ";") + "]m=[" + strings.Join(makes, ";") +
			"]p=[" + strings.Join(panics, ";") + "]"
	}
	primCache = out
	return out
}

func primAnswer(name string) string {
	t := extractPrims()
	if e, ok := t["error"]; ok {
		return "extract-error:" + strings.Join(strings.Fields(e), "_")
	}
	if a, ok := t[name]; ok {
		return a
	}
	return "absent"
}
