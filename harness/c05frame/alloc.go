package c05frame

// Allocation accounting of the ROW CONSUMERS (Iter.Scan loop, Iter.Scanner, Iter.MapScan loop, Iter.SliceMap,
// Iter.RowData): op
//
//	alloc rows <consumer> <proto> <flags> <hex RESULT body>   ->  ok | over:<bytes> | crash:<func>:<kind>
//
// The real code parses the body and consumes the row set; the bytes it allocates (runtime.MemStats.TotalAlloc
// delta of the calling goroutine's run; nothing else runs in the harness at that time) are compared with
//
//	AllocBase + AllocPerByte*|body| + AllocPerUnit*(|rows|/4 + 1)*(dests + 1)
//
// where |rows| is what is left of the body after the metadata and dests the destinations per row: the bound of the
// model's allocation counter (Lean: C05.C05_rows_alloc_bound, RowsCrash.consumeBound) times generous per-unit
// constants (measured: see AllocStats). The ANNOUNCED row count is not in the bound: a consumer that sizes anything
// by it (seeded change C05-2: SliceMap `make(.., 0, iter.numRows)`) answers over:<bytes> on a 40-byte frame.

import (
	"fmt"
	"os"
	"runtime"
	"strconv"
	"strings"

	"github.com/gocql/gocql"
	"verifharness/c05util"
	"verifharness/vh"
)

const (
	AllocBase    = 512 << 10 // framer + iterator + first map buckets + make([]ColumnInfo, colCount) for colCount < 1000 (64 KiB)
	AllocPerByte = 512      // parsed strings / type descriptions / copied cells per body byte
	AllocPerUnit = 2048     // one destination of one row: value, interface, map entry, column name
	allocRowCap  = 4096     // loops the CALLER writes stop here
)

// AllocStats: the largest observed ratio allocated / bound (in 1/1000), per consumer, for the report.
var AllocStats = map[string]int{}
var AllocSkippedZeroCols int

var Consumers = []string{"scan", "scanner", "mapscan", "slicemap", "rowdata"}

func allocBound(body, rest, dests int) uint64 {
	if dests > 65536 {
		dests = 0
	}
	return uint64(AllocBase) + uint64(AllocPerByte)*uint64(body) + uint64(AllocPerUnit)*uint64(rest/4+1)*uint64(dests+1)
}

func execAllocRows(w []string) (ans string, mine bool) {
	if len(w) != 6 {
		return "bad-op", true
	}
	consumer, proto, flags := w[2], atoi(w[3]), atoi(w[4])
	body, err := vh.UnHex(w[5])
	if err != nil {
		return "bad-op", true
	}
	ok := false
	for _, c := range Consumers {
		ok = ok || c == consumer
	}
	if !ok {
		return "bad-op", true
	}
	if flags&1 != 0 {
		return "ok", true // compressed flag, no compressor: readFrame fails
	}
	var m0, m1 runtime.MemStats
	var dests, rest int
	runtime.GC()
	runtime.ReadMemStats(&m0)
	crash := c05util.Guard(func() {
		_, _, dests, _, _, rest, _ = gocql.VerifC05RowsConsume(consumer, byte(proto), byte(flags), body, allocRowCap)
	})
	runtime.ReadMemStats(&m1)
	if crash != "" {
		return crash, true
	}
	d := m1.TotalAlloc - m0.TotalAlloc
	b := allocBound(len(body), rest, dests)
	if ratio := int(d * 1000 / b); ratio > AllocStats[consumer] {
		AllocStats[consumer] = ratio
	}
	if d > b {
		return fmt.Sprintf("over:%d", d), true
	}
	return "ok", true
}

// rowsShape: does the generated body describe zero columns while announcing many rows (KF-C05-27: the consumer's
// loop then runs, and SliceMap allocates, once per ANNOUNCED row without reading a byte)? Such inputs are not run.
func zeroColsManyRows(proto, flags int, body []byte) bool {
	if flags&1 != 0 {
		return false
	}
	zero := false
	c05util.Guard(func() {
		kind, _, _, cols, numRows, _, _ := gocql.VerifC05RowsConsume("rowdata", byte(proto), byte(flags), body, 0)
		zero = kind == "rows" && cols == 0 && numRows > 64
	})
	return zero
}

func (g *gen) allocRows(proto, flags int, body []byte, why string) {
	if hugePk(proto, flags, 0x08, body) {
		g.skipped++
		return
	}
	if zeroColsManyRows(proto, flags, body) {
		AllocSkippedZeroCols++
		return
	}
	for _, c := range Consumers {
		line := fmt.Sprintf("alloc rows %s %d %d %s", c, proto, flags, vh.Hex(body))
		a, _ := Exec(strings.Fields(line))
		cl := a
		if i := strings.IndexByte(a, ':'); i >= 0 {
			cl = a[:i]
		}
		g.emit(line, a, "alloc/rows/"+c+"/"+why+"/"+cl, true)
	}
}

// allocRowsGen: row sets whose declared counts exceed the body.
func (g *gen) allocRowsGen(mult int) {
	r := g.r
	if n, _ := strconv.Atoi(os.Getenv("VERIF_C05_ALLOC_MULT")); n > 0 {
		mult *= n // calibration runs only
	}
	// (no count above 2^24: a consumer that DOES size something by an announced count must stay reportable — 128 MiB
	// per op — instead of taking the harness down with 16 GiB)
	big := []uint32{1000, 65536, 1 << 20, 1 << 22, 1 << 24}
	// (1) generated ROWS results: as they are, every count field replaced by a big value, truncated with a big row count
	for i := 0; i < 12*mult; i++ {
		proto := 1 + r.Intn(5)
		w := &fb{}
		genRows(r, proto, w)
		g.allocRows(proto, 0, w.b, "wf")
		for _, f := range w.fields {
			switch f.tag {
			case "rowcount", "celllen", "fieldlen":
				g.allocRows(proto, 0, put(w.b, f, big[r.Intn(len(big))]), "big-"+f.tag)
			case "colcount", "tuplecount":
				if r.Intn(3) == 0 {
					g.allocRows(proto, 0, put(w.b, f, []uint32{999, 1000, 65535, 0x7fff}[r.Intn(4)]&(1<<(8*uint(f.w))-1)), "big-"+f.tag)
				}
			}
		}
		for _, f := range w.fields {
			if f.tag == "rowcount" {
				nb := put(w.b, f, big[r.Intn(len(big))])
				g.allocRows(proto, 0, nb[:f.off+4+r.Intn(len(nb)-f.off-4+1)], "big-rowcount+cut")
			}
		}
	}
	// (2) directed: one column, N rows announced, k bytes of row set (the shape of seeded change C05-2)
	mk := func(typ func(x *fb), nrows uint32, cells []byte) []byte {
		x := &fb{}
		x.int4(2, "")
		x.int4(1, "")
		x.int4(1, "")
		x.str("ks")
		x.str("t")
		x.str("c")
		typ(x)
		x.int4(int32(nrows), "")
		x.b = append(x.b, cells...)
		return x.b
	}
	intT := func(x *fb) { x.short(9, "") }
	for _, n := range []uint32{1, 2, 1 << 16, 1 << 20, 1 << 24} {
		for _, cells := range [][]byte{{}, {0, 0, 0, 8, 0, 1}, {0, 0, 0, 4, 0, 0, 0, 7}, {0, 0, 0, 4, 0, 0, 0, 7, 0xff, 0xff, 0xff, 0xff, 0, 0, 0, 1}} {
			g.allocRows(4, 0, mk(intT, n, cells), "short-rowset")
		}
	}
	// (3) directed: collection-typed column whose cell announces an element count that the cell cannot hold
	// (typed decode through MapScan / SliceMap's default destinations: reflect.MakeSlice / MakeMapWithSize)
	listT := func(x *fb) { x.short(0x20, ""); x.short(9, "") }
	setT := func(x *fb) { x.short(0x22, ""); x.short(13, "") }
	mapT := func(x *fb) { x.short(0x21, ""); x.short(9, ""); x.short(13, "") }
	for _, typ := range []func(x *fb){listT, setT, mapT} {
		for _, cnt := range []uint32{2, 1000, 1 << 16, 1 << 20, 1 << 24} {
			cell := []byte{0, 0, 0, 4, byte(cnt >> 24), byte(cnt >> 16), byte(cnt >> 8), byte(cnt)}
			g.allocRows(4, 0, mk(typ, 1, cell), "big-elemcount")
			g.allocRows(4, 0, mk(typ, 3, append(append([]byte{}, cell...), cell...)), "big-elemcount")
		}
	}
}
