package c05val

import (
	"strconv"

	"github.com/gocql/gocql"
	"verifharness/c05util"
	"verifharness/vh"
)

// Exec runs the REAL gocql.Unmarshal for one op line `val <proto> <type> <dest> <hex|nil>` and
// returns the canonical answer `ok` | `err` | `crash:<func>:<kind>`.
func Exec(w []string) (answer string, mine bool) {
	if len(w) >= 2 && w[0] == "alloc" && w[1] == "val" {
		return execAlloc(w)
	}
	if len(w) == 0 || w[0] != "val" {
		return "", false
	}
	if len(w) != 5 {
		return "bad-op", true
	}
	proto, err := strconv.Atoi(w[1])
	if err != nil || proto < 0 || proto > 255 {
		return "bad-op", true
	}
	tn, err := ParseNode(w[2])
	if err != nil {
		return "bad-op", true
	}
	dn, err := ParseNode(w[3])
	if err != nil {
		return "bad-op", true
	}
	var data []byte
	if w[4] != "nil" {
		data, err = vh.UnHex(w[4])
		if err != nil {
			return "bad-op", true
		}
		if data == nil {
			data = []byte{}
		}
	}
	info, err := TypeInfoOf(byte(proto), tn)
	if err != nil {
		return "bad-op", true
	}
	return Run(info, dn, data), true
}

// Run builds the destination and calls gocql.Unmarshal under the crash guard.
func Run(info gocql.TypeInfo, dn *Node, data []byte) string {
	res := "ok"
	crash := c05util.Guard(func() {
		dest, err := Dest(info, dn)
		if err == errBadOp {
			res = "bad-op"
			return
		}
		if err != nil {
			res = "err"
			return
		}
		if err := gocql.Unmarshal(info, data, dest); err != nil {
			res = "err"
		}
	})
	if crash != "" {
		return crash
	}
	return res
}
