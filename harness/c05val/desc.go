// Package c05val: harness part of property C05 for the value decoders (gocql.Unmarshal on
// arbitrary bytes). This file: the one-word descriptor grammar shared with the Lean model
// (lean/Model/CrashValue.lean) for CQL type trees and Go destination types, and the builders
// of the real gocql.TypeInfo / reflect.Type values.
//
//	type  ::= native | list(type) | set(type) | map(type,type) | tuple(type,...) | udt(name:type,...)
//	native::= custom ascii bigint blob boolean counter decimal double float int text timestamp uuid
//	          varchar varint timeuuid inet date time smallint tinyint duration
//	dest  ::= def                       (info.NewWithError(), the destination RowData/MapScan use)
//	        | ifs(gt,...)               (a []interface{} value whose entries are pointers to gt values)
//	        | gt                        (the destination is a *gt)
//	gt    ::= int int8 int16 int32 int64 uint uint8 uint16 uint32 uint64 string bool f32 f64
//	          dur (time.Duration) ip (net.IP) uuid (gocql.UUID) time (time.Time) bigint (big.Int)
//	          dec (inf.Dec) cqldur (gocql.Duration) iface (interface{})
//	        | ptr(gt) | slice(gt) | arr(N,gt) | map(gt,gt) | struct(name:gt,...)
//	struct field `name:gt`: a name starting with an upper-case letter is the Go field name (no tag);
//	any other name n is a field F_<index> with tag `cql:"n"`.
package c05val

import (
	"fmt"
	"math/big"
	"net"
	"reflect"
	"strconv"
	"time"

	"github.com/gocql/gocql"
)

// Node is a parsed descriptor: head(args...) with an optional label "label:" in front.
type Node struct {
	Label string
	Head  string
	Args  []*Node
	Paren bool
}

type parser struct {
	s string
	i int
}

func isIdent(c byte) bool {
	return c >= 'a' && c <= 'z' || c >= 'A' && c <= 'Z' || c >= '0' && c <= '9'
}

func (p *parser) ident() string {
	j := p.i
	for p.i < len(p.s) && isIdent(p.s[p.i]) {
		p.i++
	}
	return p.s[j:p.i]
}

func (p *parser) node() (*Node, error) {
	n := &Node{}
	id := p.ident()
	if id == "" {
		return nil, fmt.Errorf("identifier expected at %d", p.i)
	}
	if p.i < len(p.s) && p.s[p.i] == ':' {
		p.i++
		n.Label = id
		id = p.ident()
		if id == "" {
			return nil, fmt.Errorf("identifier expected at %d", p.i)
		}
	}
	n.Head = id
	if p.i < len(p.s) && p.s[p.i] == '(' {
		p.i++
		n.Paren = true
		if p.i < len(p.s) && p.s[p.i] == ')' {
			p.i++
			return n, nil
		}
		for {
			a, err := p.node()
			if err != nil {
				return nil, err
			}
			n.Args = append(n.Args, a)
			if p.i >= len(p.s) {
				return nil, fmt.Errorf("unexpected end")
			}
			if p.s[p.i] == ',' {
				p.i++
				continue
			}
			if p.s[p.i] == ')' {
				p.i++
				return n, nil
			}
			return nil, fmt.Errorf("unexpected %q at %d", p.s[p.i], p.i)
		}
	}
	return n, nil
}

// ParseNode parses one descriptor word.
func ParseNode(s string) (*Node, error) {
	p := &parser{s: s}
	n, err := p.node()
	if err != nil {
		return nil, err
	}
	if p.i != len(s) {
		return nil, fmt.Errorf("trailing input at %d", p.i)
	}
	return n, nil
}

func (n *Node) String() string {
	s := n.Head
	if n.Label != "" {
		s = n.Label + ":" + s
	}
	if n.Paren {
		s += "("
		for i, a := range n.Args {
			if i > 0 {
				s += ","
			}
			s += a.String()
		}
		s += ")"
	}
	return s
}

var natives = map[string]gocql.Type{
	"custom": gocql.TypeCustom, "ascii": gocql.TypeAscii, "bigint": gocql.TypeBigInt, "blob": gocql.TypeBlob,
	"boolean": gocql.TypeBoolean, "counter": gocql.TypeCounter, "decimal": gocql.TypeDecimal,
	"double": gocql.TypeDouble, "float": gocql.TypeFloat, "int": gocql.TypeInt, "text": gocql.TypeText,
	"timestamp": gocql.TypeTimestamp, "uuid": gocql.TypeUUID, "varchar": gocql.TypeVarchar,
	"varint": gocql.TypeVarint, "timeuuid": gocql.TypeTimeUUID, "inet": gocql.TypeInet, "date": gocql.TypeDate,
	"time": gocql.TypeTime, "smallint": gocql.TypeSmallInt, "tinyint": gocql.TypeTinyInt,
	"duration": gocql.TypeDuration,
}

// NativeNames lists the native type words in a fixed order (generators index into it).
var NativeNames = []string{"custom", "ascii", "bigint", "blob", "boolean", "counter", "decimal", "double", "float",
	"int", "text", "timestamp", "uuid", "varchar", "varint", "timeuuid", "inet", "date", "time", "smallint",
	"tinyint", "duration"}

// TypeInfoOf builds the real gocql.TypeInfo of a type descriptor.
func TypeInfoOf(proto byte, n *Node) (gocql.TypeInfo, error) {
	if n.Label != "" {
		return nil, fmt.Errorf("label on type")
	}
	if t, ok := natives[n.Head]; ok {
		if n.Paren {
			return nil, fmt.Errorf("native with args")
		}
		custom := ""
		if t == gocql.TypeCustom {
			custom = "org.example.Custom"
		}
		return gocql.NewNativeType(proto, t, custom), nil
	}
	if !n.Paren {
		return nil, fmt.Errorf("unknown type %s", n.Head)
	}
	sub := func(a *Node) (gocql.TypeInfo, error) { return TypeInfoOf(proto, a) }
	switch n.Head {
	case "list", "set":
		if len(n.Args) != 1 {
			return nil, fmt.Errorf("list arity")
		}
		e, err := sub(n.Args[0])
		if err != nil {
			return nil, err
		}
		t := gocql.TypeList
		if n.Head == "set" {
			t = gocql.TypeSet
		}
		return gocql.CollectionType{NativeType: gocql.NewNativeType(proto, t, ""), Elem: e}, nil
	case "map":
		if len(n.Args) != 2 {
			return nil, fmt.Errorf("map arity")
		}
		k, err := sub(n.Args[0])
		if err != nil {
			return nil, err
		}
		v, err := sub(n.Args[1])
		if err != nil {
			return nil, err
		}
		return gocql.CollectionType{NativeType: gocql.NewNativeType(proto, gocql.TypeMap, ""), Key: k, Elem: v}, nil
	case "tuple":
		es := make([]gocql.TypeInfo, 0, len(n.Args))
		for _, a := range n.Args {
			e, err := sub(a)
			if err != nil {
				return nil, err
			}
			es = append(es, e)
		}
		return gocql.TupleTypeInfo{NativeType: gocql.NewNativeType(proto, gocql.TypeTuple, ""), Elems: es}, nil
	case "udt":
		fs := make([]gocql.UDTField, 0, len(n.Args))
		for _, a := range n.Args {
			if a.Label == "" {
				return nil, fmt.Errorf("udt field without name")
			}
			b := *a
			b.Label = ""
			e, err := sub(&b)
			if err != nil {
				return nil, err
			}
			fs = append(fs, gocql.UDTField{Name: a.Label, Type: e})
		}
		return gocql.UDTTypeInfo{NativeType: gocql.NewNativeType(proto, gocql.TypeUDT, ""), KeySpace: "ks", Name: "u", Elements: fs}, nil
	}
	return nil, fmt.Errorf("unknown type %s", n.Head)
}

// inf.Dec without importing gopkg.in/inf.v0 here: the Go type gocql itself uses for decimal
var decType = reflect.TypeOf(gocql.NewNativeType(4, gocql.TypeDecimal, "").New()).Elem().Elem()

var scalars = map[string]reflect.Type{
	"int": reflect.TypeOf(int(0)), "int8": reflect.TypeOf(int8(0)), "int16": reflect.TypeOf(int16(0)),
	"int32": reflect.TypeOf(int32(0)), "int64": reflect.TypeOf(int64(0)),
	"uint": reflect.TypeOf(uint(0)), "uint8": reflect.TypeOf(uint8(0)), "uint16": reflect.TypeOf(uint16(0)),
	"uint32": reflect.TypeOf(uint32(0)), "uint64": reflect.TypeOf(uint64(0)),
	"string": reflect.TypeOf(""), "bool": reflect.TypeOf(false),
	"f32": reflect.TypeOf(float32(0)), "f64": reflect.TypeOf(float64(0)),
	"dur": reflect.TypeOf(time.Duration(0)), "ip": reflect.TypeOf(net.IP{}), "uuid": reflect.TypeOf(gocql.UUID{}),
	"time": reflect.TypeOf(time.Time{}), "bigint": reflect.TypeOf(big.Int{}), "dec": decType,
	"cqldur": reflect.TypeOf(gocql.Duration{}),
	"iface":  reflect.TypeOf((*interface{})(nil)).Elem(),
}

// ScalarNames lists the scalar destination words in a fixed order.
var ScalarNames = []string{"int", "int8", "int16", "int32", "int64", "uint", "uint8", "uint16", "uint32", "uint64",
	"string", "bool", "f32", "f64", "dur", "ip", "uuid", "time", "bigint", "dec", "cqldur", "iface"}

func isUpper(c byte) bool { return c >= 'A' && c <= 'Z' }

// GoTypeOf builds the reflect.Type of a gt descriptor. Errors (never panics) on descriptors that
// Go cannot construct (unhashable map key, duplicate field names).
func GoTypeOf(n *Node) (t reflect.Type, err error) {
	defer func() {
		if r := recover(); r != nil {
			t, err = nil, fmt.Errorf("reflect: %v", r)
		}
	}()
	if n.Label != "" {
		return nil, fmt.Errorf("label on gt")
	}
	if s, ok := scalars[n.Head]; ok {
		if n.Paren {
			return nil, fmt.Errorf("scalar with args")
		}
		return s, nil
	}
	if !n.Paren {
		return nil, fmt.Errorf("unknown gt %s", n.Head)
	}
	switch n.Head {
	case "ptr", "slice":
		if len(n.Args) != 1 {
			return nil, fmt.Errorf("arity")
		}
		e, err := GoTypeOf(n.Args[0])
		if err != nil {
			return nil, err
		}
		if n.Head == "ptr" {
			return reflect.PtrTo(e), nil
		}
		return reflect.SliceOf(e), nil
	case "arr":
		if len(n.Args) != 2 || n.Args[0].Paren || n.Args[0].Label != "" {
			return nil, fmt.Errorf("arr arity")
		}
		k, err := strconv.Atoi(n.Args[0].Head)
		if err != nil || k < 0 || k > 1<<16 {
			return nil, fmt.Errorf("arr length")
		}
		e, err := GoTypeOf(n.Args[1])
		if err != nil {
			return nil, err
		}
		return reflect.ArrayOf(k, e), nil
	case "map":
		if len(n.Args) != 2 {
			return nil, fmt.Errorf("map arity")
		}
		k, err := GoTypeOf(n.Args[0])
		if err != nil {
			return nil, err
		}
		v, err := GoTypeOf(n.Args[1])
		if err != nil {
			return nil, err
		}
		if !k.Comparable() {
			return nil, fmt.Errorf("unhashable key")
		}
		return reflect.MapOf(k, v), nil
	case "struct":
		fs := make([]reflect.StructField, 0, len(n.Args))
		for i, a := range n.Args {
			if a.Label == "" {
				return nil, fmt.Errorf("struct field without name")
			}
			b := *a
			b.Label = ""
			e, err := GoTypeOf(&b)
			if err != nil {
				return nil, err
			}
			if isUpper(a.Label[0]) {
				fs = append(fs, reflect.StructField{Name: a.Label, Type: e})
			} else {
				fs = append(fs, reflect.StructField{Name: "F_" + strconv.Itoa(i), Type: e,
					Tag: reflect.StructTag(`cql:"` + a.Label + `"`)})
			}
		}
		return reflect.StructOf(fs), nil
	}
	return nil, fmt.Errorf("unknown gt %s", n.Head)
}

// HasIface: does the gt descriptor contain interface{} outside a pointer. Map destinations whose
// KEY type does are out of the model's scope (whether reflect's SetMapIndex panics then depends on
// the dynamic values: runtime hashing, KF-C05-val-8): the generators never emit them and the Lean
// parser answers `bad-op`; Exec still runs them on the real code (finding replay).
func HasIface(n *Node) bool {
	if n.Head == "iface" && !n.Paren {
		return true
	}
	if n.Head == "ptr" {
		return false
	}
	for _, a := range n.Args {
		if HasIface(a) {
			return true
		}
	}
	return false
}

// Dest builds the destination value handed to gocql.Unmarshal. `def` calls info.NewWithError()
// (inside the caller's crash guard: goType can panic).
func Dest(info gocql.TypeInfo, n *Node) (interface{}, error) {
	if n.Head == "def" && !n.Paren && n.Label == "" {
		return info.NewWithError()
	}
	if n.Head == "ifs" && n.Paren && n.Label == "" {
		v := make([]interface{}, len(n.Args))
		for i, a := range n.Args {
			t, err := GoTypeOf(a)
			if err != nil {
				return nil, errBadOp
			}
			v[i] = reflect.New(t).Interface()
		}
		return v, nil
	}
	t, err := GoTypeOf(n)
	if err != nil {
		return nil, errBadOp
	}
	return reflect.New(t).Interface(), nil
}

var errBadOp = fmt.Errorf("bad-op")
