package c05val

// Allocation accounting of the VALUE DECODERS: op
//
//	alloc val <proto> <type> <dest> <hex>   ->  ok | over:<bytes> | crash:<func>:<kind>
//
// gocql.Unmarshal runs on a value whose declared element counts exceed what the value can hold; the bytes it
// allocates (runtime.MemStats.TotalAlloc delta) are compared with
//
//	AllocBase + AllocPerByte * |data| * elemWords(dest) * depth(type)
//
// i.e. with the bound of the model's allocation counter (Lean: C05Value.C05_top_alloc_bound: the element count
// asked of reflect.MakeSlice / MakeMapWithSize times the header size is at most |data|; nested collections are
// bounded the same way, each against its own bytes, hence the depth factor) times the size of one element of the
// destination and a generous constant. A decoder that allocates from the declared count before checking it against
// the bytes (KF-C05-21 before its repair) answers over:<bytes> on a 4-byte value.

import (
	"fmt"
	"os"
	"reflect"
	"runtime"
	"strconv"

	"github.com/gocql/gocql"
	"verifharness/c05util"
	"verifharness/vh"
)

const (
	AllocBase    = 16 << 10
	AllocPerByte = 256
)

// AllocMaxRatio: the largest observed allocated / bound (in 1/1000), for the report.
var AllocMaxRatio int

// elemWords: the largest element (slice / array element, map key + value) of the Go type, in 8-byte words
func elemWords(t reflect.Type, seen int) uint64 {
	if seen > 8 {
		return 1
	}
	w := uint64(1)
	up := func(x uint64) {
		if x > w {
			w = x
		}
	}
	switch t.Kind() {
	case reflect.Ptr:
		up(elemWords(t.Elem(), seen+1))
		up(uint64(t.Elem().Size()+7) / 8)
	case reflect.Slice, reflect.Array:
		up(uint64(t.Elem().Size()+7) / 8)
		up(elemWords(t.Elem(), seen+1))
	case reflect.Map:
		up(uint64(t.Key().Size()+t.Elem().Size()+7)/8 + 2)
		up(elemWords(t.Key(), seen+1))
		up(elemWords(t.Elem(), seen+1))
	case reflect.Struct:
		for i := 0; i < t.NumField(); i++ {
			up(elemWords(t.Field(i).Type, seen+1))
		}
	}
	return w
}

func typeDepth(n *Node) uint64 {
	d := uint64(0)
	for _, a := range n.Args {
		if x := typeDepth(a); x > d {
			d = x
		}
	}
	return d + 1
}

func execAlloc(w []string) (answer string, mine bool) {
	if len(w) != 6 {
		return "bad-op", true
	}
	proto, err := strconv.Atoi(w[2])
	if err != nil || proto < 0 || proto > 255 {
		return "bad-op", true
	}
	tn, err := ParseNode(w[3])
	if err != nil {
		return "bad-op", true
	}
	dn, err := ParseNode(w[4])
	if err != nil {
		return "bad-op", true
	}
	var data []byte
	if w[5] != "nil" {
		if data, err = vh.UnHex(w[5]); err != nil {
			return "bad-op", true
		}
		if data == nil {
			data = []byte{}
		}
	}
	info, err := TypeInfoOf(byte(proto), tn)
	if err != nil {
		return "bad-op", true
	}
	var dest interface{}
	crash := c05util.Guard(func() { dest, err = Dest(info, dn) })
	if crash != "" {
		return crash, true
	}
	if err == errBadOp {
		return "bad-op", true
	}
	if err != nil {
		return "ok", true // no destination can be built: nothing is decoded
	}
	words := uint64(1)
	if v, isIfs := dest.([]interface{}); isIfs {
		for _, x := range v {
			if e := elemWords(reflect.TypeOf(x), 0); e > words {
				words = e
			}
		}
	} else {
		words = elemWords(reflect.TypeOf(dest), 0)
	}
	var m0, m1 runtime.MemStats
	runtime.GC()
	runtime.ReadMemStats(&m0)
	crash = c05util.Guard(func() { gocql.Unmarshal(info, data, dest) })
	runtime.ReadMemStats(&m1)
	if crash != "" {
		return crash, true
	}
	d := m1.TotalAlloc - m0.TotalAlloc
	b := uint64(AllocBase) + uint64(AllocPerByte)*uint64(len(data))*words*typeDepth(tn)
	if ratio := int(d * 1000 / b); ratio > AllocMaxRatio {
		AllocMaxRatio = ratio
	}
	if d > b {
		return fmt.Sprintf("over:%d", d), true
	}
	return "ok", true
}

// genAlloc: collection values whose declared counts exceed the value. Counts are capped at 2^24 so that a tree
// WITHOUT the count guard (KF-C05-21) allocates a few hundred MB at most and the check can report it.
func genAlloc(r *vh.Rng, mult int, emit func(op, impl, class string, nontrivial bool)) {
	run := func(proto int, t, d string, data []byte, why string) {
		op := "alloc val " + strconv.Itoa(proto) + " " + t + " " + d + " " + vh.Hex(data)
		a, _ := Exec([]string{"alloc", "val", strconv.Itoa(proto), t, d, vh.Hex(data)})
		cl := a
		for i := 0; i < len(a); i++ {
			if a[i] == ':' {
				cl = a[:i]
				break
			}
		}
		emit(op, a, "alloc/val/"+why+"/"+cl, true)
	}
	cnt := func(proto int, n uint32) []byte {
		if proto > 2 {
			return []byte{byte(n >> 24), byte(n >> 16), byte(n >> 8), byte(n)}
		}
		return []byte{byte(n >> 8), byte(n)}
	}
	shapes := [][2]string{
		{"list(int)", "slice(int)"}, {"list(int)", "def"}, {"set(text)", "slice(string)"}, {"set(text)", "def"},
		{"list(bigint)", "slice(ptr(int64))"}, {"list(uuid)", "slice(uuid)"}, {"list(duration)", "slice(cqldur)"},
		{"map(int,int)", "map(int,int)"}, {"map(text,text)", "def"}, {"map(int,list(int))", "def"},
		{"list(list(int))", "slice(slice(int))"}, {"list(map(int,text))", "def"}, {"list(tuple(int,text))", "def"},
		{"tuple(list(int),int)", "def"}, {"udt(a:list(int),b:map(int,int))", "def"}, {"list(int)", "slice(iface)"},
	}
	counts := []uint32{2, 3, 255, 256, 65535, 1 << 16, 1 << 20, 1 << 24}
	for _, s := range shapes {
		for proto := 2; proto <= 4; proto++ {
			for _, n := range counts {
				if proto <= 2 && n > 65535 {
					continue
				}
				c := cnt(proto, n)
				var pre []byte
				switch s[0][:3] {
				case "tup", "udt":
					// the first field holds the collection: <len = 4><count>
					pre = []byte{0, 0, 0, byte(len(c))}
				}
				run(proto, s[0], s[1], append(append([]byte{}, pre...), c...), "count-only")
				tail := r.Bytes(r.Intn(12))
				run(proto, s[0], s[1], append(append(append([]byte{}, pre...), c...), tail...), "count+tail")
				// one well-formed element, then nothing
				el := append(cnt(proto, 4), 0, 0, 0, 7)
				run(proto, s[0], s[1], append(append(append([]byte{}, pre...), c...), el...), "count+one-element")
			}
		}
	}
	// counts that a guard weakened by a constant factor would still let through: 512 .. 20000 elements announced
	// over 32..64 bytes of value
	for _, s := range shapes {
		for _, n := range []uint32{512, 4096, 20000} {
			proto := 3 + r.Intn(2)
			var pre []byte
			if h := s[0][:3]; h == "tup" || h == "udt" {
				pre = []byte{0, 0, 0, 60}
			}
			run(proto, s[0], s[1], append(append(append([]byte{}, pre...), cnt(proto, n)...), r.Bytes(32+r.Intn(33))...), "count>>value")
		}
	}
	// random collection values behind a big count
	reps := 40 * mult
	if n, _ := strconv.Atoi(os.Getenv("VERIF_C05_ALLOC_MULT")); n > 0 {
		reps *= n // calibration runs only
	}
	for i := 0; i < reps; i++ {
		s := shapes[r.Intn(len(shapes))]
		proto := 2 + r.Intn(3)
		n := counts[r.Intn(len(counts))]
		if proto <= 2 && n > 65535 {
			n = 65535
		}
		var pre []byte
		if h := s[0][:3]; h == "tup" || h == "udt" {
			pre = []byte{0, 0, 0, byte(r.Intn(40))}
		}
		run(proto, s[0], s[1], append(append(append([]byte{}, pre...), cnt(proto, n)...), r.Bytes(r.Intn(64))...), "count+random")
	}
}
