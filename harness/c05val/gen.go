package c05val

import (
	"encoding/binary"
	"fmt"
	"runtime"
	"strconv"
	"strings"

	"verifharness/vh"
)

// ---------------------------------------------------------------------------------------------
// well-formed encodings with the positions of every length / count field

type field struct {
	off   int
	width int  // 2 or 4
	count bool // element count of a list/set/map (feeds MakeSlice / MakeMapWithSize)
}

type enc struct {
	b      []byte
	fields []field
}

func (e *enc) appendEnc(x enc) {
	base := len(e.b)
	e.b = append(e.b, x.b...)
	for _, f := range x.fields {
		e.fields = append(e.fields, field{f.off + base, f.width, f.count})
	}
}

func (e *enc) putSize(width int, v int, count bool) {
	e.fields = append(e.fields, field{len(e.b), width, count})
	if width == 2 {
		e.b = append(e.b, byte(v>>8), byte(v))
	} else {
		e.b = append(e.b, byte(v>>24), byte(v>>16), byte(v>>8), byte(v))
	}
}

var int64Edges = []int64{0, 1, -1, 2, 127, 128, -128, -129, 255, 256, 32767, 32768, -32768, -32769, 65535, 65536,
	1<<31 - 1, 1 << 31, -(1 << 31), -(1 << 31) - 1, 1<<32 - 1, 1 << 32, 1<<63 - 1, -(1 << 63)}

func pickInt(r *vh.Rng) int64 {
	switch r.Intn(3) {
	case 0:
		return int64Edges[r.Intn(len(int64Edges))]
	case 1:
		return int64(r.U64()) >> uint(r.Intn(64))
	default:
		return int64(r.Intn(400)) - 200
	}
}

func encVint(v int64) []byte {
	vEnc := uint64((v >> 63) ^ (v << 1))
	lead0 := 64
	for i := 63; i >= 0; i-- {
		if vEnc&(1<<uint(i)) != 0 {
			lead0 = 63 - i
			break
		}
	}
	numBytes := (639 - lead0*9) >> 6
	if numBytes <= 1 {
		return []byte{byte(vEnc)}
	}
	extra := numBytes - 1
	buf := make([]byte, numBytes)
	for i := extra; i >= 0; i-- {
		buf[i] = byte(vEnc)
		vEnc >>= 8
	}
	buf[0] |= byte(^(0xff >> uint(extra)))
	return buf
}

func minimalTwos(v int64) []byte {
	b := make([]byte, 8)
	binary.BigEndian.PutUint64(b, uint64(v))
	i := 0
	for i < 7 && ((b[i] == 0 && b[i+1]&0x80 == 0) || (b[i] == 0xff && b[i+1]&0x80 != 0)) {
		i++
	}
	return b[i:]
}

func encNative(r *vh.Rng, name string) []byte {
	switch name {
	case "int":
		v := int32(pickInt(r))
		return []byte{byte(v >> 24), byte(v >> 16), byte(v >> 8), byte(v)}
	case "bigint", "counter", "timestamp", "time":
		b := make([]byte, 8)
		binary.BigEndian.PutUint64(b, uint64(pickInt(r)))
		return b
	case "double":
		return r.Bytes(8)
	case "smallint":
		v := int16(pickInt(r))
		return []byte{byte(v >> 8), byte(v)}
	case "tinyint":
		return []byte{byte(pickInt(r))}
	case "float", "date":
		return r.Bytes(4)
	case "varint":
		switch r.Intn(4) {
		case 0:
			return minimalTwos(pickInt(r))
		case 1: // 9 bytes with a leading zero (the uint64 special case) or not
			b := r.Bytes(9)
			if r.Bool() {
				b[0] = 0
			}
			return b
		default:
			return r.Bytes(1 + r.Intn(11))
		}
	case "boolean":
		return []byte{byte(r.Intn(3))}
	case "decimal":
		return append(r.Bytes(4), minimalTwos(pickInt(r))...)
	case "duration":
		b := encVint(int64(int32(pickInt(r))))
		b = append(b, encVint(int64(int32(pickInt(r))))...)
		return append(b, encVint(pickInt(r))...)
	case "uuid":
		return r.Bytes(16)
	case "timeuuid":
		b := r.Bytes(16)
		if r.Intn(4) != 0 {
			b[6] = b[6]&0x0f | 0x10
		}
		return b
	case "inet":
		if r.Bool() {
			return r.Bytes(4)
		}
		return r.Bytes(16)
	case "ascii", "text", "varchar":
		n := r.Intn(7)
		b := make([]byte, n)
		for i := range b {
			b[i] = byte('a' + r.Intn(26))
		}
		return b
	default: // blob, custom
		return r.Bytes(r.Intn(7))
	}
}

// encode returns a well-formed value of type t (as Cassandra would send it).
func encode(r *vh.Rng, proto int, t *Node) enc {
	var e enc
	w := 4
	if proto <= 2 {
		w = 2
	}
	elem := func(a *Node) {
		if w == 4 && r.Intn(12) == 0 {
			e.putSize(w, -1, false) // null element
			return
		}
		x := encode(r, proto, a)
		e.putSize(w, len(x.b), false)
		e.appendEnc(x)
	}
	switch {
	case !t.Paren:
		e.b = encNative(r, t.Head)
	case t.Head == "list" || t.Head == "set":
		n := r.Intn(4)
		e.putSize(w, n, true)
		for i := 0; i < n; i++ {
			elem(t.Args[0])
		}
	case t.Head == "map":
		n := r.Intn(3)
		e.putSize(w, n, true)
		for i := 0; i < n; i++ {
			elem(t.Args[0])
			elem(t.Args[1])
		}
	case t.Head == "tuple" || t.Head == "udt":
		k := len(t.Args)
		if t.Head == "udt" && k > 0 && r.Intn(5) == 0 {
			k = r.Intn(k + 1) // an older row: trailing fields missing
		}
		for i := 0; i < k; i++ {
			a := *t.Args[i]
			a.Label = ""
			if r.Intn(8) == 0 {
				e.putSize(4, -1, false)
				continue
			}
			x := encode(r, proto, &a)
			e.putSize(4, len(x.b), false)
			e.appendEnc(x)
		}
	}
	return e
}

// ---------------------------------------------------------------------------------------------
// random type trees and destinations

var nativeWeights = []string{"int", "int", "text", "text", "bigint", "blob", "boolean", "counter", "decimal", "double",
	"float", "timestamp", "uuid", "varchar", "varint", "timeuuid", "inet", "date", "time", "smallint", "tinyint",
	"duration", "ascii", "custom", "date", "varint"}

var fieldNames = []string{"a", "b", "c", "d", "e", "Aa", "Bb", "Cc", "Months", "Days", "Nanoseconds", "wall", "ext",
	"loc", "neg", "abs", "unscaled", "scale"}

func nat(name string) *Node { return &Node{Head: name} }
func app(head string, args ...*Node) *Node {
	return &Node{Head: head, Paren: true, Args: args}
}
func lab(l string, n *Node) *Node { c := *n; c.Label = l; return &c }

func pickFieldName(r *vh.Rng, used map[string]bool) string {
	for {
		var s string
		if r.Intn(10) == 0 {
			s = fieldNames[r.Intn(len(fieldNames))]
		} else {
			s = fieldNames[r.Intn(8)]
		}
		if !used[s] {
			used[s] = true
			return s
		}
		if len(used) >= len(fieldNames) {
			return s + strconv.Itoa(len(used))
		}
	}
}

func genType(r *vh.Rng, depth int) *Node {
	if depth <= 0 || r.Intn(10) < 4 {
		return nat(nativeWeights[r.Intn(len(nativeWeights))])
	}
	switch r.Intn(6) {
	case 0:
		return app("list", genType(r, depth-1))
	case 1:
		return app("set", genType(r, depth-1))
	case 2:
		return app("map", genType(r, depth-1), genType(r, depth-1))
	case 3, 4:
		n := r.Intn(5)
		as := make([]*Node, n)
		for i := range as {
			as[i] = genType(r, depth-1)
		}
		return app("tuple", as...)
	default:
		n := r.Intn(5)
		as := make([]*Node, n)
		used := map[string]bool{}
		for i := range as {
			as[i] = lab(pickFieldName(r, used), genType(r, depth-1))
		}
		return app("udt", as...)
	}
}

// goTypeDesc mirrors helpers.go goType in descriptor form ("" when goType errors or panics).
func goTypeDesc(t *Node) *Node {
	if !t.Paren {
		switch t.Head {
		case "varchar", "ascii", "inet", "text":
			return nat("string")
		case "bigint", "counter":
			return nat("int64")
		case "time":
			return nat("dur")
		case "timestamp", "date":
			return nat("time")
		case "blob":
			return app("slice", nat("uint8"))
		case "boolean":
			return nat("bool")
		case "float":
			return nat("f32")
		case "double":
			return nat("f64")
		case "int":
			return nat("int")
		case "smallint":
			return nat("int16")
		case "tinyint":
			return nat("int8")
		case "decimal":
			return app("ptr", nat("dec"))
		case "uuid", "timeuuid":
			return nat("uuid")
		case "varint":
			return app("ptr", nat("bigint"))
		case "duration":
			return nat("cqldur")
		}
		return nil
	}
	switch t.Head {
	case "list", "set":
		e := goTypeDesc(t.Args[0])
		if e == nil {
			return nil
		}
		return app("slice", e)
	case "map":
		k, v := goTypeDesc(t.Args[0]), goTypeDesc(t.Args[1])
		if k == nil || v == nil || k.Head == "slice" || k.Head == "map" {
			return nil
		}
		return app("map", k, v)
	case "tuple":
		return app("slice", nat("iface"))
	case "udt":
		return app("map", nat("string"), nat("iface"))
	}
	return nil
}

var compat = map[string][]string{
	"ascii": {"string", "slice(uint8)"}, "text": {"string", "slice(uint8)"}, "varchar": {"string", "slice(uint8)"},
	"blob": {"string", "slice(uint8)", "ip"}, "boolean": {"bool"},
	"int":      {"int", "int32", "int64", "uint32", "uint", "int16", "uint16", "int8", "uint8", "uint64", "bigint", "string"},
	"bigint":   {"int64", "int", "uint64", "uint", "int32", "uint32", "int16", "uint16", "int8", "uint8", "bigint", "string", "dur"},
	"counter":  {"int64", "int", "uint64", "bigint", "string", "int32"},
	"smallint": {"int16", "int", "uint16", "int8", "uint8", "int32", "uint32", "bigint", "string"},
	"tinyint":  {"int8", "uint8", "int", "int16", "uint16", "bigint", "string", "uint64"},
	"varint":   {"bigint", "int64", "uint64", "int", "int32", "uint32", "int16", "uint8", "string", "ptr(bigint)"},
	"float":    {"f32"}, "double": {"f64"}, "decimal": {"dec", "ptr(dec)"},
	"time": {"int64", "dur"}, "timestamp": {"int64", "time"}, "date": {"time", "string"},
	"duration": {"cqldur"}, "uuid": {"uuid", "string", "slice(uint8)", "arr(16,uint8)"},
	"timeuuid": {"uuid", "string", "slice(uint8)", "arr(16,uint8)", "time"}, "inet": {"ip", "string"},
	"custom": {"slice(uint8)", "string"},
}

func mustParse(s string) *Node {
	n, err := ParseNode(s)
	if err != nil {
		panic(err)
	}
	return n
}

func hashableDesc(n *Node) bool {
	switch n.Head {
	case "slice", "map", "ip", "bigint", "dec":
		return false
	case "arr":
		return hashableDesc(n.Args[1])
	case "struct":
		for _, a := range n.Args {
			if !hashableDesc(a) {
				return false
			}
		}
	}
	return true
}

// genGT: a destination type for t: mostly one of the documented ones, sometimes an arbitrary one.
func genGT(r *vh.Rng, t *Node) *Node {
	if r.Intn(40) == 0 {
		return nat(ScalarNames[r.Intn(len(ScalarNames))])
	}
	if r.Intn(9) == 0 {
		return app("ptr", genGT(r, t))
	}
	if r.Intn(6) == 0 {
		if g := goTypeDesc(t); g != nil {
			return g
		}
	}
	if !t.Paren {
		if r.Intn(8) == 0 {
			return nat(ScalarNames[r.Intn(len(ScalarNames))])
		}
		c := compat[t.Head]
		return mustParse(c[r.Intn(len(c))])
	}
	switch t.Head {
	case "list", "set":
		e := genGT(r, t.Args[0])
		switch r.Intn(12) {
		case 0:
			return app("arr", nat(strconv.Itoa(r.Intn(4))), e)
		case 1:
			return nat([]string{"ip", "uuid"}[r.Intn(2)])
		case 2:
			return app("map", nat("int"), e)
		default:
			return app("slice", e)
		}
	case "map":
		k, v := genGT(r, t.Args[0]), genGT(r, t.Args[1])
		if !hashableDesc(k) || HasIface(k) {
			k = mustParse([]string{"string", "int", "int64", "uuid", "ptr(iface)"}[r.Intn(5)])
		}
		if r.Intn(15) == 0 {
			return app("slice", v)
		}
		return app("map", k, v)
	case "tuple":
		n := len(t.Args)
		switch r.Intn(8) {
		case 0:
			return app("arr", nat(strconv.Itoa(n+r.Intn(3)-1+boolInt(n == 0))), nat("iface"))
		case 1, 2: // struct with the goType field types (the only ones reflect accepts), or pointers to them
			fs := make([]*Node, 0, n+1)
			k := n
			if r.Intn(6) == 0 {
				k = n + r.Intn(3) - 1
			}
			for i := 0; i < k; i++ {
				var g *Node
				if i < n {
					g = goTypeDesc(t.Args[i])
				}
				if g == nil || r.Intn(10) == 0 {
					g = nat(ScalarNames[r.Intn(len(ScalarNames))])
				}
				if r.Intn(4) == 0 {
					g = app("ptr", g)
				} else if r.Intn(6) == 0 {
					g = nat("iface")
				}
				fs = append(fs, lab("F"+strconv.Itoa(i), g))
			}
			return app("struct", fs...)
		case 3:
			if n > 0 {
				if g := goTypeDesc(t.Args[0]); g != nil {
					return app("slice", g)
				}
			}
			return app("slice", nat("iface"))
		case 4:
			return nat([]string{"time", "bigint", "dec", "cqldur", "ip", "uuid"}[r.Intn(6)])
		default:
			return app("slice", nat("iface"))
		}
	default: // udt
		switch r.Intn(8) {
		case 0, 1, 2:
			return app("map", nat("string"), nat("iface"))
		case 3:
			return nat([]string{"time", "bigint", "dec", "cqldur", "cqldur"}[r.Intn(5)])
		default:
			fs := make([]*Node, 0, len(t.Args)+1)
			used := map[string]bool{}
			for _, a := range t.Args {
				if r.Intn(6) == 0 {
					continue // field the struct does not have
				}
				b := *a
				b.Label = ""
				used[a.Label] = true
				fs = append(fs, lab(a.Label, genGT(r, &b)))
			}
			if r.Intn(4) == 0 {
				nm := pickFieldName(r, used)
				fs = append(fs, lab(nm, nat("int")))
			}
			if r.Intn(10) == 0 && len(fs) > 0 { // duplicate tag: the last one wins
				f := fs[r.Intn(len(fs))]
				if !isUpper(f.Label[0]) {
					fs = append(fs, lab(f.Label, nat(ScalarNames[r.Intn(len(ScalarNames))])))
				}
			}
			return app("struct", fs...)
		}
	}
}

func boolInt(b bool) int {
	if b {
		return 1
	}
	return 0
}

// genDest: the destination word of an op line for type t.
func genDest(r *vh.Rng, t *Node) *Node {
	if r.Intn(5) == 0 {
		return nat("def")
	}
	if t.Head == "tuple" && t.Paren && r.Intn(3) == 0 {
		n := len(t.Args)
		k := n
		switch r.Intn(4) {
		case 0:
			k = n - 1
		case 1:
			k = n + 1
		}
		if k < 0 {
			k = 0
		}
		if r.Intn(10) == 0 {
			k = r.Intn(n + 2)
		}
		as := make([]*Node, k)
		for i := range as {
			if i < n {
				as[i] = genGT(r, t.Args[i])
			} else {
				as[i] = nat("int")
			}
		}
		return app("ifs", as...)
	}
	if r.Intn(60) == 0 {
		return app("ifs", nat("int"))
	}
	return genGT(r, t)
}

// ---------------------------------------------------------------------------------------------
// allocation guard: the largest element count a decoder could hand to MakeSlice/MakeMapWithSize
// for these bytes (walks the bytes the way the decoders do, whatever the destination is).

func rdSize(proto int, d []byte) (int, int, bool) {
	if proto > 2 {
		if len(d) < 4 {
			return 0, 0, false
		}
		return int(int32(binary.BigEndian.Uint32(d))), 4, true
	}
	if len(d) < 2 {
		return 0, 0, false
	}
	return int(binary.BigEndian.Uint16(d)), 2, true
}

func maxCount(proto int, t *Node, d []byte, isNil bool) int {
	if !t.Paren || isNil {
		return 0
	}
	mx := 0
	up := func(v int) {
		if v > mx {
			mx = v
		}
	}
	switch t.Head {
	case "list", "set", "map":
		n, p, ok := rdSize(proto, d)
		if !ok {
			return 0
		}
		up(n)
		d = d[p:]
		per := len(t.Args)
		for i := 0; i < n; i++ {
			for j := 0; j < per; j++ {
				m, p, ok := rdSize(proto, d)
				if !ok {
					return mx
				}
				d = d[p:]
				if m >= 0 {
					if len(d) < m {
						return mx
					}
					up(maxCount(proto, t.Args[j], d[:m], false))
					d = d[m:]
				}
			}
		}
	case "tuple", "udt":
		for _, a := range t.Args {
			b := *a
			b.Label = ""
			if len(d) < 4 {
				if t.Head == "udt" {
					return mx
				}
				continue
			}
			m := int(int32(binary.BigEndian.Uint32(d)))
			d = d[4:]
			if m < 0 {
				continue
			}
			if m > len(d) {
				return mx
			}
			up(maxCount(proto, &b, d[:m], false))
			d = d[m:]
		}
	}
	return mx
}

const allocCap = 1 << 16

// ---------------------------------------------------------------------------------------------

var knownSites = map[string]bool{
	"crash:unmarshalList:reflect-makeslice": true, "crash:readBytes:slice": true, "crash:unmarshalTuple:index": true,
	"crash:unmarshalDate:index": true, "crash:goType:reflect": true, "crash:unmarshalTuple:reflect": true,
	"crash:unmarshalUDT:reflect": true,
}

type emitter struct {
	emit    func(op, impl, class string, nontrivial bool)
	skipped int
}

func (em *emitter) run(proto int, t, dst *Node, data []byte, isNil bool) {
	// both size widths are tried: a code change that reads the other width must not make the real
	// code allocate gigabytes either (a Go out-of-memory is fatal, not a recoverable panic)
	if maxCount(4, t, data, isNil) > allocCap || maxCount(2, t, data, isNil) > allocCap {
		em.skipped++
		return
	}
	hx := "nil"
	if !isNil {
		hx = vh.Hex(data)
	}
	ts, ds := t.String(), dst.String()
	op := "val " + strconv.Itoa(proto) + " " + ts + " " + ds + " " + hx
	ans, _ := Exec([]string{"val", strconv.Itoa(proto), ts, ds, hx})
	class := "val/" + t.Head + "/" + ans
	if strings.HasPrefix(ans, "crash:") {
		if knownSites[ans] {
			class = "val/known/" + ans[6:]
		} else {
			class = "val/UNLISTED-CRASH/" + ans[6:]
		}
	}
	em.emit(op, ans, class, !isNil && len(data) > 0)
}

var sizeValues4 = []int64{-1, -2, 0, 1, 2, 3, 4, 0x7fffffff, -0x80000000, 0x7fffff00, 0xffff, 0x10000, 0x01000000, -0x7fffffff}
var sizeValues2 = []int64{0xffff, 0xfffe, 0, 1, 2, 3, 4, 0x7fff, 0x8000, 0x0100}

func setSize(b []byte, f field, v int64) {
	if f.width == 2 {
		b[f.off], b[f.off+1] = byte(v>>8), byte(v)
	} else {
		b[f.off], b[f.off+1], b[f.off+2], b[f.off+3] = byte(v>>24), byte(v>>16), byte(v>>8), byte(v)
	}
}

func getSize(b []byte, f field) int64 {
	if f.width == 2 {
		return int64(binary.BigEndian.Uint16(b[f.off:]))
	}
	return int64(int32(binary.BigEndian.Uint32(b[f.off:])))
}

// campaign runs the mutation campaign of one (proto, type, dest) triple.
func (em *emitter) campaign(r *vh.Rng, proto int, t, dst *Node, heavy bool) {
	e := encode(r, proto, t)
	em.run(proto, t, dst, e.b, false)
	em.run(proto, t, dst, nil, true)
	em.run(proto, t, dst, []byte{}, false)
	// every truncation at every offset (long encodings: a random subset)
	if len(e.b) <= 40 || heavy {
		for k := 1; k < len(e.b); k++ {
			em.run(proto, t, dst, e.b[:k], false)
		}
	} else {
		for i := 0; i < 24; i++ {
			em.run(proto, t, dst, e.b[:1+r.Intn(len(e.b)-1)], false)
		}
		for _, f := range e.fields { // cut inside and right after every size field
			for _, k := range []int{f.off + 1, f.off + f.width - 1, f.off + f.width, f.off + f.width + 1} {
				if k > 0 && k < len(e.b) {
					em.run(proto, t, dst, e.b[:k], false)
				}
			}
		}
	}
	// every length / count field replaced
	fs := e.fields
	if len(fs) > 8 && !heavy {
		fs = append([]field{}, fs...)
		for i := range fs {
			j := i + r.Intn(len(fs)-i)
			fs[i], fs[j] = fs[j], fs[i]
		}
		fs = fs[:8]
	}
	for _, f := range fs {
		vals := sizeValues4
		if f.width == 2 {
			vals = sizeValues2
		}
		orig := getSize(e.b, f)
		for _, v := range append(append([]int64{}, vals...), orig+1, orig-1, int64(len(e.b)-f.off-f.width), int64(len(e.b)-f.off-f.width)+1) {
			b := append([]byte{}, e.b...)
			setSize(b, f, v)
			em.run(proto, t, dst, b, false)
		}
	}
	// random mutations
	for i := 0; i < 4 && len(e.b) > 0; i++ {
		b := append([]byte{}, e.b...)
		for k := 0; k <= r.Intn(3); k++ {
			switch r.Intn(4) {
			case 0:
				b[r.Intn(len(b))] ^= byte(1 << uint(r.Intn(8)))
			case 1:
				b[r.Intn(len(b))] = r.PickByte([]byte{0, 1, 0x7f, 0x80, 0xff})
			case 2:
				p := r.Intn(len(b) + 1)
				b = append(b[:p:p], append(r.Bytes(1+r.Intn(3)), b[p:]...)...)
			default:
				if len(b) > 1 {
					p := r.Intn(len(b))
					b = append(b[:p:p], b[p+1:]...)
				}
			}
		}
		em.run(proto, t, dst, b, false)
	}
	// pure random bytes; for collections also behind a plausible count
	for i := 0; i < 2; i++ {
		b := r.Bytes(r.Intn(24))
		em.run(proto, t, dst, b, false)
		if t.Paren {
			c := []byte{0, 0, 0, byte(r.Intn(4))}
			if proto <= 2 {
				c = c[2:]
			}
			if t.Head == "tuple" || t.Head == "udt" {
				c = []byte{0, 0, 0, byte(r.Intn(12))}
			}
			em.run(proto, t, dst, append(c, b...), false)
		}
	}
}

var stats map[string]interface{}

// Stats returns extra statistics of the last Gen call (allocation amplification measurements).
func Stats() map[string]interface{} { return stats }

// Gen generates the op lines of the value-decoder part, runs the real code on each and emits them.
func Gen(r *vh.Rng, tier string, emit func(op, impl, class string, nontrivial bool)) {
	// vh.NewRng(seed) streams of neighbouring seeds are shifted copies of each other (they re-align
	// after one data-dependent draw): re-seed from the first (mixed) output so that seeds 1,2,3...
	// give unrelated campaigns. All randomness still derives from the one PRNG.
	r = vh.NewRng(r.U64())
	em := &emitter{emit: emit}
	mult := 1
	if tier == "thorough" {
		mult = 30
	}
	// 1. every native type x every scalar destination (and its pointer, and def) x every length 0..17
	for _, tn := range NativeNames {
		t := nat(tn)
		dests := []*Node{nat("def")}
		for _, s := range ScalarNames {
			dests = append(dests, nat(s))
		}
		dests = append(dests, mustParse("slice(uint8)"), mustParse("arr(16,uint8)"), mustParse("ptr(int)"),
			mustParse("ptr(ptr(string))"), mustParse("ptr(dec)"), mustParse("ptr(bigint)"), mustParse("ptr(time)"),
			mustParse("slice(int)"), mustParse("map(string,iface)"), mustParse("struct(a:int)"), mustParse("ifs(int)"))
		for _, d := range dests {
			em.run(4, t, d, nil, true)
			for n := 0; n <= 17; n++ {
				reps := mult
				if n > 9 && n != 16 {
					reps = (mult + 1) / 2
				}
				for k := 0; k < reps; k++ {
					b := r.Bytes(n)
					switch r.Intn(4) {
					case 0:
						for i := range b {
							b[i] = r.PickByte([]byte{0, 0xff, 0x80, 0x7f, 1})
						}
					case 1:
						for i := 0; i < n-2; i++ {
							b[i] = byte(0xff * (k & 1))
						}
					}
					em.run(1+r.Intn(5), t, d, b, false)
				}
			}
			// one well-formed value
			em.run(3, t, d, encNative(r, tn), false)
		}
	}
	// 2. random type trees x destinations x protocol versions: the mutation campaign
	iters := 700 * mult
	for i := 0; i < iters; i++ {
		depth := 1 + r.Intn(3)
		t := genType(r, depth)
		if !t.Paren && r.Intn(3) != 0 {
			t = genType(r, depth) // fewer bare natives (covered above)
		}
		proto := 1 + r.Intn(5)
		if r.Intn(3) == 0 {
			proto = 2 + r.Intn(2) // the width boundary
		}
		dst := genDest(r, t)
		em.campaign(r, proto, t, dst, tier == "thorough" && i%16 == 0)
	}
	// 3. directed at the known sites and their neighbours (top-level shapes)
	for i := 0; i < 60*mult; i++ {
		proto := 1 + r.Intn(5)
		et := nat(nativeWeights[r.Intn(len(nativeWeights))])
		lt := app([]string{"list", "set"}[r.Intn(2)], et)
		ld := app("slice", genGT(r, et))
		for _, c := range []int64{-1, -2, -0x80000000, 0, 1, 2, 0xffff, 0x10000, 0x8000} {
			b := make([]byte, 4)
			setSize(b, field{0, 4, true}, c)
			if proto <= 2 {
				b = b[2:]
			}
			b = append(b, r.Bytes(r.Intn(10))...)
			em.run(proto, lt, ld, b, false)
			em.run(proto, lt, app("arr", nat("2"), ld.Args[0]), b, false)
			em.run(proto, app("map", et, et), app("map", nat("string"), ld.Args[0]), b, false)
		}
		tt := app("tuple", et, nat("int"))
		for _, c := range []int64{-1, 0, 1, 3, 4, 5, 9, 0x7fffffff, -0x80000000} {
			b := make([]byte, 4)
			setSize(b, field{0, 4, false}, c)
			b = append(b, r.Bytes(r.Intn(6))...)
			em.run(proto, tt, mustParse("slice(iface)"), b, false)
			em.run(proto, tt, app("ifs", genGT(r, et), nat("int")), b, false)
			em.run(proto, tt, app("ifs", genGT(r, et)), b, false)
			em.run(proto, app("udt", lab("a", et), lab("b", nat("int"))), mustParse("map(string,iface)"), b, false)
			em.run(proto, app("udt", lab("a", et), lab("b", nat("int"))), app("struct", lab("a", genGT(r, et))), b, false)
		}
	}
	// 4. directed: destination shapes around reflect assignability and unexported struct fields
	for i := 0; i < 12*mult; i++ {
		proto := 1 + r.Intn(5)
		shapes := [][2]string{
			{"tuple(blob)", "struct(A:ip)"}, {"tuple(blob)", "struct(A:ptr(ip))"}, {"tuple(blob)", "slice(ip)"},
			{"tuple(uuid)", "struct(A:arr(16,uint8))"}, {"tuple(timeuuid)", "slice(arr(16,uint8))"},
			{"tuple(uuid)", "struct(A:arr(15,uint8))"},
			{"tuple(duration)", "struct(A:struct(Months:int32,Days:int32,Nanoseconds:int64))"},
			{"tuple(duration)", "struct(A:struct(Months:int32,Days:int32,Nanoseconds:int32))"},
			{"tuple(duration)", "struct(A:struct(months:int32,Days:int32,Nanoseconds:int64))"},
			{"tuple(list(blob))", "slice(slice(ip))"}, {"tuple(time)", "struct(A:int64)"}, {"tuple(time)", "struct(A:dur)"},
			{"tuple(int,int,bigint)", "cqldur"}, {"tuple(int,int,int)", "time"}, {"tuple(int,int)", "bigint"},
			{"tuple(int,int)", "dec"}, {"tuple(tinyint)", "ip"}, {"tuple(tinyint)", "uuid"},
			{"tuple(decimal)", "struct(A:ptr(dec))"}, {"tuple(decimal)", "struct(A:dec)"}, {"tuple(varint)", "slice(ptr(bigint))"},
			{"tuple(varint)", "struct(A:ptr(ptr(bigint)))"},
			{"udt(wall:int,ext:int)", "time"}, {"udt(a:int,loc:text)", "time"}, {"udt(neg:int)", "bigint"}, {"udt(abs:int)", "bigint"},
			{"udt(unscaled:int)", "dec"}, {"udt(scale:int)", "dec"}, {"udt(a:int)", "dec"},
			{"udt(Months:int,Days:int,Nanoseconds:bigint)", "cqldur"}, {"udt(Months:bigint)", "cqldur"},
			{"udt(months:int)", "cqldur"}, {"udt(a:int,b:text)", "struct(a:int,a:string,b:string)"},
			{"udt(Aa:int,b:text)", "struct(Aa:int64,b:slice(uint8))"}, {"udt(Aa:int)", "struct(aa:int)"},
			{"list(tinyint)", "ip"}, {"list(tinyint)", "uuid"}, {"set(int)", "uuid"}, {"list(blob)", "slice(ip)"},
			{"map(blob,int)", "def"}, {"map(int,blob)", "def"}, {"map(list(int),int)", "def"}, {"map(tuple(int),int)", "def"},
			{"map(udt(a:int),int)", "def"}, {"map(decimal,int)", "def"}, {"map(varint,int)", "def"}, {"map(uuid,int)", "def"},
			{"map(timestamp,int)", "def"}, {"map(duration,int)", "def"}, {"map(map(int,int),int)", "def"},
			{"list(map(blob,int))", "def"}, {"tuple(map(blob,int))", "slice(iface)"}, {"udt(a:map(set(int),int))", "def"},
			{"udt(a:map(set(int),int))", "struct(a:int)"}, {"tuple(custom)", "slice(iface)"}, {"udt(a:custom)", "def"},
			{"list(custom)", "def"}, {"map(custom,int)", "def"}, {"map(int,custom)", "def"},
		}
		for _, sh := range shapes {
			t, d := mustParse(sh[0]), mustParse(sh[1])
			em.campaign(r, proto, t, d, false)
		}
	}
	// 5. the goType table: every native type as a tuple element / UDT field stored by reflection into
	// a field of exactly the Go type goType picks (and a pointer to it, a slice / array of it)
	for _, tn := range NativeNames {
		g := goTypeDesc(nat(tn))
		if g == nil {
			g = nat("int")
		}
		tt := app("tuple", nat(tn))
		dests := []*Node{app("struct", lab("A", g)), app("struct", lab("A", app("ptr", g))), app("slice", g),
			app("arr", nat("1"), g), app("struct", lab("A", nat("iface"))), mustParse("slice(iface)"), nat("def")}
		for _, d := range dests {
			for k := 0; k < mult; k++ {
				v := encNative(r, tn)
				b := append([]byte{0, 0, 0, byte(len(v))}, v...)
				em.run(1+r.Intn(5), tt, d, b, false)
				em.run(1+r.Intn(5), tt, d, []byte{0xff, 0xff, 0xff, 0xff}, false)
				em.run(1+r.Intn(5), tt, d, []byte{}, false)
				em.run(1+r.Intn(5), tt, d, nil, true)
				if d.Head != "def" {
					em.run(3+r.Intn(3), app("list", tt), app("slice", d), append([]byte{0, 0, 0, 1, 0, 0, 0, byte(len(b))}, b...), false)
				}
			}
		}
		ut := app("udt", lab("a", nat(tn)))
		for _, d := range []*Node{mustParse("map(string,iface)"), nat("def"), app("struct", lab("a", g))} {
			v := encNative(r, tn)
			em.run(3+r.Intn(3), ut, d, append([]byte{0, 0, 0, byte(len(v))}, v...), false)
		}
	}
	// tuples stored by reflection into structs whose fields cannot be set (time.Time, big.Int, inf.Dec: unexported
	// fields; setTupleElem must answer with an error, reflect.Value.Set would panic)
	for _, sh := range [][2]string{{"tuple(int,int,int)", "time"}, {"tuple(text,int,blob)", "time"}, {"tuple(int,int)", "bigint"}, {"tuple(boolean,int)", "bigint"}, {"tuple(boolean,blob)", "ptr(bigint)"},
		{"tuple(int,text)", "dec"}, {"tuple(int,int,int)", "ptr(time)"}, {"list(tuple(int,int))", "slice(bigint)"}} {
		for _, data := range [][]byte{{}, {0, 0, 0, 4, 0, 0, 0, 1}, {0xff, 0xff, 0xff, 0xff}, {0, 0, 0, 4, 0, 0, 0, 1, 0, 0, 0, 4, 0, 0, 0, 2, 0, 0, 0, 4, 0, 0, 0, 3}} {
			d := data
			if sh[0][:4] == "list" {
				d = append([]byte{0, 0, 0, 1, 0, 0, 0, byte(len(data))}, data...)
			}
			em.run(4, mustParse(sh[0]), mustParse(sh[1]), d, false)
		}
	}
	genAlloc(r, mult, emit)
	stats = map[string]interface{}{
		"alloc_val_max_ratio_permille": AllocMaxRatio,
		"val_skipped_alloc_cap": em.skipped,
		"val_alloc":             measureAlloc(),
	}
}

// measureAlloc: bytes the real code allocates for a few tiny inputs that declare a large element
// count (allocation amplification; the counts are capped so that the process stays small).
func measureAlloc() []string {
	var out []string
	one := func(typ, dst string, data []byte) {
		t, d := mustParse(typ), mustParse(dst)
		info, err := TypeInfoOf(4, t)
		if err != nil {
			return
		}
		var m0, m1 runtime.MemStats
		runtime.GC()
		runtime.ReadMemStats(&m0)
		ans := Run(info, d, data)
		runtime.ReadMemStats(&m1)
		delta := m1.TotalAlloc - m0.TotalAlloc
		out = append(out, fmt.Sprintf("%s into %s, %d input bytes (%s): %s, allocated %d bytes = x%d", typ, dst,
			len(data), vh.Hex(data), ans, delta, delta/uint64(len(data))))
	}
	one("list(int)", "slice(int)", []byte{0x00, 0x10, 0x00, 0x00})     // 2^20 elements
	one("list(int)", "slice(int)", []byte{0x01, 0x00, 0x00, 0x00})     // 2^24 elements
	one("list(text)", "slice(string)", []byte{0x00, 0x40, 0x00, 0x00}) // 2^22 strings
	one("map(int,int)", "map(int,int)", []byte{0x00, 0x10, 0x00, 0x00})
	one("map(text,text)", "def", []byte{0x00, 0x20, 0x00, 0x00})
	runtime.GC()
	return out
}
