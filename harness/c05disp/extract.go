// Package c05disp: property C05 (no bytes from the network can crash the application), part
// "response-kind dispatch": a go/ast extractor that re-reads, on every run, the gocql source the
// harness is built against and prints for every `switch x := frame.(type)` / `frame.(*T)` site that
// dispatches on a RESPONSE frame the case arms and what `default:` does, plus the facts the crash
// argument rests on (who recovers, which calls are launched with `go`, which Authenticator returns
// a nil next challenger). The extracted table is compared cell by cell with the hand-written Lean
// table (lean/Model/Dispatch.lean); selected cells are also driven through the real code on an
// in-memory cluster in a subprocess (beh.go / e2e.go).
package c05disp

import (
	"bufio"
	"fmt"
	"go/ast"
	"go/parser"
	"go/printer"
	"go/token"
	"os"
	"path/filepath"
	"runtime/debug"
	"sort"
	"strings"
)

// Kinds: the frame kinds of the Lean model, in the model's order, with the Go type a case arm
// must name to select exactly that kind.
var Kinds = []string{
	"error", "unprepared", "ready", "authenticate", "authChallenge", "authSuccess", "supported",
	"resultVoid", "resultRows", "resultKeyspace", "resultPrepared",
	"schemaKeyspace", "schemaTable", "schemaType", "schemaFunction", "schemaAggregate",
	"statusChange", "topologyChange",
}

var kindGoType = map[string]string{
	"error": "errorFrame", "unprepared": "*RequestErrUnprepared", "ready": "*readyFrame",
	"authenticate": "*authenticateFrame", "authChallenge": "*authChallengeFrame",
	"authSuccess": "*authSuccessFrame", "supported": "*supportedFrame",
	"resultVoid": "*resultVoidFrame", "resultRows": "*resultRowsFrame",
	"resultKeyspace": "*resultKeyspaceFrame", "resultPrepared": "*resultPreparedFrame",
	"schemaKeyspace": "*schemaChangeKeyspace", "schemaTable": "*schemaChangeTable",
	"schemaType": "*schemaChangeType", "schemaFunction": "*schemaChangeFunction",
	"schemaAggregate": "*schemaChangeAggregate", "statusChange": "*statusChangeEventFrame",
	"topologyChange": "*topologyChangeEventFrame",
}

// NilSuffix marks the pseudo-site "same switch, reached while the tracked callee (the auth
// challenger) is nil".
const NilSuffix = "+nilchallenger"

// Arm is one case arm of a dispatch site.
type Arm struct {
	Types   []string // as written: "*readyFrame", "error", ...; nil for default
	Default bool
	Act     string // handled | error | retry | panic | nilcall | log | other
	NilAct  string // what the arm does when the tracked callee is nil (== Act unless it calls it)
}

// Site is one dispatch site.
type Site struct {
	Name    string // Recv.func[#n]
	Func    string // Recv.func
	File    string
	Form    string // switch | assert
	Arms    []Arm
	Ctx     string   // go-literal | go-method | call
	Tracked []string // nil-able callees called in some arm (variable names)
	pos     token.Pos
}

// Table is everything extracted.
type Table struct {
	Dir          string
	FrameTypes   []string // struct types embedding frameHeader
	ErrTypes     []string // struct types embedding errorFrame
	Sites        []*Site
	ErrSites     []string // type switches / assertions over error types only (not dispatch sites)
	Recovers     []string // functions containing a recover() call
	Repanic      string   // what parseFrame's deferred recover re-panics
	GoCalls      []string // `go x.f()` statements: Encl:go:name
	ChallengeNil []string // Authenticator implementations whose Challenge returns (_, nil, nil)
	Challengers  []string // all Authenticator implementations (types with a Challenge method)
	ErrorImpls   []string // frame types with an Error() method declared on them
	Problems     []string // shapes the extractor could not classify
}

// FindGocqlDir: VERIF_GOCQL_DIR, else the replacement directory recorded in this binary's build
// info, else VERIF_REPO, else the `replace github.com/gocql/gocql => <dir>` line of harness/go.mod
// (relative to the cwd = worktree root, or next to the executable's module).
func FindGocqlDir() (string, error) {
	if d := os.Getenv("VERIF_GOCQL_DIR"); d != "" {
		return d, nil
	}
	// the directory this very binary was built against (also right under `go build -modfile`)
	if bi, ok := debug.ReadBuildInfo(); ok {
		for _, d := range bi.Deps {
			if d.Path == "github.com/gocql/gocql" && d.Replace != nil && filepath.IsAbs(d.Replace.Path) {
				return d.Replace.Path, nil
			}
		}
	}
	if d := os.Getenv("VERIF_REPO"); d != "" {
		return d, nil
	}
	cands := []string{"harness/go.mod", "go.mod", "../go.mod", "../../go.mod"}
	if exe, err := os.Executable(); err == nil {
		cands = append(cands, filepath.Join(filepath.Dir(exe), "..", "harness", "go.mod"))
	}
	for _, c := range cands {
		f, err := os.Open(c)
		if err != nil {
			continue
		}
		sc := bufio.NewScanner(f)
		for sc.Scan() {
			w := strings.Fields(sc.Text())
			// replace github.com/gocql/gocql => /repo
			if len(w) == 4 && w[0] == "replace" && w[1] == "github.com/gocql/gocql" && w[2] == "=>" {
				f.Close()
				d := w[3]
				if !filepath.IsAbs(d) {
					d = filepath.Join(filepath.Dir(c), d)
				}
				return d, nil
			}
		}
		f.Close()
	}
	return "", fmt.Errorf("c05disp: no `replace github.com/gocql/gocql => dir` found in harness/go.mod (cwd must be the worktree root) and VERIF_GOCQL_DIR not set")
}

func typeStr(fset *token.FileSet, e ast.Expr) string {
	var sb strings.Builder
	printer.Fprint(&sb, fset, e)
	return sb.String()
}

func recvName(fd *ast.FuncDecl) string {
	if fd.Recv == nil || len(fd.Recv.List) == 0 {
		return ""
	}
	t := fd.Recv.List[0].Type
	if s, ok := t.(*ast.StarExpr); ok {
		t = s.X
	}
	if id, ok := t.(*ast.Ident); ok {
		return id.Name
	}
	return "?"
}

func funcName(fd *ast.FuncDecl) string {
	if r := recvName(fd); r != "" {
		return r + "." + fd.Name.Name
	}
	return fd.Name.Name
}

type extractor struct {
	fset    *token.FileSet
	t       *Table
	frameT  map[string]bool // "*readyFrame", "errorFrame", "*errorFrame"...
	errT    map[string]bool // "*RequestErrX"
	goNames map[string]bool // names launched with `go recv.name(...)`
}

// Extract parses every non-test, non-hook .go file of the gocql package in dir.
func Extract(dir string) (*Table, error) {
	fset := token.NewFileSet()
	ents, err := os.ReadDir(dir)
	if err != nil {
		return nil, err
	}
	var files []*ast.File
	var names []string
	for _, e := range ents {
		n := e.Name()
		if e.IsDir() || !strings.HasSuffix(n, ".go") || strings.HasSuffix(n, "_test.go") || strings.HasPrefix(n, "verif_") {
			continue
		}
		f, err := parser.ParseFile(fset, filepath.Join(dir, n), nil, parser.SkipObjectResolution)
		if err != nil {
			return nil, err
		}
		if f.Name.Name != "gocql" {
			continue
		}
		files = append(files, f)
		names = append(names, n)
	}
	if len(files) == 0 {
		return nil, fmt.Errorf("c05disp: no gocql source files in %s", dir)
	}
	x := &extractor{fset: fset, t: &Table{Dir: dir}, frameT: map[string]bool{}, errT: map[string]bool{}, goNames: map[string]bool{}}
	// pass 1: frame types, Error() methods, Challenge implementations, go statements, recover sites
	for _, f := range files {
		for _, d := range f.Decls {
			switch d := d.(type) {
			case *ast.GenDecl:
				for _, sp := range d.Specs {
					ts, ok := sp.(*ast.TypeSpec)
					if !ok {
						continue
					}
					st, ok := ts.Type.(*ast.StructType)
					if !ok {
						continue
					}
					for _, fl := range st.Fields.List {
						if len(fl.Names) != 0 {
							continue
						}
						if id, ok := fl.Type.(*ast.Ident); ok {
							if id.Name == "frameHeader" {
								x.t.FrameTypes = append(x.t.FrameTypes, ts.Name.Name)
							} else if id.Name == "errorFrame" {
								x.t.ErrTypes = append(x.t.ErrTypes, ts.Name.Name)
							}
						}
					}
				}
			case *ast.FuncDecl:
				x.scanFunc(d)
			}
		}
	}
	sort.Strings(x.t.FrameTypes)
	sort.Strings(x.t.ErrTypes)
	for _, n := range x.t.FrameTypes {
		x.frameT[n] = true
		x.frameT["*"+n] = true
	}
	for _, n := range x.t.ErrTypes {
		x.errT[n] = true
		x.errT["*"+n] = true
	}
	// Error() declared directly on a frame type
	for _, f := range files {
		for _, d := range f.Decls {
			if fd, ok := d.(*ast.FuncDecl); ok && fd.Name.Name == "Error" && fd.Recv != nil {
				r := recvName(fd)
				if x.frameT[r] || x.errT[r] {
					x.t.ErrorImpls = append(x.t.ErrorImpls, r)
				}
			}
		}
	}
	sort.Strings(x.t.ErrorImpls)
	// pass 2: dispatch sites
	for i, f := range files {
		for _, d := range f.Decls {
			if fd, ok := d.(*ast.FuncDecl); ok && fd.Body != nil {
				x.sitesIn(fd, names[i])
			}
		}
	}
	sort.Slice(x.t.Sites, func(i, j int) bool {
		a, b := x.t.Sites[i], x.t.Sites[j]
		if a.File != b.File {
			return a.File < b.File
		}
		return a.pos < b.pos
	})
	// ordinals per function
	cnt := map[string]int{}
	for _, s := range x.t.Sites {
		cnt[s.Func]++
		if cnt[s.Func] > 1 {
			s.Name = fmt.Sprintf("%s#%d", s.Func, cnt[s.Func])
		} else {
			s.Name = s.Func
		}
	}
	sort.Strings(x.t.ErrSites)
	sort.Strings(x.t.Recovers)
	sort.Strings(x.t.GoCalls)
	sort.Strings(x.t.ChallengeNil)
	sort.Strings(x.t.Challengers)
	return x.t, nil
}

func isIdent(e ast.Expr, name string) bool {
	id, ok := e.(*ast.Ident)
	return ok && id.Name == name
}

// scanFunc collects recover sites, go statements, Challenge implementations, the re-panic shape.
func (x *extractor) scanFunc(fd *ast.FuncDecl) {
	if fd.Body == nil {
		return
	}
	fn := funcName(fd)
	hasRecover := false
	ast.Inspect(fd.Body, func(n ast.Node) bool {
		switch n := n.(type) {
		case *ast.CallExpr:
			if isIdent(n.Fun, "recover") {
				hasRecover = true
			}
		case *ast.GoStmt:
			switch f := n.Call.Fun.(type) {
			case *ast.SelectorExpr:
				x.goNames[f.Sel.Name] = true
				x.t.GoCalls = append(x.t.GoCalls, fn+":go:"+f.Sel.Name)
			case *ast.Ident:
				x.goNames[f.Name] = true
				x.t.GoCalls = append(x.t.GoCalls, fn+":go:"+f.Name)
			case *ast.FuncLit:
				x.t.GoCalls = append(x.t.GoCalls, fn+":go:func")
			}
		}
		return true
	})
	if hasRecover {
		x.t.Recovers = append(x.t.Recovers, fn)
		if fn == "framer.parseFrame" {
			x.t.Repanic = x.repanicShape(fd)
		}
	}
	// Challenge(req []byte) ([]byte, Authenticator, error)
	if fd.Name.Name == "Challenge" && fd.Recv != nil && fd.Type.Results != nil {
		var rts []string
		for _, r := range fd.Type.Results.List {
			n := len(r.Names)
			if n == 0 {
				n = 1
			}
			for i := 0; i < n; i++ {
				rts = append(rts, typeStr(x.fset, r.Type))
			}
		}
		if len(rts) == 3 && rts[1] == "Authenticator" && rts[2] == "error" {
			r := recvName(fd)
			x.t.Challengers = append(x.t.Challengers, r)
			nilNext := false
			ast.Inspect(fd.Body, func(n ast.Node) bool {
				if _, ok := n.(*ast.FuncLit); ok {
					return false
				}
				if rs, ok := n.(*ast.ReturnStmt); ok && len(rs.Results) == 3 {
					if isIdent(rs.Results[2], "nil") && isIdent(rs.Results[1], "nil") {
						nilNext = true
					}
				}
				return true
			})
			if nilNext {
				x.t.ChallengeNil = append(x.t.ChallengeNil, r)
			}
		}
	}
}

// repanicShape looks, inside parseFrame's deferred function, for
// `if _, ok := r.(runtime.Error); ok { panic(r) }`.
func (x *extractor) repanicShape(fd *ast.FuncDecl) string {
	res := "none"
	ast.Inspect(fd.Body, func(n ast.Node) bool {
		ds, ok := n.(*ast.DeferStmt)
		if !ok {
			return true
		}
		fl, ok := ds.Call.Fun.(*ast.FuncLit)
		if !ok {
			return true
		}
		ast.Inspect(fl.Body, func(m ast.Node) bool {
			is, ok := m.(*ast.IfStmt)
			if !ok || is.Init == nil {
				return true
			}
			as, ok := is.Init.(*ast.AssignStmt)
			if !ok || len(as.Rhs) != 1 {
				return true
			}
			ta, ok := as.Rhs[0].(*ast.TypeAssertExpr)
			if !ok || ta.Type == nil {
				return true
			}
			pan := false
			for _, s := range is.Body.List {
				if es, ok := s.(*ast.ExprStmt); ok {
					if ce, ok := es.X.(*ast.CallExpr); ok && isIdent(ce.Fun, "panic") {
						pan = true
					}
				}
			}
			if pan {
				res = typeStr(x.fset, ta.Type)
			}
			return true
		})
		return true
	})
	return res
}

// ---- dispatch sites

type walkCtx struct {
	fd      *ast.FuncDecl
	file    string
	inGoLit bool
	tracked map[string]bool
}

func (x *extractor) sitesIn(fd *ast.FuncDecl, file string) {
	c := &walkCtx{fd: fd, file: file, tracked: map[string]bool{}}
	// tracked nil-able callees: `_, X, _ := <e>.Challenge(...)`
	ast.Inspect(fd.Body, func(n ast.Node) bool {
		as, ok := n.(*ast.AssignStmt)
		if !ok || len(as.Lhs) != 3 || len(as.Rhs) != 1 {
			return true
		}
		ce, ok := as.Rhs[0].(*ast.CallExpr)
		if !ok {
			return true
		}
		if se, ok := ce.Fun.(*ast.SelectorExpr); ok && se.Sel.Name == "Challenge" {
			if id, ok := as.Lhs[1].(*ast.Ident); ok && id.Name != "_" {
				c.tracked[id.Name] = true
			}
		}
		return true
	})
	x.walk(fd.Body, c, nil)
}

// walk visits statements keeping track of "lexically inside a go func literal" and of the
// statement that follows a `x, ok := f.(T)` assignment (for the comma-ok shape check).
func (x *extractor) walk(n ast.Node, c *walkCtx, _ ast.Stmt) {
	switch n := n.(type) {
	case nil:
		return
	case *ast.BlockStmt:
		for i, s := range n.List {
			var next ast.Stmt
			if i+1 < len(n.List) {
				next = n.List[i+1]
			}
			x.stmt(s, c, next)
		}
	default:
		ast.Inspect(n, func(m ast.Node) bool {
			if m == n {
				return true
			}
			switch m := m.(type) {
			case ast.Stmt:
				x.stmt(m, c, nil)
				return false
			case *ast.FuncLit:
				x.walk(m.Body, c, nil)
				return false
			case *ast.TypeAssertExpr:
				x.assertSite(m, false, nil, nil, c)
			}
			return true
		})
	}
}

func (x *extractor) stmt(s ast.Stmt, c *walkCtx, next ast.Stmt) {
	switch s := s.(type) {
	case *ast.GoStmt:
		if fl, ok := s.Call.Fun.(*ast.FuncLit); ok {
			c2 := *c
			c2.inGoLit = true
			x.walk(fl.Body, &c2, nil)
			for _, a := range s.Call.Args {
				x.walk(a, c, nil)
			}
			return
		}
		x.walk(s.Call, c, nil)
	case *ast.TypeSwitchStmt:
		x.switchSite(s, c)
		// nested sites inside the arms
		for _, cl := range s.Body.List {
			cc := cl.(*ast.CaseClause)
			x.walk(&ast.BlockStmt{List: cc.Body}, c, nil)
		}
	case *ast.AssignStmt:
		if len(s.Lhs) == 2 && len(s.Rhs) == 1 {
			if ta, ok := s.Rhs[0].(*ast.TypeAssertExpr); ok && ta.Type != nil {
				x.assertSite(ta, true, s, next, c)
				return
			}
		}
		x.walk(s, c, nil)
	case *ast.IfStmt:
		x.ifStmt(s, c)
	case *ast.BlockStmt:
		x.walk(s, c, nil)
	case *ast.LabeledStmt:
		x.stmt(s.Stmt, c, next)
	case *ast.CaseClause:
		x.walk(&ast.BlockStmt{List: s.Body}, c, nil)
	case *ast.CommClause:
		if s.Comm != nil {
			x.stmt(s.Comm, c, nil)
		}
		x.walk(&ast.BlockStmt{List: s.Body}, c, nil)
	default:
		x.walk(s, c, nil)
	}
}

func (x *extractor) ifStmt(s *ast.IfStmt, c *walkCtx) {
	if as, ok := s.Init.(*ast.AssignStmt); ok && len(as.Lhs) == 2 && len(as.Rhs) == 1 {
		if ta, ok := as.Rhs[0].(*ast.TypeAssertExpr); ok && ta.Type != nil {
			x.assertSite(ta, true, as, s, c)
		}
	} else if s.Init != nil {
		x.walk(s.Init, c, nil)
	}
	x.walk(s.Cond, c, nil)
	x.walk(s.Body, c, nil)
	switch e := s.Else.(type) {
	case *ast.IfStmt:
		x.ifStmt(e, c)
	case *ast.BlockStmt:
		x.walk(e, c, nil)
	}
}

func (x *extractor) ctxOf(c *walkCtx) string {
	if c.inGoLit {
		return "go-literal"
	}
	if x.goNames[c.fd.Name.Name] {
		return "go-method"
	}
	return "call"
}

func (x *extractor) switchSite(s *ast.TypeSwitchStmt, c *walkCtx) {
	var arms []Arm
	frameArm, errArm, other := false, false, false
	for _, cl := range s.Body.List {
		cc := cl.(*ast.CaseClause)
		a := Arm{Default: cc.List == nil}
		for _, t := range cc.List {
			ts := typeStr(x.fset, t)
			a.Types = append(a.Types, ts)
			switch {
			case ts == "error" || x.errT[ts] || ts == "errorFrame" || ts == "*errorFrame":
				errArm = true
			case x.frameT[ts]:
				frameArm = true
			default:
				other = true
			}
		}
		arms = append(arms, a)
	}
	fn := funcName(c.fd)
	if !frameArm {
		if errArm && !other {
			x.t.ErrSites = append(x.t.ErrSites, fn+":switch")
		}
		return
	}
	site := &Site{Func: fn, File: c.file, Form: "switch", Ctx: x.ctxOf(c), pos: s.Pos()}
	for i, cl := range s.Body.List {
		cc := cl.(*ast.CaseClause)
		a := &arms[i]
		a.Act, a.NilAct = x.classifyArm(cc, a, c, site)
	}
	if other {
		x.t.Problems = append(x.t.Problems, fn+": case arm with a type that is neither a frame type nor error")
	}
	site.Arms = arms
	sort.Strings(site.Tracked)
	x.t.Sites = append(x.t.Sites, site)
}

// noLit inspects without descending into function literals.
func noLit(n ast.Node, f func(ast.Node) bool) {
	ast.Inspect(n, func(m ast.Node) bool {
		if _, ok := m.(*ast.FuncLit); ok {
			return false
		}
		return f(m)
	})
}

func hasPanic(stmts []ast.Stmt) bool {
	found := false
	for _, s := range stmts {
		noLit(s, func(m ast.Node) bool {
			if ce, ok := m.(*ast.CallExpr); ok {
				if isIdent(ce.Fun, "panic") {
					found = true
				}
				// log.Fatal*/log.Panic*/os.Exit end the process just the same
				if se, ok := ce.Fun.(*ast.SelectorExpr); ok {
					if id, ok := se.X.(*ast.Ident); ok {
						n := se.Sel.Name
						if (id.Name == "log" && (strings.HasPrefix(n, "Fatal") || strings.HasPrefix(n, "Panic"))) || (id.Name == "os" && n == "Exit") {
							found = true
						}
					}
				}
			}
			return true
		})
	}
	return found
}

func callsName(stmts []ast.Stmt, name string) bool {
	found := false
	for _, s := range stmts {
		noLit(s, func(m ast.Node) bool {
			if ce, ok := m.(*ast.CallExpr); ok {
				if se, ok := ce.Fun.(*ast.SelectorExpr); ok && se.Sel.Name == name {
					found = true
				}
				if isIdent(ce.Fun, name) {
					found = true
				}
			}
			return true
		})
	}
	return found
}

func isErrExpr(e ast.Expr) bool {
	switch e := e.(type) {
	case *ast.CallExpr:
		switch f := e.Fun.(type) {
		case *ast.Ident:
			return f.Name == "NewErrProtocol"
		case *ast.SelectorExpr:
			if id, ok := f.X.(*ast.Ident); ok {
				return (id.Name == "fmt" && f.Sel.Name == "Errorf") || (id.Name == "errors" && f.Sel.Name == "New")
			}
		}
	case *ast.UnaryExpr:
		return isErrExpr(e.X)
	case *ast.CompositeLit:
		for _, el := range e.Elts {
			if kv, ok := el.(*ast.KeyValueExpr); ok && isIdent(kv.Key, "err") {
				return true
			}
		}
	}
	return false
}

// returnsError: the statements end the dispatch with an error (a return of a freshly built error /
// an Iter carrying one, or `flight.err = <error>`).
func returnsError(stmts []ast.Stmt) bool {
	for _, s := range stmts {
		switch s := s.(type) {
		case *ast.ReturnStmt:
			for _, r := range s.Results {
				if isErrExpr(r) {
					return true
				}
			}
		case *ast.AssignStmt:
			if len(s.Lhs) == 1 && len(s.Rhs) == 1 {
				if se, ok := s.Lhs[0].(*ast.SelectorExpr); ok && se.Sel.Name == "err" && isErrExpr(s.Rhs[0]) {
					return true
				}
			}
		case *ast.ExprStmt:
			// c.closeWithError(<error>): the connection is closed with an error
			if ce, ok := s.X.(*ast.CallExpr); ok && len(ce.Args) == 1 && isErrExpr(ce.Args[0]) {
				if se, ok := ce.Fun.(*ast.SelectorExpr); ok && se.Sel.Name == "closeWithError" {
					return true
				}
			}
		}
	}
	// log calls followed by a jump to the function's own failure handling (`goto reconn`, `continue`)
	if n := len(stmts); n >= 1 {
		if bs, ok := stmts[n-1].(*ast.BranchStmt); ok && (bs.Tok == token.GOTO || bs.Tok == token.CONTINUE) {
			if n == 1 || onlyLogs(stmts[:n-1]) {
				return true
			}
		}
	}
	return false
}

func onlyLogs(stmts []ast.Stmt) bool {
	if len(stmts) == 0 {
		return false
	}
	for _, s := range stmts {
		es, ok := s.(*ast.ExprStmt)
		if !ok {
			return false
		}
		ce, ok := es.X.(*ast.CallExpr)
		if !ok {
			return false
		}
		se, ok := ce.Fun.(*ast.SelectorExpr)
		if !ok || !(se.Sel.Name == "Printf" || se.Sel.Name == "Println" || se.Sel.Name == "Print") {
			return false
		}
	}
	return true
}

func isNilCmp(e ast.Expr, name string, op token.Token) bool {
	be, ok := e.(*ast.BinaryExpr)
	if !ok || be.Op != op {
		return false
	}
	return (isIdent(be.X, name) && isIdent(be.Y, "nil")) || (isIdent(be.Y, name) && isIdent(be.X, "nil"))
}

func terminates(stmts []ast.Stmt) bool {
	if len(stmts) == 0 {
		return false
	}
	switch s := stmts[len(stmts)-1].(type) {
	case *ast.ReturnStmt:
		return true
	case *ast.BranchStmt:
		return s.Tok == token.CONTINUE || s.Tok == token.BREAK || s.Tok == token.GOTO
	case *ast.ExprStmt:
		if ce, ok := s.X.(*ast.CallExpr); ok && isIdent(ce.Fun, "panic") {
			return true
		}
	}
	return false
}

// nilCall looks for an unguarded method call on the tracked variable `name` in stmts. It returns
// (found unguarded call, statements of the `if name == nil {...}` guard that precedes the call).
func nilCall(stmts []ast.Stmt, name string) (unguarded bool, guard []ast.Stmt) {
	for _, s := range stmts {
		if is, ok := s.(*ast.IfStmt); ok {
			if isNilCmp(is.Cond, name, token.NEQ) {
				// body is guarded; else-branch is not
				if eb, ok := is.Else.(*ast.BlockStmt); ok {
					if u, g := nilCall(eb.List, name); u {
						return true, g
					}
				}
				continue
			}
			if isNilCmp(is.Cond, name, token.EQL) && terminates(is.Body.List) {
				return false, is.Body.List
			}
		}
		found := false
		noLit(s, func(m ast.Node) bool {
			if ce, ok := m.(*ast.CallExpr); ok {
				if se, ok := ce.Fun.(*ast.SelectorExpr); ok && isIdent(se.X, name) {
					found = true
				}
			}
			return true
		})
		if found {
			// a nested block may still guard it
			switch b := s.(type) {
			case *ast.BlockStmt:
				if u, g := nilCall(b.List, name); !u {
					if g != nil {
						return false, g
					}
					continue
				}
			}
			return true, nil
		}
	}
	return false, nil
}

func (x *extractor) classifyArm(cc *ast.CaseClause, a *Arm, c *walkCtx, site *Site) (act, nilAct string) {
	body := cc.Body
	base := func(stmts []ast.Stmt, dflt bool) string {
		switch {
		case hasPanic(stmts):
			return "panic"
		case dflt && returnsError(stmts):
			return "error"
		case dflt && onlyLogs(stmts):
			return "log"
		case dflt:
			return "other"
		case callsName(stmts, c.fd.Name.Name):
			return "retry"
		case len(a.Types) == 1 && a.Types[0] == "error":
			return "error"
		default:
			return "handled"
		}
	}
	act = base(body, a.Default)
	nilAct = act
	for name := range c.tracked {
		u, guard := nilCall(body, name)
		calls := false
		for _, s := range body {
			noLit(s, func(m ast.Node) bool {
				if ce, ok := m.(*ast.CallExpr); ok {
					if se, ok := ce.Fun.(*ast.SelectorExpr); ok && isIdent(se.X, name) {
						calls = true
					}
				}
				return true
			})
		}
		if calls {
			found := false
			for _, t := range site.Tracked {
				if t == name {
					found = true
				}
			}
			if !found {
				site.Tracked = append(site.Tracked, name)
			}
		}
		if u {
			nilAct = "nilcall"
		} else if guard != nil {
			switch {
			case hasPanic(guard):
				nilAct = "panic"
			case returnsError(guard):
				nilAct = "error"
			default:
				nilAct = "other"
			}
		}
	}
	return act, nilAct
}

// assertSite records `f.(T)` with T a frame type. commaok: `v, ok := f.(T)`; stmt = that
// assignment, next = the statement that follows it (or the enclosing if for the init form).
func (x *extractor) assertSite(ta *ast.TypeAssertExpr, commaok bool, as *ast.AssignStmt, next ast.Stmt, c *walkCtx) {
	if ta.Type == nil {
		return
	}
	ts := typeStr(x.fset, ta.Type)
	fn := funcName(c.fd)
	if x.errT[ts] || ts == "errorFrame" || ts == "*errorFrame" {
		form := "bare"
		if commaok {
			form = "commaok"
		}
		x.t.ErrSites = append(x.t.ErrSites, fn+":"+ts+":"+form)
		return
	}
	if !x.frameT[ts] {
		return
	}
	site := &Site{Func: fn, File: c.file, Form: "assert", Ctx: x.ctxOf(c), pos: ta.Pos()}
	miss := "assertpanic"
	if commaok {
		miss = "other"
		okName := ""
		if id, ok := as.Lhs[1].(*ast.Ident); ok {
			okName = id.Name
		}
		if is, ok := next.(*ast.IfStmt); ok && okName != "" {
			if ue, ok := is.Cond.(*ast.UnaryExpr); ok && ue.Op == token.NOT && isIdent(ue.X, okName) {
				switch {
				case hasPanic(is.Body.List):
					miss = "panic"
				case returnsError(is.Body.List):
					miss = "error"
				}
			}
		}
	}
	site.Arms = []Arm{{Types: []string{ts}, Act: "handled", NilAct: "handled"}, {Default: true, Act: miss, NilAct: miss}}
	x.t.Sites = append(x.t.Sites, site)
}
