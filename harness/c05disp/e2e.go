package c05disp

import (
	"bytes"
	"context"
	"fmt"
	"os"
	"os/exec"
	"runtime/debug"
	"strings"
	"sync"
	"time"

	"github.com/gocql/gocql"
	"verifharness/c05util"
	"verifharness/memcluster"
)

// Parent side of the behavioural tie and the end-to-end scenarios: the harness re-executes itself
// (`<exe> e2e ...`) so that a process-fatal panic of the driver is observed the way an application
// would experience it: non-zero exit status and a goroutine dump on stderr.

const gocqlPkg = "github.com/gocql/gocql."

// shortFunc: "github.com/gocql/gocql.(*Conn).heartBeat(0xc0.., {..})" -> "Conn.heartBeat";
// "...(*Conn).prepareStatement.func1()" -> "Conn.prepareStatement"; "...readHeader(..)" -> "readHeader".
func shortFunc(line string) string {
	s := strings.TrimPrefix(line, gocqlPkg)
	recv := ""
	if strings.HasPrefix(s, "(") {
		i := strings.Index(s, ").")
		if i < 0 {
			return s
		}
		recv = strings.TrimPrefix(s[1:i], "*")
		s = s[i+2:]
	}
	if i := strings.Index(s, "("); i >= 0 {
		s = s[:i]
	}
	// Type.method for value receivers printed without parentheses
	parts := strings.Split(s, ".")
	var keep []string
	for _, p := range parts {
		if strings.HasPrefix(p, "func") || p == "" || (p[0] >= '0' && p[0] <= '9') {
			continue
		}
		keep = append(keep, p)
	}
	s = strings.Join(keep, ".")
	if recv != "" {
		return recv + "." + s
	}
	return s
}

// ParseCrash turns a Go crash report (stderr of a dead process, or debug.Stack() taken in a
// deferred function while panicking) into `crash:<Recv.func>:<kind>`: the function is the first
// gocql frame below the last `panic(` frame of the first goroutine listed (= where the ORIGINAL
// panic was raised, also when parseFrame's deferred function re-panicked), the kind is
// c05util.Kind of the panic message.
func ParseCrash(report string, msg string) string {
	lines := strings.Split(report, "\n")
	if msg == "" {
		for _, l := range lines {
			if strings.HasPrefix(l, "panic: ") {
				msg = strings.TrimSuffix(strings.TrimPrefix(l, "panic: "), " [recovered]")
				break
			}
			if strings.HasPrefix(l, "fatal error: ") {
				msg = l
				break
			}
		}
	}
	if msg == "" {
		return ""
	}
	kind := c05util.Kind(msg)
	if strings.HasPrefix(msg, "fatal error: ") {
		kind = "fatal"
		if strings.Contains(msg, "stack overflow") {
			kind = "stackoverflow"
		}
	}
	// frames of the first goroutine
	var frames []string
	in := false
	for _, l := range lines {
		if strings.HasPrefix(l, "goroutine ") && strings.HasSuffix(l, ":") {
			if in {
				break
			}
			in = true
			continue
		}
		if !in {
			continue
		}
		if l == "" {
			break
		}
		if strings.HasPrefix(l, "\t") || strings.HasPrefix(l, "created by ") {
			continue
		}
		frames = append(frames, l)
	}
	if kind == "stackoverflow" {
		// the culprit of a stack overflow is the function that fills the stack: the most frequent
		// gocql function among the frames printed
		cnt := map[string]int{}
		best := ""
		for _, f := range frames {
			if strings.HasPrefix(f, gocqlPkg) {
				n := shortFunc(f)
				cnt[n]++
				if cnt[n] > cnt[best] || (cnt[n] == cnt[best] && n < best) {
					best = n
				}
			}
		}
		if best != "" && cnt[best] >= 10 {
			return "crash:" + best + ":" + kind
		}
		return "crash:unknown:" + kind
	}
	last := -1
	for i, f := range frames {
		if strings.HasPrefix(f, "panic(") {
			last = i
		}
	}
	for i := last + 1; i < len(frames); i++ {
		if strings.HasPrefix(frames[i], gocqlPkg) && !strings.HasPrefix(frames[i], gocqlPkg+"Verif") {
			return "crash:" + shortFunc(frames[i]) + ":" + kind
		}
	}
	return "crash:unknown:" + kind
}

// guardCaller runs f; a panic that reaches this (the caller's) goroutine is classified like a
// fatal one would be.
func guardCaller(f func()) (crash string) {
	defer func() {
		if r := recover(); r != nil {
			msg := fmt.Sprint(r)
			if e, ok := r.(error); ok {
				msg = e.Error()
			}
			crash = ParseCrash(string(debug.Stack()), msg)
		}
	}()
	f()
	return ""
}

type childResult struct {
	stdout, stderr string
	code           int
	timedOut       bool
}

func runChild(timeout time.Duration, args ...string) childResult {
	exe, err := os.Executable()
	if err != nil {
		exe = os.Args[0]
	}
	ctx, cancel := context.WithTimeout(context.Background(), timeout)
	defer cancel()
	cmd := exec.CommandContext(ctx, exe, append([]string{"e2e"}, args...)...)
	var so, se bytes.Buffer
	cmd.Stdout, cmd.Stderr = &so, &se
	cmd.Env = append(os.Environ(), "GOTRACEBACK=single")
	err = cmd.Run()
	res := childResult{stdout: so.String(), stderr: se.String()}
	if ctx.Err() != nil {
		res.timedOut = true
		res.code = -1
		return res
	}
	if err != nil {
		if ee, ok := err.(*exec.ExitError); ok {
			res.code = ee.ExitCode()
		} else {
			res.code = -2
		}
	}
	return res
}

// BehCells drives the given cells of one site in child processes and returns kind -> observed.
// A child that dies is restarted for the remaining cells; the cell it died in gets the crash.
// ExitInfo (optional) collects "site kind exit=<code>" notes for the evidence.
func BehCells(site string, kinds []string, notes *[]string) map[string]string {
	res := map[string]string{}
	rest := append([]string(nil), kinds...)
	retries := map[string]int{}
	for guard := 0; len(rest) > 0 && guard < 4*len(kinds)+8; guard++ {
		cr := runChild(90*time.Second, "beh", site, strings.Join(rest, ","))
		cur := ""
		for _, l := range strings.Split(cr.stdout, "\n") {
			w := strings.Fields(l)
			switch {
			case len(w) == 2 && w[0] == "begin":
				cur = w[1]
			case len(w) == 3 && w[0] == "cell":
				if w[2] == "ambiguous" && retries[w[1]] < 3 {
					retries[w[1]]++
					cur = ""
					continue
				}
				res[w[1]] = strings.TrimPrefix(w[2], "caller-")
				cur = ""
			}
		}
		if cr.code != 0 || cr.timedOut {
			a := ""
			switch {
			case cr.timedOut:
				a = "fail:timeout"
			default:
				a = ParseCrash(cr.stderr, "")
				if a == "" {
					a = fmt.Sprintf("fail:exit-%d", cr.code)
				}
			}
			victim := cur
			if victim == "" && len(rest) > 0 {
				// died after reporting its last cell: a late panic of that cell
				for i := len(rest) - 1; i >= 0; i-- {
					if _, ok := res[rest[i]]; ok {
						victim = rest[i]
						break
					}
				}
				if victim == "" {
					victim = rest[0]
				}
			}
			res[victim] = a
			if notes != nil {
				*notes = append(*notes, fmt.Sprintf("beh %s %s: child exit=%d %s", site, victim, cr.code, a))
			}
		}
		var next []string
		for _, k := range rest {
			if _, ok := res[k]; !ok {
				next = append(next, k)
			}
		}
		rest = next
	}
	for _, k := range rest {
		res[k] = "fail:not-run"
	}
	return res
}

// Scenarios that are not table cells.
var Scenarios = []string{"event-short-inet", "event-wellformed", "refresh-local-noaddr", "unprepared-recursion", "unprepared-recursion-batch", "parse-error-unknown-code", "event-unknown-type", "init-peer-noaddr"}

// aliases: end-to-end scenarios of the task statement that ARE table cells.
var ScenarioCell = map[string][2]string{
	"hb-conn-ready":            {"Conn.heartBeat", "ready"},
	"hb-control-result":        {"controlConn.heartBeat", "resultVoid"},
	"auth-password-challenge":  {"startupCoordinator.authenticateHandshake" + NilSuffix, "authChallenge"},
	"control-unexpected-frame": {"Conn.executeQuery", "supported"},
}

// RunScenario runs a non-cell scenario in a child: "survived" or crash:<func>:<kind>.
func RunScenario(name string, notes *[]string) string {
	cr := runChild(60*time.Second, "scenario", name)
	if cr.timedOut {
		return "fail:timeout"
	}
	if cr.code == 0 {
		for _, l := range strings.Split(cr.stdout, "\n") {
			if strings.HasPrefix(l, "result ") {
				return strings.TrimPrefix(l, "result ")
			}
		}
		return "fail:no-result"
	}
	a := ParseCrash(cr.stderr, "")
	if a == "" {
		a = fmt.Sprintf("fail:exit-%d", cr.code)
	}
	if notes != nil {
		*notes = append(*notes, fmt.Sprintf("e2e %s: child exit=%d %s", name, cr.code, a))
	}
	return a
}

// childScenario: EVENT frames on stream -1 of a live pool connection.
func childScenario(name string) {
	s := &srv{}
	lg := &logSink{}
	cfg := newCfg(s, lg)
	if name == "refresh-local-noaddr" {
		childRefreshNoAddr(s, cfg)
		return
	}
	if name == "init-peer-noaddr" {
		// a system.peers row without peer / rpc_address, read by the initial host lookup on the
		// goroutine that called NewSession: hostInfoFromMap calls HostInfo.ConnectAddress, which panics
		cfg.DisableInitialHostLookup = false
		s.peerNoAddr = true
		sess, err := gocqlNewSession(cfg)
		if err != nil {
			fmt.Println("result error")
			return
		}
		sess.Close()
		fmt.Println("result survived")
		return
	}
	if name == "unprepared-recursion" || name == "unprepared-recursion-batch" {
		childUnpreparedRecursion(s, cfg, name == "unprepared-recursion-batch")
		return
	}
	sess, err := gocqlNewSession(cfg)
	if err != nil {
		fmt.Println("result fail:connect")
		return
	}
	defer sess.Close()
	if name == "parse-error-unknown-code" {
		// ERROR frame with an error code gocql does not know: parseErrorFrame panics with an error
		// value, parseFrame's deferred recover turns it into a returned error
		s.mu.Lock()
		s.override = func(c *sconn, f *memcluster.Frame, stmt string) bool {
			if f.Op == memcluster.OpQuery && strings.HasPrefix(stmt, "CREATE ") {
				c.reply(f.Stream, memcluster.OpError, memcluster.ErrorBody(0x9999, "unknown code", nil))
				return true
			}
			return false
		}
		s.mu.Unlock()
		fmt.Println("result", errStr(sess.Query("CREATE TABLE ks.t (a int PRIMARY KEY)").Exec()))
		return
	}
	c := s.conn(s.numConns())
	w := &memcluster.W{}
	if name == "event-unknown-type" {
		// unknown event type: parseEventFrame panics with an error value, recovered by parseFrame,
		// logged by handleEvent
		w.String("FOO_CHANGE")
		c.reply(-1, memcluster.OpEvent, w.B)
		dl := time.Now().Add(5 * time.Second)
		for time.Now().Before(dl) && !lg.has("unable to parse event frame") {
			time.Sleep(time.Millisecond)
		}
		if lg.has("unable to parse event frame") {
			fmt.Println("result parse-error")
		} else {
			fmt.Println("result fail:no-log")
		}
		return
	}
	w.String("STATUS_CHANGE")
	w.String("UP")
	switch name {
	case "event-short-inet":
		// [inet] = size byte 16, then only 2 of the 16 address bytes, no port
		w.Byte(16)
		w.B = append(w.B, 0xfe, 0x80)
	case "event-wellformed":
		w.Byte(16)
		w.B = append(w.B, 0xfe, 0x80, 0, 0, 0, 0, 0, 0, 0, 0, 0, 0, 0, 0, 0, 1)
		w.Int(9042)
	default:
		fmt.Println("result bad-op")
		return
	}
	c.reply(-1, memcluster.OpEvent, w.B)
	// the event is parsed on a goroutine of its own; give it a round trip and a grace period
	if err := sess.Query("CREATE TABLE ks.t (a int PRIMARY KEY)").Exec(); err != nil {
		fmt.Println("result fail:conn-unusable")
		return
	}
	time.Sleep(300 * time.Millisecond)
	if lg.has("unable to parse event frame") {
		fmt.Println("result parse-error")
		return
	}
	fmt.Println("result survived")
}

// childRefreshNoAddr: the system.local row carries no rpc_address / broadcast_address. The initial
// connect does not mind (it knows the address it dialled); every later ring refresh does
// (ringDescriber.getLocalHostInfo passes a nil connect address and hostInfoFromMap then calls
// HostInfo.ConnectAddress, which panics). The refresh is provoked by answering the heartbeat OPTIONS
// on the control connection with ERROR: Conn.heartBeat ignores it, controlConn.heartBeat reconnects
// and refreshes the ring.
func childRefreshNoAddr(s *srv, cfg *gocql.ClusterConfig) {
	s.localNoAddr = true
	refreshed := make(chan struct{}, 16)
	s.override = func(c *sconn, f *memcluster.Frame, stmt string) bool {
		if f.Op == memcluster.OpOptions && c.id == 1 && c.count(memcluster.OpStartup) > 0 {
			c.reply(f.Stream, memcluster.OpError, kindBody("error"))
			return true
		}
		if f.Op == memcluster.OpQuery && strings.Contains(stmt, "system.local") && c.id > 2 {
			refreshed <- struct{}{}
		}
		return false
	}
	sess, err := gocqlNewSession(cfg)
	if err != nil {
		fmt.Println("result fail:connect")
		return
	}
	defer sess.Close()
	// new control connection (setupConn's system.local), then the ring refresh's system.local
	for i := 0; i < 2; i++ {
		select {
		case <-refreshed:
		case <-time.After(20 * time.Second):
			fmt.Println("result fail:no-refresh")
			return
		}
	}
	time.Sleep(300 * time.Millisecond)
	fmt.Println("result survived")
}

// RecursionStackLimit: the stack limit the unprepared-recursion scenario runs under (Go's default is
// 1 GB on 64-bit; the scenario lowers it so that the demonstration takes milliseconds and megabytes).
const RecursionStackLimit = 8 << 20

// childUnpreparedRecursion: the server answers a QUERY with ERROR/UNPREPARED every time.
// Conn.executeQuery handles `*RequestErrUnprepared` by `return c.executeQuery(ctx, qry)`: one more
// stack frame per answer, no bound. The process dies with `fatal error: stack overflow` (which no
// recover() can catch) once the goroutine stack limit is reached.
func childUnpreparedRecursion(s *srv, cfg *gocql.ClusterConfig, batch bool) {
	// VERIF_C05_RECURSION_STACK=default keeps Go's own limit (1 GB: about 1.9 million round trips)
	if os.Getenv("VERIF_C05_RECURSION_STACK") != "default" {
		debug.SetMaxStack(RecursionStackLimit)
	}
	var mu sync.Mutex
	n := 0
	s.override = func(c *sconn, f *memcluster.Frame, stmt string) bool {
		if (f.Op == memcluster.OpQuery && strings.HasPrefix(stmt, "CREATE ")) || f.Op == memcluster.OpBatch {
			mu.Lock()
			n++
			if n%1000 == 0 {
				fmt.Printf("roundtrips %d\n", n)
			}
			stop := n > 5000000
			mu.Unlock()
			if stop {
				return false
			}
			c.reply(f.Stream, memcluster.OpError, kindBody("unprepared"))
			return true
		}
		return false
	}
	sess, err := gocqlNewSession(cfg)
	if err != nil {
		fmt.Println("result fail:connect")
		return
	}
	defer sess.Close()
	if batch {
		b := sess.NewBatch(gocql.LoggedBatch)
		b.Query("INSERT INTO ks.t (a) VALUES (1)")
		err = sess.ExecuteBatch(b)
	} else {
		err = sess.Query("CREATE TABLE ks.t (a int PRIMARY KEY)").Exec()
	}
	// only reached when the driver bounds the re-execution
	if err != nil {
		fmt.Println("result error")
	} else {
		fmt.Println("result survived")
	}
}

// E2EMain is the subprocess mode: `<harness> e2e beh <site> <kinds>` | `e2e scenario <name>`.
func E2EMain(args []string) {
	if len(args) == 3 && args[0] == "beh" {
		childBeh(args[1], strings.Split(args[2], ","))
		return
	}
	if len(args) == 1 && args[0] == "seq" {
		childSeq()
		return
	}
	if len(args) == 5 && args[0] == "hsc" {
		childHsc(args[1:])
		return
	}
	if len(args) == 4 && args[0] == "hs" {
		childHs(args[1], args[2], args[3])
		return
	}
	if len(args) == 3 && args[0] == "evt" {
		childEvt(args[1], args[2])
		return
	}
	if len(args) == 2 && args[0] == "scenario" {
		childScenario(args[1])
		return
	}
	fmt.Fprintln(os.Stderr, "usage: e2e beh <site> <kind,kind..> | e2e scenario <name> | e2e seq")
	os.Exit(2)
}
