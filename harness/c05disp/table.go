package c05disp

import (
	"sort"
	"strings"
	"sync"
)

// armMatches: does a case arm naming Go type `t` select a value of frame kind `k`?
// (`error` is the interface: both error kinds implement it; everything else is an exact type.)
func armMatches(t, k string) bool {
	if t == kindGoType[k] {
		return true
	}
	if t == "error" {
		return k == "error" || k == "unprepared"
	}
	return false
}

// SiteNames: every site, plus the +nilchallenger pseudo-site of sites that call a tracked
// nil-able callee.
func (t *Table) SiteNames() []string {
	var out []string
	for _, s := range t.Sites {
		out = append(out, s.Name)
		if len(s.Tracked) > 0 {
			out = append(out, s.Name+NilSuffix)
		}
	}
	return out
}

func (t *Table) site(name string) (*Site, bool) {
	nilctx := strings.HasSuffix(name, NilSuffix)
	base := strings.TrimSuffix(name, NilSuffix)
	for _, s := range t.Sites {
		if s.Name == base {
			if nilctx && len(s.Tracked) == 0 {
				return nil, false
			}
			return s, nilctx
		}
	}
	return nil, false
}

// Cell: the extracted outcome of `kind` arriving at `site`:
// handled | ignored | error | crash:<func>:<panic|nil|assert> | other:<why>
func (t *Table) Cell(site, kind string) string {
	if _, ok := kindGoType[kind]; !ok {
		return "bad-op"
	}
	s, nilctx := t.site(site)
	if s == nil {
		return "unknown-site"
	}
	act := "absent"
	hit := false
	for _, a := range s.Arms {
		if a.Default {
			continue
		}
		for _, ty := range a.Types {
			if armMatches(ty, kind) {
				hit = true
			}
		}
		if hit {
			act = a.Act
			if nilctx {
				act = a.NilAct
			}
			break
		}
	}
	if !hit {
		for _, a := range s.Arms {
			if a.Default {
				act = a.Act
				if nilctx {
					act = a.NilAct
				}
			}
		}
	}
	switch act {
	case "handled", "retry":
		return "handled"
	case "error":
		return "error"
	case "log", "absent":
		return "ignored"
	case "panic":
		return "crash:" + s.Func + ":panic"
	case "nilcall":
		return "crash:" + s.Func + ":nil"
	case "assertpanic":
		return "crash:" + s.Func + ":assert"
	}
	return "other:" + act
}

// Arms: the arms of a site as one word: `T1,T2:act|...|default:act` (default:absent if none).
func (t *Table) Arms(site string) string {
	s, nilctx := t.site(site)
	if s == nil {
		return "unknown-site"
	}
	var parts []string
	dflt := "default:absent"
	for _, a := range s.Arms {
		act := a.Act
		if nilctx {
			act = a.NilAct
		}
		if a.Default {
			dflt = "default:" + act
			continue
		}
		parts = append(parts, strings.Join(a.Types, ",")+":"+act)
	}
	parts = append(parts, dflt)
	return s.Form + "|" + strings.Join(parts, "|")
}

// Ctx: how the site's function gets its goroutine.
func (t *Table) Ctx(site string) string {
	s, _ := t.site(site)
	if s == nil {
		return "unknown-site"
	}
	return s.Ctx
}

func joinOrDash(l []string) string {
	if len(l) == 0 {
		return "-"
	}
	return strings.Join(l, ",")
}

// Fact answers `dispfact <name>`.
func (t *Table) Fact(name string) string {
	switch name {
	case "recovers":
		return joinOrDash(t.Recovers)
	case "parseframe-repanics":
		return t.Repanic
	case "event-goroutine":
		var l []string
		for _, g := range t.GoCalls {
			if strings.HasSuffix(g, ":go:handleEvent") {
				l = append(l, g)
			}
		}
		return joinOrDash(l)
	case "go-launched":
		// the go statements the crash argument names: heartbeats, serve, event handling, callbacks
		var l []string
		for _, g := range t.GoCalls {
			for _, n := range []string{":go:heartBeat", ":go:serve", ":go:handleEvent", ":go:callback"} {
				if strings.HasSuffix(g, n) {
					l = append(l, g)
				}
			}
		}
		return joinOrDash(l)
	case "challengers":
		return joinOrDash(t.Challengers)
	case "challenge-nil":
		return joinOrDash(t.ChallengeNil)
	case "error-impls":
		return joinOrDash(t.ErrorImpls)
	case "err-sites":
		return joinOrDash(t.ErrSites)
	case "problems":
		return joinOrDash(t.Problems)
	}
	return "bad-op"
}

// KindsLine: the frame struct types (embedding frameHeader) + error subtypes, sorted.
func (t *Table) KindsLine() string {
	return joinOrDash(t.FrameTypes) + ";" + joinOrDash(t.ErrTypes)
}

func (t *Table) SitesLine() string {
	l := t.SiteNames()
	sort.Strings(l)
	return joinOrDash(l)
}

var (
	tblOnce sync.Once
	tbl     *Table
	tblErr  error
)

// Current extracts (once per process) the table of the gocql source the harness is built against.
func Current() (*Table, error) {
	tblOnce.Do(func() {
		var d string
		d, tblErr = FindGocqlDir()
		if tblErr != nil {
			return
		}
		tbl, tblErr = Extract(d)
	})
	return tbl, tblErr
}
