package c05disp

import (
	"fmt"
	"strings"
	"sync"

	"github.com/gocql/gocql"
	"verifharness/memcluster"
	"verifharness/vh"
)

// Connection set-up as a SEQUENCE of answers (op `hs <auth> <ks> <kind,kind,...|->`): every request of the
// set-up of the FIRST POOL connection of a real session (OPTIONS, STARTUP, each AUTH_RESPONSE, the USE query when
// the session has a keyspace) is answered with the next kind of the script (any of the 18 frame kinds, well-formed);
// when the script is used up the peer answers like a server. auth: none | password (gocql.PasswordAuthenticator)
// | chain (an Authenticator that always hands back a next challenger). Observed: the requests the peer saw on
// that connection in order (O S A Q) and whether the session came up (`up` / `failed`). Model: Model/ConnSetup.lean
// (Dispatch.hsStep + the UseKeyspace row). Runs in a child process (a panic on the set-up goroutine is fatal).

func runHs(auth, ks, script string) string {
	var kinds []string
	if script != "-" {
		kinds = strings.Split(script, ",")
		for _, k := range kinds {
			if _, ok := kindGoType[k]; !ok {
				return "bad-op"
			}
		}
	}
	s := &srv{}
	lg := &logSink{}
	cfg := newCfg(s, lg)
	switch auth {
	case "none":
	case "password":
		cfg.Authenticator = gocql.PasswordAuthenticator{Username: "u", Password: "p"}
	case "chain":
		cfg.Authenticator = chainAuth{}
	default:
		return "bad-op"
	}
	switch ks {
	case "0":
	case "1":
		cfg.Keyspace = "ks"
	default:
		return "bad-op"
	}
	var mu sync.Mutex
	var reqs []string
	next := 0
	s.override = func(c *sconn, f *memcluster.Frame, stmt string) bool {
		if c.id != 2 {
			return false
		}
		r := ""
		switch {
		case f.Op == memcluster.OpOptions && c.count(memcluster.OpStartup) == 0:
			r = "O"
		case f.Op == memcluster.OpStartup:
			r = "S"
		case f.Op == memcluster.OpAuthResponse:
			r = "A"
		case f.Op == memcluster.OpQuery && strings.HasPrefix(stmt, "USE "):
			r = "Q"
		default:
			return false
		}
		mu.Lock()
		reqs = append(reqs, r)
		k := ""
		if next < len(kinds) {
			k = kinds[next]
			next++
		}
		mu.Unlock()
		if k == "" {
			return false
		}
		c.reply(f.Stream, kindOp(k), kindBody(k))
		return true
	}
	sess, err := gocql.NewSession(*cfg)
	res := "up"
	if err != nil {
		res = "failed"
	} else {
		sess.Close()
	}
	mu.Lock()
	defer mu.Unlock()
	return res + ":" + strings.Join(reqs, "")
}

func childHs(auth, ks, script string) {
	fmt.Println("result", runHs(auth, ks, script))
}

// RunHs runs one scenario in a child process.
func RunHs(auth, ks, script string, notes *[]string) string {
	cr := runChild(60*1e9, "hs", auth, ks, script)
	if cr.timedOut {
		return "fail:timeout"
	}
	if cr.code == 0 {
		for _, l := range strings.Split(cr.stdout, "\n") {
			if strings.HasPrefix(l, "result ") {
				return strings.TrimPrefix(l, "result ")
			}
		}
		return "fail:no-result"
	}
	a := ParseCrash(cr.stderr, "")
	if a == "" {
		a = fmt.Sprintf("fail:exit-%d", cr.code)
	}
	if notes != nil {
		*notes = append(*notes, fmt.Sprintf("hs %s %s %s: child exit=%d %s", auth, ks, script, cr.code, a))
	}
	return a
}

func hsExec(w []string) string {
	if len(w) != 4 {
		return "bad-op"
	}
	return RunHs(w[1], w[2], w[3], nil)
}

var hsAuths = []string{"none", "password", "chain"}

// GenHs: the scripts of a run: the paths of record for every authenticator, then random walks that mostly follow
// a plausible set-up (SUPPORTED, READY / AUTHENTICATE, AUTH_CHALLENGE.., AUTH_SUCCESS, RESULT/SetKeyspace) and
// deviate with any of the 18 kinds at any point.
func GenHs(r *vh.Rng, tier string) [][3]string {
	var out [][3]string
	for _, a := range hsAuths {
		for _, ks := range []string{"0", "1"} {
			out = append(out, [3]string{a, ks, "-"},
				[3]string{a, ks, "supported,authenticate"},
				[3]string{a, ks, "supported,authenticate,authChallenge,authChallenge,authSuccess"},
				[3]string{a, ks, "supported,authenticate,authSuccess,resultVoid"},
				[3]string{a, ks, "supported,ready,error"})
		}
	}
	n := 60
	if tier == "thorough" {
		n = 2000
	}
	if tier == "one" {
		out, n = nil, 1
	}
	for i := 0; i < n; i++ {
		a := hsAuths[r.Intn(3)]
		ks := []string{"0", "1"}[r.Intn(2)]
		var sc []string
		for j, m := 0, 1+r.Intn(7); j < m; j++ {
			k := Kinds[r.Intn(len(Kinds))]
			if r.Intn(10) < 7 {
				switch {
				case j == 0:
					k = "supported"
				case j == 1:
					k = []string{"authenticate", "authenticate", "ready"}[r.Intn(3)]
				default:
					k = []string{"authChallenge", "authChallenge", "authSuccess", "resultKeyspace"}[r.Intn(4)]
				}
			}
			sc = append(sc, k)
		}
		out = append(out, [3]string{a, ks, strings.Join(sc, ",")})
	}
	return out
}

// CollectHs runs the scripts in child processes.
func CollectHs(scs [][3]string, workers int, notes *[]string) []string {
	res := make([]string, len(scs))
	var nmu sync.Mutex
	var wg sync.WaitGroup
	sem := make(chan struct{}, workers)
	for i := range scs {
		wg.Add(1)
		go func(i int) {
			defer wg.Done()
			sem <- struct{}{}
			defer func() { <-sem }()
			var n []string
			res[i] = RunHs(scs[i][0], scs[i][1], scs[i][2], &n)
			nmu.Lock()
			*notes = append(*notes, n...)
			nmu.Unlock()
		}(i)
	}
	wg.Wait()
	return res
}

func EmitHs(scs [][3]string, res []string, emit func(op, impl, class string, nontrivial bool)) {
	for i, sc := range scs {
		emit("hs "+sc[0]+" "+sc[1]+" "+sc[2], res[i], "hs/"+sc[0]+"/"+strings.SplitN(res[i], ":", 2)[0], true)
	}
}
