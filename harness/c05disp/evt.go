package c05disp

import (
	"bufio"
	"bytes"
	"fmt"
	"os"
	"runtime"
	"sort"
	"strconv"
	"strings"
	"sync"
	"time"

	"github.com/gocql/gocql"
	"verifharness/memcluster"
	"verifharness/vh"
)

// Event tier of the C05 harness: frames on stream -1 (well-formed EVENTs of every kind, well-formed frames
// that are no events, unparsable ones) pushed at a session built by the REAL gocql.NewSession, for EVERY
// configuration of ClusterConfig.Events (Disable{Topology,NodeStatus,Schema}Events: what the session
// registered for does not bind the peer), on the control connection or a pool connection, during the
// connection handshake (before OPTIONS / STARTUP / REGISTER is answered) or afterwards, in ROUNDS:
//
//	evt <cfg> <round>/<round>/...      cfg = three 0/1 digits: DisableTopologyEvents, DisableNodeStatusEvents,
//	                                   DisableSchemaEvents
//	round = <step>,<step>,... | -      step = <where><event>[*<n>]
//	where: o s r  control connection, when its OPTIONS / STARTUP / REGISTER request arrives (round 0 only)
//	       O S    the first pool connection, when its OPTIONS / STARTUP arrives (round 0 only)
//	       c p    control / pool connection of the running session (rounds >= 1)
//	event: skC skU skD  SCHEMA_CHANGE KEYSPACE created / updated / dropped;  st sy sf sa  TABLE TYPE FUNCTION AGGREGATE
//	       u<h> d<h>    STATUS_CHANGE UP / DOWN of host h (0 = 127.0.0.1, the node of the session; 9 = 127.0.0.9, unknown)
//	       n<h> r<h> m<h>  TOPOLOGY_CHANGE NEW_NODE / REMOVED_NODE / MOVED_NODE
//	       x<kind>      a well-formed frame of one of the other 11 kinds (READY, SUPPORTED, RESULT, ERROR, ...)
//	       g  gi        unknown event type; STATUS_CHANGE whose inet is cut short
//
// Each round is run to quiescence by STATE, not by time: every pushed frame is accounted for (buffered in
// one of the two debouncers, or logged as invalid / unparsable / dropped); then the debounce timers the
// driver armed are made to expire now (hook VerifC05fKickEvents: the driver's own flusher goroutine runs the
// driver's own callback handleSchemaEvent / handleNodeEvent), the handlers are awaited by goroutine dump,
// then the ring-refresh debounce timer likewise (VerifC05fKickRingRefresh). What is observed per round:
//
//	buf=<node>,<schema>   frames in the two debouncers after the pushes (-1: no such debouncer)
//	log=<invalid>,<parse>,<dropped>   log lines of handleEvent / debounce
//	armed=<node><schema>  which debounce timers were armed
//	fx=<effects>          calls of the host selection policy made by the handlers (sorted): KC:<ks>:<change>
//	                      AH/RH/HU/HD:<ip>; AG = schema-agreement queries seen on the control connection
//	refresh=<0|1>         the ring-refresh timer was armed by the handlers (and the refresh then ran)
//	host=<up|down>/<pool|nopool>   the session's node afterwards
//
// The Lean model (Model/EventFlow.lean, op `evt`) predicts the same line; a process that dies gives
// `crash:<func>:<kind>` (scenarios run in child processes, like the behavioural cells).

type recPolicy struct {
	gocql.HostSelectionPolicy
	mu sync.Mutex
	ev []string
}

func (p *recPolicy) rec(s string) {
	p.mu.Lock()
	p.ev = append(p.ev, s)
	p.mu.Unlock()
}
func (p *recPolicy) take() []string {
	p.mu.Lock()
	defer p.mu.Unlock()
	e := p.ev
	p.ev = nil
	return e
}
func (p *recPolicy) AddHost(h *gocql.HostInfo) {
	p.rec("AH:" + h.ConnectAddress().String())
	p.HostSelectionPolicy.AddHost(h)
}
func (p *recPolicy) RemoveHost(h *gocql.HostInfo) {
	p.rec("RH:" + h.ConnectAddress().String())
	p.HostSelectionPolicy.RemoveHost(h)
}
func (p *recPolicy) HostUp(h *gocql.HostInfo) {
	p.rec("HU:" + h.ConnectAddress().String())
	p.HostSelectionPolicy.HostUp(h)
}
func (p *recPolicy) HostDown(h *gocql.HostInfo) {
	p.rec("HD:" + h.ConnectAddress().String())
	p.HostSelectionPolicy.HostDown(h)
}
func (p *recPolicy) KeyspaceChanged(e gocql.KeyspaceUpdateEvent) {
	p.rec("KC:" + e.Keyspace + ":" + e.Change)
	p.HostSelectionPolicy.KeyspaceChanged(e)
}

type evtStep struct {
	where byte
	ev    string
	n     int
}

func parseEvtScript(s string) (rounds [][]evtStep, ok bool) {
	for ri, r := range strings.Split(s, "/") {
		var steps []evtStep
		if r != "-" {
			for _, t := range strings.Split(r, ",") {
				n := 1
				if i := strings.IndexByte(t, '*'); i >= 0 {
					v, err := strconv.Atoi(t[i+1:])
					if err != nil || v < 1 || v > 5000 {
						return nil, false
					}
					n, t = v, t[:i]
				}
				if len(t) < 2 {
					return nil, false
				}
				wh := t[0]
				if ri == 0 && !strings.ContainsRune("osrOS", rune(wh)) || ri > 0 && wh != 'c' && wh != 'p' {
					return nil, false
				}
				if _, _, good := evtFrame(t[1:]); !good {
					return nil, false
				}
				steps = append(steps, evtStep{wh, t[1:], n})
			}
		}
		rounds = append(rounds, steps)
	}
	return rounds, len(rounds) >= 1
}

func evtHostIP(h byte) ([]byte, bool) {
	switch h {
	case '0':
		return []byte{127, 0, 0, 1}, true
	case '9':
		return []byte{127, 0, 0, 9}, true
	}
	return nil, false
}

var evtSchemaTargets = map[byte]string{'k': "KEYSPACE", 't': "TABLE", 'y': "TYPE", 'f': "FUNCTION", 'a': "AGGREGATE"}
var evtChanges = map[byte]string{'C': "CREATED", 'U': "UPDATED", 'D': "DROPPED"}

// evtFrame: the frame (opcode, body) of an event token.
func evtFrame(ev string) (op byte, body []byte, ok bool) {
	w := &memcluster.W{}
	inet := func(ip []byte) {
		w.Byte(byte(len(ip)))
		w.B = append(w.B, ip...)
		w.Int(9042)
	}
	switch {
	case ev == "g":
		w.String("FOO_CHANGE")
		return memcluster.OpEvent, w.B, true
	case ev == "gi":
		w.String("STATUS_CHANGE")
		w.String("UP")
		w.Byte(16)
		w.B = append(w.B, 0xfe, 0x80)
		return memcluster.OpEvent, w.B, true
	case ev[0] == 's' && len(ev) >= 2:
		target, good := evtSchemaTargets[ev[1]]
		if !good {
			return 0, nil, false
		}
		change := "CREATED"
		if ev[1] == 'k' {
			if len(ev) != 3 {
				return 0, nil, false
			}
			change, good = evtChanges[ev[2]]
			if !good {
				return 0, nil, false
			}
		} else if len(ev) != 2 {
			return 0, nil, false
		}
		w.String("SCHEMA_CHANGE")
		w.String(change)
		w.String(target)
		w.String("ks")
		switch target {
		case "TABLE", "TYPE":
			w.String("t")
		case "FUNCTION", "AGGREGATE":
			w.String("f")
			w.StringList([]string{"int"})
		}
		return memcluster.OpEvent, w.B, true
	case (ev[0] == 'u' || ev[0] == 'd') && len(ev) == 2:
		ip, good := evtHostIP(ev[1])
		if !good {
			return 0, nil, false
		}
		w.String("STATUS_CHANGE")
		if ev[0] == 'u' {
			w.String("UP")
		} else {
			w.String("DOWN")
		}
		inet(ip)
		return memcluster.OpEvent, w.B, true
	case (ev[0] == 'n' || ev[0] == 'r' || ev[0] == 'm') && len(ev) == 2:
		ip, good := evtHostIP(ev[1])
		if !good {
			return 0, nil, false
		}
		w.String("TOPOLOGY_CHANGE")
		w.String(map[byte]string{'n': "NEW_NODE", 'r': "REMOVED_NODE", 'm': "MOVED_NODE"}[ev[0]])
		inet(ip)
		return memcluster.OpEvent, w.B, true
	case ev[0] == 'x':
		k := ev[1:]
		if _, good := kindGoType[k]; !good {
			return 0, nil, false
		}
		// the event kinds too: schema changes as RESULT/SCHEMA_CHANGE (a response body where an EVENT is due),
		// statusChange = UP 127.0.0.9, topologyChange = NEW_NODE 127.0.0.9
		return kindOp(k), kindBody(k), true
	}
	return 0, nil, false
}

type evtWorld struct {
	s    *srv
	lg   *logSink
	pol  *recPolicy
	sess *gocql.Session

	mu     sync.Mutex
	hs     map[byte][]evtStep // handshake-time pushes, by where
	pushed int
	agree  int // `schema_version FROM system.local` seen on any connection
	rings  int // `SELECT * FROM system.local` seen after the handshake of the control connection
	closed map[int]bool
	// log lines already accounted for
	nInvalid, nParse, nDrop int
}

func (w *evtWorld) push(c *sconn, st evtStep) {
	op, body, _ := evtFrame(st.ev)
	for i := 0; i < st.n; i++ {
		c.reply(-1, op, body)
	}
	w.mu.Lock()
	w.pushed += st.n
	w.mu.Unlock()
}

func (w *evtWorld) override(c *sconn, f *memcluster.Frame, stmt string) bool {
	var wh byte
	first := c.count(f.Op) == 1
	switch {
	case c.id == 1 && f.Op == memcluster.OpOptions && first && c.count(memcluster.OpStartup) == 0:
		wh = 'o'
	case c.id == 1 && f.Op == memcluster.OpStartup && first:
		wh = 's'
	case c.id == 1 && f.Op == memcluster.OpRegister && first:
		wh = 'r'
	case c.id == 2 && f.Op == memcluster.OpOptions && first && c.count(memcluster.OpStartup) == 0:
		wh = 'O'
	case c.id == 2 && f.Op == memcluster.OpStartup && first:
		wh = 'S'
	}
	if wh != 0 {
		w.mu.Lock()
		steps := w.hs[wh]
		delete(w.hs, wh)
		w.mu.Unlock()
		for _, st := range steps {
			w.push(c, st)
		}
	}
	if f.Op == memcluster.OpQuery {
		w.mu.Lock()
		switch {
		case strings.Contains(stmt, "schema_version FROM system.local"):
			w.agree++
		case strings.Contains(stmt, "FROM system.local"):
			w.rings++
		}
		w.mu.Unlock()
	}
	return false
}

func (l *logSink) count(s string) int {
	l.mu.Lock()
	defer l.mu.Unlock()
	return strings.Count(l.b.String(), s)
}

var evtBusyMarkers = []string{"handleSchemaEvent", "handleNodeEvent", "handleNodeConnected", "handleKeyspaceChange",
	"(*hostConnPool).fill", "(*hostConnPool).connect", "(*hostConnPool).Close", "startPoolFill", "awaitSchemaAgreement",
	"(*eventDebouncer).flush(", "refreshRing", "(*ringDescriber).GetHosts", "handleNodeUp", "handleNodeDown"}

// evtBusy: some driver goroutine is inside an event handler / pool fill / ring refresh.
func evtBusy(buf []byte) bool {
	n := runtime.Stack(buf, true)
	dump := buf[:n]
	for _, g := range bytes.Split(dump, []byte("\n\n")) {
		if bytes.Contains(g, []byte("c05disp.evtBusy")) {
			continue
		}
		for _, m := range evtBusyMarkers {
			if bytes.Contains(g, []byte(m)) {
				return true
			}
		}
	}
	return false
}

const evtWatchdog = 20 * time.Second

// waitIdle: two consecutive dumps without a busy goroutine.
func evtWaitIdle(buf []byte, dl time.Time) bool {
	calm := 0
	for time.Now().Before(dl) {
		if evtBusy(buf) {
			calm = 0
		} else {
			calm++
			if calm >= 2 {
				return true
			}
		}
		time.Sleep(500 * time.Microsecond)
	}
	return false
}

func (w *evtWorld) poolConn() *sconn {
	w.s.mu.Lock()
	defer w.s.mu.Unlock()
	for i := len(w.s.conns) - 1; i >= 0; i-- {
		c := w.s.conns[i]
		if c.id != 1 && !c.dead && c.seen[memcluster.OpStartup] > 0 {
			return c
		}
	}
	return nil
}

// accounted: what became of the frames pushed in this round so far.
func (w *evtWorld) accounted() (node, schema, inv, par, drop, got int) {
	node, schema = gocql.VerifC05fEventBuffers(w.sess)
	inv = w.lg.count("invalid event frame") - w.nInvalid
	par = w.lg.count("unable to parse event frame") - w.nParse
	drop = w.lg.count("buffer full, dropping event frame") - w.nDrop
	got = inv + par + drop
	if node > 0 {
		got += node
	}
	if schema > 0 {
		got += schema
	}
	return
}

// waitAccounted: every frame pushed in this round so far went through handleEvent (it sits in a debouncer
// or was logged). Frames are pushed one step at a time so that frames on different connections reach the
// debouncers in script order.
func (w *evtWorld) waitAccounted(dl time.Time) bool {
	w.mu.Lock()
	want := w.pushed
	w.mu.Unlock()
	for {
		if _, _, _, _, _, got := w.accounted(); got >= want {
			return true
		}
		if time.Now().After(dl) {
			return false
		}
		time.Sleep(100 * time.Microsecond)
	}
}

// settle runs the round to quiescence and returns its observation line.
func (w *evtWorld) settle(start time.Time, skipped int) string {
	buf := make([]byte, 4<<20)
	dl := time.Now().Add(evtWatchdog)
	// 1. every pushed frame is accounted for
	if !w.waitAccounted(dl) {
		_, _, _, _, _, got := w.accounted()
		return fmt.Sprintf("fail:settle-push:%d/%d", got, w.pushed)
	}
	w.mu.Lock()
	w.pushed = 0
	w.mu.Unlock()
	node, schema, inv, par, drop, _ := w.accounted()
	if time.Since(start) > 600*time.Millisecond {
		// the driver's own one-second debounce timers may have fired in between: not a reading
		return "ambiguous"
	}
	w.nInvalid += inv
	w.nParse += par
	w.nDrop += drop
	out := fmt.Sprintf("buf=%d,%d log=%d,%d,%d", node, schema, inv, par, drop)
	if skipped > 0 {
		out += fmt.Sprintf(" skipped=%d", skipped)
	}
	// 2. the debounce timers expire now; the driver's flushers run the driver's handlers
	ka, kb := gocql.VerifC05fKickEvents(w.sess)
	b2i := func(b bool) int {
		if b {
			return 1
		}
		return 0
	}
	out += fmt.Sprintf(" armed=%d%d", b2i(ka), b2i(kb))
	for ka || kb {
		n, s := gocql.VerifC05fEventBuffers(w.sess)
		if n <= 0 && s <= 0 {
			break
		}
		if time.Now().After(dl) {
			return "fail:settle-flush"
		}
		time.Sleep(200 * time.Microsecond)
	}
	if !evtWaitIdle(buf, dl) {
		return "fail:settle-handlers"
	}
	// 3. the ring refresh the handlers asked for
	w.mu.Lock()
	rings0 := w.rings
	w.mu.Unlock()
	kr := gocql.VerifC05fKickRingRefresh(w.sess)
	if kr {
		for {
			w.mu.Lock()
			r := w.rings
			w.mu.Unlock()
			if r > rings0 {
				break
			}
			if time.Now().After(dl) {
				return "fail:settle-refresh"
			}
			time.Sleep(200 * time.Microsecond)
		}
		if !evtWaitIdle(buf, dl) {
			return "fail:settle-refresh-end"
		}
	}
	fx := w.pol.take()
	w.mu.Lock()
	for i := 0; i < w.agree; i++ {
		fx = append(fx, "AG")
	}
	w.agree = 0
	w.mu.Unlock()
	sort.Strings(fx)
	fxs := "-"
	if len(fx) > 0 {
		fxs = strings.Join(fx, "+")
	}
	out += fmt.Sprintf(" fx=%s refresh=%d host=%s", fxs, b2i(kr), gocql.VerifC05fHostState(w.sess, "127.0.0.1"))
	return out
}

// gone: the connection's pipe was closed (by either side).
func (c *sconn) gone() bool {
	c.s.mu.Lock()
	defer c.s.mu.Unlock()
	return c.dead
}

// runEvt runs one scenario; progress (one line per finished round) goes to pr.
func runEvt(cfgw, script string, pr func(string)) string {
	if len(cfgw) != 3 || strings.Trim(cfgw, "01") != "" {
		return "bad-op"
	}
	rounds, ok := parseEvtScript(script)
	if !ok {
		return "bad-op"
	}
	s := &srv{}
	lg := &logSink{}
	cfg := newCfg(s, lg)
	cfg.ConnectTimeout = 3 * time.Second
	cfg.DisableInitialHostLookup = false // the ring comes from system.local / system.peers, host ids are the node's
	cfg.Events.DisableTopologyEvents = cfgw[0] == '1'
	cfg.Events.DisableNodeStatusEvents = cfgw[1] == '1'
	cfg.Events.DisableSchemaEvents = cfgw[2] == '1'
	pol := &recPolicy{HostSelectionPolicy: gocql.RoundRobinHostPolicy()}
	cfg.PoolConfig.HostSelectionPolicy = pol
	w := &evtWorld{s: s, lg: lg, pol: pol, hs: map[byte][]evtStep{}, closed: map[int]bool{}}
	for _, st := range rounds[0] {
		w.hs[st.where] = append(w.hs[st.where], st)
	}
	s.override = w.override
	start := time.Now()
	sess, err := gocql.NewSession(*cfg)
	if err != nil {
		// a frame on stream -1 while a connection is being set up uses up the one recv() the startup
		// coordinator grants per request: the answer proper is never read, the handshake times out
		if os.Getenv("VERIF_C05_EVT_DEBUG") != "" {
			fmt.Fprintln(os.Stderr, "NewSession:", err)
		}
		return "connect-error"
	}
	defer sess.Close()
	w.sess = sess
	if !evtWaitIdle(make([]byte, 4<<20), time.Now().Add(evtWatchdog)) {
		return "fail:settle-init"
	}
	// handshake steps whose request never came (REGISTER is not sent when every event kind is disabled)
	w.mu.Lock()
	undelivered := 0
	for _, sts := range w.hs {
		for _, st := range sts {
			undelivered += st.n
		}
	}
	w.hs = map[byte][]evtStep{}
	w.agree = 0
	w.mu.Unlock()
	pol.take() // the policy calls of NewSession itself are not part of the observation
	var res []string
	for ri := range rounds {
		skipped := undelivered
		undelivered = 0
		if ri > 0 {
			start = time.Now()
			for _, st := range rounds[ri] {
				var c *sconn
				if st.where == 'c' {
					c = s.conn(1)
				} else {
					c = w.poolConn()
				}
				if c == nil || c.gone() {
					skipped += st.n
					continue
				}
				w.push(c, st)
				if !w.waitAccounted(time.Now().Add(evtWatchdog)) {
					return "fail:settle-step"
				}
			}
		}
		o := w.settle(start, skipped)
		if strings.HasPrefix(o, "fail:") || o == "ambiguous" {
			return o
		}
		res = append(res, strings.ReplaceAll(o, " ", ";"))
		if pr != nil {
			pr(fmt.Sprintf("round %d %s", ri, res[len(res)-1]))
		}
	}
	if os.Getenv("VERIF_C05_EVT_DEBUG") != "" {
		lg.mu.Lock()
		fmt.Fprintln(os.Stderr, lg.b.String())
		lg.mu.Unlock()
	}
	return strings.Join(res, "|")
}

// childEvt: `e2e evt <cfg> <script>`.
func childEvt(cfgw, script string) {
	out := bufio.NewWriter(os.Stdout)
	r := runEvt(cfgw, script, func(l string) { fmt.Fprintln(out, l); out.Flush() })
	fmt.Fprintln(out, "result", r)
	out.Flush()
	time.Sleep(10 * time.Millisecond)
}

// RunEvt runs one scenario in a child process.
func RunEvt(cfgw, script string, notes *[]string) string {
	a, _ := runEvtChild(cfgw, script, notes)
	return a
}

// runEvtChild also tells how many rounds the child completed (what it was doing when it died is the next one).
func runEvtChild(cfgw, script string, notes *[]string) (answer string, roundsDone int) {
	for try := 0; ; try++ {
		cr := runChild(90*time.Second, "evt", cfgw, script)
		done := strings.Count(cr.stdout, "\nround ")
		if strings.HasPrefix(cr.stdout, "round ") {
			done++
		}
		if cr.timedOut {
			return "fail:timeout", done
		}
		if cr.code == 0 {
			for _, l := range strings.Split(cr.stdout, "\n") {
				if strings.HasPrefix(l, "result ") {
					a := strings.TrimPrefix(l, "result ")
					if a == "ambiguous" && try < 3 {
						a = ""
					}
					if a != "" {
						return a, done
					}
				}
			}
			if try < 3 {
				continue
			}
			return "fail:no-result", done
		}
		a := ParseCrash(cr.stderr, "")
		if a == "" {
			a = fmt.Sprintf("fail:exit-%d", cr.code)
		}
		if notes != nil {
			*notes = append(*notes, fmt.Sprintf("evt %s %s: child exit=%d %s", cfgw, script, cr.code, a))
		}
		return a, done
	}
}

// evtInv: the monitor of op `evtinv` over an observation: the process lived and no debouncer ever held more
// than eventBufferSize (1000) frames.
func evtInv(res string) string {
	if strings.HasPrefix(res, "crash:") || strings.HasPrefix(res, "fail:") || res == "bad-op" {
		return res
	}
	if res == "connect-error" {
		return "ok"
	}
	for _, r := range strings.Split(res, "|") {
		for _, f := range strings.Split(r, ";") {
			if strings.HasPrefix(f, "buf=") {
				for _, n := range strings.Split(strings.TrimPrefix(f, "buf="), ",") {
					v, err := strconv.Atoi(n)
					if err != nil {
						return "fail:observation"
					}
					if v > 1000 {
						return "bad:buffer-over"
					}
				}
			}
		}
	}
	return "ok"
}

func evtExec(w []string) string {
	if len(w) != 3 {
		return "bad-op"
	}
	if _, ok := parseEvtScript(w[2]); !ok || len(w[1]) != 3 || strings.Trim(w[1], "01") != "" {
		return "bad-op"
	}
	r := RunEvt(w[1], w[2], nil)
	if w[0] == "evtinv" {
		return evtInv(r)
	}
	return r
}

var evtCfgs = []string{"000", "001", "010", "011", "100", "101", "110", "111"}

// every token of the event alphabet
var evtAlphabet = func() []string {
	a := []string{"skC", "skU", "skD", "st", "sy", "sf", "sa", "u0", "u9", "d9", "n0", "n9", "r0", "r9", "m0", "m9", "g", "gi"}
	for _, k := range Kinds {
		a = append(a, "x"+k)
	}
	return append(a, "d0")
}()

// evtMatrix: EVERY token on the control and on the pool connection, a round each (DOWN of the session's own node
// last, then UP again and once more the three families on the new pool connection).
func evtMatrix() string {
	rs := []string{"-"}
	for _, t := range evtAlphabet {
		rs = append(rs, "c"+t+",p"+t)
	}
	rs = append(rs, "pskC,pu9,pn9", "cu0", "pskD,pd9,pr9,pxready,pg")
	return strings.Join(rs, "/")
}

// EvtScenario: cfg and script.
type EvtScenario struct{ Cfg, Script, Class string }

func genEvtRandom(r *vh.Rng) EvtScenario {
	cfg := evtCfgs[r.Intn(len(evtCfgs))]
	var rs []string
	// round 0: REGISTER-time frames, sometimes
	if r.Intn(3) == 0 {
		var st []string
		for i, n := 0, 1+r.Intn(3); i < n; i++ {
			st = append(st, "r"+evtAlphabet[r.Intn(len(evtAlphabet))])
		}
		rs = append(rs, strings.Join(st, ","))
	} else {
		rs = append(rs, "-")
	}
	for i, n := 0, 2+r.Intn(5); i < n; i++ {
		var st []string
		for j, m := 0, 1+r.Intn(5); j < m; j++ {
			t := string("cp"[r.Intn(2)]) + evtAlphabet[r.Intn(len(evtAlphabet))]
			switch r.Intn(12) {
			case 0:
				t += fmt.Sprintf("*%d", []int{999, 1000, 1001, 1005}[r.Intn(4)])
			case 1:
				t += fmt.Sprintf("*%d", 2+r.Intn(4))
			}
			st = append(st, t)
		}
		rs = append(rs, strings.Join(st, ","))
	}
	return EvtScenario{cfg, strings.Join(rs, "/"), "evt/random"}
}

// GenEvt: the scenarios of a run.
func GenEvt(r *vh.Rng, tier string) []EvtScenario {
	var out []EvtScenario
	m := evtMatrix()
	for _, c := range evtCfgs {
		// every configuration x every frame kind x both connection kinds
		out = append(out, EvtScenario{c, m, "evt/matrix"})
		// every configuration: the three families when REGISTER arrives (not sent when all are disabled)
		out = append(out, EvtScenario{c, "rskC,ru9,rn9,ru0,rxsupported/cskU", "evt/register"})
	}
	// frames while OPTIONS / STARTUP of the control or of a pool connection are outstanding (each costs the
	// connect timeout): quick = each point once with a configuration and a family chosen by the seed,
	// thorough = the product
	fam := []string{"skC", "u9", "n9", "xready", "g"}
	for _, wh := range []string{"o", "s", "O", "S"} {
		if tier == "thorough" {
			for _, c := range evtCfgs {
				for _, f := range fam[:3] {
					out = append(out, EvtScenario{c, wh + f + "/-", "evt/handshake"})
				}
			}
			continue
		}
		c := evtCfgs[r.Intn(len(evtCfgs))]
		f := fam[r.Intn(len(fam))]
		out = append(out, EvtScenario{c, wh + f + "," + wh + fam[r.Intn(3)] + "/-", "evt/handshake"})
	}
	// the buffer bound, both debouncers
	out = append(out, EvtScenario{evtCfgs[r.Intn(8)], "-/cu9*1000,pskC/cskC*1001,cd9*1005/pst*999,cst,cst", "evt/buffer"})
	n := 16
	if tier == "thorough" {
		n = 400
	}
	for i := 0; i < n; i++ {
		out = append(out, genEvtRandom(r))
	}
	return out
}

// CollectEvt runs the scenarios in child processes, `workers` at a time.
func CollectEvt(scs []EvtScenario, workers int, notes *[]string) []string {
	res := make([]string, len(scs))
	var nmu sync.Mutex
	var wg sync.WaitGroup
	sem := make(chan struct{}, workers)
	for i := range scs {
		wg.Add(1)
		go func(i int) {
			defer wg.Done()
			sem <- struct{}{}
			defer func() { <-sem }()
			var n []string
			var done int
			res[i], done = runEvtChild(scs[i].Cfg, scs[i].Script, &n)
			if strings.HasPrefix(res[i], "crash:") {
				// the failing input: the rounds up to the one the process died in
				if rs := strings.Split(scs[i].Script, "/"); done+1 < len(rs) {
					scs[i].Script = strings.Join(rs[:done+1], "/")
				}
			}
			nmu.Lock()
			*notes = append(*notes, n...)
			nmu.Unlock()
		}(i)
	}
	wg.Wait()
	return res
}

// EmitEvt emits op lines `evt` (the observation) and `evtinv` (the monitor).
func EmitEvt(scs []EvtScenario, res []string, emit func(op, impl, class string, nontrivial bool)) {
	for i, sc := range scs {
		cls := sc.Class + "/" + strings.SplitN(res[i], ":", 2)[0]
		if !strings.HasPrefix(res[i], "crash:") && !strings.HasPrefix(res[i], "fail:") && res[i] != "connect-error" {
			cls = sc.Class + "/ok"
		}
		emit("evt "+sc.Cfg+" "+sc.Script, res[i], cls, true)
		emit("evtinv "+sc.Cfg+" "+sc.Script, evtInv(res[i]), sc.Class+"/inv", true)
	}
}
