package c05disp

import (
	"bufio"
	"fmt"
	"os"
	"strings"
	"sync"
	"time"

	"github.com/gocql/gocql"
	"verifharness/memcluster"
)

// Child side of the behavioural tie: drive ONE table cell through the real driver (a real
// gocql.Session on the scripted in-memory server) and report what was observed:
//   handled   the operation returned no error (event: nothing logged, connection still works)
//   error     the operation returned an error
//   ignored   (events) "invalid event frame" was logged, the connection still works
//   alive     (heartbeats) the heartbeat got its answer and the process is still alive
// A process-fatal panic is not reported by the child at all: the parent sees the exit status and
// the stack trace (e2e.go).

// logSink is a gocql.StdLogger that keeps everything.
type logSink struct {
	mu sync.Mutex
	b  strings.Builder
}

func (l *logSink) Print(v ...interface{}) {
	l.mu.Lock()
	l.b.WriteString(fmt.Sprint(v...))
	l.mu.Unlock()
}
func (l *logSink) Printf(format string, v ...interface{}) {
	l.mu.Lock()
	fmt.Fprintf(&l.b, format, v...)
	l.mu.Unlock()
}
func (l *logSink) Println(v ...interface{}) {
	l.mu.Lock()
	l.b.WriteString(fmt.Sprintln(v...))
	l.mu.Unlock()
}
func (l *logSink) has(s string) bool {
	l.mu.Lock()
	defer l.mu.Unlock()
	return strings.Contains(l.b.String(), s)
}

// chainAuth is a user Authenticator that always hands back a non-nil next challenger.
type chainAuth struct{}

func (a chainAuth) Challenge(req []byte) ([]byte, gocql.Authenticator, error) {
	return []byte("resp"), a, nil
}
func (a chainAuth) Success(data []byte) error { return nil }

func newCfg(s *srv, lg *logSink) *gocql.ClusterConfig {
	cfg := gocql.NewCluster("127.0.0.1")
	cfg.ProtoVersion = proto
	cfg.HostDialer = s
	cfg.NumConns = 1
	cfg.Timeout = 10 * time.Second
	cfg.ConnectTimeout = 10 * time.Second
	cfg.DisableInitialHostLookup = true
	cfg.ReconnectInterval = 0
	cfg.WriteCoalesceWaitTime = 0
	cfg.MaxWaitSchemaAgreement = 2 * time.Second
	cfg.Logger = lg
	cfg.Consistency = gocql.One
	cfg.PoolConfig.HostSelectionPolicy = gocql.RoundRobinHostPolicy()
	cfg.ReconnectionPolicy = &gocql.ConstantReconnectionPolicy{MaxRetries: 1, Interval: time.Millisecond}
	return cfg
}

func gocqlNewSession(cfg *gocql.ClusterConfig) (*gocql.Session, error) { return gocql.NewSession(*cfg) }

func errStr(err error) string {
	if err != nil {
		return "error"
	}
	return "handled"
}

// once returns an override that answers the first request matching `match` with a frame of `kind`.
func once(kind string, match func(c *sconn, f *memcluster.Frame, stmt string) bool) func(c *sconn, f *memcluster.Frame, stmt string) bool {
	var mu sync.Mutex
	done := false
	return func(c *sconn, f *memcluster.Frame, stmt string) bool {
		if !match(c, f, stmt) {
			return false
		}
		mu.Lock()
		d := done
		done = true
		mu.Unlock()
		if d {
			return false
		}
		c.reply(f.Stream, kindOp(kind), kindBody(kind))
		return true
	}
}

// RunCell drives one cell. The result is one word.
func RunCell(site, kind string) (res string) {
	if _, ok := kindGoType[kind]; !ok {
		return "bad-op"
	}
	// a panic on THIS goroutine (a site that runs on the caller's goroutine) is classified the way
	// the application would see it; panics on driver goroutines kill the process.
	crash := guardCaller(func() { res = runCell(site, kind) })
	if crash != "" {
		return "caller-" + crash
	}
	return res
}

func runCell(site, kind string) string {
	s := &srv{}
	lg := &logSink{}
	cfg := newCfg(s, lg)
	opIs := func(op byte) func(c *sconn, f *memcluster.Frame, stmt string) bool {
		return func(c *sconn, f *memcluster.Frame, stmt string) bool { return f.Op == op }
	}
	connect := func() (*gocql.Session, string) {
		sess, err := gocql.NewSession(*cfg)
		if err != nil {
			return nil, "error"
		}
		return sess, "handled"
	}
	switch site {
	case "startupCoordinator.options":
		s.override = once(kind, opIs(memcluster.OpOptions))
		sess, r := connect()
		if sess != nil {
			sess.Close()
		}
		return r
	case "startupCoordinator.startup":
		cfg.Authenticator = chainAuth{}
		s.override = once(kind, opIs(memcluster.OpStartup))
		sess, r := connect()
		if sess != nil {
			sess.Close()
		}
		return r
	case "startupCoordinator.authenticateHandshake", "startupCoordinator.authenticateHandshake" + NilSuffix:
		if strings.HasSuffix(site, NilSuffix) {
			cfg.Authenticator = gocql.PasswordAuthenticator{Username: "u", Password: "p"}
		} else {
			cfg.Authenticator = chainAuth{}
		}
		s.authClass = passwordClass
		s.override = once(kind, opIs(memcluster.OpAuthResponse))
		sess, r := connect()
		if sess != nil {
			sess.Close()
		}
		return r
	case "controlConn.registerEvents":
		s.override = once(kind, opIs(memcluster.OpRegister))
		sess, r := connect()
		if sess != nil {
			sess.Close()
		}
		return r
	case "Conn.UseKeyspace":
		cfg.Keyspace = "ks"
		s.override = once(kind, func(c *sconn, f *memcluster.Frame, stmt string) bool {
			return f.Op == memcluster.OpQuery && strings.HasPrefix(stmt, "USE ")
		})
		sess, r := connect()
		if sess != nil {
			sess.Close()
		}
		return r
	case "Conn.prepareStatement":
		sess, r := connect()
		if sess == nil {
			return "fail:connect-" + r
		}
		defer sess.Close()
		s.mu.Lock()
		s.override = once(kind, opIs(memcluster.OpPrepare))
		s.mu.Unlock()
		return errStr(sess.Query("INSERT INTO ks.t (a) VALUES (?)", 1).Exec())
	case "Conn.executeQuery", "Conn.executeQueryAttempt":
		sess, r := connect()
		if sess == nil {
			return "fail:connect-" + r
		}
		defer sess.Close()
		s.mu.Lock()
		s.override = once(kind, func(c *sconn, f *memcluster.Frame, stmt string) bool {
			return f.Op == memcluster.OpQuery && strings.HasPrefix(stmt, "CREATE ")
		})
		s.mu.Unlock()
		return errStr(sess.Query("CREATE TABLE ks.t (a int PRIMARY KEY)").Exec())
	case "Conn.executeBatch", "Conn.executeBatchAttempt":
		sess, r := connect()
		if sess == nil {
			return "fail:connect-" + r
		}
		defer sess.Close()
		s.mu.Lock()
		s.override = once(kind, opIs(memcluster.OpBatch))
		s.mu.Unlock()
		b := sess.NewBatch(gocql.LoggedBatch)
		b.Query("INSERT INTO ks.t (a) VALUES (1)")
		return errStr(sess.ExecuteBatch(b))
	case "Session.handleEvent":
		sess, r := connect()
		if sess == nil {
			return "fail:connect-" + r
		}
		defer sess.Close()
		// push the frame on stream -1 of the pool connection (the last one dialled)
		c := s.conn(s.numConns())
		op, body := eventFrame(kind)
		c.reply(-1, op, body)
		// the frame is parsed and dispatched on a goroutine of its own: wait for the log line of the
		// default arm, at most a grace period, then check the connection is still usable
		waitLog := func() {
			dl := time.Now().Add(200 * time.Millisecond)
			for time.Now().Before(dl) && !lg.has("invalid event frame") {
				time.Sleep(time.Millisecond)
			}
		}
		waitLog()
		if err := sess.Query("CREATE TABLE ks.t2 (a int PRIMARY KEY)").Exec(); err != nil {
			return "fail:conn-unusable"
		}
		waitLog()
		if lg.has("unable to parse event frame") {
			return "fail:parse"
		}
		if lg.has("invalid event frame") {
			return "ignored"
		}
		return "handled"
	case "Conn.heartBeat":
		return heartbeatCell(s, cfg, kind, false)
	case "controlConn.heartBeat":
		return heartbeatCell(s, cfg, kind, true)
	}
	return "unknown-site"
}

// heartbeatCell: answer a heartbeat OPTIONS with `kind`.
//
//	control=false: the pool connection's Conn.heartBeat (connection 2; the control connection's
//	  heartbeats are always answered SUPPORTED).
//	control=true:  controlConn.heartBeat. Conn.heartBeat and controlConn.heartBeat both send OPTIONS
//	  on connection 1 about 1 s after they start; Conn.heartBeat starts when the handshake ends,
//	  controlConn.heartBeat after REGISTER was answered, which this server delays by 400 ms. So the
//	  first post-handshake OPTIONS on connection 1 is Conn.heartBeat's (answered SUPPORTED), the
//	  second is controlConn.heartBeat's (answered `kind`). If the arrival times do not fit that
//	  reading the cell is reported `ambiguous` and the parent re-runs it.
func heartbeatCell(s *srv, cfg *gocql.ClusterConfig, kind string, control bool) string {
	const registerDelay = 400 * time.Millisecond
	target := 2
	if control {
		target = 1
	}
	answered := make(chan string, 4)
	var mu sync.Mutex
	nPost := 0
	s.override = func(c *sconn, f *memcluster.Frame, stmt string) bool {
		if control && c.id == 1 && f.Op == memcluster.OpRegister {
			time.Sleep(registerDelay)
			return false
		}
		if f.Op != memcluster.OpOptions || c.id != target || c.count(memcluster.OpStartup) == 0 {
			return false
		}
		mu.Lock()
		nPost++
		n := nPost
		mu.Unlock()
		if !control {
			if n == 1 {
				c.reply(f.Stream, kindOp(kind), kindBody(kind))
				answered <- "sent"
				return true
			}
			return false
		}
		s.mu.Lock()
		readyAt, registerAt := c.readyAt, c.registerAt
		s.mu.Unlock()
		now := time.Now()
		switch n {
		case 1:
			// must be Conn.heartBeat's: due 1 s after readyAt, well before registerAt + 1 s
			if registerAt.IsZero() || now.Before(readyAt.Add(800*time.Millisecond)) ||
				now.After(registerAt.Add(time.Second-150*time.Millisecond)) {
				answered <- "ambiguous"
			}
			return false // SUPPORTED
		case 2:
			if now.Before(registerAt.Add(time.Second - 50*time.Millisecond)) {
				answered <- "ambiguous"
				return false
			}
			c.reply(f.Stream, kindOp(kind), kindBody(kind))
			answered <- "sent"
			return true
		}
		return false
	}
	sess, err := gocql.NewSession(*cfg)
	if err != nil {
		return "fail:connect"
	}
	defer sess.Close()
	select {
	case a := <-answered:
		if a != "sent" {
			return a
		}
	case <-time.After(20 * time.Second):
		return "fail:no-heartbeat"
	}
	// the heartbeat goroutine has the frame within microseconds; a round trip on the pool connection
	// plus a grace period, then we are still alive
	// (the query may fail: a driver that closes the connection on an unexpected heartbeat answer is fine)
	_ = sess.Query("CREATE TABLE ks.t3 (a int PRIMARY KEY)").Exec()
	time.Sleep(100 * time.Millisecond)
	return "alive"
}

// childBeh: `e2e beh <site> <kind,kind,...>`: one line `cell <kind> <result>` per cell, in order.
func childBeh(site string, kinds []string) {
	out := bufio.NewWriter(os.Stdout)
	for _, k := range kinds {
		fmt.Fprintf(out, "begin %s\n", k)
		out.Flush()
		r := RunCell(site, k)
		fmt.Fprintf(out, "cell %s %s\n", k, r)
		out.Flush()
	}
	// let stray goroutines of the last cell run into whatever they run into
	time.Sleep(20 * time.Millisecond)
}
