package c05disp

import (
	"fmt"
	"sort"
	"strings"
	"sync"

	"verifharness/vh"
)

// Sites whose cells are driven through the real code (one child per site, cells in sequence).
var behSites = []string{
	"startupCoordinator.options", "startupCoordinator.startup",
	"startupCoordinator.authenticateHandshake", "startupCoordinator.authenticateHandshake" + NilSuffix,
	"controlConn.registerEvents", "Conn.UseKeyspace", "Conn.prepareStatement", "Conn.executeQuery",
	"Conn.executeBatch", "Session.handleEvent",
	// names after props/C05.fix-20.diff (driven only if the extractor finds them)
	"Conn.executeQueryAttempt", "Conn.executeBatchAttempt",
}

// Heartbeat sites: one child per cell (each waits for the 1 s heartbeat timer), run in parallel.
var hbSites = []string{"Conn.heartBeat", "controlConn.heartBeat"}

var facts = []string{"recovers", "parseframe-repanics", "event-goroutine", "go-launched", "challengers",
	"challenge-nil", "error-impls", "err-sites", "problems"}

// behAnswer maps what a child observed to the answer alphabet of the model: the heartbeat sites
// cannot tell `handled` from `error` from outside (both: the loop goes on), the model's answer for a
// surviving heartbeat cell is therefore compared as "the table says no crash".
func behAnswer(t *Table, site, kind, observed string) string {
	if observed == "alive" {
		c := t.Cell(site, kind)
		if !strings.HasPrefix(c, "crash:") {
			return c
		}
		return "alive"
	}
	return observed
}

// Exec answers one op line of this part (replay mode; also used by Gen for the table ops).
func Exec(w []string) (answer string, mine bool) {
	if len(w) == 0 {
		return "", false
	}
	switch w[0] {
	case "disp", "disparms", "dispctx", "dispsites", "dispkinds", "dispfact", "beh", "e2e":
	case "seq", "seqinv":
		return seqExec(w), true
	case "evt", "evtinv":
		return evtExec(w), true
	case "hs":
		return hsExec(w), true
	case "hsc":
		return hscExec(w), true
	default:
		return "", false
	}
	t, err := Current()
	if err != nil {
		return "extract-failed:" + strings.ReplaceAll(err.Error(), " ", "_"), true
	}
	switch {
	case w[0] == "disp" && len(w) == 3:
		return t.Cell(w[1], w[2]), true
	case w[0] == "disparms" && len(w) == 2:
		return t.Arms(w[1]), true
	case w[0] == "dispctx" && len(w) == 2:
		return t.Ctx(w[1]), true
	case w[0] == "dispsites" && len(w) == 1:
		return t.SitesLine(), true
	case w[0] == "dispkinds" && len(w) == 1:
		return t.KindsLine(), true
	case w[0] == "dispfact" && len(w) == 2:
		return t.Fact(w[1]), true
	case w[0] == "beh" && len(w) == 3:
		if _, ok := kindGoType[w[2]]; !ok {
			return "bad-op", true
		}
		r := BehCells(w[1], []string{w[2]}, nil)
		return behAnswer(t, w[1], w[2], r[w[2]]), true
	case w[0] == "e2e" && len(w) == 2:
		if c, ok := ScenarioCell[w[1]]; ok {
			r := BehCells(c[0], []string{c[1]}, nil)
			return behAnswer(t, c[0], c[1], r[c[1]]), true
		}
		return RunScenario(w[1], nil), true
	}
	return "bad-op", true
}

type task struct {
	site  string
	kinds []string
	scen  string
	res   map[string]string
	sres  string
	notes []string
}

// Notes of the last Gen (child exit codes / crash sites), for the evidence.
var Notes []string

// Gen emits the op lines of this part with the implementation's answers.
func Gen(r *vh.Rng, tier string, emit func(op, impl, class string, nontrivial bool)) {
	t, err := Current()
	if err != nil {
		emit("dispsites", "extract-failed:"+strings.ReplaceAll(err.Error(), " ", "_"), "disp/extract", true)
		return
	}
	// 0. the sequence tier (seq.go) runs in child processes of its own, concurrently with the rest
	seqR := vh.NewRng(r.U64())
	var seqRes []SeqResult
	seqDone := make(chan struct{})
	go func() {
		defer close(seqDone)
		seqRes = CollectSeq(seqR, tier)
	}()
	// 0b. the event tier (evt.go), likewise
	evtR := vh.NewRng(r.U64())
	evtScs := GenEvt(evtR, tier)
	var evtRes, evtNotes []string
	evtDone := make(chan struct{})
	go func() {
		defer close(evtDone)
		evtRes = CollectEvt(evtScs, 6, &evtNotes)
	}()
	// 0c. connection set-up as a sequence of answers (hsseq.go)
	hsScs := GenHs(vh.NewRng(r.U64()), tier)
	var hsRes, hsNotes []string
	hsDone := make(chan struct{})
	go func() {
		defer close(hsDone)
		hsRes = CollectHs(hsScs, 4, &hsNotes)
	}()
	// 0d. the same under non-default configurations x SUPPORTED contents x discovery answers (hscfg.go)
	hscScs := GenHsc(vh.NewRng(r.U64()), tier)
	var hscRes, hscNotes []string
	hscDone := make(chan struct{})
	go func() {
		defer close(hscDone)
		hscRes = CollectHsc(hscScs, 4, &hscNotes)
	}()
	// 1. the extracted table, cell by cell
	emit("dispsites", t.SitesLine(), "disp/sites", true)
	emit("dispkinds", t.KindsLine(), "disp/kinds", true)
	for _, f := range facts {
		emit("dispfact "+f, t.Fact(f), "disp/fact", true)
	}
	for _, s := range t.SiteNames() {
		emit("disparms "+s, t.Arms(s), "disp/arms", true)
		emit("dispctx "+s, t.Ctx(s), "disp/ctx", true)
		for _, k := range Kinds {
			c := t.Cell(s, k)
			cls := "disp/cell/" + strings.SplitN(c, ":", 2)[0]
			emit("disp "+s+" "+k, c, cls, true)
		}
	}
	// 2. behavioural cells + end-to-end scenarios, in child processes
	var tasks []*task
	for _, s := range behSites {
		if st, _ := t.site(s); st == nil {
			continue // not in the source: the dispsites line already says so
		}
		if s == "Session.handleEvent" {
			// each cell waits for a log line that may never come: three cells per child
			for i := 0; i < len(Kinds); i += 3 {
				j := i + 3
				if j > len(Kinds) {
					j = len(Kinds)
				}
				tasks = append(tasks, &task{site: s, kinds: append([]string(nil), Kinds[i:j]...)})
			}
			continue
		}
		tasks = append(tasks, &task{site: s, kinds: append([]string(nil), Kinds...)})
	}
	for _, s := range hbSites {
		ks := append([]string(nil), Kinds...)
		if tier != "thorough" {
			// SUPPORTED, ERROR, the two kinds of the scenarios of record, one more chosen by the seed
			extra := Kinds[r.Intn(len(Kinds))]
			ks = []string{"supported", "error", "ready", "resultVoid"}
			dup := false
			for _, k := range ks {
				if k == extra {
					dup = true
				}
			}
			if !dup {
				ks = append(ks, extra)
			}
		}
		for _, k := range ks {
			tasks = append(tasks, &task{site: s, kinds: []string{k}})
		}
	}
	for _, sc := range Scenarios {
		tasks = append(tasks, &task{scen: sc})
	}
	sem := make(chan struct{}, 12)
	var wg sync.WaitGroup
	for _, tk := range tasks {
		wg.Add(1)
		go func(tk *task) {
			defer wg.Done()
			sem <- struct{}{}
			defer func() { <-sem }()
			if tk.scen != "" {
				tk.sres = RunScenario(tk.scen, &tk.notes)
			} else {
				tk.res = BehCells(tk.site, tk.kinds, &tk.notes)
			}
		}(tk)
	}
	wg.Wait()
	Notes = nil
	cells := map[string]string{}
	for _, tk := range tasks {
		Notes = append(Notes, tk.notes...)
		if tk.scen != "" {
			emit("e2e "+tk.scen, tk.sres, "e2e/"+strings.SplitN(tk.sres, ":", 2)[0], true)
			continue
		}
		for _, k := range tk.kinds {
			a := behAnswer(t, tk.site, k, tk.res[k])
			cells[tk.site+" "+k] = a
			emit("beh "+tk.site+" "+k, a, "beh/"+strings.SplitN(a, ":", 2)[0], true)
		}
	}
	// the scenarios of record that are table cells (answers shared with the cells above)
	var names []string
	for n := range ScenarioCell {
		names = append(names, n)
	}
	sort.Strings(names)
	for _, n := range names {
		c := ScenarioCell[n]
		a, ok := cells[c[0]+" "+c[1]]
		if !ok {
			res := BehCells(c[0], []string{c[1]}, &Notes)
			a = behAnswer(t, c[0], c[1], res[c[1]])
		}
		emit("e2e "+n, a, "e2e/"+strings.SplitN(a, ":", 2)[0], true)
	}
	<-seqDone
	EmitSeq(seqRes, emit)
	<-evtDone
	EmitEvt(evtScs, evtRes, emit)
	Notes = append(Notes, evtNotes...)
	<-hsDone
	EmitHs(hsScs, hsRes, emit)
	Notes = append(Notes, hsNotes...)
	<-hscDone
	EmitHsc(hscScs, hscRes, emit)
	Notes = append(Notes, hscNotes...)
	sort.Strings(Notes)
	_ = fmt.Sprint
}
