package c05disp

import (
	"context"
	"net"
	"strings"
	"sync"
	"time"

	"github.com/gocql/gocql"
	"verifharness/memcluster"
)

// A minimal scripted CQL server (protocol v4, legacy framing) on memcluster's in-memory pipes and
// codec. Unlike memcluster.Node every request kind (OPTIONS, STARTUP, REGISTER, AUTH_RESPONSE
// included) can be answered with an arbitrary response frame.

const proto = 4

type sconn struct {
	s    *srv
	id   int // 1 = first dial (the control connection)
	pipe net.Conn
	out  chan []byte
	// per-connection counters of requests seen, by opcode
	seen map[byte]int
	// times (server side) of the READY/AUTH_SUCCESS that ended the handshake and of the REGISTER reply
	readyAt, registerAt time.Time
	// dead: the serve loop has ended (the driver closed the connection)
	dead bool
}

// reply queues one response frame.
func (c *sconn) reply(stream int, op byte, body []byte) {
	f := &memcluster.Frame{Version: proto | 0x80, Stream: stream, Op: op, Body: body}
	c.raw(f.Encode(proto))
}

func (c *sconn) raw(b []byte) {
	defer func() { recover() }() // queue closed: connection gone
	c.out <- b
}

type srv struct {
	mu    sync.Mutex
	nconn int
	conns []*sconn
	// override is called on the connection's reader goroutine for every request before the default
	// answer; it returns true if it answered (or deliberately did not).
	override  func(c *sconn, f *memcluster.Frame, stmt string) bool
	authClass string // non-empty: STARTUP is answered with AUTHENTICATE(class)
	// localNoAddr: the system.local row has no rpc_address / broadcast_address column
	localNoAddr bool
	// peerNoAddr: system.peers has one row, without peer / rpc_address columns
	peerNoAddr bool
}

func (s *srv) DialHost(ctx context.Context, host *gocql.HostInfo) (*gocql.DialedHost, error) {
	cc, sc := memcluster.NewPair(host.ConnectAddress(), 9042)
	s.mu.Lock()
	s.nconn++
	c := &sconn{s: s, id: s.nconn, pipe: sc, out: make(chan []byte, 256), seen: map[byte]int{}}
	s.conns = append(s.conns, c)
	s.mu.Unlock()
	go func() {
		for b := range c.out {
			if _, err := c.pipe.Write(b); err != nil {
				return
			}
		}
	}()
	go c.serve()
	return &gocql.DialedHost{Conn: cc}, nil
}

func (s *srv) conn(id int) *sconn {
	s.mu.Lock()
	defer s.mu.Unlock()
	for _, c := range s.conns {
		if c.id == id {
			return c
		}
	}
	return nil
}

func (s *srv) numConns() int {
	s.mu.Lock()
	defer s.mu.Unlock()
	return s.nconn
}

func stmtOf(f *memcluster.Frame) string {
	if f.Op == memcluster.OpQuery || f.Op == memcluster.OpPrepare {
		r := &memcluster.R{B: f.Body}
		return r.LongString()
	}
	return ""
}

func (c *sconn) serve() {
	defer func() {
		c.s.mu.Lock()
		c.dead = true
		c.s.mu.Unlock()
		c.pipe.Close()
		defer func() { recover() }()
		close(c.out)
	}()
	for {
		f, err := memcluster.ReadFrame(c.pipe, proto)
		if err != nil {
			return
		}
		if f.Flags&0x01 != 0 {
			// the driver negotiated compression (snappy is the only one these peers ever agree to)
			if b, derr := (gocql.SnappyCompressor{}).Decode(f.Body); derr == nil {
				f.Body = b
				f.Flags &^= 0x01
			}
		}
		c.s.mu.Lock()
		c.seen[f.Op]++
		ov := c.s.override
		c.s.mu.Unlock()
		stmt := stmtOf(f)
		if ov != nil && ov(c, f, stmt) {
			continue
		}
		c.defaultAnswer(f, stmt)
	}
}

func (c *sconn) count(op byte) int {
	c.s.mu.Lock()
	defer c.s.mu.Unlock()
	return c.seen[op]
}

var hostID = []byte{0x11, 0x22, 0x33, 0x44, 0x55, 0x66, 0x47, 0x88, 0x99, 0xaa, 0xbb, 0xcc, 0xdd, 0xee, 0xff, 0x01}

func (c *sconn) defaultAnswer(f *memcluster.Frame, stmt string) {
	switch f.Op {
	case memcluster.OpOptions:
		c.reply(f.Stream, memcluster.OpSupported, kindBody("supported"))
	case memcluster.OpStartup:
		if c.s.authClass != "" {
			w := &memcluster.W{}
			w.String(c.s.authClass)
			c.reply(f.Stream, memcluster.OpAuthenticate, w.B)
			return
		}
		c.s.mu.Lock()
		c.readyAt = time.Now()
		c.s.mu.Unlock()
		c.reply(f.Stream, memcluster.OpReady, nil)
	case memcluster.OpAuthResponse:
		c.s.mu.Lock()
		c.readyAt = time.Now()
		c.s.mu.Unlock()
		c.reply(f.Stream, memcluster.OpAuthSuccess, kindBody("authSuccess"))
	case memcluster.OpRegister:
		c.s.mu.Lock()
		c.registerAt = time.Now()
		c.s.mu.Unlock()
		c.reply(f.Stream, memcluster.OpReady, nil)
	case memcluster.OpQuery:
		switch {
		case strings.Contains(stmt, "schema_version FROM system.local"):
			c.reply(f.Stream, memcluster.OpResult, memcluster.RowsBody(
				[]memcluster.Col{{Name: "schema_version", Type: memcluster.TVarchar}},
				[][][]byte{{[]byte("v1")}}, nil, false))
		case strings.Contains(stmt, "system.local"):
			cols := []memcluster.Col{{Name: "key", Type: memcluster.TVarchar}, {Name: "host_id", Type: 0x000C},
				{Name: "data_center", Type: memcluster.TVarchar}, {Name: "rack", Type: memcluster.TVarchar},
				{Name: "release_version", Type: memcluster.TVarchar}}
			row := [][]byte{[]byte("local"), hostID, []byte("dc1"), []byte("r1"), []byte("3.11.0")}
			if !c.s.localNoAddr {
				cols = append(cols, memcluster.Col{Name: "rpc_address", Type: 0x0010}, memcluster.Col{Name: "broadcast_address", Type: 0x0010})
				row = append(row, []byte{127, 0, 0, 1}, []byte{127, 0, 0, 1})
			}
			c.reply(f.Stream, memcluster.OpResult, memcluster.RowsBody(cols, [][][]byte{row}, nil, false))
		case strings.Contains(stmt, "system.peers") && c.s.peerNoAddr:
			// one peer row without peer / rpc_address
			c.reply(f.Stream, memcluster.OpResult, memcluster.RowsBody(
				[]memcluster.Col{{Name: "data_center", Type: memcluster.TVarchar}, {Name: "rack", Type: memcluster.TVarchar}},
				[][][]byte{{[]byte("dc1"), []byte("r1")}}, nil, false))
		case strings.Contains(stmt, "system.peers"), strings.Contains(stmt, "system_schema"), strings.Contains(stmt, "system."):
			c.reply(f.Stream, memcluster.OpResult, memcluster.RowsBody(
				[]memcluster.Col{{Name: "x", Type: memcluster.TVarchar}}, nil, nil, false))
		case strings.HasPrefix(stmt, "USE "):
			c.reply(f.Stream, memcluster.OpResult, kindBody("resultKeyspace"))
		default:
			c.reply(f.Stream, memcluster.OpResult, memcluster.VoidBody())
		}
	case memcluster.OpPrepare:
		c.reply(f.Stream, memcluster.OpResult, kindBody("resultPrepared"))
	default: // EXECUTE, BATCH
		c.reply(f.Stream, memcluster.OpResult, memcluster.VoidBody())
	}
}

// kindOp / kindBody: a WELL-FORMED protocol-v4 response frame that gocql parses into the given kind.
func kindOp(kind string) byte {
	switch kind {
	case "error", "unprepared":
		return memcluster.OpError
	case "ready":
		return memcluster.OpReady
	case "authenticate":
		return memcluster.OpAuthenticate
	case "authChallenge":
		return memcluster.OpAuthChallenge
	case "authSuccess":
		return memcluster.OpAuthSuccess
	case "supported":
		return memcluster.OpSupported
	case "statusChange", "topologyChange":
		return memcluster.OpEvent
	}
	return memcluster.OpResult
}

func schemaChange(w *memcluster.W, target string) {
	w.String("CREATED")
	w.String(target)
	w.String("ks")
	switch target {
	case "TABLE", "TYPE":
		w.String("t")
	case "FUNCTION", "AGGREGATE":
		w.String("f")
		w.StringList([]string{"int"})
	}
}

const passwordClass = "org.apache.cassandra.auth.PasswordAuthenticator"

func kindBody(kind string) []byte {
	w := &memcluster.W{}
	switch kind {
	case "error":
		return memcluster.ErrorBody(memcluster.ErrServer, "scripted server error", nil)
	case "unprepared":
		return memcluster.ErrorBody(memcluster.ErrUnprepared, "scripted unprepared", memcluster.UnpreparedExtra([]byte{0xAA, 0xBB}))
	case "ready":
		return nil
	case "authenticate":
		w.String(passwordClass)
	case "authChallenge":
		w.Bytes([]byte("challenge"))
	case "authSuccess":
		w.Bytes(nil)
	case "supported":
		w.StringMultiMap(map[string][]string{"CQL_VERSION": {"3.0.0"}})
	case "resultVoid":
		return memcluster.VoidBody()
	case "resultRows":
		return memcluster.RowsBody([]memcluster.Col{{Name: "a", Type: memcluster.TInt}}, nil, nil, false)
	case "resultKeyspace":
		w.Int(3)
		w.String("ks")
	case "resultPrepared":
		return memcluster.PreparedBody(proto, []byte{0xAA, 0xBB}, []memcluster.Col{{Name: "a", Type: memcluster.TInt}}, nil,
			[]memcluster.Col{{Name: "a", Type: memcluster.TInt}})
	case "schemaKeyspace":
		w.Int(5)
		schemaChange(w, "KEYSPACE")
	case "schemaTable":
		w.Int(5)
		schemaChange(w, "TABLE")
	case "schemaType":
		w.Int(5)
		schemaChange(w, "TYPE")
	case "schemaFunction":
		w.Int(5)
		schemaChange(w, "FUNCTION")
	case "schemaAggregate":
		w.Int(5)
		schemaChange(w, "AGGREGATE")
	case "statusChange":
		w.String("STATUS_CHANGE")
		w.String("UP")
		w.Byte(4)
		w.B = append(w.B, 127, 0, 0, 9)
		w.Int(9042)
	case "topologyChange":
		w.String("TOPOLOGY_CHANGE")
		w.String("NEW_NODE")
		w.Byte(4)
		w.B = append(w.B, 127, 0, 0, 9)
		w.Int(9042)
	}
	return w.B
}

// eventBody: the same kinds as an EVENT frame (schema changes arrive as EVENT SCHEMA_CHANGE).
func eventFrame(kind string) (op byte, body []byte) {
	w := &memcluster.W{}
	switch kind {
	case "schemaKeyspace":
		w.String("SCHEMA_CHANGE")
		schemaChange(w, "KEYSPACE")
	case "schemaTable":
		w.String("SCHEMA_CHANGE")
		schemaChange(w, "TABLE")
	case "schemaType":
		w.String("SCHEMA_CHANGE")
		schemaChange(w, "TYPE")
	case "schemaFunction":
		w.String("SCHEMA_CHANGE")
		schemaChange(w, "FUNCTION")
	case "schemaAggregate":
		w.String("SCHEMA_CHANGE")
		schemaChange(w, "AGGREGATE")
	default:
		return kindOp(kind), kindBody(kind)
	}
	return memcluster.OpEvent, w.B
}
