package c05disp

import (
	"bufio"
	"bytes"
	"fmt"
	"io"
	"os"
	"os/exec"
	"runtime"
	"sort"
	"strconv"
	"strings"
	"sync"
	"time"

	"github.com/gocql/gocql"
	"verifharness/memcluster"
	"verifharness/vh"
)

// Sequence tier of the C05 harness: SEQUENCES of well-formed-but-unexpected (and malformed) answers on
// the stateful prepare / execute / unprepared / re-prepare / paging paths of ONE connection of a real
// gocql.Session over the scripted in-memory peer (srv.go).
//
// A scenario is conducted: 1-3 declared callers (query, query executed on a driver goroutine, paging
// query, batch) and a list of steps
//
//	s<c>          start caller c
//	p<s>=<answer> answer the (oldest) pending PREPARE of statement s
//	x<c>=<answer> answer the pending EXECUTE / BATCH of caller c
//	e=<kind>      push a frame of that kind on stream -1 (event path)
//
// where <answer> is any of the 18 frame kinds parseFrame can return (RESULT/Prepared with a chosen id and
// bind-column count, ERROR of 18 codes, ERROR/Unprepared with a chosen id, RESULT/Rows with or without
// more pages, ...) or a malformed body. After every step the driver is run to QUIESCENCE, decided by
// state only (never by time): every PREPARE at the peer has a live flight goroutine and vice versa, and
// every live caller either has its frame pending at the peer or is parked in prepareStatement's select
// (goroutine dump). Then the events of the step (frames that reached the peer, calls that returned) and
// the statement cache (hook VerifC05dStmtCache) are logged. The log is compared with the Lean model
// (Model/PrepLife.lean, op `seq`); op `seqinv` is the invariant of the model's theorem (no finished
// cached flight without a statement at any quiescent point; no crash).
//
// Scenarios run in CHILD processes (`<harness> e2e seq`, scenario requests on stdin, progress lines
// flushed on stdout) because a panic on a driver goroutine cannot be recovered: when a child dies the
// scenario it was running — callers and the steps announced so far — is the failing input, the panic
// site comes from the child's stderr, and the remaining scenarios go to a new child.
//
// Generation is adaptive (the next step is drawn from the requests that ARE pending at the quiescent
// point) and happens in the child from a per-scenario seed; the op line is the explicit script.

const seqNStmts = 3

const seqWatchdog = 30 * time.Second

// answer of a scenario that was not run because an earlier one ran into the watchdog (not emitted)
const seqSkipped = "fail:skipped"

func seqStmtText(s int) string { return fmt.Sprintf("SELECT a FROM ks.t WHERE a = ? AND s = %d", s) }

func seqStmtIdx(text string) int {
	for s := 0; s < seqNStmts; s++ {
		if text == seqStmtText(s) {
			return s
		}
	}
	return -1
}

var seqIDBytes = map[string][]byte{"A": {0xA1}, "B": {0xB2}, "C": {0xC3}, "U": {0xEE}}

func seqIDLetter(id []byte) string {
	for l, b := range seqIDBytes {
		if bytes.Equal(b, id) {
			return l
		}
	}
	return "?"
}

type seqCaller struct {
	kind  byte // q g p b
	stmts []int
}

func parseSeqCallers(w string) ([]seqCaller, bool) {
	var out []seqCaller
	for _, t := range strings.Split(w, ",") {
		if len(t) < 2 || !strings.ContainsRune("qgpb", rune(t[0])) {
			return nil, false
		}
		c := seqCaller{kind: t[0]}
		for _, d := range t[1:] {
			if d < '0' || int(d-'0') >= seqNStmts {
				return nil, false
			}
			c.stmts = append(c.stmts, int(d-'0'))
		}
		if c.kind != 'b' && len(c.stmts) != 1 {
			return nil, false
		}
		out = append(out, c)
	}
	return out, len(out) > 0 && len(out) <= 9
}

type seqPending struct {
	prep   bool
	stmt   int // prep
	caller int // exec / batch
	ids    string
	c      *sconn
	stream int
}

type seqWorld struct {
	mu       sync.Mutex
	s        *srv
	sess     *gocql.Session
	callers  []seqCaller
	started  []bool
	nstarted int
	nret     int
	pending  []*seqPending
	evs      []string
	crash    string
	pool     *sconn
	// entries of the statement cache when the scenario starts (NewSession's checkSystemSchema prepares
	// `SELECT * FROM system_schema.keyspaces` on the control connection, synchronously)
	baseline int
}

// ---------- peer side ----------

// the bound value (int32) of the first value of an EXECUTE / BATCH identifies the caller
func seqParseExecute(body []byte) (id []byte, caller int) {
	r := &memcluster.R{B: body}
	id = r.ShortBytes()
	r.Short() // consistency
	flags := r.Byte()
	caller = -1
	if flags&1 != 0 && r.Short() > 0 {
		v := r.Bytes()
		if len(v) == 4 {
			caller = int(int32(uint32(v[0])<<24 | uint32(v[1])<<16 | uint32(v[2])<<8 | uint32(v[3])))
		}
	}
	return
}

func seqParseBatch(body []byte) (ids [][]byte, caller int) {
	r := &memcluster.R{B: body}
	r.Byte()
	n := r.Short()
	caller = -1
	for i := 0; i < n; i++ {
		if r.Byte() == 0 {
			r.LongString()
			ids = append(ids, nil)
		} else {
			ids = append(ids, r.ShortBytes())
		}
		nv := r.Short()
		for j := 0; j < nv; j++ {
			v := r.Bytes()
			if caller < 0 && len(v) == 4 {
				caller = int(int32(uint32(v[0])<<24 | uint32(v[1])<<16 | uint32(v[2])<<8 | uint32(v[3])))
			}
		}
	}
	return
}

func (w *seqWorld) override(c *sconn, f *memcluster.Frame, stmt string) bool {
	switch f.Op {
	case memcluster.OpPrepare:
		s := seqStmtIdx(stmt)
		if s < 0 {
			return false
		}
		w.mu.Lock()
		w.pending = append(w.pending, &seqPending{prep: true, stmt: s, c: c, stream: f.Stream})
		w.evs = append(w.evs, fmt.Sprintf("P%d", s))
		w.mu.Unlock()
		return true
	case memcluster.OpExecute:
		id, caller := seqParseExecute(f.Body)
		ids := seqIDLetter(id)
		w.mu.Lock()
		w.pending = append(w.pending, &seqPending{caller: caller, ids: ids, c: c, stream: f.Stream})
		w.evs = append(w.evs, fmt.Sprintf("X%d:%s", caller, ids))
		w.mu.Unlock()
		return true
	case memcluster.OpBatch:
		idl, caller := seqParseBatch(f.Body)
		ids := ""
		for _, id := range idl {
			ids += seqIDLetter(id)
		}
		w.mu.Lock()
		w.pending = append(w.pending, &seqPending{caller: caller, ids: ids, c: c, stream: f.Stream})
		w.evs = append(w.evs, fmt.Sprintf("X%d:%s", caller, ids))
		w.mu.Unlock()
		return true
	}
	return false
}

var seqIntCol = memcluster.Col{Name: "a", Type: memcluster.TInt}

// error codes with the code-specific fields of protocol v4 (every one parses into an error value)
var seqErrCodes = []int{0x0000, 0x000A, 0x0100, 0x1000, 0x1001, 0x1002, 0x1003, 0x1100, 0x1200, 0x1300, 0x1400,
	0x1500, 0x2000, 0x2100, 0x2200, 0x2300, 0x2400}

func seqErrorBody(code int) []byte {
	w := &memcluster.W{}
	switch code {
	case 0x1000:
		w.B = memcluster.UnavailableExtra(1, 2, 1)
	case 0x1100:
		w.B = memcluster.WriteTimeoutExtra(1, 0, 1, "SIMPLE")
	case 0x1200:
		w.B = memcluster.ReadTimeoutExtra(1, 0, 1, 0)
	case 0x1300:
		w.Short(1)
		w.Int(0)
		w.Int(1)
		w.Int(1)
		w.Byte(0)
	case 0x1400:
		w.String("ks")
		w.String("f")
		w.StringList([]string{"int"})
	case 0x1500:
		w.Short(1)
		w.Int(0)
		w.Int(1)
		w.Int(1)
		w.String("SIMPLE")
	case 0x2400:
		w.String("ks")
		w.String("t")
	}
	return memcluster.ErrorBody(int32(code), "scripted error", w.B)
}

// seqFrame builds the answer frame of an answer token; ok=false: not an answer token.
func seqFrame(ans string) (op byte, body []byte, ok bool) {
	p := strings.Split(ans, ".")
	switch p[0] {
	case "mal":
		v := 0
		if len(p) > 1 {
			v, _ = strconv.Atoi(p[1])
		}
		switch v % 5 {
		case 0: // RESULT/Rows cut after the kind
			return memcluster.OpResult, []byte{0, 0, 0, 2}, true
		case 1: // RESULT/Prepared cut inside the id
			return memcluster.OpResult, []byte{0, 0, 0, 4, 0, 9, 1, 2}, true
		case 2: // RESULT of an unknown kind
			return memcluster.OpResult, []byte{0, 0, 0, 99}, true
		case 3: // ERROR cut inside the code
			return memcluster.OpError, []byte{0, 0}, true
		default: // empty RESULT
			return memcluster.OpResult, nil, true
		}
	case "resultPrepared":
		id, n := "A", 1
		if len(p) > 1 {
			id = p[1]
		}
		if len(p) > 2 {
			n, _ = strconv.Atoi(p[2])
		}
		idb, okid := seqIDBytes[id]
		if !okid || n < 0 || n > 8 {
			return 0, nil, false
		}
		bind := make([]memcluster.Col, n)
		for i := range bind {
			bind[i] = memcluster.Col{Name: fmt.Sprintf("a%d", i), Type: memcluster.TInt}
		}
		return memcluster.OpResult, memcluster.PreparedBody(proto, idb, bind, nil, []memcluster.Col{seqIntCol}), true
	case "unprepared":
		id := "U"
		if len(p) > 1 {
			id = p[1]
		}
		idb, okid := seqIDBytes[id]
		if !okid {
			return 0, nil, false
		}
		return memcluster.OpError, memcluster.ErrorBody(memcluster.ErrUnprepared, "scripted unprepared", memcluster.UnpreparedExtra(idb)), true
	case "error":
		code := 0
		if len(p) > 1 {
			c, err := strconv.ParseInt(p[1], 16, 32)
			if err != nil {
				return 0, nil, false
			}
			code = int(c)
		}
		known := false
		for _, c := range seqErrCodes {
			known = known || c == code
		}
		if !known {
			return 0, nil, false
		}
		return memcluster.OpError, seqErrorBody(code), true
	case "resultRows":
		var ps []byte
		if len(p) > 1 && p[1] == "more" {
			ps = []byte("page")
		}
		return memcluster.OpResult, memcluster.RowsBody([]memcluster.Col{seqIntCol}, [][][]byte{{{0, 0, 0, 7}}}, ps, false), true
	}
	if _, ok := kindGoType[p[0]]; !ok || len(p) != 1 {
		return 0, nil, false
	}
	return kindOp(p[0]), kindBody(p[0]), true
}

// ---------- callers ----------

func (w *seqWorld) startCaller(c int) {
	cl := w.callers[c]
	w.mu.Lock()
	w.started[c] = true
	w.nstarted++
	w.mu.Unlock()
	go func() {
		var err error
		rows := 0
		crash := guardCaller(func() {
			switch cl.kind {
			case 'q':
				err = w.sess.Query(seqStmtText(cl.stmts[0]), c).Exec()
			case 'g':
				// idempotent + a speculative policy: queryExecutor runs the execution on a goroutine of
				// its own (`go q.run`); the speculative timer never fires
				err = w.sess.Query(seqStmtText(cl.stmts[0]), c).Idempotent(true).
					SetSpeculativeExecutionPolicy(&gocql.SimpleSpeculativeExecution{NumAttempts: 1, TimeoutDelay: time.Hour}).Exec()
			case 'p':
				// the second and later pages are fetched by `go iter.next.fetch()`
				iter := w.sess.Query(seqStmtText(cl.stmts[0]), c).PageSize(1).Iter()
				var v int
				for iter.Scan(&v) {
					rows++
				}
				err = iter.Close()
			case 'b':
				b := w.sess.NewBatch(gocql.LoggedBatch)
				for _, s := range cl.stmts {
					b.Query(seqStmtText(s), c)
				}
				err = w.sess.ExecuteBatch(b)
			}
		})
		w.mu.Lock()
		if crash != "" && w.crash == "" {
			w.crash = crash
		}
		if err != nil {
			w.evs = append(w.evs, fmt.Sprintf("R%d:err", c))
		} else {
			w.evs = append(w.evs, fmt.Sprintf("R%d:ok:%d", c, rows))
		}
		w.nret++
		w.mu.Unlock()
	}()
}

// ---------- quiescence ----------

const gocqlPrepare = gocqlPkg + "(*Conn).prepareStatement"

// scanGoroutines: the number of live flight goroutines (the `go func(){..}()` of prepareStatement) and the
// number of goroutines parked in prepareStatement's own select.
func scanGoroutines(buf []byte) (flights, prepWait int) {
	n := runtime.Stack(buf, true)
	for _, g := range bytes.Split(buf[:n], []byte("\n\n")) {
		lines := strings.Split(string(g), "\n")
		if len(lines) < 2 || !strings.HasPrefix(lines[0], "goroutine ") {
			continue
		}
		isFlight := false
		for _, l := range lines[1:] {
			if strings.HasPrefix(l, gocqlPrepare+".func") {
				isFlight = true
			}
		}
		if isFlight {
			flights++
			continue
		}
		if strings.Contains(lines[0], "[select") && strings.HasPrefix(lines[1], gocqlPrepare+"(") {
			prepWait++
		}
	}
	return
}

type seqCounts struct{ np, nx, live, nev int }

func (w *seqWorld) counts() (c seqCounts, crash string) {
	w.mu.Lock()
	defer w.mu.Unlock()
	for _, p := range w.pending {
		if p.prep {
			c.np++
		} else {
			c.nx++
		}
	}
	c.live = w.nstarted - w.nret
	c.nev = len(w.evs)
	return c, w.crash
}

// settle waits for quiescence ("" = reached), a crash on a caller's goroutine, or the watchdog.
func (w *seqWorld) settle(buf []byte) string {
	deadline := time.Now().Add(seqWatchdog)
	for i := 0; ; i++ {
		c1, crash := w.counts()
		if crash != "" {
			return crash
		}
		fl, pw := scanGoroutines(buf)
		c2, _ := w.counts()
		if c1 == c2 && fl == c1.np && pw+c1.nx == c1.live {
			return ""
		}
		if time.Now().After(deadline) {
			return fmt.Sprintf("fail:settle:flights=%d/%d:parked=%d+%d/%d", fl, c1.np, pw, c1.nx, c1.live)
		}
		if i < 50 {
			runtime.Gosched()
		} else {
			time.Sleep(50 * time.Microsecond)
		}
	}
}

func (w *seqWorld) snapshot() string {
	stmts := make([]string, seqNStmts)
	for i := range stmts {
		stmts[i] = seqStmtText(i)
	}
	states, total := gocql.VerifC05dStmtCache(w.sess, stmts)
	out := ""
	for _, st := range states {
		switch {
		case st == "absent":
			out += "-"
		case st == "inflight":
			out += "i"
		case st == "nil":
			out += "n"
		case strings.HasPrefix(st, "ok:"):
			l := "?"
			for k, b := range seqIDBytes {
				if fmt.Sprintf("%x", b) == st[3:] {
					l = k
				}
			}
			out += l
		default:
			out += "?"
		}
	}
	return fmt.Sprintf("%s#%d", out, total-w.baseline)
}

func evKey(e string) int {
	n := 0
	fmt.Sscanf(e[1:], "%d", &n)
	switch e[0] {
	case 'P':
		return n
	case 'X':
		return 1000 + n
	}
	return 2000 + n
}

// takeEvents returns the events since the last call, in the canonical order of the model.
func (w *seqWorld) takeEvents() string {
	w.mu.Lock()
	evs := w.evs
	w.evs = nil
	w.mu.Unlock()
	sort.SliceStable(evs, func(i, j int) bool { return evKey(evs[i]) < evKey(evs[j]) })
	if len(evs) == 0 {
		return "-"
	}
	return strings.Join(evs, ",")
}

// ---------- one step ----------

func (w *seqWorld) findPending(prep bool, idx int) *seqPending {
	w.mu.Lock()
	defer w.mu.Unlock()
	for i, p := range w.pending {
		if p.prep == prep && ((prep && p.stmt == idx) || (!prep && p.caller == idx)) {
			w.pending = append(w.pending[:i], w.pending[i+1:]...)
			return p
		}
	}
	return nil
}

// apply executes one step token; false = the step does not apply (answer item "bad").
func (w *seqWorld) apply(tok string) bool {
	if len(tok) == 2 && tok[0] == 's' {
		c := int(tok[1] - '0')
		if c < 0 || c >= len(w.callers) || w.started[c] {
			return false
		}
		w.startCaller(c)
		return true
	}
	eq := strings.IndexByte(tok, '=')
	if eq < 0 {
		return false
	}
	op, body, ok := seqFrame(tok[eq+1:])
	if !ok {
		return false
	}
	l := tok[:eq]
	switch {
	case l == "e":
		if strings.HasPrefix(tok[eq+1:], "schema") {
			op, body = eventFrame(tok[eq+1:])
		}
		w.pool.reply(-1, op, body)
		return true
	case len(l) == 2 && (l[0] == 'p' || l[0] == 'x'):
		p := w.findPending(l[0] == 'p', int(l[1]-'0'))
		if p == nil {
			return false
		}
		p.c.reply(p.stream, op, body)
		return true
	}
	return false
}

// ---------- scenario ----------

type seqProgress interface {
	step(tok string) // announced (flushed) BEFORE the step is executed
}

func newSeqWorld(callers []seqCaller) (*seqWorld, string) {
	s := &srv{}
	lg := &logSink{}
	cfg := newCfg(s, lg)
	cfg.Timeout = 10 * time.Minute // never decisive: every frame is answered by the script
	w := &seqWorld{s: s, callers: callers, started: make([]bool, len(callers))}
	s.override = w.override
	sess, err := gocql.NewSession(*cfg)
	if err != nil {
		return nil, "fail:connect"
	}
	w.sess = sess
	w.pool = s.conn(s.numConns())
	_, w.baseline = gocql.VerifC05dStmtCache(sess, nil)
	return w, ""
}

// runSeq conducts one scenario. next() yields the next step token ("" = end) given the world at a
// quiescent point; the answer is the `;`-joined per-step log, or crash:.. / fail:.. for the whole line.
func runSeq(callers []seqCaller, next func(w *seqWorld) string, pr seqProgress) (answer string, inv string) {
	w, fail := newSeqWorld(callers)
	if w == nil {
		return fail, fail
	}
	defer w.sess.Close()
	buf := make([]byte, 1<<20)
	var items []string
	inv = "ok"
	for n := 0; n < 64; n++ {
		tok := next(w)
		if tok == "" {
			break
		}
		pr.step(tok)
		if !w.apply(tok) {
			items = append(items, "bad")
			continue
		}
		if r := w.settle(buf); r != "" {
			return r, r
		}
		snap := w.snapshot()
		if strings.Contains(snap, "n") && inv == "ok" {
			inv = "bad:nil-entry"
		}
		items = append(items, w.takeEvents()+"/"+snap)
	}
	if len(items) == 0 {
		return "-", inv
	}
	return strings.Join(items, ";"), inv
}

// ---------- adaptive generation (child) ----------

var seqOtherKinds = []string{"ready", "authenticate", "authChallenge", "authSuccess", "supported", "resultVoid",
	"resultRows", "resultRows.more", "resultKeyspace", "schemaKeyspace", "schemaTable", "schemaType", "schemaFunction",
	"schemaAggregate", "statusChange", "topologyChange"}

var seqEventKinds = []string{"schemaKeyspace", "schemaTable", "schemaType", "schemaFunction", "schemaAggregate", "ready",
	"supported", "resultVoid", "authSuccess", "error"}

var seqLetters = []string{"A", "B", "C"}

func genSeqCallers(r *vh.Rng) []seqCaller {
	n := 1 + r.Intn(3)
	focus := 0
	if r.Intn(4) == 0 {
		focus = r.Intn(seqNStmts)
	}
	var out []seqCaller
	for i := 0; i < n; i++ {
		s := focus
		if r.Intn(6) == 0 {
			s = r.Intn(seqNStmts)
		}
		switch x := r.Intn(20); {
		case x < 8:
			out = append(out, seqCaller{kind: 'q', stmts: []int{s}})
		case x < 11:
			out = append(out, seqCaller{kind: 'g', stmts: []int{s}})
		case x < 14:
			out = append(out, seqCaller{kind: 'p', stmts: []int{s}})
		default:
			k := 1 + r.Intn(3)
			st := []int{s}
			for len(st) < k {
				st = append(st, r.Intn(seqNStmts))
			}
			// the focus statement at a random position
			j := r.Intn(len(st))
			st[0], st[j] = st[j], st[0]
			out = append(out, seqCaller{kind: 'b', stmts: st})
		}
	}
	return out
}

func callersWord(cs []seqCaller) string {
	var ws []string
	for _, c := range cs {
		w := string(c.kind)
		for _, s := range c.stmts {
			w += strconv.Itoa(s)
		}
		ws = append(ws, w)
	}
	return strings.Join(ws, ",")
}

func genPrepAnswer(r *vh.Rng, stmt int, first bool) string {
	x := r.Intn(100)
	if first {
		// the first PREPARE of a statement mostly succeeds: the scenario then reaches the execute phase
		x = x * 34 / 75
	}
	switch {
	case x < 34:
		id := seqLetters[stmt%3]
		if r.Intn(5) < 2 {
			id = seqLetters[r.Intn(3)]
		}
		n := 1
		if r.Intn(10) == 0 {
			n = 2 * r.Intn(2)
		}
		return fmt.Sprintf("resultPrepared.%s.%d", id, n)
	case x < 62:
		return seqOtherKinds[r.Intn(len(seqOtherKinds))]
	case x < 76:
		return fmt.Sprintf("error.%04x", seqErrCodes[r.Intn(len(seqErrCodes))])
	case x < 88:
		return "unprepared." + append(seqLetters, "U")[r.Intn(4)]
	}
	return fmt.Sprintf("mal.%d", r.Intn(5))
}

func genExecAnswer(r *vh.Rng, p *seqPending, kind byte) string {
	switch x := r.Intn(100); {
	case x < 40:
		id := append(seqLetters, "U")[r.Intn(4)]
		if len(p.ids) > 0 && r.Intn(10) < 7 {
			id = string(p.ids[r.Intn(len(p.ids))])
			if id == "?" {
				id = "U"
			}
		}
		return "unprepared." + id
	case x < 50:
		if kind == 'p' && r.Intn(3) > 0 {
			return "resultRows.more"
		}
		return []string{"resultVoid", "resultRows", "resultRows.more"}[r.Intn(3)]
	case x < 72:
		ks := append([]string{"resultPrepared.A.1", "resultPrepared.B.2"}, seqOtherKinds...)
		return ks[r.Intn(len(ks))]
	case x < 88:
		return fmt.Sprintf("error.%04x", seqErrCodes[r.Intn(len(seqErrCodes))])
	}
	return fmt.Sprintf("mal.%d", r.Intn(5))
}

// genNext draws the next step at a quiescent point: while the budget of scripted answers lasts, start a
// caller or answer a pending request with a drawn answer; afterwards every pending request gets the
// answer of the right kind (so that every call returns).
func genNext(r *vh.Rng, budget *int) func(w *seqWorld) string {
	seen := map[int]bool{}
	return func(w *seqWorld) string {
		w.mu.Lock()
		pend := append([]*seqPending(nil), w.pending...)
		var idle []int
		for c, st := range w.started {
			if !st {
				idle = append(idle, c)
			}
		}
		w.mu.Unlock()
		if *budget > 0 {
			if len(idle) > 0 && (len(pend) == 0 || r.Intn(100) < 35) {
				return fmt.Sprintf("s%d", idle[0])
			}
			if len(pend) == 0 {
				return ""
			}
			if r.Intn(25) == 0 {
				return "e=" + seqEventKinds[r.Intn(len(seqEventKinds))]
			}
			*budget--
			p := pend[r.Intn(len(pend))]
			if p.prep {
				first := !seen[p.stmt]
				seen[p.stmt] = true
				return fmt.Sprintf("p%d=%s", p.stmt, genPrepAnswer(r, p.stmt, first))
			}
			kind := byte('q')
			if p.caller >= 0 && p.caller < len(w.callers) {
				kind = w.callers[p.caller].kind
			}
			return fmt.Sprintf("x%d=%s", p.caller, genExecAnswer(r, p, kind))
		}
		if len(pend) == 0 {
			return ""
		}
		p := pend[0]
		if p.prep {
			return fmt.Sprintf("p%d=resultPrepared.%s.1", p.stmt, seqLetters[p.stmt%3])
		}
		return fmt.Sprintf("x%d=resultVoid", p.caller)
	}
}

// ---------- child: `e2e seq` ----------

type stdoutProgress struct{ out *bufio.Writer }

func (p stdoutProgress) step(tok string) {
	fmt.Fprintf(p.out, "step %s\n", tok)
	p.out.Flush()
}

// childSeq reads scenario requests from stdin:
//
//	gen <seed>                      adaptive scenario from that seed
//	run <callers> <step> <step>...  explicit script
//
// and prints per scenario: `begin <n>`, `callers <word>`, `step <token>` (before each step), then
// `result <answer>` and `inv <answer>`.
func childSeq() {
	in := bufio.NewScanner(os.Stdin)
	in.Buffer(make([]byte, 1<<20), 1<<20)
	out := bufio.NewWriter(os.Stdout)
	n := 0
	stuck := false
	for in.Scan() {
		f := strings.Fields(in.Text())
		if len(f) < 2 {
			continue
		}
		var callers []seqCaller
		var next func(w *seqWorld) string
		switch f[0] {
		case "gen":
			seed, _ := strconv.ParseUint(f[1], 10, 64)
			r := vh.NewRng(seed)
			callers = genSeqCallers(r)
			budget := 3 + r.Intn(6)
			next = genNext(r, &budget)
		case "run":
			cs, ok := parseSeqCallers(f[1])
			if !ok {
				fmt.Fprintf(out, "begin %d\ncallers %s\nresult bad-op\ninv bad-op\n", n, f[1])
				out.Flush()
				n++
				continue
			}
			callers = cs
			steps := f[2:]
			i := 0
			next = func(w *seqWorld) string {
				if i >= len(steps) {
					return ""
				}
				i++
				return steps[i-1]
			}
		default:
			continue
		}
		fmt.Fprintf(out, "begin %d\ncallers %s\n", n, callersWord(callers))
		out.Flush()
		if stuck {
			// a scenario of this child ran into the watchdog: goroutines of it may still be around, and
			// every further scenario could cost another watchdog period
			fmt.Fprintf(out, "result %s\ninv %s\n", seqSkipped, seqSkipped)
			out.Flush()
			n++
			continue
		}
		a, inv := runSeq(callers, next, stdoutProgress{out})
		if strings.HasPrefix(a, "fail:settle") {
			stuck = true
		}
		fmt.Fprintf(out, "result %s\ninv %s\n", a, inv)
		out.Flush()
		n++
	}
	// let stray goroutines of the last scenario run into whatever they run into
	time.Sleep(20 * time.Millisecond)
}

// ---------- parent ----------

// SeqResult: one scenario as run on the real driver.
type SeqResult struct {
	Script string // "<callers> <step> <step> ..."
	Answer string // per-step log | crash:<func>:<kind> | fail:..
	Inv    string
	Note   string
}

// runSeqChild feeds the request lines to one child; returns the results of the scenarios it finished and
// (if it died) of the one it died in, and the number of request lines consumed.
func runSeqChild(reqs []string) (res []SeqResult, consumed int) {
	exe, err := os.Executable()
	if err != nil {
		exe = os.Args[0]
	}
	cmd := exec.Command(exe, "e2e", "seq")
	cmd.Stdin = strings.NewReader(strings.Join(reqs, "\n") + "\n")
	var se bytes.Buffer
	cmd.Stderr = &se
	cmd.Env = append(os.Environ(), "GOTRACEBACK=single")
	so, err := cmd.StdoutPipe()
	if err != nil {
		return nil, 0
	}
	if err := cmd.Start(); err != nil {
		return nil, 0
	}
	timer := time.AfterFunc(time.Duration(60+2*len(reqs))*time.Second, func() { cmd.Process.Kill() })
	defer timer.Stop()
	rd := bufio.NewReaderSize(so, 1<<20)
	var cur *SeqResult
	open := false
	for {
		line, err := rd.ReadString('\n')
		line = strings.TrimRight(line, "\n")
		if i := strings.IndexByte(line, ' '); i > 0 {
			arg := line[i+1:]
			switch line[:i] {
			case "begin":
				cur = &SeqResult{}
				open = true
			case "callers":
				if cur != nil {
					cur.Script = arg
				}
			case "step":
				if cur != nil {
					cur.Script += " " + arg
				}
			case "result":
				if cur != nil {
					cur.Answer = arg
				}
			case "inv":
				if cur != nil {
					cur.Inv = arg
					res = append(res, *cur)
					consumed++
					open = false
					cur = nil
				}
			}
		}
		if err != nil {
			if err != io.EOF {
				break
			}
			break
		}
	}
	werr := cmd.Wait()
	if open && cur != nil {
		// the child died inside this scenario
		a := ParseCrash(se.String(), "")
		if a == "" {
			code := -1
			if ee, ok := werr.(*exec.ExitError); ok {
				code = ee.ExitCode()
			}
			a = fmt.Sprintf("fail:exit-%d", code)
		}
		cur.Answer, cur.Inv = a, a
		cur.Note = fmt.Sprintf("seq %s: child died: %s", cur.Script, a)
		res = append(res, *cur)
		consumed++
	} else if werr != nil && consumed < len(reqs) {
		// died between scenarios (a late panic of the previous one): blame the last finished scenario
		a := ParseCrash(se.String(), "")
		if a != "" && len(res) > 0 {
			last := &res[len(res)-1]
			last.Answer, last.Inv = a, a
			last.Note = fmt.Sprintf("seq %s: child died after the scenario: %s", last.Script, a)
		} else if len(res) == 0 {
			res = append(res, SeqResult{Script: "-", Answer: "fail:child", Inv: "fail:child"})
			consumed++
		}
	}
	return res, consumed
}

// RunSeqs runs the scenario requests in child processes (`workers` at a time, a chunk per child), in order.
func RunSeqs(reqs []string, workers, chunk int) []SeqResult {
	type job struct {
		lo, hi int
		res    []SeqResult
	}
	var jobs []*job
	for lo := 0; lo < len(reqs); lo += chunk {
		hi := lo + chunk
		if hi > len(reqs) {
			hi = len(reqs)
		}
		jobs = append(jobs, &job{lo: lo, hi: hi})
	}
	sem := make(chan struct{}, workers)
	var wg sync.WaitGroup
	var stuckMu sync.Mutex
	stuck := 0
	for _, j := range jobs {
		wg.Add(1)
		go func(j *job) {
			defer wg.Done()
			sem <- struct{}{}
			defer func() { <-sem }()
			rest := reqs[j.lo:j.hi]
			for guard := 0; len(rest) > 0 && guard < len(reqs)+4; guard++ {
				stuckMu.Lock()
				stop := stuck >= 2
				stuckMu.Unlock()
				if stop {
					// the watchdog fired twice already: the tie is broken anyway, do not spend a
					// watchdog period per remaining scenario
					for range rest {
						j.res = append(j.res, SeqResult{Script: "-", Answer: seqSkipped, Inv: seqSkipped})
					}
					break
				}
				res, n := runSeqChild(rest)
				for _, x := range res {
					if strings.HasPrefix(x.Answer, "fail:settle") {
						stuckMu.Lock()
						stuck++
						stuckMu.Unlock()
					}
				}
				j.res = append(j.res, res...)
				if n == 0 {
					n = 1
					j.res = append(j.res, SeqResult{Script: "-", Answer: "fail:child", Inv: "fail:child"})
				}
				rest = rest[n:]
			}
		}(j)
	}
	wg.Wait()
	var out []SeqResult
	for _, j := range jobs {
		out = append(out, j.res...)
	}
	return out
}

// SeqDirected: explicit scripts run on every invocation (the shapes of the family, one per path).
var SeqDirected = []string{
	// two executions in flight, UNPREPARED, the re-prepare answered with each class of answer, UNPREPARED again
	"q0,q0 s0 p0=resultPrepared.A.1 s1 x0=unprepared.A p0=resultVoid x1=unprepared.A p0=resultPrepared.A.1 x1=resultVoid",
	"q0,q0 s0 p0=resultPrepared.A.1 s1 x0=unprepared.A p0=error.2200 x1=unprepared.A p0=resultPrepared.B.1 x1=resultRows",
	"q0,q0 s0 p0=resultPrepared.A.1 s1 x0=unprepared.A p0=mal.1 x1=unprepared.A p0=resultPrepared.A.1 x1=resultVoid",
	"q0,g0 s0 p0=resultPrepared.A.1 s1 x0=unprepared.A p0=supported x1=unprepared.U p0=resultPrepared.A.1 x1=resultVoid",
	"g0,g0 s0 p0=resultPrepared.A.1 s1 x1=unprepared.A p0=ready x0=unprepared.A p0=unprepared.A x0=resultVoid",
	// batches: the id → statement map, a statement of the batch failing to re-prepare
	"b01,q0 s0 p0=resultPrepared.A.1 p1=resultPrepared.B.1 s1 x0=unprepared.A p0=resultKeyspace x1=unprepared.A p0=resultPrepared.A.1 x1=resultVoid",
	"b00,b01 s0 s1 p0=resultPrepared.A.1 p1=resultPrepared.A.1 x0=unprepared.A p0=authSuccess x1=unprepared.A p0=resultPrepared.C.1 p1=resultPrepared.B.1 x1=resultVoid",
	// paging: the next page answered with another kind / UNPREPARED
	"p0,q0 s0 p0=resultPrepared.A.1 x0=resultRows.more s1 x0=unprepared.A p0=schemaTable x1=unprepared.A p0=resultPrepared.A.1 x1=resultVoid",
	"p0 s0 p0=resultPrepared.A.1 x0=resultRows.more x0=resultRows.more x0=resultPrepared.A.1",
	"p1 s0 p1=resultPrepared.B.1 x0=resultRows.more x0=unprepared.B p1=resultRows.more",
	// bind-column count, ids shared between statements, events in between
	"q0,q0 s0 s1 p0=resultPrepared.A.2 e=schemaTable",
	"b012 s0 p0=resultPrepared.A.1 p1=resultPrepared.A.1 p2=resultPrepared.A.1 x0=unprepared.A e=ready p2=topologyChange",
}

// seqExec answers one `seq` / `seqinv` op line (replay mode): a child of its own.
func seqExec(w []string) string {
	if len(w) < 2 {
		return "bad-op"
	}
	res, _ := runSeqChild([]string{"run " + strings.Join(w[1:], " ")})
	if len(res) == 0 {
		return "fail:child"
	}
	if w[0] == "seqinv" {
		return res[0].Inv
	}
	return res[0].Answer
}

// CollectSeq runs the scenarios of this tier.
func CollectSeq(r *vh.Rng, tier string) []SeqResult {
	n := 2000
	if tier == "thorough" {
		n = 40000
	}
	var reqs []string
	for _, d := range SeqDirected {
		reqs = append(reqs, "run "+d)
	}
	for i := 0; i < n; i++ {
		reqs = append(reqs, fmt.Sprintf("gen %d", r.U64()))
	}
	res := RunSeqs(reqs, 8, 60)
	// scenarios in which the driver crashed first: the check reports the first failing op
	sort.SliceStable(res, func(i, j int) bool {
		return strings.HasPrefix(res[i].Answer, "crash:") && !strings.HasPrefix(res[j].Answer, "crash:")
	})
	return res
}

// EmitSeq emits the scenarios as op lines `seq` (event log + cache per step) and `seqinv` (the invariant).
func EmitSeq(res []SeqResult, emit func(op, impl, class string, nontrivial bool)) {
	skipped := 0
	for _, x := range res {
		if x.Answer == seqSkipped {
			skipped++
			continue
		}
		if x.Note != "" {
			Notes = append(Notes, x.Note)
		}
		cls := "seq/steps-" + strconv.Itoa(len(strings.Fields(x.Script))-1)
		switch {
		case strings.HasPrefix(x.Answer, "crash:"):
			cls = "seq/crash"
		case strings.HasPrefix(x.Answer, "fail:"):
			cls = "seq/fail"
		}
		emit("seq "+x.Script, x.Answer, cls, true)
		emit("seqinv "+x.Script, x.Inv, "seqinv/"+strings.SplitN(x.Inv, ":", 2)[0], true)
	}
	if skipped > 0 {
		Notes = append(Notes, fmt.Sprintf("seq: %d scenarios not run after the quiescence watchdog fired", skipped))
	}
}
