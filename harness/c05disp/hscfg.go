package c05disp

import (
	"errors"
	"fmt"
	"os"
	"strings"
	"sync"

	"github.com/gocql/gocql"
	"verifharness/memcluster"
	"verifharness/vh"
)

// Connection set-up under non-default CONFIGURATIONS and arbitrary SUPPORTED contents
// (op `hsc <cfg> <supported> <script> <disc>`):
//
//	cfg        five digits: CQLVersion (0 = "", 1 = "3.0.0"), ProtoVersion (0 = discovery, 4), Compressor
//	           (0 = none, 1 = SnappyCompressor), authentication (0 none, 1 Authenticator = PasswordAuthenticator,
//	           2 AuthProvider handing out a PasswordAuthenticator, 3 AuthProvider returning an error),
//	           DisableInitialHostLookup (0 / 1)
//	supported  what EVERY SUPPORTED frame of the peer carries: `-` (empty multimap) or `;`-separated `<K>=<e>+<e>..`
//	           in wire order (a key may occur twice: the later one wins in the driver's map; `<K>=` = zero entries);
//	           K: V CQL_VERSION, C COMPRESSION, P PROTOCOL_VERSIONS, X an unknown option;
//	           e: 3 "3.0.0", 4 "3.4.5", s "snappy", z "lz4", f "foo", e ""
//	script     the answers to the requests of the first POOL connection, as in op `hs` (`supported` = that frame)
//	disc       (ProtoVersion 0 only, else `-`) what the connection dialled by discoverProtocol gets: `-` a server's
//	           answers; e<n> = its STARTUP is answered ERROR "Invalid or unsupported protocol version (5); the lowest
//	           supported version is 3 and the greatest is <n>" (n = 4, 3, 0, 77, big = 99999999999999999999); eo = ERROR
//	           with another text; neg = its OPTIONS is answered on stream -2 (protocolError path of
//	           parseProtocolFromError); rdy = its OPTIONS is answered READY
//
// Observed: `<up|failed>:<requests of the pool connection>:cql=<CQL_VERSION of its STARTUP>:comp=<COMPRESSION of it>`.
// Model: Model/ConnSetup.lean `runCfg`. Child process per scenario.

var hscTok = map[byte]string{'3': "3.0.0", '4': "3.4.5", 's': "snappy", 'z': "lz4", 'f': "foo", 'e': ""}
var hscKey = map[byte]string{'V': "CQL_VERSION", 'C': "COMPRESSION", 'P': "PROTOCOL_VERSIONS", 'X': "X_UNKNOWN_OPTION"}

// hscSupported renders the [string multimap] body.
func hscSupported(spec string) ([]byte, bool) {
	w := &memcluster.W{}
	if spec == "-" {
		w.Short(0)
		return w.B, true
	}
	ents := strings.Split(spec, ";")
	w.Short(len(ents))
	for _, e := range ents {
		if len(e) < 2 || e[1] != '=' {
			return nil, false
		}
		k, ok := hscKey[e[0]]
		if !ok {
			return nil, false
		}
		w.String(k)
		var vals []string
		if len(e) > 2 {
			for _, t := range strings.Split(e[2:], "+") {
				if len(t) != 1 {
					return nil, false
				}
				v, ok := hscTok[t[0]]
				if !ok {
					return nil, false
				}
				vals = append(vals, v)
			}
		}
		w.StringList(vals)
	}
	return w.B, true
}

const hscVersionErr = "Invalid or unsupported protocol version (5); the lowest supported version is 3 and the greatest is "

func hscDisc(d string) (kind string, text string, ok bool) {
	switch d {
	case "-", "neg", "rdy":
		return d, "", true
	case "eo":
		return "err", "scripted server error", true
	case "ebig":
		return "err", hscVersionErr + "99999999999999999999", true
	case "e4", "e3", "e0", "e77":
		return "err", hscVersionErr + d[1:], true
	}
	return "", "", false
}

func runHsc(cfgw, sup, script, disc string) string {
	if len(cfgw) != 5 {
		return "bad-op"
	}
	supBody, ok := hscSupported(sup)
	if !ok {
		return "bad-op"
	}
	var kinds []string
	if script != "-" {
		kinds = strings.Split(script, ",")
		for _, k := range kinds {
			if _, ok := kindGoType[k]; !ok {
				return "bad-op"
			}
		}
	}
	dkind, dtext, ok := hscDisc(disc)
	if !ok {
		return "bad-op"
	}
	s := &srv{}
	lg := &logSink{}
	cfg := newCfg(s, lg)
	switch cfgw[0] {
	case '0':
		cfg.CQLVersion = ""
	case '1':
	default:
		return "bad-op"
	}
	discover := false
	switch cfgw[1] {
	case '0':
		cfg.ProtoVersion = 0
		discover = true
	case '4':
	default:
		return "bad-op"
	}
	if !discover && disc != "-" {
		return "bad-op"
	}
	switch cfgw[2] {
	case '0':
	case '1':
		cfg.Compressor = gocql.SnappyCompressor{}
	default:
		return "bad-op"
	}
	pw := gocql.PasswordAuthenticator{Username: "u", Password: "p"}
	switch cfgw[3] {
	case '0':
	case '1':
		cfg.Authenticator = pw
	case '2':
		cfg.AuthProvider = func(h *gocql.HostInfo) (gocql.Authenticator, error) { return pw, nil }
	case '3':
		cfg.AuthProvider = func(h *gocql.HostInfo) (gocql.Authenticator, error) { return nil, errors.New("no credentials") }
	default:
		return "bad-op"
	}
	switch cfgw[4] {
	case '0':
		cfg.DisableInitialHostLookup = false
	case '1':
	default:
		return "bad-op"
	}
	poolID, discID := 2, 0
	if discover {
		poolID, discID = 3, 1
	}
	var mu sync.Mutex
	var reqs []string
	next := 0
	cql, comp := "-", "-"
	s.override = func(c *sconn, f *memcluster.Frame, stmt string) bool {
		if c.id == discID && f.Op == memcluster.OpOptions {
			switch dkind {
			case "neg":
				c.reply(-2, memcluster.OpSupported, supBody)
				return true
			case "rdy":
				c.reply(f.Stream, memcluster.OpReady, nil)
				return true
			}
		}
		if c.id == discID && f.Op == memcluster.OpStartup && dkind == "err" {
			c.reply(f.Stream, memcluster.OpError, memcluster.ErrorBody(0x000A, dtext, nil))
			return true
		}
		if c.id != poolID {
			if f.Op == memcluster.OpOptions {
				c.reply(f.Stream, memcluster.OpSupported, supBody)
				return true
			}
			return false
		}
		r := ""
		switch {
		case f.Op == memcluster.OpOptions && c.count(memcluster.OpStartup) == 0:
			r = "O"
		case f.Op == memcluster.OpStartup:
			r = "S"
		case f.Op == memcluster.OpAuthResponse:
			r = "A"
		case f.Op == memcluster.OpQuery && strings.HasPrefix(stmt, "USE "):
			r = "Q"
		case f.Op == memcluster.OpOptions:
			c.reply(f.Stream, memcluster.OpSupported, supBody)
			return true
		default:
			return false
		}
		mu.Lock()
		reqs = append(reqs, r)
		if r == "S" {
			rd := &memcluster.R{B: f.Body}
			n := rd.Short()
			cql, comp = "absent", "none"
			for i := 0; i < n && rd.Err == nil; i++ {
				k, v := rd.String(), rd.String()
				switch k {
				case "CQL_VERSION":
					cql = v
					if v == "" {
						cql = "~"
					}
				case "COMPRESSION":
					comp = v
				}
			}
		}
		k := ""
		if next < len(kinds) {
			k = kinds[next]
			next++
		}
		mu.Unlock()
		if k == "" && r != "O" {
			return false
		}
		if k == "" || k == "supported" {
			c.reply(f.Stream, memcluster.OpSupported, supBody)
			return true
		}
		c.reply(f.Stream, kindOp(k), kindBody(k))
		return true
	}
	sess, err := gocql.NewSession(*cfg)
	res := "up"
	if err != nil {
		res = "failed"
		if os.Getenv("VERIF_C05_EVT_DEBUG") != "" {
			fmt.Fprintln(os.Stderr, "NewSession:", err, "\nlog:", lg.b.String())
		}
	} else {
		sess.Close()
	}
	mu.Lock()
	defer mu.Unlock()
	return fmt.Sprintf("%s:%s:cql=%s:comp=%s", res, strings.Join(reqs, ""), cql, comp)
}

func childHsc(a []string) { fmt.Println("result", runHsc(a[0], a[1], a[2], a[3])) }

// RunHsc runs one scenario in a child process.
func RunHsc(sc [4]string, notes *[]string) string {
	cr := runChild(60*1e9, "hsc", sc[0], sc[1], sc[2], sc[3])
	if cr.timedOut {
		return "fail:timeout"
	}
	if cr.code == 0 {
		for _, l := range strings.Split(cr.stdout, "\n") {
			if strings.HasPrefix(l, "result ") {
				return strings.TrimPrefix(l, "result ")
			}
		}
		return "fail:no-result"
	}
	a := ParseCrash(cr.stderr, "")
	if a == "" {
		a = fmt.Sprintf("fail:exit-%d", cr.code)
	}
	if notes != nil {
		*notes = append(*notes, fmt.Sprintf("hsc %s: child exit=%d %s", strings.Join(sc[:], " "), cr.code, a))
	}
	return a
}

func hscExec(w []string) string {
	if len(w) != 5 {
		return "bad-op"
	}
	return RunHsc([4]string{w[1], w[2], w[3], w[4]}, nil)
}

var hscDiscs = []string{"-", "e4", "e3", "e0", "e77", "ebig", "eo", "neg", "rdy"}

func genHscSupported(r *vh.Rng) string {
	n := r.Intn(5)
	if n == 0 {
		return "-"
	}
	var es []string
	for i := 0; i < n; i++ {
		k := "VCPXVC"[r.Intn(6)]
		var vs []string
		for j, m := 0, []int{0, 0, 1, 1, 2, 3}[r.Intn(6)]; j < m; j++ {
			vs = append(vs, string("34szfe"[r.Intn(6)]))
		}
		es = append(es, string(k)+"="+strings.Join(vs, "+"))
	}
	return strings.Join(es, ";")
}

func genHscCfg(r *vh.Rng) string {
	return string("01"[r.Intn(2)]) + string("04"[r.Intn(2)]) + string("01"[r.Intn(2)]) + string("0123"[[]int{0, 0, 1, 2, 3, 1}[r.Intn(6)]]) + string("01"[r.Intn(2)])
}

// GenHsc: every option key x {absent, zero entries, one, many, empty string, twice} under every CQLVersion /
// Compressor combination (directed), every discovery answer, then random products.
func GenHsc(r *vh.Rng, tier string) [][4]string {
	var out [][4]string
	sups := []string{"-", "V=", "V=3", "V=e", "V=4+3", "V=3;V=", "V=;V=3", "C=", "C=s", "C=z+s", "C=f", "C=e", "C=s;C=", "C=;C=s",
		"P=", "X=", "X=f+e", "V=3;C=s+z;P=4", "V=;C=;P=;X="}
	for _, su := range sups {
		for _, c := range []string{"14001", "04001", "14101", "04101"} {
			out = append(out, [4]string{c, su, "-", "-"})
		}
	}
	for _, d := range hscDiscs {
		out = append(out, [4]string{"10001", "V=3;C=s", "-", d}, [4]string{"00100", sups[r.Intn(len(sups))], "-", d})
	}
	for _, a := range []string{"0", "1", "2", "3"} {
		out = append(out, [4]string{"141" + a + "1", "C=s", "supported,authenticate", "-"}, [4]string{"040" + a + "0", "V=", "supported,authenticate,authChallenge", "-"})
	}
	n := 40
	if tier == "thorough" {
		n = 1500
	}
	for i := 0; i < n; i++ {
		c := genHscCfg(r)
		d := "-"
		if c[1] == '0' {
			d = hscDiscs[r.Intn(len(hscDiscs))]
		}
		sc := "-"
		if r.Intn(2) == 0 {
			g := GenHs(vh.NewRng(r.U64()), "one")
			sc = g[len(g)-1][2]
		}
		out = append(out, [4]string{c, genHscSupported(r), sc, d})
	}
	return out
}

func CollectHsc(scs [][4]string, workers int, notes *[]string) []string {
	res := make([]string, len(scs))
	var nmu sync.Mutex
	var wg sync.WaitGroup
	sem := make(chan struct{}, workers)
	for i := range scs {
		wg.Add(1)
		go func(i int) {
			defer wg.Done()
			sem <- struct{}{}
			defer func() { <-sem }()
			var n []string
			res[i] = RunHsc(scs[i], &n)
			nmu.Lock()
			*notes = append(*notes, n...)
			nmu.Unlock()
		}(i)
	}
	wg.Wait()
	return res
}

func EmitHsc(scs [][4]string, res []string, emit func(op, impl, class string, nontrivial bool)) {
	for i, sc := range scs {
		emit("hsc "+strings.Join(sc[:], " "), res[i], "hsc/"+strings.SplitN(res[i], ":", 2)[0], true)
	}
}
