// Package c05util: shared helpers of the C05 (no-crash) harness: canonical classification of a
// panic into `crash:<function>:<kind>` where <function> is the gocql function in which the
// panic was raised (first gocql frame below the ORIGINAL panic) and <kind> a small enum.
package c05util

import (
	"fmt"
	"runtime"
	"strings"
)

const pkgPrefix = "github.com/gocql/gocql."

// Kind maps a recovered panic value to a small enum.
func Kind(r interface{}) string {
	var msg string
	switch v := r.(type) {
	case runtime.Error:
		msg = v.Error()
	case error:
		msg = v.Error()
	case string:
		msg = v
	default:
		msg = fmt.Sprint(r)
	}
	switch {
	case strings.Contains(msg, "index out of range"):
		return "index"
	case strings.Contains(msg, "slice bounds out of range"):
		return "slice"
	case strings.Contains(msg, "makeslice"):
		return "makeslice"
	case strings.Contains(msg, "nil pointer dereference"):
		return "nil"
	case strings.Contains(msg, "reflect.MakeSlice"):
		return "reflect-makeslice"
	case strings.HasPrefix(msg, "reflect"):
		return "reflect"
	case strings.Contains(msg, "interface conversion"):
		return "assert"
	case strings.Contains(msg, "integer divide by zero"):
		return "div"
	case strings.Contains(msg, "assignment to entry in nil map"):
		return "nilmap"
	}
	if _, ok := r.(runtime.Error); ok {
		return "runtime"
	}
	return "panic"
}

// shortFunc turns "github.com/gocql/gocql.(*framer).readInetAdressOnly" into "readInetAdressOnly"
// and "github.com/gocql/gocql.(*framer).parseFrame.func1" into "parseFrame.func1".
func shortFunc(fn string) string {
	s := strings.TrimPrefix(fn, pkgPrefix)
	if strings.HasPrefix(s, "(") {
		if i := strings.Index(s, ")."); i >= 0 {
			s = s[i+2:]
		}
	} else if i := strings.Index(s, "."); i >= 0 && !strings.HasPrefix(s[i+1:], "func") {
		// Type.method
		s = s[i+1:]
	}
	return s
}

// Site must be called from a deferred function while panicking: it returns the name of the gocql
// function in which the original (outermost on the stack = first raised) panic happened. A
// re-panic from a deferred recover (parseFrame) keeps the original frames on the stack, so the
// frame searched for is the first gocql frame below the LAST runtime.gopanic.
func Site() string {
	pcs := make([]uintptr, 256)
	n := runtime.Callers(2, pcs)
	frames := runtime.CallersFrames(pcs[:n])
	var names []string
	for {
		fr, more := frames.Next()
		names = append(names, fr.Function)
		if !more {
			break
		}
	}
	last := -1
	for i, f := range names {
		if f == "runtime.gopanic" {
			last = i
		}
	}
	for i := last + 1; i < len(names); i++ {
		if strings.HasPrefix(names[i], pkgPrefix) && !strings.HasPrefix(names[i], pkgPrefix+"Verif") {
			return shortFunc(names[i])
		}
	}
	return "unknown"
}

// Guard runs f and returns "" when it returns normally, or the canonical crash answer
// "crash:<function>:<kind>" when a panic escapes it.
func Guard(f func()) (crash string) {
	defer func() {
		if r := recover(); r != nil {
			crash = "crash:" + Site() + ":" + Kind(r)
		}
	}()
	f()
	return ""
}
