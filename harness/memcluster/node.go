package memcluster

import (
	"context"
	"net"
	"sync"

	"github.com/gocql/gocql"
)

// Request is a parsed client request as the server saw it.
type Request struct {
	Conn   *ServerConn
	Frame  *Frame
	Stream int
	Op     byte
	// QUERY / PREPARE
	Stmt string
	// EXECUTE
	PreparedID []byte
	// QUERY / EXECUTE parameters (proto >= 2)
	Consistency int
	QFlags      int
	Values      [][]byte
	PageSize    int32
	PageState   []byte
	HasPageSize bool
	Serial      int
	Timestamp   int64
	Keyspace    string // proto >= 5, flag 0x80
	// BATCH
	BatchKinds []byte
	BatchStmts []string
	BatchIDs   [][]byte
	ParseErr   error
}

// ServerConn is the server's view of one connection.
type ServerConn struct {
	Node  *Node
	ID    int
	c     net.Conn
	wmu   sync.Mutex
	Proto int
	Cli   *ClientConn
	q     [][]byte
	wake  chan struct{}
	dead  bool
	// Intercept (optional, set before any frame is served, e.g. in Node.OnConn): every byte string the
	// server side is about to queue for this connection (handshake answers, OPTIONS answers, Reply) is
	// offered to it first; if it returns true it has taken the bytes over and must emit them itself with
	// WriteNow (one serialised output stream with scripted write boundaries and pauses).
	Intercept func(b []byte) bool
}

// Reply sends a response frame (logs nothing by itself).
func (sc *ServerConn) Reply(stream int, op byte, body []byte) error {
	f := &Frame{Version: byte(sc.Proto) | 0x80, Stream: stream, Op: op, Body: body}
	return sc.WriteRaw(f.Encode(sc.Proto))
}

// WriteRaw queues bytes for the connection's writer goroutine (the queue plays the role of the
// kernel's socket buffer: the server's reader never blocks on a slow client).
func (sc *ServerConn) WriteRaw(b []byte) error {
	if ic := sc.Intercept; ic != nil && ic(b) {
		return nil
	}
	sc.wmu.Lock()
	defer sc.wmu.Unlock()
	if sc.dead {
		return net.ErrClosed
	}
	sc.q = append(sc.q, b)
	select {
	case sc.wake <- struct{}{}:
	default:
	}
	return nil
}

// WriteNow writes b to the connection synchronously as ONE write of the server's end (returns when the
// driver has consumed it or the connection is gone). Only for connections whose whole output goes
// through an Intercept-or, otherwise the bytes could interleave with the queue of WriteRaw.
func (sc *ServerConn) WriteNow(b []byte) error {
	sc.wmu.Lock()
	dead := sc.dead
	sc.wmu.Unlock()
	if dead {
		return net.ErrClosed
	}
	_, err := sc.c.Write(b)
	return err
}

func (sc *ServerConn) writer() {
	for range sc.wake {
		for {
			sc.wmu.Lock()
			if sc.dead {
				sc.wmu.Unlock()
				return
			}
			if len(sc.q) == 0 {
				sc.wmu.Unlock()
				break
			}
			b := sc.q[0]
			sc.q = sc.q[1:]
			sc.wmu.Unlock()
			if _, err := sc.c.Write(b); err != nil {
				sc.wmu.Lock()
				sc.dead = true
				sc.q = nil
				sc.wmu.Unlock()
				return
			}
		}
	}
}

// Close closes the server's end (connection reset from the driver's point of view).
func (sc *ServerConn) Close() {
	sc.wmu.Lock()
	sc.dead = true
	sc.wmu.Unlock()
	sc.c.Close()
}

// Node is one scripted server.
type Node struct {
	IP    net.IP
	Proto int
	Log   *EventLog
	// Handle is called (on the connection's reader goroutine) for every QUERY/PREPARE/EXECUTE/BATCH
	// request; it may reply immediately through req.Conn.Reply or hand the request to another goroutine.
	Handle func(req *Request)
	// Supported is the SUPPORTED multimap; default CQL_VERSION only.
	Supported map[string][]string
	// DialHook, if set, is called for every dial; returning an error fails the dial.
	DialHook func(n *Node, connID int) error
	// OnConn is called when a connection has been established (before any frame).
	OnConn func(sc *ServerConn)
	// StartupHook lets a test override the answer to STARTUP (return true if handled).
	StartupHook func(sc *ServerConn, f *Frame) bool
	// FrameHook, if set, sees every frame before the default handling (on the connection's reader
	// goroutine); returning true means the hook took the frame over (it replies itself, later, or never).
	FrameHook func(sc *ServerConn, f *Frame) bool

	mu     sync.Mutex
	nconn  int
	Conns  []*ServerConn
	CConns []*ClientConn
}

// Cluster is a set of nodes reachable through one HostDialer.
type Cluster struct {
	Nodes map[string]*Node
	Log   *EventLog
}

func NewCluster(proto int, ips ...string) *Cluster {
	cl := &Cluster{Nodes: map[string]*Node{}, Log: &EventLog{}}
	for _, ip := range ips {
		cl.Nodes[ip] = &Node{IP: net.ParseIP(ip), Proto: proto, Log: cl.Log}
	}
	return cl
}

// DialHost implements gocql.HostDialer.
func (cl *Cluster) DialHost(ctx context.Context, host *gocql.HostInfo) (*gocql.DialedHost, error) {
	ip := host.ConnectAddress().String()
	n := cl.Nodes[ip]
	if n == nil {
		return nil, &net.OpError{Op: "dial", Err: net.UnknownNetworkError("memcluster: no node " + ip)}
	}
	n.mu.Lock()
	n.nconn++
	id := n.nconn
	n.mu.Unlock()
	if n.DialHook != nil {
		if err := n.DialHook(n, id); err != nil {
			return nil, err
		}
	}
	cc, sc := NewPair(n.IP, 9042)
	s := &ServerConn{Node: n, ID: id, c: sc, Proto: n.Proto, Cli: cc, wake: make(chan struct{}, 1)}
	go s.writer()
	n.mu.Lock()
	n.Conns = append(n.Conns, s)
	n.CConns = append(n.CConns, cc)
	n.mu.Unlock()
	if n.OnConn != nil {
		n.OnConn(s)
	}
	go n.serve(s)
	return &gocql.DialedHost{Conn: cc, DisableCoalesce: false}, nil
}

func (n *Node) NumDials() int {
	n.mu.Lock()
	defer n.mu.Unlock()
	return n.nconn
}

func (n *Node) ClientConns() []*ClientConn {
	n.mu.Lock()
	defer n.mu.Unlock()
	return append([]*ClientConn(nil), n.CConns...)
}

func (n *Node) ServerConns() []*ServerConn {
	n.mu.Lock()
	defer n.mu.Unlock()
	return append([]*ServerConn(nil), n.Conns...)
}

func (n *Node) serve(sc *ServerConn) {
	defer func() {
		sc.Close()
		select {
		case sc.wake <- struct{}{}:
		default:
		}
	}()
	for {
		f, err := ReadFrame(sc.c, n.Proto)
		if err != nil {
			return
		}
		if n.FrameHook != nil && n.FrameHook(sc, f) {
			continue
		}
		switch f.Op {
		case OpOptions:
			w := &W{}
			sup := n.Supported
			if sup == nil {
				sup = map[string][]string{"CQL_VERSION": {"3.0.0"}}
			}
			w.StringMultiMap(sup)
			sc.Reply(f.Stream, OpSupported, w.B)
		case OpStartup:
			if n.StartupHook != nil && n.StartupHook(sc, f) {
				continue
			}
			sc.Reply(f.Stream, OpReady, nil)
		case OpRegister:
			sc.Reply(f.Stream, OpReady, nil)
		case OpAuthResponse:
			w := &W{}
			w.Bytes(nil)
			sc.Reply(f.Stream, OpAuthSuccess, w.B)
		default:
			req := parseRequest(sc, f)
			if n.Handle != nil {
				n.Handle(req)
			} else {
				sc.Reply(f.Stream, OpResult, VoidBody())
			}
		}
	}
}

func parseParams(r *R, req *Request, proto int) {
	req.Consistency = r.Short()
	if proto < 2 {
		return
	}
	var flags int
	if proto >= 5 {
		// protocol v5 (as gocql's beta-v5 framer writes it): the query flags are an [int]
		flags = int(uint32(r.Int()))
	} else {
		flags = int(r.Byte())
	}
	req.QFlags = flags
	if flags&0x01 != 0 {
		n := r.Short()
		for i := 0; i < n && r.Err == nil; i++ {
			if flags&0x40 != 0 {
				r.String()
			}
			req.Values = append(req.Values, r.Bytes())
		}
	}
	if flags&0x04 != 0 {
		req.PageSize = r.Int()
		req.HasPageSize = true
	}
	if flags&0x08 != 0 {
		req.PageState = r.Bytes()
	}
	if flags&0x10 != 0 {
		req.Serial = r.Short()
	}
	if flags&0x20 != 0 {
		req.Timestamp = r.Long()
	}
	if proto >= 5 && flags&0x80 != 0 {
		req.Keyspace = r.String()
	}
}

func parseRequest(sc *ServerConn, f *Frame) *Request {
	req := &Request{Conn: sc, Frame: f, Stream: f.Stream, Op: f.Op}
	r := &R{B: f.Body}
	if f.Flags&0x04 != 0 && sc.Proto >= 4 { // custom payload
		n := r.Short()
		for i := 0; i < n && r.Err == nil; i++ {
			r.String()
			r.Bytes()
		}
	}
	switch f.Op {
	case OpQuery:
		req.Stmt = r.LongString()
		parseParams(r, req, sc.Proto)
	case OpPrepare:
		req.Stmt = r.LongString()
	case OpExecute:
		req.PreparedID = r.ShortBytes()
		parseParams(r, req, sc.Proto)
	case OpBatch:
		r.Byte()
		n := r.Short()
		for i := 0; i < n && r.Err == nil; i++ {
			k := r.Byte()
			req.BatchKinds = append(req.BatchKinds, k)
			if k == 0 {
				req.BatchStmts = append(req.BatchStmts, r.LongString())
				req.BatchIDs = append(req.BatchIDs, nil)
			} else {
				req.BatchStmts = append(req.BatchStmts, "")
				req.BatchIDs = append(req.BatchIDs, r.ShortBytes())
			}
			nv := r.Short()
			for j := 0; j < nv && r.Err == nil; j++ {
				r.Bytes()
			}
		}
		req.Consistency = r.Short()
	}
	req.ParseErr = r.Err
	return req
}
