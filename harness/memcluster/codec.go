package memcluster

import (
	"encoding/binary"
	"errors"
	"io"
	"sort"
)

// Opcodes (native protocol spec, section 2.4)
const (
	OpError         = 0x00
	OpStartup       = 0x01
	OpReady         = 0x02
	OpAuthenticate  = 0x03
	OpOptions       = 0x05
	OpSupported     = 0x06
	OpQuery         = 0x07
	OpResult        = 0x08
	OpPrepare       = 0x09
	OpExecute       = 0x0A
	OpRegister      = 0x0B
	OpEvent         = 0x0C
	OpBatch         = 0x0D
	OpAuthChallenge = 0x0E
	OpAuthResponse  = 0x0F
	OpAuthSuccess   = 0x10
)

// Frame is one legacy-framed protocol frame.
type Frame struct {
	Version byte // as on the wire (request: proto, response: proto|0x80)
	Flags   byte
	Stream  int
	Op      byte
	Body    []byte
}

func HeaderLen(proto int) int {
	if proto > 2 {
		return 9
	}
	return 8
}

// ReadFrame reads one frame; proto decides the stream width.
func ReadFrame(r io.Reader, proto int) (*Frame, error) {
	h := make([]byte, HeaderLen(proto))
	if _, err := io.ReadFull(r, h); err != nil {
		return nil, err
	}
	f := &Frame{Version: h[0], Flags: h[1]}
	var ln uint32
	if proto > 2 {
		f.Stream = int(int16(binary.BigEndian.Uint16(h[2:4])))
		f.Op = h[4]
		ln = binary.BigEndian.Uint32(h[5:9])
	} else {
		f.Stream = int(int8(h[2]))
		f.Op = h[3]
		ln = binary.BigEndian.Uint32(h[4:8])
	}
	if ln > 256<<20 {
		return nil, errors.New("memcluster: frame too large")
	}
	f.Body = make([]byte, ln)
	if _, err := io.ReadFull(r, f.Body); err != nil {
		return f, err
	}
	return f, nil
}

// Encode renders a frame.
func (f *Frame) Encode(proto int) []byte {
	var h []byte
	if proto > 2 {
		h = make([]byte, 9)
		h[0], h[1] = f.Version, f.Flags
		binary.BigEndian.PutUint16(h[2:4], uint16(int16(f.Stream)))
		h[4] = f.Op
		binary.BigEndian.PutUint32(h[5:9], uint32(len(f.Body)))
	} else {
		h = make([]byte, 8)
		h[0], h[1] = f.Version, f.Flags
		h[2] = byte(int8(f.Stream))
		h[3] = f.Op
		binary.BigEndian.PutUint32(h[4:8], uint32(len(f.Body)))
	}
	return append(h, f.Body...)
}

// SplitFrames parses a byte stream into complete frames + trailing partial bytes.
func SplitFrames(wire []byte, proto int) (frames []*Frame, raw [][]byte, rest []byte) {
	hl := HeaderLen(proto)
	for len(wire) >= hl {
		var ln uint32
		if proto > 2 {
			ln = binary.BigEndian.Uint32(wire[5:9])
		} else {
			ln = binary.BigEndian.Uint32(wire[4:8])
		}
		total := hl + int(ln)
		if ln > 256<<20 || len(wire) < total {
			break
		}
		f := &Frame{Version: wire[0], Flags: wire[1], Body: wire[hl:total]}
		if proto > 2 {
			f.Stream = int(int16(binary.BigEndian.Uint16(wire[2:4])))
			f.Op = wire[4]
		} else {
			f.Stream = int(int8(wire[2]))
			f.Op = wire[3]
		}
		frames = append(frames, f)
		raw = append(raw, wire[:total])
		wire = wire[total:]
	}
	return frames, raw, wire
}

// W is a body writer.
type W struct{ B []byte }

func (w *W) Byte(b byte)    { w.B = append(w.B, b) }
func (w *W) Short(v int)    { w.B = append(w.B, byte(v>>8), byte(v)) }
func (w *W) Int(v int32)    { w.B = append(w.B, byte(v>>24), byte(v>>16), byte(v>>8), byte(v)) }
func (w *W) Long(v int64)   { w.Int(int32(v >> 32)); w.Int(int32(v)) }
func (w *W) String(s string) {
	w.Short(len(s))
	w.B = append(w.B, s...)
}
func (w *W) LongString(s string) {
	w.Int(int32(len(s)))
	w.B = append(w.B, s...)
}
func (w *W) Bytes(b []byte) {
	if b == nil {
		w.Int(-1)
		return
	}
	w.Int(int32(len(b)))
	w.B = append(w.B, b...)
}
func (w *W) ShortBytes(b []byte) {
	w.Short(len(b))
	w.B = append(w.B, b...)
}
func (w *W) StringList(l []string) {
	w.Short(len(l))
	for _, s := range l {
		w.String(s)
	}
}
func (w *W) StringMultiMap(m map[string][]string) {
	keys := make([]string, 0, len(m))
	for k := range m {
		keys = append(keys, k)
	}
	sort.Strings(keys)
	w.Short(len(m))
	for _, k := range keys {
		w.String(k)
		w.StringList(m[k])
	}
}

// R is a body reader; Err is sticky.
type R struct {
	B   []byte
	Err error
}

func (r *R) need(n int) bool {
	if r.Err != nil {
		return false
	}
	if n < 0 || len(r.B) < n {
		r.Err = io.ErrUnexpectedEOF
		return false
	}
	return true
}
func (r *R) Byte() byte {
	if !r.need(1) {
		return 0
	}
	v := r.B[0]
	r.B = r.B[1:]
	return v
}
func (r *R) Short() int {
	if !r.need(2) {
		return 0
	}
	v := int(binary.BigEndian.Uint16(r.B))
	r.B = r.B[2:]
	return v
}
func (r *R) Int() int32 {
	if !r.need(4) {
		return 0
	}
	v := int32(binary.BigEndian.Uint32(r.B))
	r.B = r.B[4:]
	return v
}
func (r *R) Long() int64 {
	if !r.need(8) {
		return 0
	}
	v := int64(binary.BigEndian.Uint64(r.B))
	r.B = r.B[8:]
	return v
}
func (r *R) String() string {
	n := r.Short()
	if !r.need(n) {
		return ""
	}
	s := string(r.B[:n])
	r.B = r.B[n:]
	return s
}
func (r *R) LongString() string {
	n := int(r.Int())
	if !r.need(n) {
		return ""
	}
	s := string(r.B[:n])
	r.B = r.B[n:]
	return s
}
func (r *R) Bytes() []byte {
	n := int(r.Int())
	if n < 0 {
		return nil
	}
	if !r.need(n) {
		return nil
	}
	b := append([]byte{}, r.B[:n]...)
	r.B = r.B[n:]
	return b
}
func (r *R) ShortBytes() []byte {
	n := r.Short()
	if !r.need(n) {
		return nil
	}
	b := append([]byte{}, r.B[:n]...)
	r.B = r.B[n:]
	return b
}
func (r *R) StringMap() map[string]string {
	n := r.Short()
	m := map[string]string{}
	for i := 0; i < n && r.Err == nil; i++ {
		k := r.String()
		m[k] = r.String()
	}
	return m
}

// CQL type option ids
const (
	TBigint  = 0x0002
	TBlob    = 0x0003
	TInt     = 0x0009
	TVarchar = 0x000D
)

type Col struct {
	Name string
	Type int
}

// RowsBody builds a RESULT/Rows body (kind 2). pagingState nil ⇒ no more pages.
func RowsBody(cols []Col, rows [][][]byte, pagingState []byte, noMetadata bool) []byte {
	w := &W{}
	w.Int(2)
	flags := int32(0)
	if !noMetadata {
		flags |= 1 // global tables spec
	} else {
		flags |= 4
	}
	if pagingState != nil {
		flags |= 2
	}
	w.Int(flags)
	w.Int(int32(len(cols)))
	if pagingState != nil {
		w.Bytes(pagingState)
	}
	if !noMetadata {
		w.String("ks")
		w.String("tbl")
		for _, c := range cols {
			w.String(c.Name)
			w.Short(c.Type)
		}
	}
	w.Int(int32(len(rows)))
	for _, row := range rows {
		for _, cell := range row {
			w.Bytes(cell)
		}
	}
	return w.B
}

func VoidBody() []byte { w := &W{}; w.Int(1); return w.B }

// ErrorBody builds an ERROR body; extra is appended verbatim (code-specific fields).
func ErrorBody(code int32, msg string, extra []byte) []byte {
	w := &W{}
	w.Int(code)
	w.String(msg)
	w.B = append(w.B, extra...)
	return w.B
}

// Error codes
const (
	ErrServer      = 0x0000
	ErrUnavailable = 0x1000
	ErrOverloaded  = 0x1001
	ErrBootstrap   = 0x1002
	ErrWriteTO     = 0x1100
	ErrReadTO      = 0x1200
	ErrSyntax      = 0x2000
	ErrInvalid     = 0x2200
	ErrUnprepared  = 0x2500
)

func UnavailableExtra(cl, required, alive int) []byte {
	w := &W{}
	w.Short(cl)
	w.Int(int32(required))
	w.Int(int32(alive))
	return w.B
}
func WriteTimeoutExtra(cl, received, blockfor int, writeType string) []byte {
	w := &W{}
	w.Short(cl)
	w.Int(int32(received))
	w.Int(int32(blockfor))
	w.String(writeType)
	return w.B
}
func ReadTimeoutExtra(cl, received, blockfor int, dataPresent byte) []byte {
	w := &W{}
	w.Short(cl)
	w.Int(int32(received))
	w.Int(int32(blockfor))
	w.Byte(dataPresent)
	return w.B
}
func UnpreparedExtra(id []byte) []byte { w := &W{}; w.ShortBytes(id); return w.B }

// PreparedBody builds RESULT/Prepared (kind 4) for proto 3/4: bind columns and result columns.
func PreparedBody(proto int, id []byte, bind []Col, pk []int, result []Col) []byte {
	w := &W{}
	w.Int(4)
	w.ShortBytes(id)
	// prepared metadata
	w.Int(1) // global tables spec
	w.Int(int32(len(bind)))
	if proto >= 4 {
		w.Int(int32(len(pk)))
		for _, i := range pk {
			w.Short(i)
		}
	}
	w.String("ks")
	w.String("tbl")
	for _, c := range bind {
		w.String(c.Name)
		w.Short(c.Type)
	}
	if proto >= 2 {
		// result metadata
		w.Int(1)
		w.Int(int32(len(result)))
		w.String("ks")
		w.String("tbl")
		for _, c := range result {
			w.String(c.Name)
			w.Short(c.Type)
		}
	}
	return w.B
}
