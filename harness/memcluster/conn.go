// Package memcluster: an in-memory scripted CQL "cluster" for black-box correspondence runs.
// Connections are net.Pipe pairs wrapped with fault injection (cut a write at a chosen byte,
// error, stall) and a recorder of the exact byte stream the driver wrote. The server side
// speaks the native protocol (legacy framing v2-v4) with a codec written from the protocol
// specification (not gocql's framer).
package memcluster

import (
	"errors"
	"fmt"
	"net"
	"runtime"
	"sync"
	"time"
)

// EventLog is a global, totally ordered log shared by server, connections and client drivers.
type EventLog struct {
	mu  sync.Mutex
	evs []string
}

func (l *EventLog) Add(format string, a ...interface{}) {
	l.mu.Lock()
	l.evs = append(l.evs, fmt.Sprintf(format, a...))
	l.mu.Unlock()
}

// Do runs f while holding the log lock and appends the event it returns (for actions that must
// be logged atomically with their effect).
func (l *EventLog) Do(f func() string) {
	l.mu.Lock()
	if s := f(); s != "" {
		l.evs = append(l.evs, s)
	}
	l.mu.Unlock()
}

func (l *EventLog) Snapshot() []string {
	l.mu.Lock()
	defer l.mu.Unlock()
	return append([]string(nil), l.evs...)
}

var ErrInjected = errors.New("memcluster: injected write error")

// WriteFault describes what happens to client->server bytes: after `CutAt` bytes in total
// (cumulative over the connection) the current Write is cut short and returns Err.
// CutAt < 0 disables. HoldUntil (optional) is waited for before the faulty Write returns.
type WriteFault struct {
	CutAt     int64
	HoldUntil <-chan struct{}
}

// ClientConn is the driver's end.
type ClientConn struct {
	net.Conn
	remote  *net.TCPAddr
	mu      sync.Mutex
	written int64
	fault   WriteFault
	broken  bool
	// BreakAfterCut: after a cut the socket rejects every later write (connection reset); otherwise it
	// stays writable (the cut models a write-deadline expiry).
	BreakAfterCut bool
	// Wire records every byte accepted from the driver, in order.
	Wire []byte
	// Writes records the size of each Write call accepted (n actually written).
	Writes  []int
	OnWrite func(p []byte, n int, err error)
	closed  bool
	ClosedC chan struct{}
	// CloseErr (optional, set before the driver can close the connection, e.g. in Node.OnConn): what Close()
	// reports AFTER having closed the pipe - a transport whose Close fails, as tls.Conn.Close does when the
	// close_notify alert can not be written. CloseCalls counts the calls of Close.
	CloseErr   error
	CloseCalls int
	// OnClose (optional) is called on the closing goroutine at the start of every Close.
	OnClose func(c *ClientConn)
}

func (c *ClientConn) RemoteAddr() net.Addr { return c.remote }
func (c *ClientConn) LocalAddr() net.Addr  { return &net.TCPAddr{IP: net.IPv4(127, 0, 0, 1), Port: 1} }

func (c *ClientConn) SetFault(f WriteFault) {
	c.mu.Lock()
	c.fault = f
	c.mu.Unlock()
}

func (c *ClientConn) Write(p []byte) (int, error) {
	c.mu.Lock()
	if c.broken {
		c.mu.Unlock()
		return 0, ErrInjected
	}
	f := c.fault
	start := c.written
	c.mu.Unlock()
	limit := len(p)
	cut := false
	if f.CutAt >= 0 && start+int64(len(p)) > f.CutAt {
		limit = int(f.CutAt - start)
		if limit < 0 {
			limit = 0
		}
		cut = true
	}
	n := 0
	var err error
	if limit > 0 {
		n, err = c.Conn.Write(p[:limit])
	}
	if err != nil && DebugWriteErr != nil {
		DebugWriteErr(n, len(p), err)
	}
	c.mu.Lock()
	c.written += int64(n)
	c.Wire = append(c.Wire, p[:n]...)
	c.Writes = append(c.Writes, n)
	if cut && err == nil {
		err = ErrInjected
		c.broken = c.BreakAfterCut
		c.fault.CutAt = -1
	}
	cb := c.OnWrite
	c.mu.Unlock()
	if cut && f.HoldUntil != nil {
		select {
		case <-f.HoldUntil:
		case <-time.After(5 * time.Second):
		}
	}
	if cb != nil {
		cb(p, n, err)
	}
	return n, err
}

// DebugWriteErr, if set, is called for every failing Write.
var DebugWriteErr func(n, l int, err error)

// DebugClose, if set, is called with a stack trace on the first Close of every client conn.
var DebugClose func(stack string)

func (c *ClientConn) Close() error {
	if DebugClose != nil {
		buf := make([]byte, 8192)
		DebugClose(string(buf[:runtime.Stack(buf, false)]))
	}
	c.mu.Lock()
	oc := c.OnClose
	c.mu.Unlock()
	if oc != nil {
		oc(c)
	}
	c.mu.Lock()
	c.CloseCalls++
	cerr := c.CloseErr
	first := !c.closed
	c.closed = true
	c.mu.Unlock()
	err := c.Conn.Close()
	if first {
		close(c.ClosedC) // after the pipe is closed: whoever waits for ClosedC sees a closed transport
	}
	if cerr != nil {
		return cerr
	}
	return err
}

// NumCloseCalls reports how often the driver called Close.
func (c *ClientConn) NumCloseCalls() int {
	c.mu.Lock()
	defer c.mu.Unlock()
	return c.CloseCalls
}

// SetCloseErr sets the error Close reports from now on.
func (c *ClientConn) SetCloseErr(err error) {
	c.mu.Lock()
	c.CloseErr = err
	c.mu.Unlock()
}

func (c *ClientConn) WireSnapshot() []byte {
	c.mu.Lock()
	defer c.mu.Unlock()
	return append([]byte(nil), c.Wire...)
}

func (c *ClientConn) IsClosed() bool {
	c.mu.Lock()
	defer c.mu.Unlock()
	return c.closed
}

// NewPair returns the driver's end and the server's end.
func NewPair(ip net.IP, port int) (*ClientConn, net.Conn) {
	a, b := net.Pipe()
	return &ClientConn{Conn: a, remote: &net.TCPAddr{IP: ip, Port: port}, fault: WriteFault{CutAt: -1}, ClosedC: make(chan struct{})}, b
}
