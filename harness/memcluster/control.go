package memcluster

// Scripted CONTROL PLANE for memcluster nodes: answers the driver's system-table queries
// (system.local, system.peers, system.peers_v2, the schema-agreement query) with typed rows from a
// scripted topology that the test changes between steps, pushes EVENT frames (STATUS_CHANGE,
// TOPOLOGY_CHANGE) on the connection the driver uses as its control connection, counts the
// queries it saw, can fail refresh queries and drop the control connection.
// The row encoding is written from the native protocol specification (section 6, data types), not
// from gocql's marshaller.

import (
	"encoding/hex"
	"net"
	"strings"
	"sync"
)

// CQL type option ids used by the system tables
const (
	TUUID = 0x000C
	TInet = 0x0010
	TSet  = 0x0022
)

// SysCol is one column of a system table: Kind is "text", "inet", "uuid", "settext" or "int".
type SysCol struct {
	Name string
	Kind string
}

// SysRow holds the cells of one row by column name; a missing key (or a nil value) is a NULL cell.
// text: string; inet: string (dotted / v6 text) or net.IP; uuid: string (canonical form); settext: []string; int: int.
type SysRow map[string]interface{}

var LocalCols = []SysCol{
	{"key", "text"}, {"bootstrapped", "text"}, {"broadcast_address", "inet"}, {"cluster_name", "text"},
	{"cql_version", "text"}, {"data_center", "text"}, {"host_id", "uuid"}, {"listen_address", "inet"},
	{"native_protocol_version", "text"}, {"partitioner", "text"}, {"rack", "text"}, {"release_version", "text"},
	{"rpc_address", "inet"}, {"schema_version", "uuid"}, {"tokens", "settext"},
}

var PeerCols = []SysCol{
	{"peer", "inet"}, {"data_center", "text"}, {"host_id", "uuid"}, {"preferred_ip", "inet"}, {"rack", "text"},
	{"release_version", "text"}, {"rpc_address", "inet"}, {"schema_version", "uuid"}, {"tokens", "settext"},
}

func writeColType(w *W, kind string) {
	switch kind {
	case "text":
		w.Short(TVarchar)
	case "inet":
		w.Short(TInet)
	case "uuid":
		w.Short(TUUID)
	case "int":
		w.Short(TInt)
	case "settext":
		w.Short(TSet)
		w.Short(TVarchar)
	default:
		panic("memcluster: unknown column kind " + kind)
	}
}

func parseUUID(s string) []byte {
	b, err := hex.DecodeString(strings.ReplaceAll(s, "-", ""))
	if err != nil || len(b) != 16 {
		panic("memcluster: bad uuid " + s)
	}
	return b
}

func encodeCell(kind string, v interface{}) []byte {
	if v == nil {
		return nil
	}
	switch kind {
	case "text":
		return []byte(v.(string))
	case "inet":
		var ip net.IP
		switch x := v.(type) {
		case string:
			if x == "" {
				return nil
			}
			ip = net.ParseIP(x)
		case net.IP:
			ip = x
		}
		if ip == nil {
			return nil
		}
		if v4 := ip.To4(); v4 != nil {
			return []byte(v4)
		}
		return []byte(ip.To16())
	case "uuid":
		s := v.(string)
		if s == "" {
			return nil
		}
		return parseUUID(s)
	case "int":
		n := int32(v.(int))
		return []byte{byte(n >> 24), byte(n >> 16), byte(n >> 8), byte(n)}
	case "settext":
		l, ok := v.([]string)
		if !ok || l == nil {
			return nil
		}
		w := &W{}
		w.Int(int32(len(l))) // proto >= 3: [int] n, then n [bytes]
		for _, s := range l {
			w.Bytes([]byte(s))
		}
		if len(w.B) == 0 {
			return []byte{}
		}
		return w.B
	}
	panic("memcluster: unknown column kind " + kind)
}

// SysRowsBody builds a RESULT/Rows body (kind 2, global table spec, no paging) for a system table.
func SysRowsBody(ks, tbl string, cols []SysCol, rows []SysRow) []byte {
	w := &W{}
	w.Int(2)
	w.Int(1) // flags: global tables spec
	w.Int(int32(len(cols)))
	w.String(ks)
	w.String(tbl)
	for _, c := range cols {
		w.String(c.Name)
		writeColType(w, c.Kind)
	}
	w.Int(int32(len(rows)))
	for _, row := range rows {
		for _, c := range cols {
			w.Bytes(encodeCell(c.Kind, row[c.Name]))
		}
	}
	return w.B
}

// InetBody encodes an [inet] (address + port) as used in EVENT bodies.
func (w *W) Inet(ip net.IP, port int) {
	b := []byte(ip.To4())
	if b == nil {
		b = []byte(ip.To16())
	}
	w.Byte(byte(len(b)))
	w.B = append(w.B, b...)
	w.Int(int32(port))
}

// StatusEventBody / TopologyEventBody build EVENT bodies.
func StatusEventBody(change string, ip net.IP, port int) []byte {
	w := &W{}
	w.String("STATUS_CHANGE")
	w.String(change)
	w.Inet(ip, port)
	return w.B
}
func TopologyEventBody(change string, ip net.IP, port int) []byte {
	w := &W{}
	w.String("TOPOLOGY_CHANGE")
	w.String(change)
	w.Inet(ip, port)
	return w.B
}

// ControlPlane scripts the system tables of every node of a cluster.
type ControlPlane struct {
	mu sync.Mutex
	// Local returns the system.local row of a node (nil ⇒ zero rows); Peers its system.peers rows.
	Local func(node string) SysRow
	Peers func(node string) []SysRow
	// FailLocal / FailPeers make the corresponding query answer a server error.
	FailLocal, FailPeers bool
	// PeersV2 false ⇒ system.peers_v2 answers Invalid (unconfigured table), as Cassandra 3.x does.
	PeersV2 bool
	// counters of queries seen (all nodes)
	LocalQueries, PeersQueries, SchemaQueries, OtherQueries int
	// Fallback is called for every non-system request (nil ⇒ void result).
	Fallback func(req *Request)
	control  map[string]*ServerConn // node ip -> connection that last asked for system.local
	lastCtl  *ServerConn
	// holdPeers: number of coming system.peers queries whose answer (computed when the query arrives) is held
	// back until ReleasePeers; held: the release channels of the answers being held
	holdPeers int
	held      []chan struct{}
}

// NewControlPlane attaches a control plane to every node of the cluster.
func NewControlPlane(cl *Cluster) *ControlPlane {
	cp := &ControlPlane{control: map[string]*ServerConn{}}
	for _, n := range cl.Nodes {
		n.Handle = cp.Handle
	}
	return cp
}

// AttachNode attaches the control plane to a node added later.
func (cp *ControlPlane) AttachNode(n *Node) { n.Handle = cp.Handle }

// Do runs f with the control plane's lock held (to change the script atomically w.r.t. queries).
func (cp *ControlPlane) Do(f func()) {
	cp.mu.Lock()
	defer cp.mu.Unlock()
	f()
}

func normStmt(s string) string {
	return strings.ToLower(strings.Join(strings.Fields(strings.TrimRight(strings.TrimSpace(s), ";")), " "))
}

// Handle is the Node.Handle of control-plane nodes.
func (cp *ControlPlane) Handle(req *Request) {
	if req.Op != OpQuery {
		cp.other(req)
		return
	}
	node := req.Conn.Node.IP.String()
	st := normStmt(req.Stmt)
	switch {
	case st == "select * from system.local where key='local'":
		cp.mu.Lock()
		cp.LocalQueries++
		cp.control[node] = req.Conn
		cp.lastCtl = req.Conn
		fail := cp.FailLocal
		var rows []SysRow
		if !fail && cp.Local != nil {
			if r := cp.Local(node); r != nil {
				rows = []SysRow{r}
			}
		}
		cp.mu.Unlock()
		if fail {
			req.Conn.Reply(req.Stream, OpError, ErrorBody(ErrServer, "memcluster: scripted failure of system.local", nil))
			return
		}
		req.Conn.Reply(req.Stream, OpResult, SysRowsBody("system", "local", LocalCols, rows))
	case st == "select * from system.peers":
		cp.mu.Lock()
		cp.PeersQueries++
		fail := cp.FailPeers
		var rows []SysRow
		if !fail && cp.Peers != nil {
			rows = cp.Peers(node)
		}
		var hold chan struct{}
		if cp.holdPeers > 0 {
			cp.holdPeers--
			hold = make(chan struct{})
			cp.held = append(cp.held, hold)
		}
		cp.mu.Unlock()
		answer := func() {
			if fail {
				req.Conn.Reply(req.Stream, OpError, ErrorBody(ErrServer, "memcluster: scripted failure of system.peers", nil))
				return
			}
			req.Conn.Reply(req.Stream, OpResult, SysRowsBody("system", "peers", PeerCols, rows))
		}
		if hold != nil {
			// a slow node: the answer is the table as it was when the query arrived, sent when the script says so
			// (not on the reader goroutine: the connection keeps reading requests meanwhile)
			go func() {
				<-hold
				answer()
			}()
			return
		}
		answer()
	case st == "select * from system.peers_v2":
		cp.mu.Lock()
		v2 := cp.PeersV2
		cp.mu.Unlock()
		if !v2 {
			req.Conn.Reply(req.Stream, OpError, ErrorBody(ErrInvalid, "unconfigured table peers_v2", nil))
			return
		}
		req.Conn.Reply(req.Stream, OpError, ErrorBody(ErrInvalid, "memcluster: peers_v2 not scripted", nil))
	case st == "select schema_version from system.local where key='local'":
		cp.mu.Lock()
		cp.SchemaQueries++
		var rows []SysRow
		if cp.Local != nil {
			if r := cp.Local(node); r != nil {
				rows = []SysRow{{"schema_version": r["schema_version"]}}
			}
		}
		cp.mu.Unlock()
		req.Conn.Reply(req.Stream, OpResult, SysRowsBody("system", "local", []SysCol{{"schema_version", "uuid"}}, rows))
	default:
		cp.other(req)
	}
}

func (cp *ControlPlane) other(req *Request) {
	cp.mu.Lock()
	cp.OtherQueries++
	fb := cp.Fallback
	cp.mu.Unlock()
	if fb != nil {
		fb(req)
		return
	}
	req.Conn.Reply(req.Stream, OpResult, VoidBody())
}

// HoldNextPeers makes the node hold back its answer to the next n system.peers queries: each answer is computed
// when its query arrives (the table as it is then) and sent only by ReleasePeers.
func (cp *ControlPlane) HoldNextPeers(n int) {
	cp.mu.Lock()
	cp.holdPeers += n
	cp.mu.Unlock()
}

// HeldPeers returns how many system.peers answers are being held right now.
func (cp *ControlPlane) HeldPeers() int {
	cp.mu.Lock()
	defer cp.mu.Unlock()
	return len(cp.held)
}

// ReleasePeers sends every held system.peers answer and cancels holds that no query has met yet; it returns the
// number of answers released.
func (cp *ControlPlane) ReleasePeers() int {
	cp.mu.Lock()
	h := cp.held
	cp.held = nil
	cp.holdPeers = 0
	cp.mu.Unlock()
	for _, c := range h {
		close(c)
	}
	return len(h)
}

// Counts returns (system.local queries, system.peers queries) seen so far.
func (cp *ControlPlane) Counts() (local, peers int) {
	cp.mu.Lock()
	defer cp.mu.Unlock()
	return cp.LocalQueries, cp.PeersQueries
}

// Registered returns the event types of the last REGISTER frame the driver wrote on the connection
// (read from the recorded wire bytes), nil if none.
func Registered(sc *ServerConn) []string {
	frames, _, _ := SplitFrames(sc.Cli.WireSnapshot(), sc.Proto)
	var out []string
	for _, f := range frames {
		if f.Op == OpRegister {
			r := &R{B: f.Body}
			n := r.Short()
			out = nil
			for i := 0; i < n && r.Err == nil; i++ {
				out = append(out, r.String())
			}
		}
	}
	return out
}

// ControlConn returns the live connection on which the driver last queried system.local (the driver's
// control connection), or nil.
func (cp *ControlPlane) ControlConn() *ServerConn {
	cp.mu.Lock()
	cands := []*ServerConn{cp.lastCtl}
	for _, sc := range cp.control {
		cands = append(cands, sc)
	}
	cp.mu.Unlock()
	for _, sc := range cands {
		if sc == nil {
			continue
		}
		sc.wmu.Lock()
		dead := sc.dead
		sc.wmu.Unlock()
		if dead || sc.Cli.IsClosed() {
			continue
		}
		return sc
	}
	return nil
}

// eventType reads the event type ([string]) an EVENT body starts with.
func eventType(body []byte) string {
	r := &R{B: body}
	return r.String()
}

// PushEvents sends EVENT frames (stream -1) with the given bodies back to back on the control connection — only
// those whose event type the driver REGISTERed for on that connection, as a server does; false if there is no
// live control connection.
func (cp *ControlPlane) PushEvents(bodies ...[]byte) bool {
	sc := cp.ControlConn()
	if sc == nil {
		return false
	}
	reg := map[string]bool{}
	for _, t := range Registered(sc) {
		reg[t] = true
	}
	var all []byte
	for _, b := range bodies {
		if !reg[eventType(b)] {
			continue
		}
		f := &Frame{Version: byte(sc.Proto) | 0x80, Stream: -1, Op: OpEvent, Body: b}
		all = append(all, f.Encode(sc.Proto)...)
	}
	if len(all) == 0 {
		return true
	}
	return sc.WriteRaw(all) == nil
}

// DropControl closes the server's end of the control connection (connection reset).
func (cp *ControlPlane) DropControl() bool {
	sc := cp.ControlConn()
	if sc == nil {
		return false
	}
	sc.Close()
	return true
}
