// Package sess: helpers to run a real gocql.Session against the in-memory scripted cluster.
package sess

import (
	"io/ioutil"
	"log"
	"time"

	"github.com/gocql/gocql"
	"verifharness/memcluster"
)

// DebugLogger, if set, replaces the silent logger.
var DebugLogger gocql.StdLogger

// Config returns a ClusterConfig wired to the in-memory cluster: no control connection, no host
// lookup, the given protocol version, one connection per host, silent logger.
func Config(cl *memcluster.Cluster, proto int, ips ...string) *gocql.ClusterConfig {
	cfg := gocql.NewCluster(ips...)
	cfg.ProtoVersion = proto
	cfg.HostDialer = cl
	cfg.NumConns = 1
	cfg.Timeout = 2 * time.Second
	cfg.ConnectTimeout = 2 * time.Second
	cfg.DisableInitialHostLookup = true
	cfg.ReconnectInterval = 0
	cfg.WriteCoalesceWaitTime = 0
	cfg.Logger = log.New(ioutil.Discard, "", 0)
	if DebugLogger != nil {
		cfg.Logger = DebugLogger
	}
	cfg.PoolConfig.HostSelectionPolicy = gocql.RoundRobinHostPolicy()
	cfg.Consistency = gocql.One
	cfg.ReconnectionPolicy = &gocql.ConstantReconnectionPolicy{MaxRetries: 1, Interval: time.Millisecond}
	gocql.VerifDisableControlConn(cfg)
	return cfg
}

// WaitConns waits until the session has n live connections (or the timeout passes).
func WaitConns(s *gocql.Session, n int, d time.Duration) bool {
	dl := time.Now().Add(d)
	for time.Now().Before(dl) {
		if len(gocql.VerifSessionConns(s)) >= n {
			return true
		}
		time.Sleep(time.Millisecond)
	}
	return false
}
