package muxrun

// The program points of the REAL Conn.exec as scheduling points (C06, round f): a bare Conn over a transport the
// harness owns, real callers, and a StreamObserver (public API) whose callbacks run INSIDE exec / releaseStream:
//
//	G  StreamContext   the id is reserved (GetStream returned), the call is not yet registered (addCall)
//	R  StreamStarted   the call is registered in c.calls, its frame is neither built nor written
//	F  StreamFinished  the id has been cleared (inside releaseStream), exec has not returned
//
// A call started with a park mask stops at those points until the script lets it go; everything else (other
// callers, the server, the receive loop, Conn.Close, the server closing the transport = closeWithError(err) with its
// delivery loop) runs in between. No wall clock decides anything (Conn.timeout = 0).
//
//	ex <proto> <writer 0|1> <step>...
//
//	n<f><m>  start the next call (numbered 1, 2, ...): f = o (frame built and written) | b (the frame builder fails);
//	         m = park mask 0..7 (1: G, 2: R, 4: F). Ends when the call is parked / its request is on the wire / it returned.
//	g<i>     let call i go on from its park; ends when it is parked again / its request is on the wire / it returned
//	d<i>     the server answers call i (whole frame); ends when the receive loop is blocked again and call i is parked or returned
//	c<i>     cancel the context of call i (only calls in their select); ends when it has returned
//	a        report cap-1-AvailableStreams()
//	f        report the number of StreamFinished call-backs so far (one per id released)
//	K        Conn.Close(); ends when it has returned and every call in its select has returned
//	Z        the server closes the transport: serve → closeWithError(err); ends when the connection is marked closed
//	e        (after Z) ends when closeWithError is through (error handler called) and every call in its select returned
//
// Answer: `a=<n>` per `a`, then `;` and one letter per call: R own response / C context / X connection closed /
// E connection error / B build error / U refused "stream already in use" / N no streams / W in its select / P parked.
// The Lean side (Driver/C06.lean `ex`) runs the same script on Model/MuxExec.lean.

import (
	"context"
	"fmt"
	"runtime"
	"strconv"
	"strings"
	"sync"
	"sync/atomic"
	"time"

	"github.com/gocql/gocql"
	"verifharness/memcluster"
	"verifharness/vh"
)

// ExHangDump holds the goroutine dump of the last exec script that hung.
var ExHangDump string
var exHung bool

var exWatch = 16 * time.Second


// exWaitFor blocks until cond holds. A hang is declared only when BOTH the watchdog time has passed AND this goroutine
// itself has seen exTicks expirations of its 300 µs poll timer: on a machine so overloaded that the process hardly
// runs, the poll timers (and the timers of the code under test) do not expire either, so starvation is not a hang.
func exWaitFor(cond func() bool, notify <-chan struct{}, what string) {
	start := time.Now()
	ticks := 0
	for !cond() {
		select {
		case <-notify:
		case <-time.After(300 * time.Microsecond):
			ticks++
		}
		if ticks >= exTicks && time.Since(start) > exWatch && !cond() {
			buf := make([]byte, 1<<20)
			n := runtime.Stack(buf, true)
			panic(jrHang{what, string(buf[:n])})
		}
	}
}

const exTicks = 12000

type exKey struct{}

type exCall struct {
	idx     int
	fate    byte
	mask    int
	ctx     context.Context
	cancel  context.CancelFunc
	done    chan struct{}
	res     gocql.VerifC06Result
	mu      sync.Mutex
	parked  byte // 0 or 'G' 'R' 'F'
	parkSeq int
	resume  chan struct{}
	free    *int32
	run     *exRun
	gone    bool
}

type exRun struct {
	tr      *jrTransport
	conn    *gocql.VerifC06Conn
	freeAll chan struct{}
	fins    int32 // StreamFinished call-backs so far
}

func (c *exCall) park(p byte, bit int) {
	if c.mask&bit == 0 {
		return
	}
	select {
	case <-c.run.freeAll:
		return
	default:
	}
	c.mu.Lock()
	c.parked = p
	c.parkSeq++
	ch := make(chan struct{})
	c.resume = ch
	c.mu.Unlock()
	c.run.tr.poke()
	select {
	case <-ch:
	case <-c.run.freeAll:
	}
	c.mu.Lock()
	c.parked = 0
	c.mu.Unlock()
}

func (c *exCall) state() (parked byte, seq int) {
	c.mu.Lock()
	defer c.mu.Unlock()
	return c.parked, c.parkSeq
}

func (c *exCall) returned() bool {
	select {
	case <-c.done:
		return true
	default:
		return false
	}
}

type exObserver struct{}

type exObsCtx struct{ c *exCall }

func (exObserver) StreamContext(ctx context.Context) gocql.StreamObserverContext {
	c, _ := ctx.Value(exKey{}).(*exCall)
	if c == nil {
		return nil
	}
	c.park('G', 1)
	return &exObsCtx{c}
}
func (x *exObsCtx) StreamStarted(gocql.ObservedStream)   { x.c.park('R', 2) }
func (x *exObsCtx) StreamAbandoned(gocql.ObservedStream) {}
func (x *exObsCtx) StreamFinished(gocql.ObservedStream) {
	atomic.AddInt32(&x.c.run.fins, 1)
	if x.c.run.conn.Closed() {
		return
	}
	x.c.park('F', 4)
}

// RunExec executes one `ex` line on the real code.
func RunExec(line string) (ans string) {
	if exHung {
		return "skipped-after-hang"
	}
	defer func() {
		if e := recover(); e != nil {
			if h, ok := e.(jrHang); ok {
				ExHangDump = "exec script: " + line + "\nblocked: " + h.what + "\n\n" + h.dump
				exHung = true
				ans = fmt.Sprintf("crash:hang:%s(watchdog,blocked-in-gocql=%v)", h.what, strings.Contains(ExHangDump, "gocql.(*Conn)"))
				return
			}
			ans = fmt.Sprintf("crash:%v", e)
		}
	}()
	w := strings.Fields(line)
	if len(w) < 3 || w[0] != "ex" {
		return "bad-op"
	}
	proto, e1 := strconv.Atoi(w[1])
	wr, e2 := strconv.Atoi(w[2])
	if e1 != nil || e2 != nil || proto < 2 || proto > 4 {
		return "bad-op"
	}
	tr := newJrTransport()
	var coalesce time.Duration
	if wr != 0 {
		coalesce = 100 * time.Microsecond
	}
	var errMu sync.Mutex
	handled := false
	conn := gocql.VerifC06NewConn(tr, proto, coalesce, 0, func(err error, closed bool) {
		errMu.Lock()
		handled = true
		errMu.Unlock()
		tr.poke()
	})
	run := &exRun{tr: tr, conn: conn, freeAll: make(chan struct{})}
	conn.SetStreamObserver(exObserver{})
	cap := conn.Cap()

	waitFor := func(cond func() bool, what string) { exWaitFor(cond, tr.notify, what) }
	var calls []*exCall
	freed := false
	defer func() {
		if !freed {
			close(run.freeAll)
		}
		for _, c := range calls {
			c.cancel()
		}
	}()
	written := func(c *exCall) (int, bool) {
		for _, rq := range tr.requests(proto) {
			if rq.Op == memcluster.OpQuery && len(rq.Body) >= 4 && strings.HasPrefix(string(rq.Body[4:]), fmt.Sprintf("X%d;", c.idx)) {
				return rq.Stream, true
			}
		}
		return 0, false
	}
	// settle: the call has moved on from where it was: parked anew, or its request has appeared on the wire, or it returned
	settle := func(c *exCall, seq0 int, wasWritten bool, what string) {
		waitFor(func() bool {
			if c.returned() {
				return true
			}
			p, seq := c.state()
			if p != 0 && seq > seq0 {
				return true
			}
			if !wasWritten {
				if _, ok := written(c); ok {
					return true
				}
			}
			return false
		}, what)
	}
	inSelect := func(c *exCall) bool {
		if c.returned() {
			return false
		}
		if p, _ := c.state(); p != 0 {
			return false
		}
		_, ok := written(c)
		return ok
	}
	var out []string
	closed, zed, term := false, false, false
	waitFor(tr.drained, "receive loop never started reading")
	for _, st := range w[3:] {
		num := func() (*exCall, bool) {
			i, err := strconv.Atoi(st[1:])
			if err != nil || i < 1 || i > len(calls) {
				return nil, false
			}
			return calls[i-1], true
		}
		if !closed && tr.isClosed() {
			return fmt.Sprintf("connection-closed-by-the-driver(before %q)", st)
		}
		switch st[0] {
		case 'n':
			if len(st) != 3 || (st[1] != 'o' && st[1] != 'b') || st[2] < '0' || st[2] > '7' || len(calls) >= 40 {
				return "bad-op"
			}
			c := &exCall{idx: len(calls) + 1, fate: st[1], mask: int(st[2] - '0'), done: make(chan struct{}), run: run}
			ctx, cancel := context.WithCancel(context.WithValue(context.Background(), exKey{}, c))
			c.ctx, c.cancel = ctx, cancel
			calls = append(calls, c)
			go func() {
				c.res = conn.ExecBuild(ctx, fmt.Sprintf("X%d;", c.idx), c.fate == 'b')
				close(c.done)
				tr.poke()
			}()
			settle(c, 0, false, fmt.Sprintf("call %d neither parked nor wrote its request nor returned", c.idx))
		case 'g':
			c, ok := num()
			if !ok {
				return "bad-op"
			}
			c.mu.Lock()
			p, seq, ch := c.parked, c.parkSeq, c.resume
			c.mu.Unlock()
			if p == 0 {
				break
			}
			_, ww := written(c)
			close(ch)
			settle(c, seq, ww, fmt.Sprintf("call %d let go at %c neither parked again nor wrote its request nor returned", c.idx, p))
		case 'd':
			c, ok := num()
			if !ok || closed {
				return "bad-op"
			}
			sid, ok := written(c)
			if !ok && c.returned() {
				return fmt.Sprintf("call %d returned without writing its request:%s:%s", c.idx, c.res.Class, strings.ReplaceAll(fmt.Sprint(c.res.Err), " ", "_"))
			}
			if !ok {
				return "bad-op"
			}
			_, seq := c.state()
			f := &memcluster.Frame{Version: byte(proto) | 0x80, Stream: sid, Op: memcluster.OpResult, Body: jrBody(c.idx, 20+c.idx)}
			tr.deliver(f.Encode(proto))
			waitFor(tr.drained, fmt.Sprintf("receive loop did not come back for more after the response of call %d", c.idx))
			if !c.gone {
				waitFor(func() bool {
					if c.returned() {
						return true
					}
					p, s2 := c.state()
					return p != 0 && s2 > seq
				}, fmt.Sprintf("call %d neither returned nor reached releaseStream although its whole response was received", c.idx))
			}
		case 'c':
			c, ok := num()
			if !ok || zed || !inSelect(c) || c.mask&4 != 0 {
				return "bad-op"
			}
			c.gone = true
			c.cancel()
			waitFor(c.returned, fmt.Sprintf("call %d did not return after its context was cancelled", c.idx))
		case 'a':
			if closed {
				return "bad-op"
			}
			out = append(out, fmt.Sprintf("a=%d", cap-1-conn.Avail()))
		case 'f':
			if closed {
				return "bad-op"
			}
			out = append(out, fmt.Sprintf("f=%d", atomic.LoadInt32(&run.fins)))
		case 'K':
			if closed {
				return "bad-op"
			}
			var sel []*exCall
			for _, c := range calls {
				if inSelect(c) {
					sel = append(sel, c)
				}
			}
			closed, term = true, true
			done := make(chan struct{})
			go func() { conn.Close(); close(done); tr.poke() }()
			waitFor(func() bool {
				select {
				case <-done:
					return true
				default:
					return false
				}
			}, "Conn.Close did not return")
			for _, c := range sel {
				waitFor(c.returned, fmt.Sprintf("call %d did not return after Conn.Close", c.idx))
			}
		case 'Z':
			if closed {
				return "bad-op"
			}
			closed, zed = true, true
			tr.mu.Lock()
			tr.eof = true
			tr.mu.Unlock()
			tr.kick()
			waitFor(conn.Closed, "the connection was not marked closed after the server closed the transport")
		case 'e':
			if !zed || term {
				return "bad-op"
			}
			term = true
			var sel []*exCall
			for _, c := range calls {
				if inSelect(c) {
					sel = append(sel, c)
				}
			}
			waitFor(func() bool { errMu.Lock(); defer errMu.Unlock(); return handled && tr.isClosed() },
				"closeWithError did not get through its delivery loop (error handler never called)")
			for _, c := range sel {
				waitFor(c.returned, fmt.Sprintf("call %d did not return after closeWithError was through", c.idx))
			}
		default:
			return "bad-op"
		}
	}
	out = append(out, ";")
	for _, c := range calls {
		if c.returned() {
			l := map[string]string{"ctx": "C", "closed": "X", "err": "E", "timeout": "T", "deadline": "C", "nostreams": "N", "build": "B", "inuse": "U"}[c.res.Class]
			if c.res.Class == "resp" {
				l = "R"
				sid, _ := written(c)
				if c.res.Stream != sid || c.res.Op != memcluster.OpResult || c.res.Length != 20+c.idx || c.res.BodyHash != jrFnv(jrBody(c.idx, 20+c.idx)) {
					l = fmt.Sprintf("R!not-its-own-response(stream=%d,len=%d)", c.res.Stream, c.res.Length)
				}
			}
			out = append(out, l)
		} else if p, _ := c.state(); p != 0 {
			out = append(out, "P")
		} else {
			out = append(out, "W")
		}
	}
	// teardown under the watchdog
	freed = true
	close(run.freeAll)
	for _, c := range calls {
		c.cancel()
	}
	if !term {
		done := make(chan struct{})
		go func() { conn.Close(); close(done); tr.poke() }()
		waitFor(func() bool {
			select {
			case <-done:
				return true
			default:
				return false
			}
		}, "Conn.Close did not return at teardown")
	}
	for _, c := range calls {
		waitFor(c.returned, fmt.Sprintf("call %d did not return at teardown", c.idx))
	}
	conn.Stop()
	return strings.Join(out, " ")
}

// GenExec draws one script.
func GenExec(r *vh.Rng) (line, class string) {
	proto := []int{2, 2, 2, 3, 4}[r.Intn(5)]
	type cs struct {
		fate  byte
		mask  int
		stage byte // 'G' 'R' 'F' parked; 'W' in its select; 'A' gave up, request outstanding; 'D' returned
		resp  bool // at F after a response (not after a never-written exit)
	}
	var calls []*cs
	var steps []string
	feats := map[string]bool{}
	closed, zed, term := false, false, false
	// advance a call from program point `at` ('G','R','F'); skip = it is being let go from the park at that point
	var adv func(c *cs, at byte, skip bool)
	adv = func(c *cs, at byte, skip bool) {
		switch at {
		case 'G':
			if c.mask&1 != 0 && !skip {
				c.stage = 'G'
				return
			}
			if closed {
				c.stage = 'D'
				return
			}
			adv(c, 'R', false)
		case 'R':
			if c.mask&2 != 0 && !skip {
				c.stage = 'R'
				return
			}
			if c.fate == 'b' {
				adv(c, 'F', false)
				return
			}
			if term {
				c.stage = 'D'
				return
			}
			c.stage = 'W'
		case 'F':
			if c.mask&4 != 0 && !skip && !closed {
				c.stage = 'F'
				return
			}
			c.stage = 'D'
		}
	}
	start := func(fate byte, mask int) {
		c := &cs{fate: fate, mask: mask}
		calls = append(calls, c)
		steps = append(steps, fmt.Sprintf("n%c%d", fate, mask))
		adv(c, 'G', false)
	}
	letGo := func(i int) {
		c := calls[i]
		steps = append(steps, fmt.Sprintf("g%d", i+1))
		if closed && c.stage == 'R' {
			feats["let-go-while-closing"] = true
		}
		adv(c, c.stage, true)
	}
	answer := func(i int) {
		c := calls[i]
		steps = append(steps, fmt.Sprintf("d%d", i+1))
		if c.stage == 'A' {
			c.stage = 'D'
			feats["late-answer"] = true
			return
		}
		adv(c, 'F', false)
	}
	pick := func(pred func(c *cs) bool) int {
		var xs []int
		for i, c := range calls {
			if pred(c) {
				xs = append(xs, i)
			}
		}
		if len(xs) == 0 {
			return -1
		}
		return xs[r.Intn(len(xs))]
	}
	isParked := func(c *cs) bool { return c.stage == 'G' || c.stage == 'R' || c.stage == 'F' }
	randMask := func() int {
		switch r.Intn(5) {
		case 0:
			return 0
		case 1:
			return 4
		case 2:
			return 2
		default:
			return r.Intn(8)
		}
	}
	randFate := func() byte {
		if r.Intn(3) == 0 {
			return 'b'
		}
		return 'o'
	}
	n := 2 + r.Intn(9)
	if r.Intn(2) == 0 {
		// focused: other calls start (and end) while one call is inside releaseStream / between GetStream and addCall
		fate := randFate()
		start(fate, 4|r.Intn(4))
		for isParked(calls[0]) && calls[0].stage != 'F' {
			letGo(0)
		}
		if calls[0].stage == 'W' {
			answer(0)
		}
		feats["calls-started-while-another-releases"] = true
		k := 2 + r.Intn(4)
		for j := 0; j < k; j++ {
			start(randFate(), randMask()&3)
		}
	}
	if len(calls) == 0 && r.Intn(6) == 0 {
		// focused: many callers give up after their request was written, ALL of them are answered late: every id must come
		// back, each with exactly one StreamFinished (whichever arm of recv's final select disposes of the response)
		k := 8 + r.Intn(25)
		for j := 0; j < k; j++ {
			start('o', 0)
		}
		for j := 0; j < k; j++ {
			if r.Intn(8) != 0 {
				steps = append(steps, fmt.Sprintf("c%d", j+1))
				calls[j].stage = 'A'
				feats["gave-up"] = true
			}
		}
		steps = append(steps, "a")
		for guard := 0; guard < 100; guard++ {
			i := pick(func(c *cs) bool { return c.stage == 'W' || c.stage == 'A' })
			if i < 0 {
				break
			}
			answer(i)
		}
		steps = append(steps, "a", "f")
		feats["many-late-answers"] = true
		n = len(calls)
	}
	if len(calls) == 0 && r.Intn(3) == 0 {
		// focused: the server closes the transport while several calls are registered but unwritten (closeWithError waits in
		// its delivery loop); some of them leave (build failure / write), new calls arrive, then the others are let go
		k := 2 + r.Intn(4)
		for j := 0; j < k; j++ {
			if r.Intn(4) == 0 {
				start('o', 0)
			} else {
				start(randFate(), 2|r.Intn(2))
			}
		}
		for guard := 0; guard < 20; guard++ {
			if i := pick(func(c *cs) bool { return c.stage == 'G' }); i >= 0 {
				letGo(i)
			}
		}
		steps = append(steps, "Z")
		closed, zed = true, true
		feats["server-close"] = true
		feats["closer-waits-for-unwritten-call"] = true
		order := make([]int, len(calls))
		for i := range order {
			order[i] = i
		}
		for i := len(order) - 1; i > 0; i-- {
			j := r.Intn(i + 1)
			order[i], order[j] = order[j], order[i]
		}
		for _, i := range order {
			if calls[i].stage == 'R' && r.Intn(2) == 0 {
				letGo(i)
			}
		}
		m := 1 + r.Intn(3)
		for j := 0; j < m; j++ {
			start(randFate(), 0)
		}
		n = len(calls)
	}
	for it := 0; it < 60; it++ {
		if len(calls) >= n && r.Intn(6) == 0 {
			break
		}
		switch p := r.Intn(100); {
		case p < 25 && len(calls) < n:
			start(randFate(), randMask())
			if closed {
				feats["started-after-close"] = true
			}
		case p < 50:
			if i := pick(isParked); i >= 0 {
				letGo(i)
			}
		case p < 68 && !closed:
			if i := pick(func(c *cs) bool { return c.stage == 'W' }); i >= 0 {
				answer(i)
			}
		case p < 74 && !closed:
			if i := pick(func(c *cs) bool { return c.stage == 'A' }); i >= 0 {
				answer(i)
			}
		case p < 82 && !zed && !closed:
			if i := pick(func(c *cs) bool { return c.stage == 'W' && c.mask&4 == 0 }); i >= 0 {
				steps = append(steps, fmt.Sprintf("c%d", i+1))
				calls[i].stage = 'A'
				feats["gave-up"] = true
			}
		case p < 90 && !closed:
			steps = append(steps, []string{"a", "a", "f"}[r.Intn(3)])
		case p < 95 && !closed && len(calls) > 0:
			if r.Intn(2) == 0 {
				steps = append(steps, "K")
				closed, term = true, true
				feats["conn-close"] = true
				for _, c := range calls {
					if c.stage == 'R' {
						feats["close-with-call-registered-unwritten"] = true
					}
					if c.stage == 'W' {
						c.stage = 'D'
					}
				}
			} else {
				steps = append(steps, "Z")
				closed, zed = true, true
				feats["server-close"] = true
				for _, c := range calls {
					if c.stage == 'R' {
						feats["closer-waits-for-unwritten-call"] = true
					}
				}
			}
		case p >= 95 && zed && !term:
			if pick(func(c *cs) bool { return c.stage == 'R' }) < 0 {
				steps = append(steps, "e")
				term = true
				for _, c := range calls {
					if c.stage == 'W' {
						c.stage = 'D'
					}
				}
			}
		}
	}
	// the end: everybody is let go; the closer gets through; on an open connection everything outstanding is answered
	for guard := 0; guard < 200; guard++ {
		i := pick(isParked)
		if i < 0 {
			break
		}
		letGo(i)
	}
	if zed && !term {
		steps = append(steps, "e")
		term = true
	}
	if !closed {
		for guard := 0; guard < 100; guard++ {
			i := pick(func(c *cs) bool { return c.stage == 'W' || (c.stage == 'A' && r.Intn(2) == 0) })
			if i < 0 {
				break
			}
			answer(i)
			for isParked(calls[i]) {
				letGo(i)
			}
			if r.Intn(4) == 0 {
				steps = append(steps, "a")
			}
		}
		steps = append(steps, "a", "f")
	}
	class = "ex"
	for _, k := range []string{"many-late-answers", "closer-waits-for-unwritten-call", "close-with-call-registered-unwritten", "let-go-while-closing", "calls-started-while-another-releases",
		"started-after-close", "late-answer", "server-close", "conn-close", "gave-up"} {
		if feats[k] {
			class += "/" + k
			break
		}
	}
	return fmt.Sprintf("ex %d %d %s", proto, r.Intn(2), strings.Join(steps, " ")), class
}
