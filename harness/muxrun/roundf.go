package muxrun

import (
	"os"

	"verifharness/vh"
)

// runRoundF runs the tiers added in round f of C06: `ex` (program points of exec) and `hb` (control heartbeat vs close).
func runRoundF(out *vh.Out, tier, path string) (nex, nhb int) {
	rx := vh.NewRng(vh.EnvSeed() ^ 0x65786563)
	n := 700
	if tier == "thorough" {
		n = 20000
	}
	for i := 0; i < n && !exHung; i++ {
		line, cls := GenExec(rx)
		out.Case("reset 128", "ok", "reset", false)
		out.Case(line, RunExec(line), cls, true)
		nex++
	}
	if exHung {
		os.WriteFile(path+"/fatal.txt", []byte(ExHangDump), 0o644)
		return
	}
	rb := vh.NewRng(vh.EnvSeed() ^ 0x62656174)
	m := 12
	if tier == "thorough" {
		m = 120
	}
	var lines, classes []string
	for i := 0; i < m; i++ {
		line, cls := GenBeat(rb)
		lines = append(lines, line)
		classes = append(classes, cls)
	}
	for i, a := range RunBeatBatch(lines, 12) {
		out.Case("reset 128", "ok", "reset", false)
		out.Case(lines[i], a, classes[i], true)
		nhb++
	}
	if hbHung {
		os.WriteFile(path+"/fatal.txt", []byte(HbHangDump), 0o644)
	}
	// round g: EVENT frames between responses while the handler of an earlier batch is held
	re := vh.NewRng(vh.EnvSeed() ^ 0x65766e74)
	k := 12
	if tier == "thorough" {
		k = 120
	}
	lines, classes = nil, nil
	for i := 0; i < k; i++ {
		line, cls := GenEv(re)
		lines = append(lines, line)
		classes = append(classes, cls)
	}
	for i, a := range RunEvBatch(lines, 12) {
		out.Case("reset 128", "ok", "reset", false)
		out.Case(lines[i], a, classes[i], true)
		nhb++
	}
	if evHung {
		os.WriteFile(path+"/fatal.txt", []byte(EvHangDump), 0o644)
	}
	return
}
