package muxrun

// `ds` scripts are executed in a WORKER PROCESS (this binary, argument `dsworker`): some misbehaviours of the code under
// test end the whole process (the Go runtime's "fatal error: sync: unlock of unlocked mutex", "concurrent map
// writes", a panic in a goroutine of gocql's own) and cannot be recovered in-process. The parent feeds the scripts,
// reads one answer line per script, and when the worker dies the script it was running gets the answer
// `crash:process:<first line the runtime printed>` - a concrete failing input like any other `crash:` - and a new
// worker takes over for the rest.

import (
	"bufio"
	"fmt"
	"os"
	"os/exec"
	"strings"
	"sync"
)

type capWriter struct {
	mu  sync.Mutex
	buf []byte
}

func (w *capWriter) Write(p []byte) (int, error) {
	w.mu.Lock()
	if room := 1<<20 - len(w.buf); room > 0 {
		if len(p) < room {
			room = len(p)
		}
		w.buf = append(w.buf, p[:room]...)
	}
	w.mu.Unlock()
	return len(p), nil
}

// SchedWorker is the worker's main loop: one script per input line, one answer per output line.
func SchedWorker() {
	in := bufio.NewScanner(os.Stdin)
	in.Buffer(make([]byte, 1<<20), 1<<20)
	out := bufio.NewWriter(os.Stdout)
	for in.Scan() {
		fmt.Fprintln(out, RunSched(in.Text()))
		out.Flush()
	}
	if ownHung {
		fmt.Fprintln(os.Stderr, OwnHangDump)
	}
}

// RunSchedIsolated runs the scripts in worker processes and returns their answers in order.
func RunSchedIsolated(lines []string) []string {
	ans := make([]string, len(lines))
	for i := 0; i < len(lines); {
		cmd := exec.Command(os.Args[0], "dsworker")
		stdin, e1 := cmd.StdinPipe()
		stdout, e2 := cmd.StdoutPipe()
		errw := &capWriter{}
		cmd.Stderr = errw
		if e1 != nil || e2 != nil || cmd.Start() != nil {
			// no worker: run in-process
			for ; i < len(lines); i++ {
				ans[i] = RunSched(lines[i])
			}
			break
		}
		go func(rest []string) {
			w := bufio.NewWriter(stdin)
			for _, l := range rest {
				if _, err := fmt.Fprintln(w, l); err != nil {
					break
				}
				if w.Flush() != nil {
					break
				}
			}
			stdin.Close()
		}(lines[i:])
		sc := bufio.NewScanner(stdout)
		sc.Buffer(make([]byte, 1<<20), 1<<20)
		for sc.Scan() && i < len(lines) {
			ans[i] = sc.Text()
			i++
		}
		cmd.Wait()
		errw.mu.Lock()
		msg := string(errw.buf)
		errw.mu.Unlock()
		if i < len(lines) {
			first := "worker process ended"
			for _, l := range strings.Split(msg, "\n") {
				if strings.HasPrefix(l, "fatal error:") || strings.HasPrefix(l, "panic:") {
					first = l
					break
				}
			}
			ans[i] = "crash:process:" + first
			i++
		}
		if strings.Contains(msg, "schedule-point script:") {
			ownMu.Lock()
			if !ownHung {
				ownHung, OwnHangDump = true, msg
			}
			ownMu.Unlock()
		}
	}
	return ans
}
