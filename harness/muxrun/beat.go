package muxrun

import "verifharness/vh"

var HbHangDump string
var hbHung bool

func RunBeat(line string) string                        { return "bad-op" }
func GenBeat(r *vh.Rng) (string, string)                { return "hb 0", "hb" }
func RunBeatBatch(lines []string, par int) []string     { return make([]string, 0) }
