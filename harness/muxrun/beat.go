package muxrun

// controlConn.close() against the control connection's heartbeat loop (C06, round f): a REAL controlConn (its
// heartBeat goroutine, its close) over a bare Conn whose transport the harness owns.
//
//	hb <proto> <when> <fate>
//
//	when  0  close() arrives while the heartbeat goroutine is in its select (between two heartbeats)
//	      1  close() arrives while a heartbeat is in flight (its OPTIONS request is on the wire, unanswered);
//	         the harness waits for the event "close() has moved the state to closing" and only then lets the
//	         heartbeat end according to <fate>
//	fate  s  answered with SUPPORTED   e  answered with ERROR   n  never answered (request timeout)
//	      z  the server closes the transport
//
// Answer: `ret hb=exited conn=closed` (close() returned, the heartbeat goroutine returned, the connection is closed);
// a wait that does not end within the watchdog is `crash:hang:<what>` with the goroutine dump (HbHangDump).
// The Lean side (Driver/C06.lean `hb`) runs the same history on Model/CtlBeat.lean.

import (
	"fmt"
	"strconv"
	"strings"
	"sync"
	"time"

	"github.com/gocql/gocql"
	"verifharness/memcluster"
	"verifharness/vh"
)

// HbHangDump holds the goroutine dump of the last heartbeat scenario that hung.
var HbHangDump string
var hbHung bool
var hbMu sync.Mutex

// RunBeat executes one `hb` line on the real code.
func RunBeat(line string) (ans string) {
	defer func() {
		if e := recover(); e != nil {
			if h, ok := e.(jrHang); ok {
				hbMu.Lock()
				if !hbHung {
					HbHangDump = "heartbeat scenario: " + line + "\nblocked: " + h.what + "\n\n" + h.dump
					hbHung = true
				}
				hbMu.Unlock()
				ans = fmt.Sprintf("crash:hang:%s(watchdog,blocked-in-gocql=%v)", h.what, strings.Contains(h.dump, "gocql.(*controlConn)"))
				return
			}
			ans = fmt.Sprintf("crash:%v", e)
		}
	}()
	w := strings.Fields(line)
	if len(w) != 4 || w[0] != "hb" {
		return "bad-op"
	}
	proto, e1 := strconv.Atoi(w[1])
	when, e2 := strconv.Atoi(w[2])
	fate := w[3]
	if e1 != nil || e2 != nil || proto < 2 || proto > 4 || when < 0 || when > 1 || len(fate) != 1 || !strings.Contains("senz", fate) {
		return "bad-op"
	}
	tr := newJrTransport()
	conn := gocql.VerifC06NewConn(tr, proto, 0, 150*time.Millisecond, nil)
	waitFor := func(cond func() bool, what string) { exWaitFor(cond, tr.notify, what) }
	waitFor(tr.drained, "receive loop never started reading")
	ctl := gocql.VerifC06NewControl(conn)
	defer conn.Stop()
	waitFor(func() bool { return ctl.State() == 1 }, "the heartbeat goroutine never started")
	closed := make(chan struct{})
	isDone := func(ch <-chan struct{}) func() bool {
		return func() bool {
			select {
			case <-ch:
				return true
			default:
				return false
			}
		}
	}
	if when == 1 {
		var rq *memcluster.Frame
		waitFor(func() bool {
			for _, f := range tr.requests(proto) {
				if f.Op == memcluster.OpOptions {
					rq = f
					return true
				}
			}
			return false
		}, "no heartbeat was sent")
		go func() { ctl.Close(); close(closed); tr.poke() }()
		waitFor(func() bool { return ctl.State() == -1 }, "close() did not begin")
		switch fate {
		case "s":
			f := &memcluster.Frame{Version: byte(proto) | 0x80, Stream: rq.Stream, Op: memcluster.OpSupported, Body: []byte{0, 0}}
			tr.deliver(f.Encode(proto))
		case "e":
			f := &memcluster.Frame{Version: byte(proto) | 0x80, Stream: rq.Stream, Op: memcluster.OpError, Body: []byte{0, 0, 0, 0, 0, 1, 'x'}}
			tr.deliver(f.Encode(proto))
		case "z":
			tr.mu.Lock()
			tr.eof = true
			tr.mu.Unlock()
			tr.kick()
		}
	} else {
		go func() { ctl.Close(); close(closed); tr.poke() }()
	}
	waitFor(isDone(closed), "controlConn.close() did not return")
	waitFor(isDone(ctl.HeartbeatDone()), "the heartbeat goroutine did not return after close()")
	cs := "open"
	if conn.Closed() {
		cs = "closed"
	}
	return "ret hb=exited conn=" + cs
}

// GenBeat draws one scenario.
func GenBeat(r *vh.Rng) (line, class string) {
	proto := []int{2, 3, 4}[r.Intn(3)]
	when := 1
	if r.Intn(6) == 0 {
		when = 0
	}
	fate := string("senz"[r.Intn(4)])
	class = "hb/close-between-heartbeats"
	if when == 1 {
		class = "hb/close-during-heartbeat-" + map[string]string{"s": "answered", "e": "error", "n": "timeout", "z": "transport-closed"}[fate]
	}
	return fmt.Sprintf("hb %d %d %s", proto, when, fate), class
}

// RunBeatBatch runs the scenarios par at a time (each waits about a second for the first heartbeat).
func RunBeatBatch(lines []string, par int) []string {
	ans := make([]string, len(lines))
	sem := make(chan struct{}, par)
	var wg sync.WaitGroup
	for i := range lines {
		wg.Add(1)
		sem <- struct{}{}
		go func(i int) {
			defer wg.Done()
			defer func() { <-sem }()
			ans[i] = RunBeat(lines[i])
		}(i)
	}
	wg.Wait()
	return ans
}
