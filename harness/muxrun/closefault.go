package muxrun

// Closing over FAULTY TRANSPORTS: a real Session over the in-memory cluster whose client connections report an
// error from Close() (after having closed the pipe - as tls.Conn.Close does when close_notify can not be
// written). Conn.Close -> closeWithError(nil) then reports that error to the connection's error handler, which
// is its host pool: whoever closes a pooled connection while holding the pool's lock dead-locks on itself.
//
//	cf  <proto> <nconn> <faults> <inflight> <late 0|1> <act>
//	cfk ...   (accepted as a synonym of cf: the class that was kept apart while KF-C06-1 was open - the connection
//	          that finishes connecting AFTER its pool was closed has a faulty Close; since the repair of
//	          hostConnPool.connect these scenarios are ordinary cf scenarios, spec-backed)
//
//	faults    string over {0,1}: connection number i (dial order, 1-based) has a faulty Close iff faults[(i-1) mod len] = 1
//	inflight  queries that are written and never answered before the action: all must return
//	late      1: the dial of connection <nconn> is held back until the action has returned, then let go
//	act       S Session.Close | P hostConnPool.Close | H policyConnPool.removeHost (closes the pool in a goroutine)
//	          R the server resets every connection (closeWithError(err) -> HandleError -> refill), then S
//	          C Conn.Close() on connection 1 (closeWithError(nil); a faulty Close is reported to the pool), then S
//
// Answer: `ret calls=<returned>/<started> closes=<Close calls per transport> pick=<nil|conn> size=<n> he=ret`:
// the action returned, every caller returned, every transport was closed exactly once, and afterwards Pick /
// Size / HandleError / a second Close on that pool return (Pick with no connection). Every wait is a wait for
// an EVENT under a watchdog of 2 x 20 s; a watchdog expiry is reported as crash:hang:<what> with a goroutine dump.

import (
	"errors"
	"fmt"
	"runtime"
	"strconv"
	"strings"
	"sync/atomic"
	"time"

	"github.com/gocql/gocql"
	"verifharness/memcluster"
	"verifharness/sess"
	"verifharness/vh"
)

var CfHangDump string
var cfHung bool

type cfHang struct{ what string }

var errCloseNotify = errors.New("verif: close_notify: broken pipe")

// selfDeadlocked looks for a goroutine that is blocked in pool.mu.Lock() inside HandleError while its own stack
// is inside hostConnPool.connect's critical section: a state that can never be left.
func selfDeadlockedN() int {
	buf := make([]byte, 1<<20)
	n := runtime.Stack(buf, true)
	k := 0
	for _, g := range strings.Split(string(buf[:n]), "\n\n") {
		if strings.Contains(g, "gocql.(*hostConnPool).HandleError") && strings.Contains(g, "gocql.(*hostConnPool).connect(") &&
			strings.Contains(g, "sync.(*RWMutex).Lock") {
			k++
		}
	}
	return k
}

func RunCloseFault(line string) (ans string) {
	if cfHung {
		return "skipped-after-hang"
	}
	defer func() {
		if e := recover(); e != nil {
			if h, ok := e.(cfHang); ok {
				buf := make([]byte, 1<<20)
				n := runtime.Stack(buf, true)
				CfHangDump = "close over faulty transports: " + line + "\nblocked: " + h.what + "\n\n" + string(buf[:n])
				cfHung = true
				ans = fmt.Sprintf("crash:hang:%s(watchdog,blocked-in-gocql=%v)", h.what, strings.Contains(CfHangDump, "gocql.(*"))
				return
			}
			ans = fmt.Sprintf("crash:%v", e)
		}
	}()
	w := strings.Fields(line)
	if len(w) != 7 || (w[0] != "cf" && w[0] != "cfk") {
		return "bad-op"
	}
	proto, e1 := strconv.Atoi(w[1])
	nconn, e2 := strconv.Atoi(w[2])
	faults := w[3]
	inflight, e3 := strconv.Atoi(w[4])
	late := w[5] == "1"
	act := w[6]
	if e1 != nil || e2 != nil || e3 != nil || proto < 2 || proto > 4 || nconn < 1 || nconn > 4 || len(faults) == 0 || inflight < 0 || inflight > 64 ||
		!strings.Contains("SPHRC", act) || len(act) != 1 || (late && nconn < 2) {
		return "bad-op"
	}
	faulty := func(id int) bool { return faults[(id-1)%len(faults)] == '1' }
	// (such goroutines of EARLIER scenarios of this process stay for ever: only new ones count)
	dead0 := selfDeadlockedN()
	selfDeadlocked := func() bool { return selfDeadlockedN() > dead0 }

	// await waits for an event (channel closed) or a condition that is re-examined every millisecond (a pure wait:
	// nothing is decided by how long it took); two watchdog windows without it = hang
	await := func(ch <-chan struct{}, cond func() bool, what string, also func() bool) bool {
		t0 := time.Now()
		for {
			if ch != nil {
				select {
				case <-ch:
					return true
				default:
				}
			}
			if cond != nil && cond() {
				return true
			}
			if also != nil && also() {
				return false
			}
			if time.Since(t0) > 2*jrWatch {
				panic(cfHang{what})
			}
			if ch != nil && cond == nil && also == nil {
				select {
				case <-ch:
					return true
				case <-time.After(jrWatch):
				}
			} else {
				time.Sleep(time.Millisecond)
			}
		}
	}
	bg := func(f func()) <-chan struct{} {
		d := make(chan struct{})
		go func() { f(); close(d) }()
		return d
	}

	cl := memcluster.NewCluster(proto, "10.0.0.1")
	node := cl.Nodes["10.0.0.1"]
	gate := make(chan struct{})
	gated := make(chan struct{})
	node.DialHook = func(n *memcluster.Node, id int) error {
		if late && id == nconn {
			close(gated)
			<-gate
		}
		return nil
	}
	node.OnConn = func(sc *memcluster.ServerConn) {
		if faulty(sc.ID) {
			sc.Cli.SetCloseErr(errCloseNotify)
		}
	}
	var held int64
	node.Handle = func(req *memcluster.Request) {
		if strings.HasPrefix(req.Stmt, "HOLD") {
			atomic.AddInt64(&held, 1)
			return
		}
		req.Conn.Reply(req.Stream, memcluster.OpResult, memcluster.VoidBody())
	}
	cfg := sess.Config(cl, proto, "10.0.0.1")
	cfg.NumConns = nconn
	cfg.Timeout = 10 * time.Minute // far away: nothing here is decided by a timer of the driver
	cfg.ConnectTimeout = 10 * time.Minute
	cfg.WriteTimeout = 10 * time.Second
	var s *gocql.Session
	var err error
	cs := bg(func() { s, err = cfg.CreateSession() })
	await(cs, nil, "CreateSession did not return", nil)
	if err != nil {
		return "harness-error:session:" + err.Error()
	}
	closedSession := false
	defer func() {
		if !closedSession && !cfHung {
			d := bg(s.Close)
			select {
			case <-d:
			case <-time.After(5 * time.Second):
			}
		}
	}()
	want := nconn
	if late {
		want = nconn - 1
		await(gated, nil, "the held-back dial never started", nil)
	}
	await(nil, func() bool { return len(gocql.VerifSessionConns(s)) >= want }, "the pool never got its connections", nil)
	ph := gocql.VerifC06Pools(s)["10.0.0.1"]
	if ph == nil {
		return "harness-error:no pool"
	}
	conns0 := ph.Conns()
	// callers whose requests are never answered
	var started, returned int64
	callersDone := make(chan struct{})
	if inflight == 0 {
		close(callersDone)
	}
	for i := 0; i < inflight; i++ {
		atomic.AddInt64(&started, 1)
		go func(i int) {
			s.Query(fmt.Sprintf("HOLD %d", i)).Exec()
			if atomic.AddInt64(&returned, 1) == int64(inflight) {
				close(callersDone)
			}
		}(i)
	}
	await(nil, func() bool { return atomic.LoadInt64(&held) >= int64(inflight) }, "the server never saw the requests", nil)

	quiesce := func(what string) {
		// the pool refills on Pick (as traffic makes it do): wait until it is whole again and no fill is running
		await(nil, func() bool {
			ph.Pick()
			cs := ph.Conns()
			for _, c := range cs {
				if c.Closed() {
					return false
				}
			}
			st := gocql.VerifPoolState(s)["10.0.0.1"]
			return len(cs) == nconn && st[0] == nconn && st[3] == 0
		}, what, nil)
	}
	sessionClose := func() {
		closedSession = true
		await(bg(s.Close), nil, "Session.Close did not return", nil)
	}
	switch act {
	case "S":
		sessionClose()
	case "P":
		await(bg(ph.Close), nil, "hostConnPool.Close did not return", nil)
	case "H":
		if !gocql.VerifC06RemoveHost(s, "10.0.0.1") {
			return "harness-error:removeHost found no pool"
		}
		for _, cc := range node.ClientConns() { // (a held-back dial has no transport yet)
			await(cc.ClosedC, nil, "removeHost: a connection of the removed pool was never closed", nil)
		}
	case "R":
		old := node.ClientConns()
		for _, sc := range node.ServerConns() {
			sc.Close()
		}
		for _, cc := range old {
			await(cc.ClosedC, nil, "the driver never closed a connection that the server had reset", nil)
		}
		await(callersDone, nil, "callers did not return after the server reset their connections", nil)
		quiesce("the pool did not refill after the reset")
		sessionClose()
	case "C":
		await(bg(conns0[0].Close), nil, "Conn.Close did not return", nil)
		if faulty(1) {
			quiesce("the pool did not replace the connection whose Close reported an error")
		}
		sessionClose()
	}
	verdict := "ret"
	if late {
		// now the held-back dial completes: handshake, then hostConnPool.connect finds its pool closed
		close(gate)
		ccs := node.ClientConns()
		for len(ccs) < nconn {
			time.Sleep(time.Millisecond)
			ccs = node.ClientConns()
		}
		await(ccs[nconn-1].ClosedC, nil, "the connection that finished connecting after its pool was closed was never closed", nil)
	}
	await(callersDone, nil, "callers did not return after the close", nil)
	// afterwards nothing on that pool blocks
	var picked bool
	var size int
	mon := bg(func() {
		picked = ph.Pick()
		size = ph.Size()
		ph.HandleError(conns0[0], errCloseNotify)
		ph.Close()
	})
	// a goroutine that waits for pool.mu below a frame that holds it is a state that can never be left: it is
	// recognised from the goroutine dump at once (an event, not a time-out) instead of waiting for the watchdog
	if !await(mon, nil, "Pick / Size / HandleError / Close on the closed pool did not return", selfDeadlocked) {
		// confirm: the state is permanent by construction, look twice all the same
		time.Sleep(50 * time.Millisecond)
		if selfDeadlocked() {
			closedSession = true // Session.Close would wait for the lock the dead-locked goroutine holds
			return "self-deadlock(connect>Conn.Close>HandleError)"
		}
		await(mon, nil, "Pick / Size / HandleError / Close on the closed pool did not return", nil)
	}
	if !closedSession {
		sessionClose()
	}
	var closes []string
	for _, cc := range node.ClientConns() {
		closes = append(closes, strconv.Itoa(cc.NumCloseCalls()))
	}
	pk := "nil"
	if picked {
		pk = "conn"
	}
	return fmt.Sprintf("%s calls=%d/%d closes=%s pick=%s size=%d he=ret", verdict, atomic.LoadInt64(&returned), atomic.LoadInt64(&started), strings.Join(closes, ","), pk, size)
}

// GenCloseFault draws one scenario.
func GenCloseFault(r *vh.Rng) (line, class string) {
	proto := []int{2, 3, 4}[r.Intn(3)]
	nconn := 1 + r.Intn(3)
	late := nconn >= 2 && r.Intn(4) == 0
	act := string("SPHRC"[r.Intn(5)])
	if late {
		act = string("SPH"[r.Intn(3)])
	}
	fb := make([]byte, nconn)
	any := false
	for i := range fb {
		fb[i] = '0'
		if r.Intn(3) != 0 {
			fb[i] = '1'
			any = true
		}
	}
	if act == "C" {
		fb[0] = '1' // Conn.Close without a transport error tells nobody: the dead connection would stay in the pool
		any = true
	}
	opw := "cf"
	if late && fb[nconn-1] == '1' && act == "S" {
		fb[nconn-1] = '0' // Session.Close also ends the handshake of the late connection: not this path
	}
	inflight := []int{0, 0, 1, 3, 8}[r.Intn(5)]
	class = opw + "/" + act
	if late {
		class += "/late-connect"
		if fb[nconn-1] == '1' {
			class += "-faulty-close" // (the history of KF-C06-1: connect() closes the late connection; its Close reports an error)
		}
	}
	if any {
		class += "/close-error"
	}
	return fmt.Sprintf("%s %d %d %s %d %d %s", opw, proto, nconn, string(fb), inflight, map[bool]int{false: 0, true: 1}[late], act), class
}
