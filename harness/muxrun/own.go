package muxrun

// The connection's OWN requests next to user requests, and transports whose Write returns LATE (C01, round 6).
// A bare Conn (real serve / recv / exec / closeWithError, optionally the REAL Conn.heartBeat started as Conn.init
// starts it) over a transport the harness owns; every scheduling decision is an EVENT (the heartbeat's timer only
// decides WHEN its OPTIONS request shows up at the scripted peer, which holds it until the script says otherwise).
//
//	dr <proto> <writer 0|1> <hb 0|1> <step>...
//
//	q<L>        start the next call (calls are numbered 1, 2, ... in the order of their start steps): a user request
//	            (Conn.exec of a QUERY with a unique statement); ends when the peer has read the whole request. The peer's
//	            answer will be a RESULT frame with an L-byte body (d steps) or whatever an A step says.
//	!q<L>       the same, but the transport hands the request to the peer and does NOT return from Write (the sender is
//	            still inside writeContext; with the coalescer: inside the flusher's Write) until w<i>
//	u / p / g   start a driver-originated request: Conn.UseKeyspace / Conn.prepareStatement / controlConn.registerEvents
//	h           (hb=1) wait until the heartbeat's next OPTIONS request has been read by the peer (it becomes a call too)
//	d<i>[.<n>]  the peer writes the RESULT frame of user call i (the next n bytes of it / all that is left). Ends when the
//	            receive loop has consumed the bytes and - unless call i is still held inside Write - is blocked in the
//	            transport again and, the frame being complete, call i has returned.
//	A<i>:<k>    the peer answers call i with a whole frame of kind k: S SUPPORTED, Y READY, V RESULT void, K RESULT
//	            set_keyspace, P RESULT prepared, E<code> ERROR (decimal code) whose message is unique to call i.
//	            For a heartbeat call and k other than S / E...: ends when the driver has closed the connection.
//	w<i>        the held Write of call i returns. When the whole answer of call i had been consumed before: ends when the
//	            receive loop is blocked in the transport again; then the context of call i is cancelled (a no-op for a
//	            call that was handed its response: the hand-over precedes the receive loop's return to the transport)
//	            and the step ends when call i has returned.
//	c<i>        the context of user call i is cancelled; ends when call i has returned
//	v<L>/x<L>   a whole EVENT frame / a whole response frame for a stream id that no call holds
//	a           (hb=0) number of stream ids reserved
//	k / z       Conn.Close() / the peer closes the transport (last step)
//
// Answer: `a=<n>`..., `;`, one letter per call, `|`, open/closed. User calls: R its own RESULT (stream id, opcode,
// length, body as sent) / E its own ERROR frame (stream id, code, message as sent) / C context error / X an error of
// the connection that carries no frame / W still waiting / F!foreign(...) it was handed a frame (as response or as error
// value) that the peer addressed to ANOTHER stream id or that is not the frame the peer sent for it. Driver-originated
// calls: K accepted / E its own ERROR frame / P protocol error about its own answer / X / W / F!foreign; heartbeat: -.
// The Lean side (Driver/C01.lean, drAnswer) runs the same script on the machine Model/MuxOwn.lean.

import (
	"bytes"
	"context"
	"errors"
	"fmt"
	"io"
	"net"
	"runtime"
	"strconv"
	"strings"
	"sync"
	"time"

	"github.com/gocql/gocql"
	"verifharness/memcluster"
	"verifharness/vh"
)

var OwnHangDump string
var ownHung bool
var ownMu sync.Mutex

type ownCall struct {
	idx       int
	typ       byte
	L         int
	sid       int
	frame     []byte
	sent      int
	held      bool
	due       bool
	answered  bool
	kind      string
	code      int
	cancel    context.CancelFunc
	done      chan struct{}
	res       gocql.VerifC06Result // user calls
	err       error                // driver-originated calls
	cancelled bool
}

func ownTag(idx int) string { return fmt.Sprintf("own%d;", idx) }

func ownIsClosedErr(err error) bool {
	if errors.Is(err, gocql.ErrConnectionClosed) || errors.Is(err, io.EOF) || errors.Is(err, net.ErrClosed) || errors.Is(err, io.ErrClosedPipe) {
		return true
	}
	s := err.Error()
	return strings.Contains(s, "in response to options") || strings.Contains(s, "closed")
}

// RunOwn executes one `dr` line on the real code.
func RunOwn(line string) (ans string) {
	ownMu.Lock()
	hung := ownHung
	ownMu.Unlock()
	if hung {
		return "skipped-after-hang"
	}
	defer func() {
		if e := recover(); e != nil {
			if h, ok := e.(jrHang); ok {
				ownMu.Lock()
				if !ownHung {
					OwnHangDump = "own-requests script: " + line + "\nblocked: " + h.what + "\n\n" + h.dump
					ownHung = true
				}
				ownMu.Unlock()
				ans = fmt.Sprintf("crash:hang:%s(watchdog,blocked-in-gocql=%v)", h.what, strings.Contains(h.dump, "gocql.(*Conn)"))
				return
			}
			ans = fmt.Sprintf("crash:%v", e)
		}
	}()
	w := strings.Fields(line)
	if len(w) < 4 || w[0] != "dr" {
		return "bad-op"
	}
	proto, e1 := strconv.Atoi(w[1])
	wr, e2 := strconv.Atoi(w[2])
	hb, e3 := strconv.Atoi(w[3])
	if e1 != nil || e2 != nil || e3 != nil || proto < 2 || proto > 4 || hb < 0 || hb > 1 {
		return "bad-op"
	}
	tr := newJrTransport()
	var coalesce time.Duration
	if wr != 0 {
		coalesce = 100 * time.Microsecond
	}
	conn := gocql.VerifC06NewConn(tr, proto, coalesce, time.Hour, nil)
	conn.OwnSetup()
	cap := conn.Cap()
	hl := memcluster.HeaderLen(proto)

	waitFor := func(cond func() bool, ch <-chan struct{}, what string) {
		for win := 0; win < 2; {
			if cond() {
				return
			}
			select {
			case <-ch:
			case <-time.After(jrWatch):
				win++
			}
		}
		if !cond() {
			buf := make([]byte, 1<<20)
			n := runtime.Stack(buf, true)
			panic(jrHang{what, string(buf[:n])})
		}
	}
	isDone := func(c *ownCall) bool {
		select {
		case <-c.done:
			return true
		default:
			return false
		}
	}
	waitDrained := func(what string) { waitFor(tr.drained, tr.notify, what) }
	waitConsumed := func(what string) { waitFor(tr.consumed, tr.notify, what) }
	waitCall := func(c *ownCall, what string) {
		// (two event sources: the call and the transport; the call pokes the transport's channel when it returns)
		waitFor(func() bool { return isDone(c) }, tr.notify, what)
	}
	// the request of a call, found by what it carries
	find := func(c *ownCall, nth int) *memcluster.Frame {
		k := 0
		for _, f := range tr.requests(proto) {
			switch c.typ {
			case 'q':
				if f.Op == memcluster.OpQuery && bytes.Contains(f.Body, []byte(fmt.Sprintf("J%d.", c.idx))) {
					return f
				}
			case 'u':
				if f.Op == memcluster.OpQuery && bytes.Contains(f.Body, []byte(fmt.Sprintf("K%d.", c.idx))) {
					return f
				}
			case 'p':
				if f.Op == memcluster.OpPrepare && bytes.Contains(f.Body, []byte(fmt.Sprintf("P%d.", c.idx))) {
					return f
				}
			case 'g':
				if f.Op == memcluster.OpRegister {
					k++
					if k == nth {
						return f
					}
				}
			case 'h':
				if f.Op == memcluster.OpOptions {
					k++
					if k == nth {
						return f
					}
				}
			}
		}
		return nil
	}

	var calls []*ownCall
	var out []string
	usedIDs := map[int]bool{}
	cur := -1
	terminal := ""
	nReg, nHb := 0, 0
	defer func() {
		tr.releaseWrite()
		for _, c := range calls {
			if c.cancel != nil {
				c.cancel()
			}
		}
		go func() { conn.Close(); conn.Stop() }()
	}()
	anyHeld := func() bool {
		for _, c := range calls {
			if c.held {
				return true
			}
		}
		return false
	}
	// what the receive loop does with the whole answer of call c, once it may
	complete := func(c *ownCall, st string) {
		if c.held {
			c.due = true
			waitConsumed(fmt.Sprintf("receive loop did not consume the answer of call %d (its Write is being held) after %q", c.idx, st))
			return
		}
		if c.typ == 'h' && c.kind != "S" && c.kind != "E" {
			waitFor(tr.isClosed, tr.notify, fmt.Sprintf("the driver did not close the connection after the heartbeat was answered with %q", c.kind))
			return
		}
		waitDrained(fmt.Sprintf("receive loop did not come back for more after %q (answer of call %d)", st, c.idx))
		if c.typ == 'q' && !c.cancelled {
			// the receive loop is back in the transport: it has handed the answer over (its select waits for a caller that
			// has not given up), released it or dropped it. A caller that was handed its answer is past its own select, for
			// it the cancellation is a no-op; for any other it ends the wait - by an event, not by a watchdog.
			c.cancel()
		}
		if c.typ != 'h' && !c.cancelled {
			waitFor(func() bool { return isDone(c) || tr.isClosed() }, tr.notify, fmt.Sprintf("call %d did not return although its whole answer was received", c.idx))
		}
	}
	if hb == 1 {
		conn.StartHeartbeat()
	}
	waitDrained("receive loop never started reading")
steps:
	for _, st0 := range w[4:] {
		if terminal != "" {
			return "bad-op"
		}
		if tr.isClosed() {
			break steps // the driver closed the connection: the rest of the script is void, the outcomes tell
		}
		st := st0
		held := false
		if st[0] == '!' {
			held = true
			st = st[1:]
			if st == "" || st[0] != 'q' {
				return "bad-op"
			}
		}
		switch st[0] {
		case 'q', 'u', 'p', 'g', 'h':
			L := 0
			if st[0] == 'q' {
				var err error
				L, err = strconv.Atoi(st[1:])
				if err != nil || L < 0 || L > 1<<20 {
					return "bad-op"
				}
			} else if len(st) != 1 {
				return "bad-op"
			}
			if anyHeld() || cur >= 0 || (st[0] == 'h' && hb == 0) {
				return "bad-op"
			}
			c := &ownCall{idx: len(calls) + 1, typ: st[0], L: L, done: make(chan struct{}), held: held}
			ctx, cancel := context.WithCancel(context.Background())
			c.cancel = cancel
			calls = append(calls, c)
			nth := 0
			if held {
				pat := []byte(fmt.Sprintf("J%d.", c.idx))
				tr.holdNext(func(p []byte) bool { return bytes.Contains(p, pat) })
			}
			switch c.typ {
			case 'q':
				go func() { c.res = conn.Exec(ctx, fmt.Sprintf("J%d.", c.idx)); close(c.done); tr.poke() }()
			case 'u':
				go func() { c.err = conn.UseKeyspace(fmt.Sprintf("K%d.", c.idx)); close(c.done); tr.poke() }()
			case 'p':
				go func() { c.err = conn.Prepare(ctx, fmt.Sprintf("SELECT P%d. FROM t", c.idx)); close(c.done); tr.poke() }()
			case 'g':
				nReg++
				nth = nReg
				go func() { c.err = conn.Register(); close(c.done); tr.poke() }()
			case 'h':
				nHb++
				nth = nHb
				close(c.done) // (the heartbeat's exec is not observable; its call never "returns" to the harness)
			}
			waitFor(func() bool { return find(c, nth) != nil || tr.isClosed() || (c.typ != 'h' && isDone(c)) }, tr.notify,
				fmt.Sprintf("request of call %d (%c) never written", c.idx, c.typ))
			rq := find(c, nth)
			if rq == nil {
				if tr.isClosed() {
					break steps
				}
				return fmt.Sprintf("call %d returned without writing its request:%v", c.idx, c.err)
			}
			c.sid = rq.Stream
			if usedIDs[c.sid] {
				// an id is in use twice only if the earlier call has been answered and returned; the monitor of the
				// Session runs judges re-use, here it is only bookkeeping
			}
			usedIDs[c.sid] = true
			if c.typ == 'q' {
				f := &memcluster.Frame{Version: byte(proto) | 0x80, Stream: c.sid, Op: memcluster.OpResult, Body: jrBody(c.idx, L)}
				c.frame = f.Encode(proto)
			}
			if held {
				waitFor(func() bool { return tr.holding() || tr.isClosed() }, tr.notify, "the Write of the held request never started")
			}
		case 'd':
			var i, n int
			var err error
			p := strings.SplitN(st[1:], ".", 2)
			i, err = strconv.Atoi(p[0])
			if err != nil || i < 1 || i > len(calls) || (cur >= 0 && cur != i-1) {
				return "bad-op"
			}
			c := calls[i-1]
			if c.typ != 'q' || (anyHeld() && !c.held) || (c.answered && c.kind != "") {
				return "bad-op"
			}
			n = len(c.frame) - c.sent
			if len(p) == 2 {
				n, err = strconv.Atoi(p[1])
				if err != nil {
					return "bad-op"
				}
			}
			if n < 1 || c.sent+n > len(c.frame) {
				return "bad-op"
			}
			chunk := c.frame[c.sent : c.sent+n]
			c.sent += n
			c.answered = true
			cur = i - 1
			tr.deliver(chunk)
			if c.sent == len(c.frame) {
				cur = -1
				complete(c, st0)
			} else if c.held {
				waitConsumed(fmt.Sprintf("receive loop did not consume %q", st0))
			} else {
				waitDrained(fmt.Sprintf("receive loop did not come back for more after %q", st0))
			}
		case 'A':
			p := strings.SplitN(st[1:], ":", 2)
			if len(p) != 2 || p[1] == "" {
				return "bad-op"
			}
			i, err := strconv.Atoi(p[0])
			if err != nil || i < 1 || i > len(calls) || cur >= 0 {
				return "bad-op"
			}
			c := calls[i-1]
			if c.answered || (anyHeld() && !c.held) {
				return "bad-op"
			}
			f := &memcluster.Frame{Version: byte(proto) | 0x80, Stream: c.sid}
			c.kind = p[1][:1]
			switch c.kind {
			case "S":
				b := &memcluster.W{}
				b.StringMultiMap(map[string][]string{"CQL_VERSION": {"3.0.0"}})
				f.Op, f.Body = memcluster.OpSupported, b.B
			case "Y":
				f.Op = memcluster.OpReady
			case "V":
				f.Op, f.Body = memcluster.OpResult, memcluster.VoidBody()
			case "K":
				b := &memcluster.W{}
				b.Int(3)
				b.String(fmt.Sprintf("K%d.", c.idx))
				f.Op, f.Body = memcluster.OpResult, b.B
			case "P":
				f.Op, f.Body = memcluster.OpResult, memcluster.PreparedBody(proto, []byte(ownTag(c.idx)), nil, nil, nil)
			case "E":
				code, err := strconv.Atoi(p[1][1:])
				if err != nil {
					return "bad-op"
				}
				c.code = code
				var extra []byte
				switch code {
				case 0x1000:
					extra = memcluster.UnavailableExtra(1, 2, 1)
				case 0x1100:
					extra = memcluster.WriteTimeoutExtra(1, 1, 2, "SIMPLE")
				case 0x1200:
					extra = memcluster.ReadTimeoutExtra(1, 1, 2, 1)
				case 0x2400:
					e := &memcluster.W{}
					e.String("ks")
					e.String("t")
					extra = e.B
				case 0x2500:
					extra = memcluster.UnpreparedExtra([]byte("id"))
				}
				f.Op, f.Body = memcluster.OpError, memcluster.ErrorBody(int32(code), ownTag(c.idx), extra)
			default:
				return "bad-op"
			}
			if len(p[1]) > 1 && c.kind != "E" {
				return "bad-op"
			}
			c.answered = true
			c.frame = f.Encode(proto)
			c.sent = len(c.frame)
			tr.deliver(c.frame)
			complete(c, st0)
		case 'w':
			i, err := strconv.Atoi(st[1:])
			if err != nil || i < 1 || i > len(calls) {
				return "bad-op"
			}
			c := calls[i-1]
			if !c.held {
				continue
			}
			c.held = false
			tr.releaseWrite()
			if c.due {
				c.due = false
				waitDrained(fmt.Sprintf("receive loop did not come back for more after the held Write of call %d returned", i))
				// the receive loop is back in the transport: it has handed the answer over, released it or dropped it.
				// A caller that was handed its answer is past its select; for any other this ends the wait.
				c.cancel()
				waitCall(c, fmt.Sprintf("call %d did not return (answer consumed, Write returned, context cancelled)", i))
			}
		case 'c':
			i, err := strconv.Atoi(st[1:])
			if err != nil || i < 1 || i > len(calls) {
				return "bad-op"
			}
			c := calls[i-1]
			if c.typ != 'q' || c.held || cur == i-1 {
				return "bad-op"
			}
			c.cancelled = true
			c.cancel()
			waitCall(c, fmt.Sprintf("call %d did not return after its context was cancelled", i))
		case 'v', 'x':
			L, err := strconv.Atoi(st[1:])
			if err != nil || L < 0 || L > 1<<20 || cur >= 0 || anyHeld() {
				return "bad-op"
			}
			f := &memcluster.Frame{Version: byte(proto) | 0x80, Stream: -1, Op: memcluster.OpEvent}
			if st[0] == 'v' {
				b := &memcluster.W{}
				b.String("VERIF")
				f.Body = append(b.B, jrBody(0, L)...)
			} else {
				id := cap - 1
				for usedIDs[id] {
					id--
				}
				f.Stream, f.Op, f.Body = id, memcluster.OpResult, jrBody(0, L)
			}
			tr.deliver(f.Encode(proto))
			waitDrained(fmt.Sprintf("receive loop did not come back for more after %q", st0))
		case 'a':
			if hb == 1 || len(st) != 1 {
				return "bad-op"
			}
			out = append(out, fmt.Sprintf("a=%d", cap-1-conn.Avail()))
		case 'k':
			terminal = "k"
			done := make(chan struct{})
			go func() { conn.Close(); close(done) }()
			waitFor(func() bool {
				select {
				case <-done:
					return true
				default:
					return false
				}
			}, done, "Conn.Close did not return")
		case 'z':
			terminal = "z"
			tr.mu.Lock()
			tr.eof = true
			tr.mu.Unlock()
			tr.kick()
			waitFor(tr.isClosed, tr.notify, "the driver did not close the connection after the peer closed it")
		default:
			return "bad-op"
		}
	}
	closed := tr.isClosed()
	if closed {
		tr.releaseWrite()
		for _, c := range calls {
			waitCall(c, fmt.Sprintf("call %d did not return after the connection was closed", c.idx))
		}
	}
	out = append(out, ";")
	for _, c := range calls {
		if c.typ == 'h' {
			out = append(out, "-")
			continue
		}
		if !isDone(c) {
			out = append(out, "W")
			continue
		}
		ownErr := func(err error) string { // an error value: whose frame does it carry, if any?
			isFrame, stream, code, msg := gocql.VerifC01dErrInfo(err)
			switch {
			case isFrame && c.kind == "E" && stream == c.sid && code == c.code && msg == ownTag(c.idx):
				return "E"
			case isFrame:
				return fmt.Sprintf("F!foreign(error-value-is-a-frame:stream=%d,code=%d,msg=%q;own-stream=%d)", stream, code, msg, c.sid)
			}
			return ""
		}
		if c.typ == 'q' {
			r := c.res
			switch {
			case r.Class == "resp":
				if r.Stream == c.sid && len(c.frame) >= hl && r.Length == len(c.frame)-hl && r.BodyHash == jrFnv(c.frame[hl:]) && r.Op == int(c.frame[hl-5]) && c.sent == len(c.frame) {
					out = append(out, "R")
				} else {
					out = append(out, fmt.Sprintf("F!foreign(response:stream=%d,op=%d,len=%d;own-stream=%d)", r.Stream, r.Op, r.Length, c.sid))
				}
			case r.Class == "ctx" || r.Class == "deadline":
				out = append(out, "C")
			case r.Class == "timeout":
				out = append(out, "T")
			default:
				if l := ownErr(r.Err); l != "" {
					out = append(out, l)
				} else {
					out = append(out, "X")
				}
			}
			continue
		}
		switch {
		case c.err == nil:
			out = append(out, "K")
		case ownErr(c.err) != "":
			out = append(out, ownErr(c.err))
		case errors.Is(c.err, context.Canceled):
			// USE and PREPARE run under the CONNECTION's context: when Conn.Close cancels it, exec's select has two ready
			// arms (ctx.Done -> context.Canceled, c.ctx.Done -> ErrConnectionClosed) and takes either: both say "closed"
			out = append(out, "X")
		case ownIsClosedErr(c.err):
			out = append(out, "X")
		default:
			out = append(out, "P")
		}
	}
	out = append(out, "|")
	if closed {
		out = append(out, "closed")
	} else {
		out = append(out, "open")
	}
	return strings.Join(out, " ")
}

var _ = vh.Hex

var ownErrCodes = []int{0x0000, 0x000A, 0x1000, 0x1001, 0x1002, 0x1003, 0x1100, 0x1200, 0x2000, 0x2100, 0x2200, 0x2300, 0x2400, 0x2500}

// GenOwn draws one script. hb: with the real heartbeat (each heartbeat round costs >= 1 s of wall clock, which
// decides nothing: such scripts are run concurrently).
func GenOwn(r *vh.Rng, hb bool) (line, class string) {
	proto := []int{2, 3, 4}[r.Intn(3)]
	hl := memcluster.HeaderLen(proto)
	type cs struct {
		typ                        byte
		L, sent                    int
		held, answered, gone, done bool
	}
	var calls []*cs
	var steps []string
	feats := map[string]bool{}
	heldIdx, cur := -1, -1
	total := func(c *cs) int { return hl + c.L }
	expected := map[byte]string{'h': "S", 'u': "K", 'p': "P", 'g': "Y", 'q': "V"}
	start := func(typ byte, held bool) int {
		c := &cs{typ: typ, held: held}
		s := string(typ)
		if typ == 'q' {
			c.L = jrLen(r)
			if c.L > 6000 {
				c.L = 5 + r.Intn(60)
			}
			s = fmt.Sprintf("q%d", c.L)
		}
		if held {
			s = "!" + s
			heldIdx = len(calls)
			feats["held-write"] = true
		}
		if typ != 'q' && typ != 'h' {
			feats["own-request"] = true
		}
		calls = append(calls, c)
		steps = append(steps, s)
		return len(calls) - 1
	}
	// answer call i with a whole frame of some kind
	whole := func(i int) (closes bool) {
		c := calls[i]
		var k string
		switch p := r.Intn(10); {
		case c.typ == 'q' && p < 6:
			k = "" // its RESULT frame
		case p < 5:
			k = expected[c.typ]
		case p < 8 || c.typ == 'q':
			k = fmt.Sprintf("E%d", ownErrCodes[r.Intn(len(ownErrCodes))])
			feats["error-answer"] = true
			if c.typ == 'h' {
				feats["heartbeat-error"] = true
			}
		default:
			k = string("SYVKP"[r.Intn(5)])
			if k != expected[c.typ] {
				feats["wrong-kind"] = true
				if c.typ == 'h' {
					feats["heartbeat-wrong-kind"] = true
					closes = true
				}
			}
		}
		if k == "" {
			steps = append(steps, fmt.Sprintf("d%d", i+1))
		} else {
			steps = append(steps, fmt.Sprintf("A%d:%s", i+1, k))
		}
		c.answered, c.sent = true, total(c)
		if !c.gone {
			c.done = true
		}
		return closes
	}
	piece := func(i int) {
		c := calls[i]
		left := total(c) - c.sent
		k := 1 + r.Intn(left)
		switch r.Intn(4) {
		case 0:
			k = left
		case 1:
			if c.sent < hl {
				k = hl - c.sent // the header exactly: the receive loop looks the handler up
			}
		}
		c.sent += k
		c.answered = true
		steps = append(steps, fmt.Sprintf("d%d.%d", i+1, k))
		cur = i
		if c.sent == total(c) {
			cur = -1
			if !c.gone {
				c.done = true
			}
		}
	}
	n := 2 + r.Intn(6)
	closedByDriver := false
	hbOpen := -1   // index of the heartbeat call that is unanswered
	hbRounds := 0
	needSync := false // a heartbeat was answered with ERROR: the next `h` is the event "the heartbeat loop went round"
	for it := 0; it < 60 && !closedByDriver; it++ {
		var waiting, unanswered []int
		for i, c := range calls {
			if c.typ == 'q' && !c.gone && !c.done && !c.held && i != cur {
				waiting = append(waiting, i)
			}
			if !c.answered && c.typ != 'h' {
				unanswered = append(unanswered, i)
			}
		}
		if heldIdx >= 0 {
			c := calls[heldIdx]
			switch p := r.Intn(100); {
			case p < 45 && c.sent < total(c):
				if cur == heldIdx || r.Intn(2) == 0 {
					piece(heldIdx)
				} else {
					whole(heldIdx)
				}
			case p < 55 && len(waiting) > 0:
				i := waiting[r.Intn(len(waiting))]
				calls[i].gone = true
				steps = append(steps, fmt.Sprintf("c%d", i+1))
			case p >= 55 && (c.sent == total(c) || r.Intn(5) == 0):
				if c.sent >= hl {
					feats["answer-before-write-returned"] = true
				}
				steps = append(steps, fmt.Sprintf("w%d", heldIdx+1))
				c.held = false
				heldIdx = -1
			}
			continue
		}
		if cur >= 0 {
			piece(cur)
			continue
		}
		if len(calls) >= n && len(unanswered) == 0 && hbOpen < 0 && !needSync {
			break
		}
		switch p := r.Intn(100); {
		case p < 30 && len(calls) < n:
			switch q := r.Intn(10); {
			case q < 4:
				start('q', false)
			case q < 7:
				start('q', true)
			default:
				start("upg"[r.Intn(3)], false)
			}
		case p < 40 && hb && hbOpen < 0 && hbRounds < 2 && (hbRounds == 0 || needSync):
			hbOpen = start('h', false)
			hbRounds++
			needSync = false
		case p < 55 && hbOpen >= 0:
			before := feats["heartbeat-error"]
			calls[hbOpen].typ = 'h'
			if whole(hbOpen) {
				closedByDriver = true
			}
			if feats["heartbeat-error"] && !before && hbRounds < 2 {
				needSync = true
			}
			hbOpen = -1
		case p < 80 && len(unanswered) > 0 && !needSync:
			i := unanswered[r.Intn(len(unanswered))]
			if calls[i].typ == 'q' && r.Intn(3) == 0 {
				piece(i)
			} else {
				whole(i)
			}
		case p < 86 && len(waiting) > 0:
			i := waiting[r.Intn(len(waiting))]
			calls[i].gone = true
			steps = append(steps, fmt.Sprintf("c%d", i+1))
		case p < 88 && len(calls) > 0:
			steps = append(steps, fmt.Sprintf("v%d", r.Intn(40)))
		case p < 90 && len(calls) > 0:
			steps = append(steps, fmt.Sprintf("x%d", jrLen(r)%5000))
		case p >= 94 && !hb:
			steps = append(steps, "a")
		}
	}
	if !closedByDriver {
		if heldIdx >= 0 {
			steps = append(steps, fmt.Sprintf("w%d", heldIdx+1))
			heldIdx = -1
		}
		for cur >= 0 {
			piece(cur)
		}
		if !hb {
			steps = append(steps, "a")
		}
		switch r.Intn(6) {
		case 0:
			steps = append(steps, "k")
		case 1:
			steps = append(steps, "z")
		}
	}
	class = "dr"
	if hb {
		class = "dr/hb"
	}
	for _, k := range []string{"heartbeat-error", "heartbeat-wrong-kind", "answer-before-write-returned", "held-write", "wrong-kind", "error-answer", "own-request"} {
		if feats[k] {
			class += "/" + k
			break
		}
	}
	h := 0
	if hb {
		h = 1
	}
	return fmt.Sprintf("dr %d %d %d %s", proto, r.Intn(2), h, strings.Join(steps, " ")), class
}

// RunOwnBatch runs scripts concurrently (they are independent connections) and returns the answers in order.
func RunOwnBatch(lines []string, par int) []string {
	ans := make([]string, len(lines))
	sem := make(chan struct{}, par)
	var wg sync.WaitGroup
	for i := range lines {
		wg.Add(1)
		sem <- struct{}{}
		go func(i int) {
			defer wg.Done()
			defer func() { <-sem }()
			ans[i] = RunOwn(lines[i])
		}(i)
	}
	wg.Wait()
	return ans
}
