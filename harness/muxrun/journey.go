package muxrun

// The journey of a response through the REAL receive loop with REAL callers (Conn.exec) on a bare Conn whose
// transport the harness owns: every scheduling decision is an EVENT, no wall clock decides anything
// (Conn.timeout is 0 or one hour; callers give up because the harness cancels their context).
//
//	jr <proto> <writer 0|1> <timeout 0|1> <step>...
//
//	q<L>      start the next call (numbered 1, 2, ... in this order); the scripted server will answer it with a
//	          RESULT frame whose body has L bytes. The step ends when the server has read the whole request.
//	d<i>.<n>  the server writes the next n bytes of the response frame of call i (frames are contiguous on the
//	          wire: once the first byte of a frame is out, the rest follows before any other frame). The step
//	          ends when the receive loop has consumed them and is blocked in the transport again - and, when
//	          the frame is complete and call i has not given up, when call i has returned.
//	c<i>      the context of call i is cancelled; the step ends when call i has returned
//	r<i>      the rest of the frame of call i is written and, WITHOUT waiting, the context of call i is cancelled
//	          (give-up racing the hand-over); ends when the receive loop is blocked again and call i returned
//	v<L>/x<L> the server writes a whole EVENT frame / a whole response frame for a stream id that no call holds
//	a         report the number of stream ids reserved: cap-1-AvailableStreams()
//	k         Conn.Close() (last step);  z  the server closes the transport (last step)
//
// Answer: `a=<n>` per `a` step, then `;` and one letter per call: R its own response (stream id and body as
// sent) / C context error / X connection closed / E read error / W still waiting / A (racing calls: R or C).
// The Lean side (Driver/C06.lean) runs the same script on the machine Model/MuxPipe.lean.
//
// A wait that does not end within the watchdog (2 x 20 s) is a hang: the answer is `crash:hang:<what>` and the
// goroutine dump (JrHangDump) shows who is blocked.

import (
	"context"
	"encoding/binary"
	"fmt"
	"hash/fnv"
	"io"
	"net"
	"runtime"
	"strconv"
	"strings"
	"sync"
	"time"

	"github.com/gocql/gocql"
	"verifharness/memcluster"
	"verifharness/vh"
)

// JrHangDump holds the goroutine dump of the last journey that hung.
var JrHangDump string
var jrHung bool

// jrWatch is one watchdog window (two windows must pass).
var jrWatch = 20 * time.Second

type jrTransport struct {
	mu       sync.Mutex
	in       []byte // written by the server, not yet read by the driver
	parked   bool   // a Read of the driver is blocked with nothing to read
	out      []byte // written by the driver
	closed   bool
	eof      bool
	closeErr error
	closes   int
	notify   chan struct{}
	wake     chan struct{} // wakes the blocked Read
	// write-return gate (own.go): a Write whose bytes match holdPred hands them to the peer at once and then does not
	// RETURN to its caller before releaseWrite
	holdPred func(p []byte) bool
	held     chan struct{} // non-nil while a Write is being held
}

func newJrTransport() *jrTransport {
	return &jrTransport{notify: make(chan struct{}, 1), wake: make(chan struct{}, 1)}
}

func (t *jrTransport) poke() {
	select {
	case t.notify <- struct{}{}:
	default:
	}
}

func (t *jrTransport) Read(p []byte) (int, error) {
	for {
		t.mu.Lock()
		if t.closed {
			t.mu.Unlock()
			return 0, &net.OpError{Op: "read", Net: "verif", Err: net.ErrClosed}
		}
		if len(t.in) > 0 {
			n := copy(p, t.in)
			t.in = t.in[n:]
			t.parked = false
			empty := len(t.in) == 0
			t.mu.Unlock()
			if empty {
				t.poke() // (event "everything written so far has been consumed", own.go)
			}
			return n, nil
		}
		if t.eof {
			t.mu.Unlock()
			return 0, io.EOF
		}
		t.parked = true
		t.mu.Unlock()
		t.poke()
		<-t.wake
	}
}

func (t *jrTransport) kick() {
	select {
	case t.wake <- struct{}{}:
	default:
	}
}

func (t *jrTransport) Write(p []byte) (int, error) {
	t.mu.Lock()
	if t.closed {
		t.mu.Unlock()
		return 0, &net.OpError{Op: "write", Net: "verif", Err: net.ErrClosed}
	}
	t.out = append(t.out, p...)
	var gate chan struct{}
	if t.holdPred != nil && t.holdPred(p) {
		gate = make(chan struct{})
		t.held = gate
		t.holdPred = nil
	}
	t.mu.Unlock()
	t.poke()
	if gate != nil {
		<-gate // the peer has the bytes; the sender is still inside Write
		t.poke()
	}
	return len(p), nil
}

// holdNext arms the gate: the next Write whose bytes satisfy pred is held
func (t *jrTransport) holdNext(pred func(p []byte) bool) { t.mu.Lock(); t.holdPred = pred; t.mu.Unlock() }

// holding reports whether a Write is being held right now
func (t *jrTransport) holding() bool { t.mu.Lock(); defer t.mu.Unlock(); return t.held != nil }

// releaseWrite lets the held Write return (no-op when none is held)
func (t *jrTransport) releaseWrite() {
	t.mu.Lock()
	g := t.held
	t.held = nil
	t.holdPred = nil
	t.mu.Unlock()
	if g != nil {
		close(g)
	}
}

// consumed: everything the server wrote has been read by the driver
func (t *jrTransport) consumed() bool { t.mu.Lock(); defer t.mu.Unlock(); return len(t.in) == 0 || t.closed }

func (t *jrTransport) Close() error {
	t.mu.Lock()
	t.closed = true
	t.closes++
	err := t.closeErr
	g := t.held
	t.held = nil
	t.mu.Unlock()
	if g != nil {
		close(g)
	}
	t.kick()
	t.poke()
	return err
}

func (t *jrTransport) LocalAddr() net.Addr                { return &net.TCPAddr{IP: net.IPv4(127, 0, 0, 1), Port: 1} }
func (t *jrTransport) RemoteAddr() net.Addr               { return &net.TCPAddr{IP: net.IPv4(127, 0, 0, 1), Port: 2} }
func (t *jrTransport) SetDeadline(time.Time) error        { return nil }
func (t *jrTransport) SetReadDeadline(time.Time) error    { return nil }
func (t *jrTransport) SetWriteDeadline(time.Time) error   { return nil }
func (t *jrTransport) deliver(b []byte)                   { t.mu.Lock(); t.in = append(t.in, b...); t.parked = false; t.mu.Unlock(); t.kick() }
func (t *jrTransport) drained() bool {
	t.mu.Lock()
	defer t.mu.Unlock()
	return (t.parked && len(t.in) == 0) || t.closed
}
func (t *jrTransport) isClosed() bool { t.mu.Lock(); defer t.mu.Unlock(); return t.closed }
func (t *jrTransport) requests(proto int) []*memcluster.Frame {
	t.mu.Lock()
	defer t.mu.Unlock()
	fs, _, _ := memcluster.SplitFrames(t.out, proto)
	return fs
}

type jrCall struct {
	idx       int
	L         int
	frame     []byte
	sent      int
	sid       int
	cancel    context.CancelFunc
	done      chan struct{}
	res       gocql.VerifC06Result
	cancelled bool
	racy      bool
}

func jrBody(idx, L int) []byte {
	r := vh.NewRng(uint64(idx)*7919 + uint64(L))
	return r.Bytes(L)
}

func jrFnv(b []byte) uint32 {
	h := fnv.New32a()
	h.Write(b)
	return h.Sum32()
}

type jrHang struct{ what, dump string }

// RunJourney executes one `jr` line on the real code.
func RunJourney(line string) (ans string) {
	if jrHung {
		return "skipped-after-hang"
	}
	defer func() {
		if e := recover(); e != nil {
			if h, ok := e.(jrHang); ok {
				JrHangDump = "journey: " + line + "\nblocked: " + h.what + "\n\n" + h.dump
				jrHung = true
				inGocql := strings.Contains(JrHangDump, "gocql.(*Conn)")
				ans = fmt.Sprintf("crash:hang:%s(watchdog,blocked-in-gocql=%v)", h.what, inGocql)
				return
			}
			ans = fmt.Sprintf("crash:%v", e)
		}
	}()
	w := strings.Fields(line)
	if len(w) < 4 || w[0] != "jr" {
		return "bad-op"
	}
	proto, e1 := strconv.Atoi(w[1])
	wr, e2 := strconv.Atoi(w[2])
	tmo, e3 := strconv.Atoi(w[3])
	if e1 != nil || e2 != nil || e3 != nil || proto < 2 || proto > 4 {
		return "bad-op"
	}
	tr := newJrTransport()
	var coalesce, timeout time.Duration
	if wr != 0 {
		coalesce = 100 * time.Microsecond
	}
	if tmo != 0 {
		timeout = time.Hour
	}
	var errMu sync.Mutex
	connErr := "Conn.Close"
	conn := gocql.VerifC06NewConn(tr, proto, coalesce, timeout, func(err error, closed bool) {
		errMu.Lock()
		if err != nil {
			connErr = strings.ReplaceAll(err.Error(), " ", "_")
		}
		errMu.Unlock()
	})
	cap := conn.Cap()

	// waitFor blocks until cond holds; two watchdog windows without it = hang
	waitFor := func(cond func() bool, ch <-chan struct{}, what string) {
		for win := 0; win < 2; {
			if cond() {
				return
			}
			select {
			case <-ch:
			case <-time.After(jrWatch):
				win++
			}
		}
		if !cond() {
			buf := make([]byte, 1<<20)
			n := runtime.Stack(buf, true) // now: the teardown that follows cancels the callers
			panic(jrHang{what, string(buf[:n])})
		}
	}
	waitDrained := func(what string) { waitFor(tr.drained, tr.notify, what) }
	waitCall := func(c *jrCall, what string) {
		waitFor(func() bool {
			select {
			case <-c.done:
				return true
			default:
				return false
			}
		}, c.done, what)
	}

	var calls []*jrCall
	var out []string
	usedIDs := map[int]bool{}
	cur := -1 // index into calls of the frame being written
	terminal := ""
	defer func() {
		// teardown (also after a hang: best effort, never waits)
		for _, c := range calls {
			c.cancel()
		}
	}()
	waitDrained("receive loop never started reading")
	for _, st := range w[4:] {
		if terminal != "" {
			return "bad-op"
		}
		if tr.isClosed() {
			// nothing in a script short of k / z entitles the driver to close the connection
			errMu.Lock()
			defer errMu.Unlock()
			return fmt.Sprintf("connection-closed-by-the-driver(before %q):%s", st, connErr)
		}
		switch st[0] {
		case 'q':
			L, err := strconv.Atoi(st[1:])
			if err != nil || L < 0 || L > 1<<20 {
				return "bad-op"
			}
			c := &jrCall{idx: len(calls) + 1, L: L, done: make(chan struct{})}
			ctx, cancel := context.WithCancel(context.Background())
			c.cancel = cancel
			calls = append(calls, c)
			go func() {
				c.res = conn.Exec(ctx, fmt.Sprintf("J%d", c.idx))
				close(c.done)
				tr.poke()
			}()
			returned := func() bool {
				select {
				case <-c.done:
					return true
				default:
					return false
				}
			}
			for len(tr.requests(proto)) < c.idx && !tr.isClosed() && !returned() {
				// (two event sources: the transport and the call itself)
				waitFor(func() bool { return len(tr.requests(proto)) >= c.idx || tr.isClosed() || returned() }, tr.notify, fmt.Sprintf("request of call %d never written", c.idx))
			}
			if len(tr.requests(proto)) < c.idx && returned() && !tr.isClosed() {
				return fmt.Sprintf("call %d returned without writing its request:%s:%v", c.idx, c.res.Class, strings.ReplaceAll(fmt.Sprint(c.res.Err), " ", "_"))
			}
			if len(tr.requests(proto)) < c.idx {
				errMu.Lock()
				defer errMu.Unlock()
				return fmt.Sprintf("connection-closed-by-the-driver(at %q):%s", st, connErr)
			}
			rq := tr.requests(proto)[c.idx-1]
			if rq.Op != memcluster.OpQuery || len(rq.Body) < 4 || !strings.HasPrefix(string(rq.Body[4:]), fmt.Sprintf("J%d", c.idx)) {
				return fmt.Sprintf("harness-error:request %d is not the query of call %d", c.idx, c.idx)
			}
			c.sid = rq.Stream
			usedIDs[c.sid] = true
			f := &memcluster.Frame{Version: byte(proto) | 0x80, Stream: c.sid, Op: memcluster.OpResult, Body: jrBody(c.idx, L)}
			c.frame = f.Encode(proto)
		case 'd', 'r':
			var i, n int
			var err error
			if st[0] == 'd' {
				p := strings.SplitN(st[1:], ".", 2)
				if len(p) != 2 {
					return "bad-op"
				}
				i, err = strconv.Atoi(p[0])
				if err == nil {
					n, err = strconv.Atoi(p[1])
				}
			} else {
				i, err = strconv.Atoi(st[1:])
			}
			if err != nil || i < 1 || i > len(calls) || (cur >= 0 && cur != i-1) {
				return "bad-op"
			}
			c := calls[i-1]
			if st[0] == 'r' {
				n = len(c.frame) - c.sent
			}
			if n < 1 || c.sent+n > len(c.frame) {
				return "bad-op"
			}
			chunk := c.frame[c.sent : c.sent+n]
			c.sent += n
			cur = i - 1
			complete := c.sent == len(c.frame)
			if complete {
				cur = -1
			}
			tr.deliver(chunk)
			if st[0] == 'r' {
				c.racy = true
				c.cancelled = true
				c.cancel()
			}
			waitDrained(fmt.Sprintf("receive loop did not come back for more after %q (call %d, %d/%d bytes of its response written)", st, i, c.sent, len(c.frame)))
			if complete && (!c.cancelled || c.racy) {
				waitCall(c, fmt.Sprintf("call %d did not return although its whole response was received", i))
			}
		case 'c':
			i, err := strconv.Atoi(st[1:])
			if err != nil || i < 1 || i > len(calls) {
				return "bad-op"
			}
			c := calls[i-1]
			c.cancelled = true
			c.cancel()
			waitCall(c, fmt.Sprintf("call %d did not return after its context was cancelled", i))
		case 'v', 'x':
			L, err := strconv.Atoi(st[1:])
			if err != nil || L < 0 || L > 1<<20 || cur >= 0 {
				return "bad-op"
			}
			f := &memcluster.Frame{Version: byte(proto) | 0x80, Stream: -1, Op: memcluster.OpEvent}
			if st[0] == 'v' {
				b := &memcluster.W{}
				b.String("VERIF")
				f.Body = append(b.B, jrBody(0, L)...)
			} else {
				id := cap - 1
				for usedIDs[id] {
					id--
				}
				f.Stream, f.Op, f.Body = id, memcluster.OpResult, jrBody(0, L)
			}
			tr.deliver(f.Encode(proto))
			waitDrained(fmt.Sprintf("receive loop did not come back for more after %q", st))
		case 'a':
			out = append(out, fmt.Sprintf("a=%d", cap-1-conn.Avail()))
		case 'k':
			terminal = "k"
			done := make(chan struct{})
			go func() { conn.Close(); close(done) }()
			waitFor(func() bool {
				select {
				case <-done:
					return true
				default:
					return false
				}
			}, done, "Conn.Close did not return")
		case 'z':
			terminal = "z"
			tr.mu.Lock()
			tr.eof = true
			tr.mu.Unlock()
			tr.kick()
		default:
			return "bad-op"
		}
	}
	if terminal != "" {
		for _, c := range calls {
			waitCall(c, fmt.Sprintf("call %d did not return after the connection was closed (%s)", c.idx, terminal))
		}
	} else if tr.isClosed() {
		errMu.Lock()
		defer errMu.Unlock()
		return "connection-closed-by-the-driver(at the end):" + connErr
	}
	out = append(out, ";")
	for _, c := range calls {
		select {
		case <-c.done:
			l := map[string]string{"ctx": "C", "closed": "X", "err": "E", "timeout": "T", "deadline": "C", "nostreams": "N"}[c.res.Class]
			if c.res.Class == "resp" {
				l = "R"
				if c.res.Stream != c.sid || c.res.Op != memcluster.OpResult || c.res.Length != c.L || c.res.BodyHash != jrFnv(jrBody(c.idx, c.L)) {
					l = fmt.Sprintf("R!not-its-own-response(stream=%d,len=%d)", c.res.Stream, c.res.Length)
				}
			}
			if c.racy && (l == "R" || l == "C") {
				l = "A"
			}
			out = append(out, l)
		default:
			out = append(out, "W")
		}
	}
	// teardown under the watchdog: every caller still waiting returns when cancelled, Close returns
	for _, c := range calls {
		c.cancel()
		waitCall(c, fmt.Sprintf("call %d did not return at teardown (context cancelled)", c.idx))
	}
	if terminal == "" {
		done := make(chan struct{})
		go func() { conn.Close(); close(done) }()
		waitFor(func() bool {
			select {
			case <-done:
				return true
			default:
				return false
			}
		}, done, "Conn.Close did not return at teardown")
	}
	conn.Stop()
	return strings.Join(out, " ")
}

func jrLen(r *vh.Rng) int {
	switch r.Intn(16) {
	case 0:
		return 0
	case 1:
		return 4080 + r.Intn(30) // around bufio's buffer
	case 2:
		return 9000 + r.Intn(8000)
	case 3, 4:
		return 100 + r.Intn(300)
	default:
		return 1 + r.Intn(40)
	}
}

// GenJourney draws one script. The give-up points cover the whole journey of a response: before its first
// byte, inside its header, between header and body, inside the body, racing the hand-over, after it.
func GenJourney(r *vh.Rng) (line, class string) {
	proto := []int{2, 3, 4}[r.Intn(3)]
	hl := memcluster.HeaderLen(proto)
	type cs struct {
		L, sent          int
		gone, done, racy bool
	}
	var calls []*cs
	var steps []string
	feats := map[string]bool{}
	total := func(c *cs) int { return hl + c.L }
	n := 1 + r.Intn(6)
	cur := -1
	start := func() {
		c := &cs{L: jrLen(r)}
		calls = append(calls, c)
		steps = append(steps, fmt.Sprintf("q%d", c.L))
	}
	phase := func(c *cs) string {
		switch {
		case c.sent == 0:
			return "before-first-byte"
		case c.sent < hl:
			return "inside-header"
		case c.sent == hl && c.L > 0:
			return "between-header-and-body"
		case c.sent < total(c):
			return "inside-body"
		}
		return "after-frame"
	}
	piece := func(i int) {
		c := calls[i]
		left := total(c) - c.sent
		var k int
		switch r.Intn(6) {
		case 0:
			k = left
		case 1, 2: // up to the end of the header exactly
			if c.sent < hl {
				k = hl - c.sent
			} else {
				k = 1 + r.Intn(left)
			}
		case 3:
			k = 1
		default:
			k = 1 + r.Intn(left)
		}
		if k > left {
			k = left
		}
		c.sent += k
		steps = append(steps, fmt.Sprintf("d%d.%d", i+1, k))
		cur = i
		if c.sent == total(c) {
			cur = -1
			if !c.gone {
				c.done = true
			}
		}
	}
	giveUp := func(i int) {
		c := calls[i]
		feats["gave-up-"+phase(c)] = true
		c.gone = true
		steps = append(steps, fmt.Sprintf("c%d", i+1))
	}
	focused := r.Intn(2) == 0
	for it := 0; focused && it < n; it++ {
		// one call after the other: answered up to a chosen point of the journey, given up there, the rest delivered
		start()
		i := len(calls) - 1
		c := calls[i]
		if r.Intn(4) == 0 && len(calls) < n {
			start() // a bystander that waits, is answered later or never
		}
		var upto int
		switch r.Intn(7) {
		case 0:
			upto = 0
		case 1:
			upto = 1 + r.Intn(hl-1)
		case 2:
			upto = hl
		case 3, 4:
			upto = hl
			if c.L > 1 {
				upto = hl + 1 + r.Intn(c.L-1)
			}
		case 5:
			upto = -1 // races the hand-over
		default:
			upto = total(c) // never gives up
		}
		for c.sent < upto {
			k := upto - c.sent
			if r.Intn(2) == 0 {
				k = 1 + r.Intn(k)
			}
			c.sent += k
			steps = append(steps, fmt.Sprintf("d%d.%d", i+1, k))
		}
		switch {
		case upto == -1:
			if r.Intn(2) == 0 && c.L > 0 {
				k := hl + r.Intn(c.L)
				c.sent = k
				steps = append(steps, fmt.Sprintf("d%d.%d", i+1, k))
			}
			feats["gave-up-racing-hand-over"] = true
			c.gone, c.racy, c.sent = true, true, total(c)
			steps = append(steps, fmt.Sprintf("r%d", i+1))
		case upto == total(c):
			c.done = true
		default:
			giveUp(i)
		}
		if r.Intn(3) == 0 {
			steps = append(steps, "a")
		}
		for c.sent < total(c) && (it < n-1 || r.Intn(3) != 0) {
			k := total(c) - c.sent
			if r.Intn(2) == 0 {
				k = 1 + r.Intn(k)
			}
			c.sent += k
			steps = append(steps, fmt.Sprintf("d%d.%d", i+1, k))
		}
		if c.sent > 0 && c.sent < total(c) {
			cur = i
		}
		if r.Intn(3) == 0 {
			steps = append(steps, "a")
		}
	}
	for it := 0; !focused && it < 200; it++ {
		var waiting, unbegun []int
		for i, c := range calls {
			if !c.gone && !c.done {
				waiting = append(waiting, i)
			}
			if c.sent == 0 {
				unbegun = append(unbegun, i)
			}
		}
		if len(calls) == n && cur < 0 && (len(unbegun) == 0 || r.Intn(4) == 0) {
			break
		}
		curWaits := cur >= 0 && !calls[cur].gone && !calls[cur].done
		switch p := r.Intn(100); {
		case p < 18 && len(calls) < n:
			start()
		case p < 36 && curWaits:
			// the caller of the frame that is on its way gives up right here
			giveUp(cur)
		case p < 42 && curWaits:
			c := calls[cur]
			feats["gave-up-racing-hand-over"] = true
			c.gone, c.racy, c.sent = true, true, total(c)
			steps = append(steps, fmt.Sprintf("r%d", cur+1))
			cur = -1
		case p < 64 && cur >= 0:
			piece(cur)
		case p < 64 && cur >= 0 && !calls[cur].gone && !calls[cur].done:
			// the caller of the frame that is on its way gives up right here
			giveUp(cur)
		case p < 69 && cur >= 0 && !calls[cur].gone && !calls[cur].done:
			c := calls[cur]
			feats["gave-up-racing-hand-over"] = true
			c.gone, c.racy, c.sent = true, true, total(c)
			steps = append(steps, fmt.Sprintf("r%d", cur+1))
			cur = -1
		case p < 73 && len(waiting) > 0:
			giveUp(waiting[r.Intn(len(waiting))])
		case p < 91 && cur < 0 && len(unbegun) > 0:
			piece(unbegun[r.Intn(len(unbegun))])
		case p < 93 && cur < 0 && len(calls) > 0:
			steps = append(steps, fmt.Sprintf("v%d", r.Intn(40)))
			feats["event"] = true
		case p < 95 && cur < 0 && len(calls) > 0:
			steps = append(steps, fmt.Sprintf("x%d", jrLen(r)))
			feats["unknown-id"] = true
		case p >= 95 && len(calls) > 0:
			steps = append(steps, "a")
		}
	}
	e := r.Intn(8)
	if cur >= 0 && r.Intn(2) == 0 {
		e = r.Intn(2) // the connection ends in the middle of a frame
	}
	switch {
	case e == 0:
		steps = append(steps, "k")
		feats["conn-close"] = true
		if cur >= 0 {
			feats["conn-close-mid-frame"] = true
		}
	case e == 1:
		steps = append(steps, "z")
		feats["server-close"] = true
		if cur >= 0 {
			feats["server-close-mid-frame"] = true
		}
	default:
		for cur >= 0 {
			piece(cur)
		}
		steps = append(steps, "a")
		// probe requests: the connection still serves, the ids come back
		for k := 0; k < 2; k++ {
			start()
			c := calls[len(calls)-1]
			c.sent, c.done = total(c), true
			steps = append(steps, fmt.Sprintf("d%d.%d", len(calls), total(c)))
		}
		steps = append(steps, "a")
	}
	class = "jr"
	for _, k := range []string{"gave-up-inside-body", "gave-up-between-header-and-body", "gave-up-racing-hand-over", "gave-up-inside-header",
		"conn-close-mid-frame", "server-close-mid-frame", "gave-up-before-first-byte", "gave-up-after-frame", "conn-close", "server-close", "event", "unknown-id"} {
		if feats[k] {
			class += "/" + k
			break
		}
	}
	return fmt.Sprintf("jr %d %d %d %s", proto, r.Intn(2), r.Intn(2), strings.Join(steps, " ")), class
}

var _ = binary.BigEndian
