package muxrun

// Schedule points INSIDE Conn.exec and Conn.releaseStream, calls waiting for the write slot, a connection closed
// while calls are inside exec, and TWO connections of one process (C01, round 7). Bare Conns (real serve / recv /
// exec / closeWithError / releaseStream) over transports the harness owns; the public StreamObserver API gives the
// footholds: StreamStarted (the call is registered, nothing written yet) is an EVENT, StreamFinished (inside
// releaseStream, AFTER streams.Clear) is a GATE. No wall clock decides anything.
//
//	ds <proto> <writer 0|1> <step>...
//
//	@<k>         the connection (1 or 2) that q / b / v / x / a / k / z address from here on (starts at 1)
//	q<L>         start the next call (numbered 1, 2, ... over both connections): Conn.exec of a QUERY on the current
//	             connection. When a Write is being held on that connection the call gets as far as the write slot
//	             (direct writer: the semaphore; coalescer: the flusher's channel) and WAITS there - the step ends with
//	             the event StreamStarted (it is registered); otherwise it ends when the peer has read the request.
//	!q<L>        the same, the transport does not return from Write until w<i> (own.go)
//	q<L>% !q<L>% the call is marked: when ITS releaseStream runs in the caller's goroutine it stops in the
//	             StreamFinished callback - streams.Clear has run, the id is free, releaseStream has not returned -
//	             until f<i>. Steps that wait for call i to return end when it is parked there.
//	^q<L>[%]     the call stops in the StreamContext callback: GetStream has reserved its id, addCall has not run; s<i>
//	             lets it go on (addCall - refused when the connection has been closed meanwhile, the id then stays
//	             reserved -, then the write slot as for q)
//	b  b%        Conn.exec of a request whose buildFrame fails (registered, nothing written, id released)
//	d<i>[.<n>] A<i>:V A<i>:E<code>   the peer answers user call i (own.go)
//	w<i>         the held Write of call i returns; every call that waited for the write slot writes now; ends when the
//	             peer has read all their requests (and as in own.go for an answer that was consumed before)
//	c<i>         the context of call i is cancelled: a call waiting for the write slot leaves exec through the
//	             "nothing was written" exit (delete from c.calls unless closing, releaseStream); a waiting call returns
//	f<i>         the StreamFinished callback of call i returns (and call i is no longer marked)
//	v<L> x<L> a  as in own.go, on the current connection
//	z            the peer of the current connection closes the transport: the receive loop calls closeWithError(EOF),
//	             which hands the error to every registered call - and BLOCKS on each call that is inside Write or waits
//	             for the write slot until that call gets on. Ends when c.closed is set. (From here on no call of this
//	             connection is marked any more: closeWithError and releaseStream share the Once of the two callbacks.)
//	t<k> Q<n>    WRITE FAULT: t arms it on the current connection's transport - the peer accepts k more Writes (request
//	             frames), then ONE Write accepts nothing and reports a write-deadline expiry, later Writes are accepted
//	             again; Q starts n > k calls TOGETHER (with the coalescer: one batch or several). The call whose Write
//	             failed closes the connection, every call of it ends with an error of the connection. Ends when all
//	             that has happened (or when all n requests have reached the peer after all).
//	e<L>.<n>     (direct writer only) a user call whose context has a DEADLINE: the peer takes n bytes of its request frame
//	             and stops reading, the deadline passes, the peer reads on. Nothing bounds the Write of the direct writer by
//	             the context: the whole frame goes out, the call then returns the context error - and KEEPS its id (the
//	             request is with the peer). A writer that cuts the Write at the deadline leaves a partial frame on the wire.
//	k            Conn.Close() of the current connection (only when none of its calls is held / waiting for the slot / parked)
//
// Answer: `s=<ids>` the stream id of every call whose request the peer read (`-`: none was written) - the Lean side
// runs the id allocator of internal/streams -, `a=<n>`..., `;`, one letter per call (R C X W as in own.go, B the
// buildFrame error, anything else is a violation), `|`, open/closed per connection; `dup=<n>`: request frames the
// peer read that it had read before (a request is put on the wire once).
// Lean side: Driver/C01.lean dsAnswer, one machine Model/MuxOwn.lean per connection.

import (
	"bytes"
	"context"
	"fmt"
	"net"
	"os"
	"runtime"
	"strconv"
	"strings"
	"sync"
	"sync/atomic"
	"time"

	"github.com/gocql/gocql"
	"verifharness/memcluster"
	"verifharness/vh"
)

type schedKey struct{}

type schedCall struct {
	idx       int
	typ       byte
	conn      int
	L         int
	sid       int
	frame     []byte
	sent      int
	held      bool
	queued    bool
	due       bool
	answered  bool
	written   bool
	anyID     bool // started together with others: which id it was given is not determined
	cancelled bool
	cancel    context.CancelFunc
	done      chan struct{}
	res       gocql.VerifC06Result
	buildErr  bool
	err       error
	// schedule points
	gated   atomic.Bool // stop in StreamContext (id reserved, not registered) until s<i>
	atGate1 atomic.Bool
	gate1   chan struct{}
	park    atomic.Bool
	parked  atomic.Bool
	started atomic.Bool
	gate    chan struct{}
	gateMu  sync.Once
}

func (c *schedCall) StreamStarted(gocql.ObservedStream)   { c.started.Store(true) }
func (c *schedCall) StreamAbandoned(gocql.ObservedStream) {}
func (c *schedCall) StreamFinished(gocql.ObservedStream) {
	if c.park.Load() {
		c.parked.Store(true)
		<-c.gate
		c.parked.Store(false)
	}
}
func (c *schedCall) open() { c.park.Store(false); c.gateMu.Do(func() { close(c.gate) }) }
func (c *schedCall) ungate() {
	if c.gated.Swap(false) {
		close(c.gate1)
	}
}

type schedObs struct{}

func (schedObs) StreamContext(ctx context.Context) gocql.StreamObserverContext {
	if c, ok := ctx.Value(schedKey{}).(*schedCall); ok {
		if c.gated.Load() {
			c.atGate1.Store(true)
			<-c.gate1
			c.atGate1.Store(false)
		}
		return c
	}
	return nil
}

// schedNet is the transport with a WRITE FAULT: the (failAt+1)-th Write from the moment the fault is armed accepts
// nothing and reports a write-deadline expiry (a net.Error with Timeout() true) - once; the Writes before and after it
// are accepted (a peer that stopped reading for a while).
type schedNet struct {
	*jrTransport
	fmu    sync.Mutex
	armed  bool
	failAt int
	fired  bool
	// a Write cut short in the middle of a frame: the peer takes cutN bytes of the Write that carries cutPat and stops
	// reading; the request's context deadline passes (cutExpire). A writer that has bounded the Write by a deadline
	// (SetWriteDeadline with a non-zero time) gets (cutN, os.ErrDeadlineExceeded) back; one that has not waits until the
	// peer reads on: the whole frame is accepted.
	cutPat      []byte
	cutN        int
	cutExpire   func()
	deadlineSet bool
}

func (n *schedNet) SetWriteDeadline(t time.Time) error {
	n.fmu.Lock()
	n.deadlineSet = !t.IsZero()
	n.fmu.Unlock()
	return nil
}

// schedDeadlineCtx is a request context WITH A DEADLINE whose expiry is an event of the script (the transport lets it
// expire while the peer has stopped reading in the middle of the request's frame).
type schedDeadlineCtx struct {
	c    *schedCall
	done chan struct{}
	once sync.Once
	d    time.Time
}

func (x *schedDeadlineCtx) Deadline() (time.Time, bool) { return x.d, true }
func (x *schedDeadlineCtx) Done() <-chan struct{}       { return x.done }
func (x *schedDeadlineCtx) Err() error {
	select {
	case <-x.done:
		return context.DeadlineExceeded
	default:
		return nil
	}
}
func (x *schedDeadlineCtx) Value(k interface{}) interface{} {
	if _, ok := k.(schedKey); ok {
		return x.c
	}
	return nil
}
func (x *schedDeadlineCtx) expire() { x.once.Do(func() { close(x.done) }) }

type schedTimeoutErr struct{}

func (schedTimeoutErr) Error() string   { return "verif: write deadline exceeded (i/o timeout)" }
func (schedTimeoutErr) Timeout() bool   { return true }
func (schedTimeoutErr) Temporary() bool { return true }

func (n *schedNet) Write(p []byte) (int, error) {
	n.fmu.Lock()
	if n.cutPat != nil && bytes.Contains(p, n.cutPat) && len(p) >= 2 {
		k := 1 + (n.cutN-1)%(len(p)-1)
		bounded, expire := n.deadlineSet, n.cutExpire
		n.cutPat = nil
		n.fmu.Unlock()
		n.jrTransport.Write(p[:k])
		expire()
		if bounded {
			return k, &net.OpError{Op: "write", Net: "verif", Err: os.ErrDeadlineExceeded}
		}
		m, err := n.jrTransport.Write(p[k:])
		return k + m, err
	}
	if n.armed {
		if n.failAt == 0 {
			n.armed, n.fired = false, true
			n.fmu.Unlock()
			return 0, &net.OpError{Op: "write", Net: "verif", Err: schedTimeoutErr{}}
		}
		n.failAt--
	}
	n.fmu.Unlock()
	return n.jrTransport.Write(p)
}

type schedConn struct {
	nt   *schedNet
	tr   *jrTransport
	conn *gocql.VerifC06Conn
	cur  int
	zed  bool
}

// RunSched executes one `ds` line on the real code.
func RunSched(line string) (ans string) {
	ownMu.Lock()
	hung := ownHung
	ownMu.Unlock()
	if hung {
		return "skipped-after-hang"
	}
	defer func() {
		if e := recover(); e != nil {
			if h, ok := e.(jrHang); ok {
				ownMu.Lock()
				if !ownHung {
					OwnHangDump = "schedule-point script: " + line + "\nblocked: " + h.what + "\n\n" + h.dump
					ownHung = true
				}
				ownMu.Unlock()
				ans = fmt.Sprintf("crash:hang:%s(watchdog,blocked-in-gocql=%v)", h.what, strings.Contains(h.dump, "gocql.(*Conn)"))
				return
			}
			if m, ok := e.(string); ok && strings.HasPrefix(m, "crash:") {
				ans = m
				return
			}
			ans = fmt.Sprintf("crash:%v", e)
		}
	}()
	w := strings.Fields(line)
	if len(w) < 3 || w[0] != "ds" {
		return "bad-op"
	}
	proto, e1 := strconv.Atoi(w[1])
	wr, e2 := strconv.Atoi(w[2])
	if e1 != nil || e2 != nil || proto < 2 || proto > 4 {
		return "bad-op"
	}
	var coalesce time.Duration
	if wr != 0 {
		coalesce = 100 * time.Microsecond
	}
	hl := memcluster.HeaderLen(proto)
	var conns []*schedConn
	for k := 0; k < 2; k++ {
		tr := newJrTransport()
		nt := &schedNet{jrTransport: tr}
		conn := gocql.VerifC06NewConn(nt, proto, coalesce, time.Hour, nil)
		conn.VerifC01fSetStreamObserver(schedObs{})
		conns = append(conns, &schedConn{nt: nt, tr: tr, conn: conn, cur: -1})
	}
	cap := conns[0].conn.Cap()
	var calls []*schedCall
	defer func() {
		for _, c := range calls {
			c.open()
			c.ungate()
		}
		for _, cn := range conns {
			cn.tr.releaseWrite()
		}
		for _, c := range calls {
			if c.cancel != nil {
				c.cancel()
			}
		}
		for _, cn := range conns {
			cn := cn
			go func() { cn.conn.Close(); cn.conn.Stop() }()
		}
	}()
	// a panic inside a call into gocql is the answer of the script
	var crashMu sync.Mutex
	crashed := ""
	guard := func(c *schedCall) {
		if e := recover(); e != nil {
			crashMu.Lock()
			if crashed == "" {
				crashed = fmt.Sprintf("crash:call %d (Conn.exec):%v", c.idx, e)
			}
			crashMu.Unlock()
		}
		close(c.done)
	}
	crash := func() string { crashMu.Lock(); defer crashMu.Unlock(); return crashed }
	// every wait is the wait for an event that the step makes inevitable; it is implemented by polling (two
	// transports and the observer are the sources), the watchdog only turns a hang into a report
	waitFor := func(cond func() bool, what string) {
		deadline := time.Now().Add(2 * jrWatch)
		for i := 0; !cond(); i++ {
			if m := crash(); m != "" {
				panic(m)
			}
			if i < 50 {
				runtime.Gosched()
			} else {
				time.Sleep(50 * time.Microsecond)
			}
			if i&1023 == 1023 && time.Now().After(deadline) {
				buf := make([]byte, 1<<20)
				n := runtime.Stack(buf, true)
				panic(jrHang{what, string(buf[:n])})
			}
		}
	}
	isDone := func(c *schedCall) bool {
		select {
		case <-c.done:
			return true
		default:
			return false
		}
	}
	find := func(c *schedCall) *memcluster.Frame {
		pat := []byte(fmt.Sprintf("J%d.", c.idx))
		for _, f := range conns[c.conn].tr.requests(proto) {
			if f.Op == memcluster.OpQuery && bytes.Contains(f.Body, pat) {
				return f
			}
		}
		return nil
	}
	noteWritten := func(c *schedCall) bool {
		if c.written {
			return true
		}
		if rq := find(c); rq != nil {
			c.sid, c.written = rq.Stream, true
			f := &memcluster.Frame{Version: byte(proto) | 0x80, Stream: c.sid, Op: memcluster.OpResult, Body: jrBody(c.idx, c.L)}
			c.frame = f.Encode(proto)
			return true
		}
		return false
	}
	heldOn := func(k int) bool {
		for _, c := range calls {
			if c.conn == k && c.held {
				return true
			}
		}
		return false
	}
	quiet := func(k int) bool {
		if conns[k].cur >= 0 {
			return false
		}
		for _, c := range calls {
			if c.conn == k && c.due {
				return false
			}
		}
		return true
	}
	rested := func(c *schedCall) bool { return isDone(c) || c.parked.Load() }
	complete := func(c *schedCall, st string) {
		cn := conns[c.conn]
		if c.held {
			c.due = true
			waitFor(cn.tr.consumed, fmt.Sprintf("receive loop did not consume the answer of call %d (its Write is being held) after %q", c.idx, st))
			return
		}
		waitFor(cn.tr.drained, fmt.Sprintf("receive loop did not come back for more after %q (answer of call %d)", st, c.idx))
		if !c.cancelled {
			// (own.go: a no-op for a caller that was handed its answer, the end of the wait for one whose answer was dropped)
			c.cancel()
			waitFor(func() bool { return rested(c) || cn.tr.isClosed() }, fmt.Sprintf("call %d did not return although its whole answer was received", c.idx))
		}
	}
	cc := 0
	var out []string
	for _, cn := range conns {
		waitFor(cn.tr.drained, "receive loop never started reading")
	}
	for _, st0 := range w[3:] {
		st := st0
		held, park, gate := false, false, false
		if st[0] == '^' {
			gate = true
			st = st[1:]
		}
		if st != "" && st[0] == '!' {
			held = true
			st = st[1:]
		}
		if strings.HasSuffix(st, "%") {
			park = true
			st = st[:len(st)-1]
		}
		if st == "" {
			return "bad-op"
		}
		plain := !held && !park && !gate
		cn := conns[cc]
		switch st[0] {
		case 'q', 'b':
			L := 0
			if st[0] == 'q' {
				var err error
				L, err = strconv.Atoi(st[1:])
				if err != nil || L < 0 || L > 1<<20 {
					return "bad-op"
				}
			} else if len(st) != 1 || held || gate {
				return "bad-op"
			}
			if gate && held {
				return "bad-op"
			}
			busy := heldOn(cc)
			if cn.zed || cn.cur >= 0 || (held && busy) || len(calls) >= 40 {
				return "bad-op"
			}
			c := &schedCall{idx: len(calls) + 1, typ: st[0], conn: cc, L: L, done: make(chan struct{}), held: held, gate: make(chan struct{}), gate1: make(chan struct{})}
			c.park.Store(park)
			c.gated.Store(gate)
			ctx, cancel := context.WithCancel(context.WithValue(context.Background(), schedKey{}, c))
			c.cancel = cancel
			calls = append(calls, c)
			if c.typ == 'b' {
				go func() { defer guard(c); c.buildErr, c.err = cn.conn.VerifC01fExecBadFrame(ctx) }()
				waitFor(func() bool { return rested(c) }, fmt.Sprintf("call %d (buildFrame fails) did not return", c.idx))
				continue
			}
			if held {
				pat := []byte(fmt.Sprintf("J%d.", c.idx))
				cn.tr.holdNext(func(p []byte) bool { return bytes.Contains(p, pat) })
			}
			go func() { defer guard(c); c.res = cn.conn.Exec(ctx, fmt.Sprintf("J%d.", c.idx)) }()
			if gate {
				waitFor(func() bool { return c.atGate1.Load() || isDone(c) }, fmt.Sprintf("call %d never got as far as StreamContext", c.idx))
				if isDone(c) {
					return fmt.Sprintf("call %d returned before it had reserved an id:%v", c.idx, c.res.Err)
				}
				continue
			}
			if busy {
				c.queued = true
				waitFor(func() bool { return c.started.Load() || isDone(c) }, fmt.Sprintf("call %d never got as far as StreamStarted", c.idx))
				if isDone(c) {
					return fmt.Sprintf("call %d returned instead of waiting for the write slot:%v", c.idx, c.res.Err)
				}
				continue
			}
			waitFor(func() bool { return noteWritten(c) || (isDone(c) && (noteWritten(c) || true)) }, fmt.Sprintf("request of call %d never written", c.idx))
			if !c.written {
				return fmt.Sprintf("call %d returned without writing its request:%v", c.idx, c.res.Err)
			}
			if held {
				waitFor(func() bool { return cn.tr.holding() || cn.tr.isClosed() }, "the Write of the held request never started")
			}
		case 's':
			i, err := strconv.Atoi(st[1:])
			if err != nil || i < 1 || i > len(calls) || !plain {
				return "bad-op"
			}
			c := calls[i-1]
			if !c.gated.Load() {
				continue
			}
			tn := conns[c.conn]
			busy := heldOn(c.conn)
			c.ungate()
			switch {
			case tn.zed:
				waitFor(func() bool { return isDone(c) }, fmt.Sprintf("call %d did not return (its connection was closed before it was registered)", i))
			case busy:
				c.queued = true
				waitFor(func() bool { return c.started.Load() || isDone(c) }, fmt.Sprintf("call %d never got as far as StreamStarted", i))
				if isDone(c) {
					return fmt.Sprintf("call %d returned instead of waiting for the write slot:%v", i, c.res.Err)
				}
			default:
				waitFor(func() bool { return noteWritten(c) || (isDone(c) && (noteWritten(c) || true)) }, fmt.Sprintf("request of call %d never written", i))
				if !c.written {
					return fmt.Sprintf("call %d returned without writing its request:%v", i, c.res.Err)
				}
			}
		case '@':
			k, err := strconv.Atoi(st[1:])
			if err != nil || !plain || k < 1 || k > len(conns) {
				return "bad-op"
			}
			cc = k - 1
		case 'd', 'A':
			if !plain {
				return "bad-op"
			}
			sep := "."
			if st[0] == 'A' {
				sep = ":"
			}
			p := strings.SplitN(st[1:], sep, 2)
			i, err := strconv.Atoi(p[0])
			if err != nil || i < 1 || i > len(calls) {
				return "bad-op"
			}
			c := calls[i-1]
			tn := conns[c.conn]
			if c.typ != 'q' || !c.written || tn.zed || (heldOn(c.conn) && !c.held) {
				return "bad-op"
			}
			if st[0] == 'd' {
				if (tn.cur >= 0 && tn.cur != i-1) || (c.answered && tn.cur != i-1) {
					return "bad-op"
				}
				n := len(c.frame) - c.sent
				if len(p) == 2 {
					n, err = strconv.Atoi(p[1])
					if err != nil {
						return "bad-op"
					}
				}
				if n < 1 || c.sent+n > len(c.frame) {
					return "bad-op"
				}
				chunk := c.frame[c.sent : c.sent+n]
				c.sent += n
				c.answered = true
				tn.cur = i - 1
				tn.tr.deliver(chunk)
				if c.sent == len(c.frame) {
					tn.cur = -1
					complete(c, st0)
				} else if c.held {
					waitFor(tn.tr.consumed, fmt.Sprintf("receive loop did not consume %q", st0))
				} else {
					waitFor(tn.tr.drained, fmt.Sprintf("receive loop did not come back for more after %q", st0))
				}
				continue
			}
			if len(p) != 2 || p[1] == "" || c.answered || tn.cur >= 0 {
				return "bad-op"
			}
			f := &memcluster.Frame{Version: byte(proto) | 0x80, Stream: c.sid}
			switch p[1][:1] {
			case "V":
				if len(p[1]) != 1 {
					return "bad-op"
				}
				f.Op, f.Body = memcluster.OpResult, memcluster.VoidBody()
			case "E":
				code, err := strconv.Atoi(p[1][1:])
				if err != nil {
					return "bad-op"
				}
				f.Op, f.Body = memcluster.OpError, memcluster.ErrorBody(int32(code), ownTag(c.idx), nil)
			default:
				return "bad-op"
			}
			c.answered = true
			c.frame = f.Encode(proto)
			c.sent = len(c.frame)
			tn.tr.deliver(c.frame)
			complete(c, st0)
		case 'w':
			i, err := strconv.Atoi(st[1:])
			if err != nil || i < 1 || i > len(calls) || !plain {
				return "bad-op"
			}
			c := calls[i-1]
			if !c.held {
				continue
			}
			tn := conns[c.conn]
			c.held = false
			tn.tr.releaseWrite()
			for _, q := range calls {
				if q.conn == c.conn && q.queued {
					q := q
					waitFor(func() bool { return noteWritten(q) || (isDone(q) && (noteWritten(q) || true)) }, fmt.Sprintf("call %d, which waited for the write slot, did not write after the held Write of call %d returned", q.idx, i))
					if !q.written {
						return fmt.Sprintf("call %d returned without writing its request:%v", q.idx, q.res.Err)
					}
					q.queued = false
				}
			}
			if tn.zed {
				// closeWithError has been waiting for these calls: each is handed the error as soon as it gets to its select
				for _, q := range calls {
					q := q
					if q.conn != c.conn || q.parked.Load() || q.gated.Load() {
						continue
					}
					waitFor(func() bool { return isDone(q) }, fmt.Sprintf("call %d did not return on a closing connection after the held Write returned", q.idx))
				}
			}
			if c.due {
				c.due = false
				waitFor(tn.tr.drained, fmt.Sprintf("receive loop did not come back for more after the held Write of call %d returned", i))
				c.cancel()
				waitFor(func() bool { return rested(c) || tn.tr.isClosed() }, fmt.Sprintf("call %d did not return (answer consumed, Write returned, context cancelled)", i))
			}
		case 'c':
			i, err := strconv.Atoi(st[1:])
			if err != nil || i < 1 || i > len(calls) || !plain {
				return "bad-op"
			}
			c := calls[i-1]
			if c.typ != 'q' || c.held || c.gated.Load() || conns[c.conn].cur == i-1 {
				return "bad-op"
			}
			if !c.queued {
				// a call that waits for its response returns without releasing anything; should its answer arrive later,
				// releaseStream runs in the RECEIVE LOOP's goroutine: not a place to park
				c.park.Store(false)
			}
			c.queued = false
			c.cancelled = true
			c.cancel()
			waitFor(func() bool { return rested(c) }, fmt.Sprintf("call %d did not return after its context was cancelled", i))
		case 'f':
			i, err := strconv.Atoi(st[1:])
			if err != nil || i < 1 || i > len(calls) || !plain {
				return "bad-op"
			}
			c := calls[i-1]
			was := c.parked.Load()
			c.open()
			if was {
				waitFor(func() bool { return isDone(c) }, fmt.Sprintf("call %d did not return after its StreamFinished callback returned", i))
			}
		case 'v', 'x':
			L, err := strconv.Atoi(st[1:])
			if err != nil || L < 0 || L > 1<<20 || !plain || !quiet(cc) || heldOn(cc) || cn.zed {
				return "bad-op"
			}
			f := &memcluster.Frame{Version: byte(proto) | 0x80, Stream: -1, Op: memcluster.OpEvent}
			if st[0] == 'v' {
				b := &memcluster.W{}
				b.String("VERIF")
				f.Body = append(b.B, jrBody(0, L)...)
			} else {
				f.Stream, f.Op, f.Body = cap-1, memcluster.OpResult, jrBody(0, L)
			}
			cn.tr.deliver(f.Encode(proto))
			waitFor(cn.tr.drained, fmt.Sprintf("receive loop did not come back for more after %q", st0))
		case 'a':
			if len(st) != 1 || !plain {
				return "bad-op"
			}
			out = append(out, fmt.Sprintf("a=%d", cap-1-cn.conn.Avail()))
		case 'e':
			p := strings.SplitN(st[1:], ".", 2)
			if len(p) != 2 {
				return "bad-op"
			}
			L, e1 := strconv.Atoi(p[0])
			nb, e2 := strconv.Atoi(p[1])
			if e1 != nil || e2 != nil || !plain || wr != 0 || L < 0 || L > 1<<20 || nb < 1 || cn.zed || cn.cur >= 0 || heldOn(cc) || len(calls) >= 40 {
				return "bad-op"
			}
			c := &schedCall{idx: len(calls) + 1, typ: 'q', conn: cc, L: L, done: make(chan struct{}), gate: make(chan struct{}), gate1: make(chan struct{}), cancelled: true}
			x := &schedDeadlineCtx{c: c, done: make(chan struct{}), d: time.Now().Add(time.Hour)}
			c.cancel = x.expire
			calls = append(calls, c)
			cn.nt.fmu.Lock()
			cn.nt.cutPat, cn.nt.cutN, cn.nt.cutExpire = []byte(fmt.Sprintf("J%d.", c.idx)), nb, x.expire
			cn.nt.fmu.Unlock()
			go func() { defer guard(c); c.res = cn.conn.Exec(x, fmt.Sprintf("J%d.", c.idx)) }()
			waitFor(func() bool { return isDone(c) }, fmt.Sprintf("call %d did not return after its context deadline had passed in the middle of its Write", c.idx))
			if !noteWritten(c) {
				return fmt.Sprintf("call %d returned (%s) leaving a PARTIAL request frame on the wire of a connection that stays open (closed=%v, ids reserved=%d)", c.idx, c.res.Class, cn.conn.Closed(), cap-1-cn.conn.Avail())
			}
		case 't':
			k, err := strconv.Atoi(st[1:])
			if err != nil || !plain || k < 0 || k > 8 || cn.zed {
				return "bad-op"
			}
			cn.nt.fmu.Lock()
			armedAlready := cn.nt.armed
			cn.nt.armed, cn.nt.failAt = true, k
			cn.nt.fmu.Unlock()
			if armedAlready {
				return "bad-op"
			}
		case 'Q':
			n, err := strconv.Atoi(st[1:])
			cn.nt.fmu.Lock()
			armed, k := cn.nt.armed, cn.nt.failAt
			cn.nt.fmu.Unlock()
			busy := false
			for _, c := range calls {
				if c.conn == cc && (c.held || c.queued || c.gated.Load()) {
					busy = true
				}
			}
			if err != nil || !plain || n < 1 || n > 6 || !armed || k >= n || cn.zed || !quiet(cc) || busy || len(calls)+n > 40 {
				return "bad-op"
			}
			// n calls started TOGETHER (with the coalescer: one batch, or several): the peer accepts k request frames, then
			// one Write reports the write deadline. The step ends when the driver has closed the connection and every call
			// of it has returned - or when all n requests have reached the peer after all
			var batch []*schedCall
			for j := 0; j < n; j++ {
				c := &schedCall{idx: len(calls) + 1, typ: 'q', conn: cc, L: 5, done: make(chan struct{}), gate: make(chan struct{}), gate1: make(chan struct{}), anyID: true}
				ctx, cancel := context.WithCancel(context.WithValue(context.Background(), schedKey{}, c))
				c.cancel = cancel
				calls = append(calls, c)
				batch = append(batch, c)
				go func() { defer guard(c); c.res = cn.conn.Exec(ctx, fmt.Sprintf("J%d.", c.idx)) }()
			}
			cn.zed = true
			for _, c := range calls {
				if c.conn == cc {
					c.park.Store(false)
				}
			}
			waitFor(func() bool {
				all := true
				for _, c := range batch {
					if !noteWritten(c) {
						all = false
					}
				}
				if all {
					return true
				}
				if !cn.tr.isClosed() {
					return false
				}
				for _, c := range calls {
					if c.conn == cc && !c.parked.Load() && !isDone(c) {
						return false
					}
				}
				return true
			}, fmt.Sprintf("after a write-deadline expiry the connection was not closed / its calls did not return (%q)", st0))
		case 'k', 'z':
			busy, blocking := false, false
			for _, c := range calls {
				if c.conn == cc && (c.held || c.queued || c.parked.Load()) {
					busy = true
				}
				if c.conn == cc && (c.held || c.queued) {
					blocking = true
				}
			}
			if len(st) != 1 || !plain || !quiet(cc) || cn.zed || (st[0] == 'k' && busy) {
				return "bad-op"
			}
			cn.zed = true
			for _, c := range calls {
				if c.conn == cc {
					c.park.Store(false)
				}
			}
			if st[0] == 'k' {
				done := make(chan struct{})
				go func() { cn.conn.Close(); close(done) }()
				waitFor(func() bool {
					select {
					case <-done:
						return true
					default:
						return false
					}
				}, "Conn.Close did not return")
			} else {
				cn.tr.mu.Lock()
				cn.tr.eof = true
				cn.tr.mu.Unlock()
				cn.tr.kick()
				waitFor(cn.conn.Closed, "the driver did not start closing the connection after the peer closed it")
			}
			// every call that waits for its response is handed the error; a call that is inside Write or waits for the
			// write slot keeps closeWithError waiting
			// (in an order of its own: until the held Write returns nothing can be said about the others)
			for _, c := range calls {
				if c.conn == cc && !blocking && !c.parked.Load() && !c.gated.Load() {
					c := c
					waitFor(func() bool { return isDone(c) }, fmt.Sprintf("call %d did not return after the connection was closed", c.idx))
				}
			}
		default:
			return "bad-op"
		}
	}
	if m := crash(); m != "" {
		return m
	}
	for _, c := range calls {
		if conns[c.conn].zed && (c.held || c.queued) {
			return "bad-op" // (a script must let the calls that keep closeWithError waiting get on)
		}
	}
	ids := make([]string, len(calls))
	for i, c := range calls {
		ids[i] = "-"
		if c.written {
			ids[i] = strconv.Itoa(c.sid)
		}
		if c.anyID {
			ids[i] = "*"
		}
	}
	// every request frame the peer read, it read once
	dup := 0
	for _, cn := range conns {
		seen := map[string]bool{}
		for _, f := range cn.tr.requests(proto) {
			key := fmt.Sprintf("%d/%d/%x", f.Stream, f.Op, f.Body)
			if seen[key] {
				dup++
			}
			seen[key] = true
		}
	}
	out = append(out, fmt.Sprintf("dup=%d", dup))
	out = append([]string{"s=" + strings.Join(ids, ",")}, out...)
	out = append(out, ";")
	for _, c := range calls {
		if !isDone(c) {
			out = append(out, "W")
			continue
		}
		if c.typ == 'b' {
			switch {
			case c.buildErr:
				out = append(out, "B")
			case c.err == nil:
				out = append(out, "F!foreign(a call whose request was never built got a response)")
			default:
				out = append(out, "X")
			}
			continue
		}
		r := c.res
		switch {
		case r.Class == "resp":
			if c.written && r.Stream == c.sid && len(c.frame) >= hl && r.Length == len(c.frame)-hl && r.BodyHash == jrFnv(c.frame[hl:]) && r.Op == int(c.frame[hl-5]) && c.sent == len(c.frame) {
				out = append(out, "R")
			} else {
				out = append(out, fmt.Sprintf("F!foreign(response:stream=%d,op=%d,len=%d;own-stream=%d)", r.Stream, r.Op, r.Length, c.sid))
			}
		case r.Class == "ctx" || r.Class == "deadline":
			out = append(out, "C")
		case r.Class == "timeout":
			out = append(out, "T")
		default:
			if isFrame, stream, code, msg := gocql.VerifC01dErrInfo(r.Err); isFrame {
				out = append(out, fmt.Sprintf("F!foreign(error-value-is-a-frame:stream=%d,code=%d,msg=%q;own-stream=%d)", stream, code, msg, c.sid))
			} else if strings.Contains(r.Err.Error(), "stream already in use") {
				out = append(out, "D!stream-in-use")
			} else {
				out = append(out, "X")
			}
		}
	}
	out = append(out, "|")
	for _, cn := range conns {
		if cn.conn.Closed() {
			out = append(out, "closed")
		} else {
			out = append(out, "open")
		}
	}
	return strings.Join(out, " ")
}

// GenSched draws one `ds` script: a random walk over the moves that are valid in the current situation, biased
// towards the windows the new schedule points open (a call parked inside releaseStream while further calls are started
// on its connection; a connection closed by its peer while calls are inside Write / wait for the write slot, some of
// which then leave early, while calls run on the other connection).
func GenSched(r *vh.Rng) (line, class string) {
	proto := []int{2, 2, 3, 4}[r.Intn(4)]
	wrt := r.Intn(2)
	hl := memcluster.HeaderLen(proto)
	type cs struct {
		typ                                                          byte
		conn, L, sent                                                int
		held, queued, park, parked, answered, gone, done, written, gated bool
	}
	type cn struct {
		zed  bool
		cur  int
		held int
	}
	conns := []*cn{{cur: -1, held: -1}, {cur: -1, held: -1}}
	var calls []*cs
	var steps []string
	feats := map[string]bool{}
	cc := 0
	total := func(c *cs) int { return hl + c.L }
	add := func(f string, a ...interface{}) { steps = append(steps, fmt.Sprintf(f, a...)) }
	release := func(c *cs) { // the call runs releaseStream in its own goroutine
		if c.park {
			c.parked = true
			feats["parked-in-release"] = true
		} else {
			c.done = true
		}
	}
	start := func(force byte) {
		k := conns[cc]
		c := &cs{conn: cc}
		s := ""
		switch p := r.Intn(10); {
		case force != 0:
			c.typ = 'q'
			c.L = 5 + r.Intn(60)
			s = fmt.Sprintf("q%d", c.L)
			if force == 'h' {
				c.held = true
				s = "!" + s
			}
		case p < 1:
			c.typ = 'b'
			s = "b"
			feats["build-error"] = true
		default:
			c.typ = 'q'
			c.L = jrLen(r)
			if c.L > 3000 {
				c.L = 5 + r.Intn(60)
			}
			s = fmt.Sprintf("q%d", c.L)
			if k.held < 0 && r.Intn(4) == 0 {
				c.held = true
				s = "!" + s
			}
		}
		if (force == 0 || force == 'q') && r.Intn(4) == 0 || force == '%' {
			c.park = true
			s += "%"
		}
		if force == 0 && c.typ == 'q' && !c.held && r.Intn(7) == 0 {
			c.gated = true
			s = "^" + s
			feats["stopped-before-registration"] = true
		}
		calls = append(calls, c)
		steps = append(steps, s)
		switch {
		case c.gated:
		case c.typ == 'b':
			release(c)
		case k.held >= 0:
			c.queued = true
			feats["waits-for-write-slot"] = true
		default:
			c.written = true
			if c.held {
				k.held = len(calls) - 1
			}
		}
	}
	completed := func(i int) {
		c := calls[i]
		if c.held || c.gone {
			return
		}
		release(c)
	}
	piece := func(i int) {
		c := calls[i]
		left := total(c) - c.sent
		n := 1 + r.Intn(left)
		switch r.Intn(4) {
		case 0:
			n = left
		case 1:
			if c.sent < hl {
				n = hl - c.sent
			}
		}
		c.sent += n
		c.answered = true
		add("d%d.%d", i+1, n)
		conns[c.conn].cur = i
		if c.sent == total(c) {
			conns[c.conn].cur = -1
			completed(i)
		}
	}
	whole := func(i int) {
		c := calls[i]
		switch p := r.Intn(10); {
		case p < 6:
			add("d%d", i+1)
		case p < 8:
			add("A%d:V", i+1)
		default:
			add("A%d:E%d", i+1, []int{0x0000, 0x000A, 0x1001, 0x1002, 0x1003, 0x2000, 0x2100, 0x2200, 0x2300}[r.Intn(9)])
		}
		c.answered, c.sent = true, total(c)
		completed(i)
	}
	unhold := func(k int) {
		h := conns[k].held
		c := calls[h]
		add("w%d", h+1)
		c.held = false
		conns[k].held = -1
		for _, q := range calls {
			if q.conn == k && q.queued {
				q.queued, q.written = false, true
			}
		}
		if c.sent == total(c) && !conns[k].zed {
			feats["answer-before-write-returned"] = true
			release(c)
		}
	}
	ungate := func(i int) {
		c := calls[i]
		add("s%d", i+1)
		c.gated = false
		switch k := conns[c.conn]; {
		case k.zed:
			c.done = true
			feats["registration-after-close"] = true
		case k.held >= 0:
			c.queued = true
		default:
			c.written = true
		}
	}
	cut := func() { // a request with a context deadline that passes while the peer has stopped reading mid-frame
		add("e%d.%d", 5+r.Intn(60), 1+r.Intn(40))
		calls = append(calls, &cs{typ: 'q', conn: cc, L: 0, written: true, gone: true, done: true})
		feats["deadline-in-mid-write"] = true
		add("a")
	}
	n := 3 + r.Intn(8)
	switch f := r.Intn(10); {
	case f == 6 && wrt == 0:
		for i := r.Intn(3); i > 0; i-- {
			start('q')
		}
		cut()
		for i := 1 + r.Intn(3); i > 0; i-- {
			start('q')
		}
	case f < 3:
		// a connection closed by its peer while one call is inside Write and others wait for the write slot; some of those
		// leave early (their call objects are done with while closeWithError still goes round); meanwhile calls on the
		// OTHER connection; then the held Write returns
		if r.Intn(2) == 0 {
			cc = 1
			add("@2")
		}
		for i := r.Intn(3); i > 0; i-- {
			start('q')
		}
		start('h')
		nq := 1 + r.Intn(4)
		for i := 0; i < nq; i++ {
			start('q')
		}
		add("z")
		feats["close-while-inside-exec"] = true
		conns[cc].zed = true
		for _, c := range calls {
			c.park = false
			if !c.held && !c.queued && !c.parked {
				c.done = true
			}
		}
		for i, c := range calls {
			if c.queued && (r.Intn(3) > 0) {
				add("c%d", i+1)
				c.queued, c.gone, c.done = false, true, true
				feats["early-exit"], feats["early-exit-while-closing"] = true, true
			}
		}
		cc = 1 - cc
		add("@%d", cc+1)
		for i := 1 + r.Intn(4); i > 0; i-- {
			start('q')
		}
		if r.Intn(2) == 0 {
			unhold(1 - cc)
		}
	case f < 6 && f >= 5:
		// a WRITE FAULT: some calls waiting, then n calls started together of whose requests the peer accepts k before one
		// Write reports the write deadline (a peer that stops reading for a while, then reads again)
		if r.Intn(2) == 0 {
			cc = 1
			add("@2")
		}
		for i := r.Intn(3); i > 0; i-- {
			start('q')
		}
		nb := 2 + r.Intn(4)
		kb := r.Intn(nb)
		if kb == 0 && r.Intn(3) > 0 {
			kb = 1
		}
		add("t%d", kb)
		add("Q%d", nb)
		feats["write-deadline-in-batch"] = true
		conns[cc].zed = true
		for _, c := range calls {
			c.park = false
			if !c.parked {
				c.done = true
			}
		}
		for i := 0; i < nb; i++ {
			calls = append(calls, &cs{typ: 'q', conn: cc, done: true, gone: true})
		}
		cc = 1 - cc
		add("@%d", cc+1)
	case f < 5:
		// a call parked inside releaseStream (its id is free) while further calls are started on its connection
		for i := r.Intn(3); i > 0; i-- {
			start('q')
		}
		start('%')
		whole(len(calls) - 1)
		for i := 1 + r.Intn(4); i > 0; i-- {
			start('q')
		}
	}
	for it := 0; it < 70; it++ {
		k := conns[cc]
		var answerable, cancellable, parked, queued, gated []int
		for i, c := range calls {
			if c.gated {
				gated = append(gated, i)
			}
			t := conns[c.conn]
			if c.typ == 'q' && c.written && !t.zed && !c.answered && t.cur < 0 && (t.held < 0 || t.held == i) {
				answerable = append(answerable, i)
			}
			if c.typ == 'q' && !c.held && !c.gone && !c.done && !c.parked && t.cur != i && (c.queued || (c.written && !t.zed)) {
				cancellable = append(cancellable, i)
			}
			if c.parked {
				parked = append(parked, i)
			}
			if c.queued {
				queued = append(queued, i)
			}
		}
		open := 0
		for _, c := range calls {
			if c.typ == 'q' && c.written && !c.answered && !conns[c.conn].zed {
				open++
			}
		}
		if len(calls) >= n && open == 0 && len(parked) == 0 && len(gated) == 0 && conns[0].held < 0 && conns[1].held < 0 && conns[0].cur < 0 && conns[1].cur < 0 {
			break
		}
		// a partial frame under way on some connection: mostly go on with it
		if c0 := conns[0].cur; c0 >= 0 && r.Intn(3) > 0 {
			piece(c0)
			continue
		}
		if c1 := conns[1].cur; c1 >= 0 && r.Intn(3) > 0 {
			piece(c1)
			continue
		}
		quietK := k.cur < 0
		for _, c := range calls {
			if c.conn == cc && c.held && c.sent == total(c) {
				quietK = false // (its whole answer is in the receive loop's hands)
			}
		}
		if len(gated) > 0 && r.Intn(6) == 0 {
			ungate(gated[r.Intn(len(gated))])
			continue
		}
		switch p := r.Intn(100); {
		case p < 8:
			cc = 1 - cc
			add("@%d", cc+1)
		case p < 40 && len(calls) < n+4 && !k.zed && k.cur < 0 && len(calls) < 30:
			start(0)
		case p < 60 && len(answerable) > 0 && (len(parked) == 0 || r.Intn(3) == 0):
			i := answerable[r.Intn(len(answerable))]
			if r.Intn(3) == 0 {
				piece(i)
			} else {
				whole(i)
			}
		case p < 68 && len(cancellable) > 0:
			i := cancellable[r.Intn(len(cancellable))]
			if len(queued) > 0 && r.Intn(3) > 0 {
				i = queued[r.Intn(len(queued))]
			}
			c := calls[i]
			add("c%d", i+1)
			c.gone = true
			if c.queued {
				c.queued = false
				feats["early-exit"] = true
				if !conns[c.conn].zed {
					release(c)
				} else {
					feats["early-exit-while-closing"] = true
					c.done = true
				}
			} else {
				c.done = true
			}
		case p < 76 && len(parked) > 0 && r.Intn(2) == 0:
			i := parked[r.Intn(len(parked))]
			add("f%d", i+1)
			calls[i].parked, calls[i].park, calls[i].done = false, false, true
		case p < 84 && (conns[0].held >= 0 || conns[1].held >= 0):
			kk := 0
			if conns[0].held < 0 || (conns[1].held >= 0 && r.Intn(2) == 0) {
				kk = 1
			}
			if conns[kk].cur < 0 || conns[kk].cur == conns[kk].held {
				if conns[kk].cur < 0 {
					unhold(kk)
				}
			}
		case p < 90 && !k.zed && quietK && len(calls) > 1:
			busy := false
			for _, c := range calls {
				if c.conn == cc && (c.held || c.queued || c.parked) {
					busy = true
				}
			}
			if busy && r.Intn(2) == 0 || !busy && r.Intn(4) > 0 {
				add("z")
				if busy {
					feats["close-while-inside-exec"] = true
				}
			} else if !busy {
				add("k")
			} else {
				continue
			}
			k.zed = true
			for _, c := range calls {
				if c.conn == cc {
					c.park = false
					if c.typ == 'q' && !c.held && !c.queued && !c.parked && !c.gated {
						c.done = true
					}
				}
			}
		case p < 93 && !k.zed && quietK && k.held < 0:
			if r.Intn(2) == 0 {
				add("v%d", r.Intn(40))
			} else {
				add("x%d", jrLen(r)%3000)
			}
		case p >= 94 && p < 96 && wrt == 0 && !k.zed && k.cur < 0 && k.held < 0 && len(calls) < 30:
			cut()
		case p >= 96:
			add("a")
		}
	}
	for i, c := range calls {
		if c.gated {
			ungate(i)
		}
	}
	for k := range conns {
		for conns[k].cur >= 0 {
			piece(conns[k].cur)
		}
		if conns[k].held >= 0 {
			unhold(k)
		}
	}
	for i, c := range calls {
		if c.parked {
			add("f%d", i+1)
		}
	}
	add("@1")
	add("a")
	add("@2")
	add("a")
	class = "ds"
	for _, f := range []string{"deadline-in-mid-write", "write-deadline-in-batch", "registration-after-close", "early-exit-while-closing", "close-while-inside-exec", "parked-in-release", "stopped-before-registration", "early-exit", "waits-for-write-slot", "answer-before-write-returned", "build-error"} {
		if feats[f] {
			class += "/" + f
			break
		}
	}
	return fmt.Sprintf("ds %d %d %s", proto, wrt, strings.Join(steps, " ")), class
}
