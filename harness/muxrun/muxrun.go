// Package muxrun: black-box runs of a real gocql.Session over one connection of the in-memory
// cluster, for C01 (routing / no id reuse while a response is outstanding) and C06 (exactly one
// outcome, no hang, no leaked ids). The scripted server logs `req`/`resp`, the callers log `got`;
// the Lean monitor (Model/Mux.lean, Mon) replays the log.
package muxrun

import (
	"context"
	"fmt"
	"os"
	"runtime"
	"strconv"
	"strings"
	"sync"
	"sync/atomic"
	"time"

	"github.com/gocql/gocql"
	"verifharness/memcluster"
	"verifharness/sess"
	"verifharness/vh"
)

type Scenario struct {
	Proto      int
	Callers    int
	PerCaller  int
	Coalesce   bool
	// per-request fate decided by the server from a seeded PRNG
	PNever     int // percent never answered
	PLate      int // percent answered after the driver timeout
	PDelay     int // percent answered after a short random delay (reordering)
	PErr       int // percent answered with a server error frame
	PCancel    int // percent of calls whose context is cancelled shortly after start
	ResetAfter int // server resets the connection after this many requests (0 = never)
	CloseEarly bool // Session.Close while callers are still waiting
	PVeryLate  int  // percent answered only after ~5.5 driver timeouts
	SecondWave bool // after the first wave wait ~4.6 timeouts, then send another wave (id reuse while very late answers are outstanding)
	CoalesceMs int  // >0: long coalescing window (ms); cancellations then land between enqueue and flush
	TimeoutLimit int // >0: set the deprecated gocql.TimeoutLimit for this run
	Seed       uint64
}

type Result struct {
	Ops   []string // op lines for the Lean monitor
	Impl  []string // implementation answers, aligned
	Class string
	Fatal string
}

var tokCounter uint64

func Run(sc Scenario) Result {
	res := Result{}
	add := func(op, impl string) { res.Ops = append(res.Ops, op); res.Impl = append(res.Impl, impl) }
	cap := 128
	if sc.Proto > 2 {
		cap = 32768
	}
	add(fmt.Sprintf("reset %d", cap), "ok")
	cl := memcluster.NewCluster(sc.Proto, "10.0.0.1")
	node := cl.Nodes["10.0.0.1"]
	log := cl.Log
	var srvMu sync.Mutex
	srvRng := vh.NewRng(sc.Seed ^ 0xabcdef)
	var nreq int64
	timeout := 60 * time.Millisecond
	var lateWG sync.WaitGroup
	node.Handle = func(req *memcluster.Request) {
		tok := 0
		if req.Op == memcluster.OpQuery {
			fmt.Sscanf(req.Stmt, "PING t%dt", &tok)
		}
		connID := req.Conn.ID
		log.Add("req %d %d %d", connID, req.Stream, tok)
		n := atomic.AddInt64(&nreq, 1)
		if sc.ResetAfter > 0 && int(n) == sc.ResetAfter {
			req.Conn.Close()
			return
		}
		srvMu.Lock()
		p := srvRng.Intn(100)
		d := time.Duration(srvRng.Intn(3000)) * time.Microsecond
		srvMu.Unlock()
		body := memcluster.RowsBody([]memcluster.Col{{Name: "tok", Type: memcluster.TVarchar}},
			[][][]byte{{[]byte(strconv.Itoa(tok))}}, nil, false)
		op := byte(memcluster.OpResult)
		send := func() {
			log.Add("resp %d %d %d", connID, req.Stream, tok)
			req.Conn.Reply(req.Stream, op, body)
		}
		switch {
		case p < sc.PNever:
			return
		case p < sc.PNever+sc.PVeryLate:
			lateWG.Add(1)
			go func() { defer lateWG.Done(); time.Sleep(11*timeout/2 + d); send() }()
		case p < sc.PNever+sc.PVeryLate+sc.PLate:
			lateWG.Add(1)
			go func() { defer lateWG.Done(); time.Sleep(timeout + 25*time.Millisecond + d); send() }()
		case p < sc.PNever+sc.PVeryLate+sc.PLate+sc.PDelay:
			lateWG.Add(1)
			go func() { defer lateWG.Done(); time.Sleep(d); send() }()
		case p < sc.PNever+sc.PVeryLate+sc.PLate+sc.PDelay+sc.PErr:
			op = memcluster.OpError
			body = memcluster.ErrorBody(memcluster.ErrInvalid, fmt.Sprintf("tok=%d", tok), nil)
			send()
		default:
			send()
		}
	}
	cfg := sess.Config(cl, sc.Proto, "10.0.0.1")
	cfg.Timeout = timeout
	if sc.Coalesce {
		cfg.WriteCoalesceWaitTime = 100 * time.Microsecond
	}
	if sc.CoalesceMs > 0 {
		cfg.WriteCoalesceWaitTime = time.Duration(sc.CoalesceMs) * time.Millisecond
	}
	if sc.TimeoutLimit > 0 {
		gocql.TimeoutLimit = int64(sc.TimeoutLimit)
		defer func() { gocql.TimeoutLimit = 0 }()
	}
	s, err := cfg.CreateSession()
	if err != nil {
		res.Fatal = "session: " + err.Error()
		return res
	}
	if !sess.WaitConns(s, 1, 2*time.Second) {
		s.Close()
		res.Fatal = "no connection"
		return res
	}
	conn0 := gocql.VerifSessionConns(s)[0]
	var started, returned int64
	var wg sync.WaitGroup
	rng := vh.NewRng(sc.Seed)
	type plan struct {
		cancelAfter time.Duration
	}
	plans := make([][]plan, sc.Callers)
	for i := range plans {
		plans[i] = make([]plan, sc.PerCaller)
		for j := range plans[i] {
			if rng.Intn(100) < sc.PCancel {
				plans[i][j].cancelAfter = time.Duration(1+rng.Intn(4000)) * time.Microsecond
				if sc.CoalesceMs > 0 {
					plans[i][j].cancelAfter = time.Duration(200+rng.Intn(sc.CoalesceMs*800)) * time.Microsecond
				}
			}
		}
	}
	launch := func() {
	for i := 0; i < sc.Callers; i++ {
		wg.Add(1)
		go func(i int) {
			defer wg.Done()
			for j := 0; j < sc.PerCaller; j++ {
				tok := int(atomic.AddUint64(&tokCounter, 1))
				ctx, cancel := context.WithCancel(context.Background())
				if d := plans[i][j].cancelAfter; d > 0 {
					time.AfterFunc(d, cancel)
				}
				atomic.AddInt64(&started, 1)
				var got string
				err := s.Query(fmt.Sprintf("PING t%dt", tok)).WithContext(ctx).Scan(&got)
				atomic.AddInt64(&returned, 1)
				cancel()
				if err == nil {
					u, _ := strconv.Atoi(got)
					log.Add("got 0 %d %d", tok, u)
				} else if strings.Contains(err.Error(), "tok=") {
					// a server error frame carries the token of the request it answers
					var u int
					fmt.Sscanf(err.Error()[strings.Index(err.Error(), "tok="):], "tok=%d", &u)
					log.Add("got 0 %d %d", tok, u)
				}
			}
		}(i)
	}
	}
	launch()
	if sc.CloseEarly {
		time.Sleep(time.Duration(1+rng.Intn(20)) * time.Millisecond)
		cdone := make(chan struct{})
		go func() { s.Close(); close(cdone) }()
		select {
		case <-cdone:
		case <-time.After(15 * time.Second):
			res.Fatal = "Session.Close hangs\n" + stacks()
			return res
		}
	}
	done := make(chan struct{})
	go func() { wg.Wait(); close(done) }()
	select {
	case <-done:
	case <-time.After(20 * time.Second):
		res.Fatal = "callers hang\n" + stacks()
		return res
	}
	if sc.SecondWave && !sc.CloseEarly {
		// ids of timed-out requests must stay reserved however long the answer takes: wait, then reuse ids
		time.Sleep(23 * timeout / 5)
		launch()
		done2 := make(chan struct{})
		go func() { wg.Wait(); close(done2) }()
		select {
		case <-done2:
		case <-time.After(20 * time.Second):
			res.Fatal = "callers hang (second wave)\n" + stacks()
			return res
		}
	}
	lateWG.Wait()
	for _, l := range log.Snapshot() {
		add(l, "ok")
	}
	add(fmt.Sprintf("calls %d", atomic.LoadInt64(&started)), fmt.Sprint(atomic.LoadInt64(&returned)))
	res.Class = fmt.Sprintf("proto%d", sc.Proto)
	// id accounting at quiescence, only meaningful while the first connection is still open and was the only one
	if !sc.CloseEarly && !conn0.Closed() && node.NumDials() == 1 {
		last := -1
		stable := 0
		for k := 0; k < 400 && stable < 5; k++ {
			a := conn0.AvailableStreams()
			if a == last {
				stable++
			} else {
				stable = 0
				last = a
			}
			time.Sleep(time.Millisecond)
		}
		add("avail 1", fmt.Sprint(last))
		res.Class += "/avail"
	} else {
		res.Class += fmt.Sprintf("/closed(early=%v,c0closed=%v,dials=%d)", sc.CloseEarly, conn0.Closed(), node.NumDials())
	}
	if !sc.CloseEarly {
		cdone := make(chan struct{})
		go func() { s.Close(); close(cdone) }()
		select {
		case <-cdone:
		case <-time.After(15 * time.Second):
			res.Fatal = "Session.Close hangs\n" + stacks()
			return res
		}
	}
	return res
}

func stacks() string {
	buf := make([]byte, 1<<20)
	n := runtime.Stack(buf, true)
	return string(buf[:n])
}

// Gen draws a scenario. wide = C06 flavour (resets, early close, exhaustion).
func Gen(r *vh.Rng, wide bool) Scenario {
	sc := Scenario{Proto: []int{2, 4, 3}[r.Intn(3)], Seed: r.U64()}
	sc.Callers = 1 + r.Intn(24)
	sc.PerCaller = 1 + r.Intn(6)
	sc.Coalesce = r.Intn(3) == 0
	switch r.Intn(5) {
	case 0: // everything answered at once
	case 1:
		sc.PDelay = 70
	case 2:
		sc.PLate, sc.PDelay = 15, 30
	case 3:
		sc.PNever, sc.PLate, sc.PDelay, sc.PErr = 5, 10, 30, 10
	case 4:
		sc.PLate, sc.PCancel, sc.PDelay = 10, 30, 40
	}
	switch r.Intn(8) {
	case 0: // very late answers + a second wave that re-uses ids (small id space)
		sc.Proto = 2
		sc.PNever, sc.PVeryLate, sc.PLate, sc.PDelay, sc.PErr, sc.PCancel = 10, 25, 0, 30, 0, 0
		sc.SecondWave = true
		sc.Callers = 20 + r.Intn(40)
		sc.PerCaller = 2
	case 1: // cancellations between enqueue and flush of the coalescer; answers are held back a little
		sc.CoalesceMs = 4 + r.Intn(4)
		sc.Coalesce = true
		sc.PCancel = 60
		sc.PDelay, sc.PLate, sc.PNever, sc.PErr = 100, 0, 0, 0
		sc.Proto = 2
		sc.Callers = 30 + r.Intn(60)
		sc.PerCaller = 3
	}
	if wide {
		if r.Intn(8) == 0 {
			sc.TimeoutLimit = 1 + r.Intn(2)
			sc.PNever = 30
			sc.SecondWave = false
		}
		switch r.Intn(6) {
		case 0:
			sc.ResetAfter = 1 + r.Intn(20)
		case 1:
			sc.CloseEarly = true
			sc.PNever = 20
		case 2: // exhaustion of the 127 ids of protocol 2
			sc.Proto = 2
			sc.Callers = 140 + r.Intn(40)
			sc.PerCaller = 1
			sc.PNever, sc.PLate, sc.PDelay, sc.PErr, sc.PCancel = 0, 0, 100, 0, 0
		}
	}
	return sc
}

// Main is shared by cmd/c01 and cmd/c06.
func Main(wide bool) {
	mode, tier, path := vh.Args()
	if mode == "replay" {
		// a recorded trace: the implementation's side of every line is "ok" / its recorded value;
		// the model re-judges the trace.
		for _, l := range vh.ReadLines(path) {
			w := strings.Fields(l)
			if len(w) > 0 && (w[0] == "avail" || w[0] == "calls") {
				fmt.Println("(recorded)")
			} else {
				fmt.Println("ok")
			}
		}
		return
	}
	r := vh.NewRng(vh.EnvSeed())
	out := vh.NewOut(path)
	runs := 40
	if tier == "thorough" {
		runs = 600
	}
	nreq := 0
	for i := 0; i < runs; i++ {
		sc := Gen(r, wide)
		res := Run(sc)
		if res.Fatal != "" {
			// a hang / failure to set up is reported as a failed case with the goroutine dump as answer
			os.WriteFile(path+"/fatal.txt", []byte(res.Fatal), 0o644)
			out.Case(fmt.Sprintf("calls %d", -1), "hang-or-fatal:"+strings.SplitN(res.Fatal, "\n", 2)[0], "fatal", true)
			continue
		}
		for k, op := range res.Ops {
			cls := res.Class + "/" + strings.Fields(op)[0]
			out.Case(op, res.Impl[k], cls, strings.HasPrefix(op, "req"))
			if strings.HasPrefix(op, "req") {
				nreq++
			}
		}
	}
	out.Close(map[string]interface{}{"scenarios": runs, "requests_observed": nreq})
}
