// Package muxrun: black-box runs of a real gocql.Session over one connection of the in-memory
// cluster, for C01 (routing / no id reuse while a response is outstanding) and C06 (exactly one
// outcome, no hang, no leaked ids). The scripted server logs `req`/`resp`/`stray`/`event`, the callers
// log `got`; the Lean monitor (Model/Mux.lean, Mon) replays the log.
//
// Dimensions of a scenario (all drawn from the one seeded PRNG):
//   - callers x queries, protocol 2/3/4, direct / coalescing writer, cancellations, resets, early close (as before)
//   - per-request fate: answered at once / after a delay / after the driver timeout / after ~5.5 timeouts / never
//   - per-request ANSWER KIND: RESULT rows carrying the token, RESULT void, ERROR of several codes carrying the
//     token in the message (and in code-specific fields), each optionally with TRACING / WARNING /
//     CUSTOM_PAYLOAD header flags (trace id, warning text and payload carry the token too)
//   - WRITE SHAPE of the server's byte stream: several response frames coalesced into ONE write (Group), one
//     write cut into 2..4 writes at arbitrary byte offsets (inside a header, inside a body) with pauses
//     shorter or longer than the request timeout / read deadline
//   - EVENT frames (stream -1) and response frames for never-used stream ids interleaved between responses
//   - a frame on the reserved stream 0 (the driver must close the connection and end every call)
//
// Decisions are order-based only: whatever the timing, a caller that decodes a response must have decoded
// the kind, flags-derived content and token the server sent for THAT request; at quiescence every call has
// returned, the ids available are all but the unanswered ones, and a connection the server never closed or
// corrupted is still open and still answers probe requests.
package muxrun

import (
	"context"
	"encoding/binary"
	"errors"
	"fmt"
	"io"
	"net"
	"os"
	"runtime"
	"sort"
	"strconv"
	"strings"
	"sync"
	"sync/atomic"
	"time"

	"github.com/gocql/gocql"
	"verifharness/memcluster"
	"verifharness/sess"
	"verifharness/vh"
)

type Scenario struct {
	Proto     int
	Callers   int
	PerCaller int
	Coalesce  bool
	// per-request fate decided by the server from a seeded PRNG
	PNever       int  // percent never answered
	PLate        int  // percent answered after the driver timeout
	PDelay       int  // percent answered after a short random delay (reordering)
	PErr         int  // percent answered with a server error frame (legacy: homogeneous runs)
	PCancel      int  // percent of calls whose context is cancelled shortly after start
	ResetAfter   int  // server resets the connection after this many requests (0 = never)
	CloseEarly   bool // Session.Close while callers are still waiting
	PVeryLate    int  // percent answered only after ~5.5 driver timeouts
	SecondWave   bool // after the first wave wait ~4.6 timeouts, then send another wave (id reuse while very late answers are outstanding)
	CoalesceMs   int  // >0: long coalescing window (ms); cancellations then land between enqueue and flush
	TimeoutLimit int  // >0: set the deprecated gocql.TimeoutLimit for this run
	// answer kinds and the shape of the server's byte stream
	Mixed          bool // heterogeneous answers: rows / void / ERROR codes, header flags on protocol 4 (tracing on all)
	Group          int  // >1: up to Group answers are held back and written in ONE server write
	PSplit         int  // percent of server writes that are cut into 2..4 writes at random byte offsets
	PLongGap       int  // percent of cut writes that get ONE pause of 1.2..2.2 request timeouts (others: 0..3 ms)
	PEvent         int  // percent of server writes that also carry an EVENT frame (stream -1)
	PStray         int  // percent of server writes that also carry a response for a never-used stream id
	BadStreamAfter int  // >0: after this many requests the server sends a frame on the reserved stream 0
	Probes         int  // probe requests at quiescence (calm scenarios only)
	TimeoutMs      int  // request timeout / read deadline
	PMidBody       int  // percent of answers (at most 4 per run) that are written up to a cut inside the frame at once and
	// completed only when the CALLER of that request has returned (its timer fired / its context was cancelled):
	// a caller giving up while the receive loop is in the middle of its response, ordered by events
	CloseFault bool // the transport reports an error from Close() (after closing): closeWithError(nil) calls back into the pool
	Seed       uint64
}

// calm: nothing in the scenario entitles the driver to close the connection
func (sc Scenario) calm() bool {
	return sc.ResetAfter == 0 && !sc.CloseEarly && sc.TimeoutLimit == 0 && sc.BadStreamAfter == 0
}

type Result struct {
	Ops   []string // op lines for the Lean monitor
	Impl  []string // implementation answers, aligned
	Class string
	Fatal string
	Odd   []string // error texts that were classified as "undecodable response"
	Kinds map[int]int
	Shape map[string]int
}

var tokCounter uint64

// ---- answer kinds -------------------------------------------------------------------------------------

const (
	kRows        = 0
	kVoid        = 1
	kErr0        = 2 // kErr0+i = ERROR with code errCodes[i]
	fWarn        = 16
	fTrace       = 32
	fPayload     = 64
	kUndecodable = 900
	tokGarbled   = 4294967295
)

var errCodes = []int32{0x2200, 0x1000, 0x1001, 0x1200, 0x1100, 0x2000, 0x0000, 0x2400, 0x2100}

// buildAnswer renders the response frame of the given kind for (stream, tok); w is the token content a
// correct client can find in it (tok, or 0 when the kind has no room for a token).
func buildAnswer(proto, stream, tok, kind int) (frame []byte, w int) {
	b := &memcluster.W{}
	var hflags byte
	base := kind & 15
	w = tok
	if kind&fTrace != 0 {
		hflags |= 0x02
		var id [16]byte
		binary.BigEndian.PutUint64(id[:8], uint64(tok))
		for i := 8; i < 16; i++ {
			id[i] = 0xA5
		}
		b.B = append(b.B, id[:]...)
	}
	if kind&fWarn != 0 {
		hflags |= 0x08
		b.StringList([]string{fmt.Sprintf("warn tok=%d", tok)})
	}
	if kind&fPayload != 0 {
		hflags |= 0x04
		b.Short(1)
		b.String("tok")
		b.Bytes([]byte(strconv.Itoa(tok)))
	}
	op := byte(memcluster.OpResult)
	switch {
	case base == kRows:
		b.B = append(b.B, memcluster.RowsBody([]memcluster.Col{{Name: "tok", Type: memcluster.TVarchar}},
			[][][]byte{{[]byte(strconv.Itoa(tok))}}, nil, false)...)
	case base == kVoid:
		b.B = append(b.B, memcluster.VoidBody()...)
		if kind == kVoid {
			w = 0
		}
	default:
		op = memcluster.OpError
		code := errCodes[base-kErr0]
		var extra []byte
		n31 := tok & 0x7fffffff
		switch code {
		case 0x1000:
			extra = memcluster.UnavailableExtra(1, n31, 1)
		case 0x1200:
			extra = memcluster.ReadTimeoutExtra(1, n31, 2, 1)
		case 0x1100:
			extra = memcluster.WriteTimeoutExtra(1, n31, 2, "SIMPLE")
		case 0x2400:
			e := &memcluster.W{}
			e.String("ks")
			e.String(fmt.Sprintf("t%d", tok))
			extra = e.B
		}
		b.B = append(b.B, memcluster.ErrorBody(code, fmt.Sprintf("tok=%d", tok), extra)...)
	}
	f := &memcluster.Frame{Version: byte(proto) | 0x80, Flags: hflags, Stream: stream, Op: op, Body: b.B}
	return f.Encode(proto), w
}

type tracer struct{ id []byte }

func (t *tracer) Trace(id []byte) { t.id = append([]byte(nil), id...) }

func tokIn(s, prefix string) int {
	i := strings.Index(s, prefix)
	if i < 0 {
		return tokGarbled
	}
	j := i + len(prefix)
	k := j
	for k < len(s) && s[k] >= '0' && s[k] <= '9' {
		k++
	}
	v, err := strconv.Atoi(s[j:k])
	if err != nil {
		return tokGarbled
	}
	return v
}

// noResponse: the error is one of the outcomes "no response frame was handed to this call"
func noResponse(err error) bool {
	for _, e := range []error{gocql.ErrTimeoutNoResponse, context.Canceled, context.DeadlineExceeded,
		gocql.ErrConnectionClosed, gocql.ErrNoConnections, gocql.ErrNoStreams, gocql.ErrSessionClosed,
		gocql.ErrTooManyTimeouts, gocql.ErrUnavailable, io.EOF, io.ErrUnexpectedEOF, io.ErrClosedPipe, net.ErrClosed,
		memcluster.ErrInjected} {
		if errors.Is(err, e) {
			return true
		}
	}
	var ne net.Error
	if errors.As(err, &ne) {
		return true
	}
	s := err.Error()
	for _, sub := range []string{"closed pipe", "closed network connection", "received unexpected frame on stream",
		"no hosts available", "unable to read frame body", "EOF"} {
		if strings.Contains(s, sub) {
			return true
		}
	}
	return false
}

// observe decodes what ONE query returned: whether a response frame was handed to the call, and if so
// its kind (opcode / result kind / error code + the header-flag-derived parts) and the token found in it.
func observe(iter *gocql.Iter, tr *tracer) (resp bool, k, u int, odd string) {
	warns := iter.Warnings()
	pl := iter.GetCustomPayload()
	ncol := len(iter.Columns())
	nrows := iter.NumRows()
	var cell string
	scanned := false
	if ncol == 1 && nrows >= 1 {
		scanned = iter.Scan(&cell)
	}
	err := iter.Close()
	var toks []int
	switch {
	case err == nil && ncol == 0 && nrows == 0:
		k = kVoid
	case err == nil && ncol == 1 && nrows == 1 && scanned:
		k = kRows
		v, e := strconv.Atoi(cell)
		if e != nil {
			v = tokGarbled
		}
		toks = append(toks, v)
	case err == nil:
		return true, kUndecodable, tokGarbled, fmt.Sprintf("result with %d columns %d rows", ncol, nrows)
	default:
		re, ok := err.(gocql.RequestError)
		if !ok {
			if noResponse(err) {
				return false, 0, 0, ""
			}
			return true, kUndecodable, tokGarbled, err.Error()
		}
		k = kUndecodable - 1
		for i, c := range errCodes {
			if int(c) == re.Code() {
				k = kErr0 + i
			}
		}
		toks = append(toks, tokIn(re.Message(), "tok="))
		switch x := err.(type) {
		case *gocql.RequestErrUnavailable:
			toks = append(toks, x.Required|(toks[0]&^0x7fffffff))
		case *gocql.RequestErrReadTimeout:
			toks = append(toks, x.Received|(toks[0]&^0x7fffffff))
		case *gocql.RequestErrWriteTimeout:
			toks = append(toks, x.Received|(toks[0]&^0x7fffffff))
			if x.WriteType != "SIMPLE" {
				toks = append(toks, tokGarbled)
			}
		case *gocql.RequestErrAlreadyExists:
			toks = append(toks, tokIn(x.Table, "t"))
		}
	}
	if len(warns) > 0 {
		k |= fWarn
		if len(warns) == 1 {
			toks = append(toks, tokIn(warns[0], "tok="))
		} else {
			toks = append(toks, tokGarbled)
		}
	}
	if pl != nil {
		k |= fPayload
		v, e := strconv.Atoi(string(pl["tok"]))
		if e != nil || len(pl) != 1 {
			v = tokGarbled
		}
		toks = append(toks, v)
	}
	if len(tr.id) > 0 {
		k |= fTrace
		v := tokGarbled
		if len(tr.id) == 16 {
			v = int(binary.BigEndian.Uint64(tr.id[:8]))
			for _, x := range tr.id[8:] {
				if x != 0xA5 {
					v = tokGarbled
				}
			}
		}
		toks = append(toks, v)
	}
	if len(toks) > 0 {
		u = toks[0]
		for _, v := range toks[1:] {
			if v != u {
				u = tokGarbled
			}
		}
	}
	return true, k, u, ""
}

// ---- the server's output stream -----------------------------------------------------------------------

type item struct {
	b    []byte
	logs []string
	done func() // called when the bytes have been written (or dropped because the connection is gone)
}

type seg struct {
	b     []byte
	pause time.Duration   // before writing b
	after <-chan struct{} // before writing b: wait for this event (the caller of the request has returned)
}

type job struct {
	segs []seg
	logs []string
	done []func()
}

// outq serialises everything the server writes on one connection: handshake answers, heartbeat answers,
// scripted answers; it owns the write boundaries.
type outq struct {
	sc      *memcluster.ServerConn
	srv     *server
	mu      sync.Mutex
	jobs    []job
	wake    chan struct{}
	pend    []item
	timerOn bool
	dead    bool
	closed  bool
}

type server struct {
	sc        Scenario
	log       *memcluster.EventLog
	mu        sync.Mutex // guards rng and the counters below
	rng       *vh.Rng
	timeout   time.Duration
	longLeft  int
	midLeft   int
	retMu     sync.Mutex
	ret       map[int]chan struct{} // token -> closed when the caller of that request has returned
	quit      chan struct{}
	seen      map[int]bool // stream ids seen in requests
	overstall int32
	probing   int32
	lateWG    sync.WaitGroup
	outs      sync.Map // conn id -> *outq
	kinds     map[int]int
	shape     map[string]int
}

func (s *server) count(m map[string]int, k string) { m[k]++ }

// returned is the event "the caller of the request with this token has returned"
func (s *server) returned(tok int) chan struct{} {
	s.retMu.Lock()
	defer s.retMu.Unlock()
	ch := s.ret[tok]
	if ch == nil {
		ch = make(chan struct{})
		s.ret[tok] = ch
	}
	return ch
}

func (o *outq) enqueue(j job) {
	o.mu.Lock()
	if o.dead {
		o.mu.Unlock()
		for _, d := range j.done {
			d()
		}
		return
	}
	o.jobs = append(o.jobs, j)
	select {
	case o.wake <- struct{}{}:
	default:
	}
	o.mu.Unlock()
}

// shutdown ends the writer goroutine of this connection (end of the run)
func (o *outq) shutdown() {
	o.mu.Lock()
	o.dead = true
	if !o.closed {
		o.closed = true
		close(o.wake)
	}
	o.mu.Unlock()
}

func (o *outq) run() {
	for range o.wake {
		for {
			o.mu.Lock()
			if len(o.jobs) == 0 {
				o.mu.Unlock()
				break
			}
			j := o.jobs[0]
			o.jobs = o.jobs[1:]
			dead := o.dead
			o.mu.Unlock()
			if !dead {
				for _, l := range j.logs {
					o.srv.log.Add("%s", l)
				}
				t0 := time.Now()
				for _, sg := range j.segs {
					if sg.pause > 0 {
						time.Sleep(sg.pause)
					}
					if sg.after != nil {
						select {
						case <-sg.after:
						case <-o.srv.quit:
						}
					}
					if err := o.sc.WriteNow(sg.b); err != nil {
						o.mu.Lock()
						o.dead = true
						o.mu.Unlock()
						break
					}
				}
				// the driver gives up on a frame body after 5 read deadlines; whatever the planned pauses were,
				// a write sequence that took that long in real time makes the run unusable (conservative:
				// the driver's stall is never longer than the time measured here)
				if time.Since(t0) >= o.srv.timeout*9/2 {
					atomic.StoreInt32(&o.srv.overstall, 1)
				}
			}
			for _, d := range j.done {
				d()
			}
		}
	}
}

// submit hands one scripted frame to the output stream, grouping it with others if the scenario says so
func (o *outq) submit(it item, group bool) {
	g := o.srv.sc.Group
	if !group || g <= 1 {
		o.makeJob([]item{it})
		return
	}
	o.mu.Lock()
	o.pend = append(o.pend, it)
	if len(o.pend) >= g {
		p := o.pend
		o.pend = nil
		o.mu.Unlock()
		o.makeJob(p)
		return
	}
	if !o.timerOn {
		o.timerOn = true
		time.AfterFunc(3*time.Millisecond, func() {
			o.mu.Lock()
			p := o.pend
			o.pend = nil
			o.timerOn = false
			o.mu.Unlock()
			if len(p) > 0 {
				o.makeJob(p)
			}
		})
	}
	o.mu.Unlock()
}

func eventFrame(proto int, r *vh.Rng) []byte {
	b := &memcluster.W{}
	switch r.Intn(3) {
	case 0: // a schema change of a table (debounced by the session, harmless)
		b.String("SCHEMA_CHANGE")
		b.String("UPDATED")
		if proto > 2 {
			b.String("TABLE")
		}
		b.String("ks")
		b.String("tbl")
	case 1: // an event type the driver does not know
		b.String("VERIF_EVENT")
		b.B = append(b.B, r.Bytes(r.Intn(40))...)
	default: // a body that is not an event at all
		b.B = append(b.B, r.Bytes(1+r.Intn(60))...)
	}
	f := &memcluster.Frame{Version: byte(proto) | 0x80, Stream: -1, Op: memcluster.OpEvent, Body: b.B}
	return f.Encode(proto)
}

// makeJob concatenates the frames (adding event / stray frames), cuts the byte string into writes
func (o *outq) makeJob(items []item) {
	s := o.srv
	s.mu.Lock()
	r := s.rng
	if len(items) > 1 && r.Intn(2) == 0 { // answer order within one write: as decided, or shuffled
		for i := len(items) - 1; i > 0; i-- {
			k := r.Intn(i + 1)
			items[i], items[k] = items[k], items[i]
		}
	}
	var extra []item
	if r.Intn(100) < s.sc.PEvent {
		extra = append(extra, item{b: eventFrame(s.sc.Proto, r), logs: []string{fmt.Sprintf("event %d", o.sc.ID)}})
		s.count(s.shape, "event-frame")
	}
	if r.Intn(100) < s.sc.PStray {
		id := 63 + 64*r.Intn(512)
		if s.sc.Proto <= 2 {
			id = 63 + 64*r.Intn(2)
		}
		if !s.seen[id] {
			kind := kVoid
			if s.sc.Mixed {
				kind = r.Intn(kErr0 + len(errCodes))
			}
			fr, _ := buildAnswer(s.sc.Proto, id, r.Intn(1000), kind)
			extra = append(extra, item{b: fr, logs: []string{fmt.Sprintf("stray %d %d", o.sc.ID, id)}})
			s.count(s.shape, "stray-frame")
		}
	}
	for _, e := range extra {
		k := r.Intn(len(items) + 1)
		items = append(items, item{})
		copy(items[k+1:], items[k:])
		items[k] = e
	}
	var j job
	var all []byte
	for _, it := range items {
		all = append(all, it.b...)
		j.logs = append(j.logs, it.logs...)
		if it.done != nil {
			j.done = append(j.done, it.done)
		}
	}
	if len(items) > 1 {
		s.count(s.shape, "write-with-several-frames")
	}
	if len(all) > 1 && r.Intn(100) < s.sc.PSplit {
		ncut := 1 + r.Intn(3)
		cuts := map[int]bool{}
		hl := memcluster.HeaderLen(s.sc.Proto)
		for i := 0; i < ncut; i++ {
			c := 1 + r.Intn(len(all)-1)
			if r.Intn(3) == 0 && len(all) > hl { // inside the first header
				c = 1 + r.Intn(hl-1)
			}
			cuts[c] = true
		}
		var cs []int
		for c := range cuts {
			cs = append(cs, c)
		}
		sort.Ints(cs)
		long := -1
		if r.Intn(100) < s.sc.PLongGap && s.longLeft > 0 {
			s.longLeft--
			long = r.Intn(len(cs))
			s.count(s.shape, "pause-longer-than-timeout")
		}
		prev := 0
		for i, c := range append(cs, len(all)) {
			sg := seg{b: all[prev:c]}
			if i > 0 {
				sg.pause = time.Duration(r.Intn(3000)) * time.Microsecond
				if i-1 == long {
					sg.pause = s.timeout*6/5 + time.Duration(r.Intn(int(s.timeout/time.Millisecond)))*time.Millisecond
				}
			}
			j.segs = append(j.segs, sg)
			prev = c
		}
		s.count(s.shape, "write-cut")
	} else {
		j.segs = []seg{{b: all}}
	}
	s.mu.Unlock()
	o.enqueue(j)
}

// ---- one run ------------------------------------------------------------------------------------------

func Run(sc Scenario) Result {
	res := Result{}
	add := func(op, impl string) { res.Ops = append(res.Ops, op); res.Impl = append(res.Impl, impl) }
	cap := 128
	if sc.Proto > 2 {
		cap = 32768
	}
	add(fmt.Sprintf("reset %d", cap), "ok")
	cl := memcluster.NewCluster(sc.Proto, "10.0.0.1")
	node := cl.Nodes["10.0.0.1"]
	log := cl.Log
	if sc.TimeoutMs == 0 {
		sc.TimeoutMs = 60
	}
	timeout := time.Duration(sc.TimeoutMs) * time.Millisecond
	srv := &server{sc: sc, log: log, rng: vh.NewRng(sc.Seed ^ 0xabcdef), timeout: timeout, longLeft: 3, midLeft: 4,
		ret: map[int]chan struct{}{}, quit: make(chan struct{}),
		seen: map[int]bool{}, kinds: map[int]int{}, shape: map[string]int{}}
	defer close(srv.quit)
	var nreq int64
	t0 := time.Now()
	defer srv.outs.Range(func(_, o interface{}) bool { o.(*outq).shutdown(); return true })
	node.OnConn = func(c *memcluster.ServerConn) {
		o := &outq{sc: c, srv: srv, wake: make(chan struct{}, 1)}
		srv.outs.Store(c.ID, o)
		if sc.CloseFault {
			c.Cli.SetCloseErr(errCloseNotify)
		}
		c.Intercept = func(b []byte) bool {
			o.enqueue(job{segs: []seg{{b: append([]byte(nil), b...)}}})
			return true
		}
		go o.run()
	}
	node.Handle = func(req *memcluster.Request) {
		tok := 0
		if req.Op == memcluster.OpQuery {
			fmt.Sscanf(req.Stmt, "PING t%dt", &tok)
		}
		connID := req.Conn.ID
		ov, _ := srv.outs.Load(connID)
		o := ov.(*outq)
		srv.mu.Lock()
		srv.seen[req.Stream] = true
		srv.mu.Unlock()
		log.Add("req %d %d %d", connID, req.Stream, tok)
		n := atomic.AddInt64(&nreq, 1)
		if sc.ResetAfter > 0 && int(n) == sc.ResetAfter {
			req.Conn.Close()
			return
		}
		if sc.BadStreamAfter > 0 && int(n) == sc.BadStreamAfter {
			fr, _ := buildAnswer(sc.Proto, 0, tok, kVoid)
			o.enqueue(job{segs: []seg{{b: fr}}})
			return
		}
		srv.mu.Lock()
		p := srv.rng.Intn(100)
		d := time.Duration(srv.rng.Intn(3000)) * time.Microsecond
		kind := kRows
		if sc.Mixed {
			kind = srv.rng.Intn(kErr0 + len(errCodes))
			if srv.rng.Intn(3) == 0 {
				kind |= fTrace
			}
			if sc.Proto >= 4 {
				if srv.rng.Intn(3) == 0 {
					kind |= fWarn
				}
				if srv.rng.Intn(3) == 0 {
					kind |= fPayload
				}
			}
		} else if p >= sc.PNever+sc.PVeryLate+sc.PLate+sc.PDelay && p < sc.PNever+sc.PVeryLate+sc.PLate+sc.PDelay+sc.PErr {
			kind = kErr0
		}
		srv.kinds[kind]++
		mid := -1
		if sc.PMidBody > 0 && tok != 0 && atomic.LoadInt32(&srv.probing) == 0 && srv.midLeft > 0 && srv.rng.Intn(100) < sc.PMidBody {
			srv.midLeft--
			mid = srv.rng.Intn(1 << 30)
		}
		srv.mu.Unlock()
		frame, w := buildAnswer(sc.Proto, req.Stream, tok, kind)
		it := item{b: frame, logs: []string{fmt.Sprintf("resp %d %d %d %d %d", connID, req.Stream, tok, kind, w)}}
		if mid >= 0 && len(frame) > 1 {
			// the frame up to a cut (inside the header, at its end, inside the body) at once; the rest when the caller has returned
			hl := memcluster.HeaderLen(sc.Proto)
			cut := 1 + mid%(len(frame)-1)
			switch mid % 5 {
			case 0:
				cut = hl
			case 1, 2:
				if len(frame) > hl+1 {
					cut = hl + 1 + (mid/5)%(len(frame)-hl-1)
				}
			}
			srv.lateWG.Add(1)
			srv.mu.Lock()
			srv.count(srv.shape, "answer-completed-after-its-caller-gave-up")
			srv.mu.Unlock()
			o.enqueue(job{segs: []seg{{b: frame[:cut]}, {b: frame[cut:], after: srv.returned(tok)}}, logs: it.logs, done: []func(){srv.lateWG.Done}})
			return
		}
		if atomic.LoadInt32(&srv.probing) == 1 {
			srv.lateWG.Add(1)
			it.done = srv.lateWG.Done
			o.enqueue(job{segs: []seg{{b: it.b}}, logs: it.logs, done: []func(){it.done}})
			return
		}
		send := func() { o.submit(it, true) }
		after := func(d time.Duration) {
			srv.lateWG.Add(1)
			it.done = srv.lateWG.Done
			if d == 0 {
				send()
			} else {
				go func() { time.Sleep(d); send() }()
			}
		}
		switch {
		case p < sc.PNever:
			return
		case p < sc.PNever+sc.PVeryLate:
			after(11*timeout/2 + d)
		case p < sc.PNever+sc.PVeryLate+sc.PLate:
			after(timeout + 25*time.Millisecond + d)
		case p < sc.PNever+sc.PVeryLate+sc.PLate+sc.PDelay:
			after(d + 1)
		default:
			after(0)
		}
	}
	cfg := sess.Config(cl, sc.Proto, "10.0.0.1")
	cfg.Timeout = timeout
	cfg.WriteTimeout = 10 * time.Second // a write deadline that expires under CPU load would close the connection legitimately
	if sc.Coalesce {
		cfg.WriteCoalesceWaitTime = 100 * time.Microsecond
	}
	if sc.CoalesceMs > 0 {
		cfg.WriteCoalesceWaitTime = time.Duration(sc.CoalesceMs) * time.Millisecond
	}
	if sc.TimeoutLimit > 0 {
		gocql.TimeoutLimit = int64(sc.TimeoutLimit)
		defer func() { gocql.TimeoutLimit = 0 }()
	}
	// setup is retried: one stall of the machine during the handshake must not read as a defect
	var s *gocql.Session
	var err error
	for try := 0; try < 3; try++ {
		s, err = cfg.CreateSession()
		if err != nil {
			res.Fatal = "session: " + err.Error()
			continue
		}
		res.Fatal = ""
		ok := false
		for w := 0; w < 3 && !ok; w++ {
			ok = sess.WaitConns(s, 1, 2*time.Second)
		}
		if ok {
			break
		}
		s.Close()
		res.Fatal = "no connection"
	}
	if res.Fatal != "" {
		return res
	}
	conn0 := gocql.VerifSessionConns(s)[0]
	dials0 := node.NumDials() // 1 unless the setup had to be retried
	var started, returned int64
	var wg sync.WaitGroup
	var oddMu sync.Mutex
	rng := vh.NewRng(sc.Seed)
	type plan struct {
		cancelAfter time.Duration
	}
	plans := make([][]plan, sc.Callers)
	for i := range plans {
		plans[i] = make([]plan, sc.PerCaller)
		for j := range plans[i] {
			if rng.Intn(100) < sc.PCancel {
				plans[i][j].cancelAfter = time.Duration(1+rng.Intn(4000)) * time.Microsecond
				if sc.CoalesceMs > 0 {
					plans[i][j].cancelAfter = time.Duration(200+rng.Intn(sc.CoalesceMs*800)) * time.Microsecond
				}
			}
		}
	}
	// one query: returns whether the caller decoded the answer the server sent for it (the harness's own
	// bookkeeping for probes; the verdict is the monitor's)
	one := func(cancelAfter time.Duration) (timedOut bool) {
		tok := int(atomic.AddUint64(&tokCounter, 1))
		ctx, cancel := context.WithCancel(context.Background())
		if cancelAfter > 0 {
			time.AfterFunc(cancelAfter, cancel)
		}
		atomic.AddInt64(&started, 1)
		tr := &tracer{}
		iter := s.Query(fmt.Sprintf("PING t%dt", tok)).WithContext(ctx).Trace(tr).Iter()
		resp, k, u, odd := observe(iter, tr)
		atomic.AddInt64(&returned, 1)
		cancel()
		close(srv.returned(tok))
		if resp {
			log.Add("got 0 %d %d %d", tok, k, u)
			if odd != "" {
				oddMu.Lock()
				res.Odd = append(res.Odd, odd)
				oddMu.Unlock()
			}
		}
		return !resp
	}
	progress := func() int64 { return atomic.LoadInt64(&returned)<<20 + int64(len(log.Snapshot())) }
	noProgress := func() int64 { return 0 }
	launch := func() {
		for i := 0; i < sc.Callers; i++ {
			wg.Add(1)
			go func(i int) {
				defer wg.Done()
				for j := 0; j < sc.PerCaller; j++ {
					one(plans[i][j].cancelAfter)
				}
			}(i)
		}
	}
	launch()
	if sc.CloseEarly {
		time.Sleep(time.Duration(1+rng.Intn(20)) * time.Millisecond)
		cdone := make(chan struct{})
		go func() { s.Close(); close(cdone) }()
		if !waitDone(cdone, noProgress) {
			res.Fatal = "Session.Close hangs\n" + stacks()
			return res
		}
	}
	done := make(chan struct{})
	go func() { wg.Wait(); close(done) }()
	if !waitDone(done, progress) {
		res.Fatal = "callers hang\n" + stacks()
		return res
	}
	if sc.SecondWave && !sc.CloseEarly {
		// ids of timed-out requests must stay reserved however long the answer takes: wait, then reuse ids
		time.Sleep(23 * timeout / 5)
		launch()
		done2 := make(chan struct{})
		go func() { wg.Wait(); close(done2) }()
		if !waitDone(done2, progress) {
			res.Fatal = "callers hang (second wave)\n" + stacks()
			return res
		}
	}
	srv.lateWG.Wait()
	// probes: a connection that nobody was entitled to close still serves requests, each getting its own answer
	probesOK := -1
	alive := ""
	if sc.calm() && time.Since(t0) < 5*time.Second {
		alive = "open"
		if conn0.Closed() || node.NumDials() != dials0 {
			alive = fmt.Sprintf("closed(c0closed=%v,dials=%d)", conn0.Closed(), node.NumDials())
		} else if sc.Probes > 0 {
			atomic.StoreInt32(&srv.probing, 1)
			probesOK = 0
			for i := 0; i < sc.Probes; i++ {
				for try := 0; try < 20; try++ {
					if !one(0) {
						probesOK++
						break
					}
				}
			}
			srv.lateWG.Wait()
		}
	}
	snap := log.Snapshot()
	unanswered := 0
	for _, l := range snap {
		if strings.HasPrefix(l, "req ") {
			unanswered++
		} else if strings.HasPrefix(l, "resp ") {
			unanswered--
		}
	}
	res.Kinds = srv.kinds
	res.Shape = srv.shape
	res.Class = fmt.Sprintf("proto%d", sc.Proto)
	if atomic.LoadInt32(&srv.overstall) == 1 {
		// the server's own writes took longer than 4.5 request timeouts for one write sequence (machine under
		// load): the driver may legitimately have given up on a frame body; nothing of this run is judged
		res.Class += "/discarded-overstall"
		s.Close()
		return res
	}
	for _, l := range snap {
		add(l, "ok")
	}
	add(fmt.Sprintf("calls %d", atomic.LoadInt64(&started)), fmt.Sprint(atomic.LoadInt64(&returned)))
	if alive != "" {
		add(fmt.Sprintf("alive %d", dials0), alive)
		res.Class += "/calm"
	}
	if probesOK >= 0 {
		add(fmt.Sprintf("probes %d", sc.Probes), fmt.Sprint(probesOK))
	}
	// id accounting at quiescence, only meaningful while the first connection is still open and was the only one
	if !sc.CloseEarly && !conn0.Closed() && node.NumDials() == dials0 {
		want := cap - 1 - unanswered
		last := -1
		stable := 0
		for it := 0; stable < 5 && it < 2000; it++ {
			a := conn0.AvailableStreams()
			if a == last && a == want {
				stable++
			} else {
				stable = 0
				last = a
			}
			time.Sleep(time.Millisecond)
		}
		add(fmt.Sprintf("avail %d", dials0), fmt.Sprint(last))
		res.Class += "/avail"
	} else {
		res.Class += fmt.Sprintf("/closed(early=%v,c0closed=%v,dials=%d)", sc.CloseEarly, conn0.Closed(), node.NumDials())
	}
	if !sc.CloseEarly {
		cdone := make(chan struct{})
		go func() { s.Close(); close(cdone) }()
		if !waitDone(cdone, noProgress) {
			res.Fatal = "Session.Close hangs\n" + stacks()
			return res
		}
	}
	return res
}

// waitDone waits for done under a watchdog. A hang is only declared when a first window of 20 s AND a
// second window of 25 s have passed and nothing moved during the second one (progress counter unchanged):
// a single stall of the whole machine / a jump of the clock (seen on this VM: two independent harness
// processes "hung" at the same instant with every goroutine in an ordinary state) cannot produce it.
func waitDone(done <-chan struct{}, progress func() int64) bool {
	select {
	case <-done:
		return true
	case <-time.After(20 * time.Second):
	}
	for i := 0; i < 6; i++ {
		p0 := progress()
		select {
		case <-done:
			return true
		case <-time.After(25 * time.Second):
		}
		if progress() == p0 {
			return false
		}
	}
	return false
}

func stacks() string {
	buf := make([]byte, 1<<20)
	n := runtime.Stack(buf, true)
	return string(buf[:n])
}

// Gen draws a scenario. wide = C06 flavour (resets, early close, exhaustion).
func Gen(r *vh.Rng, wide bool) Scenario {
	sc := Scenario{Proto: []int{2, 4, 3}[r.Intn(3)], Seed: r.U64()}
	sc.Callers = 1 + r.Intn(24)
	sc.PerCaller = 1 + r.Intn(6)
	sc.Coalesce = r.Intn(3) == 0
	switch r.Intn(5) {
	case 0: // everything answered at once
	case 1:
		sc.PDelay = 70
	case 2:
		sc.PLate, sc.PDelay = 15, 30
	case 3:
		sc.PNever, sc.PLate, sc.PDelay, sc.PErr = 5, 10, 30, 10
	case 4:
		sc.PLate, sc.PCancel, sc.PDelay = 10, 30, 40
	}
	special := r.Intn(8)
	switch special {
	case 0: // very late answers + a second wave that re-uses ids (small id space)
		sc.Proto = 2
		sc.PNever, sc.PVeryLate, sc.PLate, sc.PDelay, sc.PErr, sc.PCancel = 10, 25, 0, 30, 0, 0
		sc.SecondWave = true
		sc.Callers = 20 + r.Intn(40)
		sc.PerCaller = 2
	case 1: // cancellations between enqueue and flush of the coalescer; answers are held back a little
		sc.CoalesceMs = 4 + r.Intn(4)
		sc.Coalesce = true
		sc.PCancel = 60
		sc.PDelay, sc.PLate, sc.PNever, sc.PErr = 100, 0, 0, 0
		sc.Proto = 2
		sc.Callers = 30 + r.Intn(60)
		sc.PerCaller = 3
	}
	// answer kinds and write shapes
	sc.Mixed = r.Intn(10) < 7
	if sc.Mixed && r.Intn(3) == 0 {
		sc.Proto = 4 // all header flags
	}
	if r.Intn(2) == 0 {
		sc.Group = 2 + r.Intn(7)
	}
	if r.Intn(2) == 0 {
		sc.PSplit = []int{20, 50, 100}[r.Intn(3)]
	}
	if r.Intn(4) == 0 {
		sc.PEvent = 10 + r.Intn(50)
	}
	if r.Intn(4) == 0 {
		sc.PStray = 10 + r.Intn(50)
	}
	sc.Probes = 2
	if r.Intn(3) == 0 {
		// some answers are completed only when their caller has given up (timer or cancelled context)
		sc.PMidBody = 30 + r.Intn(70)
	}
	if special > 1 && r.Intn(3) == 0 {
		// pauses longer than the request timeout in the middle of a server write: a few callers, several
		// queries each, so that requests are sent while a frame is stalled and after its late tail arrived
		sc.TimeoutMs = 100
		sc.PSplit = 100
		sc.PLongGap = 60
		sc.Callers = 2 + r.Intn(6)
		sc.PerCaller = 2 + r.Intn(3)
		sc.PLate, sc.PNever, sc.PVeryLate = 0, 0, 0
		sc.Probes = 3
	}
	if wide {
		sc.CloseFault = r.Intn(2) == 0
		if r.Intn(8) == 0 {
			sc.TimeoutLimit = 1 + r.Intn(2)
			sc.PNever = 30
			sc.SecondWave = false
		}
		switch r.Intn(7) {
		case 0:
			sc.ResetAfter = 1 + r.Intn(20)
		case 1:
			sc.CloseEarly = true
			sc.PNever = 20
		case 2: // exhaustion of the 127 ids of protocol 2
			sc.Proto = 2
			sc.Callers = 140 + r.Intn(40)
			sc.PerCaller = 1
			sc.PNever, sc.PLate, sc.PDelay, sc.PErr, sc.PCancel = 0, 0, 100, 0, 0
			sc.PLongGap = 0
			sc.TimeoutMs = 0
		case 3: // a frame on the reserved stream 0: the driver must close the connection, every call must end
			sc.BadStreamAfter = 1 + r.Intn(20)
		}
	}
	// (until the repair of KF-C06-1 a faulty Close was drawn only where the driver has no reason to dial again: a
	// connection that finished connecting after its pool was closed was closed under the pool's lock. Since the repair
	// resets / a frame on stream 0 / TimeoutLimit run over faulty transports too.)
	// a response for a "never-used" id needs an id the allocator cannot reach in this run: with the 127 ids
	// of protocol 2 only while few requests are outstanding at any time
	if sc.Proto <= 2 && sc.Callers*sc.PerCaller > 40 {
		sc.PStray = 0
	}
	return sc
}

// Main is shared by cmd/c01 and cmd/c06.
func Main(wide bool) {
	if len(os.Args) > 1 && os.Args[1] == "dsworker" {
		SchedWorker()
		return
	}
	mode, tier, path := vh.Args()
	if mode == "replay" {
		// a recorded trace: the implementation's side of every line is "ok" / its recorded value;
		// the model re-judges the trace.
		for _, l := range vh.ReadLines(path) {
			w := strings.Fields(l)
			if len(w) > 0 && (w[0] == "rx" || w[0] == "rxk" || w[0] == "rxo" || w[0] == "rd" || w[0] == "rdo") {
				fmt.Println(RunRx(l)) // executed on the real receive loop
			} else if len(w) > 0 && w[0] == "dr" {
				fmt.Println(RunOwn(l)) // executed on a real Conn: own requests next to user requests, late Write returns
			} else if len(w) > 0 && w[0] == "ds" {
				fmt.Println(RunSchedIsolated([]string{l})[0]) // executed on two real Conns: schedule points inside exec / releaseStream
			} else if len(w) > 0 && w[0] == "jr" {
				fmt.Println(RunJourney(l)) // executed on a real Conn with real callers over a scripted transport
			} else if len(w) > 0 && w[0] == "ex" {
				fmt.Println(RunExec(l)) // executed on a real Conn: the program points of exec as scheduling points
			} else if len(w) > 0 && w[0] == "ev" {
				fmt.Println(RunEv(l)) // executed on a real Conn: EVENT frames between responses while a handler is held
			} else if len(w) > 0 && w[0] == "hb" {
				fmt.Println(RunBeat(l)) // executed on a real controlConn: close() against the heartbeat loop
			} else if len(w) > 0 && (w[0] == "cf" || w[0] == "cfk") {
				fmt.Println(RunCloseFault(l)) // executed on a real Session over transports whose Close fails
			} else if len(w) > 0 && (w[0] == "avail" || w[0] == "calls" || w[0] == "alive" || w[0] == "probes") {
				fmt.Println("(recorded)")
			} else {
				fmt.Println("ok")
			}
		}
		return
	}
	r := vh.NewRng(vh.EnvSeed())
	out := vh.NewOut(path)
	runs := 60
	if tier == "thorough" {
		runs = 600
	}
	// the receive loop over scripted sockets (no wall clock): chunks and read-deadline expiries
	nrx := 0
	if !wide {
		rr := vh.NewRng(vh.EnvSeed() ^ 0x5eed5eed)
		n := 1500
		if tier == "thorough" {
			n = 40000
		}
		for i := 0; i < n; i++ {
			var line, cls string
			switch {
			case i%6 == 5:
				line, cls = GenRx(rr, true)
			case i%6 == 4:
				line, cls = GenRd(rr)
			default:
				line, cls = GenRx(rr, false)
			}
			out.Case(line, RunRx(line), cls, true)
			nrx++
		}
		if rxHung {
			os.WriteFile(path+"/fatal.txt", []byte("receive loop blocked on a scripted socket\n"+gocql.VerifLastHangDump), 0o644)
		}
	}
	// the connection's own requests (heartbeat, USE, PREPARE, REGISTER) next to user requests; Write returning late
	nown := 0
	if !wide {
		ro := vh.NewRng(vh.EnvSeed() ^ 0x6f776e72)
		nf, nh := 500, 40
		if tier == "thorough" {
			nf, nh = 15000, 400
		}
		for i := 0; i < nf; i++ {
			line, cls := GenOwn(ro, false)
			out.Case("reset 128", "ok", "reset", false)
			out.Case(line, RunOwn(line), cls, true)
			nown++
		}
		var lines, classes []string
		for i := 0; i < nh; i++ {
			line, cls := GenOwn(ro, true)
			lines = append(lines, line)
			classes = append(classes, cls)
		}
		for i, a := range RunOwnBatch(lines, 40) {
			out.Case("reset 128", "ok", "reset", false)
			out.Case(lines[i], a, classes[i], true)
			nown++
		}
		// schedule points inside exec's exits and releaseStream, calls waiting for the write slot, close while calls are
		// inside exec, two connections (sched.go)
		rs := vh.NewRng(vh.EnvSeed() ^ 0x73636864)
		ns := 600
		if tier == "thorough" {
			ns = 20000
		}
		var slines, sclasses []string
		for i := 0; i < ns; i++ {
			line, cls := GenSched(rs)
			slines = append(slines, line)
			sclasses = append(sclasses, cls)
		}
		for i, a := range RunSchedIsolated(slines) {
			out.Case("reset 128", "ok", "reset", false)
			out.Case(slines[i], a, sclasses[i], true)
			nown++
		}
		if ownHung {
			os.WriteFile(path+"/fatal.txt", []byte(OwnHangDump), 0o644)
		}
	}
	// the journey of a response through the real receive loop with real callers, event-ordered (C06)
	njr := 0
	if wide {
		rj := vh.NewRng(vh.EnvSeed() ^ 0x6a6f7572)
		n := 1200
		if tier == "thorough" {
			n = 40000
		}
		for i := 0; i < n; i++ {
			line, cls := GenJourney(rj)
			out.Case("reset 128", "ok", "reset", false) // (a replay is the op lines since the last reset: this op alone)
			out.Case(line, RunJourney(line), cls, true)
			njr++
		}
		if jrHung {
			os.WriteFile(path+"/fatal.txt", []byte(JrHangDump), 0o644)
		}
	}
	// closing pools / sessions / connections over transports whose Close() reports an error (C06)
	ncf := 0
	if wide && !jrHung {
		rc := vh.NewRng(vh.EnvSeed() ^ 0x636c6f73)
		n := 120
		if tier == "thorough" {
			n = 3000
		}
		for i := 0; i < n; i++ {
			line, cls := GenCloseFault(rc)
			out.Case("reset 128", "ok", "reset", false)
			out.Case(line, RunCloseFault(line), cls, true)
			ncf++
		}
		if cfHung {
			os.WriteFile(path+"/fatal.txt", []byte(CfHangDump), 0o644)
		}
	}
	nex, nhb := 0, 0
	if wide && !jrHung && !cfHung {
		nex, nhb = runRoundF(out, tier, path)
	}
	if jrHung || cfHung || ownHung || exHung || hbHung {
		runs = 0 // one confirmed hang is the verdict; the goroutines of that run are still around
	}
	nreq := 0
	setupFails := 0
	kinds := map[string]int{}
	shape := map[string]int{}
	var odd []string
	for i := 0; i < runs; i++ {
		sc := Gen(r, wide)
		res := Run(sc)
		if res.Fatal != "" {
			// a hang / failure to set up is reported as a failed case with the goroutine dump as answer
			os.WriteFile(path+"/fatal.txt", []byte(res.Fatal), 0o644)
			out.Case(fmt.Sprintf("calls %d", -1), "hang-or-fatal:"+strings.SplitN(res.Fatal, "\n", 2)[0], "fatal", true)
			if strings.Contains(res.Fatal, "hang") {
				break // one confirmed hang (45 s of watchdog) is the verdict; the goroutines of that run are still around
			}
			// a Session that can not be set up three times over (each attempt retried inside Run, each costing connect
			// time-outs) is the verdict too: going on would only run into the time limit of the check and lose the cases
			// recorded so far
			setupFails++
			if setupFails >= 3 {
				break
			}
			continue
		}
		for k, v := range res.Kinds {
			kinds[fmt.Sprint(k)] += v
		}
		for k, v := range res.Shape {
			shape[k] += v
		}
		odd = append(odd, res.Odd...)
		for k, op := range res.Ops {
			cls := res.Class + "/" + strings.Fields(op)[0]
			out.Case(op, res.Impl[k], cls, strings.HasPrefix(op, "req"))
			if strings.HasPrefix(op, "req") {
				nreq++
			}
		}
	}
	if len(odd) > 0 {
		os.WriteFile(path+"/odd_errors.txt", []byte(strings.Join(odd, "\n")+"\n"), 0o644)
	}
	out.Close(map[string]interface{}{"scenarios": runs, "requests_observed": nreq, "scripted_socket_cases": nrx, "own_request_cases": nown, "journey_cases": njr, "close_fault_cases": ncf, "exec_point_cases": nex, "heartbeat_close_cases": nhb, "answer_kinds": kinds, "write_shapes": shape})
}
