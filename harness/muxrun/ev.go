package muxrun

// EVENT frames between responses while the handler of an earlier batch of events is still running (C06, round g):
// the bare Conn of the journey tier, whose stand-in session's two event debouncers (node / schema events) hand their
// batches to the harness, which HOLDS the handler (the real handlers refresh the ring / the schema: queries on the
// control connection that take as long as the server likes).
//
//	ev <proto> <step>...
//
//	E / S   the server writes a STATUS_CHANGE / SCHEMA_CHANGE event frame; ends when the receive loop is blocked in
//	        the transport again (it has handed the frame to the debouncer)
//	H       ends when every event written so far has been handed to a handler (the debounce second after the last
//	        event); reports h=<node events handed over>/<schema events handed over>; the handlers are held
//	U       the held handlers return
//	q       start the next call (1, 2, ...); ends when the server has read the request
//	d<i>    the server answers call i; ends when the receive loop is blocked again and call i has returned
//	a       report cap-1-AvailableStreams()
//
// Answer: `a=<n>` per `a`, `h=<n>/<m>` per `H`, `;`, one letter per call (R / W).

import (
	"context"
	"fmt"
	"strconv"
	"strings"
	"sync"

	"github.com/gocql/gocql"
	"verifharness/memcluster"
	"verifharness/vh"
)

// EvHangDump holds the goroutine dump of the last event script that hung.
var EvHangDump string
var evHung bool
var evMu sync.Mutex

func evEvent(proto int, schema bool, k int) []byte {
	b := &memcluster.W{}
	if schema {
		b.String("SCHEMA_CHANGE")
		b.String("UPDATED")
		if proto > 2 {
			b.String("TABLE")
		}
		b.String("ks")
		b.String(fmt.Sprintf("t%d", k))
	} else {
		b.String("STATUS_CHANGE")
		b.String([]string{"UP", "DOWN"}[k%2])
		b.B = append(b.B, 4, 10, 0, byte(k>>8), byte(k), 0, 0, 0x23, 0x52)
	}
	f := &memcluster.Frame{Version: byte(proto) | 0x80, Stream: -1, Op: memcluster.OpEvent, Body: b.B}
	return f.Encode(proto)
}

// RunEv executes one `ev` line on the real code.
func RunEv(line string) (ans string) {
	defer func() {
		if e := recover(); e != nil {
			if h, ok := e.(jrHang); ok {
				evMu.Lock()
				if !evHung {
					EvHangDump = "event script: " + line + "\nblocked: " + h.what + "\n\n" + h.dump
					evHung = true
				}
				evMu.Unlock()
				ans = fmt.Sprintf("crash:hang:%s(watchdog,receive-loop-in-debounce=%v)", h.what, strings.Contains(h.dump, "eventDebouncer).debounce"))
				return
			}
			ans = fmt.Sprintf("crash:%v", e)
		}
	}()
	w := strings.Fields(line)
	if len(w) < 2 || w[0] != "ev" {
		return "bad-op"
	}
	proto, err := strconv.Atoi(w[1])
	if err != nil || proto < 2 || proto > 4 {
		return "bad-op"
	}
	tr := newJrTransport()
	conn := gocql.VerifC06NewConn(tr, proto, 0, 0, nil)
	var mu sync.Mutex
	handed := map[string]int{}
	release := make(chan struct{})
	var gate chan struct{} = make(chan struct{})
	conn.SetEventHandlers(func(kind string, n int) {
		mu.Lock()
		handed[kind] += n
		g := gate
		mu.Unlock()
		tr.poke()
		select {
		case <-g:
		case <-release:
		}
	})
	waitFor := func(cond func() bool, what string) { exWaitFor(cond, tr.notify, what) }
	type call struct {
		idx    int
		cancel context.CancelFunc
		done   chan struct{}
		res    gocql.VerifC06Result
	}
	var calls []*call
	returned := func(c *call) bool {
		select {
		case <-c.done:
			return true
		default:
			return false
		}
	}
	defer func() {
		close(release)
		for _, c := range calls {
			c.cancel()
		}
		conn.Close()
		conn.Stop()
	}()
	written := func(c *call) (int, bool) {
		for _, rq := range tr.requests(proto) {
			if rq.Op == memcluster.OpQuery && len(rq.Body) >= 4 && strings.HasPrefix(string(rq.Body[4:]), fmt.Sprintf("V%d;", c.idx)) {
				return rq.Stream, true
			}
		}
		return 0, false
	}
	pending := map[string]int{} // events written so far, per debouncer
	nev := 0
	var out []string
	cap := conn.Cap()
	waitFor(tr.drained, "receive loop never started reading")
	for _, st := range w[2:] {
		switch {
		case st == "E" || st == "S":
			kind := map[string]string{"E": "node", "S": "schema"}[st]
			nev++
			pending[kind]++
			tr.deliver(evEvent(proto, st == "S", nev))
			waitFor(tr.drained, fmt.Sprintf("receive loop did not come back for more after EVENT frame %d (%s)", nev, kind))
		case st == "H":
			for _, kind := range []string{"node", "schema"} {
				k, want := kind, pending[kind]
				waitFor(func() bool { mu.Lock(); defer mu.Unlock(); return handed[k] >= want }, "the handler of the "+kind+" events was never started")
			}
			mu.Lock()
			out = append(out, fmt.Sprintf("h=%d/%d", handed["node"], handed["schema"]))
			mu.Unlock()
		case st == "U":
			mu.Lock()
			close(gate)
			gate = make(chan struct{})
			mu.Unlock()
		case st == "q":
			if len(calls) >= 40 {
				return "bad-op"
			}
			c := &call{idx: len(calls) + 1, done: make(chan struct{})}
			ctx, cancel := context.WithCancel(context.Background())
			c.cancel = cancel
			calls = append(calls, c)
			go func() {
				c.res = conn.Exec(ctx, fmt.Sprintf("V%d;", c.idx))
				close(c.done)
				tr.poke()
			}()
			waitFor(func() bool { _, ok := written(c); return ok || returned(c) }, fmt.Sprintf("request of call %d never written", c.idx))
		case st[0] == 'd':
			i, err := strconv.Atoi(st[1:])
			if err != nil || i < 1 || i > len(calls) || returned(calls[i-1]) {
				return "bad-op"
			}
			c := calls[i-1]
			sid, ok := written(c)
			if !ok {
				return "bad-op"
			}
			f := &memcluster.Frame{Version: byte(proto) | 0x80, Stream: sid, Op: memcluster.OpResult, Body: jrBody(c.idx, 30+c.idx)}
			tr.deliver(f.Encode(proto))
			waitFor(tr.drained, fmt.Sprintf("receive loop did not read the response of call %d", c.idx))
			waitFor(func() bool { return returned(c) }, fmt.Sprintf("call %d did not return although its whole response was written", c.idx))
		case st == "a":
			out = append(out, fmt.Sprintf("a=%d", cap-1-conn.Avail()))
		default:
			return "bad-op"
		}
	}
	out = append(out, ";")
	for _, c := range calls {
		if returned(c) {
			l := "?" + c.res.Class
			if c.res.Class == "resp" {
				l = "R"
				sid, _ := written(c)
				if c.res.Stream != sid || c.res.Length != 30+c.idx || c.res.BodyHash != jrFnv(jrBody(c.idx, 30+c.idx)) {
					l = "R!not-its-own-response"
				}
			}
			out = append(out, l)
		} else {
			out = append(out, "W")
		}
	}
	return strings.Join(out, " ")
}

// GenEv draws one script: events, then (a debounce second later) their handler held, then further events interleaved
// with requests and responses while it is held, optionally a second batch.
func GenEv(r *vh.Rng) (line, class string) {
	proto := []int{2, 3, 4}[r.Intn(3)]
	var steps []string
	ncalls := 0
	var open []int
	ev := func() {
		if r.Intn(3) == 0 {
			steps = append(steps, "S")
		} else {
			steps = append(steps, "E")
		}
	}
	traffic := func(k int, withEvents bool) {
		for j := 0; j < k; j++ {
			switch p := r.Intn(10); {
			case p < 3 && ncalls < 12:
				ncalls++
				open = append(open, ncalls)
				steps = append(steps, "q")
			case p < 6 && len(open) > 0:
				x := r.Intn(len(open))
				steps = append(steps, fmt.Sprintf("d%d", open[x]))
				open = append(open[:x], open[x+1:]...)
			case p < 9 && withEvents:
				ev()
			default:
				steps = append(steps, "a")
			}
		}
	}
	traffic(r.Intn(4), false)
	for j := 0; j < 1+r.Intn(3); j++ {
		ev()
	}
	traffic(r.Intn(3), true)
	steps = append(steps, "H")
	class = "ev/events-while-handler-held"
	traffic(3+r.Intn(8), true)
	if r.Intn(3) == 0 {
		ev()
		steps = append(steps, "H")
		traffic(2+r.Intn(5), true)
		class = "ev/two-batches-held"
	}
	if r.Intn(2) == 0 {
		steps = append(steps, "U")
		traffic(r.Intn(4), true)
	}
	for _, i := range open {
		steps = append(steps, fmt.Sprintf("d%d", i))
	}
	steps = append(steps, "a")
	return fmt.Sprintf("ev %d %s", proto, strings.Join(steps, " ")), class
}

// RunEvBatch runs the scripts par at a time (each waits a debounce second per batch).
func RunEvBatch(lines []string, par int) []string {
	ans := make([]string, len(lines))
	sem := make(chan struct{}, par)
	var wg sync.WaitGroup
	for i := range lines {
		wg.Add(1)
		sem <- struct{}{}
		go func(i int) {
			defer wg.Done()
			defer func() { <-sem }()
			ans[i] = RunEv(lines[i])
		}(i)
	}
	wg.Wait()
	return ans
}
