package muxrun

// The receive side over a SCRIPTED socket (no wall clock): ops
//
//	rx  <proto> <deadline 0|1> <waiting ids|-> <gone ids|-> <item>...   item = hex chunk | T (read-deadline expiry)
//	rxo ...                                                              same; a frame on a reserved stream / with the compressed flag / a truncated stream (model-vs-code only)
//	rxk ...                                                              same; >= 5 expiries inside one body: the loop ends there with the time-out (C01_rx_sync; KF-C01-1 before its repair)
//	rd  <deadline 0|1> <k> <item>...                                     one Conn.Read of k bytes (enough bytes, < 5 expiries before the k-th)
//	rdo ...                                                              same; short stream or >= 5 expiries (model-vs-code only)
//
// executed on the real Conn.recv / Conn.Read through /repo/verif_export_c01b.go and on Model/MuxRx.lean.

import (
	"fmt"
	"strconv"
	"strings"

	"github.com/gocql/gocql"
	"verifharness/memcluster"
	"verifharness/vh"
)

type rxFrame struct {
	stream int
	op     byte
	flags  byte
	body   []byte
	tailAt int // stalled frame of the excluded class: number of body bytes before the tail
}

func (f rxFrame) encode(proto int) []byte {
	fr := &memcluster.Frame{Version: byte(proto) | 0x80, Flags: f.flags, Stream: f.stream, Op: f.op, Body: f.body}
	return fr.Encode(proto)
}

func rxBodyLen(r *vh.Rng) int {
	switch r.Intn(20) {
	case 0:
		return 0
	case 1:
		return 4090 + r.Intn(12) // around bufio's buffer
	case 2:
		return 8186 + r.Intn(12) // around the discard chunk
	case 3:
		if r.Intn(4) == 0 {
			return 33000 + r.Intn(40000)
		}
		return 9000 + r.Intn(8000)
	case 4, 5:
		return 100 + r.Intn(300)
	default:
		return 1 + r.Intn(40)
	}
}

// marks inserts n expiry points into b at random byte positions in [0, hi]; returns items (nil = expiry)
func rxItems(r *vh.Rng, b []byte, pos []int) [][]byte {
	// pos: sorted positions (an expiry point BEFORE byte index p)
	var out [][]byte
	prev := 0
	emit := func(seg []byte) {
		// cut a run of bytes into 1..3 chunks
		for len(seg) > 0 {
			n := len(seg)
			if n > 1 && r.Intn(3) == 0 {
				n = 1 + r.Intn(n-1)
			}
			out = append(out, seg[:n])
			seg = seg[n:]
		}
	}
	for _, p := range pos {
		emit(b[prev:p])
		out = append(out, nil)
		prev = p
	}
	emit(b[prev:])
	return out
}

func sortedPositions(r *vh.Rng, n, lo, hi int) []int {
	ps := make([]int, n)
	for i := range ps {
		ps[i] = lo + r.Intn(hi-lo+1)
	}
	for i := 1; i < len(ps); i++ {
		for j := i; j > 0 && ps[j] < ps[j-1]; j-- {
			ps[j], ps[j-1] = ps[j-1], ps[j]
		}
	}
	return ps
}

func idList(ids []int) string {
	if len(ids) == 0 {
		return "-"
	}
	s := make([]string, len(ids))
	for i, v := range ids {
		s[i] = strconv.Itoa(v)
	}
	return strings.Join(s, ",")
}

func itemsText(items [][]byte) string {
	var sb strings.Builder
	for _, it := range items {
		if it == nil {
			sb.WriteString(" T")
		} else if len(it) > 0 {
			sb.WriteString(" " + vh.Hex(it))
		}
	}
	return sb.String()
}

// GenRx draws one script. kf: one frame body is awaited through >= 5 read deadlines (class rxk: recv must return the
// time-out there; before the repair of KF-C01-1 it went on reading inside the body).
func GenRx(r *vh.Rng, kf bool) (line string, class string) {
	proto := []int{2, 3, 4}[r.Intn(3)]
	dl := 1
	if !kf && r.Intn(7) == 0 {
		dl = 0
	}
	maxID := 127
	if proto > 2 {
		maxID = 32767
	}
	used := map[int]bool{}
	fresh := func() int {
		for {
			id := 1 + r.Intn(maxID)
			if r.Intn(2) == 0 {
				id = 1 + r.Intn(40)
			}
			if !used[id] {
				used[id] = true
				return id
			}
		}
	}
	var waiting, gone []int
	var frames []rxFrame
	nf := 1 + r.Intn(8)
	ops := []byte{0x00, 0x02, 0x06, 0x08, 0x08, 0x08, 0x0C, 0x10, 0x03, 0x0E}
	flagset := []byte{0, 0, 0, 2, 4, 8, 6, 10, 12, 14, 0x10, 0x80}
	kinds := map[string]bool{}
	for i := 0; i < nf; i++ {
		f := rxFrame{op: ops[r.Intn(len(ops))], flags: flagset[r.Intn(len(flagset))], body: r.Bytes(rxBodyLen(r))}
		switch p := r.Intn(100); {
		case p < 45:
			f.stream = fresh()
			waiting = append(waiting, f.stream)
			kinds["call"] = true
		case p < 57:
			f.stream = fresh()
			gone = append(gone, f.stream)
			kinds["gone"] = true
		case p < 72:
			f.stream = fresh() // nobody registered
			kinds["unknown-id"] = true
		case p < 82:
			f.stream = -1
			f.op = 0x0C
			f.flags = 0
			b := &memcluster.W{}
			b.String("VERIF")
			f.body = append(b.B, r.Bytes(r.Intn(30))...)
			kinds["event"] = true
		case p < 92 && len(frames) > 0:
			f.stream = frames[r.Intn(len(frames))].stream // a second frame for an id already served
			if f.stream <= 0 {
				f.stream = fresh()
			}
			kinds["second-frame-for-id"] = true
		case p < 94 && !kf:
			f.stream = []int{0, -2, -128}[r.Intn(3)]
			f.op = 0x08
			f.flags = 0
			f.body = []byte{0, 0, 0, 1}
			kinds["reserved-stream"] = true
		default:
			f.stream = fresh()
			waiting = append(waiting, f.stream)
		}
		if !kf && f.stream > 0 && r.Intn(40) == 0 {
			f.flags |= 1 // compressed flag, no compressor configured
			kinds["compressed-flag"] = true
		}
		frames = append(frames, f)
	}
	hl := memcluster.HeaderLen(proto)
	victim := -1
	if kf {
		// the frame whose body stalls: registered (waiting or gone) or not
		victim = r.Intn(len(frames))
		f := &frames[victim]
		if f.stream <= 0 {
			f.stream = fresh()
			waiting = append(waiting, f.stream)
		}
		f.flags &^= 1
		pre := 1 + r.Intn(20)
		if r.Intn(2) == 0 {
			// the rest of the stalled body is, byte for byte, a well-formed frame for ANOTHER waiting call
			other := fresh()
			waiting = append(waiting, other)
			inner := rxFrame{stream: other, op: 0x08, body: r.Bytes(1 + r.Intn(20))}
			f.body = append(r.Bytes(pre), inner.encode(proto)...)
			kinds["kf-tail-is-a-frame"] = true
		} else {
			// the rest of the stalled body starts with a byte that is no protocol version
			bad := []byte{0x00, 0x06, 0x40, 0x7f, 0x80, 0x86, 0xff}[r.Intn(7)]
			f.body = append(append(r.Bytes(pre), bad), r.Bytes(r.Intn(30))...)
			kinds["kf-tail-bad-version"] = true
		}
		// five expiries before byte `pre` of the body (the fifth exactly there), possibly more afterwards
		f.tailAt = pre
	}
	var items [][]byte
	for i, f := range frames {
		enc := f.encode(proto)
		var pos []int
		// expiry points while the header is awaited (no deadline is set then): anywhere before its last byte
		if r.Intn(4) == 0 {
			pos = append(pos, sortedPositions(r, 1+r.Intn(6), 0, hl-1)...)
		}
		if len(f.body) > 0 && i != victim && r.Intn(3) == 0 {
			// at most four expiries while the body is awaited
			pos = append(pos, sortedPositions(r, 1+r.Intn(4), hl, hl+len(f.body)-1)...)
		}
		if i == victim {
			p := f.tailAt
			pos = append(pos, sortedPositions(r, 4, hl, hl+p)...)
			pos = append(pos, hl+p)
			if r.Intn(2) == 0 {
				pos = append(pos, sortedPositions(r, 1+r.Intn(3), hl+p, len(enc)-1)...)
			}
		}
		items = append(items, rxItems(r, enc, pos)...)
	}
	// the cuts above never join two frames: now join neighbouring chunks (several frames, or the tail of one
	// and the head of the next, in ONE write): none / some / all that are not separated by an expiry
	if pj := []int{0, 50, 100}[r.Intn(3)]; pj > 0 {
		var joined [][]byte
		for _, it := range items {
			if n := len(joined); it != nil && n > 0 && joined[n-1] != nil && r.Intn(100) < pj {
				joined[n-1] = append(append([]byte(nil), joined[n-1]...), it...)
			} else {
				joined = append(joined, it)
			}
		}
		items = joined
	}
	if r.Intn(5) == 0 {
		items = append(items, nil) // expiry after the last byte
	}
	if r.Intn(12) == 0 && !kf {
		// the stream ends in the middle of a frame
		f := rxFrame{stream: fresh(), op: 0x08, body: r.Bytes(5 + r.Intn(30))}
		enc := f.encode(proto)
		items = append(items, enc[:1+r.Intn(len(enc)-1)])
		kinds["truncated"] = true
	}
	opw := "rx"
	switch {
	case kf:
		opw = "rxk"
	case kinds["reserved-stream"] || kinds["compressed-flag"] || kinds["truncated"]:
		// outside the hypotheses of C01_rx_sync (frames a server must not send / an incomplete
		// stream): model-vs-code only
		opw = "rxo"
	}
	class = opw
	for _, k := range []string{"kf-tail-is-a-frame", "kf-tail-bad-version", "reserved-stream", "truncated", "compressed-flag", "event", "gone", "unknown-id", "second-frame-for-id"} {
		if kinds[k] {
			class += "/" + k
			break
		}
	}
	return fmt.Sprintf("%s %d %d %s %s%s", opw, proto, dl, idList(waiting), idList(gone), itemsText(items)), class
}

func GenRd(r *vh.Rng) (string, string) {
	k := r.Intn(60)
	if r.Intn(6) == 0 {
		k = 4000 + r.Intn(300)
	}
	n := r.Intn(k + 20)
	if r.Intn(3) == 0 {
		n = k + r.Intn(10)
	}
	b := r.Bytes(n)
	var pos []int
	if n > 0 && r.Intn(4) != 0 {
		pos = sortedPositions(r, r.Intn(9), 0, n)
	}
	dl := 1
	if r.Intn(6) == 0 {
		dl = 0
	}
	// expiries before the k-th byte
	before := 0
	for _, p := range pos {
		if p < k {
			before++
		}
	}
	// rd: enough bytes and fewer than five expiries before the k-th byte (or no deadline): theorem
	// C01_rx_read_ok says the answer is exactly the next k bytes; rdo: the other cases, model = code as it is
	opw, cls := "rd", "rd/exact"
	if n < k || (dl == 1 && before >= 5) {
		opw = "rdo"
		cls = "rdo/" + map[bool]string{true: "short-stream", false: "gives-up"}[n < k]
	}
	return fmt.Sprintf("%s %d %d%s", opw, dl, k, itemsText(rxItems(r, b, pos))), cls
}

func parseRxItems(ws []string) ([][]byte, error) {
	var items [][]byte
	for _, w := range ws {
		if w == "T" {
			items = append(items, nil)
			continue
		}
		b, err := vh.UnHex(w)
		if err != nil {
			return nil, err
		}
		items = append(items, b)
	}
	return items, nil
}

func parseIDs(w string) ([]int, error) {
	if w == "-" {
		return nil, nil
	}
	var out []int
	for _, x := range strings.Split(w, ",") {
		v, err := strconv.Atoi(x)
		if err != nil {
			return nil, err
		}
		out = append(out, v)
	}
	return out, nil
}

var rxHung bool

// RunRx executes one rx / rxk / rd op line on the real code.
func RunRx(line string) (ans string) {
	if rxHung {
		return "skipped-after-hang"
	}
	defer func() {
		if strings.HasPrefix(ans, "crash:hang") {
			rxHung = true // the receive loop was found blocked (15 s watchdog, dump in gocql.VerifLastHangDump)
		}
	}()
	defer func() {
		if e := recover(); e != nil {
			ans = fmt.Sprintf("crash:%v", e)
		}
	}()
	w := strings.Fields(line)
	switch {
	case len(w) >= 5 && (w[0] == "rx" || w[0] == "rxk" || w[0] == "rxo"):
		proto, e1 := strconv.Atoi(w[1])
		dl, e2 := strconv.Atoi(w[2])
		waiting, e3 := parseIDs(w[3])
		gone, e4 := parseIDs(w[4])
		items, e5 := parseRxItems(w[5:])
		if e1 != nil || e2 != nil || e3 != nil || e4 != nil || e5 != nil {
			return "bad-op"
		}
		return gocql.VerifRecvScript(proto, dl != 0, items, waiting, gone)
	case len(w) >= 3 && (w[0] == "rd" || w[0] == "rdo"):
		dl, e1 := strconv.Atoi(w[1])
		k, e2 := strconv.Atoi(w[2])
		items, e3 := parseRxItems(w[3:])
		if e1 != nil || e2 != nil || e3 != nil {
			return "bad-op"
		}
		return gocql.VerifConnReadScript(dl != 0, items, k)
	}
	return "bad-op"
}
