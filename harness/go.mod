module verifharness

go 1.13

require github.com/gocql/gocql v0.0.0

replace github.com/gocql/gocql => /repo
