module verifharness

go 1.13

require (
	github.com/gocql/gocql v0.0.0
	github.com/gocql/gocql/lz4 v0.0.0
	github.com/golang/snappy v0.0.3
	github.com/pierrec/lz4/v4 v4.1.8
	gopkg.in/inf.v0 v0.9.1
)

replace github.com/gocql/gocql => /repo

replace github.com/gocql/gocql/lz4 => /repo/lz4
