// Op rkq: CONCURRENT first uses of one statement in the routing-key info cache, as a CONDUCTED schedule. The server's
// answer to PREPARE is held back (gocql.VerifC09PendingPrepare: the prepared-statement cache entry is in flight), so the
// first goroutine that asks for the routing key becomes the owner of the inflight cache entry and blocks in
// Conn.prepareStatement, later goroutines block in inflight.wg.Wait; the harness starts goroutine after goroutine (each
// runs the real Query.GetRoutingKey with its own values until it returns or blocks - observed through runtime.Stack),
// then lets the answer arrive (ok) or the PREPARE fail (fail). After every event: which goroutines returned, with what.
package main

import (
	"fmt"
	"runtime"
	"sort"
	"strconv"
	"strings"
	"time"

	"github.com/gocql/gocql"
	"verifharness/valgen"
	"verifharness/vh"
)

type rqEvent struct {
	kind string // go | ok | fail
	g    int
	vals []*valgen.Val
}

type rqCase struct {
	proto byte
	st    *rcStmt
	evs   []rqEvent
}

func (c *rqCase) op() string {
	var sb strings.Builder
	fmt.Fprintf(&sb, "rkq %d", c.proto)
	c.st.desc(&sb)
	for _, e := range c.evs {
		sb.WriteString(" / " + e.kind)
		if e.kind == "go" {
			fmt.Fprintf(&sb, " %d %d", e.g, len(e.vals))
			for _, v := range e.vals {
				sb.WriteString(" | " + v.String())
			}
		}
	}
	return sb.String()
}

func parseRkq(w []string) *rqCase {
	p := &rcParser{w: w, i: 1}
	c := &rqCase{}
	c.proto = byte(p.num())
	c.st = p.stmt()
	for p.more() {
		if p.next() != "/" {
			panic("bad-op: expected /")
		}
		e := rqEvent{kind: p.next()}
		switch e.kind {
		case "ok", "fail":
		case "go":
			e.g = p.num()
			n := p.num()
			for i := 0; i < n; i++ {
				sg := p.seg()
				tw := []string{"int"}
				if i < len(c.st.cols) {
					tw = strings.Fields(c.st.cols[i].ty.String())
				}
				_, _, v := valgen.ParseTV(append(append([]string{strconv.Itoa(int(c.proto))}, tw...), sg...))
				e.vals = append(e.vals, v)
			}
		default:
			panic("bad-op: event")
		}
		c.evs = append(c.evs, e)
	}
	return c
}

// blockedInRoutingKeyInfo: the goroutines that are inside Session.routingKeyInfo and not running / runnable
func blockedInRoutingKeyInfo() int {
	buf := make([]byte, 1<<20)
	buf = buf[:runtime.Stack(buf, true)]
	n := 0
	for _, g := range strings.Split(string(buf), "\n\n") {
		if !strings.Contains(g, "(*Session).routingKeyInfo") {
			continue
		}
		head := g
		if i := strings.IndexByte(g, '\n'); i >= 0 {
			head = g[:i]
		}
		if strings.Contains(head, "[running]") || strings.Contains(head, "[runnable]") {
			continue
		}
		n++
	}
	return n
}

type rqResult struct {
	g   int
	ans string
}

func (c *rqCase) run() string {
	stmt := rcStmtText(0)
	rc := &rcCase{proto: c.proto}
	body := c.st.preparedBody(c.proto, 0)
	s, err := gocql.VerifC09RoutingSession(c.proto, stmt, body, rc.schema([]*rcStmt{c.st}))
	if err != nil {
		return "bad-op:" + err.Error()
	}
	release, err := gocql.VerifC09PendingPrepare(s, c.proto, stmt, body)
	if err != nil {
		return "bad-op:" + err.Error()
	}
	results := make(chan rqResult, 64)
	blocked := 0
	outs := make([]string, len(c.evs))
	show := func(rs []rqResult) string {
		if len(rs) == 0 {
			return "-"
		}
		sort.Slice(rs, func(i, j int) bool { return rs[i].g < rs[j].g })
		parts := make([]string, len(rs))
		for i, r := range rs {
			parts[i] = fmt.Sprintf("g%d=%s", r.g, r.ans)
		}
		return strings.Join(parts, " , ")
	}
	for ei, e := range c.evs {
		var got []rqResult
		switch e.kind {
		case "go":
			vals := make([]interface{}, len(e.vals))
			for i, v := range e.vals {
				vals[i] = v.Build()
			}
			go func(g int) {
				ans := func() (res string) {
					defer func() {
						if r := recover(); r != nil {
							res = "crash"
						}
					}()
					q := s.Query(stmt, vals...)
					k, err := q.GetRoutingKey()
					if err != nil {
						if strings.Contains(err.Error(), "PREPARE failed") {
							return "err:prepare"
						}
						return rcErr(err)
					}
					if k == nil {
						return "nil " + q.Keyspace() + "." + q.Table()
					}
					return "ok " + valgen.HexC(k) + " " + q.Keyspace() + "." + q.Table()
				}()
				results <- rqResult{g, ans}
			}(e.g)
			// until the goroutine has returned or is blocked
			deadline := time.Now().Add(5 * time.Second)
		wait:
			for {
				select {
				case r := <-results:
					got = append(got, r)
					break wait
				default:
				}
				if blockedInRoutingKeyInfo() == blocked+1 {
					blocked++
					break wait
				}
				if time.Now().After(deadline) {
					got = append(got, rqResult{e.g, "stuck"})
					break wait
				}
				time.Sleep(20 * time.Microsecond)
			}
		case "ok", "fail":
			if blocked == 0 {
				break // nobody waits for an answer
			}
			release(e.kind == "ok")
			for ; blocked > 0; blocked-- {
				select {
				case r := <-results:
					got = append(got, r)
				case <-time.After(5 * time.Second):
					got = append(got, rqResult{-1, "stuck"})
				}
			}
			if e.kind == "fail" {
				// the statement is not prepared: the next use waits for the server again
				if release, err = gocql.VerifC09PendingPrepare(s, c.proto, stmt, body); err != nil {
					return "bad-op:" + err.Error()
				}
			}
		}
		outs[ei] = show(got)
	}
	if blocked > 0 { // do not leave goroutines behind
		release(true)
		for ; blocked > 0; blocked-- {
			select {
			case <-results:
			case <-time.After(5 * time.Second):
			}
		}
	}
	return strings.Join(outs, " ; ")
}

func genRkq(r *vh.Rng, g *valgen.Gen) (c *rqCase, class string) {
	c = &rqCase{}
	c.proto = []byte{2, 3, 4, 4, 4, 5}[r.Intn(6)]
	c.st = genRcStmt(r, c.proto, nil)
	n := 3 + r.Intn(7)
	gid := 0
	pending := 0
	ev := map[string]bool{}
	for len(c.evs) < n {
		x := r.Intn(100)
		switch {
		case x < 62 || (pending == 0 && x < 85):
			gid++
			c.evs = append(c.evs, rqEvent{kind: "go", g: gid, vals: genRcVals(r, g, c.proto, c.st)})
			pending++ // (a goroutine that returns at once is not pending: only a class label is derived from this)
			if pending > 1 {
				ev["waiters"] = true
			}
		case x < 85:
			c.evs = append(c.evs, rqEvent{kind: "ok"})
			pending = 0
			ev["ok"] = true
		default:
			c.evs = append(c.evs, rqEvent{kind: "fail"})
			pending = 0
			ev["fail"] = true
		}
	}
	class = "rkq/" + c.st.outcome
	for _, e := range []string{"waiters", "ok", "fail"} {
		if ev[e] {
			class += "/" + e
		}
	}
	return
}
