// Ops rkn / rknx: NAME / INDEX RESOLUTION of the real Session.routingKeyInfo — which bind marker carries which
// partition-key column — with column, table and keyspace names of any spelling (case variants, quoted identifiers,
// prefixes / suffixes of each other, Unicode case-fold relatives), duplicate markers, markers of non-key columns
// before / after / between the key markers, unbound key columns, and a schema cache that holds several keyspaces and
// several tables per keyspace whose names differ from the statement's only in spelling. Names travel as hex in the
// op line: the model compares their BYTES.
package main

import (
	"fmt"
	"strconv"
	"strings"

	"github.com/gocql/gocql"
	"verifharness/valgen"
	"verifharness/vh"
)

type rnTable struct {
	name string
	rows []schRow // schRow.name = the raw column name
}

type rnKeyspace struct {
	name   string
	style  int // 1: Cassandra 3.x+ schema rows; 2: 2.x
	tables []rnTable
}

type rnCase struct {
	pl *placement // where the []byte / string values lie in memory (placed.go); nil: as built
	proto   byte
	kind    string // q | b
	ks, tbl string // global table spec of the PREPARE answer
	pk      []int  // partition-key bind indexes of the PREPARE answer (protocol >= 4)
	cache   []rnKeyspace
	cols    []rkCol // bind markers: raw column name, type
	rows    [][]*valgen.Val
}

func hx(s string) string { return vh.Hex([]byte(s)) }

func (c *rnCase) preparedBody() []byte {
	w := &wr{}
	w.int32(4) // kind: prepared
	w.short(2) // id
	w.b = append(w.b, 0xc0, 0x9d)
	w.int32(1) // global table spec
	w.int32(len(c.cols))
	if c.proto >= 4 {
		w.int32(len(c.pk))
		for _, i := range c.pk {
			w.short(i)
		}
	}
	w.str(c.ks)
	w.str(c.tbl)
	for _, col := range c.cols {
		w.str(col.name)
		w.ty(col.ty)
	}
	if c.proto >= 2 { // result metadata: no metadata, no columns
		w.int32(4)
		w.int32(0)
	}
	return w.b
}

// Op line: <op> <proto> <q|b> <ksHex> <tblHex> <npk> <idx>… <nks> {<ksHex> <style> <ntables> {<tblHex> <m> <nameHex:kind:pos>…}…}…
//
//	<ncols> {| <nameHex> <T…>}… | <nrows> <nvals>… {| <V…>}…
func (c *rnCase) op(name string) string {
	var sb strings.Builder
	fmt.Fprintf(&sb, "%s %d %s %s %s %d", name, c.proto, c.kind, hx(c.ks), hx(c.tbl), len(c.pk))
	for _, i := range c.pk {
		fmt.Fprintf(&sb, " %d", i)
	}
	fmt.Fprintf(&sb, " %d", len(c.cache))
	for _, k := range c.cache {
		fmt.Fprintf(&sb, " %s %d %d", hx(k.name), k.style, len(k.tables))
		for _, t := range k.tables {
			fmt.Fprintf(&sb, " %s %d", hx(t.name), len(t.rows))
			for _, r := range t.rows {
				fmt.Fprintf(&sb, " %s:%s:%d", hx(r.name), r.kind, r.pos)
			}
		}
	}
	fmt.Fprintf(&sb, " %d", len(c.cols))
	for _, col := range c.cols {
		sb.WriteString(" | " + hx(col.name) + " " + col.ty.String())
	}
	fmt.Fprintf(&sb, " | %d", len(c.rows))
	for _, row := range c.rows {
		fmt.Fprintf(&sb, " %d", len(row))
	}
	for _, row := range c.rows {
		for _, v := range row {
			sb.WriteString(" | " + v.String())
		}
	}
	return sb.String()
}

func parseRkn(w []string) *rnCase {
	i := 1
	next := func() string {
		if i >= len(w) {
			panic("bad-op: out of tokens")
		}
		s := w[i]
		i++
		return s
	}
	atoi := func(s string) int {
		n, err := strconv.Atoi(s)
		if err != nil || n < 0 || n > 1<<16 {
			panic("bad-op: number")
		}
		return n
	}
	num := func() int { return atoi(next()) }
	unhex := func(s string) string {
		b, err := vh.UnHex(s)
		if err != nil {
			panic("bad-op: hex")
		}
		return string(b)
	}
	seg := func() []string {
		if next() != "|" {
			panic("bad-op: expected |")
		}
		j := i
		for j < len(w) && w[j] != "|" {
			j++
		}
		s := w[i:j]
		i = j
		return s
	}
	c := &rnCase{}
	c.proto = byte(num())
	c.kind = next()
	c.ks = unhex(next())
	c.tbl = unhex(next())
	npk := num()
	for k := 0; k < npk; k++ {
		c.pk = append(c.pk, num())
	}
	nks := num()
	for k := 0; k < nks; k++ {
		ksp := rnKeyspace{name: unhex(next()), style: num()}
		nt := num()
		for t := 0; t < nt; t++ {
			tb := rnTable{name: unhex(next())}
			m := num()
			for x := 0; x < m; x++ {
				f := strings.Split(next(), ":")
				if len(f) != 3 {
					panic("bad-op: schema row")
				}
				pos := atoi(f[2])
				if pos > 1<<12 {
					panic("bad-op: schema row")
				}
				tb.rows = append(tb.rows, schRow{unhex(f[0]), f[1], pos})
			}
			ksp.tables = append(ksp.tables, tb)
		}
		c.cache = append(c.cache, ksp)
	}
	ncols := num()
	for k := 0; k < ncols; k++ {
		s := seg()
		if len(s) < 2 {
			panic("bad-op: column")
		}
		_, t, _ := valgen.ParseTV(append(append([]string{"4"}, s[1:]...), "nil"))
		c.cols = append(c.cols, rkCol{unhex(s[0]), t})
	}
	cnt := seg()
	if len(cnt) < 1 {
		panic("bad-op: rows")
	}
	nrows := atoi(cnt[0])
	if len(cnt) != 1+nrows {
		panic("bad-op: rows")
	}
	for r := 0; r < nrows; r++ {
		var row []*valgen.Val
		for k := 0; k < atoi(cnt[1+r]); k++ {
			s := seg()
			tw := []string{"int"}
			if k < ncols {
				tw = strings.Fields(c.cols[k].ty.String())
			}
			_, _, v := valgen.ParseTV(append(append([]string{strconv.Itoa(int(c.proto))}, tw...), s...))
			row = append(row, v)
		}
		c.rows = append(c.rows, row)
	}
	if i != len(w) {
		panic("bad-op: trailing tokens")
	}
	return c
}

const rnStmt = "UPDATE verif SET verif = ? WHERE verif = ?"

func (c *rnCase) run() string {
	s, err := gocql.VerifC09RoutingSession(c.proto, rnStmt, c.preparedBody(), nil)
	if err != nil {
		return "bad-op:" + err.Error()
	}
	for _, k := range c.cache {
		schema := &gocql.VerifC09Schema{Keyspace: k.name, Rows: map[string][]gocql.VerifC09ColumnRow{}, Cass2: k.style == 2}
		for _, t := range k.tables {
			rows := []gocql.VerifC09ColumnRow{}
			for _, r := range t.rows {
				rows = append(rows, gocql.VerifC09ColumnRow{Name: r.name, Kind: r.kind, Position: r.pos})
			}
			schema.Rows[t.name] = rows
		}
		gocql.VerifC09AddKeyspace(s, c.proto, schema)
	}
	outs := make([]string, len(c.rows))
	for ri, row := range c.rows {
		outs[ri] = func() (res string) {
			defer func() {
				if r := recover(); r != nil {
					res = "crash"
				}
			}()
			vals := make([]interface{}, len(row))
			for i, v := range row {
				vals[i] = c.pl.value(i+1, v.Build())
			}
			if c.kind == "q" {
				k, ks, tbl, ec := queryKey(s, rnStmt, vals)
				switch {
				case ec != "":
					return "err:" + ec
				case k == nil:
					return "nil " + hx(ks) + "." + hx(tbl)
				}
				return "ok " + valgen.HexC(k) + " " + hx(ks) + "." + hx(tbl)
			}
			k, ec := batchKey(s, rnStmt, vals, "", nil)
			switch {
			case ec != "":
				return "err:" + ec
			case k == nil:
				return "nil"
			}
			return "ok " + valgen.HexC(k)
		}()
	}
	return strings.Join(outs, " ; ")
}

// ---- generation ----

// spellings: names a careless comparison (case folding, trimming, quote stripping, prefix matching, Unicode
// normalisation) would confuse with `stem` — all different byte strings
func spellings(stem string) []string {
	swap := func(s string) string { // flip the case of the first letter
		for i, ch := range s {
			u, l := strings.ToUpper(string(ch)), strings.ToLower(string(ch))
			if u != l {
				if string(ch) == u {
					return s[:i] + l + s[i+len(string(ch)):]
				}
				return s[:i] + u + s[i+len(string(ch)):]
			}
		}
		return s + "x"
	}
	last := func(s string) string { // flip the case of the last letter
		rs := []rune(s)
		for i := len(rs) - 1; i >= 0; i-- {
			u, l := strings.ToUpper(string(rs[i])), strings.ToLower(string(rs[i]))
			if u != l {
				if string(rs[i]) == u {
					return string(rs[:i]) + l + string(rs[i+1:])
				}
				return string(rs[:i]) + u + string(rs[i+1:])
			}
		}
		return s + "y"
	}
	out := []string{stem, strings.ToUpper(stem), strings.ToLower(stem), swap(stem), last(stem), swap(last(stem)),
		stem + "1", stem + "_", "_" + stem, stem + stem, `"` + stem + `"`, stem + " ", " " + stem, stem + "\x00",
		// Unicode simple case folding relatives: Kelvin sign ~ k, long s ~ s; dotless i upper-cases to I
		strings.NewReplacer("k", "\u212a", "K", "\u212a").Replace(stem),
		strings.NewReplacer("s", "\u017f", "S", "\u017f").Replace(stem),
		strings.NewReplacer("i", "\u0131", "I", "\u0130").Replace(stem),
		// precomposed accent (NFC) vs combining accent (NFD)
		strings.NewReplacer("e", "\u00e9", "E", "\u00c9").Replace(stem),
		strings.NewReplacer("e", "e\u0301", "E", "E\u0301").Replace(stem),
	}
	if len(stem) > 1 {
		out = append(out, stem[:len(stem)-1], stem[1:])
	}
	seen := map[string]bool{}
	var res []string
	for _, s := range out {
		if !seen[s] {
			seen[s] = true
			res = append(res, s)
		}
	}
	return res
}

var colStems = []string{"id", "k", "pk", "key", "user_id", "Name", "ts", "bucket", "KeySpace", "e"}
var ksStems = []string{"ks", "app", "Metrics", "k", "system_x"}
var tblStems = []string{"tbl", "events", "Users", "t", "by_key"}

func shuffled(r *vh.Rng, l []string) []string {
	out := make([]string, len(l))
	for i, j := range perm(r, len(l)) {
		out[i] = l[j]
	}
	return out
}

func eqStrings(a, b []string) bool {
	if len(a) != len(b) {
		return false
	}
	for i := range a {
		if a[i] != b[i] {
			return false
		}
	}
	return true
}

// pkRows: the rows of the schema's columns table for a table with partition key pk (+ some other columns), in an
// arbitrary arrival order
func pkRows(r *vh.Rng, pk []string, others []string) []schRow {
	var rows []schRow
	for k, n := range pk {
		rows = append(rows, schRow{n, "p", k})
	}
	nc := 0
	for _, n := range others {
		switch r.Intn(3) {
		case 0:
			rows = append(rows, schRow{n, "c", nc})
			nc++
		case 1:
			rows = append(rows, schRow{n, "r", 0})
		}
	}
	out := make([]schRow, len(rows))
	for i, j := range perm(r, len(rows)) {
		out[i] = rows[j]
	}
	return out
}

// genRkn: one statement + schema cache + 1..2 rows of bound values. Returns the case, whether its expected outcome is
// covered by the theorems (op rkn; otherwise rknx) and a distribution class.
func genRkn(r *vh.Rng, g *valgen.Gen) (c *rnCase, specBacked bool, class string) {
	c = &rnCase{}
	c.proto = []byte{2, 3, 3, 3, 3, 4, 4, 4, 5}[r.Intn(9)]
	c.kind = []string{"q", "q", "q", "b"}[r.Intn(4)]

	// the table: 2..8 columns whose names are spellings of one or two stems; 1..4 of them are the partition key
	pool := spellings(colStems[r.Intn(len(colStems))])
	if r.Intn(3) == 0 {
		for _, s := range spellings(colStems[r.Intn(len(colStems))]) {
			dupl := false
			for _, p := range pool {
				dupl = dupl || p == s
			}
			if !dupl {
				pool = append(pool, s)
			}
		}
	}
	pool = shuffled(r, pool)
	ncols := 2 + r.Intn(7)
	if ncols > len(pool) {
		ncols = len(pool)
	}
	names := pool[:ncols]
	spare := pool[ncols:] // spellings that are NOT columns of the table
	npk := 1 + r.Intn(4)
	if npk > ncols {
		npk = ncols
	}
	keyOrder := perm(r, ncols)[:npk] // column indexes in partition-key order
	keyPos := map[int]int{}
	for k, ci := range keyOrder {
		keyPos[ci] = k
	}
	tys := make([]*valgen.Ty, ncols)
	for i := range tys {
		tys[i] = &valgen.Ty{Name: pkScalars[r.Intn(len(pkScalars))]}
		if _, key := keyPos[i]; !key && r.Intn(6) == 0 {
			tys[i] = g.Ty(1)
		}
	}

	// the bind markers (column indexes): the key columns, some other columns, some columns twice, in any order
	missing := -1
	if r.Intn(8) == 0 {
		missing = keyOrder[r.Intn(npk)]
	}
	var marks []int
	for _, ci := range keyOrder {
		if ci != missing {
			marks = append(marks, ci)
		}
	}
	for ci := 0; ci < ncols; ci++ {
		if _, key := keyPos[ci]; !key && r.Bool() {
			marks = append(marks, ci)
		}
	}
	dup := false
	for len(marks) > 0 && len(marks) < 8 && r.Intn(4) == 0 {
		marks = append(marks, marks[r.Intn(len(marks))])
		dup = true
	}
	if len(marks) == 0 {
		for ci := 0; ci < ncols; ci++ {
			if ci != missing {
				marks = append(marks, ci)
				break
			}
		}
	}
	if len(marks) > 8 {
		marks = marks[:8]
	}
	{
		sh := make([]int, len(marks))
		for i, j := range perm(r, len(marks)) {
			sh[i] = marks[j]
		}
		marks = sh
	}
	// truncation may have dropped a key column
	bound := map[int]bool{}
	for _, ci := range marks {
		bound[ci] = true
	}
	unbound := false
	for _, ci := range keyOrder {
		unbound = unbound || !bound[ci]
	}
	for _, ci := range marks {
		c.cols = append(c.cols, rkCol{names[ci], tys[ci]})
	}
	// a marker of something that is not a column of the table at all (a spelling of a key column)
	if len(spare) > 0 && r.Intn(5) == 0 {
		at := r.Intn(len(c.cols) + 1)
		extra := rkCol{spare[r.Intn(len(spare))], &valgen.Ty{Name: pkScalars[r.Intn(len(pkScalars))]}}
		if len(c.cols) < 8 {
			c.cols = append(c.cols[:at:at], append([]rkCol{extra}, c.cols[at:]...)...)
			marks = append(marks[:at:at], append([]int{-1}, marks[at:]...)...)
		}
	}

	// the statement's keyspace / table and the schema cache: the keyspace and the table under their exact names, and
	// others whose names are other spellings, with OTHER partition keys
	ksSp := shuffled(r, spellings(ksStems[r.Intn(len(ksStems))]))
	tbSp := shuffled(r, spellings(tblStems[r.Intn(len(tblStems))]))
	c.ks, c.tbl = ksSp[0], tbSp[0]
	var pkNames []string
	for _, ci := range keyOrder {
		pkNames = append(pkNames, names[ci])
	}
	decoyPK := func() []string {
		for try := 0; ; try++ {
			all := shuffled(r, pool)
			n := 1 + r.Intn(4)
			if n > len(all) {
				n = len(all)
			}
			var d []string
			switch r.Intn(3) {
			case 0: // the same key columns in another order / another number of them
				d = shuffled(r, pkNames)
				if r.Bool() && len(d) > 1 {
					d = d[:len(d)-1]
				}
			default:
				d = all[:n]
			}
			if !eqStrings(d, pkNames) || try > 6 {
				return d
			}
		}
	}
	var others []string
	for ci, n := range names {
		if _, key := keyPos[ci]; !key {
			others = append(others, n)
		}
	}
	tablePresent := r.Intn(12) != 0
	var home rnKeyspace
	home.name, home.style = c.ks, 1+r.Intn(2)
	if tablePresent {
		home.tables = append(home.tables, rnTable{c.tbl, pkRows(r, pkNames, others)})
	}
	tbv := r.Intn(3)
	if !tablePresent && tbv == 0 {
		tbv = 1
	}
	for k := 1; k <= tbv && k < len(tbSp); k++ {
		home.tables = append(home.tables, rnTable{tbSp[k], pkRows(r, decoyPK(), nil)})
	}
	{
		sh := make([]rnTable, len(home.tables))
		for i, j := range perm(r, len(home.tables)) {
			sh[i] = home.tables[j]
		}
		home.tables = sh
	}
	c.cache = []rnKeyspace{home}
	ksv := r.Intn(3)
	for k := 1; k <= ksv && k < len(ksSp); k++ {
		other := rnKeyspace{name: ksSp[k], style: 1 + r.Intn(2)}
		// the same table name (and perhaps another spelling) with another partition key
		other.tables = append(other.tables, rnTable{c.tbl, pkRows(r, decoyPK(), nil)})
		if r.Bool() && len(tbSp) > 1 {
			other.tables = append(other.tables, rnTable{tbSp[1+r.Intn(len(tbSp)-1)], pkRows(r, decoyPK(), nil)})
		}
		c.cache = append(c.cache, other)
	}
	{
		sh := make([]rnKeyspace, len(c.cache))
		for i, j := range perm(r, len(c.cache)) {
			sh[i] = c.cache[j]
		}
		c.cache = sh
	}

	// the partition-key bind indexes of the PREPARE answer (protocol >= 4): for each key column ONE of its markers
	path := "schema"
	if c.proto >= 4 && r.Intn(4) != 0 && !unbound {
		path = "pkidx"
		for _, ci := range keyOrder {
			var at []int
			for mi, m := range marks {
				if m == ci {
					at = append(at, mi)
				}
			}
			c.pk = append(c.pk, at[r.Intn(len(at))])
		}
	}

	// the key markers the specification names: the given indexes / the FIRST marker with exactly the column's name
	var keyMarkers []int
	fold := false
	if path == "pkidx" {
		keyMarkers = c.pk
	} else if !unbound {
		for _, n := range pkNames {
			for mi := range c.cols {
				if c.cols[mi].name == n {
					keyMarkers = append(keyMarkers, mi)
					break
				}
				if strings.EqualFold(c.cols[mi].name, n) {
					fold = true // an earlier marker whose name differs from the key column's only in case
				}
			}
		}
	}
	isKeyMarker := map[int]bool{}
	for _, mi := range keyMarkers {
		isKeyMarker[mi] = true
	}

	nrows := 1 + r.Intn(2)
	for ri := 0; ri < nrows; ri++ {
		row := make([]*valgen.Val, len(c.cols))
		for i := range row {
			switch {
			case isKeyMarker[i] && r.Intn(60) == 0:
				row[i] = &valgen.Val{Tag: []string{"nil", "nilptr"}[r.Intn(2)]}
			case isKeyMarker[i] && r.Intn(12) != 0:
				for try := 0; try < 8; try++ {
					row[i] = genVal(g, c.proto, c.cols[i].ty)
					if _, st := valgen.Marshal(c.proto, c.cols[i].ty, row[i]); st == "ok" {
						break
					}
				}
			default:
				row[i] = genVal(g, c.proto, c.cols[i].ty)
			}
		}
		c.rows = append(c.rows, row)
	}

	specBacked = true
	out := "key"
	switch {
	case path == "schema" && !tablePresent:
		// ErrNoMetadata (theorem C09_routing_table_missing): no key is made up from a table of another spelling
		out = "nometa"
	case path == "schema" && unbound:
		out = "nokey"
	default:
		for _, row := range c.rows {
			for _, mi := range keyMarkers {
				if _, st := valgen.Marshal(c.proto, c.cols[mi].ty, row[mi]); st != "ok" {
					specBacked, out = false, "comp-"+st
				}
			}
		}
	}
	class = fmt.Sprintf("rkn/p%d/%s/npk%d/%s", c.proto, path, npk, out)
	if fold {
		class += "/fold"
	}
	if dup {
		class += "/dup"
	}
	if ksv > 0 || tbv > 0 {
		class += "/decoys"
	}
	return
}
