//go:build go1.20

// Placement of the byte-string / string arguments of an op IN MEMORY: the answers of every hashing /
// routing-key / token-string op must be a function of the argument's BYTES only, not of where they lie.
// An op line may end in a placement word
//
//	@<src><off>.<spare>.<fill>
//
// src   h  a sub-slice buf[o:o+n:o+n+spare] of a fresh heap buffer
//	      p  the same inside a pooled, reused buffer (sync.Pool; stale bytes of earlier ops around it)
//	      s  backed by an (immutable) Go string: a sub-string big[o:o+n]; byte arguments are the zero-copy
//	         view of that sub-string (what zero-copy conversions in applications hand to the driver)
//	      c  through a copying conversion: []byte(string(placed)) / string(placed bytes)
//	      x  like h, the argument STRADDLING a 4096-byte page boundary (the boundary falls into its middle block)
// off   address of the first byte modulo 16 for the FIRST argument; the argument at word index i (1, 2, …) gets (off + 5*(i-1)) mod 16
// spare capacity behind the argument (cap = len + spare); 16 more bytes of the buffer lie behind that
// fill  hex byte the buffer is filled with before and behind the argument
//
// The word is part of the op line, so a replay places the arguments in the same way.
package main

import (
	"fmt"
	"strconv"
	"strings"
	"sync"
	"unsafe"

	"verifharness/vh"
)

type placement struct {
	src        byte
	off, spare int
	fill       byte
	held       []*[]byte
}

var bufPool = sync.Pool{New: func() interface{} { b := make([]byte, 4096); return &b }}

func parsePl(w string) *placement {
	if len(w) < 3 || w[0] != '@' || !strings.ContainsRune("hpscx", rune(w[1])) {
		return nil
	}
	f := strings.Split(w[2:], ".")
	if len(f) != 3 {
		return nil
	}
	off, e1 := strconv.Atoi(f[0])
	spare, e2 := strconv.Atoi(f[1])
	fill, e3 := strconv.ParseUint(f[2], 16, 8)
	if e1 != nil || e2 != nil || e3 != nil || off < 0 || off > 15 || spare < 0 || spare > 4096 || len(f[2]) != 2 {
		return nil
	}
	return &placement{src: w[1], off: off, spare: spare, fill: byte(fill)}
}

func (p *placement) String() string {
	return fmt.Sprintf("@%c%d.%d.%02x", p.src, p.off, p.spare, p.fill)
}

func (p *placement) release() {
	if p == nil {
		return
	}
	for _, b := range p.held {
		bufPool.Put(b)
	}
	p.held = nil
}

// layout: a buffer of `need` bytes filled with p.fill, the key at index start with (address of buf[start]) % 16 == o
func (p *placement) buffer(i int, key []byte) (buf []byte, start int) {
	n := len(key)
	o := (p.off + 5*(i-1)) & 15
	need := 32 + n + p.spare + 16
	if p.src == 'p' {
		pb := bufPool.Get().(*[]byte)
		if len(*pb) < need {
			nb := make([]byte, need+4096)
			pb = &nb
		}
		p.held = append(p.held, pb)
		buf = (*pb)[:need]
	} else {
		buf = make([]byte, need)
	}
	base := uintptr(unsafe.Pointer(&buf[0]))
	start = 16 + int((uintptr(o)-base)&15)
	if p.src == 'x' {
		// address of the first byte = o modulo 16, and a page boundary inside the block in the middle of the key
		buf = make([]byte, need+8192)
		base = uintptr(unsafe.Pointer(&buf[0]))
		target := uintptr(4096+o) - uintptr((n/2)&^15) - 16
		start = int((target - base) & 4095)
		if start < 16 {
			start += 4096
		}
	}
	for k := range buf {
		buf[k] = p.fill
	}
	copy(buf[start:], key)
	return buf, start
}

func addrOK(ptr unsafe.Pointer, o int) bool { return int(uintptr(ptr)&15) == o }

// bytes places the byte-string argument at word index i.
func (p *placement) bytes(i int, key []byte) []byte {
	if p == nil {
		return key
	}
	n := len(key)
	o := (p.off + 5*(i-1)) & 15
	buf, start := p.buffer(i, key)
	switch p.src {
	case 's':
		s := p.strFrom(buf, start, n, o)
		if n == 0 {
			return []byte{}
		}
		return unsafe.Slice(unsafe.StringData(s), n)
	case 'c':
		return []byte(string(buf[start : start+n]))
	}
	res := buf[start : start+n : start+n+p.spare]
	if n > 0 && !addrOK(unsafe.Pointer(&res[0]), o) {
		panic("harness: placement failed")
	}
	return res
}

// strFrom: a sub-string, at offset o modulo 16, of a real Go string holding the buffer's bytes
func (p *placement) strFrom(buf []byte, start, n, o int) string {
	for try := 0; try < 4; try++ {
		big := string(buf)
		sub := big[start : start+n]
		if n == 0 || addrOK(unsafe.Pointer(unsafe.StringData(sub)), o) {
			return sub
		}
		// the string's allocation is aligned differently from the buffer's: shift the key inside the buffer
		d := (o - int(uintptr(unsafe.Pointer(unsafe.StringData(sub)))&15)) & 15
		nb := make([]byte, len(buf)+16)
		for k := range nb {
			nb[k] = p.fill
		}
		copy(nb[start+d:], buf[start:start+n])
		buf, start = nb, start+d
	}
	// never seen: fall back to a string header over the byte buffer (exact address)
	return unsafe.String(&buf[start], n)
}

// str places the string argument at word index i.
func (p *placement) str(i int, s string) string {
	if p == nil {
		return s
	}
	n := len(s)
	o := (p.off + 5*(i-1)) & 15
	buf, start := p.buffer(i, []byte(s))
	switch p.src {
	case 's':
		return p.strFrom(buf, start, n, o)
	case 'c':
		return string(buf[start : start+n])
	}
	if n == 0 {
		return ""
	}
	return unsafe.String(&buf[start], n)
}

// value places a bound value: a []byte / string lies at the placement's address, every other value is left alone
func (p *placement) value(i int, v interface{}) interface{} {
	if p == nil {
		return v
	}
	switch x := v.(type) {
	case []byte:
		if x == nil {
			return v
		}
		return p.bytes(i, x)
	case string:
		return p.str(i, x)
	}
	return v
}

var fills = []byte{0x00, 0xff, 0x80, 0x5a, 0x01, 0x7f}

// genPl: a placement word with the given offset (or a random one if off < 0)
func genPl(r *vh.Rng, off int) string {
	if off < 0 {
		off = r.Intn(16)
	}
	src := "hhhppscx"[r.Intn(8)]
	spare := []int{0, 0, 1, 3, 7, 8, 16, 40}[r.Intn(8)]
	return (&placement{src: src, off: off, spare: spare, fill: r.PickByte(fills)}).String()
}

func plClass(pl string) string {
	p := parsePl(pl)
	al := "misaligned"
	switch {
	case p.off == 0:
		al = "aligned16"
	case p.off == 8:
		al = "aligned8"
	case p.off%4 == 0:
		al = "aligned4"
	}
	return fmt.Sprintf("%c/%s", p.src, al)
}
