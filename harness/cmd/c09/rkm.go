// Ops rkm / rkmx: routing keys through the REAL Session.routingKeyInfo + Query/Batch.GetRoutingKey,
// with the statement's metadata coming from a RESULT/PREPARED frame body (parsed by the real framer)
// in the session's prepared-statement cache; ops ringsort: the real token ring order.
package main

import (
	"errors"
	"fmt"
	"math/big"
	"strconv"
	"strings"

	"github.com/gocql/gocql"
	"verifharness/valgen"
	"verifharness/vh"
)

// ---- RESULT/PREPARED body ----

type wr struct{ b []byte }

func (w *wr) short(v int)  { w.b = append(w.b, byte(v>>8), byte(v)) }
func (w *wr) int32(v int)  { w.b = append(w.b, byte(v>>24), byte(v>>16), byte(v>>8), byte(v)) }
func (w *wr) str(s string) { w.short(len(s)); w.b = append(w.b, s...) }

func (w *wr) ty(t *valgen.Ty) {
	switch t.Name {
	case "list":
		w.short(0x20)
		w.ty(t.Elems[0])
	case "set":
		w.short(0x22)
		w.ty(t.Elems[0])
	case "map":
		w.short(0x21)
		w.ty(t.Elems[0])
		w.ty(t.Elems[1])
	case "tuple":
		w.short(0x31)
		w.short(len(t.Elems))
		for _, e := range t.Elems {
			w.ty(e)
		}
	case "udt":
		w.short(0x30)
		w.str("ks")
		w.str("u")
		w.short(len(t.Elems))
		for i, e := range t.Elems {
			w.str(t.Names[i])
			w.ty(e)
		}
	default:
		w.short(int(t.Info(4).Type()))
	}
}

type rkCol struct {
	name string
	ty   *valgen.Ty
}

// schRow: one row of system_schema.columns: kind p (partition key) / c (clustering) / r (regular), position
type schRow struct {
	name string
	kind string
	pos  int
}

type rkCase struct {
	pl *placement // where the []byte / string values lie in memory (placed.go); nil: as built
	proto   byte
	gs      bool   // global table spec in the PREPARE answer
	kind    string // q | b | bx
	pk      []int  // partition-key bind indexes of the PREPARE answer (sent under protocol >= 4 only)
	sch     int    // 0: the schema tables do not know the table; 1: Cassandra 3.x+ style rows; 2: 2.x style rows
	schRows []schRow // the rows of the schema's columns table for the table, in the order the server returned them
	cols    []rkCol
	rows    [][]*valgen.Val
	stmtTag string
}

func (c *rkCase) preparedBody() []byte {
	w := &wr{}
	w.int32(4) // kind: prepared
	w.short(2) // id
	w.b = append(w.b, 0xc0, 0x9c)
	flags := 0
	if c.gs {
		flags = 1
	}
	w.int32(flags)
	w.int32(len(c.cols))
	if c.proto >= 4 {
		w.int32(len(c.pk))
		for _, i := range c.pk {
			w.short(i)
		}
	}
	if c.gs {
		w.str("ks")
		w.str("tbl")
	}
	for _, col := range c.cols {
		if !c.gs {
			w.str("ks")
			w.str("tbl")
		}
		w.str(col.name)
		w.ty(col.ty)
	}
	if c.proto >= 2 { // result metadata: no metadata, no columns
		w.int32(4)
		w.int32(0)
	}
	return w.b
}

func (c *rkCase) op(name string) string {
	var sb strings.Builder
	b2 := func(b bool) string {
		if b {
			return "1"
		}
		return "0"
	}
	fmt.Fprintf(&sb, "%s %d %s %s %d", name, c.proto, b2(c.gs), c.kind, len(c.pk))
	for _, i := range c.pk {
		fmt.Fprintf(&sb, " %d", i)
	}
	fmt.Fprintf(&sb, " %d %d", c.sch, len(c.schRows))
	for _, r := range c.schRows {
		fmt.Fprintf(&sb, " %s:%s:%d", r.name, r.kind, r.pos)
	}
	fmt.Fprintf(&sb, " %d", len(c.cols))
	for _, col := range c.cols {
		sb.WriteString(" | " + col.name + " " + col.ty.String())
	}
	fmt.Fprintf(&sb, " | %d", len(c.rows))
	for _, row := range c.rows {
		fmt.Fprintf(&sb, " %d", len(row))
	}
	for _, row := range c.rows {
		for _, v := range row {
			sb.WriteString(" | " + v.String())
		}
	}
	return sb.String()
}

func parseRkm(w []string) *rkCase {
	i := 1
	next := func() string {
		if i >= len(w) {
			panic("bad-op: out of tokens")
		}
		s := w[i]
		i++
		return s
	}
	num := func() int {
		n, err := strconv.Atoi(next())
		if err != nil || n < 0 || n > 1<<16 {
			panic("bad-op: number")
		}
		return n
	}
	// a segment: the words up to the next "|" or up to `stop` words from the end marker
	seg := func() []string {
		if next() != "|" {
			panic("bad-op: expected |")
		}
		j := i
		for j < len(w) && w[j] != "|" {
			j++
		}
		s := w[i:j]
		i = j
		return s
	}
	c := &rkCase{}
	c.proto = byte(num())
	c.gs = next() == "1"
	c.kind = next()
	npk := num()
	for k := 0; k < npk; k++ {
		c.pk = append(c.pk, num())
	}
	c.sch = num()
	m := num()
	for k := 0; k < m; k++ {
		f := strings.Split(next(), ":")
		if len(f) != 3 {
			panic("bad-op: schema row")
		}
		pos, err := strconv.Atoi(f[2])
		if err != nil || pos < 0 || pos > 1<<12 {
			panic("bad-op: schema row")
		}
		c.schRows = append(c.schRows, schRow{f[0], f[1], pos})
	}
	ncols := num()
	for k := 0; k < ncols; k++ {
		s := seg()
		if len(s) < 2 {
			panic("bad-op: column")
		}
		_, t, _ := valgen.ParseTV(append(append([]string{"4"}, s[1:]...), "nil"))
		c.cols = append(c.cols, rkCol{s[0], t})
	}
	cnt := seg() // <nrows> <number of values of row 1> ...
	if len(cnt) < 1 {
		panic("bad-op: rows")
	}
	atoi := func(s string) int {
		n, err := strconv.Atoi(s)
		if err != nil || n < 0 || n > 1<<16 {
			panic("bad-op: number")
		}
		return n
	}
	nrows := atoi(cnt[0])
	if len(cnt) != 1+nrows {
		panic("bad-op: rows")
	}
	for r := 0; r < nrows; r++ {
		var row []*valgen.Val
		for k := 0; k < atoi(cnt[1+r]); k++ {
			s := seg()
			// a value bound to marker k is written for the type of marker k; a surplus value as an int column's
			tw := []string{"int"}
			if k < ncols {
				tw = strings.Fields(c.cols[k].ty.String())
			}
			_, _, v := valgen.ParseTV(append(append([]string{strconv.Itoa(int(c.proto))}, tw...), s...))
			row = append(row, v)
		}
		c.rows = append(c.rows, row)
	}
	if i != len(w) {
		panic("bad-op: trailing tokens")
	}
	return c
}

// queryKey / batchKey: a fresh Query / Batch of the public API; the error is classified here (ErrNoMetadata -> meta, a key
// marker without bound value -> values (KF-C09-1 repaired), anything else is what Marshal returned -> marshal)
func rkErrClass(err error) string {
	switch {
	case err == nil:
		return ""
	case errors.Is(err, gocql.ErrNoMetadata):
		return "meta"
	case strings.Contains(err.Error(), "has no bound value"):
		return "values"
	}
	return "marshal"
}

func queryKey(s *gocql.Session, stmt string, vals []interface{}) (key []byte, keyspace, table, errClass string) {
	q := s.Query(stmt, vals...)
	k, err := q.GetRoutingKey()
	if err != nil {
		return nil, "", "", rkErrClass(err)
	}
	return k, q.Keyspace(), q.Table(), ""
}

func batchKey(s *gocql.Session, stmt string, vals []interface{}, stmt2 string, vals2 []interface{}) (key []byte, errClass string) {
	b := s.NewBatch(gocql.LoggedBatch)
	b.Query(stmt, vals...)
	if stmt2 != "" {
		b.Query(stmt2, vals2...)
	}
	k, err := b.GetRoutingKey()
	if err != nil {
		return nil, rkErrClass(err)
	}
	return k, ""
}

const rkStmt = "UPDATE ks.tbl SET verif = ? WHERE verif = ?"

// the second entry of a `bx` batch: another prepared statement on another table, key = its only marker (int)
const rkStmt2 = "INSERT INTO ks.other (a) VALUES (?)"

func otherPreparedBody(proto byte) []byte {
	c := &rkCase{proto: proto, gs: true, pk: []int{0}, cols: []rkCol{{"k0", &valgen.Ty{Name: "int"}}}}
	return c.preparedBody()
}

func (c *rkCase) run() string {
	// the keyspace metadata is compiled by the real compileMetadata from the schema rows
	schema := &gocql.VerifC09Schema{Keyspace: "ks", Rows: map[string][]gocql.VerifC09ColumnRow{}, Cass2: c.sch == 2}
	if c.sch != 0 {
		rows := []gocql.VerifC09ColumnRow{}
		for _, r := range c.schRows {
			rows = append(rows, gocql.VerifC09ColumnRow{Name: r.name, Kind: r.kind, Position: r.pos})
		}
		schema.Rows["tbl"] = rows
	}
	s, err := gocql.VerifC09RoutingSession(c.proto, rkStmt, c.preparedBody(), schema)
	if err != nil {
		return "bad-op:" + err.Error()
	}
	if c.kind == "bx" {
		if err := gocql.VerifC09AddPrepared(s, c.proto, rkStmt2, otherPreparedBody(c.proto)); err != nil {
			return "bad-op:" + err.Error()
		}
	}
	outs := make([]string, len(c.rows))
	for ri, row := range c.rows {
		outs[ri] = func() (res string) {
			defer func() {
				if r := recover(); r != nil {
					res = "crash"
				}
			}()
			vals := make([]interface{}, len(row))
			for i, v := range row {
				vals[i] = c.pl.value(i+1, v.Build())
			}
			if c.kind == "q" {
				k, ks, tbl, ec := queryKey(s, rkStmt, vals)
				switch {
				case ec != "":
					return "err:" + ec
				case k == nil:
					return "nil " + ks + "." + tbl
				}
				return "ok " + valgen.HexC(k) + " " + ks + "." + tbl
			}
			stmt2, vals2 := "", []interface{}(nil)
			if c.kind == "bx" {
				stmt2, vals2 = rkStmt2, []interface{}{0x5eed0000 + ri}
			}
			k, ec := batchKey(s, rkStmt, vals, stmt2, vals2)
			switch {
			case ec != "":
				return "err:" + ec
			case k == nil:
				return "nil"
			}
			return "ok " + valgen.HexC(k)
		}()
	}
	return strings.Join(outs, " ; ")
}

// ---- generation ----

var pkScalars = []string{"int", "bigint", "text", "varchar", "blob", "uuid", "timeuuid", "timestamp", "boolean",
	"smallint", "tinyint", "ascii", "varint", "double", "float", "inet", "date", "time", "decimal"}

func genVal(g *valgen.Gen, proto byte, t *valgen.Ty) *valgen.Val {
	gt := g.GoType(t, 1)
	if gt.Name == "mset" && t.Name != "list" && t.Name != "set" {
		gt = &valgen.GT{Name: "slice", Elems: gt.Elems}
	}
	v := g.Value(t, gt)
	valgen.Normalize(proto, t, v)
	return v
}

func perm(r *vh.Rng, n int) []int {
	p := make([]int, n)
	for i := range p {
		p[i] = i
	}
	for i := n - 1; i > 0; i-- {
		j := r.Intn(i + 1)
		p[i], p[j] = p[j], p[i]
	}
	return p
}

// genRkm: one statement shape + 1..3 rows of bound values. Returns the case, whether its expected outcome is
// covered by the theorems (spec-backed op `rkm`; otherwise `rkmx`, model-vs-code) and a distribution class.
// Op line: <op> <proto> <gs> <q|b|bx> <npk> <idx>… <sch> <m> <name>… <ncols> {| <name> <T…>}… | <nrows> <nvals>… {| <V…>}…
func genRkm(r *vh.Rng, g *valgen.Gen) (c *rkCase, specBacked bool, class string) {
	c = &rkCase{}
	c.proto = []byte{1, 2, 3, 3, 3, 4, 4, 4, 4, 4, 5, 5}[r.Intn(12)]
	c.gs = r.Intn(12) != 0
	c.kind = []string{"q", "q", "q", "b", "b", "bx"}[r.Intn(6)]
	ncols := 1 + r.Intn(6)
	npk := 1 + r.Intn(4)
	if npk > ncols {
		npk = ncols
	}
	// where the key markers are among the statement's markers
	shape := []string{"leading", "trailing", "interleaved", "permuted", "reversed"}[r.Intn(5)]
	var pos []int
	switch shape {
	case "leading":
		for i := 0; i < npk; i++ {
			pos = append(pos, i)
		}
	case "trailing":
		for i := 0; i < npk; i++ {
			pos = append(pos, ncols-npk+i)
		}
	case "reversed":
		off := (ncols - npk) * r.Intn(2)
		for i := 0; i < npk; i++ {
			pos = append(pos, npk-1-i+off)
		}
	case "interleaved":
		p := perm(r, ncols)[:npk]
		for i := 0; i < ncols; i++ { // ascending subset
			for _, x := range p {
				if x == i {
					pos = append(pos, i)
				}
			}
		}
	default:
		pos = perm(r, ncols)[:npk]
	}
	isKey := map[int]int{}
	for k, p := range pos {
		isKey[p] = k
	}
	c.cols = make([]rkCol, ncols)
	for i := range c.cols {
		if k, ok := isKey[i]; ok {
			t := &valgen.Ty{Name: pkScalars[r.Intn(len(pkScalars))]}
			if r.Intn(12) == 0 {
				t = &valgen.Ty{Name: "tuple"}
				for e := 0; e <= r.Intn(3); e++ {
					t.Elems = append(t.Elems, &valgen.Ty{Name: pkScalars[r.Intn(len(pkScalars))]})
				}
			}
			c.cols[i] = rkCol{fmt.Sprintf("k%d", k), t}
		} else {
			c.cols[i] = rkCol{fmt.Sprintf("v%d", i), g.Ty(1)}
		}
	}
	// schema metadata: the table's partition key columns, in key order
	var schPK []string
	for k := range pos {
		schPK = append(schPK, fmt.Sprintf("k%d", k))
	}
	c.sch = []int{1, 1, 1, 2, 2}[r.Intn(5)]
	if r.Intn(14) == 0 {
		c.sch = 0
	}
	path := "schema"
	if c.proto >= 4 && r.Intn(4) != 0 {
		path = "pkidx"
		c.pk = pos
	}
	dup, missing := false, false
	if path == "schema" {
		if ncols > npk && r.Intn(6) == 0 {
			// a non-key marker is a second marker of a key column (`k = ? AND k = ?`, `k IN (?, ?)`): the first one counts
			for i := range c.cols {
				if _, ok := isKey[i]; !ok {
					c.cols[i].name = fmt.Sprintf("k%d", r.Intn(npk))
					// it may become THE marker of the key column: give it a type whose encoding is deterministic
					// (a Go map bound to a set / map column is written in map iteration order)
					c.cols[i].ty = &valgen.Ty{Name: pkScalars[r.Intn(len(pkScalars))]}
					dup = true
					break
				}
			}
		}
		if r.Intn(8) == 0 {
			// the statement does not bind the whole partition key
			at := r.Intn(len(schPK) + 1)
			schPK = append(schPK[:at:at], append([]string{"kx"}, schPK[at:]...)...)
			missing = true
		}
	}
	// the rows of the schema's columns table: the key columns with their position, some clustering and regular
	// columns, in an arbitrary arrival order (the server sorts them by column NAME, not by position)
	for k, n := range schPK {
		c.schRows = append(c.schRows, schRow{n, "p", k})
	}
	for k := 0; k < r.Intn(3); k++ {
		c.schRows = append(c.schRows, schRow{fmt.Sprintf("c%d", k), "c", k})
	}
	for i := range c.cols {
		if _, ok := isKey[i]; !ok && !strings.HasPrefix(c.cols[i].name, "k") && r.Bool() {
			c.schRows = append(c.schRows, schRow{c.cols[i].name, "r", 0})
		}
	}
	if c.proto != 1 { // protocol 1 reads the key from key_aliases; its schema_columns rows are the regular columns
		sh := perm(r, len(c.schRows))
		rows := make([]schRow, len(c.schRows))
		for i, j := range sh {
			rows[i] = c.schRows[j]
		}
		c.schRows = rows
	}
	nrows := 1 + r.Intn(3)
	for ri := 0; ri < nrows; ri++ {
		row := make([]*valgen.Val, ncols)
		for i := range row {
			_, key := isKey[i]
			switch {
			case key && r.Intn(60) == 0:
				row[i] = &valgen.Val{Tag: []string{"nil", "nilptr"}[r.Intn(2)]}
			case key && r.Intn(12) != 0:
				// mostly a value the key column accepts (the generator also produces mismatching Go types, out-of-range
				// numbers and nil-like values, which end in an error / a null component)
				for try := 0; try < 8; try++ {
					row[i] = genVal(g, c.proto, c.cols[i].ty)
					if _, st := valgen.Marshal(c.proto, c.cols[i].ty, row[i]); st == "ok" {
						break
					}
				}
			default:
				row[i] = genVal(g, c.proto, c.cols[i].ty)
			}
		}
		c.rows = append(c.rows, row)
	}
	// a caller that binds the wrong number of values (model-vs-code only)
	arity := ""
	if r.Intn(25) == 0 {
		ri := r.Intn(len(c.rows))
		if r.Bool() && ncols > 0 {
			c.rows[ri] = c.rows[ri][:r.Intn(ncols)]
			arity = "short"
		} else {
			c.rows[ri] = append(c.rows[ri], &valgen.Val{Tag: "i", Kind: "int", Int: big.NewInt(int64(r.Intn(100)))})
			arity = "long"
		}
	}
	// expected outcome class, decided from the generated structure and the real Marshal of every key component
	// with the type of ITS column (independent of routingKeyInfo): spec-backed when every row is a `key` or a
	// `nokey` outcome of the theorems
	specBacked = true
	out := "key"
	switch {
	case path == "schema" && (c.sch == 0 || !c.gs):
		specBacked, out = false, "nometa"
	case path == "schema" && missing:
		out = "nokey"
	default:
		// first marker of each key column (schema path) / the key markers (pk indexes)
		markers := pos
		if path == "schema" {
			markers = nil
			for _, n := range schPK {
				for i := range c.cols {
					if c.cols[i].name == n {
						markers = append(markers, i)
						break
					}
				}
			}
		}
		for _, row := range c.rows {
			short := false
			for _, mi := range markers {
				if mi >= len(row) {
					short = true
				}
			}
			if short {
				// a key marker without a bound value: the error outcome, whatever the other values are (KF-C09-1
				// repaired; theorem C09_routing_short_values) - spec-backed
				if out == "key" {
					out = "values"
				}
				continue
			}
			for _, mi := range markers {
				if _, st := valgen.Marshal(c.proto, c.cols[mi].ty, row[mi]); st != "ok" {
					specBacked, out = false, "comp-"+st
				}
			}
		}
	}
	class = fmt.Sprintf("rkm/p%d/%s/%s/npk%d/%s", c.proto, path, shape, npk, out)
	if dup {
		class += "/dup"
	}
	if arity != "" {
		class += "/" + arity
	}
	return
}

// ---- token ring order ----

func execRingsort(w []string) string {
	if len(w) < 2 {
		return "bad-op"
	}
	var part string
	switch w[1] {
	case "m":
		part = "org.apache.cassandra.dht.Murmur3Partitioner"
	case "r":
		part = "org.apache.cassandra.dht.RandomPartitioner"
	case "o":
		part = "org.apache.cassandra.dht.ByteOrderedPartitioner"
	default:
		return "bad-op"
	}
	hosts := [][]string{{}}
	for _, t := range w[2:] {
		if t == "/" {
			hosts = append(hosts, []string{})
			continue
		}
		if w[1] == "o" {
			b, err := vh.UnHex(t)
			if err != nil {
				return "bad-op"
			}
			t = string(b)
		}
		hosts[len(hosts)-1] = append(hosts[len(hosts)-1], t)
	}
	ring, err := gocql.VerifC09RingOrder(part, hosts)
	if err != nil {
		return "err"
	}
	if w[1] == "o" {
		for i := range ring {
			ring[i] = vh.Hex([]byte(ring[i]))
		}
	}
	return strings.Join(ring, " ")
}
