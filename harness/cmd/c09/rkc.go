// Ops rkc / rkcx: the ROUTING-KEY INFO CACHE (Session.routingKeyInfoCache, an LRU keyed by the statement text) over a
// HISTORY of one real connection-less routing session: 2..5 prepared statements on tables ks.t0 … ks.t4, each with its own
// PREPARE answer (parsed by the real framer) and schema rows (compiled by the real compileMetadata); steps = routing keys
// asked through Query.GetRoutingKey / Batch.GetRoutingKey (fresh objects from the public API, Query.Release afterwards),
// with an explicit routing key, through binding callbacks (Session.Bind / Batch.Bind), of an empty batch; the only host
// going down / coming back (Session.getConn finds no connection); routingKeyInfoLRU.Max(n); a statement's table dropped
// and re-created with another partition key (new PREPARE answer + new schema rows). After EVERY step the cache's content
// in recency order is read back and compared with the model's LRU.
package main

import (
	"errors"
	"fmt"
	"strconv"
	"strings"

	"github.com/gocql/gocql"
	"verifharness/valgen"
	"verifharness/vh"
)

type rcStmt struct {
	pk      []int // partition-key bind indexes of the PREPARE answer (protocol >= 4)
	sch     int   // 0: the schema does not know the table; 1: it does
	schRows []schRow
	cols    []rkCol
	outcome string // what a fresh routingKeyInfo gives: info | nokey | meta   (generation only)
	markers []int  // the markers that carry the key, in key order                 (generation only)
}

type rcStep struct {
	kind string // q b qe be qb bb b0 dn up max chg
	k    int
	n    int
	key  []byte
	vals []*valgen.Val
	st   *rcStmt
}

type rcCase struct {
	proto byte
	max   int
	cass2 bool
	stmts []*rcStmt
	steps []rcStep
}

func rcStmtText(k int) string { return fmt.Sprintf("UPDATE ks.t%d SET verif = ? WHERE verif = ?", k) }

func (st *rcStmt) preparedBody(proto byte, k int) []byte {
	w := &wr{}
	w.int32(4) // kind: prepared
	w.short(2) // id
	w.b = append(w.b, 0xc0, byte(0xa0+k))
	w.int32(1) // global table spec
	w.int32(len(st.cols))
	if proto >= 4 {
		w.int32(len(st.pk))
		for _, i := range st.pk {
			w.short(i)
		}
	}
	w.str("ks")
	w.str(fmt.Sprintf("t%d", k))
	for _, col := range st.cols {
		w.str(col.name)
		w.ty(col.ty)
	}
	if proto >= 2 { // result metadata: no metadata, no columns
		w.int32(4)
		w.int32(0)
	}
	return w.b
}

func (st *rcStmt) desc(sb *strings.Builder) {
	fmt.Fprintf(sb, " %d", len(st.pk))
	for _, i := range st.pk {
		fmt.Fprintf(sb, " %d", i)
	}
	fmt.Fprintf(sb, " %d %d", st.sch, len(st.schRows))
	for _, r := range st.schRows {
		fmt.Fprintf(sb, " %s:%s:%d", r.name, r.kind, r.pos)
	}
	fmt.Fprintf(sb, " %d", len(st.cols))
	for _, col := range st.cols {
		sb.WriteString(" | " + col.name + " " + col.ty.String())
	}
}

func (c *rcCase) op(name string) string {
	var sb strings.Builder
	fmt.Fprintf(&sb, "%s %d %d %d", name, c.proto, c.max, len(c.stmts))
	for _, st := range c.stmts {
		st.desc(&sb)
	}
	for _, s := range c.steps {
		sb.WriteString(" / " + s.kind)
		switch s.kind {
		case "max":
			fmt.Fprintf(&sb, " %d", s.n)
		case "qb", "bb":
			fmt.Fprintf(&sb, " %d", s.k)
		case "chg":
			fmt.Fprintf(&sb, " %d", s.k)
			s.st.desc(&sb)
		case "q", "b", "qe", "be":
			if s.kind[1:] == "e" {
				sb.WriteString(" " + vh.Hex(s.key))
			}
			fmt.Fprintf(&sb, " %d %d", s.k, len(s.vals))
			for _, v := range s.vals {
				sb.WriteString(" | " + v.String())
			}
		}
	}
	return sb.String()
}

// ---- parsing (replay) ----

type rcParser struct {
	w []string
	i int
}

func (p *rcParser) more() bool { return p.i < len(p.w) }
func (p *rcParser) next() string {
	if p.i >= len(p.w) {
		panic("bad-op: out of tokens")
	}
	s := p.w[p.i]
	p.i++
	return s
}
func (p *rcParser) num() int {
	n, err := strconv.Atoi(p.next())
	if err != nil || n < 0 || n > 1<<16 {
		panic("bad-op: number")
	}
	return n
}

// seg: "|" and the words up to the next "|" or "/"
func (p *rcParser) seg() []string {
	if p.next() != "|" {
		panic("bad-op: expected |")
	}
	j := p.i
	for j < len(p.w) && p.w[j] != "|" && p.w[j] != "/" {
		j++
	}
	s := p.w[p.i:j]
	p.i = j
	return s
}

// a column: "|" name T…  — the type words end where the next known word begins; the type is parsed by valgen
func (p *rcParser) stmt() *rcStmt {
	st := &rcStmt{}
	npk := p.num()
	for k := 0; k < npk; k++ {
		st.pk = append(st.pk, p.num())
	}
	st.sch = p.num()
	m := p.num()
	for k := 0; k < m; k++ {
		f := strings.Split(p.next(), ":")
		if len(f) != 3 {
			panic("bad-op: schema row")
		}
		pos, err := strconv.Atoi(f[2])
		if err != nil || pos < 0 || pos > 1<<12 {
			panic("bad-op: schema row")
		}
		st.schRows = append(st.schRows, schRow{f[0], f[1], pos})
	}
	ncols := p.num()
	for k := 0; k < ncols; k++ {
		if p.next() != "|" {
			panic("bad-op: expected |")
		}
		name := p.next()
		// scalar key / non-key column types only (one word), or `tuple <n> T…` is not generated here
		tw := []string{p.next()}
		_, t, _ := valgen.ParseTV(append(append([]string{"4"}, tw...), "nil"))
		st.cols = append(st.cols, rkCol{name, t})
	}
	return st
}

func parseRkc(w []string) *rcCase {
	p := &rcParser{w: w, i: 1}
	c := &rcCase{}
	c.proto = byte(p.num())
	c.max = p.num()
	nst := p.num()
	for k := 0; k < nst; k++ {
		c.stmts = append(c.stmts, p.stmt())
	}
	cur := append([]*rcStmt{}, c.stmts...)
	for p.more() {
		if p.next() != "/" {
			panic("bad-op: expected /")
		}
		s := rcStep{kind: p.next()}
		switch s.kind {
		case "dn", "up", "b0":
		case "max":
			s.n = p.num()
		case "qb", "bb":
			s.k = p.num()
		case "chg":
			s.k = p.num()
			s.st = p.stmt()
			if s.k >= len(cur) {
				panic("bad-op: statement")
			}
			cur[s.k] = s.st
		case "q", "b", "qe", "be":
			if s.kind[1:] == "e" {
				b, err := vh.UnHex(p.next())
				if err != nil {
					panic("bad-op: hex")
				}
				s.key = b
			}
			s.k = p.num()
			if s.k >= len(cur) {
				panic("bad-op: statement")
			}
			n := p.num()
			for i := 0; i < n; i++ {
				sg := p.seg()
				tw := []string{"int"}
				if i < len(cur[s.k].cols) {
					tw = strings.Fields(cur[s.k].cols[i].ty.String())
				}
				_, _, v := valgen.ParseTV(append(append([]string{strconv.Itoa(int(c.proto))}, tw...), sg...))
				s.vals = append(s.vals, v)
			}
		default:
			panic("bad-op: step")
		}
		c.steps = append(c.steps, s)
	}
	return c
}

// ---- running the real code ----

func (c *rcCase) schema(cur []*rcStmt) *gocql.VerifC09Schema {
	schema := &gocql.VerifC09Schema{Keyspace: "ks", Rows: map[string][]gocql.VerifC09ColumnRow{}, Cass2: c.cass2}
	for k, st := range cur {
		if st.sch == 0 {
			continue
		}
		rows := []gocql.VerifC09ColumnRow{}
		for _, r := range st.schRows {
			rows = append(rows, gocql.VerifC09ColumnRow{Name: r.name, Kind: r.kind, Position: r.pos})
		}
		schema.Rows[fmt.Sprintf("t%d", k)] = rows
	}
	return schema
}

func rcErr(err error) string {
	switch {
	case errors.Is(err, gocql.ErrNoMetadata):
		return "err:meta"
	case strings.Contains(err.Error(), "no connection available"):
		return "err:noconn"
	case strings.Contains(err.Error(), "has no bound value"):
		return "err:values"
	}
	return "err:marshal"
}

func (c *rcCase) run() string {
	cur := append([]*rcStmt{}, c.stmts...)
	s, err := gocql.VerifC09RoutingSession(c.proto, rcStmtText(0), cur[0].preparedBody(c.proto, 0), c.schema(cur))
	if err != nil {
		return "bad-op:" + err.Error()
	}
	for k := 1; k < len(cur); k++ {
		if err := gocql.VerifC09AddPrepared(s, c.proto, rcStmtText(k), cur[k].preparedBody(c.proto, k)); err != nil {
			return "bad-op:" + err.Error()
		}
	}
	gocql.VerifC09CacheMax(s, c.max)
	index := map[string]int{}
	for k := range cur {
		index[rcStmtText(k)] = k
	}
	noBinding := func(*gocql.QueryInfo) ([]interface{}, error) { return nil, nil }
	outs := make([]string, len(c.steps))
	for si, st := range c.steps {
		ans := func() (res string) {
			defer func() {
				if r := recover(); r != nil {
					res = "crash"
				}
			}()
			vals := make([]interface{}, len(st.vals))
			for i, v := range st.vals {
				vals[i] = v.Build()
			}
			showQ := func(q *gocql.Query) string {
				k, err := q.GetRoutingKey()
				if err != nil {
					return rcErr(err)
				}
				ks, tbl := q.Keyspace(), q.Table()
				q.Release()
				if k == nil {
					return "nil " + ks + "." + tbl
				}
				return "ok " + valgen.HexC(k) + " " + ks + "." + tbl
			}
			showB := func(k []byte, err error) string {
				switch {
				case err != nil:
					return rcErr(err)
				case k == nil:
					return "nil"
				}
				return "ok " + valgen.HexC(k)
			}
			switch st.kind {
			case "dn":
				gocql.VerifC09SetHostsUp(s, false)
			case "up":
				gocql.VerifC09SetHostsUp(s, true)
			case "max":
				gocql.VerifC09CacheMax(s, st.n)
			case "chg":
				cur[st.k] = st.st
				if err := gocql.VerifC09AddPrepared(s, c.proto, rcStmtText(st.k), st.st.preparedBody(c.proto, st.k)); err != nil {
					return "bad-op:" + err.Error()
				}
				gocql.VerifC09AddKeyspace(s, c.proto, c.schema(cur))
			case "q":
				return showQ(s.Query(rcStmtText(st.k), vals...))
			case "qe":
				return showQ(s.Query(rcStmtText(st.k), vals...).RoutingKey(st.key))
			case "qb":
				return showQ(s.Bind(rcStmtText(st.k), noBinding))
			case "b":
				b := s.NewBatch(gocql.LoggedBatch)
				b.Query(rcStmtText(st.k), vals...)
				return showB(b.GetRoutingKey())
			case "be":
				return showB(gocql.VerifC09BatchExplicitKey(s, st.key, rcStmtText(st.k), vals))
			case "bb":
				b := s.NewBatch(gocql.UnloggedBatch)
				b.Bind(rcStmtText(st.k), noBinding)
				b.Query(rcStmtText((st.k+1)%len(cur)), 1) // a later entry is never looked at
				return showB(b.GetRoutingKey())
			case "b0":
				return showB(s.NewBatch(gocql.LoggedBatch).GetRoutingKey())
			}
			return "-"
		}()
		var ord []string
		for _, t := range gocql.VerifC09CacheOrder(s) {
			ord = append(ord, strconv.Itoa(index[t]))
		}
		if n := gocql.VerifC09CacheLen(s); n != len(ord) {
			ans += fmt.Sprintf(" inconsistent-len:%d", n)
		}
		outs[si] = ans + " [" + strings.Join(ord, ",") + "]"
	}
	return strings.Join(outs, " ; ")
}

// ---- generation ----

// the harness's own picture of WHICH statements the cache holds (keys only, most recent first): used to classify a
// history as safe (op rkc: the theorem's hypothesis RoutingCache.safe, re-checked by the Lean driver) or not (rkcx)
type simLRU struct {
	keys []int
	max  int
}

func (l *simLRU) has(k int) bool {
	for _, x := range l.keys {
		if x == k {
			return true
		}
	}
	return false
}
func (l *simLRU) remove(k int) {
	for i, x := range l.keys {
		if x == k {
			l.keys = append(l.keys[:i:i], l.keys[i+1:]...)
			return
		}
	}
}
func (l *simLRU) front(k int) { l.remove(k); l.keys = append([]int{k}, l.keys...) }
func (l *simLRU) add(k int) (evicted bool) {
	l.keys = append([]int{k}, l.keys...)
	if l.max != 0 && len(l.keys) > l.max {
		l.keys = l.keys[:len(l.keys)-1]
		return true
	}
	return false
}
func (l *simLRU) trim(n int) {
	if len(l.keys) > n {
		l.keys = l.keys[:n]
	}
	l.max = n
}

var rcScalars = []string{"int", "bigint", "text", "blob", "uuid", "timestamp", "boolean", "smallint", "varint", "inet", "date"}

// genRcStmt: a statement shape. With base != nil (the table is re-created): the same markers with the same types
// (so every bound value still fits its marker), but another choice / order of the partition-key columns.
func genRcStmt(r *vh.Rng, proto byte, base *rcStmt) *rcStmt {
	st := &rcStmt{}
	ncols := 1 + r.Intn(4)
	if base != nil {
		ncols = len(base.cols)
	}
	npk := 1 + r.Intn(3)
	if npk > ncols {
		npk = ncols
	}
	pos := perm(r, ncols)[:npk]
	isKey := map[int]int{}
	for k, p := range pos {
		isKey[p] = k
	}
	st.cols = make([]rkCol, ncols)
	for i := range st.cols {
		t := &valgen.Ty{Name: rcScalars[r.Intn(len(rcScalars))]}
		if base != nil {
			t = base.cols[i].ty
		}
		if k, ok := isKey[i]; ok {
			st.cols[i] = rkCol{fmt.Sprintf("k%d", k), t}
		} else {
			st.cols[i] = rkCol{fmt.Sprintf("v%d", i), t}
		}
	}
	var schPK []string
	for k := range pos {
		schPK = append(schPK, fmt.Sprintf("k%d", k))
	}
	st.sch = 1
	st.outcome = "info"
	st.markers = pos
	if proto >= 4 && r.Intn(3) != 0 {
		st.pk = pos
		if r.Intn(8) == 0 {
			st.sch = 0 // irrelevant on this path
		}
	} else {
		switch r.Intn(10) {
		case 0:
			st.sch = 0
			st.outcome = "meta"
		case 1:
			at := r.Intn(len(schPK) + 1)
			schPK = append(schPK[:at:at], append([]string{"kx"}, schPK[at:]...)...)
			st.outcome = "nokey"
		}
	}
	for k, n := range schPK {
		st.schRows = append(st.schRows, schRow{n, "p", k})
	}
	for k := 0; k < r.Intn(2); k++ {
		st.schRows = append(st.schRows, schRow{fmt.Sprintf("c%d", k), "c", k})
	}
	sh := perm(r, len(st.schRows))
	rows := make([]schRow, len(st.schRows))
	for i, j := range sh {
		rows[i] = st.schRows[j]
	}
	st.schRows = rows
	return st
}

func genRcVals(r *vh.Rng, g *valgen.Gen, proto byte, st *rcStmt) []*valgen.Val {
	row := make([]*valgen.Val, len(st.cols))
	for i := range row {
		for try := 0; try < 12; try++ {
			row[i] = genVal(g, proto, st.cols[i].ty)
			if _, s := valgen.Marshal(proto, st.cols[i].ty, row[i]); s == "ok" {
				break
			}
		}
	}
	return row
}

// genRkc: one history. Returns the case, whether it is SAFE (spec-backed op rkc) and a distribution class.
func genRkc(r *vh.Rng, g *valgen.Gen) (c *rcCase, safe bool, class string) {
	c = &rcCase{}
	c.proto = []byte{2, 3, 3, 4, 4, 4, 5}[r.Intn(7)]
	c.cass2 = c.proto <= 3 && r.Intn(3) == 0
	nst := 2 + r.Intn(4)
	c.max = []int{0, 1, 2, 2, 3, nst, nst + 2}[r.Intn(7)]
	for k := 0; k < nst; k++ {
		c.stmts = append(c.stmts, genRcStmt(r, c.proto, nil))
	}
	cur := append([]*rcStmt{}, c.stmts...)
	// mode 0: only safe steps are generated; mode 1: anything
	mode := 0
	if r.Intn(5) < 2 {
		mode = 1
	}
	lru := &simLRU{max: c.max}
	up := true
	safe = true
	ev := map[string]bool{}
	nsteps := 4 + r.Intn(12)
	last := r.Intn(nst)
	for len(c.steps) < nsteps {
		x := r.Intn(100)
		switch {
		case x < 62: // a routing key through the cache
			k := last
			if r.Intn(3) != 0 {
				k = r.Intn(nst)
			}
			hit := lru.has(k)
			if !up && !hit {
				ev["noconn"] = true // the error; nothing is cached (KF-C09-2 repaired): a safe step
			}
			last = k
			kind := "q"
			if r.Intn(3) == 0 {
				kind = "b"
			}
			c.steps = append(c.steps, rcStep{kind: kind, k: k, vals: genRcVals(r, g, c.proto, cur[k])})
			switch {
			case hit:
				lru.front(k)
				ev["hit"] = true
			default:
				if lru.add(k) {
					ev["evict"] = true
				}
				if !up {
					lru.remove(k)
				}
				if up && cur[k].outcome == "meta" {
					lru.remove(k)
					ev["meta"] = true
				}
				if up && cur[k].outcome == "nokey" {
					ev["nokey"] = true
				}
			}
		case x < 68:
			kind := []string{"qe", "be"}[r.Intn(2)]
			k := r.Intn(nst)
			c.steps = append(c.steps, rcStep{kind: kind, k: k, key: genKey(r, 1+r.Intn(20)), vals: genRcVals(r, g, c.proto, cur[k])})
			ev["explicit"] = true
		case x < 74:
			kind := []string{"qb", "bb", "b0"}[r.Intn(3)]
			c.steps = append(c.steps, rcStep{kind: kind, k: r.Intn(nst)})
			ev["binding"] = true
		case x < 82:
			if up {
				c.steps = append(c.steps, rcStep{kind: "dn"})
				ev["down"] = true
			} else {
				c.steps = append(c.steps, rcStep{kind: "up"})
			}
			up = !up
		case x < 88:
			n := r.Intn(nst + 1)
			c.steps = append(c.steps, rcStep{kind: "max", n: n})
			lru.trim(n)
			ev["max"] = true
		default:
			k := r.Intn(nst)
			if lru.has(k) {
				if mode == 0 {
					continue
				}
				safe = false
				ev["stale"] = true
			}
			st := genRcStmt(r, c.proto, cur[k])
			cur[k] = st
			c.steps = append(c.steps, rcStep{kind: "chg", k: k, st: st})
			ev["chg"] = true
		}
	}
	class = "rkc/safe"
	if !safe {
		class = "rkc/unsafe"
	}
	for _, e := range []string{"hit", "evict", "meta", "noconn", "stale"} {
		if ev[e] {
			class += "/" + e
		}
	}
	return
}
