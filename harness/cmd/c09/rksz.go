// Ops rksz / rkszx: routing keys whose components have given SIZES - at and around every boundary of the unsigned
// [short] component length of the CompositeType framing (0, 1, 127/128, 255/256, 32767, 32768, 65535; 65536, 65537 = the
// recorded truncation, rkszx) - for single and composite keys, through createRoutingKey (c), Query.GetRoutingKey (q) and
// Batch.GetRoutingKey (b) of a real routing session (PREPARE answer with pk indexes parsed by the real framer). The
// components travel as <b|s><len>.<fill>.<step> (b: a []byte bound to a blob column, s: a string bound to a text column;
// byte i = fill + i*step mod 256); the answer is the OUTCOME KIND (key / err / nil) and, for a key, its length, a
// positional fingerprint of all its bytes and its first four bytes.
package main

import (
	"fmt"
	"strconv"
	"strings"

	"github.com/gocql/gocql"
	"verifharness/valgen"
	"verifharness/vh"
)

type szComp struct {
	kind byte
	n    int
	fill byte
	step int
}

func (c szComp) String() string { return fmt.Sprintf("%c%d.%02x.%d", c.kind, c.n, c.fill, c.step) }

func (c szComp) bytes() []byte {
	b := make([]byte, c.n)
	for i := range b {
		b[i] = byte(int(c.fill) + i*c.step)
	}
	return b
}

func parseSz(w string) (szComp, bool) {
	if len(w) < 2 || (w[0] != 'b' && w[0] != 's') {
		return szComp{}, false
	}
	f := strings.Split(w[1:], ".")
	if len(f) != 3 {
		return szComp{}, false
	}
	n, e1 := strconv.Atoi(f[0])
	fb, e2 := vh.UnHex(f[1])
	st, e3 := strconv.Atoi(f[2])
	if e1 != nil || e2 != nil || e3 != nil || len(fb) != 1 || n < 0 || n > 200000 || st < 0 || st > 255 {
		return szComp{}, false
	}
	return szComp{w[0], n, fb[0], st}, true
}

func execRksz(w []string) string {
	if len(w) < 3 {
		return "bad-op"
	}
	via := w[1]
	n := len(w) - 2
	comps := make([]szComp, n)
	for i := range comps {
		c, ok := parseSz(w[2+i])
		if !ok {
			return "bad-op"
		}
		comps[i] = c
	}
	// partition-key order differs from value order: component i is the value at position n-1-i
	vals := make([]interface{}, n)
	cols := make([]rkCol, n)
	idx := make([]int, n)
	types := make([]gocql.TypeInfo, n)
	for i, c := range comps {
		j := n - 1 - i
		idx[i] = j
		if c.kind == 's' {
			vals[j] = string(c.bytes())
			cols[j] = rkCol{fmt.Sprintf("k%d", i), &valgen.Ty{Name: "text"}}
			types[i] = gocql.NewNativeType(4, gocql.TypeText, "")
		} else {
			vals[j] = c.bytes()
			cols[j] = rkCol{fmt.Sprintf("k%d", i), &valgen.Ty{Name: "blob"}}
			types[i] = gocql.NewNativeType(4, gocql.TypeBlob, "")
		}
	}
	var key []byte
	switch via {
	case "c":
		k, err := gocql.VerifCreateRoutingKey(types, idx, vals)
		if err != nil {
			return "err"
		}
		key = k
	case "q", "b":
		rc := &rkCase{proto: 4, gs: true, pk: idx, cols: cols}
		s, err := gocql.VerifC09RoutingSession(4, rkStmt, rc.preparedBody(), nil)
		if err != nil {
			return "bad-op:" + err.Error()
		}
		var ec string
		if via == "q" {
			key, _, _, ec = gocql.VerifC09QueryKey(s, rkStmt, vals)
		} else {
			key, ec = gocql.VerifC09BatchKey(s, rkStmt, vals, "", nil)
		}
		if ec != "" {
			return "err"
		}
	default:
		return "bad-op"
	}
	if key == nil {
		return "nil"
	}
	head := key
	if len(head) > 4 {
		head = head[:4]
	}
	// a linear fingerprint of the whole key (every byte and its position count): h <- (h*1000003 + b) mod 2^32
	var h uint64
	for _, b := range key {
		h = (h*1000003 + uint64(b)) % 4294967296
	}
	return fmt.Sprintf("key %d %d %s", len(key), h, vh.Hex(head))
}

var szBoundaries = []int{0, 1, 127, 128, 255, 256, 32767, 32768, 65535, 65536, 65537}

func genSzLen(r *vh.Rng) int {
	switch r.Intn(8) {
	case 0, 1, 2, 3:
		return szBoundaries[r.Intn(len(szBoundaries))]
	case 4: // next to a boundary
		n := szBoundaries[r.Intn(len(szBoundaries))] + r.Intn(5) - 2
		if n < 0 {
			n = 0
		}
		return n
	case 5:
		return 32768 + r.Intn(32768) // the upper half of the unsigned range
	case 6:
		return r.Intn(70000)
	}
	return r.Intn(40)
}

// genRksz: 1..3 components; returns the op line (rksz when every component fits the [short] length, else rkszx) and a class
func genRksz(r *vh.Rng) (op, class string) {
	n := []int{1, 2, 2, 2, 3}[r.Intn(5)]
	via := []string{"c", "q", "b"}[r.Intn(3)]
	parts := make([]string, n)
	maxLen, big := 0, 0
	for i := range parts {
		ln := genSzLen(r)
		if big >= 2 && ln > 300 { // at most two large components per key (cost)
			ln = r.Intn(300)
		}
		if ln > 300 {
			big++
		}
		if ln > maxLen {
			maxLen = ln
		}
		c := szComp{kind: "bbs"[r.Intn(3)], n: ln, fill: r.PickByte(fills), step: []int{0, 1, 3, 7, 255}[r.Intn(5)]}
		parts[i] = c.String()
	}
	name := "rksz"
	if maxLen > 65535 {
		name = "rkszx"
	}
	sz := "small"
	switch {
	case maxLen > 65535:
		sz = ">65535"
	case maxLen >= 32768:
		sz = "32768..65535"
	case maxLen >= 256:
		sz = "256..32767"
	}
	return name + " " + via + " " + strings.Join(parts, " "), fmt.Sprintf("rksz/%s/n%d/%s", via, n, sz)
}
