// Harness for C09 (partition tokens): generates keys / token strings, runs the real
// gocql code, writes op lines + implementation answers for comparison with the Lean model.
package main

import (
	"crypto/md5"
	"fmt"
	"math/big"
	"strconv"
	"strings"

	"github.com/gocql/gocql"
	"verifharness/valgen"
	"verifharness/vh"
)

func exec(op string) (res string) {
	defer func() {
		if r := recover(); r != nil {
			res = fmt.Sprintf("crash:%v", r)
		}
	}()
	w := strings.Fields(op)
	if len(w) == 0 {
		return "bad-op"
	}
	// a trailing placement word: where in memory the byte-string / string arguments lie (placed.go)
	var pl *placement
	if n := len(w); n > 1 && strings.HasPrefix(w[n-1], "@") {
		if pl = parsePl(w[n-1]); pl == nil {
			return "bad-op"
		}
		w = w[:n-1]
		defer pl.release()
	}
	hx := func(i int) []byte {
		b, err := vh.UnHex(w[i])
		if err != nil {
			panic("bad hex")
		}
		return pl.bytes(i, b)
	}
	// a string argument (token strings), placed as a sub-string
	sx := func(i int) string {
		b, err := vh.UnHex(w[i])
		if err != nil {
			panic("bad hex")
		}
		return pl.str(i, string(b))
	}
	switch w[0] {
	case "murmur":
		k := hx(1)
		a := gocql.VerifMurmur3H1(k)
		b := gocql.VerifHash("murmur3", k)
		if fmt.Sprint(a) != b {
			return "inconsistent:" + fmt.Sprint(a) + "/" + b
		}
		return b
	case "random":
		d, k := hx(1), hx(2)
		s := md5.Sum(k)
		if string(s[:]) != string(d) {
			return "bad-op"
		}
		return gocql.VerifHash("random", k)
	case "randomk":
		return gocql.VerifHash("random", hx(1))
	case "ordlt":
		return fmt.Sprint(gocql.VerifHashLess("ordered", hx(1), hx(2)))
	case "parsem", "parsemx":
		return gocql.VerifParseToken("murmur3", sx(1))
	case "parser", "parserx":
		return gocql.VerifParseToken("random", sx(1))
	case "part", "partx":
		n, err := gocql.VerifC09PartitionerOf(sx(1))
		if err != nil {
			return "err"
		}
		return n
	case "lessm", "lessmx":
		return fmt.Sprint(gocql.VerifTokenLess("murmur3", sx(1), sx(2)))
	case "hlessm":
		return fmt.Sprint(gocql.VerifHashLess("murmur3", hx(1), hx(2)))
	case "hlessr":
		for _, i := range []int{1, 3} {
			s := md5.Sum(hx(i + 1))
			if string(s[:]) != string(hx(i)) {
				return "bad-op"
			}
		}
		return fmt.Sprint(gocql.VerifHashLess("random", hx(2), hx(4)))
	case "rkm", "rkmx":
		c := parseRkm(w)
		c.pl = pl
		return c.run()
	case "rkn", "rknx":
		c := parseRkn(w)
		c.pl = pl
		return c.run()
	case "rkq":
		return parseRkq(w).run()
	case "rksz", "rkszx":
		return execRksz(w)
	case "rkc", "rkcx":
		return parseRkc(w).run()
	case "ringsort":
		return execRingsort(w)
	case "lessr":
		return fmt.Sprint(gocql.VerifTokenLess("random", sx(1), sx(2)))
	case "qrk", "qrke":
		// qrk <c1> .. <cn> / <c1> .. <cn> / ...   one Query object re-bound step by step
		// qrke <explicit> / <c1> .. <cn> / ...      the same with an explicit routing key set first
		var steps [][][]byte
		cur := [][]byte{}
		var explicit []byte
		rest := w[1:]
		if w[0] == "qrke" {
			explicit = hx(1)
			if explicit == nil {
				explicit = []byte{}
			}
			rest = w[3:] // skip the explicit key and the first "/"
		}
		for ti, t := range rest {
			if t == "/" {
				steps = append(steps, cur)
				cur = [][]byte{}
				continue
			}
			b, err := vh.UnHex(t)
			if err != nil {
				return "bad-op"
			}
			cur = append(cur, pl.bytes(ti+1, b))
		}
		steps = append(steps, cur)
		n := len(steps[0])
		types := make([]gocql.TypeInfo, n)
		idx := make([]int, n)
		for i := 0; i < n; i++ {
			types[i] = gocql.NewNativeType(4, gocql.TypeBlob, "")
			idx[i] = n - 1 - i
		}
		vsteps := make([][]interface{}, len(steps))
		for si, st := range steps {
			if len(st) != n {
				return "bad-op"
			}
			vsteps[si] = make([]interface{}, n)
			for i := 0; i < n; i++ {
				vsteps[si][n-1-i] = st[i]
			}
		}
		keys, errs := gocql.VerifQueryRoutingKeys(types, idx, vsteps, explicit)
		outs := make([]string, len(keys))
		for i := range keys {
			if errs[i] != "" {
				outs[i] = "err"
			} else {
				outs[i] = vh.Hex(keys[i])
			}
		}
		return strings.Join(outs, " ")
	case "rktok":
		// rktok <c1> .. <cn>: the routing key of the blob components (createRoutingKey: ONE component is the
		// caller's own slice, at the caller's alignment) and then its Murmur3 token, as the token-aware policy does
		n := len(w) - 1
		if n < 1 {
			return "bad-op"
		}
		types := make([]gocql.TypeInfo, n)
		idx := make([]int, n)
		vals := make([]interface{}, n)
		for i := 0; i < n; i++ {
			types[i] = gocql.NewNativeType(4, gocql.TypeBlob, "")
			idx[i] = n - 1 - i
			vals[n-1-i] = hx(i + 1)
		}
		b, err := gocql.VerifCreateRoutingKey(types, idx, vals)
		if err != nil {
			return "err"
		}
		return gocql.VerifHash("murmur3", b)
	case "rkey", "rkey-held":
		n := len(w) - 1
		types := make([]gocql.TypeInfo, n)
		idx := make([]int, n)
		vals := make([]interface{}, n)
		for i := 0; i < n; i++ {
			types[i] = gocql.NewNativeType(4, gocql.TypeBlob, "")
			// partition-key order differs from value order: value j sits at position n-1-j
			idx[i] = n - 1 - i
			vals[n-1-i] = hx(i + 1)
		}
		b, err := gocql.VerifCreateRoutingKey(types, idx, vals)
		if err != nil {
			return "err"
		}
		if w[0] == "rkey-held" {
			// the key must still be intact after other routing keys have been built (a query hashes it
			// later, in the host selection policy): build a few other composite keys, force a GC cycle
			// (sync.Pool hand-over), then read the retained slice
			for k := 0; k < 4; k++ {
				ov := make([]interface{}, 2)
				ov[0] = []byte{byte(k), 0xee, 0xee, 0xee, 0xee, 0xee, 0xee, 0xee, 0xee}
				ov[1] = []byte{0xdd, 0xdd, 0xdd, 0xdd, 0xdd, 0xdd, 0xdd, 0xdd, 0xdd, 0xdd, 0xdd}
				ot := []gocql.TypeInfo{types[0], types[0]}
				gocql.VerifCreateRoutingKey(ot, []int{0, 1}, ov)
			}
		}
		return vh.Hex(b)
	}
	return "bad-op"
}

var classes = []byte{0x00, 0x01, 0x7f, 0x80, 0xff}

func genKey(r *vh.Rng, n int) []byte {
	b := make([]byte, n)
	switch r.Intn(4) {
	case 0:
		for i := range b {
			b[i] = r.PickByte(classes)
		}
	case 1:
		for i := range b {
			b[i] = byte(r.U64()) | 0x80
		}
	default:
		copy(b, r.Bytes(n))
	}
	return b
}

func decString(r *vh.Rng) string {
	switch r.Intn(10) {
	case 0:
		return []string{"0", "-0", "+5", "9223372036854775807", "-9223372036854775808", "9223372036854775808",
			"-9223372036854775809", "", "-", "12a", " 1", "1_000", "00012", "-00012", "170141183460469231731687303715884105728"}[r.Intn(15)]
	case 1: // near int64 boundaries
		d := int64(r.Intn(5)) - 2
		if r.Bool() {
			return fmt.Sprint(int64(9223372036854775807) - int64(r.Intn(3)) + 0*d)
		}
		return fmt.Sprint(int64(-9223372036854775808) + int64(r.Intn(3)))
	case 2:
		return fmt.Sprint(int64(r.U64()))
	case 3:
		return fmt.Sprint(int64(r.Intn(2000)) - 1000)
	default:
		return fmt.Sprint(int64(r.U64()) >> uint(r.Intn(64)))
	}
}

// boundary Murmur3 tokens: the ends of the int64 range, +-2^62, +-2^63-1 neighbours, around 0
var boundaryTokens = []string{"-9223372036854775808", "-9223372036854775807", "-4611686018427387905", "-4611686018427387904",
	"-4611686018427387903", "-2", "-1", "0", "1", "2", "4611686018427387903", "4611686018427387904", "4611686018427387905",
	"9223372036854775806", "9223372036854775807"}

func boundaryToken(r *vh.Rng) string { return boundaryTokens[r.Intn(len(boundaryTokens))] }

func minInt(a, b int) int {
	if a < b {
		return a
	}
	return b
}

func canonicalInt64(s string) bool {
	v, err := strconv.ParseInt(s, 10, 64)
	return err == nil && strconv.FormatInt(v, 10) == s
}

// tokenPairClass: how far apart two valid tokens are (a difference beyond int64 is where a comparison by
// subtraction breaks) and whether they are equal / adjacent
func tokenPairClass(s, t string) string {
	a, ok1 := new(big.Int).SetString(s, 10)
	b, ok2 := new(big.Int).SetString(t, 10)
	if !ok1 || !ok2 {
		return "malformed"
	}
	d := new(big.Int).Sub(a, b)
	d.Abs(d)
	switch {
	case d.Sign() == 0:
		return "equal"
	case d.Cmp(big.NewInt(1)) == 0:
		return "adjacent"
	case d.BitLen() > 63:
		return "apart>=2^63"
	case d.BitLen() > 62:
		return "apart>=2^62"
	}
	return "near"
}

func natString(r *vh.Rng) string {
	n := 1 + r.Intn(39)
	var sb strings.Builder
	for i := 0; i < n; i++ {
		sb.WriteByte(byte('0' + r.Intn(10)))
	}
	s := strings.TrimLeft(sb.String(), "0")
	if s == "" {
		s = "0"
	}
	return s
}

// RandomPartitioner token strings: canonical decimal integers - Cassandra's range 0..2^127 and the minimum token -1,
// the boundaries of the machine-word fast paths (2^63, 2^64, 10^19), beyond the range, negative
var bigBoundary = []string{"0", "-1", "1", "170141183460469231731687303715884105728", "170141183460469231731687303715884105727",
	"9223372036854775807", "9223372036854775808", "18446744073709551615", "18446744073709551616", "9999999999999999999",
	"10000000000000000000", "999999999999999999", "1000000000000000000", "340282366920938463463374607431768211455",
	"340282366920938463463374607431768211456", "-170141183460469231731687303715884105728", "-9223372036854775808", "-9223372036854775809"}

func bigString(r *vh.Rng) string {
	switch r.Intn(6) {
	case 0:
		return bigBoundary[r.Intn(len(bigBoundary))]
	case 1:
		if s := natString(r); s != "0" {
			return "-" + s
		}
		return "0"
	case 2: // 18..20 digits: around the int64 / uint64 boundaries
		n := 18 + r.Intn(3)
		var sb strings.Builder
		sb.WriteByte(byte('1' + r.Intn(9)))
		for i := 1; i < n; i++ {
			sb.WriteByte(byte('0' + r.Intn(10)))
		}
		return sb.String()
	}
	return natString(r)
}

// sign + digits, not canonical (big.Int.SetString accepts them; Cassandra never prints them)
func bigStringX(r *vh.Rng) string {
	s := natString(r)
	switch r.Intn(4) {
	case 0:
		return "+" + s
	case 1:
		return "-0"
	case 2:
		return strings.Repeat("0", 1+r.Intn(3)) + s
	}
	return "-" + strings.Repeat("0", 1+r.Intn(2)) + s
}

var partBases = []string{"Murmur3Partitioner", "RandomPartitioner", "ByteOrderedPartitioner", "OrderPreservingPartitioner"}

// partName: a partitioner class name as a cluster reports it (any package prefix) -> op part; a damaged one -> partx
func partName(r *vh.Rng) (string, bool) {
	base := partBases[r.Intn(len(partBases))]
	pre := "org.apache.cassandra.dht."
	switch r.Intn(5) {
	case 0:
		pre = ""
	case 1:
		pre = string("abcXYZ.$_0"[r.Intn(10)])
	case 2:
		b := make([]byte, 1+r.Intn(30))
		for i := range b {
			b[i] = "abcdefghijklmnopqrstuvwxyzMORB.3"[r.Intn(32)]
		}
		pre = string(b)
	case 3:
		pre = "com.example." + partBases[r.Intn(len(partBases))] + "."
	}
	if r.Intn(3) != 0 {
		return pre + base, true
	}
	n := pre + base
	switch r.Intn(7) {
	case 0:
		n = strings.ToLower(n)
	case 1:
		n = n[:len(n)-1]
	case 2:
		n = n + []string{" ", "2", "\x00", ".", "s"}[r.Intn(5)]
	case 3:
		n = []string{"", "Partitioner", "OrderedPartitioner", "3Partitioner", "murmur3Partitioner", "Murmur3partitioner"}[r.Intn(6)]
	case 4:
		n = base + pre
	case 5:
		n = pre + base + partBases[r.Intn(len(partBases))][1:]
	default:
		n = pre + strings.Replace(base, "Partitioner", "Partitoner", 1)
	}
	return n, false
}

func main() {
	mode, tier, path := vh.Args()
	if mode == "replay" {
		for _, l := range vh.ReadLines(path) {
			fmt.Println(exec(l))
		}
		return
	}
	r := vh.NewRng(vh.EnvSeed())
	out := vh.NewOut(path)
	mult := 1
	if tier == "thorough" {
		mult = 30
	}
	// murmur: every length 0..80 (every tail length with 0..5 blocks) x byte classes
	for rep := 0; rep < 12*mult; rep++ {
		for n := 0; n <= 80; n++ {
			k := genKey(r, n)
			op := "murmur " + vh.Hex(k)
			out.Case(op, exec(op), fmt.Sprintf("murmur/tail%d", n%16), n > 0)
		}
	}
	for i := 0; i < 300*mult; i++ {
		k := genKey(r, 81+r.Intn(2000))
		op := "murmur " + vh.Hex(k)
		out.Case(op, exec(op), "murmur/long", true)
	}
	// PLACEMENT IN MEMORY (placed.go): the token is a function of the key's BYTES only. The same key at every
	// address offset 0..15 (sub-slices of fresh / pooled buffers, sub-strings, copies), spare capacity and
	// foreign bytes before and behind it: every length 0..96, then lengths around the multiples of 16, then long keys
	for rep := 0; rep < mult; rep++ {
		for n := 0; n <= 96; n++ {
			k := genKey(r, n)
			for off := 0; off < 16; off++ {
				pl := genPl(r, off)
				op := "murmur " + vh.Hex(k) + " " + pl
				out.Case(op, exec(op), fmt.Sprintf("murmur@/%s/blocks%d", plClass(pl), minInt(n/16, 3)), n > 0)
			}
		}
	}
	for rep := 0; rep < 2*mult; rep++ {
		for m := 1; m <= 32; m++ {
			for d := -1; d <= 1; d++ {
				pl := genPl(r, -1)
				op := "murmur " + vh.Hex(genKey(r, 16*m+d)) + " " + pl
				out.Case(op, exec(op), fmt.Sprintf("murmur@/%s/around16", plClass(pl)), true)
			}
		}
	}
	for i := 0; i < 100*mult; i++ {
		pl := genPl(r, -1)
		op := "murmur " + vh.Hex(genKey(r, 97+r.Intn(2000))) + " " + pl
		out.Case(op, exec(op), fmt.Sprintf("murmur@/%s/long", plClass(pl)), true)
	}
	// the routing key of placed blob components and its token (ONE component: the caller's own slice is hashed)
	for i := 0; i < 800*mult; i++ {
		n := []int{1, 1, 1, 2, 3}[r.Intn(5)]
		parts := make([]string, n)
		for j := range parts {
			ln := r.Intn(97)
			if r.Intn(4) == 0 {
				ln = 16*(1+r.Intn(8)) + r.Intn(3) - 1
			}
			parts[j] = vh.Hex(genKey(r, ln))
		}
		pl := genPl(r, -1)
		op := "rktok " + strings.Join(parts, " ") + " " + pl
		out.Case(op, exec(op), fmt.Sprintf("rktok/%d/%s", n, plClass(pl)), true)
		if i%8 == 0 {
			op = "rktok " + strings.Join(parts, " ")
			out.Case(op, exec(op), fmt.Sprintf("rktok/%d/unplaced", n), true)
		}
	}
	// the other partitioners, token comparison and token strings on placed arguments
	for i := 0; i < 300*mult; i++ {
		k := genKey(r, r.Intn(80))
		d := md5.Sum(k)
		pl := genPl(r, -1)
		op := "random " + vh.Hex(d[:]) + " " + vh.Hex(k) + " " + pl
		out.Case(op, exec(op), "random@/"+plClass(pl), true)
		a, b := genKey(r, r.Intn(70)), genKey(r, r.Intn(70))
		if r.Intn(4) == 0 {
			b = append([]byte{}, a...)
		}
		pl = genPl(r, -1)
		op = "hlessm " + vh.Hex(a) + " " + vh.Hex(b) + " " + pl
		out.Case(op, exec(op), "hlessm@/"+plClass(pl), true)
		if r.Intn(3) == 0 && len(b) > 0 {
			b = append(append([]byte{}, a...), b[0])
		}
		op = "ordlt " + vh.Hex(a) + " " + vh.Hex(b) + " " + pl
		out.Case(op, exec(op), "ordlt@/"+plClass(pl), true)
		if i%3 == 0 {
			da, db := md5.Sum(a), md5.Sum(b)
			op = "hlessr " + vh.Hex(da[:]) + " " + vh.Hex(a) + " " + vh.Hex(db[:]) + " " + vh.Hex(b) + " " + pl
			out.Case(op, exec(op), "hlessr@/"+plClass(pl), true)
		}
		s, t := fmt.Sprint(int64(r.U64())>>uint(r.Intn(64))), fmt.Sprint(int64(r.U64())>>uint(r.Intn(64)))
		if i%4 == 0 {
			s, t = boundaryToken(r), boundaryToken(r)
		}
		pl = genPl(r, -1)
		op = "parsem " + vh.Hex([]byte(s)) + " " + pl
		out.Case(op, exec(op), "parsem@/"+plClass(pl), true)
		op = "lessm " + vh.Hex([]byte(s)) + " " + vh.Hex([]byte(t)) + " " + pl
		out.Case(op, exec(op), "lessm@/"+plClass(pl), true)
		s, t = natString(r), natString(r)
		pl = genPl(r, -1)
		op = "parser " + vh.Hex([]byte(s)) + " " + pl
		out.Case(op, exec(op), "parser@/"+plClass(pl), true)
		op = "lessr " + vh.Hex([]byte(s)) + " " + vh.Hex([]byte(t)) + " " + pl
		out.Case(op, exec(op), "lessr@/"+plClass(pl), true)
	}
	if tier == "thorough" {
		// exhaustive: for every tail length 1..15 and every position, each byte class, rest zero / 0x80
		for n := 1; n <= 15; n++ {
			for pos := 0; pos < n; pos++ {
				for _, c := range classes {
					for _, fill := range []byte{0, 0x80} {
						for _, pre := range []int{0, 16} {
							k := make([]byte, pre+n)
							for i := range k {
								k[i] = fill
							}
							k[pre+pos] = c
							op := "murmur " + vh.Hex(k)
							out.Case(op, exec(op), "murmur/exh", true)
						}
					}
				}
			}
		}
	}
	for i := 0; i < 2000*mult; i++ {
		k := genKey(r, r.Intn(40))
		d := md5.Sum(k)
		op := "random " + vh.Hex(d[:]) + " " + vh.Hex(k)
		cls := "random/pos"
		if d[0] > 127 {
			cls = "random/neg"
		}
		out.Case(op, exec(op), cls, true)
	}
	for i := 0; i < 3000*mult; i++ {
		a := genKey(r, r.Intn(6))
		var b []byte
		switch r.Intn(4) {
		case 0:
			b = append([]byte{}, a...)
		case 1:
			b = append(append([]byte{}, a...), genKey(r, 1+r.Intn(2))...)
		case 2:
			b = append([]byte{}, a...)
			if len(b) > 0 {
				b[r.Intn(len(b))] ^= byte(1 << uint(r.Intn(8)))
			}
		default:
			b = genKey(r, r.Intn(6))
		}
		if r.Bool() {
			a, b = b, a
		}
		op := "ordlt " + vh.Hex(a) + " " + vh.Hex(b)
		out.Case(op, exec(op), "ordlt", len(a)+len(b) > 0)
	}
	for i := 0; i < 3000*mult; i++ {
		s := decString(r)
		pn := "parsem"
		if i%5 == 0 {
			s = boundaryToken(r)
		}
		if !canonicalInt64(s) {
			pn = "parsemx" // malformed / out of range / non-canonical: not constrained by the property
		}
		op := pn + " " + vh.Hex([]byte(s))
		out.Case(op, exec(op), pn, true)
		t := decString(r)
		if i%3 == 0 {
			s, t = boundaryToken(r), boundaryToken(r)
		}
		name, cls := "lessm", "lessm/"+tokenPairClass(s, t)
		if !canonicalInt64(s) || !canonicalInt64(t) {
			// malformed / out-of-range / non-canonical strings: the property does not constrain them (model-vs-code)
			name, cls = "lessmx", "lessmx"
		}
		op = name + " " + vh.Hex([]byte(s)) + " " + vh.Hex([]byte(t))
		out.Case(op, exec(op), cls, true)
	}
	// every ordered pair of the boundary tokens
	for _, s := range boundaryTokens {
		for _, t := range boundaryTokens {
			op := "lessm " + vh.Hex([]byte(s)) + " " + vh.Hex([]byte(t))
			out.Case(op, exec(op), "lessm/"+tokenPairClass(s, t), true)
		}
	}
	// Less on the tokens of hashed keys
	for i := 0; i < 1500*mult; i++ {
		a, b := genKey(r, r.Intn(24)), genKey(r, r.Intn(24))
		if r.Intn(8) == 0 {
			b = a
		}
		op := "hlessm " + vh.Hex(a) + " " + vh.Hex(b)
		out.Case(op, exec(op), "hlessm", true)
		if i%3 == 0 {
			da, db := md5.Sum(a), md5.Sum(b)
			op = "hlessr " + vh.Hex(da[:]) + " " + vh.Hex(a) + " " + vh.Hex(db[:]) + " " + vh.Hex(b)
			out.Case(op, exec(op), "hlessr", true)
		}
	}
	// the token ring order: hosts with 1..8 tokens each, shuffled, over the full token range
	for i := 0; i < 600*mult; i++ {
		kind := []string{"m", "m", "m", "r", "o"}[r.Intn(5)]
		nh := 1 + r.Intn(6)
		var sb strings.Builder
		sb.WriteString("ringsort " + kind)
		n := 0
		for h := 0; h < nh; h++ {
			if h > 0 {
				sb.WriteString(" /")
			}
			for k := 0; k <= r.Intn(8); k++ {
				n++
				switch kind {
				case "m":
					if r.Intn(3) == 0 {
						sb.WriteString(" " + boundaryToken(r))
					} else {
						sb.WriteString(" " + fmt.Sprint(int64(r.U64())))
					}
				case "r":
					sb.WriteString(" " + natString(r))
				default:
					sb.WriteString(" " + vh.Hex(genKey(r, r.Intn(5))))
				}
			}
		}
		op := sb.String()
		out.Case(op, exec(op), fmt.Sprintf("ringsort/%s/%d", kind, (n+3)/4*4), true)
	}
	// routing keys through the real Session.routingKeyInfo: statement shapes x metadata source x key types
	g := &valgen.Gen{R: r}
	for i := 0; i < 2500*mult; i++ {
		c, sb, cls := genRkm(r, g)
		name := "rkm"
		if !sb {
			name = "rkmx"
		}
		op := c.op(name)
		out.Case(op, exec(op), cls, true)
		if i%5 == 0 {
			// the same statement with its []byte / string values lying at odd addresses
			op += " " + genPl(r, -1)
			out.Case(op, exec(op), "rkm@/"+name, true)
		}
	}
	for i := 0; i < 2000*mult; i++ {
		s, t := bigString(r), bigString(r)
		if r.Intn(4) == 0 {
			t = s
		}
		op := "parser " + vh.Hex([]byte(s))
		out.Case(op, exec(op), "parser", true)
		op = "lessr " + vh.Hex([]byte(s)) + " " + vh.Hex([]byte(t))
		out.Case(op, exec(op), "lessr", true)
		if i%8 == 0 {
			op = "parserx " + vh.Hex([]byte(bigStringX(r)))
			out.Case(op, exec(op), "parserx", true)
		}
		if i%4 == 0 {
			n, ok := partName(r)
			name := "part"
			if !ok {
				name = "partx"
			}
			op = name + " " + vh.Hex([]byte(n))
			out.Case(op, exec(op), name, true)
		}
	}
	for i := 0; i < 2000*mult; i++ {
		n := 1 + r.Intn(4)
		parts := make([]string, n)
		for j := range parts {
			parts[j] = vh.Hex(genKey(r, r.Intn(20)))
		}
		op := "rkey " + strings.Join(parts, " ")
		out.Case(op, exec(op), fmt.Sprintf("rkey/%d", n), true)
		if i%4 == 0 {
			op = "rkey-held " + strings.Join(parts, " ")
			out.Case(op, exec(op), fmt.Sprintf("rkey-held/%d", n), true)
		}
		if i%4 == 2 {
			// the components as sub-slices at odd addresses / of pooled buffers / string-backed
			pl := genPl(r, -1)
			op = "rkey " + strings.Join(parts, " ") + " " + pl
			out.Case(op, exec(op), fmt.Sprintf("rkey@/%d/%s", n, plClass(pl)), true)
			op = "rkey-held " + strings.Join(parts, " ") + " " + pl
			out.Case(op, exec(op), fmt.Sprintf("rkey-held@/%d", n), true)
		}
		if i%4 == 1 {
			// the same Query object re-bound 2..4 times (Query.Bind): every step's key is the key of THAT step's values
			k := 2 + r.Intn(3)
			steps := []string{strings.Join(parts, " ")}
			for s := 1; s < k; s++ {
				ps := make([]string, n)
				for j := range ps {
					ps[j] = vh.Hex(genKey(r, r.Intn(20)))
					if r.Intn(5) == 0 {
						ps[j] = parts[j] // some components unchanged
					}
				}
				steps = append(steps, strings.Join(ps, " "))
			}
			op = "qrk " + strings.Join(steps, " / ")
			out.Case(op, exec(op), fmt.Sprintf("qrk/%d/steps%d", n, k), true)
			if i%8 == 1 {
				pl := genPl(r, -1)
				op = "qrk " + strings.Join(steps, " / ") + " " + pl
				out.Case(op, exec(op), fmt.Sprintf("qrk@/%d/steps%d", n, k), true)
				op = "qrke " + vh.Hex(genKey(r, r.Intn(40))) + " / " + strings.Join(steps, " / ") + " " + pl
				out.Case(op, exec(op), fmt.Sprintf("qrke@/%d/steps%d", n, k), true)
			}
			if i%16 == 1 {
				op = "qrke " + vh.Hex(genKey(r, r.Intn(12))) + " / " + strings.Join(steps, " / ")
				out.Case(op, exec(op), fmt.Sprintf("qrke/%d/steps%d", n, k), true)
			}
		}
	}
	// name / index resolution: column, table and keyspace names of any spelling, duplicate markers, decoy tables
	for i := 0; i < 3000*mult; i++ {
		c, sb, cls := genRkn(r, g)
		name := "rkn"
		if !sb {
			name = "rknx"
		}
		op := c.op(name)
		out.Case(op, exec(op), cls, true)
		if i%6 == 0 {
			op += " " + genPl(r, -1)
			out.Case(op, exec(op), "rkn@/"+name, true)
		}
	}
	// the Random partitioner on the KEY (the model computes MD5 itself): every length 0..130 (the padding boundaries 55 / 56,
	// 63 / 64 / 65, 119 / 120 included), long keys, placed keys
	for rep := 0; rep < 3*mult; rep++ {
		for n := 0; n <= 130; n++ {
			op := "randomk " + vh.Hex(genKey(r, n))
			out.Case(op, exec(op), fmt.Sprintf("randomk/chunks%d", (n+8)/64+1), n > 0)
		}
	}
	for i := 0; i < 150*mult; i++ {
		op := "randomk " + vh.Hex(genKey(r, 131+r.Intn(1500)))
		if i%3 == 0 {
			op += " " + genPl(r, -1)
		}
		out.Case(op, exec(op), "randomk/long", true)
	}
	// component SIZES at the boundaries of the [short] length, single and composite keys, three entry points (rksz.go)
	szn := 260
	if tier == "thorough" {
		szn = 1500
	}
	for i := 0; i < szn; i++ {
		op, cls := genRksz(r)
		out.Case(op, exec(op), cls, true)
	}
	// concurrent first uses of one statement: conducted schedules of the inflight wait (rkq.go)
	for i := 0; i < 150*mult; i++ {
		c, cls := genRkq(r, g)
		op := c.op()
		out.Case(op, exec(op), cls, true)
	}
	// the routing-key info cache over histories of one session (rkc.go)
	for i := 0; i < 1500*mult; i++ {
		c, safe, cls := genRkc(r, g)
		name := "rkc"
		if !safe {
			name = "rkcx"
		}
		op := c.op(name)
		out.Case(op, exec(op), cls, true)
	}
	out.Close(nil)
}
