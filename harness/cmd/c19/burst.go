// C19, uniqueness under bursts: TimeUUID() = UUIDFromTime(time.Now()) driven far above 16384 calls, with the
// harness's own readings of the same clock taken before and after every chunk of calls.
//
// What makes two generated time-UUIDs equal is fixed by the model (theorem C19_timeuuid_dup_iff): the two steps
// read the same 100 ns tick and are a multiple of 16384 counter increments apart. So uniqueness of TimeUUID()
// rests on two things the code controls — (a) the counter is incremented atomically, once per call, and
// (b) the timestamp stored in the UUID is the 100 ns tick of a reading of the clock taken DURING the call —
// and one thing it does not: that the clock moves on (C19_timeuuid_unique_if_clock_advances; KF-C19-1 is the
// excluded case of two calls on one tick 16384 increments apart).
//
// The burst monitors check (a) and (b) by EVENT ORDER only, no rates, no durations:
//
//	(a) counter: with the counter set to c0 before the burst and N calls in total, the final counter is c0+N
//	    and the 14-bit clock fields of the N results are exactly the residues of c0+1 … c0+N (as a multiset);
//	(b) sandwich: a goroutine reads the wall clock (lo), makes `chunk` calls, reads the wall clock again (hi):
//	    every result of the chunk carries a tick in [tick(lo), tick(hi)], and the ticks of one goroutine's
//	    results never decrease (theorem C19_timeuuid_sandwich: getTimestamp is monotone and the UUID stores
//	    the reading's tick exactly); tick() is computed here, independently of gocql's getTimestamp;
//	(c) every result is a version-1 / RFC 4122 UUID with the node the generator was given;
//	(d) duplicates: a repeated UUID whose two copies both pass (a)–(c) is exactly the excluded condition of
//	    KF-C19-1 (same real 100 ns tick, a multiple of 16384 increments apart — a caller descheduled between
//	    time.Now() and the atomic increment); it is counted, not reported. A repeated UUID together with a
//	    failed (a)/(b) is named in the answer.
//
// A chunk whose two harness readings are themselves inconsistent (wall clock stepped: hi < lo, or wall and
// monotonic deltas disagree) is left out of (b).
package main

import (
	"fmt"
	"strings"
	"sync"
	"time"

	"github.com/gocql/gocql"
	"verifharness/vh"
)

// tick100: 100 ns intervals since 1582-10-15 00:00 UTC of a wall-clock reading (RFC 4122 §4.1.4), written
// independently of uuid.go.
func tick100(t time.Time) int64 {
	const gregorianToUnix = 12219292800 // seconds from 1582-10-15 to 1970-01-01
	return (t.Unix()+gregorianToUnix)*10000000 + int64(t.Nanosecond())/100
}

type bracket struct {
	lo, hi int64 // harness ticks before / after the chunk
	usable bool
}

type burstStats struct {
	bursts, calls, chunks, unusable int
	maxPerTick                      int   // most results carrying one tick value
	minChunkAdvance                 int64 // smallest hi-lo over the usable chunks (ticks)
	gcdTicks                        int64 // gcd of (tick - first tick) over all results
	kf1Dups                         int   // duplicates inside the excluded condition of KF-C19-1
	maxOwnCallsOnTick               int   // most consecutive calls of ONE goroutine while its own clock readings stayed on one tick
	distinctTicks                   int
}

var bstats = burstStats{minChunkAdvance: 1 << 62}

func gcd64(a, b int64) int64 {
	if a < 0 {
		a = -a
	}
	if b < 0 {
		b = -b
	}
	for b != 0 {
		a, b = b, a%b
	}
	return a
}

// burst: c0 = counter before, g goroutines x n calls, harness clock readings around every `chunk` calls.
func burst(c0 uint32, g, n, chunk int, hw []byte) string {
	if g < 1 || n < 1 || chunk < 1 || g*n > 1<<22 {
		panic("bad-op: burst size")
	}
	old := gocql.VerifSetHardwareAddr(hw)
	defer gocql.VerifSetHardwareAddr(old)
	gocql.VerifSetClockSeq(c0)

	res := make([][]gocql.UUID, g)
	brs := make([][]bracket, g)
	for i := range res {
		res[i] = make([]gocql.UUID, n)
		brs[i] = make([]bracket, 0, (n+chunk-1)/chunk)
	}
	var wg sync.WaitGroup
	start := make(chan struct{})
	for i := 0; i < g; i++ {
		wg.Add(1)
		go func(out []gocql.UUID, br *[]bracket) {
			defer wg.Done()
			<-start
			for c := 0; c < len(out); c += chunk {
				e := c + chunk
				if e > len(out) {
					e = len(out)
				}
				t0 := time.Now()
				for k := c; k < e; k++ {
					out[k] = gocql.TimeUUID()
				}
				t1 := time.Now()
				lo, hi := tick100(t0), tick100(t1)
				// the harness's own pair of readings must be consistent: wall clock not stepped in between
				mono := t1.Sub(t0)
				wall := t1.Round(0).Sub(t0.Round(0))
				d := mono - wall
				if d < 0 {
					d = -d
				}
				ok := hi >= lo && d <= time.Microsecond+mono/1000
				*br = append(*br, bracket{lo, hi, ok})
			}
		}(res[i], &brs[i])
	}
	close(start)
	wg.Wait()
	final := gocql.VerifClockSeq()

	N := g * n
	bstats.bursts++
	bstats.calls += N
	var problems []string
	add := func(f string, a ...interface{}) {
		if len(problems) < 4 {
			problems = append(problems, fmt.Sprintf(f, a...))
		}
	}

	// (a) counter
	if final != c0+uint32(N) {
		add("COUNTER final=%d want=%d after %d calls", final, c0+uint32(N), N)
	}
	cnt := make([]int32, 1<<14)
	for i := 0; i < N; i++ {
		cnt[(c0+1+uint32(i))&0x3fff]++
	}
	for _, l := range res {
		for _, u := range l {
			cnt[u.Clock()&0x3fff]--
		}
	}
	for v, c := range cnt {
		if c != 0 {
			add("CLOCK-FIELD value %d handed out %+d times more than the counter sequence %d+1..%d+%d contains it", v, -c, c0, c0, N)
			break
		}
	}

	// (b), (c)
	base := res[0][0].Timestamp()
	perTick := make(map[int64]int, N/4)
	stale, nonmono, shape := 0, 0, 0
	for gi, l := range res {
		prev := int64(-1 << 62)
		steady := true
		for _, b := range brs[gi] {
			if !b.usable {
				steady = false
			}
		}
		for k, u := range l {
			ts := u.Timestamp()
			if u.Version() != 1 || u.Variant() != gocql.VariantIETF || string(u.Node()) != string(nodeOf(hw)) {
				if shape == 0 {
					add("SHAPE goroutine=%d call=%d uuid=%s version=%d variant=%d node=%x", gi, k, u, u.Version(), u.Variant(), u.Node())
				}
				shape++
				continue
			}
			b := brs[gi][k/chunk]
			if b.usable && (ts < b.lo || ts > b.hi) {
				if stale == 0 {
					add("TIMESTAMP-NOT-A-READING goroutine=%d call=%d uuid=%s: its timestamp %d is outside [%d,%d], the 100ns ticks of the wall clock read before and after the %d call(s) (%+d ticks from the nearer end)",
						gi, k, u, ts, b.lo, b.hi, chunk, nearer(ts, b.lo, b.hi))
				}
				stale++
			}
			if steady && ts < prev {
				if nonmono == 0 {
					add("TIMESTAMP-DECREASES goroutine=%d call=%d uuid=%s: timestamp %d after %d in the previous call of the same goroutine", gi, k, u, ts, prev)
				}
				nonmono++
			}
			prev = ts
			perTick[ts]++
			bstats.gcdTicks = gcd64(bstats.gcdTicks, ts-base)
		}
		// hypothesis of C19_timeuuid_unique_monotone_clock observed on the real time source: how many consecutive
		// calls one goroutine makes while the harness's readings of the clock stay on one 100 ns tick (the theorem
		// needs fewer than 16384 in total; g goroutines make at most g times this many)
		stretch, from := 0, int64(-1)
		for _, b := range brs[gi] {
			if b.usable && b.lo == from && b.hi == from {
				stretch += chunk
			} else if b.usable && b.lo == b.hi {
				stretch, from = chunk, b.lo
			} else {
				stretch, from = 0, -1
			}
			if stretch > bstats.maxOwnCallsOnTick {
				bstats.maxOwnCallsOnTick = stretch
			}
		}
		for _, b := range brs[gi] {
			bstats.chunks++
			if !b.usable {
				bstats.unusable++
			} else if b.hi-b.lo < bstats.minChunkAdvance {
				bstats.minChunkAdvance = b.hi - b.lo
			}
		}
	}
	for _, c := range perTick {
		if c > bstats.maxPerTick {
			bstats.maxPerTick = c
		}
	}
	bstats.distinctTicks += len(perTick)

	// (d) duplicates
	seen := make(map[gocql.UUID]int32, N)
	dups := 0
	var firstDup string
	for gi, l := range res {
		for k, u := range l {
			if at, dup := seen[u]; dup {
				if dups == 0 {
					firstDup = fmt.Sprintf("%s returned by goroutine %d call %d and goroutine %d call %d (timestamp %d clock %d)", u, int(at)/n, int(at)%n, gi, k, u.Timestamp(), u.Clock())
				}
				dups++
			} else {
				seen[u] = int32(gi*n + k)
			}
		}
	}
	if len(problems) == 0 {
		bstats.kf1Dups += dups
		return fmt.Sprintf("ok ctr=%d", final)
	}
	if stale > 0 {
		problems = append(problems, fmt.Sprintf("%d of %d results outside their interval", stale, N))
	}
	if dups > 0 {
		problems = append(problems, fmt.Sprintf("DUPLICATES %d: %s", dups, firstDup))
	} else {
		problems = append(problems, "no duplicate in this run")
	}
	return strings.Join(problems, "; ")
}

func nearer(ts, lo, hi int64) int64 {
	if ts < lo {
		return ts - lo
	}
	return ts - hi
}

// nodeOf: the node field TimeUUIDWith produces from a hardware address (at most 6 bytes, zero padded).
func nodeOf(hw []byte) []byte {
	n := make([]byte, 6)
	copy(n, hw)
	return n
}

// genrun: a generator run under a CONTROLLED clock — the counter set to c0, then n calls of UUIDFromTime(t_k)
// with t_k = (sec, nsec) + (k / every) * stepns nanoseconds: the reading moves on by stepns every `every` calls.
// Answer: distinct|dup:<i>,<j> (first repeated result, 0-based call numbers) first=<uuid> last=<uuid> ctr=<counter>.
func genrun(c0 uint32, hw []byte, sec, nsec int64, n, every int, stepns int64) string {
	if n < 1 || n > 1<<20 || every < 1 || stepns < 0 {
		panic("bad-op: genrun")
	}
	old := gocql.VerifSetHardwareAddr(hw)
	defer gocql.VerifSetHardwareAddr(old)
	gocql.VerifSetClockSeq(c0)
	seen := make(map[gocql.UUID]int, n)
	verdict := "distinct"
	var first, last gocql.UUID
	for k := 0; k < n; k++ {
		t := time.Unix(sec, nsec+int64(k/every)*stepns)
		u := gocql.UUIDFromTime(t)
		if k == 0 {
			first = u
		}
		last = u
		if at, dup := seen[u]; dup {
			if verdict == "distinct" {
				verdict = fmt.Sprintf("dup:%d,%d", at, k)
			}
		} else {
			seen[u] = k
		}
	}
	return fmt.Sprintf("%s first=%s last=%s ctr=%d", verdict, vh.Hex(first[:]), vh.Hex(last[:]), gocql.VerifClockSeq())
}

// runBursts: the burst / controlled-clock cases of one run.
func runBursts(r *vh.Rng, out *vh.Out, mult int) {
	type shape struct{ g, n, chunk int }
	shapes := []shape{{8, 32768, 64}, {8, 32768, 1}, {4, 16384, 1}, {1, 65536, 16}, {16, 8192, 256}, {2, 20000, 7}, {3, 5462, 2}}
	reps := 1
	if mult > 1 {
		reps = 10
	}
	for k := 0; k < reps; k++ {
		for _, s := range shapes {
			c0 := genClock(r)
			if r.Intn(3) == 0 { // the burst crosses the 2^32 wrap of the counter
				c0 = uint32(0) - uint32(r.Intn(s.g*s.n))
			}
			op := fmt.Sprintf("burst %d %d %d %d %s", c0, s.g, s.n, s.chunk, vh.Hex(r.Bytes(6)))
			cls := "burst/total>16384"
			if s.g*s.n <= 16384 {
				cls = "burst/total<=16384"
			}
			out.Case(op, exec(op), cls, k == 0)
		}
	}
	// controlled clock: UUIDFromTime with a reading that moves on every `every` calls
	for i := 0; i < 12*mult; i++ {
		n := []int{16385, 20000, 32769, 40000, 49153, 70000}[r.Intn(6)]
		if mult == 1 && n > 40000 && i%4 != 0 {
			n = 20000
		}
		every := []int{1, 2, 100, 4096, 8192, 16383, 16384}[r.Intn(7)]
		if r.Intn(3) == 0 {
			every = 1 + r.Intn(16384)
		}
		stepns := []int64{100, 100, 101, 199, 200, 1000, 1000000, 100 + int64(r.Intn(5000))}[r.Intn(8)]
		sec, nsec, _ := genTime(r)
		if sec < timeBase+1 || sec > maxSec-1000 {
			sec = 1700000000 + int64(r.Intn(1<<28))
		}
		c0 := genClock(r)
		if r.Intn(3) == 0 {
			c0 = uint32(0) - uint32(r.Intn(n))
		}
		op := fmt.Sprintf("genrun %d %s %d %d %d %d %d", c0, vh.Hex(r.Bytes(6)), sec, nsec, n, every, stepns)
		out.Case(op, exec(op), "genrun/clock-advances-every<=16384", true)
	}
	// the excluded condition (KF-C19-1): the reading stays on one 100 ns tick for more than 16384 calls —
	// model vs code only (op word genrunx)
	for i := 0; i < 4*mult; i++ {
		n := 16385 + r.Intn(20000)
		every, stepns := 16385+r.Intn(20000), int64(100)
		if r.Bool() { // the reading moves, but by less than a tick
			every, stepns = 1+r.Intn(4), int64(r.Intn(2))
		}
		sec := 1700000000 + int64(r.Intn(1<<28))
		op := fmt.Sprintf("genrunx %d %s %d %d %d %d %d", genClock(r), vh.Hex(r.Bytes(6)), sec, int64(r.Intn(1000000))*100, n, every, stepns)
		out.Case(op, exec(op), "genrunx/KF-C19-1-same-tick-16384-apart", true)
	}
}

func burstSummary() map[string]interface{} {
	keys := map[string]interface{}{
		"burst_bursts":                                bstats.bursts,
		"burst_calls":                                 bstats.calls,
		"burst_chunks":                                bstats.chunks,
		"burst_chunks_unusable":                       bstats.unusable,
		"burst_max_results_on_tick":                   bstats.maxPerTick,
		"burst_gcd_of_ticks":                          bstats.gcdTicks,
		"burst_min_chunk_advance":                     bstats.minChunkAdvance,
		"burst_kf1_duplicates":                        bstats.kf1Dups,
		"burst_max_own_consecutive_calls_on_one_tick": bstats.maxOwnCallsOnTick,
		"burst_distinct_ticks":                        bstats.distinctTicks,
	}
	return keys
}
