// Harness for C19 (UUIDs): generates strings / 128-bit values / times / generator states, runs the
// real gocql code (uuid.go) on each, writes op lines + implementation answers for comparison with the
// Lean model (lean/Model/Uuid.lean).
package main

import (
	"bytes"
	"crypto/rand"
	"encoding/hex"
	"encoding/json"
	"fmt"
	"strconv"
	"strings"
	"sync"
	"time"

	"github.com/gocql/gocql"
	"verifharness/vh"
)

func uuidOf(b []byte) gocql.UUID {
	if len(b) != 16 {
		panic("bad-op: uuid needs 16 bytes")
	}
	u, err := gocql.UUIDFromBytes(b)
	if err != nil {
		panic(err)
	}
	return u
}

func exec(op string) (res string) {
	defer func() {
		if r := recover(); r != nil {
			res = fmt.Sprintf("crash:%v", r)
		}
	}()
	w := strings.Fields(op)
	if len(w) == 0 {
		return "bad-op"
	}
	hx := func(i int) []byte {
		b, err := vh.UnHex(w[i])
		if err != nil {
			panic("bad hex")
		}
		return b
	}
	i64 := func(i int) int64 {
		v, err := strconv.ParseInt(w[i], 10, 64)
		if err != nil {
			panic("bad int")
		}
		return v
	}
	if a, ok := execDecode(w, hx); ok {
		return a
	}
	switch w[0] {
	case "parse":
		s := string(hx(1))
		u, err := gocql.ParseUUID(s)
		// the text/JSON unmarshalers are thin wrappers: must agree
		var u2 gocql.UUID
		err2 := u2.UnmarshalText([]byte(s))
		if (err == nil) != (err2 == nil) || u != u2 {
			return "inconsistent:UnmarshalText"
		}
		if err != nil {
			if u != (gocql.UUID{}) {
				return "inconsistent:nonzero-on-error"
			}
			return "err"
		}
		return vh.Hex(u[:])
	case "print":
		u := uuidOf(hx(1))
		s := u.String()
		t, _ := u.MarshalText()
		j, _ := u.MarshalJSON()
		if string(t) != s || string(j) != `"`+s+`"` {
			return "inconsistent:Marshal"
		}
		return s
	case "roundtrip":
		u := uuidOf(hx(1))
		v, err := gocql.ParseUUID(u.String())
		if err != nil {
			return "err"
		}
		var v2 gocql.UUID
		j, _ := json.Marshal(u)
		if err := json.Unmarshal(j, &v2); err != nil || v2 != v {
			return "inconsistent:json"
		}
		return vh.Hex(v[:])
	case "fields":
		u := uuidOf(hx(1))
		node := "nil"
		if n := u.Node(); n != nil {
			node = vh.Hex(n)
		}
		tm := "zero"
		if t := u.Time(); !t.IsZero() {
			tm = fmt.Sprintf("%d.%d", t.Unix(), t.Nanosecond())
		}
		return fmt.Sprintf("v=%d var=%d ts=%d clock=%d node=%s time=%s", u.Version(), u.Variant(), u.Timestamp(), u.Clock(), node, tm)
	case "with":
		c, err := strconv.ParseUint(w[2], 10, 32)
		if err != nil {
			panic("bad clock")
		}
		u := gocql.TimeUUIDWith(i64(1), uint32(c), hx(3))
		return vh.Hex(u[:])
	case "minmax":
		sec, nsec := i64(1), i64(2)
		// the zone must not matter (getTimestamp converts to UTC): derive one from the input
		zone := time.FixedZone("z", int((sec%27-13)*3600+(nsec%4)*900))
		t := time.Unix(sec, nsec).In(zone)
		a, b := gocql.MinTimeUUID(t), gocql.MaxTimeUUID(t)
		return vh.Hex(a[:]) + " " + vh.Hex(b[:])
	case "gen":
		c, err := strconv.ParseUint(w[1], 10, 32)
		if err != nil {
			panic("bad clock")
		}
		hw := hx(2)
		old := gocql.VerifSetHardwareAddr(hw)
		defer gocql.VerifSetHardwareAddr(old)
		gocql.VerifSetClockSeq(uint32(c))
		u := gocql.UUIDFromTime(time.Unix(i64(3), i64(4)))
		return vh.Hex(u[:]) + " " + fmt.Sprint(gocql.VerifClockSeq())
	case "rand":
		b := hx(1)
		old := rand.Reader
		rand.Reader = bytes.NewReader(b)
		defer func() { rand.Reader = old }()
		u, err := gocql.RandomUUID()
		if err != nil {
			return "err"
		}
		return vh.Hex(u[:])
	case "conc":
		g, n := int(i64(1)), int(i64(2))
		return concurrent(g, n)
	case "burst":
		c, err := strconv.ParseUint(w[1], 10, 32)
		if err != nil {
			panic("bad clock")
		}
		return burst(uint32(c), int(i64(2)), int(i64(3)), int(i64(4)), hx(5))
	case "sched", "schedx":
		return execSched(w)
	case "genrun", "genrunx":
		c, err := strconv.ParseUint(w[1], 10, 32)
		if err != nil {
			panic("bad clock")
		}
		return genrun(uint32(c), hx(2), i64(3), i64(4), int(i64(5)), int(i64(6)), i64(7))
	// ---- property oracles: what the property demands, evaluated on the real code
	case "tsround":
		c, err := strconv.ParseUint(w[2], 10, 32)
		if err != nil {
			panic("bad clock")
		}
		u := gocql.TimeUUIDWith(i64(1), uint32(c), hx(3))
		node := "nil"
		if n := u.Node(); n != nil {
			node = vh.Hex(n)
		}
		return fmt.Sprintf("ts=%d v=%d var=%d clock=%d node=%s", u.Timestamp(), u.Version(), u.Variant(), u.Clock(), node)
	case "timeround":
		t := time.Unix(i64(1), i64(2))
		f := func(u gocql.UUID) string {
			x := u.Time()
			if x.IsZero() {
				return "zero"
			}
			return fmt.Sprintf("%d.%d", x.Unix(), x.Nanosecond())
		}
		return f(gocql.MinTimeUUID(t)) + " " + f(gocql.MaxTimeUUID(t))
	case "bound":
		t := time.Unix(i64(1), i64(2))
		u := uuidOf(hx(3))
		if cassLe(gocql.MinTimeUUID(t), u) && cassLe(u, gocql.MaxTimeUUID(t)) {
			return "bounded"
		}
		return "NOT-BOUNDED"
	case "range":
		// what the two documented range queries select, decided by the real Min/MaxTimeUUID and Cassandra's order
		ta, tb := time.Unix(i64(1), i64(2)), time.Unix(i64(3), i64(4))
		u := uuidOf(hx(5))
		io := func(b bool) string {
			if b {
				return "in"
			}
			return "out"
		}
		incl := cassLe(gocql.MinTimeUUID(ta), u) && cassLe(u, gocql.MaxTimeUUID(tb))
		excl := !cassLe(u, gocql.MaxTimeUUID(ta)) && !cassLe(gocql.MinTimeUUID(tb), u)
		return "incl=" + io(incl) + " excl=" + io(excl)
	case "casscmp":
		a, b := uuidOf(hx(1)), uuidOf(hx(2))
		c := javaCompare(a, b)
		if (c <= 0) != cassLe(a, b) || (c >= 0) != cassLe(b, a) {
			return "HARNESS-ORDERS-DISAGREE"
		}
		r := "gt"
		if c <= 0 {
			r = "le"
		}
		if c >= 0 {
			return r + " ge"
		}
		return r + " lt"
	case "genord":
		// two GENERATED time-UUIDs (UUIDFromTime, whatever the counter and node are right now) under Cassandra's order
		ta, tb := time.Unix(i64(1), i64(2)), time.Unix(i64(3), i64(4))
		u := gocql.UUIDFromTime(ta)
		v := gocql.UUIDFromTime(tb)
		uv, vu := cassLe(u, v), cassLe(v, u)
		ord := "same-tick"
		switch {
		case tickOf(i64(1), i64(2)) == tickOf(i64(3), i64(4)):
			if !uv && !vu {
				ord = "NOT-TOTAL"
			}
		case uv && !vu:
			ord = "lt"
		case vu && !uv:
			ord = "gt"
		default:
			ord = "UNORDERED"
		}
		bounds := "ok"
		if !cassLe(gocql.MinTimeUUID(ta), u) || !cassLe(u, gocql.MaxTimeUUID(ta)) || !cassLe(gocql.MinTimeUUID(tb), v) || !cassLe(v, gocql.MaxTimeUUID(tb)) {
			bounds = "OUTSIDE"
		}
		return ord + " bounds=" + bounds
	case "randn":
		// RandomUUID / MustRandomUUID when the random source can deliver only these bytes
		b := hx(1)
		old := rand.Reader
		defer func() { rand.Reader = old }()
		rand.Reader = bytes.NewReader(b)
		u, err := gocql.RandomUUID()
		rand.Reader = bytes.NewReader(b)
		must := func() (res string) {
			defer func() {
				if recover() != nil {
					res = "panic"
				}
			}()
			if m := gocql.MustRandomUUID(); m != u {
				return "DIFFERENT:" + vh.Hex(m[:])
			}
			return "ok"
		}()
		if err != nil {
			return fmt.Sprintf("err %s must=%s", vh.Hex(u[:]), must)
		}
		return fmt.Sprintf("ok %s v=%d var=%d must=%s", vh.Hex(u[:]), u.Version(), u.Variant(), must)
	case "mcqlx":
		var v interface{}
		switch w[1] {
		case "unset":
			v = gocql.UnsetValue
		case "nilval":
			v = nil
		case "int":
			v = 5
		case "float":
			v = 1.5
		case "bool":
			v = true
		case "time":
			v = time.Unix(0, 0)
		case "arr15":
			v = [15]byte{}
		case "uuidslice":
			v = []gocql.UUID{{}}
		default:
			panic("bad-op: value kind")
		}
		for _, typ := range []gocql.Type{gocql.TypeUUID, gocql.TypeTimeUUID} {
			b, err := gocql.Marshal(gocql.NewNativeType(4, typ, ""), v)
			if err != nil {
				if typ == gocql.TypeTimeUUID {
					return "err"
				}
				continue
			}
			if b != nil {
				return "ok " + vh.Hex(b)
			}
			if typ == gocql.TypeTimeUUID {
				return "ok null"
			}
		}
		return "INCONSISTENT"
	case "randchk":
		b := hx(1)
		old := rand.Reader
		rand.Reader = bytes.NewReader(b)
		defer func() { rand.Reader = old }()
		u, err := gocql.RandomUUID()
		if err != nil {
			return "err"
		}
		return fmt.Sprintf("v=%d var=%d", u.Version(), u.Variant())
	case "parsechk":
		s := string(hx(1))
		u, err := gocql.ParseUUID(s)
		if err != nil {
			return "ok"
		}
		// accepted: must be exactly 32 hex digits plus hyphens, and the value of the digits
		var ds []byte
		for _, r := range s {
			switch {
			case r == '-':
			case r >= '0' && r <= '9', r >= 'a' && r <= 'f', r >= 'A' && r <= 'F':
				ds = append(ds, byte(r))
			default:
				return "ACCEPTED-OUTSIDE-LANGUAGE"
			}
		}
		want, err := hex.DecodeString(string(ds))
		if len(ds) != 32 || err != nil || !bytes.Equal(want, u[:]) {
			return "ACCEPTED-OUTSIDE-LANGUAGE"
		}
		return "ok"
	}
	return "bad-op"
}

// javaCompare: Cassandra 3.x/4.x TimeUUIDType.compareCustom for two version-1 values, transliterated (as recalled):
//
//	long msb1 = reorderTimestampBytes(b1.getLong(0)), msb2 = …;  int c = Long.compare(msb1, msb2); if (c != 0) return c;
//	return Long.compare(signedBytesToNativeLong(b1.getLong(8)), signedBytesToNativeLong(b2.getLong(8)));
//	reorderTimestampBytes(x) = (x << 48) | ((x << 16) & 0xFFFF00000000L) | (x >>> 32)
//	signedBytesToNativeLong(x) = x ^ 0x0080808080808080L
//
// A second, differently shaped formulation of the order Spec.cassLe states (timestamp, then signed bytes).
func javaCompare(a, b gocql.UUID) int {
	getLong := func(u gocql.UUID, off int) int64 {
		var x uint64
		for i := 0; i < 8; i++ {
			x = x<<8 | uint64(u[off+i])
		}
		return int64(x)
	}
	reorder := func(x int64) int64 {
		return (x << 48) | ((x << 16) & 0xFFFF00000000) | int64(uint64(x)>>32)
	}
	cmp := func(x, y int64) int {
		switch {
		case x < y:
			return -1
		case x > y:
			return 1
		}
		return 0
	}
	if c := cmp(reorder(getLong(a, 0)), reorder(getLong(b, 0))); c != 0 {
		return c
	}
	return cmp(getLong(a, 8)^0x0080808080808080, getLong(b, 8)^0x0080808080808080)
}

// cassLe: Cassandra's TimeUUIDType order, written independently of gocql: RFC 4122 timestamp first,
// then the low 8 bytes as signed bytes.
func cassLe(a, b gocql.UUID) bool {
	ts := func(u gocql.UUID) uint64 {
		lo := uint64(u[0])<<24 | uint64(u[1])<<16 | uint64(u[2])<<8 | uint64(u[3])
		mid := uint64(u[4])<<8 | uint64(u[5])
		hi := (uint64(u[6])<<8 | uint64(u[7])) & 0x0fff
		return hi<<48 | mid<<32 | lo
	}
	if ts(a) != ts(b) {
		return ts(a) < ts(b)
	}
	for i := 8; i < 16; i++ {
		if int8(a[i]) != int8(b[i]) {
			return int8(a[i]) < int8(b[i])
		}
	}
	return true
}

// concurrent generation: g goroutines x n calls of TimeUUID(); supporting evidence for pairwise distinctness.
func concurrent(g, n int) string {
	res := make([][]gocql.UUID, g)
	var wg sync.WaitGroup
	start := make(chan struct{})
	for i := 0; i < g; i++ {
		wg.Add(1)
		go func(i int) {
			defer wg.Done()
			l := make([]gocql.UUID, n)
			<-start
			for k := range l {
				l[k] = gocql.TimeUUID()
			}
			res[i] = l
		}(i)
	}
	close(start)
	wg.Wait()
	seen := make(map[gocql.UUID]struct{}, g*n)
	for _, l := range res {
		for _, u := range l {
			if u.Version() != 1 || u.Variant() != gocql.VariantIETF {
				return "bad-version"
			}
			if _, dup := seen[u]; dup {
				return "duplicate:" + u.String()
			}
			seen[u] = struct{}{}
		}
	}
	return "distinct"
}

const hexLower = "0123456789abcdef"
const hexUpper = "0123456789ABCDEF"

func digits(r *vh.Rng, n int, mode int) []byte {
	b := make([]byte, n)
	for i := range b {
		switch mode {
		case 0:
			b[i] = hexLower[r.Intn(16)]
		case 1:
			b[i] = hexUpper[r.Intn(16)]
		default:
			if r.Bool() {
				b[i] = hexLower[r.Intn(16)]
			} else {
				b[i] = hexUpper[r.Intn(16)]
			}
		}
	}
	return b
}

var nasty = []string{"g", "G", "/", ":", "@", "`", " ", "\t", "\n", "\x00", "_", "+", "{", "}", "x", "X", "０", "١", "ａ", "é", "\xff", "\x80", "\xc3", "\xe2\x80", "−", "–", "‐", "\xc0\xad", "%", "."}

// genString returns a string and its class
func genString(r *vh.Rng) (string, string) {
	d := digits(r, 32, r.Intn(3))
	canon := func() string {
		return string(d[0:8]) + "-" + string(d[8:12]) + "-" + string(d[12:16]) + "-" + string(d[16:20]) + "-" + string(d[20:32])
	}
	withHyphens := func(d []byte, positions []int) string {
		var sb strings.Builder
		for i := 0; i <= len(d); i++ {
			for _, p := range positions {
				if p == i {
					sb.WriteByte('-')
				}
			}
			if i < len(d) {
				sb.WriteByte(d[i])
			}
		}
		return sb.String()
	}
	switch r.Intn(16) {
	case 0:
		return canon(), "parse/canonical"
	case 1:
		return string(d), "parse/nohyphen"
	case 2: // hyphens at random even digit offsets (incl. leading, trailing, repeated)
		k := r.Intn(8)
		ps := make([]int, k)
		for i := range ps {
			ps[i] = 2 * r.Intn(17)
		}
		return withHyphens(d, ps), "parse/even-hyphens"
	case 3: // one hyphen at an odd offset
		ps := []int{2*r.Intn(16) + 1}
		if r.Bool() {
			ps = append(ps, 2*r.Intn(17))
		}
		return withHyphens(d, ps), "parse/odd-hyphen"
	case 4: // wrong digit count
		n := []int{0, 1, 2, 16, 30, 31, 33, 34, 35, 36, 64}[r.Intn(11)]
		dd := digits(r, n, 2)
		if r.Bool() && n >= 20 {
			return string(dd[0:8]) + "-" + string(dd[8:12]) + "-" + string(dd[12:16]) + "-" + string(dd[16:20]) + "-" + string(dd[20:]), "parse/count-canon"
		}
		return string(dd), "parse/count"
	case 5: // a non-hex rune replaces one digit
		s := canon()
		i := r.Intn(len(s))
		return s[:i] + nasty[r.Intn(len(nasty))] + s[i+1:], "parse/replace-nasty"
	case 6: // a non-hex rune inserted
		s := canon()
		i := r.Intn(len(s) + 1)
		return s[:i] + nasty[r.Intn(len(nasty))] + s[i:], "parse/insert-nasty"
	case 7: // byte-level mutation of a canonical string
		b := []byte(canon())
		switch r.Intn(4) {
		case 0:
			b[r.Intn(len(b))] ^= byte(1 << uint(r.Intn(8)))
		case 1:
			i := r.Intn(len(b))
			b = append(b[:i], b[i+1:]...)
		case 2:
			i := r.Intn(len(b))
			b = append(b[:i+1], b[i:]...)
		default:
			i, j := r.Intn(len(b)), r.Intn(len(b))
			b[i], b[j] = b[j], b[i]
		}
		return string(b), "parse/mutated"
	case 8:
		return []string{"", "-", "--", "----", "{" + canon() + "}", "urn:uuid:" + canon(), canon() + " ", " " + canon(), canon() + "\n",
			"0x" + string(d[2:]), canon() + "-", "-" + canon(), canon() + "--", strings.Repeat("-", 40) + string(d), canon() + "0", canon()[:35]}[r.Intn(16)], "parse/special"
	case 9: // boundary runes around the digit ranges
		bs := []byte{'0' - 1, '0', '9', '9' + 1, 'A' - 1, 'A', 'F', 'F' + 1, 'a' - 1, 'a', 'f', 'f' + 1, '-', '-' - 1, '-' + 1}
		b := []byte(string(d))
		b[r.Intn(32)] = bs[r.Intn(len(bs))]
		return string(b), "parse/range-edges"
	case 10: // random bytes
		return string(r.Bytes(r.Intn(40))), "parse/random-bytes"
	case 11: // hyphen after every byte / every 2 bytes
		var ps []int
		step := 2 * (1 + r.Intn(3))
		for p := step; p < 32; p += step {
			ps = append(ps, p)
		}
		return withHyphens(d, ps), "parse/regular-hyphens"
	default:
		return canon(), "parse/canonical"
	}
}

func genUUIDBytes(r *vh.Rng) []byte {
	b := r.Bytes(16)
	switch r.Intn(6) {
	case 0:
		for i := range b {
			b[i] = r.PickByte([]byte{0x00, 0x01, 0x7f, 0x80, 0xff, 0x0f, 0xf0})
		}
	case 1:
		b[6] = 0x10 | b[6]&0x0f
	case 2:
		b[6] = 0x10 | b[6]&0x0f
		b[8] = 0x80 | b[8]&0x3f
	}
	return b
}

// 100ns ticks from 1582-10-15 to the end of the 60-bit range
const timeBase = int64(-12219292800)
const maxSec = timeBase + (1<<60)/10000000

func genTime(r *vh.Rng) (int64, int64, string) {
	nsecs := []int64{0, 1, 99, 100, 101, 999999999, 999999900, 999999899, 500000000}
	ns := nsecs[r.Intn(len(nsecs))]
	if r.Bool() {
		ns = int64(r.Intn(1000000000))
	}
	switch r.Intn(8) {
	case 0:
		secs := []int64{timeBase, timeBase + 1, timeBase - 1, 0, -1, 1, maxSec, maxSec - 1, maxSec + 1, maxSec + 2,
			timeBase + (1<<59)/10000000, 253402300799, -62135596800, timeBase + (1<<32)/10000000, timeBase + (1<<48)/10000000 + 1,
			timeBase + (1<<63)/10000000, timeBase + (1<<63)/10000000 + 1, timeBase - (1<<63)/10000000, timeBase - (1<<63)/10000000 - 1}
		return secs[r.Intn(len(secs))], ns, "time/boundary"
	case 1: // before 1582
		return timeBase - int64(r.Intn(1<<31)), ns, "time/pre-1582"
	case 2: // after 5236 (timestamp needs more than 60 bits)
		return maxSec + int64(r.Intn(1<<34)), ns, "time/post-5236"
	case 3: // around now
		return 1700000000 + int64(r.Intn(1<<28)), ns, "time/now"
	default:
		return timeBase + int64(r.U64()%uint64(maxSec-timeBase)), ns, "time/1582-5236"
	}
}

// tickOf: the 100 ns tick of a representable instant, computed independently of getTimestamp
func tickOf(sec, ns int64) int64 { return (sec-timeBase)*10000000 + ns/100 }

// mkV1 packs a version-1 RFC 4122 UUID from a 60-bit timestamp and 8 low bytes (variant bits forced to 10),
// independently of TimeUUIDWith (RFC 4122 4.1.2: time_low, time_mid, time_hi_and_version)
func mkV1(ts int64, low [8]byte) []byte {
	u := make([]byte, 16)
	t := uint64(ts)
	u[0], u[1], u[2], u[3] = byte(t>>24), byte(t>>16), byte(t>>8), byte(t)
	u[4], u[5] = byte(t>>40), byte(t>>32)
	u[6], u[7] = 0x10|byte(t>>56)&0x0f, byte(t>>48)
	copy(u[8:], low[:])
	u[8] = 0x80 | u[8]&0x3f
	return u
}

// genRange: two representable instants a (given) and b = a moved by a small / large / zero / negative amount, and a
// v1 RFC 4122 UUID whose timestamp sits on, next to, between or far from the two ticks, with extreme low bytes
func genRange(r *vh.Rng, sec, ns int64) (string, string) {
	maxTick := int64(1)<<60 - 1
	if tickOf(sec, ns) > maxTick { // outside the representable range: not the theorem's subject
		sec--
	}
	deltas := []int64{0, 1, 99, 100, 101, 199, 200, 1000, 1000000000, -1, -100, -200, 12345678901}
	d := deltas[r.Intn(len(deltas))]
	if r.Intn(4) == 0 {
		d = int64(r.U64() % (1 << uint(1+r.Intn(50))))
	}
	tot := ns + d
	bsec, bns := sec+tot/1000000000, tot%1000000000
	if bns < 0 {
		bsec, bns = bsec-1, bns+1000000000
	}
	if tickOf(bsec, bns) < 0 || tickOf(bsec, bns) > maxTick || bsec < timeBase {
		bsec, bns = sec, ns
	}
	ta, tb := tickOf(sec, ns), tickOf(bsec, bns)
	var ts int64
	cls := "range/"
	switch r.Intn(8) {
	case 0:
		ts, cls = ta, cls+"on-a"
	case 1:
		ts, cls = tb, cls+"on-b"
	case 2:
		ts, cls = ta-1, cls+"before-a"
	case 3:
		ts, cls = ta+1, cls+"after-a"
	case 4:
		ts, cls = tb-1, cls+"before-b"
	case 5:
		ts, cls = tb+1, cls+"after-b"
	case 6:
		ts, cls = ta+(tb-ta)/2, cls+"middle"
	default:
		ts, cls = int64(r.U64()&uint64(maxTick)), cls+"random"
	}
	if ts < 0 {
		ts = 0
	}
	if ts > maxTick {
		ts = maxTick
	}
	var low [8]byte
	copy(low[:], r.Bytes(8))
	switch r.Intn(4) {
	case 0: // the bounds' own low bytes and their neighbours under the signed-byte order
		for k := range low {
			low[k] = r.PickByte([]byte{0x80, 0x7f, 0x00, 0xff, 0x81, 0x7e})
		}
		low[0] = r.PickByte([]byte{0x80, 0xbf, 0x81, 0xbe, 0xa0})
	case 1:
		low = [8]byte{0x80, 0x80, 0x80, 0x80, 0x80, 0x80, 0x80, 0x80}
	case 2:
		low = [8]byte{0xbf, 0x7f, 0x7f, 0x7f, 0x7f, 0x7f, 0x7f, 0x7f}
	}
	return fmt.Sprintf("range %d %d %d %d %s", sec, ns, bsec, bns, vh.Hex(mkV1(ts, low))), cls
}

func genT(r *vh.Rng) (int64, string) {
	switch r.Intn(6) {
	case 0:
		ts := []int64{0, 1, 1<<60 - 1, 1 << 60, 1<<63 - 1, -1, -1 << 63, 1 << 32, 1<<32 - 1, 1 << 48, 1<<48 - 1, 1 << 56, 0x0123456789abcdef}
		return ts[r.Intn(len(ts))], "with/t-boundary"
	case 1:
		return int64(1) << uint(r.Intn(63)), "with/t-onebit"
	case 2:
		return int64(r.U64()), "with/t-64bit"
	default:
		return int64(r.U64() & (1<<60 - 1)), "with/t-60bit"
	}
}

func genClock(r *vh.Rng) uint32 {
	switch r.Intn(4) {
	case 0:
		return []uint32{0, 1, 0x3fff, 0x4000, 0x7f7f, 0x8080, 0xffff, 0x10000, 0xffffffff, 0xfffffffe, 0x3fff0000}[r.Intn(11)]
	case 1:
		return uint32(r.U64()) & 0x3fff
	default:
		return uint32(r.U64())
	}
}

func main() {
	mode, tier, path := vh.Args()
	if mode == "replay" {
		for _, l := range vh.ReadLines(path) {
			fmt.Println(exec(l))
		}
		return
	}
	r := vh.NewRng(vh.EnvSeed())
	out := vh.NewOut(path)
	mult := 1
	if tier == "thorough" {
		mult = 30
	}
	// (first in the stream: the check driver keeps the first 50 disagreements, and these are the ones that
	// name a failing input of the property itself)
	// destination state of every decoding entry point (spec-backed)
	runDecode(r, out, mult)
	// uniqueness under bursts: TimeUUID() far above 16384 calls with the harness's own clock readings around
	// every chunk (spec-backed monitors), and generator runs under a controlled clock
	runBursts(r, out, mult)
	// error values: Go error type and text of every failing entry point
	runErrs(r, out, mult)
	// concurrent callers as schedules: the interleaving of readings and increments is the input
	runSched(r, out, mult)
	// property oracles on the representable range
	for i := 0; i < 2000*mult; i++ {
		t, cls := genT(r)
		t &= 1<<60 - 1
		op := fmt.Sprintf("tsround %d %d %s", t, genClock(r), vh.Hex(r.Bytes(r.Intn(9))))
		out.Case(op, exec(op), "tsround/"+cls[5:], true)
		sec := timeBase + int64(r.U64()%uint64(maxSec-timeBase))
		ns := int64(r.Intn(1000000000))
		switch r.Intn(8) {
		case 0:
			sec, ns = timeBase, int64(r.Intn(200))
		case 1:
			sec, ns = maxSec, int64(r.Intn(684697600))
		case 2:
			sec, ns = maxSec, 684697599-int64(r.Intn(200))
		case 3:
			ns = []int64{0, 99, 100, 999999999, 999999900}[r.Intn(5)]
		}
		op = fmt.Sprintf("timeround %d %d", sec, ns)
		out.Case(op, exec(op), "timeround", true)
		// a version-1 RFC 4122 UUID of that instant: any clock, any node (all byte classes incl. 0x80 / 0x7f)
		u := gocql.TimeUUIDWith(gocql.VerifGetTimestamp(time.Unix(sec, ns)), genClock(r), genUUIDBytes(r)[:6])
		if r.Intn(3) == 0 {
			for k := 9; k < 16; k++ {
				u[k] = r.PickByte([]byte{0x80, 0x7f, 0x00, 0xff, 0x81, 0x7e})
			}
			u[8] = r.PickByte([]byte{0x80, 0xbf, 0x81, 0xbe, 0xa0})
		}
		op = fmt.Sprintf("bound %d %d %s", sec, ns, vh.Hex(u[:]))
		out.Case(op, exec(op), "bound", true)
		{
			op, cls := genRange(r, sec, ns)
			out.Case(op, exec(op), cls, true)
		}
		{
			// the second instant: the same, one tick / a few ns / a second / far away, before or after
			rop, _ := genRange(r, sec, ns)
			f := strings.Fields(rop)
			gocql.VerifSetClockSeq(genClock(r))
			op = fmt.Sprintf("genord %s %s %s %s", f[1], f[2], f[3], f[4])
			if r.Bool() {
				op = fmt.Sprintf("genord %s %s %s %s", f[3], f[4], f[1], f[2])
			}
			out.Case(op, exec(op), "genord", true)
		}
		{
			// two version-1 values (any variant bits): equal / adjacent / random timestamps, low bytes from the sign edges
			mk := func(ts int64) []byte {
				var low [8]byte
				copy(low[:], r.Bytes(8))
				if r.Bool() {
					for k := range low {
						low[k] = r.PickByte([]byte{0x80, 0x7f, 0x00, 0xff, 0x81, 0x7e, 0x01})
					}
				}
				u := mkV1(ts, low)
				u[8] = low[0] // any variant
				return u
			}
			ta := int64(r.U64() & (1<<60 - 1))
			if r.Intn(4) == 0 {
				ta = []int64{0, 1, 1<<60 - 1, 1<<59 - 1, 1 << 59, 1<<48 - 1, 1 << 48, 1<<32 - 1, 1 << 32, 0x0800000000000000, 0x07ffffffffffffff}[r.Intn(11)]
			}
			tb := ta
			switch r.Intn(6) {
			case 0:
				tb = (ta + 1) & (1<<60 - 1)
			case 1:
				tb = ta ^ (1 << uint(r.Intn(60)))
			case 2:
				tb = int64(r.U64() & (1<<60 - 1))
			}
			ua := mk(ta)
			ub := mk(tb)
			if r.Intn(3) == 0 { // equal up to one low byte
				copy(ub[8:], ua[8:])
				ub[8+r.Intn(8)] ^= byte(1 << uint(r.Intn(8)))
			}
			if r.Intn(16) == 0 { // the same timestamp and low bytes (the version nibble may differ: not compared)
				ub = append([]byte{}, ua...)
			}
			op = fmt.Sprintf("casscmp %s %s", vh.Hex(ua), vh.Hex(ub))
			out.Case(op, exec(op), "casscmp", true)
		}
		if i%4 == 0 {
			n := []int{0, 1, 8, 15, 16, 17, 32}[r.Intn(7)]
			op = "randn " + vh.Hex(r.Bytes(n))
			out.Case(op, exec(op), fmt.Sprintf("randn/%d", n), true)
		}
		if i < 64 {
			op = "mcqlx " + []string{"unset", "nilval", "int", "float", "bool", "time", "arr15", "uuidslice"}[i%8]
			out.Case(op, exec(op), "mcqlx", i < 8)
		}
		op = "randchk " + vh.Hex(genUUIDBytes(r))
		out.Case(op, exec(op), "randchk", true)
		s, scls := genString(r)
		op = "parsechk " + vh.Hex([]byte(s))
		out.Case(op, exec(op), "parsechk/"+scls[6:], true)
	}
	accepted := 0
	for i := 0; i < 6000*mult; i++ {
		s, cls := genString(r)
		op := "parse " + vh.Hex([]byte(s))
		a := exec(op)
		if a != "err" {
			cls += "/accepted"
			accepted++
		} else {
			cls += "/rejected"
		}
		out.Case(op, a, cls, true)
	}
	for i := 0; i < 2000*mult; i++ {
		u := genUUIDBytes(r)
		op := "print " + vh.Hex(u)
		out.Case(op, exec(op), "print", true)
		op = "roundtrip " + vh.Hex(u)
		out.Case(op, exec(op), "roundtrip", true)
		op = "rand " + vh.Hex(u)
		out.Case(op, exec(op), "rand", true)
	}
	// every value of the version byte and of the variant byte
	for k := 0; k < 256; k++ {
		for _, which := range []int{6, 8} {
			u := r.Bytes(16)
			u[which] = byte(k)
			if which == 8 && k%2 == 0 {
				u[6] = 0x10 | u[6]&0x0f
			}
			op := "fields " + vh.Hex(u)
			out.Case(op, exec(op), fmt.Sprintf("fields/sweep-byte%d", which), true)
			op = "rand " + vh.Hex(u)
			out.Case(op, exec(op), "rand", true)
		}
	}
	if tier == "thorough" {
		for a := 0; a < 256; a++ {
			for b := 0; b < 256; b++ {
				u := make([]byte, 16)
				u[6], u[8] = byte(a), byte(b)
				u[0], u[7], u[9], u[15] = byte(b), byte(a^b), byte(a), 0x80
				op := "fields " + vh.Hex(u)
				out.Case(op, exec(op), "fields/exhaustive-6x8", true)
			}
		}
	}
	for i := 0; i < 3000*mult; i++ {
		u := genUUIDBytes(r)
		op := "fields " + vh.Hex(u)
		a := exec(op)
		out.Case(op, a, "fields/"+strings.Fields(a)[0], true)
	}
	for i := 0; i < 3000*mult; i++ {
		t, cls := genT(r)
		op := fmt.Sprintf("with %d %d %s", t, genClock(r), vh.Hex(r.Bytes(r.Intn(9))))
		out.Case(op, exec(op), cls, true)
	}
	for i := 0; i < 3000*mult; i++ {
		sec, ns, cls := genTime(r)
		op := fmt.Sprintf("minmax %d %d", sec, ns)
		out.Case(op, exec(op), "minmax/"+cls, true)
		hw := r.Bytes(6)
		if r.Intn(8) == 0 {
			hw = r.Bytes(r.Intn(9))
		}
		op = fmt.Sprintf("gen %d %s %d %d", genClock(r), vh.Hex(hw), sec, ns)
		out.Case(op, exec(op), "gen/"+cls, true)
	}
	// concurrent generation (supporting evidence): total <= 16384 so that the partial theorem applies
	for _, gn := range [][2]int{{2, 100}, {4, 1000}, {8, 2048}, {16, 1024}, {3, 5461}} {
		reps := 1
		if tier == "thorough" {
			reps = 20
		}
		for k := 0; k < reps; k++ {
			op := fmt.Sprintf("conc %d %d", gn[0], gn[1])
			out.Case(op, exec(op), "conc", k == 0)
		}
	}
	extra := burstSummary()
	extra["parse_accepted"] = accepted
	out.Close(extra)
}
