// C19, concurrent callers as SCHEDULES (Lean: Model/UuidConc.lean, theorems C19_conc_*).
//
// TimeUUID() is two steps per caller: the reading (time.Now()) and UUIDFromTime(reading), whose only shared action
// is one atomic increment. The burst ops run these steps in true parallel and can only OBSERVE the interleaving;
// here the interleaving is the INPUT: real goroutines run in lock-step, each executing exactly the step the
// schedule names — `n<g>` goroutine g reads the (controlled) wall clock, `i<g>` it calls the real
// gocql.UUIDFromTime with the reading it holds, `c<g>` both, `w<d>` the wall clock moves on by d ns,
// `r<k>:<g>:<d>` = k times (w<d>, c<g>). So a reading may be arbitrarily stale when its increment happens, readings
// are not in increment order, and a goroutine may be overtaken by tens of thousands of calls between its two
// steps — the schedule class behind KF-C19-1 (b), reproduced deterministically (theorem C19_conc_dup_descheduled).
//
// Answer: distinct|dup:<i>,<j> n=<returned> ctr=<counter> inflight=<goroutines holding a reading> mon=ok|BROKEN (every
// timestamp inside [tick start, tick of the wall clock], non-decreasing per goroutine) h=<FNV fold of all
// results in return order> [g:uuid … when n <= 24].
package main

import (
	"fmt"
	"strconv"
	"strings"
	"time"

	"github.com/gocql/gocql"
	"verifharness/vh"
)

type schedCmd struct {
	kind byte // 'n' | 'i' | 'q'
	now  time.Time
}

type schedWorker struct {
	cmd     chan schedCmd
	ack     chan *gocql.UUID
	holding bool
	reading time.Time
}

func (w *schedWorker) loop() {
	for c := range w.cmd {
		switch c.kind {
		case 'n':
			if !w.holding { // a goroutine is sequential: no second reading before its call returned
				w.holding, w.reading = true, c.now
			}
			w.ack <- nil
		case 'i':
			if !w.holding {
				w.ack <- nil
				continue
			}
			u, crashed := func() (u gocql.UUID, crashed bool) {
				defer func() {
					if recover() != nil {
						crashed = true
					}
				}()
				return gocql.UUIDFromTime(w.reading), false
			}()
			w.holding = false
			if crashed {
				u = gocql.UUID{0xde, 0xad}
			}
			w.ack <- &u
		default:
			return
		}
	}
}

func sched(c0 uint32, hw []byte, sec, nsec int64, words []string) string {
	old := gocql.VerifSetHardwareAddr(hw)
	defer gocql.VerifSetHardwareAddr(old)
	gocql.VerifSetClockSeq(c0)
	workers := map[int]*schedWorker{}
	defer func() {
		for _, w := range workers {
			close(w.cmd)
		}
	}()
	worker := func(g int) *schedWorker {
		w, ok := workers[g]
		if !ok {
			if len(workers) >= 4096 {
				panic("bad-op: too many goroutines")
			}
			w = &schedWorker{cmd: make(chan schedCmd), ack: make(chan *gocql.UUID)}
			workers[g] = w
			go w.loop()
		}
		return w
	}
	var off int64
	// the zone must not matter: derived from the input
	zone := time.FixedZone("z", int((sec%23-11)*3600))
	wall := func() time.Time { return time.Unix(sec, nsec+off).In(zone) }
	type ret struct {
		g int
		u gocql.UUID
	}
	var outs []ret
	seen := map[gocql.UUID]int{}
	verdict := "distinct"
	mon := "ok"
	lastTs := map[int]int64{}
	// the RFC 4122 timestamp field, read off the bytes independently of gocql's Timestamp()
	tsOf := func(u gocql.UUID) int64 {
		return int64(uint64(u[0])<<24|uint64(u[1])<<16|uint64(u[2])<<8|uint64(u[3])) |
			int64(uint64(u[4])<<40|uint64(u[5])<<32) | int64(uint64(u[6]&0x0f)<<56|uint64(u[7])<<48)
	}
	lo := tick100(time.Unix(sec, nsec))
	h := uint64(14695981039346656037)
	do := func(kind byte, g int) {
		w := worker(g)
		w.cmd <- schedCmd{kind: kind, now: wall()}
		if u := <-w.ack; u != nil {
			if at, dup := seen[*u]; dup {
				if verdict == "distinct" {
					verdict = fmt.Sprintf("dup:%d,%d", at, len(outs))
				}
			} else {
				seen[*u] = len(outs)
			}
			for _, b := range u {
				h = h*1099511628211 + uint64(b)
			}
			// monitors (C19_conc_goroutine_timestamps_monotone): inside [tick start, tick of the wall clock now], and
			// never below the previous result of the same goroutine
			if ts := tsOf(*u); ts < lo || ts > tick100(wall()) || ts < lastTs[g] {
				mon = "BROKEN"
			} else {
				lastTs[g] = ts
			}
			outs = append(outs, ret{g, *u})
		}
	}
	num := func(s string) int64 {
		v, err := strconv.ParseInt(s, 10, 64)
		if err != nil || v < 0 {
			panic("bad-op: schedule word")
		}
		return v
	}
	total := 0
	for _, wd := range words {
		if len(wd) < 2 {
			panic("bad-op: schedule word")
		}
		switch wd[0] {
		case 'n':
			do('n', int(num(wd[1:])))
		case 'i':
			do('i', int(num(wd[1:])))
		case 'c':
			g := int(num(wd[1:]))
			do('n', g)
			do('i', g)
		case 'w':
			off += num(wd[1:])
		case 'r':
			p := strings.Split(wd[1:], ":")
			if len(p) != 3 {
				panic("bad-op: schedule word")
			}
			k, g, d := int(num(p[0])), int(num(p[1])), num(p[2])
			total += k
			if total > 1<<20 {
				panic("bad-op: schedule too long")
			}
			for i := 0; i < k; i++ {
				off += d
				do('n', g)
				do('i', g)
			}
		default:
			panic("bad-op: schedule word")
		}
	}
	inflight := 0
	for _, w := range workers {
		if w.holding {
			inflight++
		}
	}
	var sb strings.Builder
	fmt.Fprintf(&sb, "%s n=%d ctr=%d inflight=%d mon=%s h=%d", verdict, len(outs), gocql.VerifClockSeq(), inflight, mon, h)
	if len(outs) <= 24 {
		for _, o := range outs {
			fmt.Fprintf(&sb, " %d:%s", o.g, vh.Hex(o.u[:]))
		}
	}
	return sb.String()
}

func execSched(w []string) string {
	if len(w) < 5 {
		panic("bad-op: sched")
	}
	c, err := strconv.ParseUint(w[1], 10, 32)
	if err != nil {
		panic("bad clock")
	}
	hw, err := vh.UnHex(w[2])
	if err != nil {
		panic("bad hex")
	}
	sec, err1 := strconv.ParseInt(w[3], 10, 64)
	ns, err2 := strconv.ParseInt(w[4], 10, 64)
	if err1 != nil || err2 != nil || ns < 0 {
		panic("bad time")
	}
	return sched(uint32(c), hw, sec, ns, w[5:])
}

// schedStart: counter (near the 14-bit and 32-bit wraps, random), node, a representable start reading whose
// nanoseconds are near a second boundary half of the time (so that w<d> carries into the seconds)
func schedStart(r *vh.Rng) string {
	c0 := genClock(r)
	switch r.Intn(4) {
	case 0:
		c0 = uint32(0x3ff0 + r.Intn(0x20))
	case 1:
		c0 = uint32(0) - uint32(1+r.Intn(40))
	}
	sec := timeBase + 1 + int64(r.U64()%uint64(maxSec-timeBase-100000)) // the whole schedule stays representable
	if r.Bool() {
		sec = 1700000000 + int64(r.Intn(1<<26))
	}
	ns := int64(r.Intn(1000000000))
	if r.Bool() {
		ns = 999999999 - int64(r.Intn(2000))
	}
	hw := r.Bytes(6)
	if r.Intn(8) == 0 {
		hw = r.Bytes(r.Intn(9))
	}
	return fmt.Sprintf("%d %s %d %d", c0, vh.Hex(hw), sec, ns)
}

var schedDeltas = []int64{0, 1, 99, 100, 101, 199, 200, 1000, 1000000, 999999999, 1000000000}

// runSched: the schedule cases of one run.
func runSched(r *vh.Rng, out *vh.Out, mult int) {
	// (1) random interleavings of few goroutines: every prefix order of readings and increments, stale readings,
	//     ill-timed words (a second reading while holding, an increment without a reading)
	for i := 0; i < 600*mult; i++ {
		g := 1 + r.Intn(6)
		n := 4 + r.Intn(40)
		ws := make([]string, 0, n)
		for k := 0; k < n; k++ {
			switch r.Intn(8) {
			case 0, 1, 2:
				ws = append(ws, fmt.Sprintf("n%d", r.Intn(g)))
			case 3, 4, 5:
				ws = append(ws, fmt.Sprintf("i%d", r.Intn(g)))
			case 6:
				ws = append(ws, fmt.Sprintf("w%d", schedDeltas[r.Intn(len(schedDeltas))]))
			default:
				ws = append(ws, fmt.Sprintf("c%d", r.Intn(g)))
			}
		}
		op := "sched " + schedStart(r) + " " + strings.Join(ws, " ")
		out.Case(op, exec(op), "sched/random-interleaving", true)
	}
	// (2) G goroutines all read (the clock moving or not in between), then increment in a permuted order; then again
	for i := 0; i < 40*mult; i++ {
		g := 2 + r.Intn(200)
		var ws []string
		for round := 0; round < 1+r.Intn(3); round++ {
			d := schedDeltas[r.Intn(len(schedDeltas))]
			for k := 0; k < g; k++ {
				if d > 0 && r.Intn(3) == 0 {
					ws = append(ws, fmt.Sprintf("w%d", d))
				}
				ws = append(ws, fmt.Sprintf("n%d", k))
			}
			perm := make([]int, g)
			for k := range perm {
				perm[k] = k
			}
			for k := g - 1; k > 0; k-- {
				j := r.Intn(k + 1)
				perm[k], perm[j] = perm[j], perm[k]
			}
			skip := r.Intn(g) // one goroutine stays descheduled into the next round
			for _, k := range perm {
				if k != skip || r.Bool() {
					ws = append(ws, fmt.Sprintf("i%d", k))
				}
			}
		}
		op := "sched " + schedStart(r) + " " + strings.Join(ws, " ")
		out.Case(op, exec(op), "sched/read-all-then-increment", true)
	}
	// (3) a caller descheduled between its reading and its increment while the others make k calls, the clock
	//     moving on by d before each of them. At most 16384 returns in total: spec-backed (distinct).
	long := mult // the long schedules cost 10^4..10^5 lock-step hand-overs each: x5 in the thorough tier
	if long > 5 {
		long = 5
	}
	for i := 0; i < 6*long; i++ {
		k := []int{16382, 16000, 8191, 4096, 16381}[r.Intn(5)]
		d := []int64{0, 100, 1000}[r.Intn(3)]
		a, b := r.Intn(k), 0
		b = k - a
		op := fmt.Sprintf("sched %s n0 n1 i1 r%d:1:%d r%d:2:%d i0", schedStart(r), a, d, b, d)
		out.Case(op, exec(op), "sched/descheduled<=16384", true)
	}
	//     More than 16384 returns: the model says exactly which results repeat (C19_conc_dup_iff): with k+1 = 16384m
	//     calls in between and the two readings on one tick the descheduled caller gets a UUID already handed out
	//     (KF-C19-1 b, C19_conc_dup_descheduled) although the clock advanced before every single call; model vs code.
	for i := 0; i < 5*long; i++ {
		k := []int{16383, 16383, 16384, 16382, 32767, 20000}[r.Intn(6)]
		d := []int64{100, 100, 1000, 0, 250}[r.Intn(5)]
		first := "n0 n1"
		if r.Intn(4) == 0 { // the two readings on different ticks: no duplicate
			first = "n0 w100 n1"
		}
		a := r.Intn(k)
		op := fmt.Sprintf("schedx %s %s i1 r%d:1:%d r%d:2:%d i0", schedStart(r), first, a, d, k-a, d)
		out.Case(op, exec(op), "schedx/descheduled>16384", true)
	}
}
