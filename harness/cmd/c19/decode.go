// Destination-state ops of C19: every decoding entry point of the UUID type, called on a destination that
// ALREADY HOLDS a value, and in sequences on one destination (model: lean/Model/UuidDecode.lean).
package main

import (
	"encoding/json"
	"fmt"
	"strconv"
	"strings"
	"time"

	"github.com/gocql/gocql"
	"verifharness/vh"
)

func stat(err error) string {
	if err != nil {
		return "err"
	}
	return "ok"
}

// spy has the same kind ([16]byte), the same pointer-receiver UnmarshalJSON as gocql.UUID: encoding/json treats
// both alike, so the literals it hands to the spy are the literals it hands to gocql.UUID (until the first error).
type spy [16]byte

var spyLits [][]byte

func (s *spy) UnmarshalJSON(d []byte) error {
	spyLits = append(spyLits, append([]byte(nil), d...))
	return nil
}

// jsonLiteral: what encoding/json does with doc for a destination of the given shape, independent of gocql:
// "invalid" (error, UnmarshalJSON never called), "nocall" (no error, never called), "realloc" (a pointer field
// was set to nil by a null and re-allocated) or the comma-separated hex literals passed to UnmarshalJSON in order.
func jsonLiteral(kind string, doc []byte) string {
	spyLits = nil
	var err error
	switch kind {
	case "top":
		var s spy
		err = json.Unmarshal(doc, &s)
	case "field":
		var v struct {
			ID spy `json:"id"`
		}
		err = json.Unmarshal(doc, &v)
	case "ptr":
		var p spy
		v := struct {
			ID *spy `json:"id"`
		}{&p}
		err = json.Unmarshal(doc, &v)
		if v.ID != nil && v.ID != &p {
			// `"id":null` made the pointer nil and a later `"id":…` made encoding/json allocate a fresh value:
			// the old destination is out of the picture (encoding/json behaviour, nothing of gocql involved)
			return "realloc"
		}
	default:
		panic("bad-op: kind")
	}
	if len(spyLits) == 0 {
		if err != nil {
			return "invalid"
		}
		return "nocall"
	}
	hs := make([]string, len(spyLits))
	for i, l := range spyLits {
		hs[i] = vh.Hex(l)
	}
	return strings.Join(hs, ",")
}

func execDecode(w []string, hx func(int) []byte) (string, bool) {
	switch w[0] {
	case "utext":
		u := uuidOf(hx(1))
		err := u.UnmarshalText(hx(2))
		return stat(err) + " " + vh.Hex(u[:]), true
	case "ujson":
		u := uuidOf(hx(1))
		err := u.UnmarshalJSON(hx(2))
		return stat(err) + " " + vh.Hex(u[:]), true
	case "jsonu":
		kind, doc := w[1], hx(3)
		if jsonLiteral(kind, doc) != w[4] {
			return "bad-op:literal", true
		}
		u := uuidOf(hx(2))
		var err error
		switch kind {
		case "top":
			err = json.Unmarshal(doc, &u)
		case "field":
			v := struct {
				ID gocql.UUID `json:"id"`
			}{u}
			err = json.Unmarshal(doc, &v)
			u = v.ID
		case "ptr":
			v := struct {
				ID *gocql.UUID `json:"id"`
			}{&u}
			err = json.Unmarshal(doc, &v)
			if v.ID != nil && v.ID != &u {
				return "reallocated", true
			}
		}
		if w[4] == "nocall" {
			return "nocall " + vh.Hex(u[:]), true
		}
		return stat(err) + " " + vh.Hex(u[:]), true
	case "ucql":
		typ := gocql.TypeUUID
		switch w[1] {
		case "uuid":
		case "timeuuid":
			typ = gocql.TypeTimeUUID
		default:
			panic("bad-op: column type")
		}
		info := gocql.NewNativeType(4, typ, "")
		var data []byte
		if w[4] != "null" {
			data = hx(4)
		}
		var err error
		var rep string
		switch w[2] {
		case "uuid":
			u := uuidOf(hx(3))
			err = gocql.Unmarshal(info, data, &u)
			rep = vh.Hex(u[:])
		case "arr":
			var a [16]byte
			copy(a[:], uuidOf(hx(3)).Bytes())
			err = gocql.Unmarshal(info, data, &a)
			rep = vh.Hex(a[:])
		case "bytes":
			var b []byte
			if w[3] != "nil" {
				b = hx(3)
			}
			err = gocql.Unmarshal(info, data, &b)
			if b == nil {
				rep = "nil"
			} else {
				rep = vh.Hex(b)
				// the destination must own its bytes: the frame buffer `data` is reused by the driver
				if len(data) > 0 && len(b) > 0 && err == nil {
					data[0] ^= 0xff
					if vh.Hex(b) != rep {
						rep = "ALIASES-INPUT:" + rep
					}
					data[0] ^= 0xff
				}
			}
		case "str":
			s := string(hx(3))
			err = gocql.Unmarshal(info, data, &s)
			rep = vh.Hex([]byte(s))
		default:
			panic("bad-op: destination kind")
		}
		return stat(err) + " " + rep, true
	case "ucqlt":
		typ := gocql.TypeUUID
		if w[1] == "timeuuid" {
			typ = gocql.TypeTimeUUID
		} else if w[1] != "uuid" {
			panic("bad-op: column type")
		}
		ps, err1 := strconv.ParseInt(w[2], 10, 64)
		pn, err2 := strconv.ParseInt(w[3], 10, 64)
		if err1 != nil || err2 != nil {
			panic("bad int")
		}
		var data []byte
		if w[4] != "null" {
			data = hx(4)
		}
		t := time.Unix(ps, pn)
		err := gocql.Unmarshal(gocql.NewNativeType(4, typ, ""), data, &t)
		return fmt.Sprintf("%s %d.%d", stat(err), t.Unix(), t.Nanosecond()), true
	case "etext", "ejson", "emcql", "eucql", "eucqlt":
		return execErr(w, hx), true
	case "ucqlum":
		return execCustom(w, hx), true
	case "mcqlm":
		return execCustom(w, hx), true
	case "ucqln":
		// nullable destinations **T: null → nil pointer; else a FRESH value is allocated and decoded into; what the
		// pointer pointed to before must stay as it was
		typ := gocql.TypeUUID
		switch w[1] {
		case "uuid":
		case "timeuuid":
			typ = gocql.TypeTimeUUID
		default:
			panic("bad-op: column type")
		}
		info := gocql.NewNativeType(4, typ, "")
		var data []byte
		if w[4] != "null" {
			data = append([]byte{}, hx(4)...)
		}
		var err error
		var rep string
		switch w[2] {
		case "uuid":
			var p, old *gocql.UUID
			var oldv gocql.UUID
			if w[3] != "nilptr" {
				u := uuidOf(hx(3))
				p, old, oldv = &u, &u, u
			}
			err = gocql.Unmarshal(info, data, &p)
			switch {
			case old != nil && *old != oldv:
				rep = "OLD-POINTEE-WRITTEN"
			case p == nil:
				rep = "nilptr"
			case p == old:
				rep = "SAME-POINTER"
			default:
				rep = vh.Hex(p[:])
			}
		case "arr":
			var p, old *[16]byte
			var oldv [16]byte
			if w[3] != "nilptr" {
				a := [16]byte(uuidOf(hx(3)))
				p, old, oldv = &a, &a, a
			}
			err = gocql.Unmarshal(info, data, &p)
			switch {
			case old != nil && *old != oldv:
				rep = "OLD-POINTEE-WRITTEN"
			case p == nil:
				rep = "nilptr"
			case p == old:
				rep = "SAME-POINTER"
			default:
				rep = vh.Hex(p[:])
			}
		case "bytes":
			var p, old *[]byte
			var oldv string
			if w[3] != "nilptr" {
				var b []byte
				if w[3] != "nil" {
					b = hx(3)
				}
				p, old, oldv = &b, &b, string(b)
			}
			err = gocql.Unmarshal(info, data, &p)
			switch {
			case old != nil && string(*old) != oldv:
				rep = "OLD-POINTEE-WRITTEN"
			case p == nil:
				rep = "nilptr"
			case p == old:
				rep = "SAME-POINTER"
			case *p == nil:
				rep = "nil"
			default:
				rep = vh.Hex(*p)
				if len(data) > 0 && len(*p) > 0 && err == nil { // the destination must own its bytes
					data[0] ^= 0xff
					if vh.Hex(*p) != rep {
						rep = "ALIASES-INPUT:" + rep
					}
					data[0] ^= 0xff
				}
			}
		case "str":
			var p, old *string
			var oldv string
			if w[3] != "nilptr" {
				s := string(hx(3))
				p, old, oldv = &s, &s, s
			}
			err = gocql.Unmarshal(info, data, &p)
			switch {
			case old != nil && *old != oldv:
				rep = "OLD-POINTEE-WRITTEN"
			case p == nil:
				rep = "nilptr"
			case p == old:
				rep = "SAME-POINTER"
			default:
				rep = vh.Hex([]byte(*p))
			}
		default:
			panic("bad-op: destination kind")
		}
		return stat(err) + " " + rep, true
	case "ucqlnt":
		typ := gocql.TypeUUID
		if w[1] == "timeuuid" {
			typ = gocql.TypeTimeUUID
		} else if w[1] != "uuid" {
			panic("bad-op: column type")
		}
		var data []byte
		if w[3] != "null" {
			data = append([]byte{}, hx(3)...)
		}
		var p, old *time.Time
		var oldv time.Time
		if w[2] != "nilptr" {
			sn := strings.SplitN(w[2], ".", 2)
			if len(sn) != 2 {
				panic("bad-op: time")
			}
			ps, err1 := strconv.ParseInt(sn[0], 10, 64)
			pn, err2 := strconv.ParseInt(sn[1], 10, 64)
			if err1 != nil || err2 != nil {
				panic("bad int")
			}
			t := time.Unix(ps, pn)
			p, old, oldv = &t, &t, t
		}
		err := gocql.Unmarshal(gocql.NewNativeType(4, typ, ""), data, &p)
		switch {
		case old != nil && !old.Equal(oldv):
			return stat(err) + " OLD-POINTEE-WRITTEN", true
		case p == nil:
			return stat(err) + " nilptr", true
		case p == old:
			return stat(err) + " SAME-POINTER", true
		}
		return fmt.Sprintf("%s %d.%d", stat(err), p.Unix(), p.Nanosecond()), true
	case "mcqlp":
		var p *gocql.UUID
		if w[1] != "nil" {
			u := uuidOf(hx(1))
			p = &u
		}
		b, err := gocql.Marshal(gocql.NewNativeType(4, gocql.TypeUUID, ""), p)
		if err != nil {
			return "err", true
		}
		if b == nil {
			return "ok null", true
		}
		return "ok " + vh.Hex(b), true
	case "mcql":
		var v interface{}
		switch w[1] {
		case "uuid":
			v = uuidOf(hx(2))
		case "arr":
			v = [16]byte(uuidOf(hx(2)))
		case "bytes":
			var b []byte
			if w[2] != "nil" {
				b = hx(2)
			}
			v = b
		case "str":
			v = string(hx(2))
		default:
			panic("bad-op: value kind")
		}
		b, err := gocql.Marshal(gocql.NewNativeType(4, gocql.TypeUUID, ""), v)
		if err != nil {
			return "err", true
		}
		return "ok " + vh.Hex(b), true
	case "useq":
		u := uuidOf(hx(1))
		info := gocql.NewNativeType(4, gocql.TypeUUID, "")
		var out []string
		for _, st := range w[2:] {
			kv := strings.SplitN(st, ":", 2)
			if len(kv) != 2 {
				panic("bad-op: step")
			}
			var arg []byte
			if kv[1] != "null" {
				b, err := vh.UnHex(kv[1])
				if err != nil {
					panic("bad hex")
				}
				arg = b
			}
			var err error
			switch kv[0] {
			case "t":
				err = u.UnmarshalText(arg)
			case "j":
				err = u.UnmarshalJSON(arg)
			case "c":
				err = gocql.Unmarshal(info, arg, &u)
			default:
				panic("bad-op: step kind")
			}
			out = append(out, stat(err)+":"+vh.Hex(u[:]))
		}
		return strings.Join(out, " "), true
	case "rtdirty":
		prev, u := uuidOf(hx(1)), uuidOf(hx(2))
		bad := func(pair string, got gocql.UUID, err error) string {
			return fmt.Sprintf("MISMATCH:%s=%s/%s", pair, stat(err), vh.Hex(got[:]))
		}
		txt, _ := u.MarshalText()
		js, _ := u.MarshalJSON()
		jm, _ := json.Marshal(u)
		d := prev
		if err := d.UnmarshalText([]byte(u.String())); err != nil || d != u {
			return bad("String->UnmarshalText", d, err), true
		}
		d = prev
		if err := d.UnmarshalText(txt); err != nil || d != u {
			return bad("MarshalText->UnmarshalText", d, err), true
		}
		d = prev
		if err := d.UnmarshalJSON(js); err != nil || d != u {
			return bad("MarshalJSON->UnmarshalJSON", d, err), true
		}
		d = prev
		if err := d.UnmarshalJSON(txt); err != nil || d != u {
			return bad("MarshalText->UnmarshalJSON", d, err), true
		}
		d = prev
		if err := json.Unmarshal(jm, &d); err != nil || d != u {
			return bad("json.Marshal->json.Unmarshal", d, err), true
		}
		v := struct {
			A gocql.UUID  `json:"a"`
			B *gocql.UUID `json:"b"`
		}{prev, new(gocql.UUID)}
		*v.B = prev
		doc, _ := json.Marshal(map[string]gocql.UUID{"a": u, "b": u})
		if err := json.Unmarshal(doc, &v); err != nil || v.A != u || v.B == nil || *v.B != u {
			return bad("json-struct-fields", v.A, err), true
		}
		// CQL: uuid column → *string (dirty) → ParseUUID / marshal of the string → *UUID (dirty)
		info := gocql.NewNativeType(4, gocql.TypeUUID, "")
		s := prev.String()
		if err := gocql.Unmarshal(info, u.Bytes(), &s); err != nil {
			return bad("cql->*string", d, err), true
		}
		if p, err := gocql.ParseUUID(s); err != nil || p != u {
			return bad("cql-*string->ParseUUID", p, err), true
		}
		raw, err := gocql.Marshal(info, s)
		d = prev
		if err == nil {
			err = gocql.Unmarshal(info, raw, &d)
		}
		if err != nil || d != u {
			return bad("cql-string-marshal->*UUID", d, err), true
		}
		return vh.Hex(u[:]), true
	}
	return "", false
}

// ---- generators

// genPrev: what the destination holds before the decode. `want` (may be nil) is the value about to be decoded,
// `last` the previous result on this stream.
func genPrev(r *vh.Rng, want []byte, last []byte) ([]byte, string) {
	p := make([]byte, 16)
	switch r.Intn(8) {
	case 0:
		return p, "prev-zero"
	case 1:
		for i := range p {
			p[i] = 0xff
		}
		return p, "prev-ones"
	case 2:
		if want != nil { // every bit the new value lacks
			for i := range p {
				p[i] = ^want[i]
			}
			return p, "prev-complement"
		}
	case 3:
		if last != nil {
			copy(p, last)
			return p, "prev-last-result"
		}
	case 4: // one bit set
		p[r.Intn(16)] = 1 << uint(r.Intn(8))
		return p, "prev-one-bit"
	case 5:
		if want != nil {
			copy(p, want)
			return p, "prev-equal"
		}
	}
	return r.Bytes(16), "prev-random"
}

// textOf: the value a text would decode to (harness-side, only to aim `genPrev`); nil if not 32 hex digits
func textOf(s string) []byte {
	u, err := gocql.ParseUUID(s)
	if err != nil {
		return nil
	}
	return u[:]
}

// genText: the texts handed to the decoders: everything genString makes plus lengths 0..40 and prefixes
func genText(r *vh.Rng) (string, string) {
	switch r.Intn(10) {
	case 0: // 0..40 hex digits, plain or hyphenated canonically as far as it goes
		n := r.Intn(41)
		dd := digits(r, n, r.Intn(3))
		if r.Bool() {
			var sb strings.Builder
			for i, c := range dd {
				if i == 8 || i == 12 || i == 16 || i == 20 {
					sb.WriteByte('-')
				}
				sb.WriteByte(c)
			}
			return sb.String(), "len-sweep"
		}
		return string(dd), "len-sweep"
	case 1: // total length 0..40 of a canonical text cut or extended
		d := digits(r, 64, 2)
		c := string(d[0:8]) + "-" + string(d[8:12]) + "-" + string(d[12:16]) + "-" + string(d[16:20]) + "-" + string(d[20:])
		return c[:r.Intn(41)], "cut-sweep"
	case 2: // wrappers some UUID parsers accept
		s, _ := genString(r)
		return []string{"{" + s + "}", "urn:uuid:" + s, "URN:UUID:" + s, "0x" + s, "(" + s + ")", "\"" + s + "\"", "'" + s + "'", s + "\x00"}[r.Intn(8)], "wrapped"
	}
	s, cls := genString(r)
	return s, cls[6:]
}

var jsonWS = []string{"", "", " ", "\t", "\n", "\r", " \n\t", "  "}

// genJSONInner: a JSON value (or something that is not one) for a UUID destination
func genJSONInner(r *vh.Rng) (string, string) {
	d := digits(r, 32, r.Intn(3))
	canon := string(d[0:8]) + "-" + string(d[8:12]) + "-" + string(d[12:16]) + "-" + string(d[16:20]) + "-" + string(d[20:32])
	dec := func(n int) string {
		b := make([]byte, n)
		for i := range b {
			b[i] = '0' + byte(r.Intn(10))
		}
		if n > 0 && b[0] == '0' {
			b[0] = '1'
		}
		return string(b)
	}
	switch r.Intn(16) {
	case 0, 1, 2:
		return `"` + canon + `"`, "string-canonical"
	case 3:
		s, _ := genText(r)
		return `"` + s + `"`, "string-text"
	case 4:
		return []string{"null", "true", "false", "0", "-1", "1.5", "1e5", `""`, `"null"`, "[]", "{}", "[1,2]", `{"a":1}`}[r.Intn(13)], "other-value"
	case 5: // a JSON number that happens to be 32 (or 31, 33) hex digits, also negative / with an exponent
		switch r.Intn(5) {
		case 0:
			return dec(32), "number-32-digits"
		case 1:
			return "-" + dec(32), "number-32-digits"
		case 2:
			return dec(29) + "e" + dec(2), "number-32-digits"
		case 3:
			return dec(31 + 2*r.Intn(2)), "number-3x-digits"
		default:
			return dec(16) + "." + dec(16), "number-3x-digits"
		}
	case 6: // escapes inside the string: valid JSON, but the decoder never unescapes
		i := r.Intn(len(canon))
		esc := []string{`0`, `-`, `-`, `\/`, `\n`, `\\`, `\"`, `\u0000`, `é`, `😀`}[r.Intn(10)]
		if r.Bool() {
			return `"` + canon[:i] + esc + canon[i+1:] + `"`, "string-escape"
		}
		return `"` + canon[:i] + esc + canon[i:] + `"`, "string-escape"
	case 7: // not JSON
		return []string{"", canon, `"` + canon, canon + `"`, `'` + canon + `'`, `"` + canon + `",`, `"` + canon + `" x`, `""` + canon + `""`, `nul`, `"` + canon[:20] + "\n" + canon[20:] + `"`, "\xff", `"` + canon + "\x00\""}[r.Intn(12)], "not-json"
	case 8: // non-ASCII / invalid UTF-8 inside a string (valid JSON: replaced by the decoder only when unquoting)
		i := r.Intn(len(canon))
		return `"` + canon[:i] + nasty[16+r.Intn(len(nasty)-16)] + canon[i+1:] + `"`, "string-non-ascii"
	case 9: // length boundary of UnmarshalJSON: 36 / 37 bytes between the quotes
		k := r.Intn(8)
		ps := make([]byte, 0, 40)
		for i := 0; i < 32; i += 2 {
			if k > 0 && r.Intn(3) == 0 {
				ps = append(ps, '-')
				k--
			}
			ps = append(ps, d[i], d[i+1])
		}
		for ; k > 0; k-- {
			ps = append(ps, '-')
		}
		return `"` + string(ps) + `"`, fmt.Sprintf("string-len-%d", len(ps))
	default:
		s, cls := genString(r)
		if strings.ContainsAny(s, "\"\\") {
			return `"` + canon + `"`, "string-canonical"
		}
		return `"` + s + `"`, "string-" + cls[6:]
	}
}

func ws(r *vh.Rng) string { return jsonWS[r.Intn(len(jsonWS))] }

// genJSONDoc: a document for a destination of the given shape
func genJSONDoc(r *vh.Rng, kind string) (string, string) {
	in, cls := genJSONInner(r)
	if kind == "top" {
		return ws(r) + in + ws(r), cls
	}
	key := `"id"`
	switch r.Intn(12) {
	case 0:
		key = `"ID"`
	case 1:
		key = `"Id"`
	case 2:
		key = `"id"`
	}
	switch r.Intn(10) {
	case 0: // the key twice: two decodes into the same field
		in2, _ := genJSONInner(r)
		return "{" + key + ":" + in + "," + ws(r) + `"id":` + ws(r) + in2 + "}", cls + "+dup"
	case 1:
		return `{"other":` + in + `}`, "no-such-key"
	case 2:
		return `{"x":[1,{"id":2}],` + ws(r) + key + ws(r) + ":" + ws(r) + in + ws(r) + `,"y":null}`, cls
	}
	return ws(r) + "{" + ws(r) + key + ws(r) + ":" + ws(r) + in + ws(r) + "}" + ws(r), cls
}

// genUJSON: raw bytes for a direct UnmarshalJSON call
func genUJSON(r *vh.Rng) (string, string) {
	in, cls := genJSONInner(r)
	switch r.Intn(10) {
	case 0: // extra quotes: strings.Trim removes all of them
		return strings.Repeat(`"`, r.Intn(4)) + in + strings.Repeat(`"`, r.Intn(4)), cls + "+quotes"
	case 1: // a quote in the middle survives the trim
		i := r.Intn(len(in) + 1)
		return in[:i] + `"` + in[i:], cls + "+inner-quote"
	case 2: // no quotes at all
		return strings.Trim(in, `"`), cls + "+bare"
	case 3:
		return ws(r) + in + ws(r), cls + "+ws"
	}
	return in, cls
}

var sweepRunes = []string{"g", "G", "/", ":", "@", "`", " ", "\x00", "\"", "\xff", "é", "０", "-"}

// runDecode generates the destination-state part of the campaign
func runDecode(r *vh.Rng, out *vh.Out, mult int) {
	var last []byte
	res := func(a string) {
		// remember the destination after the op as a possible next "previous" value
		f := strings.Fields(a)
		if len(f) == 2 && len(f[1]) == 32 {
			if b, err := vh.UnHex(f[1]); err == nil {
				last = b
			}
		}
	}
	okerr := func(a string) string { return strings.SplitN(a, " ", 2)[0] }
	// (first in the stream: a sequence is self-contained, so for a defect that carries state from one call to the
	// next the first reported disagreement is replayable on its own)
	// sequences on ONE destination: decode a, then b, then an invalid text, then c, ...
	for i := 0; i < 800*mult; i++ {
		p, pc := genPrev(r, nil, last)
		n := 2 + r.Intn(5)
		steps := make([]string, n)
		nerr := 0
		for k := range steps {
			switch r.Intn(5) {
			case 0, 1:
				s, _ := genText(r)
				if r.Intn(3) > 0 {
					s, _ = genString(r)
				}
				steps[k] = "t:" + vh.Hex([]byte(s))
			case 2, 3:
				s, _ := genUJSON(r)
				steps[k] = "j:" + vh.Hex([]byte(s))
			default:
				switch r.Intn(6) {
				case 0:
					steps[k] = "c:null"
				case 1:
					steps[k] = "c:" + vh.Hex(r.Bytes(r.Intn(20)))
				default:
					steps[k] = "c:" + vh.Hex(genUUIDBytes(r))
				}
			}
		}
		op := fmt.Sprintf("useq %s %s", vh.Hex(p), strings.Join(steps, " "))
		a := exec(op)
		nerr = strings.Count(a, "err:")
		cls := "all-ok"
		if nerr == n {
			cls = "all-err"
		} else if nerr > 0 {
			cls = "mixed"
		}
		out.Case(op, a, fmt.Sprintf("useq/%s/%s", pc, cls), true)
	}
	for i := 0; i < 1500*mult; i++ {
		s, cls := genText(r)
		p, pc := genPrev(r, textOf(s), last)
		op := fmt.Sprintf("utext %s %s", vh.Hex(p), vh.Hex([]byte(s)))
		a := exec(op)
		res(a)
		out.Case(op, a, "utext/"+pc+"/"+okerr(a), true)
		out.Dist["utext-text/"+cls+"/"+okerr(a)]++

		s, cls = genUJSON(r)
		p, pc = genPrev(r, textOf(strings.Trim(s, `"`)), last)
		op = fmt.Sprintf("ujson %s %s", vh.Hex(p), vh.Hex([]byte(s)))
		a = exec(op)
		res(a)
		out.Case(op, a, "ujson/"+pc+"/"+okerr(a), true)
		cv := strings.SplitN(cls+"+as-is", "+", 3)
		out.Dist["ujson-data/"+cv[0]+"/"+okerr(a)]++
		out.Dist["ujson-framing/"+cv[1]+"/"+okerr(a)]++

		kind := []string{"top", "field", "ptr"}[r.Intn(3)]
		s, cls = genJSONDoc(r, kind)
		lit := jsonLiteral(kind, []byte(s))
		var want []byte
		if lit != "invalid" && lit != "nocall" && lit != "realloc" {
			ls := strings.Split(lit, ",")
			b, _ := vh.UnHex(ls[len(ls)-1])
			want = textOf(strings.Trim(string(b), `"`))
		}
		p, pc = genPrev(r, want, last)
		op = fmt.Sprintf("jsonu %s %s %s %s", kind, vh.Hex(p), vh.Hex([]byte(s)), lit)
		a = exec(op)
		res(a)
		out.Case(op, a, "jsonu/"+kind+"/"+pc+"/"+okerr(a), true)
		cv = strings.SplitN(cls+"+single", "+", 3)
		out.Dist["jsonu-doc/"+cv[0]+"/"+okerr(a)]++
		out.Dist["jsonu-keys/"+cv[1]+"/"+okerr(a)]++
	}
	// a non-hex rune at EVERY position of the canonical text (and of the bare 32 digits), dirty destination
	for pos := 0; pos < 36; pos++ {
		for _, nr := range sweepRunes {
			d := digits(r, 32, 2)
			canon := string(d[0:8]) + "-" + string(d[8:12]) + "-" + string(d[12:16]) + "-" + string(d[16:20]) + "-" + string(d[20:32])
			s := canon[:pos] + nr + canon[pos+1:]
			if pos < 32 && r.Intn(3) == 0 {
				s = string(d[:pos]) + nr + string(d[pos+1:])
			}
			p, _ := genPrev(r, nil, last)
			op := fmt.Sprintf("utext %s %s", vh.Hex(p), vh.Hex([]byte(s)))
			a := exec(op)
			out.Case(op, a, "utext/position-sweep/"+okerr(a), true)
			op = fmt.Sprintf("ujson %s %s", vh.Hex(p), vh.Hex([]byte(`"`+s+`"`)))
			a = exec(op)
			out.Case(op, a, "ujson/position-sweep/"+okerr(a), true)
		}
	}
	// CQL decode of uuid / timeuuid columns into every destination kind holding something
	for i := 0; i < 1500*mult; i++ {
		col := []string{"uuid", "timeuuid"}[r.Intn(2)]
		kind := []string{"uuid", "arr", "bytes", "str"}[r.Intn(4)]
		var data string
		dcls := "16"
		switch r.Intn(8) {
		case 0:
			data, dcls = "null", "null"
		case 1:
			data, dcls = "-", "empty"
		case 2:
			n := []int{1, 4, 8, 15, 17, 32, 36}[r.Intn(7)]
			data, dcls = vh.Hex(r.Bytes(n)), "wrong-length"
		default:
			data = vh.Hex(genUUIDBytes(r))
		}
		var prev string
		switch kind {
		case "uuid", "arr":
			var want []byte
			if dcls == "16" {
				want, _ = vh.UnHex(data)
			}
			p, _ := genPrev(r, want, last)
			prev = vh.Hex(p)
		case "bytes":
			switch r.Intn(5) {
			case 0:
				prev = "nil"
			case 1:
				prev = "-"
			case 2:
				prev = vh.Hex(r.Bytes(1 + r.Intn(40)))
			default:
				prev = vh.Hex(r.Bytes(16))
			}
		case "str":
			switch r.Intn(4) {
			case 0:
				prev = "-"
			case 1:
				prev = vh.Hex(r.Bytes(1 + r.Intn(40)))
			default:
				s, _ := genText(r)
				prev = vh.Hex([]byte(s))
			}
		}
		op := fmt.Sprintf("ucql %s %s %s %s", col, kind, prev, data)
		a := exec(op)
		res(a)
		out.Case(op, a, "ucql/"+col+"/"+kind+"/"+dcls+"/"+okerr(a), true)
	}
	// timeuuid / uuid columns read into a *time.Time that already holds an instant; CQL marshal of every value kind
	for i := 0; i < 600*mult; i++ {
		col := []string{"timeuuid", "timeuuid", "uuid"}[r.Intn(3)]
		sec, ns, _ := genTime(r)
		if r.Bool() {
			sec = timeBase + int64(r.U64()%uint64(maxSec-timeBase))
		}
		var data, dcls string
		switch r.Intn(8) {
		case 0:
			data, dcls = "null", "null"
		case 1:
			data, dcls = vh.Hex(r.Bytes(r.Intn(20))), "random-length"
		case 2:
			data, dcls = vh.Hex(genUUIDBytes(r)), "any-version"
		default:
			u := gocql.TimeUUIDWith(gocql.VerifGetTimestamp(time.Unix(sec, ns)), genClock(r), r.Bytes(6))
			data, dcls = vh.Hex(u[:]), "v1"
		}
		psec, pns, _ := genTime(r)
		if r.Intn(4) == 0 {
			psec, pns = 0, 0
		}
		op := fmt.Sprintf("ucqlt %s %d %d %s", col, psec, pns, data)
		a := exec(op)
		out.Case(op, a, "ucqlt/"+col+"/"+dcls+"/"+okerr(a), true)

		kind := []string{"uuid", "arr", "bytes", "str"}[r.Intn(4)]
		var c string
		switch kind {
		case "uuid", "arr":
			c = vh.Hex(genUUIDBytes(r))
		case "bytes":
			switch r.Intn(5) {
			case 0:
				c = "nil"
			case 1:
				c = vh.Hex(r.Bytes(r.Intn(34)))
			default:
				c = vh.Hex(genUUIDBytes(r))
			}
		default:
			s, _ := genText(r)
			c = vh.Hex([]byte(s))
		}
		op = fmt.Sprintf("mcql %s %s", kind, c)
		a = exec(op)
		out.Case(op, a, "mcql/"+kind+"/"+okerr(a), true)
	}
	// user types implementing Unmarshaler / Marshaler
	for i := 0; i < 60*mult; i++ {
		col := []string{"uuid", "timeuuid"}[r.Intn(2)]
		data := []string{"null", "-", vh.Hex(r.Bytes(1 + r.Intn(40))), vh.Hex(genUUIDBytes(r))}[r.Intn(4)]
		op := fmt.Sprintf("ucqlum %s %s %s", col, []string{"direct", "nullable"}[r.Intn(2)], data)
		out.Case(op, exec(op), "ucqlum", i < 8)
		op = fmt.Sprintf("mcqlm %s %s %s", col, []string{"value", "ptr", "nilptr"}[r.Intn(3)], data)
		out.Case(op, exec(op), "mcqlm", i < 8)
	}
	// nullable destinations **T of gocql.Unmarshal (null / empty / 16 bytes / wrong lengths; pointer nil or pointing to
	// a value that must not be touched), *UUID values of gocql.Marshal
	for i := 0; i < 800*mult; i++ {
		col := []string{"uuid", "timeuuid"}[r.Intn(2)]
		kind := []string{"uuid", "arr", "bytes", "str"}[r.Intn(4)]
		var data string
		dcls := "16"
		switch r.Intn(8) {
		case 0, 1:
			data, dcls = "null", "null"
		case 2:
			data, dcls = "-", "empty"
		case 3:
			n := []int{1, 4, 8, 15, 17, 32, 36}[r.Intn(7)]
			data, dcls = vh.Hex(r.Bytes(n)), "wrong-length"
		default:
			data = vh.Hex(genUUIDBytes(r))
		}
		prev := "nilptr"
		if r.Intn(3) != 0 {
			switch kind {
			case "uuid", "arr":
				var want []byte
				if dcls == "16" {
					want, _ = vh.UnHex(data)
				}
				p, _ := genPrev(r, want, last)
				prev = vh.Hex(p)
			case "bytes":
				prev = []string{"nil", "-", vh.Hex(r.Bytes(1 + r.Intn(40))), vh.Hex(r.Bytes(16))}[r.Intn(4)]
			default:
				s, _ := genText(r)
				prev = []string{"-", vh.Hex([]byte(s))}[r.Intn(2)]
			}
		}
		op := fmt.Sprintf("ucqln %s %s %s %s", col, kind, prev, data)
		a := exec(op)
		out.Case(op, a, "ucqln/"+col+"/"+kind+"/"+dcls+"/"+okerr(a), true)
		if i%2 == 0 {
			sec, ns, _ := genTime(r)
			if r.Bool() {
				sec = timeBase + int64(r.U64()%uint64(maxSec-timeBase))
			}
			tdata, tcls := "null", "null"
			switch r.Intn(6) {
			case 0:
			case 1:
				tdata, tcls = vh.Hex(r.Bytes(r.Intn(20))), "random-length"
			case 2:
				tdata, tcls = vh.Hex(genUUIDBytes(r)), "any-version"
			default:
				u := gocql.TimeUUIDWith(gocql.VerifGetTimestamp(time.Unix(sec, ns)), genClock(r), r.Bytes(6))
				tdata, tcls = vh.Hex(u[:]), "v1"
			}
			tprev := "nilptr"
			if r.Bool() {
				psec, pns, _ := genTime(r)
				tprev = fmt.Sprintf("%d.%d", psec, pns)
			}
			tcol := []string{"timeuuid", "timeuuid", "uuid"}[r.Intn(3)]
			op = fmt.Sprintf("ucqlnt %s %s %s", tcol, tprev, tdata)
			a = exec(op)
			out.Case(op, a, "ucqlnt/"+tcol+"/"+tcls+"/"+okerr(a), true)
			c := "nil"
			if r.Intn(4) != 0 {
				c = vh.Hex(genUUIDBytes(r))
			}
			op = "mcqlp " + c
			a = exec(op)
			out.Case(op, a, "mcqlp/"+okerr(a), true)
		}
	}
	// the print/parse round trip through every printer/decoder pair on a dirty destination
	for i := 0; i < 1000*mult; i++ {
		u := genUUIDBytes(r)
		p, pc := genPrev(r, u, last)
		op := fmt.Sprintf("rtdirty %s %s", vh.Hex(p), vh.Hex(u))
		out.Case(op, exec(op), "rtdirty/"+pc, true)
	}
}

// ---- error values: Go error type and text (Lean: Model/UuidErr.lean)

func nonASCII(b []byte) bool {
	for _, c := range b {
		if c >= 0x80 {
			return true
		}
	}
	return false
}

// showErr: ok | <E|M|U>:<hex of err.Error()>; quoted = the string a %q in the message was applied to (nil = none):
// if it holds a byte >= 0x80 only the error's type is reported
func showErr(err error, quoted []byte) string {
	if err == nil {
		return "ok"
	}
	k := "E:"
	switch err.(type) {
	case gocql.MarshalError:
		k = "M:"
	case gocql.UnmarshalError:
		k = "U:"
	}
	if quoted != nil && nonASCII(quoted) {
		return k + "nonascii"
	}
	return k + vh.Hex([]byte(err.Error()))
}

func execErr(w []string, hx func(int) []byte) string {
	colInfo := func(c string) gocql.TypeInfo {
		switch c {
		case "uuid":
			return gocql.NewNativeType(4, gocql.TypeUUID, "")
		case "timeuuid":
			return gocql.NewNativeType(4, gocql.TypeTimeUUID, "")
		}
		panic("bad-op: column type")
	}
	switch w[0] {
	case "etext":
		t := hx(1)
		_, err := gocql.ParseUUID(string(t))
		var u gocql.UUID
		err2 := u.UnmarshalText(t)
		if (err == nil) != (err2 == nil) || (err != nil && err.Error() != err2.Error()) {
			return "inconsistent:UnmarshalText"
		}
		return showErr(err, append([]byte{}, t...))
	case "ejson":
		d := hx(1)
		var u gocql.UUID
		err := u.UnmarshalJSON(d)
		trimmed := []byte(strings.Trim(string(d), `"`))
		if len(trimmed) > 36 {
			return showErr(err, nil) // %s: the bytes as they are
		}
		return showErr(err, append([]byte{}, trimmed...))
	case "emcql":
		var v interface{}
		var quoted []byte
		switch w[2] {
		case "uuid":
			v = uuidOf(hx(3))
		case "arr":
			v = [16]byte(uuidOf(hx(3)))
		case "bytes":
			var b []byte
			if w[3] != "nil" {
				b = hx(3)
			}
			v = b
		case "str":
			v = string(hx(3))
			quoted = append([]byte{}, hx(3)...)
		default:
			panic("bad-op: value kind")
		}
		_, err := gocql.Marshal(colInfo(w[1]), v)
		return showErr(err, quoted)
	case "eucql":
		var data []byte
		if w[3] != "null" {
			data = append([]byte{}, hx(3)...)
		}
		var err error
		switch w[2] {
		case "uuid":
			var u gocql.UUID
			err = gocql.Unmarshal(colInfo(w[1]), data, &u)
		case "arr":
			var a [16]byte
			err = gocql.Unmarshal(colInfo(w[1]), data, &a)
		case "bytes":
			var b []byte
			err = gocql.Unmarshal(colInfo(w[1]), data, &b)
		case "str":
			var s string
			err = gocql.Unmarshal(colInfo(w[1]), data, &s)
		default:
			panic("bad-op: destination kind")
		}
		return showErr(err, nil)
	case "eucqlt":
		var data []byte
		if w[2] != "null" {
			data = append([]byte{}, hx(2)...)
		}
		var t time.Time
		return showErr(gocql.Unmarshal(colInfo(w[1]), data, &t), nil)
	}
	return "bad-op"
}

// runErrs: the error-value cases of one run.
func runErrs(r *vh.Rng, out *vh.Out, mult int) {
	for i := 0; i < 1500*mult; i++ {
		var s string
		var cls string
		if r.Bool() {
			s, cls = genString(r)
		} else {
			s, cls = genText(r)
		}
		if r.Intn(6) == 0 { // bytes that %q escapes: quotes, backslashes, control characters, DEL
			b := []byte(s)
			for k := 0; k < 1+r.Intn(3) && len(b) > 0; k++ {
				b[r.Intn(len(b))] = r.PickByte([]byte{'"', '\\', 0, 1, 7, 8, 9, 10, 11, 12, 13, 0x1b, 0x1f, 0x7f, ' ', '~', '\''})
			}
			s, cls = string(b), "escapes"
		}
		op := "etext " + vh.Hex([]byte(s))
		a := exec(op)
		out.Case(op, a, "etext/"+cls+"/"+a[:1], true)
		d := s
		switch r.Intn(4) {
		case 0:
			d = `"` + s + `"`
		case 1:
			d = `""` + s + strings.Repeat("0", r.Intn(8)) + `"`
		}
		op = "ejson " + vh.Hex([]byte(d))
		a = exec(op)
		out.Case(op, a, "ejson/"+a[:1], true)
		op = fmt.Sprintf("emcql %s str %s", []string{"uuid", "timeuuid"}[r.Intn(2)], vh.Hex([]byte(s)))
		a = exec(op)
		out.Case(op, a, "emcql/str/"+a[:1], true)
	}
	for i := 0; i < 300*mult; i++ {
		col := []string{"uuid", "timeuuid"}[r.Intn(2)]
		n := []int{0, 1, 15, 16, 17, 36, 255, 256, 1000}[r.Intn(9)]
		c := vh.Hex(r.Bytes(n))
		if r.Intn(8) == 0 {
			c = "nil"
		}
		op := fmt.Sprintf("emcql %s bytes %s", col, c)
		a := exec(op)
		out.Case(op, a, "emcql/bytes/"+a[:1], true)
		data := []string{"null", "-", vh.Hex(r.Bytes(1 + r.Intn(40))), vh.Hex(genUUIDBytes(r))}[r.Intn(4)]
		op = fmt.Sprintf("eucql %s %s %s", col, []string{"uuid", "arr", "bytes", "str"}[r.Intn(4)], data)
		a = exec(op)
		out.Case(op, a, "eucql/"+a[:1], true)
		op = fmt.Sprintf("eucqlt %s %s", col, data)
		a = exec(op)
		out.Case(op, a, "eucqlt/"+col+"/"+a[:1], true)
	}
}

// ---- user types: Unmarshaler destinations and Marshaler values of uuid / timeuuid columns

type spyCQL struct {
	called bool
	typ    gocql.Type
	data   []byte
	isNil  bool
}

func (s *spyCQL) UnmarshalCQL(info gocql.TypeInfo, data []byte) error {
	s.called, s.typ, s.isNil = true, info.Type(), data == nil
	s.data = append([]byte{}, data...)
	return nil
}

type spyM struct{ b []byte }

func (s spyM) MarshalCQL(info gocql.TypeInfo) ([]byte, error) { return s.b, nil }

func execCustom(w []string, hx func(int) []byte) string {
	var info gocql.TypeInfo
	switch w[1] {
	case "uuid":
		info = gocql.NewNativeType(4, gocql.TypeUUID, "")
	case "timeuuid":
		info = gocql.NewNativeType(4, gocql.TypeTimeUUID, "")
	default:
		panic("bad-op: column type")
	}
	var data []byte
	if w[3] != "null" {
		data = append([]byte{}, hx(3)...)
	}
	show := func(b []byte, isNil bool) string {
		if isNil {
			return "null"
		}
		return vh.Hex(b)
	}
	colOf := func(t gocql.Type) string {
		switch t {
		case gocql.TypeUUID:
			return "uuid"
		case gocql.TypeTimeUUID:
			return "timeuuid"
		}
		return "OTHER-TYPE"
	}
	switch w[0] {
	case "ucqlum":
		switch w[2] {
		case "direct":
			var s spyCQL
			err := gocql.Unmarshal(info, data, &s)
			if !s.called {
				return stat(err) + " notcalled"
			}
			return stat(err) + " called " + colOf(s.typ) + " " + show(s.data, s.isNil)
		case "nullable":
			old := &spyCQL{}
			p := old
			err := gocql.Unmarshal(info, data, &p)
			switch {
			case old.called:
				return stat(err) + " OLD-POINTEE-CALLED"
			case p == nil:
				return stat(err) + " nilptr"
			case p == old || !p.called:
				return stat(err) + " notcalled"
			}
			return stat(err) + " called " + colOf(p.typ) + " " + show(p.data, p.isNil)
		}
	case "mcqlm":
		var v interface{}
		switch w[2] {
		case "value":
			v = spyM{data}
		case "ptr":
			v = &spyM{data}
		case "nilptr":
			v = (*spyM)(nil)
		default:
			panic("bad-op: value kind")
		}
		b, err := gocql.Marshal(info, v)
		if err != nil {
			return "err"
		}
		return "ok " + show(b, b == nil)
	}
	panic("bad-op: custom")
}
