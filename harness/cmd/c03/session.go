// Session tier of the C03 harness: a real gocql Session (control connection disabled) talks to an
// in-memory CQL peer through a HostDialer; every request frame that reaches the wire is captured
// and handed — as a `dec` op — to the Lean specification decoder together with the request the
// application asked for, re-stated here from the Session API parameters (what Conn.startup,
// UseKeyspace, prepareStatement, executeQuery and executeBatch are supposed to fill in).
package main

import (
	"context"
	"crypto/md5"
	"encoding/binary"
	"fmt"
	"io"
	"net"
	"strings"
	"sync"
	"time"

	"github.com/gocql/gocql"
	"verifharness/vh"
)

type memConn struct {
	net.Conn
}

func (memConn) RemoteAddr() net.Addr { return &net.TCPAddr{IP: net.IPv4(127, 0, 0, 1), Port: 9042} }
func (memConn) LocalAddr() net.Addr  { return &net.TCPAddr{IP: net.IPv4(127, 0, 0, 1), Port: 50000} }

type memPeer struct {
	mu     sync.Mutex
	frames [][]byte
	auth   bool
}

func (p *memPeer) DialHost(ctx context.Context, host *gocql.HostInfo) (*gocql.DialedHost, error) {
	cli, srv := net.Pipe()
	go p.serve(srv)
	return &gocql.DialedHost{Conn: memConn{cli}, DisableCoalesce: true}, nil
}

func be16(n int) []byte { return []byte{byte(n >> 8), byte(n)} }
func be32(n int) []byte { return []byte{byte(n >> 24), byte(n >> 16), byte(n >> 8), byte(n)} }
func str(s string) []byte {
	return append(be16(len(s)), s...)
}

func preparedID(stmt string) []byte {
	h := md5.Sum([]byte(stmt))
	return h[:]
}

// skipPayload skips a leading [bytes map]
func skipPayload(b []byte) []byte {
	n := int(binary.BigEndian.Uint16(b))
	b = b[2:]
	for i := 0; i < n; i++ {
		kl := int(binary.BigEndian.Uint16(b))
		b = b[2+kl:]
		vl := int(int32(binary.BigEndian.Uint32(b)))
		b = b[4:]
		if vl > 0 {
			b = b[vl:]
		}
	}
	return b
}

func longString(b []byte) string {
	n := int(binary.BigEndian.Uint32(b))
	return string(b[4 : 4+n])
}

func (p *memPeer) serve(c net.Conn) {
	defer c.Close()
	defer func() { recover() }()
	for {
		first := make([]byte, 1)
		if _, err := io.ReadFull(c, first); err != nil {
			return
		}
		v := int(first[0] & 0x7f)
		hs := 8
		if v > 2 {
			hs = 9
		}
		hdr := make([]byte, hs)
		hdr[0] = first[0]
		if _, err := io.ReadFull(c, hdr[1:]); err != nil {
			return
		}
		n := int(binary.BigEndian.Uint32(hdr[hs-4:]))
		body := make([]byte, n)
		if _, err := io.ReadFull(c, body); err != nil {
			return
		}
		p.mu.Lock()
		p.frames = append(p.frames, append(append([]byte{}, hdr...), body...))
		p.mu.Unlock()
		flags := hdr[1]
		op := hdr[hs-5]
		rest := body
		if flags&0x04 != 0 {
			rest = skipPayload(rest)
		}
		var rop byte
		var rbody []byte
		switch op {
		case 0x05: // OPTIONS -> SUPPORTED {}
			rop, rbody = 0x06, be16(0)
		case 0x01: // STARTUP -> READY | AUTHENTICATE
			if p.auth {
				rop, rbody = 0x03, str("org.apache.cassandra.auth.PasswordAuthenticator")
			} else {
				rop = 0x02
			}
		case 0x0F: // AUTH_RESPONSE -> AUTH_SUCCESS (null token)
			rop, rbody = 0x10, be32(-1)
		case 0x0B: // REGISTER -> READY
			rop = 0x02
		case 0x09: // PREPARE -> RESULT prepared, one blob column per '?'
			stmt := longString(rest)
			cols := strings.Count(stmt, "?")
			rop = 0x08
			rbody = append(rbody, be32(4)...)
			id := preparedID(stmt)
			rbody = append(rbody, be16(len(id))...)
			rbody = append(rbody, id...)
			rbody = append(rbody, be32(1)...) // global table spec
			rbody = append(rbody, be32(cols)...)
			if v >= 4 {
				rbody = append(rbody, be32(0)...)
			}
			rbody = append(rbody, str("ks")...)
			rbody = append(rbody, str("tbl")...)
			for i := 0; i < cols; i++ {
				rbody = append(rbody, str(fmt.Sprintf("c%d", i))...)
				rbody = append(rbody, be16(3)...) // blob
			}
			if v >= 2 {
				rbody = append(rbody, be32(4)...) // no metadata
				rbody = append(rbody, be32(0)...)
			}
		case 0x07: // QUERY -> set_keyspace for USE, void otherwise
			stmt := longString(rest)
			rop = 0x08
			if strings.HasPrefix(stmt, "USE ") {
				rbody = append(be32(3), str(strings.Trim(stmt[4:], `"`))...)
			} else {
				rbody = be32(1)
			}
		default: // EXECUTE, BATCH -> void
			rop, rbody = 0x08, be32(1)
		}
		resp := []byte{hdr[0] | 0x80, 0}
		resp = append(resp, hdr[2:hs-5]...)
		resp = append(resp, rop)
		resp = append(resp, be32(len(rbody))...)
		resp = append(resp, rbody...)
		if _, err := c.Write(resp); err != nil {
			return
		}
	}
}

type nopTracer struct{}

func (nopTracer) Trace(traceId []byte) {}

func streamOf(v int, frame []byte) int {
	if v > 2 {
		return int(int16(binary.BigEndian.Uint16(frame[2:])))
	}
	return int(int8(frame[2]))
}

// apiQuery is one Session.Query(...) call stated at the API level.
type apiQuery struct {
	stmt     string
	values   []val // bound values (blob columns)
	cons     int
	serial   int
	pageSize int
	pstate   []byte
	ts       int64 // 0 = no timestamp
	tracing  bool
	noSkip   bool
	payload  []kv
}

func (g *gen) apiValues(v int, n int, gap bool) []val {
	vs := make([]val, n)
	named := v >= 3 && g.r.Intn(3) == 0
	for i := range vs {
		switch g.r.Intn(6) {
		case 0:
			vs[i].value = nil
		case 1:
			if v >= 4 || gap {
				vs[i].unset = true
			} else {
				vs[i].value = []byte{}
			}
		default:
			vs[i].value = g.bs()
		}
		if named {
			vs[i].name = g.nonEmpty()
		}
	}
	return vs
}

func bindArgs(vs []val) []interface{} {
	out := make([]interface{}, len(vs))
	for i, x := range vs {
		var a interface{}
		switch {
		case x.unset:
			a = gocql.UnsetValue
		case x.value == nil && i%2 == 0:
			a = nil
		default:
			a = x.value
		}
		if len(x.name) > 0 {
			a = gocql.NamedValue(string(x.name), a)
		}
		out[i] = a
	}
	return out
}

func payloadMap(pl []kv) map[string][]byte {
	if len(pl) == 0 {
		return nil
	}
	m := map[string][]byte{}
	for _, e := range pl {
		m[string(e.k)] = e.v
	}
	return m
}

// sessionScenario runs one Session against the in-memory peer and emits one dec op per captured frame.
func (g *gen) sessionScenario(idx int) {
	v := 1 + g.r.Intn(5)
	gap := g.r.Intn(8) == 0
	peer := &memPeer{auth: v >= 2 && g.r.Intn(3) == 0}
	cfg := gocql.NewCluster("127.0.0.1")
	gocql.VerifC03DisableControlConn(cfg)
	cfg.ProtoVersion = v
	cfg.HostDialer = peer
	cfg.NumConns = 1
	cfg.Timeout = 5 * time.Second
	cfg.ConnectTimeout = 5 * time.Second
	cfg.ReconnectInterval = 0
	cfg.DisableInitialHostLookup = true
	cfg.Consistency = gocql.Consistency(g.r.Intn(11))
	cfg.DefaultTimestamp = false
	cfg.DisableSkipMetadata = v == 1 || g.r.Intn(4) == 0
	cfg.Logger = nopLogger{}
	if peer.auth {
		cfg.Authenticator = gocql.PasswordAuthenticator{Username: "u" + string(g.nonEmpty()), Password: string(g.bs())}
	}
	ks := ""
	if g.r.Intn(2) == 0 {
		ks = "ks" + fmt.Sprint(g.r.Intn(100))
		cfg.Keyspace = ks
	}
	class := fmt.Sprintf("session/v%d", v)
	sess, err := gocql.NewSession(*cfg)
	if err != nil {
		g.out.Case(fmt.Sprintf("sess %d newsession", idx), "err:"+strings.ReplaceAll(err.Error(), "\n", " "), class+"/newsession-failed", false)
		return
	}
	var want []*hreq
	// connection setup
	want = append(want, &hreq{v: v, kind: "options"})
	dn, dv := gocql.VerifC03DriverInfo()
	want = append(want, &hreq{v: v, kind: "startup", opts: []kv{{[]byte("CQL_VERSION"), []byte(cfg.CQLVersion)},
		{[]byte("DRIVER_NAME"), []byte(dn)}, {[]byte("DRIVER_VERSION"), []byte(dv)}}})
	if peer.auth {
		a := cfg.Authenticator.(gocql.PasswordAuthenticator)
		tok := append([]byte{0}, a.Username...)
		tok = append(append(tok, 0), a.Password...)
		want = append(want, &hreq{v: v, kind: "auth", data: tok})
	}
	if ks != "" {
		want = append(want, &hreq{v: v, kind: "query", stmt: []byte(`USE "` + ks + `"`), p: params{cons: int(cfg.Consistency)}})
	}
	curKs := []byte(nil)
	if v > 4 {
		curKs = []byte(ks)
	}
	nreq := 1 + g.r.Intn(6)
	for qi := 0; qi < nreq; qi++ {
		uniq := fmt.Sprintf("%d_%d", idx, qi)
		if g.r.Intn(4) == 0 && v >= 2 {
			// ---- batch
			b := sess.NewBatch(gocql.BatchType(g.r.Intn(3)))
			cons := g.r.Intn(11)
			b.Cons = gocql.Consistency(cons)
			h := &hreq{v: v, kind: "batch", btyp: int(b.Type), cons: cons}
			b.DefaultTimestamp(false)
			// NewBatch copies the session's serial consistency
			b.SerialConsistency(0)
			if v >= 3 || gap {
				if g.r.Bool() {
					h.serial = 8 + g.r.Intn(2)
					b.SerialConsistency(gocql.SerialConsistency(h.serial))
				}
				if g.r.Bool() {
					h.dts, h.tsv = true, g.ts()
					b.WithTimestamp(h.tsv)
				}
			}
			if g.r.Intn(3) == 0 {
				h.tracing = true
				b.Trace(nopTracer{})
			}
			if v >= 4 && g.r.Intn(3) == 0 {
				h.payload = g.kvmap(true)
				b.CustomPayload = payloadMap(h.payload)
			}
			ne := g.r.Intn(4)
			var prepares []*hreq
			var texts []string
			named := false
			for e := 0; e < ne; e++ {
				nv := g.r.Intn(4)
				stmt := fmt.Sprintf("INSERT INTO t%s_%d (a) VALUES (%s)", uniq, e, strings.TrimSuffix(strings.Repeat("?,", nv), ","))
				vs := g.apiValues(v, nv, gap)
				for i := range vs {
					vs[i].name = nil
				}
				// every positional / named pattern over the values of an entry (v3+: to be refused, CASSANDRA-10246)
				if v >= 3 && g.r.Intn(3) == 0 && g.namePattern(vs) != 0 {
					named = true
				}
				texts = append(texts, stmt)
				if nv > 0 {
					prepares = append(prepares, &hreq{v: v, kind: "prepare", stmt: []byte(stmt), ks: curKs, tracing: h.tracing})
					h.stmts = append(h.stmts, bstmt{id: preparedID(stmt), values: vs})
				} else {
					h.stmts = append(h.stmts, bstmt{stmt: []byte(stmt)})
				}
			}
			before := peer.count()
			err := sess.ExecuteBatch(apiBatch(sess, h, texts))
			// what reached the peer: the PREPAREs issued before a refusal, and the BATCH frame if one went out
			var sentFrame []byte
			nprep := 0
			for _, f := range peer.since(before) {
				switch frameOp(v, f) {
				case 0x09:
					nprep++
				case 0x0D:
					sentFrame = f
				}
			}
			if sentFrame != nil {
				h.stream = streamOf(v, sentFrame)
				if m := h.theMap(); len(*m) > 1 {
					if keys, ok := mapOrder(h, sentFrame); ok {
						reorder(m, keys)
					}
				}
			}
			outcome := "refused"
			if sentFrame != nil {
				outcome = vh.Hex(sentFrame)
			}
			pat := "positional"
			if named {
				pat = "named"
			}
			g.out.Case(soutLine(outcome, texts, h), soutVerdict(h, sentFrame != nil),
				fmt.Sprintf("sout/v%d/%s/%s", v, pat, map[bool]string{true: "sent", false: "refused"}[sentFrame != nil]), true)
			if sentFrame == nil {
				if err == nil || !named {
					g.out.Case(fmt.Sprintf("sess %d batch %d", idx, qi), fmt.Sprintf("err:no-batch-frame:%v", err), class+"/batch-error", false)
					sess.Close()
					return
				}
				if nprep > len(prepares) {
					nprep = len(prepares)
				}
				want = append(want, prepares[:nprep]...)
				continue
			}
			if err != nil {
				g.out.Case(fmt.Sprintf("sess %d batch %d", idx, qi), "err:"+strings.ReplaceAll(err.Error(), "\n", " "), class+"/batch-error", false)
				sess.Close()
				return
			}
			want = append(want, prepares...)
			want = append(want, h)
			continue
		}
		// ---- query
		q := apiQuery{cons: g.r.Intn(11)}
		prepared := g.r.Intn(4) > 0
		nv := 0
		if prepared {
			nv = g.r.Intn(5)
			q.stmt = fmt.Sprintf("SELECT a FROM t%s WHERE %s", uniq, strings.TrimSuffix(strings.Repeat("b = ? AND ", nv)+"c = 0 AND ", " AND "))
			q.values = g.apiValues(v, nv, gap)
		} else {
			q.stmt = fmt.Sprintf("CREATE TABLE t%s (a int PRIMARY KEY)", uniq)
		}
		opt := v >= 2 || gap
		if opt && g.r.Bool() {
			q.pageSize = 1 + g.r.Intn(10000)
		}
		if opt && g.r.Intn(3) == 0 {
			q.pstate = g.nonEmpty()
		}
		if opt && g.r.Intn(3) == 0 {
			q.serial = 8 + g.r.Intn(2)
		}
		if (v >= 3 || gap) && g.r.Bool() {
			q.ts = g.ts()
		}
		q.tracing = g.r.Intn(3) == 0
		q.noSkip = g.r.Intn(4) == 0
		if v >= 4 && g.r.Intn(3) == 0 {
			q.payload = g.kvmap(true)
		}
		gq := sess.Query(q.stmt).Consistency(gocql.Consistency(q.cons)).PageSize(q.pageSize).
			SerialConsistency(gocql.SerialConsistency(q.serial)).DefaultTimestamp(false)
		if nv > 0 {
			gq = gq.Bind(bindArgs(q.values)...)
		}
		if q.pstate != nil {
			gq = gq.PageState(q.pstate)
		}
		if q.ts != 0 {
			gq = gq.WithTimestamp(q.ts)
		}
		if q.tracing {
			gq = gq.Trace(nopTracer{})
		}
		if q.noSkip {
			gq = gq.NoSkipMetadata()
		}
		if q.payload != nil {
			gq = gq.CustomPayload(payloadMap(q.payload))
		}
		if err := gq.Exec(); err != nil {
			g.out.Case(fmt.Sprintf("sess %d query %d", idx, qi), "err:"+strings.ReplaceAll(err.Error(), "\n", " "), class+"/query-error", false)
			sess.Close()
			return
		}
		p := params{cons: q.cons, pageSize: int64(q.pageSize), pstate: q.pstate, serial: q.serial, dts: q.ts != 0, tsv: q.ts,
			ks: curKs, values: q.values}
		if prepared {
			want = append(want, &hreq{v: v, kind: "prepare", stmt: []byte(q.stmt), ks: curKs, tracing: q.tracing})
			p.skip = !(cfg.DisableSkipMetadata || q.noSkip)
			want = append(want, &hreq{v: v, kind: "execute", id: preparedID(q.stmt), p: p, payload: q.payload, tracing: q.tracing})
		} else {
			want = append(want, &hreq{v: v, kind: "query", stmt: []byte(q.stmt), p: p, payload: q.payload, tracing: q.tracing})
		}
	}
	sess.Close()
	peer.mu.Lock()
	frames := peer.frames
	peer.mu.Unlock()
	if len(frames) != len(want) {
		g.out.Case(fmt.Sprintf("sess %d frames", idx), fmt.Sprintf("framecount:%d/%d", len(frames), len(want)), class+"/framecount", false)
		return
	}
	g.out.Case(fmt.Sprintf("sess %d frames", idx), "ok", class, false)
	for i, h := range want {
		f := frames[i]
		h.stream = streamOf(v, f)
		// list the maps in the order they appear on the wire
		if m := h.theMap(); len(*m) > 1 {
			if keys, ok := mapOrder(h, f); ok {
				reorder(m, keys)
			}
		}
		verdict := "inexpressible"
		if expressible(h) {
			verdict = "ok"
		}
		if !inRange(h) {
			verdict = "stream-out-of-range"
		}
		g.out.Case("dec "+vh.Hex(f)+" "+h.String(), verdict, fmt.Sprintf("session-dec/%s/%s/v%d", verdict, h.kind, v), true)
	}
}

type nopLogger struct{}

func (nopLogger) Print(v ...interface{})                 {}
func (nopLogger) Printf(format string, v ...interface{}) {}
func (nopLogger) Println(v ...interface{})               {}
