// Harness for C03 (request frames are exactly what the protocol specifies): generates logical
// requests, builds them with gocql's REAL frame builders (hook VerifBuildRequest: newFramer,
// trace(), buildFrame, framer.buf — what Conn.exec does), and writes
//
//	enc <v> <tracing> <stream> REQ          answer: hex of the real frame | rejected:<class>
//	dec <realframehex> <v> <tracing> <stream> REQ
//	                                        answer: ok | inexpressible  (the harness' own verdict whether
//	                                        REQ is expressible in v); the Lean side runs the SPEC DECODER
//	                                        on the real bytes and answers ok only if it recovers REQ
//
// for comparison with the Lean model / specification (grammar of REQ: lean/Driver/C03.lean).
// Go map iteration order: the op line lists STARTUP options / custom payload in the order the
// real builder iterated the map (read back from the produced bytes); on replay the build is
// repeated until the runtime picks the listed order again.
package main

import (
	"bytes"
	"encoding/binary"
	"fmt"
	"os"
	"strconv"
	"strings"

	"github.com/gocql/gocql"
	"verifharness/vh"
)

type val struct {
	name  []byte
	unset bool
	value []byte // nil = null
}

type params struct {
	cons     int
	skip     bool
	pageSize int64
	pstate   []byte
	serial   int
	dts      bool
	tsv      int64
	ks       []byte
	values   []val
}

type bstmt struct {
	id, stmt []byte
	values   []val
}

type kv struct {
	k []byte
	v []byte // payload: nil = null
}

type hreq struct {
	v       int
	tracing bool
	stream  int
	kind    string
	opts    []kv // startup, in iteration order
	data    []byte
	events  [][]byte
	stmt    []byte
	id      []byte
	ks      []byte
	p       params
	payload []kv // in iteration order
	btyp    int
	stmts   []bstmt
	cons    int
	serial  int
	dts     bool
	tsv     int64
}

// ---------- text form

func b2s(b bool) string {
	if b {
		return "1"
	}
	return "0"
}

func optb(b []byte) string {
	if b == nil {
		return "n"
	}
	return "v" + vh.Hex(b)
}

func fmtValues(sb *strings.Builder, vs []val) {
	fmt.Fprintf(sb, " %d", len(vs))
	for _, x := range vs {
		sb.WriteByte(' ')
		sb.WriteString(vh.Hex(x.name))
		sb.WriteByte(' ')
		if x.unset {
			sb.WriteString("u")
		} else {
			sb.WriteString(optb(x.value))
		}
	}
}

func fmtParams(sb *strings.Builder, p *params) {
	fmt.Fprintf(sb, " %d %s %d %s %d %s %d %s", p.cons, b2s(p.skip), p.pageSize, vh.Hex(p.pstate), p.serial, b2s(p.dts), p.tsv, vh.Hex(p.ks))
	fmtValues(sb, p.values)
}

func fmtPayload(sb *strings.Builder, pl []kv) {
	fmt.Fprintf(sb, " %d", len(pl))
	for _, e := range pl {
		fmt.Fprintf(sb, " %s %s", vh.Hex(e.k), optb(e.v))
	}
}

func (h *hreq) String() string {
	var sb strings.Builder
	fmt.Fprintf(&sb, "%d %s %d %s", h.v, b2s(h.tracing), h.stream, h.kind)
	switch h.kind {
	case "startup":
		fmt.Fprintf(&sb, " %d", len(h.opts))
		for _, e := range h.opts {
			fmt.Fprintf(&sb, " %s %s", vh.Hex(e.k), vh.Hex(e.v))
		}
	case "options":
	case "auth":
		sb.WriteString(" " + optb(h.data))
	case "register":
		fmt.Fprintf(&sb, " %d", len(h.events))
		for _, e := range h.events {
			sb.WriteString(" " + vh.Hex(e))
		}
	case "query":
		sb.WriteString(" " + vh.Hex(h.stmt))
		fmtParams(&sb, &h.p)
		fmtPayload(&sb, h.payload)
	case "prepare":
		sb.WriteString(" " + vh.Hex(h.stmt) + " " + vh.Hex(h.ks))
		fmtPayload(&sb, h.payload)
	case "execute":
		sb.WriteString(" " + vh.Hex(h.id))
		fmtParams(&sb, &h.p)
		fmtPayload(&sb, h.payload)
	case "batch":
		fmt.Fprintf(&sb, " %d %d %d %s %d %d", h.btyp, h.cons, h.serial, b2s(h.dts), h.tsv, len(h.stmts))
		for i := range h.stmts {
			s := &h.stmts[i]
			sb.WriteString(" " + vh.Hex(s.id) + " " + vh.Hex(s.stmt))
			fmtValues(&sb, s.values)
		}
		fmtPayload(&sb, h.payload)
	}
	return sb.String()
}

type toks struct {
	w []string
	i int
}

func (t *toks) next() string {
	if t.i >= len(t.w) {
		panic("bad-op")
	}
	t.i++
	return t.w[t.i-1]
}
func (t *toks) int() int64 {
	n, err := strconv.ParseInt(t.next(), 10, 64)
	if err != nil {
		panic("bad-op")
	}
	return n
}
func (t *toks) bool() bool { return t.next() == "1" }
// unhexX: hex, or x<n>*<hh> = n copies of the byte hh
func unhexX(s string) []byte {
	if strings.HasPrefix(s, "x") {
		parts := strings.Split(s[1:], "*")
		if len(parts) != 2 {
			panic("bad-op")
		}
		n, err := strconv.Atoi(parts[0])
		b, err2 := vh.UnHex(parts[1])
		if err != nil || err2 != nil || len(b) != 1 || n < 0 {
			panic("bad-op")
		}
		return bytes.Repeat(b, n)
	}
	b, err := vh.UnHex(s)
	if err != nil {
		panic("bad-op")
	}
	return b
}

func (t *toks) hex() []byte { return unhexX(t.next()) }

// count: <n> (n items follow) or *<n> (one item follows, repeated n times)
func (t *toks) count() (n int, repeat bool) {
	s := t.next()
	if strings.HasPrefix(s, "*") {
		k, err := strconv.Atoi(s[1:])
		if err != nil || k < 0 {
			panic("bad-op")
		}
		return k, true
	}
	k, err := strconv.Atoi(s)
	if err != nil || k < 0 {
		panic("bad-op")
	}
	return k, false
}
func (t *toks) optb() []byte {
	s := t.next()
	if s == "n" {
		return nil
	}
	if !strings.HasPrefix(s, "v") {
		panic("bad-op")
	}
	return unhexX(s[1:])
}
func (t *toks) value() (x val) {
	x.name = t.hex()
	if t.i < len(t.w) && t.w[t.i] == "u" {
		t.i++
		x.unset = true
	} else {
		x.value = t.optb()
	}
	return
}

func (t *toks) values() []val {
	n, rep := t.count()
	vs := make([]val, n)
	if rep {
		x := t.value()
		for i := range vs {
			vs[i] = x
		}
		return vs
	}
	for i := range vs {
		vs[i] = t.value()
	}
	return vs
}
func (t *toks) params() params {
	var p params
	p.cons = int(t.int())
	p.skip = t.bool()
	p.pageSize = t.int()
	p.pstate = t.hex()
	p.serial = int(t.int())
	p.dts = t.bool()
	p.tsv = t.int()
	p.ks = t.hex()
	p.values = t.values()
	return p
}
func (t *toks) payload() []kv {
	n := int(t.int())
	pl := make([]kv, n)
	for i := range pl {
		pl[i].k = t.hex()
		pl[i].v = t.optb()
	}
	return pl
}

func parseReq(t *toks) *hreq {
	h := &hreq{}
	h.v = int(t.int())
	h.tracing = t.bool()
	h.stream = int(t.int())
	h.kind = t.next()
	switch h.kind {
	case "startup":
		n := int(t.int())
		h.opts = make([]kv, n)
		for i := range h.opts {
			h.opts[i].k = t.hex()
			h.opts[i].v = t.hex()
		}
	case "options":
	case "auth":
		h.data = t.optb()
	case "register":
		n, rep := t.count()
		h.events = make([][]byte, n)
		if rep {
			e := t.hex()
			for i := range h.events {
				h.events[i] = e
			}
		} else {
			for i := range h.events {
				h.events[i] = t.hex()
			}
		}
	case "query":
		h.stmt = t.hex()
		h.p = t.params()
		h.payload = t.payload()
	case "prepare":
		h.stmt = t.hex()
		h.ks = t.hex()
		h.payload = t.payload()
	case "execute":
		h.id = t.hex()
		h.p = t.params()
		h.payload = t.payload()
	case "batch":
		h.btyp = int(t.int())
		h.cons = int(t.int())
		h.serial = int(t.int())
		h.dts = t.bool()
		h.tsv = t.int()
		n, rep := t.count()
		h.stmts = make([]bstmt, n)
		if rep {
			var st bstmt
			st.id = t.hex()
			st.stmt = t.hex()
			st.values = t.values()
			for i := range h.stmts {
				h.stmts[i] = st
			}
		} else {
			for i := range h.stmts {
				h.stmts[i].id = t.hex()
				h.stmts[i].stmt = t.hex()
				h.stmts[i].values = t.values()
			}
		}
		h.payload = t.payload()
	default:
		panic("bad-op")
	}
	if t.i != len(t.w) {
		panic("bad-op")
	}
	return h
}

// ---------- running the real builders

func toValues(vs []val) []gocql.VerifQueryValue {
	if vs == nil {
		return nil
	}
	out := make([]gocql.VerifQueryValue, len(vs))
	for i, x := range vs {
		out[i] = gocql.VerifQueryValue{Name: string(x.name), Value: x.value, IsUnset: x.unset}
	}
	return out
}

func toParams(p *params) gocql.VerifQueryParams {
	return gocql.VerifQueryParams{Consistency: uint16(p.cons), SkipMeta: p.skip, Values: toValues(p.values), PageSize: int(p.pageSize),
		PagingState: p.pstate, SerialConsistency: uint16(p.serial), DefaultTimestamp: p.dts, DefaultTimestampValue: p.tsv, Keyspace: string(p.ks)}
}

func (h *hreq) toVerif() *gocql.VerifRequest {
	r := &gocql.VerifRequest{Kind: h.kind}
	if len(h.payload) > 0 {
		r.CustomPayload = make(map[string][]byte, len(h.payload))
		for _, e := range h.payload {
			r.CustomPayload[string(e.k)] = e.v
		}
	} else if emptyNonNil(h) {
		// an empty but non-nil map is the same logical request as no payload (nothing to send, flag clear);
		// which of the two Go values is used is a deterministic function of the op line, so replays agree
		r.CustomPayload = map[string][]byte{}
	}
	switch h.kind {
	case "startup":
		r.Options = make(map[string]string, len(h.opts))
		for _, e := range h.opts {
			r.Options[string(e.k)] = string(e.v)
		}
	case "auth":
		r.Data = h.data
	case "register":
		for _, e := range h.events {
			r.Events = append(r.Events, string(e))
		}
	case "query":
		r.Statement = string(h.stmt)
		r.Params = toParams(&h.p)
	case "prepare":
		r.Statement = string(h.stmt)
		r.Keyspace = string(h.ks)
	case "execute":
		r.PreparedID = h.id
		r.Params = toParams(&h.p)
	case "batch":
		r.BatchType = byte(h.btyp)
		r.Consistency = uint16(h.cons)
		r.SerialConsistency = uint16(h.serial)
		r.DefaultTimestamp = h.dts
		r.DefaultTimestampValue = h.tsv
		r.Statements = make([]gocql.VerifBatchStatement, len(h.stmts))
		for i := range h.stmts {
			s := &h.stmts[i]
			r.Statements[i] = gocql.VerifBatchStatement{PreparedID: s.id, Statement: string(s.stmt), Values: toValues(s.values)}
		}
	}
	return r
}

// build runs the real builder once: the frame bytes, or "" and the outcome class.
// toyComp is the "compression algorithm" of the encz / decz ops (Lean: FrameWrite.toyEnc / toyDec): a marker
// byte, then every byte xor 0x5A. Not the identity and one byte longer than its input, so that what the framer
// hands to Encode, where it puts the result and which length it writes are observable. The real algorithms: C18.
type toyComp struct{}

func (toyComp) Name() string { return "toy" }
func (toyComp) Encode(b []byte) ([]byte, error) {
	out := make([]byte, 0, len(b)+1)
	out = append(out, 0xC5)
	for _, c := range b {
		out = append(out, c^0x5A)
	}
	return out, nil
}
func (toyComp) Decode(b []byte) ([]byte, error) {
	if len(b) == 0 || b[0] != 0xC5 {
		return nil, fmt.Errorf("toyComp: bad marker")
	}
	out := make([]byte, 0, len(b)-1)
	for _, c := range b[1:] {
		out = append(out, c^0x5A)
	}
	return out, nil
}

// unz undoes the toy compression of a request frame built by the real framer (header flag 0x01 cleared, body
// decoded, length rewritten) so that the map iteration order can be read from it; ok=false if it is not of that shape.
func unz(v int, frame []byte) (plain []byte, ok bool) {
	hs := headSize(v)
	if len(frame) < hs {
		return nil, false
	}
	if frame[1]&1 == 0 {
		return frame, true
	}
	body, err := toyComp{}.Decode(frame[hs:])
	if err != nil {
		return nil, false
	}
	plain = append([]byte{}, frame[:hs]...)
	plain[1] &^= 1
	binary.BigEndian.PutUint32(plain[hs-4:], uint32(len(body)))
	return append(plain, body...), true
}

func build(h *hreq, r *gocql.VerifRequest) (frame []byte, outcome string) {
	return buildWith(false, h, r)
}

func buildWith(z bool, h *hreq, r *gocql.VerifRequest) (frame []byte, outcome string) {
	defer func() {
		if p := recover(); p != nil {
			msg := fmt.Sprint(p)
			switch {
			case strings.Contains(msg, "Custom payload is not supported"):
				outcome = "rejected:payload"
			case strings.Contains(msg, "keyspace can only be set"):
				outcome = "rejected:keyspace"
			default:
				outcome = "crash:" + strings.ReplaceAll(msg, "\n", " ")
			}
			frame = nil
		}
	}()
	var b []byte
	var err error
	if z {
		b, err = gocql.VerifC03fBuildRequest(toyComp{}, byte(h.v), h.tracing, h.stream, r)
	} else {
		b, err = gocql.VerifBuildRequest(byte(h.v), h.tracing, h.stream, r)
	}
	if err != nil {
		switch {
		case strings.Contains(err.Error(), "named query values are not supported in batches"):
			return nil, "rejected:namedbatch"
		case err == gocql.ErrFrameTooBig:
			return nil, "rejected:toobig"
		case strings.Contains(err.Error(), "the protocol allows at most 65535"):
			return nil, "rejected:toomany"
		}
		return nil, "err:" + err.Error()
	}
	return b, ""
}

// mapOrder reads back the key order of the leading [string map] / [bytes map] of the body. Entry
// sizes are taken from the map that was asked for (the lengths on the wire may be truncated).
func mapOrder(h *hreq, frame []byte) (keys [][]byte, ok bool) {
	defer func() {
		if recover() != nil {
			keys, ok = nil, false
		}
	}()
	hs := 8
	if h.v > 2 {
		hs = 9
	}
	b := frame[hs+2:]
	m := *h.theMap()
	used := make([]bool, len(m))
	for i := 0; i < len(m); i++ {
		kl := binary.BigEndian.Uint16(b)
		found := -1
		for j, e := range m {
			if !used[j] && uint16(len(e.k)) == kl && bytes.HasPrefix(b[2:], e.k) {
				found = j
				break
			}
		}
		if found < 0 {
			return nil, false
		}
		used[found] = true
		e := m[found]
		keys = append(keys, e.k)
		b = b[2+len(e.k):]
		if h.kind == "startup" {
			b = b[2+len(e.v):]
		} else {
			b = b[4+len(e.v):]
		}
	}
	return keys, true
}

func emptyNonNil(h *hreq) bool {
	x := uint32(2166136261)
	for _, c := range []byte(h.String()) {
		x = (x ^ uint32(c)) * 16777619
	}
	return x%2 == 0
}

func (h *hreq) theMap() *[]kv {
	if h.kind == "startup" {
		return &h.opts
	}
	return &h.payload
}

func sameOrder(m []kv, keys [][]byte) bool {
	if len(m) != len(keys) {
		return false
	}
	for i := range m {
		if !bytes.Equal(m[i].k, keys[i]) {
			return false
		}
	}
	return true
}

// reorder puts the listed map into the observed iteration order.
func reorder(m *[]kv, keys [][]byte) {
	if len(keys) != len(*m) {
		return
	}
	idx := map[string]kv{}
	for _, e := range *m {
		idx[string(e.k)] = e
	}
	out := make([]kv, 0, len(keys))
	for _, k := range keys {
		e, ok := idx[string(k)]
		if !ok {
			return
		}
		out = append(out, e)
	}
	*m = out
}

// buildListedOrder repeats the build until the Go runtime iterates the map in the listed order.
func buildListedOrder(h *hreq, want []byte) (frame []byte, outcome string) {
	r := h.toVerif()
	m := h.theMap()
	tries := 1
	if len(*m) > 1 {
		tries = 600
	}
	for i := 0; i < tries; i++ {
		frame, outcome = build(h, r)
		if outcome != "" || len(*m) <= 1 {
			return
		}
		if want != nil {
			if bytes.Equal(frame, want) {
				return
			}
			continue
		}
		if keys, ok := mapOrder(h, frame); !ok || sameOrder(*m, keys) {
			return
		}
	}
	return
}

// buildListedOrderZ is buildListedOrder with the toy compressor configured: the map order is read from the
// de-compressed frame.
func buildListedOrderZ(h *hreq, want []byte) (frame []byte, outcome string) {
	r := h.toVerif()
	m := h.theMap()
	tries := 1
	if len(*m) > 1 {
		tries = 600
	}
	for i := 0; i < tries; i++ {
		frame, outcome = buildWith(true, h, r)
		if outcome != "" || len(*m) <= 1 {
			return
		}
		if want != nil {
			if bytes.Equal(frame, want) {
				return
			}
			continue
		}
		plain, ok := unz(h.v, frame)
		if !ok {
			return
		}
		if keys, ok := mapOrder(h, plain); !ok || sameOrder(*m, keys) {
			return
		}
	}
	return
}

// ---------- the harness' own statement of what a version can express (cross-checked against
// the Lean predicate FrameSpec.Expressible ∘ FrameWrite.ask by the `dec` ops)

func valuesOK(v int, allowNames bool, vs []val) bool {
	if len(vs) > 65535 {
		return false
	}
	named := 0
	for _, x := range vs {
		if len(x.name) > 0 {
			named++
			if len(x.name) > 65535 {
				return false
			}
		}
		if x.unset && v < 4 {
			return false
		}
	}
	if named == 0 {
		return true
	}
	return allowNames && v >= 3 && named == len(vs)
}

func payloadOK(v int, pl []kv) bool {
	if len(pl) == 0 {
		return true
	}
	if v < 4 || len(pl) > 65535 {
		return false
	}
	for _, e := range pl {
		if len(e.k) > 65535 {
			return false
		}
	}
	return true
}

func paramsOK(v int, p *params, execute bool) bool {
	if v == 1 {
		if p.skip || p.pageSize > 0 || len(p.pstate) > 0 || p.serial > 0 || p.dts || len(p.ks) > 0 {
			return false
		}
		if execute {
			return valuesOK(1, false, p.values)
		}
		return len(p.values) == 0
	}
	if !valuesOK(v, true, p.values) {
		return false
	}
	if p.pageSize > 2147483647 {
		return false
	}
	if p.dts && v < 3 {
		return false
	}
	if len(p.ks) > 0 && (v < 5 || len(p.ks) > 65535) {
		return false
	}
	return true
}

func expressible(h *hreq) bool {
	v := h.v
	switch h.kind {
	case "startup":
		if len(h.opts) > 65535 {
			return false
		}
		for _, e := range h.opts {
			if len(e.k) > 65535 || len(e.v) > 65535 {
				return false
			}
		}
		return true
	case "options":
		return true
	case "auth":
		return v >= 2
	case "register":
		if len(h.events) > 65535 {
			return false
		}
		for _, e := range h.events {
			if len(e) > 65535 {
				return false
			}
		}
		return true
	case "query":
		return payloadOK(v, h.payload) && paramsOK(v, &h.p, false)
	case "prepare":
		return payloadOK(v, h.payload) && (len(h.ks) == 0 || (v >= 5 && len(h.ks) <= 65535))
	case "execute":
		return len(h.id) <= 65535 && payloadOK(v, h.payload) && paramsOK(v, &h.p, true)
	case "batch":
		if v < 2 || len(h.stmts) > 65535 || !payloadOK(v, h.payload) {
			return false
		}
		for i := range h.stmts {
			s := &h.stmts[i]
			if len(s.id) > 65535 || !valuesOK(v, false, s.values) {
				return false
			}
		}
		if v < 3 && (h.serial > 0 || h.dts) {
			return false
		}
		return true
	}
	return false
}

func inRange(h *hreq) bool {
	if h.v <= 2 {
		return h.stream >= 0 && h.stream < 128
	}
	return h.stream >= 0 && h.stream < 32768
}

// digest of a very large frame: length, first 40 bytes, FNV-1a 32
func digest(b []byte) string {
	h := uint32(2166136261)
	for _, c := range b {
		h = (h ^ uint32(c)) * 16777619
	}
	head := b
	if len(head) > 40 {
		head = head[:40]
	}
	return fmt.Sprintf("len=%d head=%s fnv=%d", len(b), vh.Hex(head), h)
}

// ---------- replay of one op line

func exec(op string) (res string) {
	defer func() {
		if r := recover(); r != nil {
			res = fmt.Sprintf("crash:%v", r)
			if fmt.Sprint(r) == "bad-op" {
				res = "bad-op"
			}
		}
	}()
	w := strings.Fields(op)
	if len(w) < 2 {
		return "bad-op"
	}
	switch w[0] {
	case "hs", "hsm":
		return execHs(w)
	case "sout":
		return execSout(w)
	case "bout":
		return execBout(w)
	case "enc":
		h := parseReq(&toks{w: w, i: 1})
		frame, outcome := buildListedOrder(h, nil)
		if outcome != "" {
			return outcome
		}
		return vh.Hex(frame)
	case "encd":
		h := parseReq(&toks{w: w, i: 1})
		frame, outcome := buildListedOrder(h, nil)
		if outcome != "" {
			return outcome
		}
		return digest(frame)
	case "encz":
		h := parseReq(&toks{w: w, i: 1})
		frame, outcome := buildListedOrderZ(h, nil)
		if outcome != "" {
			return outcome
		}
		return vh.Hex(frame)
	case "decz":
		want, err := vh.UnHex(w[1])
		if err != nil {
			return "bad-op"
		}
		h := parseReq(&toks{w: w, i: 2})
		frame, outcome := buildListedOrderZ(h, want)
		if outcome != "" {
			return outcome
		}
		if !bytes.Equal(frame, want) {
			return "bytes-differ:" + vh.Hex(frame)
		}
		if expressible(h) {
			return "ok"
		}
		return "inexpressible"
	case "dec":
		want, err := vh.UnHex(w[1])
		if err != nil {
			return "bad-op"
		}
		h := parseReq(&toks{w: w, i: 2})
		frame, outcome := buildListedOrder(h, want)
		if outcome != "" {
			return outcome
		}
		if !bytes.Equal(frame, want) {
			return "bytes-differ:" + vh.Hex(frame)
		}
		if expressible(h) {
			return "ok"
		}
		return "inexpressible"
	}
	return "bad-op"
}

// ---------- generators

type gen struct {
	r   *vh.Rng
	out *vh.Out
	big int // remaining budget of very large cases
}

func (g *gen) bytesN(n int) []byte {
	b := make([]byte, n)
	switch g.r.Intn(3) {
	case 0:
		for i := range b {
			b[i] = byte('a' + g.r.Intn(26))
		}
	case 1:
		for i := range b {
			b[i] = g.r.PickByte([]byte{0x00, 0x01, 0x7f, 0x80, 0xff})
		}
	default:
		copy(b, g.r.Bytes(n))
	}
	return b
}

// small byte string: empty often, short mostly, sometimes a few hundred bytes
func (g *gen) bs() []byte {
	switch g.r.Intn(10) {
	case 0, 1:
		return []byte{}
	case 2:
		return g.bytesN(100 + g.r.Intn(300))
	default:
		return g.bytesN(1 + g.r.Intn(12))
	}
}

func (g *gen) nonEmpty() []byte {
	b := g.bs()
	if len(b) == 0 {
		return g.bytesN(1 + g.r.Intn(5))
	}
	return b
}

// short string with boundary lengths now and then
func (g *gen) shortStr(allowHuge bool) []byte {
	if allowHuge && g.big > 0 && g.r.Intn(60) == 0 {
		g.big--
		return g.bytesN([]int{65535, 65536, 65537, 70000}[g.r.Intn(4)])
	}
	return g.bs()
}

func (g *gen) cons() int {
	switch g.r.Intn(4) {
	case 0:
		return []int{0, 1, 4, 6, 10, 0xff, 0x100, 0xffff, 0x8000}[g.r.Intn(9)]
	case 1:
		return g.r.Intn(65536)
	default:
		return g.r.Intn(11)
	}
}

func (g *gen) serial() int {
	switch g.r.Intn(6) {
	case 0, 1, 2:
		return 0
	case 3:
		return 8
	case 4:
		return 9
	default:
		return 1 + g.r.Intn(65535)
	}
}

func (g *gen) ts() int64 {
	var t int64
	switch g.r.Intn(5) {
	case 0:
		t = []int64{1, -1, 9223372036854775807, -9223372036854775808, 255, 256, 4294967296, -4294967296, 1 << 31}[g.r.Intn(9)]
	case 1:
		t = int64(g.r.U64())
	default:
		t = 1600000000000000 + int64(g.r.Intn(1000000000))
	}
	if t == 0 {
		t = 1
	}
	return t
}

func (g *gen) pageSize() int64 {
	switch g.r.Intn(12) {
	case 0, 1, 2, 3:
		return 0
	case 4:
		return []int64{1, 255, 256, 65536, 2147483647}[g.r.Intn(5)]
	case 5:
		return []int64{-1, -5000, 2147483648, 4294967296 + 5, 4294967296, 6442450944}[g.r.Intn(6)] // not expressible / ignored
	default:
		return int64(1 + g.r.Intn(10000))
	}
}

func (g *gen) stream(v int, outOfRange bool) int {
	max := 32768
	if v <= 2 {
		max = 128
	}
	if outOfRange {
		return []int{-1, -2, max, max + 1, 2*max - 1, 2 * max, 65536 + 7, -max, 1 << 20}[g.r.Intn(9)]
	}
	switch g.r.Intn(4) {
	case 0:
		return []int{0, 1, max - 1, max - 2, max / 2, 255 % max, 256 % max, 127}[g.r.Intn(8)]
	default:
		return g.r.Intn(max)
	}
}

func (g *gen) value(v int, gap bool) val {
	var x val
	switch g.r.Intn(8) {
	case 0:
		x.value = nil
	case 1:
		if v >= 4 || gap {
			x.unset = true
		} else {
			x.value = []byte{}
		}
	case 2:
		x.value = []byte{}
	default:
		x.value = g.bs()
	}
	return x
}

var countPool = []int{0, 0, 1, 1, 1, 2, 2, 3, 4, 5, 7, 16}

func (g *gen) count(allowBig bool) int {
	if allowBig && g.r.Intn(25) == 0 {
		return []int{255, 256, 257}[g.r.Intn(3)]
	}
	return countPool[g.r.Intn(len(countPool))]
}

// values: naming mode none / all / (gaps) first-only, later-only, named under v<3
func (g *gen) values(v int, n int, allowNames bool, gap bool) ([]val, string) {
	vs := make([]val, n)
	small := n > 1000
	for i := range vs {
		if small {
			if g.r.Intn(4) == 0 {
				vs[i].value = []byte{byte(i)}
			}
		} else {
			vs[i] = g.value(v, gap && g.r.Intn(3) == 0)
		}
	}
	mode := "pos"
	if n > 0 && allowNames {
		k := g.r.Intn(10)
		switch {
		case k < 3 && (v >= 3 || gap):
			mode = "named"
			for i := range vs {
				vs[i].name = g.nonEmpty()
				if small {
					vs[i].name = []byte{byte('a' + i%26)}
				}
			}
		case k == 3 && gap && n > 1:
			mode = "mixed-first"
			vs[0].name = g.nonEmpty()
			for i := 1; i < n; i++ {
				if g.r.Intn(3) == 0 {
					vs[i].name = g.nonEmpty()
				}
			}
			vs[1+g.r.Intn(n-1)].name = nil
		case k == 4 && gap && n > 1:
			mode = "mixed-later"
			vs[1+g.r.Intn(n-1)].name = g.nonEmpty()
		}
	}
	return vs, mode
}

func (g *gen) payload(v int, gap bool) []kv {
	p := 0
	if v >= 4 {
		p = 40
	} else if gap {
		p = 25
	}
	if g.r.Intn(100) >= p {
		return nil
	}
	return g.kvmap(true)
}

func (g *gen) kvmap(nullable bool) []kv {
	n := []int{1, 1, 2, 2, 3, 4, 5, 8, 9, 20}[g.r.Intn(10)]
	seen := map[string]bool{}
	var m []kv
	for len(m) < n {
		k := g.bs()
		if g.r.Intn(4) > 0 {
			k = g.nonEmpty()
		}
		if seen[string(k)] {
			continue
		}
		seen[string(k)] = true
		e := kv{k: k, v: g.bs()}
		if nullable && g.r.Intn(5) == 0 {
			e.v = nil
		}
		m = append(m, e)
	}
	return m
}

func (g *gen) params(v int, nvals int, gap bool, flags int) (params, string) {
	// flags: bit mask forcing which optional fields are present (-1 = random)
	var p params
	p.cons = g.cons()
	if flags < 0 {
		flags = int(g.r.U64() & 0xff)
		if g.r.Intn(3) == 0 {
			flags &= int(g.r.U64() & 0xff)
		}
	}
	var mode string
	p.values, mode = g.values(v, nvals, true, gap)
	p.skip = flags&0x02 != 0
	if flags&0x04 != 0 {
		p.pageSize = g.pageSize()
		if p.pageSize <= 0 || (!gap && p.pageSize > 2147483647) {
			p.pageSize = int64(1 + g.r.Intn(5000))
		}
	} else if gap && g.r.Intn(4) == 0 {
		p.pageSize = g.pageSize()
	}
	if flags&0x08 != 0 {
		p.pstate = g.nonEmpty()
	} else if g.r.Bool() {
		p.pstate = []byte{}
	}
	if flags&0x10 != 0 {
		p.serial = g.serial()
	}
	if flags&0x20 != 0 && (v >= 3 || gap) {
		p.dts = true
		p.tsv = g.ts()
	}
	if flags&0x80 != 0 && (v >= 5 || (gap && g.r.Intn(3) == 0)) {
		p.ks = g.nonEmpty()
	}
	if v == 1 && !gap {
		p.skip, p.pageSize, p.pstate, p.serial, p.dts, p.tsv, p.ks = false, 0, nil, 0, false, 0, nil
	}
	return p, mode
}

// emit runs the real builder on h, lists the maps in the observed order, and writes the ops.
func (g *gen) emit(h *hreq, class string) {
	r := h.toVerif()
	frame, outcome := build(h, r)
	if outcome == "" {
		if m := h.theMap(); len(*m) > 1 {
			if keys, ok := mapOrder(h, frame); ok {
				reorder(m, keys)
			}
		}
	}
	line := h.String()
	ans := outcome
	if outcome == "" {
		ans = vh.Hex(frame)
	} else {
		class += "/" + outcome
	}
	g.out.Case("enc "+line, ans, "enc/"+class, true)
	// sent or refused, judged by the specification (every request kind x version x the refused kinds)
	if !strings.HasPrefix(outcome, "crash:") && outcome != "rejected:toobig" && len(frame) <= 20000 {
		o := "refused"
		if outcome == "" {
			o = vh.Hex(frame)
		}
		g.out.Case("bout "+o+" "+line, outcomeClaim(h, outcome == ""),
			fmt.Sprintf("bout/%s/v%d/%s/%s", h.kind, h.v, map[bool]string{true: "sent", false: "refused"}[outcome == ""], outcomeClaim(h, outcome == "")), true)
	}
	if outcome == "" && inRange(h) {
		verdict := "inexpressible"
		if expressible(h) {
			verdict = "ok"
		}
		g.out.Case("dec "+vh.Hex(frame)+" "+line, verdict, "dec/"+verdict+"/"+h.kind+fmt.Sprintf("/v%d", h.v), true)
	}
	// compression on: the same request (same map order) built with a compressor configured on the framer
	if len(frame) > 20000 {
		return
	}
	zframe, zout := buildWith(true, h, r)
	if zout == "" {
		if m := h.theMap(); len(*m) > 1 {
			// the Go map's iteration order of THIS build, read from the de-compressed frame
			if plain, ok := unz(h.v, zframe); ok {
				if keys, ok := mapOrder(h, plain); ok {
					reorder(m, keys)
				}
			}
		}
	}
	line = h.String()
	zans := zout
	zclass := "encz/" + h.kind + fmt.Sprintf("/v%d", h.v)
	if zout == "" {
		zans = vh.Hex(zframe)
		zclass += "/flag" + b2s(zframe[1]&1 == 1)
	} else {
		zclass += "/" + zout
	}
	g.out.Case("encz "+line, zans, zclass, true)
	if zout == "" && inRange(h) {
		verdict := "inexpressible"
		if expressible(h) {
			verdict = "ok"
		}
		g.out.Case("decz "+vh.Hex(zframe)+" "+line, verdict, "decz/"+verdict+"/"+h.kind+fmt.Sprintf("/v%d", h.v), true)
	}
}

func (g *gen) hdr(v int, kind string) *hreq {
	return &hreq{v: v, tracing: g.r.Intn(3) == 0, stream: g.stream(v, g.r.Intn(40) == 0), kind: kind}
}

func (g *gen) genSimple(v int, gap bool) {
	switch g.r.Intn(4) {
	case 0:
		h := g.hdr(v, "startup")
		if g.r.Intn(8) > 0 {
			for _, e := range g.kvmap(false) {
				if e.v == nil {
					e.v = []byte{}
				}
				h.opts = append(h.opts, e)
			}
			if gap && g.big > 0 && g.r.Intn(4) == 0 {
				g.big--
				h.opts[0].v = g.bytesN(65536 + g.r.Intn(3))
			}
		}
		g.emit(h, fmt.Sprintf("startup/v%d/n%d", v, len(h.opts)))
	case 1:
		g.emit(g.hdr(v, "options"), fmt.Sprintf("options/v%d", v))
	case 2:
		h := g.hdr(v, "auth")
		switch g.r.Intn(4) {
		case 0:
			h.data = nil
		case 1:
			h.data = []byte{}
		default:
			h.data = g.bs()
		}
		g.emit(h, fmt.Sprintf("auth/v%d", v))
	default:
		h := g.hdr(v, "register")
		n := g.count(true)
		for i := 0; i < n; i++ {
			h.events = append(h.events, g.shortStr(gap))
		}
		g.emit(h, fmt.Sprintf("register/v%d/n%d", v, sizeClass(n)))
	}
}

func sizeClass(n int) string {
	switch {
	case n <= 2:
		return strconv.Itoa(n)
	case n < 255:
		return "few"
	case n <= 257:
		return strconv.Itoa(n)
	case n == 65535 || n == 65536:
		return strconv.Itoa(n)
	}
	return "many"
}

func (g *gen) genQueryLike(v int, kind string, nvals int, gap bool, flags int) {
	h := g.hdr(v, kind)
	var mode string
	h.p, mode = g.params(v, nvals, gap, flags)
	if kind == "query" {
		h.stmt = g.bs()
		if v == 1 && !gap {
			h.p.values = nil
			mode = "pos"
		}
	} else {
		h.id = g.shortStr(gap)
		if v == 1 && !gap {
			for i := range h.p.values {
				h.p.values[i].name = nil
			}
			mode = "pos"
		}
	}
	h.payload = g.payload(v, gap)
	pl := ""
	if len(h.payload) > 0 {
		pl = "/payload"
	}
	g.emit(h, fmt.Sprintf("%s/v%d/n%s/%s%s", kind, v, sizeClass(len(h.p.values)), mode, pl))
}

func (g *gen) genPrepare(v int, gap bool) {
	h := g.hdr(v, "prepare")
	h.stmt = g.bs()
	if v >= 5 && g.r.Bool() || gap && g.r.Intn(4) == 0 {
		h.ks = g.nonEmpty()
	}
	h.payload = g.payload(v, gap)
	g.emit(h, fmt.Sprintf("prepare/v%d/ks%d", v, len(h.ks)))
}

func (g *gen) genBatch(v int, nst int, nvals int, gap bool) {
	h := g.hdr(v, "batch")
	h.btyp = []int{0, 1, 2, 0, 1, 2, 3, 255}[g.r.Intn(8)]
	h.cons = g.cons()
	if (v >= 3 || gap) && g.r.Bool() {
		h.serial = g.serial()
	}
	if (v >= 3 || gap) && g.r.Bool() {
		h.dts = true
		h.tsv = g.ts()
	}
	mode := "pos"
	h.stmts = make([]bstmt, nst)
	for i := range h.stmts {
		s := &h.stmts[i]
		n := nvals
		if n < 0 {
			n = g.count(i == 0 && nst < 10)
			if nst > 1000 {
				n = g.r.Intn(2)
			}
		}
		if g.r.Bool() {
			s.id = g.nonEmpty()
			if nst > 1000 {
				s.id = []byte{byte(i), byte(i >> 8)}
			}
		} else {
			s.stmt = g.bs()
			if nst > 1000 {
				s.stmt = []byte{byte(i)}
			}
		}
		var m string
		s.values, m = g.values(v, n, gap && g.r.Intn(4) == 0, gap)
		if m != "pos" {
			mode = m
		}
	}
	h.payload = g.payload(v, gap)
	g.emit(h, fmt.Sprintf("batch/v%d/n%s/%s", v, sizeClass(nst), mode))
}

func main() {
	mode, tier, path := vh.Args()
	if mode == "replay" {
		for _, l := range vh.ReadLines(path) {
			fmt.Println(exec(l))
		}
		return
	}
	r := vh.NewRng(vh.EnvSeed())
	out := vh.NewOut(path)
	g := &gen{r: r, out: out, big: 6}
	mult := 1
	if tier == "thorough" {
		mult = 30
		g.big = 40
	}

	// 1. stream ids: every id for v1/v2, boundaries + sample (thorough: every id) for v3..v5; tracing on/off
	for v := 1; v <= 5; v++ {
		max := 128
		if v > 2 {
			max = 32768
		}
		step := 1
		if v > 2 && tier != "thorough" {
			step = 97
		}
		for s := 0; s < max; s += step {
			h := &hreq{v: v, tracing: s%2 == 1, stream: s, kind: "options"}
			g.emit(h, fmt.Sprintf("stream/v%d", v))
		}
		for _, s := range []int{max - 1, max - 2, 255 % max, 256 % max, max / 2} {
			g.emit(&hreq{v: v, tracing: false, stream: s, kind: "options"}, fmt.Sprintf("stream/v%d", v))
		}
		for _, s := range []int{-1, max, max + 1, 2*max - 1, 2 * max, 1 << 20, -max - 1} {
			g.emit(&hreq{v: v, tracing: true, stream: s, kind: "options"}, fmt.Sprintf("stream-out-of-range/v%d", v))
		}
	}

	// 2. every combination of the optional query parameters, QUERY and EXECUTE, v2..v5 (v1 has none)
	reps := 1
	if tier == "thorough" {
		reps = 8
	}
	for rep := 0; rep < reps; rep++ {
		for v := 1; v <= 5; v++ {
			for fl := 0; fl < 256; fl++ {
				if fl&0x40 != 0 && fl&0x01 == 0 {
					continue
				}
				for _, kind := range []string{"query", "execute"} {
					n := 0
					if fl&0x01 != 0 {
						n = 1 + g.r.Intn(3)
					}
					g.genQueryLike(v, kind, n, false, fl)
				}
			}
		}
	}

	// 3. random requests of every kind and version, expressible ones and the known gaps
	for i := 0; i < 8000*mult; i++ {
		v := 1 + g.r.Intn(5)
		gap := g.r.Intn(5) == 0
		switch g.r.Intn(10) {
		case 0, 1:
			g.genSimple(v, gap)
		case 2, 3, 4:
			g.genQueryLike(v, "query", g.count(true), gap, -1)
		case 5, 6:
			g.genQueryLike(v, "execute", g.count(true), gap, -1)
		case 7:
			g.genPrepare(v, gap)
		default:
			if v == 1 && !gap {
				v = 2 + g.r.Intn(4)
			}
			g.genBatch(v, g.count(true), -1, gap)
		}
	}

	// 4. the count boundaries 255, 256, 65535, 65536 (the last not expressible: count truncated)
	for _, n := range []int{255, 256, 65535, 65536, 65537} {
		rp := 1
		if n < 1000 {
			rp = 6 * mult
		} else if tier == "thorough" {
			rp = 3
		}
		for k := 0; k < rp; k++ {
			v := 1 + (k+n)%5
			g.genQueryLike(v, "execute", n, n > 65535, -1)
			g.genQueryLike(2+(k+n)%4, "query", n, n > 65535, -1)
			g.genBatch(2+(k+n+1)%4, n, -1, n > 65535)
			g.genBatch(2+(k+n+2)%4, 1+g.r.Intn(2), n, n > 65535)
			h := g.hdr(v, "register")
			for i := 0; i < n; i++ {
				h.events = append(h.events, []byte{byte('a' + i%26)})
			}
			g.emit(h, fmt.Sprintf("register/v%d/n%s", v, sizeClass(n)))
		}
	}
	// 5. compact very large requests (digest answers): counts and short strings around 2^16, far beyond
	for ni, n := range []int{65535, 65536, 65537, 65536 + 255, 131072} {
		for v := 1; v <= 5; v++ {
			if tier != "thorough" && n != 65536 && v != 1+(ni+int(vh.EnvSeed()))%5 {
				continue
			}
			ops := []string{
				fmt.Sprintf("encd %d 0 %d execute ab 1 0 0 - 0 0 0 - *%d - n 0", v, n%128, n),
				fmt.Sprintf("encd %d 1 %d execute ab 1 0 0 - 0 0 0 - *%d - v01 0", v, n%128, n),
				fmt.Sprintf("encd %d 0 %d register *%d 61", v, n%128, n),
				fmt.Sprintf("encd %d 0 %d register 1 x%d*62", v, n%128, n),
				fmt.Sprintf("encd %d 0 %d execute x%d*63 1 0 0 - 0 0 0 - 0 0", v, n%128, n),
				fmt.Sprintf("encd %d 0 %d startup 1 x%d*64 x%d*65", v, n%128, n, n+1),
				fmt.Sprintf("encd %d 0 %d batch 1 4 0 0 0 *%d - 78 0 0", v, n%128, n),
				fmt.Sprintf("encd %d 0 %d batch 1 4 0 0 0 2 ab - *%d - v02 - 79 1 - n 0", v, n%128, n),
			}
			if v >= 3 {
				ops = append(ops, fmt.Sprintf("encd %d 0 %d query 78 1 0 0 - 0 0 0 - 1 x%d*6e v01 0", v, n%128, n))
			}
			if v >= 5 {
				ops = append(ops, fmt.Sprintf("encd %d 0 %d query 78 1 0 0 - 0 0 0 x%d*6b 0 0", v, n%128, n))
			}
			for _, op := range ops {
				out.Case(op, exec(op), fmt.Sprintf("encd/v%d/n%d", v, n), true)
			}
		}
	}
	// 6. a real Session over an in-memory peer: the frames Conn.startup / UseKeyspace / prepareStatement /
	// executeQuery / executeBatch put on the wire, decoded by the specification
	nsess := 150
	if tier == "thorough" {
		nsess = 3000
	}
	for i := 0; i < nsess; i++ {
		g.sessionScenario(i)
	}
	// 6b. sent or refused: batches with every positional / named pattern through Session.ExecuteBatch
	for i := 0; i < nsess/4; i++ {
		g.soutScenario(i)
	}
	// 7. handshake tier: one real connection against a scripted peer and a scripted multi-round
	// authenticator; the requests that are due follow from the peer's answers
	nhs := 500
	if tier == "thorough" {
		nhs = 12000
	}
	for i := 0; i < nhs; i++ {
		g.hsScenarioCase(i)
	}
	out.Close(map[string]interface{}{"tier": tier})
	if os.Getenv("VERIF_C03_DIST") != "" {
		for k, v := range out.Dist {
			fmt.Println(k, v)
		}
	}
}
