// Session tier, "sent or refused" (op `sout`): a BATCH handed to a real Session whose entries carry every
// positional / named pattern over their bound values. What happened on the real code — the error came back
// and no BATCH frame reached the peer, or a BATCH frame reached the peer — is put on the op line; the Lean
// side judges it with the specification (FrameWrite.judge: sent => must be expressible and decode to exactly
// what was asked; inexpressible => must not be sent; the known gaps excluded by not-Rejectable).
//
//	sout <refused | framehex> <n> <statement text hex>*n HDR REQ
package main

import (
	"bytes"
	"fmt"
	"strings"
	"time"

	"github.com/gocql/gocql"
	"verifharness/vh"
)

func (p *memPeer) count() int {
	p.mu.Lock()
	defer p.mu.Unlock()
	return len(p.frames)
}

func (p *memPeer) since(n int) [][]byte {
	p.mu.Lock()
	defer p.mu.Unlock()
	return append([][]byte{}, p.frames[n:]...)
}

// rejectableBatch: the inexpressible batches the builders are known to refuse (Lean: FrameWrite.Rejectable)
func rejectableBatch(h *hreq) bool {
	if len(h.payload) > 0 && h.v < 4 || len(h.stmts) > 65535 {
		return true
	}
	for _, s := range h.stmts {
		if len(s.values) > 65535 {
			return true
		}
	}
	if h.v > 2 {
		for _, s := range h.stmts {
			for _, x := range s.values {
				if len(x.name) > 0 {
					return true
				}
			}
		}
	}
	return false
}

// soutVerdict is what the real code's behaviour CLAIMS: a frame that went out claims to be right ("ok"), an
// error that came back claims the request had to be refused ("refused-ok"); only the known gaps (inexpressible
// and not of the refused kinds — exactly the predicate of C03_inexpressible_rejected_partial) are "gap" whatever
// happened. The specification's judgement (Lean: FrameWrite.judge on the outcome) has to agree.
func soutVerdict(h *hreq, sent bool) string {
	if !expressible(h) && !rejectable(h) {
		return "gap"
	}
	if sent {
		return "ok"
	}
	return "refused-ok"
}

// namePattern puts names on the values of one batch entry: 0 none, 1 first only, 2 a later one only,
// 3 all, 4 all but the first, 5 random subset
func (g *gen) namePattern(vs []val) int {
	for i := range vs {
		vs[i].name = nil
	}
	if len(vs) == 0 {
		return 0
	}
	pat := g.r.Intn(6)
	for i := range vs {
		on := false
		switch pat {
		case 1:
			on = i == 0
		case 2:
			on = i == len(vs)-1 && i > 0
		case 3:
			on = true
		case 4:
			on = i > 0
		case 5:
			on = g.r.Bool()
		}
		if on {
			vs[i].name = g.nonEmpty()
		}
	}
	for i := range vs {
		if len(vs[i].name) > 0 {
			return pat
		}
	}
	return 0
}

func soutLine(outcome string, texts []string, h *hreq) string {
	var sb strings.Builder
	fmt.Fprintf(&sb, "sout %s %d", outcome, len(texts))
	for _, t := range texts {
		sb.WriteString(" " + vh.Hex([]byte(t)))
	}
	return sb.String() + " " + h.String()
}

// apiBatch states the batch h (entry texts `texts`) through the Session API.
func apiBatch(sess *gocql.Session, h *hreq, texts []string) *gocql.Batch {
	b := sess.NewBatch(gocql.BatchType(h.btyp))
	b.Cons = gocql.Consistency(h.cons)
	b.DefaultTimestamp(false)
	b.SerialConsistency(gocql.SerialConsistency(h.serial))
	if h.dts {
		b.WithTimestamp(h.tsv)
	}
	if h.tracing {
		b.Trace(nopTracer{})
	}
	b.CustomPayload = payloadMap(h.payload)
	for i, s := range h.stmts {
		b.Query(texts[i], bindArgs(s.values)...)
	}
	return b
}

func zeroStream(v int, f []byte) []byte {
	o := append([]byte{}, f...)
	o[2] = 0
	if v > 2 {
		o[3] = 0
	}
	return o
}

// execSout replays one sout line on a fresh Session.
func execSout(w []string) string {
	t := &toks{w: w, i: 1}
	listed := t.next()
	var texts []string
	for i, n := 0, t.plainCount(); i < n; i++ {
		texts = append(texts, string(t.hex()))
	}
	h := parseReq(t)
	if h.kind != "batch" || len(texts) != len(h.stmts) {
		return "bad-op"
	}
	peer := &memPeer{}
	cfg := gocql.NewCluster("127.0.0.1")
	gocql.VerifC03DisableControlConn(cfg)
	cfg.ProtoVersion = h.v
	cfg.HostDialer = peer
	cfg.NumConns = 1
	cfg.Timeout = 5 * time.Second
	cfg.ConnectTimeout = 5 * time.Second
	cfg.ReconnectInterval = 0
	cfg.DisableInitialHostLookup = true
	cfg.DefaultTimestamp = false
	cfg.Logger = nopLogger{}
	sess, err := gocql.NewSession(*cfg)
	if err != nil {
		return "setup:newsession"
	}
	defer sess.Close()
	before := peer.count()
	execBatchRecover(sess, apiBatch(sess, h, texts))
	var sentFrame []byte
	for _, f := range peer.since(before) {
		if frameOp(h.v, f) == 0x0D {
			sentFrame = f
		}
	}
	if listed == "refused" {
		if sentFrame != nil {
			return "outcome-differs:sent:" + vh.Hex(sentFrame)
		}
		return soutVerdict(h, false)
	}
	want, uerr := vh.UnHex(listed)
	if uerr != nil {
		return "bad-op"
	}
	if sentFrame == nil {
		return "outcome-differs:refused"
	}
	if !bytes.Equal(zeroStream(h.v, sentFrame), zeroStream(h.v, want)) {
		return "outcome-differs:sent:" + vh.Hex(sentFrame)
	}
	return soutVerdict(h, true)
}

// soutScenario: ONE Session of protocol v (2..5), a run of batches through Session.ExecuteBatch whose entries
// carry every positional / named pattern (about two in three batches have a name somewhere), each judged by a
// sout op. The session goes on after a refusal.
func (g *gen) soutScenario(idx int) {
	v := 2 + g.r.Intn(4)
	peer := &memPeer{}
	cfg := gocql.NewCluster("127.0.0.1")
	gocql.VerifC03DisableControlConn(cfg)
	cfg.ProtoVersion = v
	cfg.HostDialer = peer
	cfg.NumConns = 1
	cfg.Timeout = 5 * time.Second
	cfg.ConnectTimeout = 5 * time.Second
	cfg.ReconnectInterval = 0
	cfg.DisableInitialHostLookup = true
	cfg.DefaultTimestamp = false
	cfg.Logger = nopLogger{}
	sess, err := gocql.NewSession(*cfg)
	if err != nil {
		g.out.Case(fmt.Sprintf("sess sout %d newsession", idx), "err:newsession", "sout/newsession-failed", false)
		return
	}
	defer sess.Close()
	for bi := 0; bi < 10; bi++ {
		h := &hreq{v: v, kind: "batch", btyp: g.r.Intn(3), cons: g.r.Intn(11)}
		if v >= 3 {
			if g.r.Intn(3) == 0 {
				h.serial = 8 + g.r.Intn(2)
			}
			if g.r.Intn(3) == 0 {
				h.dts, h.tsv = true, g.ts()
			}
		}
		h.tracing = g.r.Intn(4) == 0
		if g.r.Intn(4) == 0 {
			h.payload = g.kvmap(true) // below v4: to be refused
		}
		ne := 1 + g.r.Intn(3)
		var texts []string
		pats := ""
		for e := 0; e < ne; e++ {
			nv := g.r.Intn(5)
			stmt := fmt.Sprintf("INSERT INTO so%d_%d_%d (a) VALUES (%s)", idx, bi, e, strings.TrimSuffix(strings.Repeat("?,", nv), ","))
			vs := g.apiValues(v, nv, false)
			pat := 0
			for i := range vs {
				vs[i].name = nil
			}
			if g.r.Intn(2) == 0 {
				pat = g.namePattern(vs)
			}
			pats += fmt.Sprint(pat)
			texts = append(texts, stmt)
			if nv > 0 {
				h.stmts = append(h.stmts, bstmt{id: preparedID(stmt), values: vs})
			} else {
				h.stmts = append(h.stmts, bstmt{stmt: []byte(stmt)})
			}
		}
		before := peer.count()
		execBatchRecover(sess, apiBatch(sess, h, texts))
		var sentFrame []byte
		for _, f := range peer.since(before) {
			if frameOp(v, f) == 0x0D {
				sentFrame = f
			}
		}
		outcome := "refused"
		if sentFrame != nil {
			outcome = vh.Hex(sentFrame)
			h.stream = streamOf(v, sentFrame)
			if m := h.theMap(); len(*m) > 1 {
				if keys, ok := mapOrder(h, sentFrame); ok {
					reorder(m, keys)
				}
			}
		}
		g.out.Case(soutLine(outcome, texts, h), soutVerdict(h, sentFrame != nil),
			fmt.Sprintf("sout/v%d/pat%s/%s", v, pats, map[bool]string{true: "sent", false: "refused"}[sentFrame != nil]), true)
	}
}

// rejectable: the inexpressible requests the builders are known to refuse (Lean: FrameWrite.Rejectable) — custom
// payload below v4, keyspace below v5, a named value in a v3+ BATCH, more than 65535 values / batch entries.
func rejectable(h *hreq) bool {
	pl := len(h.payload) > 0 && h.v < 4
	switch h.kind {
	case "query":
		return pl || (h.v != 1 && len(h.p.ks) > 0 && h.v < 5) || len(h.p.values) > 65535
	case "execute":
		return pl || (h.v > 1 && len(h.p.ks) > 0 && h.v < 5) || len(h.p.values) > 65535
	case "prepare":
		return pl || (len(h.ks) > 0 && h.v < 5)
	case "batch":
		return rejectableBatch(h)
	}
	return false
}

// outcomeClaim: see soutVerdict — what the real code's behaviour claims, for any request kind.
func outcomeClaim(h *hreq, sent bool) string {
	if !expressible(h) && !rejectable(h) {
		return "gap"
	}
	if sent {
		return "ok"
	}
	return "refused-ok"
}

// execBout replays a bout line: the real builder again (an error or a panic before any byte is a refusal).
func execBout(w []string) string {
	listed := w[1]
	h := parseReq(&toks{w: w, i: 2})
	if listed == "refused" {
		frame, outcome := buildListedOrder(h, nil)
		if outcome == "" {
			return "outcome-differs:sent:" + vh.Hex(frame)
		}
		if strings.HasPrefix(outcome, "crash:") {
			return outcome
		}
		return outcomeClaim(h, false)
	}
	want, err := vh.UnHex(listed)
	if err != nil {
		return "bad-op"
	}
	frame, outcome := buildListedOrder(h, want)
	if outcome != "" {
		return "outcome-differs:" + outcome
	}
	if !bytes.Equal(frame, want) {
		return "outcome-differs:sent:" + vh.Hex(frame)
	}
	return outcomeClaim(h, true)
}

// execBatchRecover: a panic of the builder in the caller's goroutine (custom payload below v4) is a refusal.
func execBatchRecover(sess *gocql.Session, b *gocql.Batch) (err error) {
	defer func() {
		if r := recover(); r != nil {
			err = fmt.Errorf("panic: %v", r)
		}
	}()
	return sess.ExecuteBatch(b)
}
