// Handshake tier of the C03 harness: ONE real connection (Session.dial -> Conn.init ->
// startupCoordinator.setupConn) talks to a SCRIPTED in-memory peer. The peer answers request k with the
// k-th answer of its script, whatever the request is, and records every frame it receives. The
// authenticator is scripted too: the token of every round is a function of the challenges seen so far.
// After the handshake the owner's plan runs on the connection (UseKeyspace, controlConn.registerEvents,
// Conn.executeQuery = PREPARE -> EXECUTE). Two ops per scenario:
//
//	hs  <scenario> <frames>            spec-backed: Lean computes the requests that are due from
//	                                   (configuration, authenticator, plan, peer answers) and decodes the frames
//	hsm <scenario> <order> <streams>   model of conn.go: the bytes it writes, compared byte for byte
package main

import (
	"bytes"
	"context"
	"encoding/binary"
	"errors"
	"fmt"
	"io"
	"net"
	"strings"
	"sync"
	"time"

	"github.com/gocql/gocql"
	"verifharness/vh"
)

type hsDirective struct {
	kind string // f n e c m x
	data []byte
	next bool
}

type hsAction struct {
	kind                 string // use reg exec
	ks                   []byte
	topo, status, schema bool
	stmt                 []byte
	cons                 int
	vals                 [][]byte // nil = null
}

type supEntry struct {
	key  []byte
	vals [][]byte
}

type hsAnswer struct {
	kind string // sup ready authn chal succ err setks void prep unprep
	sup  []supEntry
	b    []byte // class / token (nil = null) / prepared id
	n    int    // bind columns of prep
}

type hsScenario struct {
	v           int
	cql, dn, dv []byte
	comp        []byte // nil = no compressor configured
	hasAuth     bool
	cons        int
	skipMeta    bool
	succOk      bool
	auth        []hsDirective
	plan        []hsAction
	answers     []hsAnswer
}

func (s *hsScenario) String() string {
	var sb strings.Builder
	fmt.Fprintf(&sb, "%d %s %s %s %s %s %d %s", s.v, vh.Hex(s.cql), vh.Hex(s.dn), vh.Hex(s.dv), optb(s.comp), b2s(s.hasAuth), s.cons, b2s(s.skipMeta))
	fmt.Fprintf(&sb, " %s %d", b2s(s.succOk), len(s.auth))
	for _, d := range s.auth {
		fmt.Fprintf(&sb, " %s %s %s", d.kind, vh.Hex(d.data), b2s(d.next))
	}
	fmt.Fprintf(&sb, " %d", len(s.plan))
	for _, a := range s.plan {
		switch a.kind {
		case "use":
			fmt.Fprintf(&sb, " use %s", vh.Hex(a.ks))
		case "reg":
			fmt.Fprintf(&sb, " reg %s %s %s", b2s(a.topo), b2s(a.status), b2s(a.schema))
		case "exec":
			fmt.Fprintf(&sb, " exec %s %d %d", vh.Hex(a.stmt), a.cons, len(a.vals))
			for _, x := range a.vals {
				sb.WriteString(" " + optb(x))
			}
		}
	}
	fmt.Fprintf(&sb, " %d", len(s.answers))
	for _, a := range s.answers {
		switch a.kind {
		case "sup":
			fmt.Fprintf(&sb, " sup %d", len(a.sup))
			for _, e := range a.sup {
				fmt.Fprintf(&sb, " %s %d", vh.Hex(e.key), len(e.vals))
				for _, x := range e.vals {
					sb.WriteString(" " + vh.Hex(x))
				}
			}
		case "authn":
			fmt.Fprintf(&sb, " authn %s", vh.Hex(a.b))
		case "chal", "succ":
			fmt.Fprintf(&sb, " %s %s", a.kind, optb(a.b))
		case "prep":
			fmt.Fprintf(&sb, " prep %s %d", vh.Hex(a.b), a.n)
		case "unprep":
			fmt.Fprintf(&sb, " unprep %s", vh.Hex(a.b))
		default:
			sb.WriteString(" " + a.kind)
		}
	}
	return sb.String()
}

func (t *toks) plainCount() int {
	n := t.int()
	if n < 0 || n > 1<<20 {
		panic("bad-op")
	}
	return int(n)
}

func parseHsScenario(t *toks) *hsScenario {
	s := &hsScenario{}
	s.v = int(t.int())
	s.cql, s.dn, s.dv = t.hex(), t.hex(), t.hex()
	s.comp = t.optb()
	s.hasAuth = t.bool()
	s.cons = int(t.int())
	s.skipMeta = t.bool()
	s.succOk = t.bool()
	for i, n := 0, t.plainCount(); i < n; i++ {
		s.auth = append(s.auth, hsDirective{kind: t.next(), data: t.hex(), next: t.bool()})
	}
	for i, n := 0, t.plainCount(); i < n; i++ {
		a := hsAction{kind: t.next()}
		switch a.kind {
		case "use":
			a.ks = t.hex()
		case "reg":
			a.topo, a.status, a.schema = t.bool(), t.bool(), t.bool()
		case "exec":
			a.stmt = t.hex()
			a.cons = int(t.int())
			for j, m := 0, t.plainCount(); j < m; j++ {
				a.vals = append(a.vals, t.optb())
			}
		default:
			panic("bad-op")
		}
		s.plan = append(s.plan, a)
	}
	for i, n := 0, t.plainCount(); i < n; i++ {
		a := hsAnswer{kind: t.next()}
		switch a.kind {
		case "sup":
			for j, m := 0, t.plainCount(); j < m; j++ {
				e := supEntry{key: t.hex()}
				for k, l := 0, t.plainCount(); k < l; k++ {
					e.vals = append(e.vals, t.hex())
				}
				a.sup = append(a.sup, e)
			}
		case "authn":
			a.b = t.hex()
		case "chal", "succ":
			a.b = t.optb()
		case "prep":
			a.b = t.hex()
			a.n = int(t.int())
		case "unprep":
			a.b = t.hex()
		case "ready", "err", "setks", "void":
		default:
			panic("bad-op")
		}
		s.answers = append(s.answers, a)
	}
	return s
}

// ---------- the scripted authenticator

type authRec struct {
	mu      sync.Mutex
	success [][]byte
}

type scriptAuth struct {
	sc   *hsScenario
	hist [][]byte // challenges seen by the chain so far (nil = null token)
	rec  *authRec
}

func cloneBytes(b []byte) []byte {
	if b == nil {
		return nil
	}
	return append([]byte{}, b...)
}

func (a *scriptAuth) Challenge(req []byte) ([]byte, gocql.Authenticator, error) {
	hist := append(append([][]byte{}, a.hist...), cloneBytes(req))
	k := len(hist) - 1
	if k >= len(a.sc.auth) {
		return nil, nil, errors.New("scriptAuth: no more rounds")
	}
	d := a.sc.auth[k]
	var tok []byte
	switch d.kind {
	case "f":
		tok = append([]byte{}, d.data...)
	case "n":
		tok = nil
	case "e":
		tok = append(append([]byte{}, d.data...), req...)
	case "c":
		tok = append([]byte{}, d.data...)
		for _, h := range hist {
			tok = append(tok, h...)
		}
	case "m":
		tok = cloneBytes(req)
	default:
		return nil, nil, errors.New("scriptAuth: refused")
	}
	var next gocql.Authenticator
	if d.next {
		next = &scriptAuth{sc: a.sc, hist: hist, rec: a.rec}
	}
	return tok, next, nil
}

func (a *scriptAuth) Success(data []byte) error {
	a.rec.mu.Lock()
	a.rec.success = append(a.rec.success, cloneBytes(data))
	a.rec.mu.Unlock()
	if !a.sc.succOk {
		return errors.New("scriptAuth: final token refused")
	}
	return nil
}

// idComp is a "compression algorithm" whose Encode and Decode are the identity: what the framer does
// around the algorithm (header flag 0x01, which frames are handed to Encode) stays observable, and the
// body stays readable by the specification decoder. The algorithms themselves are C18.
type idComp struct{ name string }

func (c idComp) Name() string                     { return c.name }
func (c idComp) Encode(b []byte) ([]byte, error) { return append([]byte{}, b...), nil }
func (c idComp) Decode(b []byte) ([]byte, error) { return append([]byte{}, b...), nil }

// ---------- the scripted peer

type hsPeer struct {
	sc      *hsScenario
	mu      sync.Mutex
	frames  [][]byte
	next    int
	options int
	done    chan struct{}
	dialed  bool
}

func (p *hsPeer) DialHost(ctx context.Context, host *gocql.HostInfo) (*gocql.DialedHost, error) {
	p.mu.Lock()
	if p.dialed {
		p.mu.Unlock()
		return nil, errors.New("hsPeer: second dial")
	}
	p.dialed = true
	p.mu.Unlock()
	cli, srv := net.Pipe()
	go p.serve(srv)
	return &gocql.DialedHost{Conn: memConn{cli}, DisableCoalesce: true}, nil
}

func lstr(b []byte) []byte { return append(be16(len(b)), b...) }
func lbytes(b []byte) []byte {
	if b == nil {
		return be32(-1)
	}
	return append(be32(len(b)), b...)
}

func (a *hsAnswer) encode(v int) (op byte, body []byte) {
	switch a.kind {
	case "sup":
		body = be16(len(a.sup))
		for _, e := range a.sup {
			body = append(body, lstr(e.key)...)
			body = append(body, be16(len(e.vals))...)
			for _, x := range e.vals {
				body = append(body, lstr(x)...)
			}
		}
		return 0x06, body
	case "ready":
		return 0x02, nil
	case "authn":
		return 0x03, lstr(a.b)
	case "chal":
		return 0x0E, lbytes(a.b)
	case "succ":
		return 0x10, lbytes(a.b)
	case "err":
		return 0x00, append(be32(0), lstr([]byte("scripted error"))...)
	case "unprep":
		// ERROR 0x2500 Unprepared: <message> <short bytes id>
		return 0x00, append(append(be32(0x2500), lstr([]byte("scripted unprepared"))...), lstr(a.b)...)
	case "setks":
		return 0x08, append(be32(3), lstr([]byte("ks"))...)
	case "void":
		return 0x08, be32(1)
	case "prep":
		body = append(body, be32(4)...)
		body = append(body, be16(len(a.b))...)
		body = append(body, a.b...)
		body = append(body, be32(1)...) // global table spec
		body = append(body, be32(a.n)...)
		if v >= 4 {
			body = append(body, be32(0)...)
		}
		body = append(body, str("ks")...)
		body = append(body, str("tbl")...)
		for i := 0; i < a.n; i++ {
			body = append(body, str(fmt.Sprintf("c%d", i))...)
			body = append(body, be16(3)...) // blob
		}
		if v >= 2 {
			body = append(body, be32(4)...) // no metadata
			body = append(body, be32(0)...)
		}
		return 0x08, body
	}
	panic("bad-op")
}

func (p *hsPeer) serve(c net.Conn) {
	defer close(p.done)
	defer c.Close()
	defer func() { recover() }()
	for {
		first := make([]byte, 1)
		if _, err := io.ReadFull(c, first); err != nil {
			return
		}
		v := int(first[0] & 0x7f)
		hs := 8
		if v > 2 {
			hs = 9
		}
		hdr := make([]byte, hs)
		hdr[0] = first[0]
		if _, err := io.ReadFull(c, hdr[1:]); err != nil {
			return
		}
		n := int(binary.BigEndian.Uint32(hdr[hs-4:]))
		body := make([]byte, n)
		if _, err := io.ReadFull(c, body); err != nil {
			return
		}
		op := hdr[hs-5]
		var rop byte
		var rbody []byte
		if op == 0x05 && p.options > 0 {
			// the connection's heartbeat (an OPTIONS after the first one): answered, not part of the exchange
			rop, rbody = 0x06, be16(0)
		} else {
			if op == 0x05 {
				p.options++
			}
			p.mu.Lock()
			p.frames = append(p.frames, append(append([]byte{}, hdr...), body...))
			p.mu.Unlock()
			if p.next >= len(p.sc.answers) {
				return // script exhausted: the peer hangs up
			}
			a := &p.sc.answers[p.next]
			p.next++
			rop, rbody = a.encode(v)
		}
		resp := []byte{hdr[0] | 0x80, 0}
		resp = append(resp, hdr[2:hs-5]...)
		resp = append(resp, rop)
		resp = append(resp, be32(len(rbody))...)
		resp = append(resp, rbody...)
		if _, err := c.Write(resp); err != nil {
			return
		}
	}
}

type hsResult struct {
	frames  [][]byte
	status  string
	success [][]byte
	setup   string // "" or why the scenario could not be run
}

func bindBlobs(vals [][]byte) []interface{} {
	out := make([]interface{}, len(vals))
	for i, x := range vals {
		if x == nil && i%2 == 0 {
			out[i] = nil
		} else {
			out[i] = x
		}
	}
	return out
}

// runHs runs the scenario on the real code.
func runHs(sc *hsScenario) (res hsResult) {
	base := &memPeer{}
	cfg := gocql.NewCluster("127.0.0.1")
	gocql.VerifC03DisableControlConn(cfg)
	cfg.ProtoVersion = sc.v
	cfg.HostDialer = base
	cfg.NumConns = 1
	cfg.Timeout = 20 * time.Second
	cfg.ConnectTimeout = 20 * time.Second
	cfg.ReconnectInterval = 0
	cfg.DisableInitialHostLookup = true
	cfg.Consistency = gocql.Consistency(sc.cons)
	cfg.DefaultTimestamp = false
	cfg.DisableSkipMetadata = !sc.skipMeta
	cfg.CQLVersion = string(sc.cql)
	cfg.Logger = nopLogger{}
	for _, a := range sc.plan {
		if a.kind == "reg" {
			cfg.Events.DisableTopologyEvents = !a.topo
			cfg.Events.DisableNodeStatusEvents = !a.status
			cfg.Events.DisableSchemaEvents = !a.schema
		}
	}
	sess, err := gocql.NewSession(*cfg)
	if err != nil {
		res.setup = "newsession:" + strings.ReplaceAll(err.Error(), "\n", " ")
		return
	}
	defer sess.Close()
	peer := &hsPeer{sc: sc, done: make(chan struct{})}
	rec := &authRec{}
	conn, err := gocql.VerifC03dDial(sess, func(c *gocql.ConnConfig) {
		c.HostDialer = peer
		c.Authenticator = nil
		if sc.hasAuth {
			c.Authenticator = &scriptAuth{sc: sc, rec: rec}
		}
		c.Compressor = nil
		if sc.comp != nil {
			c.Compressor = idComp{string(sc.comp)}
		}
	})
	if err != nil {
		res.status = "hsfail"
	} else {
		res.status = "done"
		for _, a := range sc.plan {
			var aerr error
			switch a.kind {
			case "use":
				aerr = conn.UseKeyspace(string(a.ks))
			case "reg":
				aerr = gocql.VerifC03dRegisterEvents(sess, conn)
			case "exec":
				q := sess.Query(string(a.stmt)).Consistency(gocql.Consistency(a.cons)).PageSize(0).
					SerialConsistency(0).DefaultTimestamp(false)
				if len(a.vals) > 0 {
					q = q.Bind(bindBlobs(a.vals)...)
				}
				aerr = gocql.VerifC03dExecuteQuery(conn, q)
			}
			if aerr != nil {
				res.status = "actfail"
				break
			}
		}
		conn.Close()
	}
	if !peer.dialed {
		res.setup = "not-dialed"
		return
	}
	select {
	case <-peer.done:
	case <-time.After(30 * time.Second):
		res.setup = "peer-stuck"
		return
	}
	peer.mu.Lock()
	res.frames = peer.frames
	peer.mu.Unlock()
	rec.mu.Lock()
	res.success = rec.success
	rec.mu.Unlock()
	return
}

func successStr(l [][]byte) string {
	if len(l) == 0 {
		return "-"
	}
	parts := make([]string, len(l))
	for i, x := range l {
		parts[i] = optb(x)
	}
	return strings.Join(parts, ",")
}

func headSize(v int) int {
	if v > 2 {
		return 9
	}
	return 8
}

func frameOp(v int, f []byte) byte { return f[headSize(v)-5] }

// hsSpecAnswer: what the run on the real code looked like from outside — unless the exchange reached a
// request the version cannot express (AUTH_RESPONSE does not exist in protocol 1: KF-C03-10), which is
// classified by exactly that condition.
func hsSpecAnswer(sc *hsScenario, res *hsResult) string {
	if sc.v == 1 {
		for i, f := range res.frames {
			if frameOp(sc.v, f) == 0x0F {
				return fmt.Sprintf("inexpressible:%d", i)
			}
		}
	}
	return fmt.Sprintf("ok n=%d status=%s success=%s", len(res.frames), res.status, successStr(res.success))
}

func hsModelAnswer(res *hsResult) string {
	parts := make([]string, len(res.frames))
	for i, f := range res.frames {
		parts[i] = vh.Hex(f)
	}
	return fmt.Sprintf("%s status=%s success=%s", strings.Join(parts, ","), res.status, successStr(res.success))
}

// startupOrder reads the keys of the STARTUP frame's [string map] in wire order.
func startupOrder(v int, frames [][]byte) (keys [][]byte) {
	defer func() {
		if recover() != nil {
			keys = nil
		}
	}()
	for _, f := range frames {
		if frameOp(v, f) != 0x01 {
			continue
		}
		b := f[headSize(v):]
		n := int(binary.BigEndian.Uint16(b))
		b = b[2:]
		for i := 0; i < n; i++ {
			kl := int(binary.BigEndian.Uint16(b))
			keys = append(keys, b[2:2+kl])
			b = b[2+kl:]
			vl := int(binary.BigEndian.Uint16(b))
			b = b[2+vl:]
		}
		return keys
	}
	return nil
}

func hsFramesWords(res *hsResult) string {
	var sb strings.Builder
	fmt.Fprintf(&sb, "%d", len(res.frames))
	for _, f := range res.frames {
		sb.WriteString(" " + vh.Hex(f))
	}
	return sb.String()
}

func hsOrderStreams(sc *hsScenario, res *hsResult) string {
	var sb strings.Builder
	keys := startupOrder(sc.v, res.frames)
	fmt.Fprintf(&sb, "%d", len(keys))
	for _, k := range keys {
		sb.WriteString(" " + vh.Hex(k))
	}
	fmt.Fprintf(&sb, " %d", len(res.frames))
	for _, f := range res.frames {
		fmt.Fprintf(&sb, " %d", streamOf(sc.v, f))
	}
	return sb.String()
}

func sameFrames(a, b [][]byte) bool {
	if len(a) != len(b) {
		return false
	}
	for i := range a {
		if !bytes.Equal(a[i], b[i]) {
			return false
		}
	}
	return true
}

// execHs replays an hs / hsm line on the real code. The STARTUP options are a Go map: the scenario is
// re-run until the frames come out in the listed iteration order.
func execHs(w []string) string {
	t := &toks{w: w, i: 1}
	sc := parseHsScenario(t)
	var res hsResult
	if w[0] == "hs" {
		var want [][]byte
		for i, n := 0, t.plainCount(); i < n; i++ {
			want = append(want, t.hex())
		}
		for try := 0; try < 400; try++ {
			res = runHs(sc)
			if res.setup != "" {
				return "setup:" + res.setup
			}
			if sameFrames(res.frames, want) {
				return hsSpecAnswer(sc, &res)
			}
		}
		parts := make([]string, len(res.frames))
		for i, f := range res.frames {
			parts[i] = vh.Hex(f)
		}
		return "frames-differ:" + strings.Join(parts, ",")
	}
	rest := strings.Join(w[t.i:], " ")
	for try := 0; try < 400; try++ {
		res = runHs(sc)
		if res.setup != "" {
			return "setup:" + res.setup
		}
		if hsOrderStreams(sc, &res) == rest {
			break
		}
	}
	return hsModelAnswer(&res)
}

// ---------- generator

var compNames = [][]byte{[]byte("snappy"), []byte("lz4"), []byte("zstd"), []byte("id")}

func (g *gen) token() []byte {
	switch g.r.Intn(8) {
	case 0:
		return []byte{}
	case 1:
		return g.bytesN(1000 + g.r.Intn(4000))
	default:
		return g.bytesN(1 + g.r.Intn(20))
	}
}

func (g *gen) ident() []byte {
	const cs = "abcdefghijklmnopqrstuvwxyzABCDEFGHIJKLMNOPQRSTUVWXYZ0123456789_"
	b := make([]byte, 1+g.r.Intn(12))
	for i := range b {
		b[i] = cs[g.r.Intn(len(cs))]
	}
	return b
}

func (g *gen) supported(sc *hsScenario) hsAnswer {
	a := hsAnswer{kind: "sup"}
	if g.r.Intn(6) == 0 {
		return a // empty map
	}
	var entries []supEntry
	if g.r.Intn(3) > 0 {
		entries = append(entries, supEntry{key: []byte("CQL_VERSION"), vals: [][]byte{[]byte("3.4.5")}})
	}
	if g.r.Intn(4) > 0 {
		var vals [][]byte
		for _, n := range compNames {
			if g.r.Intn(2) == 0 {
				vals = append(vals, n)
			}
		}
		if sc.comp != nil && g.r.Intn(3) == 0 {
			// a near miss of the configured name
			vals = append(vals, append(append([]byte{}, sc.comp...), 'x'), bytes.ToUpper(sc.comp))
		}
		g.shuffle(len(vals), func(i, j int) { vals[i], vals[j] = vals[j], vals[i] })
		entries = append(entries, supEntry{key: []byte("COMPRESSION"), vals: vals})
	}
	if g.r.Intn(2) == 0 {
		entries = append(entries, supEntry{key: []byte("PROTOCOL_VERSIONS"), vals: [][]byte{[]byte("3/v3"), []byte("4/v4"), []byte("5/v5-beta")}})
	}
	g.shuffle(len(entries), func(i, j int) { entries[i], entries[j] = entries[j], entries[i] })
	a.sup = entries
	return a
}

func (g *gen) shuffle(n int, swap func(i, j int)) {
	for i := n - 1; i > 0; i-- {
		swap(i, g.r.Intn(i+1))
	}
}

func (g *gen) optTok() []byte {
	if g.r.Intn(4) == 0 {
		return nil
	}
	return g.token()
}

// genHs builds one scenario: a script that mostly follows the protocol (so that deep states are reached),
// with deviations.
func (g *gen) genHs() *hsScenario {
	sc := &hsScenario{}
	sc.v = []int{1, 2, 3, 3, 4, 4, 4, 5, 5, 2}[g.r.Intn(10)]
	dn, dv := gocql.VerifC03DriverInfo()
	sc.dn, sc.dv = []byte(dn), []byte(dv)
	sc.cql = [][]byte{[]byte("3.0.0"), []byte("3.4.5"), g.ident()}[g.r.Intn(3)]
	if g.r.Intn(5) < 2 {
		sc.comp = compNames[g.r.Intn(len(compNames))]
	}
	sc.hasAuth = g.r.Intn(4) > 0 // revisited below when the script asks for authentication
	sc.cons = g.r.Intn(11)
	sc.skipMeta = sc.v > 1 && g.r.Intn(4) > 0
	sc.succOk = g.r.Intn(8) > 0

	sc.answers = append(sc.answers, g.supported(sc))
	rounds := 0
	if g.r.Intn(3) > 0 {
		// authentication: class, `rounds` challenges, success
		sc.answers = append(sc.answers, hsAnswer{kind: "authn", b: append([]byte("org.example."), g.ident()...)})
		sc.hasAuth = g.r.Intn(8) > 0
		rounds = g.r.Intn(5)
		for i := 0; i < rounds; i++ {
			sc.answers = append(sc.answers, hsAnswer{kind: "chal", b: g.optTok()})
		}
		sc.answers = append(sc.answers, hsAnswer{kind: "succ", b: g.optTok()})
		nd := rounds + 1
		if g.r.Intn(10) == 0 {
			nd = g.r.Intn(nd + 1) // the authenticator gives up early
		}
		for i := 0; i < nd; i++ {
			d := hsDirective{kind: []string{"f", "f", "e", "e", "c", "m", "n", "f"}[g.r.Intn(8)], next: true}
			if d.kind != "n" && d.kind != "m" {
				d.data = g.token()
				if d.kind != "f" && len(d.data) > 100 {
					d.data = d.data[:3]
				}
			}
			if i == nd-1 && g.r.Intn(3) == 0 {
				d.next = false // a final token without a challenger: Success is not called
			}
			if g.r.Intn(25) == 0 {
				d.next = false
			}
			if g.r.Intn(40) == 0 {
				d.kind = "x"
			}
			sc.auth = append(sc.auth, d)
		}
	} else {
		sc.answers = append(sc.answers, hsAnswer{kind: "ready"})
		if sc.hasAuth && g.r.Intn(2) == 0 {
			sc.auth = append(sc.auth, hsDirective{kind: "f", data: g.token(), next: true})
		}
	}
	// the plan and its answers; the generator follows what an honest peer would know: which (keyspace, statement)
	// pairs it has prepared on this connection's session, under which id
	nact := g.r.Intn(6)
	hasReg := false
	type prepInfo struct {
		id []byte
		n  int
	}
	known := map[string]prepInfo{}
	curKs := ""
	var stmts []hsAction // exec actions so far, for repetition
	var kss [][]byte
	stuck := false
	for i := 0; i < nact && !stuck; i++ {
		switch g.r.Intn(5) {
		case 0:
			ks := g.ident()
			if len(kss) > 0 && g.r.Intn(3) == 0 {
				ks = kss[g.r.Intn(len(kss))] // back to an earlier keyspace: its statements are known again
			}
			kss = append(kss, ks)
			sc.plan = append(sc.plan, hsAction{kind: "use", ks: ks})
			sc.answers = append(sc.answers, hsAnswer{kind: "setks"})
			curKs = string(ks)
		case 1:
			if hasReg {
				continue
			}
			hasReg = true
			a := hsAction{kind: "reg", topo: g.r.Intn(3) > 0, status: g.r.Intn(3) > 0, schema: g.r.Intn(3) > 0}
			sc.plan = append(sc.plan, a)
			if a.topo || a.status || a.schema {
				sc.answers = append(sc.answers, hsAnswer{kind: "ready"})
			}
		default:
			nv := g.r.Intn(4)
			a := hsAction{kind: "exec", cons: g.r.Intn(11)}
			if len(stmts) > 0 && g.r.Intn(5) < 2 {
				// an earlier statement again (the prepared-statement cache): same text, new consistency and values,
				// now and then a different NUMBER of values
				prev := stmts[g.r.Intn(len(stmts))]
				a.stmt = prev.stmt
				nv = len(prev.vals)
				if g.r.Intn(10) == 0 {
					nv = g.r.Intn(4)
				}
			} else {
				a.stmt = []byte(fmt.Sprintf("%s t%d_%s WHERE x = %d", []string{"SELECT * FROM", "select a from", "UPDATE", "DELETE FROM", "INSERT INTO"}[g.r.Intn(5)], i, g.ident(), g.r.Intn(1000)))
			}
			for j := 0; j < nv; j++ {
				if g.r.Intn(4) == 0 {
					a.vals = append(a.vals, nil)
				} else {
					a.vals = append(a.vals, g.bs())
				}
			}
			sc.plan = append(sc.plan, a)
			stmts = append(stmts, a)
			key := curKs + "\x00" + string(a.stmt)
			// executeQuery, possibly several times around the UNPREPARED arm
			for round := 0; ; round++ {
				info, ok := known[key]
				if !ok {
					id := g.bytesN([]int{1, 2, 16, 16, 16, 32, 255, 300}[g.r.Intn(8)])
					ncols := nv
					if g.r.Intn(12) == 0 {
						ncols = nv + 1
					}
					sc.answers = append(sc.answers, hsAnswer{kind: "prep", b: id, n: ncols})
					info = prepInfo{id, ncols}
					known[key] = info
				}
				if info.n != nv {
					stuck = true // refused locally: no further request
					break
				}
				if round < 3 && g.r.Intn(5) == 0 {
					// the server has lost the statement (or says so about another id)
					uid := info.id
					switch g.r.Intn(6) {
					case 0:
						uid = g.bytesN(len(info.id))
					case 1:
						uid = append(append([]byte{}, info.id...), 0)
					}
					sc.answers = append(sc.answers, hsAnswer{kind: "unprep", b: uid})
					if bytes.Equal(uid, info.id) {
						delete(known, key)
					}
					continue
				}
				if g.r.Intn(8) == 0 {
					sc.answers = append(sc.answers, hsAnswer{kind: "setks"})
				} else {
					sc.answers = append(sc.answers, hsAnswer{kind: "void"})
				}
				break
			}
		}
	}
	// deviations of the peer
	if g.r.Intn(6) == 0 {
		i := g.r.Intn(len(sc.answers))
		switch g.r.Intn(7) {
		case 6:
			sc.answers[i] = hsAnswer{kind: "unprep", b: g.bytesN(1 + g.r.Intn(16))}
		case 0:
			sc.answers[i] = hsAnswer{kind: "err"}
		case 1:
			sc.answers[i] = hsAnswer{kind: "ready"}
		case 2:
			sc.answers[i] = hsAnswer{kind: "void"}
		case 3:
			sc.answers[i] = hsAnswer{kind: "chal", b: g.optTok()}
		case 4:
			sc.answers[i] = hsAnswer{kind: "succ", b: g.optTok()}
		default:
			sc.answers[i] = g.supported(sc)
		}
	}
	if g.r.Intn(10) == 0 {
		sc.answers = sc.answers[:g.r.Intn(len(sc.answers)+1)]
	}
	return sc
}

func (g *gen) hsScenarioCase(idx int) {
	sc := g.genHs()
	res := runHs(sc)
	line := sc.String()
	if res.setup != "" {
		g.out.Case(fmt.Sprintf("sess hs %d setup", idx), "err:"+res.setup, "hs/setup-failed", false)
		return
	}
	nauth := 0
	for _, f := range res.frames {
		if frameOp(sc.v, f) == 0x0F {
			nauth++
		}
	}
	spec := hsSpecAnswer(sc, &res)
	nunprep, nprep, nexec := 0, 0, 0
	for _, a := range sc.answers {
		if a.kind == "unprep" {
			nunprep++
		}
	}
	for _, f := range res.frames {
		switch frameOp(sc.v, f) {
		case 0x09:
			nprep++
		case 0x0A:
			nexec++
		}
	}
	cached := "0"
	if nexec > nprep {
		cached = "1" // some EXECUTE went out with an id from the cache
	}
	class := fmt.Sprintf("hs/v%d/%s/authframes%d/comp%s/unprep%d/cached%s", sc.v, res.status, nauth, b2s(sc.comp != nil), nunprep, cached)
	if strings.HasPrefix(spec, "inexpressible") {
		class = "hs/v1/inexpressible-auth-response"
	}
	g.out.Case("hs "+line+" "+hsFramesWords(&res), spec, class, true)
	g.out.Case("hsm "+line+" "+hsOrderStreams(sc, &res), hsModelAnswer(&res), "hsm/"+res.status, true)
}
