// OWNERSHIP of what crosses gocql.Marshal / gocql.Unmarshal (op `held`).
//
// held: keep K earlier Marshal results (the returned slices, NOT copies) and decoded values alive, run further
//       Marshal and Unmarshal calls (any kinds, any sizes, this or another goroutine, joined), let the caller
//       re-use its inputs (every byte slice of the Go value handed to Marshal / the data buffer handed to
//       Unmarshal is scribbled over, maps emptied, slice elements changed), then compare every held result
//       byte-exactly with the SPECIFICATION's encoding of ITS OWN value (the Lean heap machine of
//       Model/MarshalHeap.lean answers: under the discipline of the code that exists a held result is
//       independent of every later op; only the documented zero-copy paths — a []byte / net.IP bound to the
//       column itself — follow the caller's buffer).
//
// Nothing here depends on time: calls in another goroutine are joined before the next step.
package main

import (
	"fmt"
	"math/big"
	"reflect"
	"runtime"
	"strings"
	"time"

	"github.com/gocql/gocql"
	"gopkg.in/inf.v0"
	"verifharness/refcodec"
	"verifharness/valgen"
	"verifharness/vh"
)

func splitSteps(w []string) [][]string {
	out := [][]string{{}}
	for _, x := range w {
		if x == ";" {
			out = append(out, []string{})
		} else {
			out[len(out)-1] = append(out[len(out)-1], x)
		}
	}
	return out
}

func withProcs(procs string, f func() string) string {
	if procs == "1" {
		old := runtime.GOMAXPROCS(1)
		defer runtime.GOMAXPROCS(old)
	}
	return f()
}

// inMode runs f in this goroutine ("s") or in another one that is joined ("g")
func inMode(mode string, f func()) {
	if mode != "g" {
		f()
		return
	}
	done := make(chan struct{})
	go func() {
		defer close(done)
		f()
	}()
	<-done
}

type heldSlot struct {
	enc   bool
	words []string    // p T V   |   p T hex GT
	in    interface{} // the Go value handed to Marshal (the caller's own memory)
	res   []byte      // the slice Marshal returned (NOT copied: that is the point)
	data  []byte      // the buffer handed to Unmarshal
	orig  [][]byte    // private copies of the caller's byte memory at the moment of the call
	show  func() string
}

func heldMarshal(mode string, words []string) (s *heldSlot, status string) {
	p, t, v := valgen.ParseTV(words)
	s = &heldSlot{enc: true, words: words, in: v.Build()}
	s.orig = collectBytes(reflect.ValueOf(s.in), nil, map[uintptr]bool{})
	inMode(mode, func() {
		defer func() {
			if r := recover(); r != nil {
				status = "crash"
			}
		}()
		b, err := gocql.Marshal(t.Info(p), s.in)
		switch {
		case err != nil:
			status = "err"
		case b == nil:
			status = "null"
		default:
			s.res, status = b, "ok"
		}
	})
	return
}

func heldUnmarshal(mode string, words []string) (s *heldSlot, status string) {
	p, t, data, g := valgen.ParseDec(words)
	s = &heldSlot{words: words, data: append([]byte{}, data...)}
	s.orig = [][]byte{append([]byte{}, data...)}
	info := t.Info(p)
	inMode(mode, func() {
		defer func() {
			if r := recover(); r != nil {
				status = "crash"
			}
		}()
		if g.Name == "ifs" {
			ptrs := make([]interface{}, len(g.Elems))
			vals := make([]reflect.Value, len(g.Elems))
			for i, e := range g.Elems {
				vals[i] = reflect.New(e.RType())
				ptrs[i] = vals[i].Interface()
			}
			if err := gocql.Unmarshal(info, s.data, ptrs); err != nil {
				status = "err"
				return
			}
			s.show = func() string {
				out := "ok ifs " + fmt.Sprint(len(vals))
				for _, v := range vals {
					out += " " + valgen.Show(v.Elem())
				}
				return out
			}
			status = "ok"
			return
		}
		target := reflect.New(g.RType())
		if err := gocql.Unmarshal(info, s.data, target.Interface()); err != nil {
			status = "err"
			return
		}
		s.show = func() string { return "ok " + valgen.Show(target.Elem()) }
		status = "ok"
	})
	return
}

// scribble: the caller re-uses the memory of a value it passed: every byte of every byte slice ^= x, elements
// of other slices / addressable arrays / struct fields changed, maps emptied. Values of library types with
// private representation (big.Int, inf.Dec, time.Time) are left alone.
func scribble(rv reflect.Value, x byte, seen map[uintptr]bool) {
	if !rv.IsValid() {
		return
	}
	if rv.CanInterface() {
		switch rv.Interface().(type) {
		case big.Int, *big.Int, inf.Dec, *inf.Dec, time.Time, *time.Time:
			return
		}
	}
	switch rv.Kind() {
	case reflect.Ptr, reflect.Interface:
		if !rv.IsNil() {
			scribble(rv.Elem(), x, seen)
		}
	case reflect.Slice:
		if rv.Len() == 0 {
			return
		}
		if seen[rv.Pointer()] {
			return
		}
		seen[rv.Pointer()] = true
		if rv.Type().Elem().Kind() == reflect.Uint8 {
			for i := 0; i < rv.Len(); i++ {
				e := rv.Index(i)
				e.SetUint(e.Uint() ^ uint64(x))
			}
			return
		}
		for i := 0; i < rv.Len(); i++ {
			scribble(rv.Index(i), x, seen)
			bump(rv.Index(i))
		}
	case reflect.Array:
		for i := 0; i < rv.Len(); i++ {
			scribble(rv.Index(i), x, seen)
			bump(rv.Index(i))
		}
	case reflect.Map:
		keys := rv.MapKeys()
		for _, k := range keys {
			scribble(rv.MapIndex(k), x, seen)
		}
		for _, k := range keys {
			rv.SetMapIndex(k, reflect.Value{})
		}
	case reflect.Struct:
		for i := 0; i < rv.NumField(); i++ {
			if rv.Type().Field(i).PkgPath != "" {
				continue
			}
			scribble(rv.Field(i), x, seen)
			bump(rv.Field(i))
		}
	}
}

// collectBytes: copies of every byte slice reachable from the value (the traversal of scribble)
func collectBytes(rv reflect.Value, acc [][]byte, seen map[uintptr]bool) [][]byte {
	if !rv.IsValid() {
		return acc
	}
	if rv.CanInterface() {
		switch rv.Interface().(type) {
		case big.Int, *big.Int, inf.Dec, *inf.Dec, time.Time, *time.Time:
			return acc
		}
	}
	switch rv.Kind() {
	case reflect.Ptr, reflect.Interface:
		if !rv.IsNil() {
			return collectBytes(rv.Elem(), acc, seen)
		}
	case reflect.Slice:
		if rv.Len() == 0 || seen[rv.Pointer()] {
			return acc
		}
		seen[rv.Pointer()] = true
		if rv.Type().Elem().Kind() == reflect.Uint8 {
			b := make([]byte, rv.Len())
			for i := range b {
				b[i] = byte(rv.Index(i).Uint())
			}
			return append(acc, b)
		}
		for i := 0; i < rv.Len(); i++ {
			acc = collectBytes(rv.Index(i), acc, seen)
		}
	case reflect.Array:
		for i := 0; i < rv.Len(); i++ {
			acc = collectBytes(rv.Index(i), acc, seen)
		}
	case reflect.Map:
		for _, k := range rv.MapKeys() {
			acc = collectBytes(rv.MapIndex(k), acc, seen)
		}
	case reflect.Struct:
		for i := 0; i < rv.NumField(); i++ {
			if rv.Type().Field(i).PkgPath == "" {
				acc = collectBytes(rv.Field(i), acc, seen)
			}
		}
	}
	return acc
}

// sameBytes: the same byte strings, as a multiset (a Go map is traversed in no fixed order)
func sameBytes(a, b [][]byte) bool {
	if len(a) != len(b) {
		return false
	}
	cnt := map[string]int{}
	for _, x := range a {
		cnt[string(x)]++
	}
	for _, x := range b {
		cnt[string(x)]--
		if cnt[string(x)] < 0 {
			return false
		}
	}
	return true
}

func bump(e reflect.Value) {
	if !e.CanSet() {
		return
	}
	switch e.Kind() {
	case reflect.Int, reflect.Int8, reflect.Int16, reflect.Int32, reflect.Int64:
		e.SetInt(^e.Int())
	case reflect.Uint, reflect.Uint8, reflect.Uint16, reflect.Uint32, reflect.Uint64:
		e.SetUint(e.Uint() ^ 1)
	case reflect.String:
		e.SetString(e.String() + "~")
	case reflect.Bool:
		e.SetBool(!e.Bool())
	}
}

// saneEnc: do the counts and lengths of a composite encoding fit the bytes that are there? (a held result that
// was overwritten can announce 2^31 elements; it is printed raw instead of being handed to the canonical re-ordering)
func saneEnc(proto byte, t *valgen.Ty, d []byte) bool {
	size := func(p byte, d []byte) (int, []byte, bool) {
		if p > 2 {
			if len(d) < 4 {
				return 0, nil, false
			}
			return int(int32(uint32(d[0])<<24 | uint32(d[1])<<16 | uint32(d[2])<<8 | uint32(d[3]))), d[4:], true
		}
		if len(d) < 2 {
			return 0, nil, false
		}
		return int(d[0])<<8 | int(d[1]), d[2:], true
	}
	switch t.Name {
	case "list", "set", "map":
		n, rest, ok := size(proto, d)
		if !ok || n < 0 || n > len(rest) {
			return false
		}
		per := len(t.Elems)
		for i := 0; i < n*per; i++ {
			m, r, ok := size(proto, rest)
			if !ok || m > len(r) {
				return false
			}
			rest = r
			if m < 0 {
				continue
			}
			if !saneEnc(proto, t.Elems[i%per], rest[:m]) {
				return false
			}
			rest = rest[m:]
		}
		return true
	case "tuple", "udt":
		rest := d
		for i := 0; i < len(t.Elems) && len(rest) > 0; i++ {
			m, r, ok := size(4, rest)
			if !ok || m > len(r) {
				return false
			}
			rest = r
			if m < 0 {
				continue
			}
			if !saneEnc(proto, t.Elems[i], rest[:m]) {
				return false
			}
			rest = rest[m:]
		}
		return true
	}
	return true
}

// canonHex: the bytes in canonical entry order (a Go map has none), or raw when they do not parse
func canonHex(words []string, b []byte) string {
	p, t, v := valgen.ParseTV(words) // parsed again: the harness's own description must not share memory with the value
	b = append([]byte{}, b...)
	if !saneEnc(p, t, b) {
		return "unparsable:" + valgen.HexC(b)
	}
	return valgen.HexC(valgen.Canon(p, t, v, b))
}

func execHeld(procs string, w []string) string {
	return withProcs(procs, func() string {
		slots := map[int]*heldSlot{}
		var ans []string
		for _, st := range splitSteps(w) {
			ans = append(ans, heldStep(slots, st))
		}
		return strings.Join(ans, " ; ")
	})
}

func atoiStep(s string) int {
	n := 0
	if s == "" {
		panic("bad-step")
	}
	for _, c := range s {
		if c < '0' || c > '9' {
			panic("bad-step")
		}
		n = n*10 + int(c-'0')
	}
	return n
}

func heldStep(slots map[int]*heldSlot, w []string) (res string) {
	defer func() {
		if r := recover(); r != nil {
			s := fmt.Sprint(r)
			if strings.HasPrefix(s, "bad-") {
				res = "bad-step"
			} else {
				res = "crash"
			}
		}
	}()
	if len(w) == 0 {
		return "bad-step"
	}
	switch w[0] {
	case "h", "u":
		if len(w) < 4 {
			return "bad-step"
		}
		k := atoiStep(w[1])
		var s *heldSlot
		var st string
		if w[0] == "h" {
			s, st = heldMarshal(w[2], w[3:])
		} else {
			s, st = heldUnmarshal(w[2], w[3:])
		}
		delete(slots, k)
		if st == "ok" {
			slots[k] = s
		}
		return st
	case "x", "y":
		if len(w) < 3 {
			return "bad-step"
		}
		var st string
		if w[0] == "x" {
			_, st = heldMarshal(w[1], w[2:])
		} else {
			_, st = heldUnmarshal(w[1], w[2:])
		}
		return st
	case "c":
		if len(w) != 2 {
			return "bad-step"
		}
		k := atoiStep(w[1])
		s := slots[k]
		if s == nil {
			return fmt.Sprintf("s%d=none", k)
		}
		if s.enc {
			return fmt.Sprintf("s%d=%s", k, canonHex(s.words, s.res))
		}
		return fmt.Sprintf("s%d=%s", k, normNilBytes(s.show()))
	case "i":
		if len(w) != 2 {
			return "bad-step"
		}
		k := atoiStep(w[1])
		s := slots[k]
		if s == nil {
			return fmt.Sprintf("in%d=none", k)
		}
		now := [][]byte{s.data}
		if s.enc {
			now = collectBytes(reflect.ValueOf(s.in), nil, map[uintptr]bool{})
		}
		if sameBytes(now, s.orig) {
			return fmt.Sprintf("in%d=same", k)
		}
		return fmt.Sprintf("in%d=changed", k)
	case "m":
		if len(w) != 3 {
			return "bad-step"
		}
		x, err := vh.UnHex(w[2])
		if err != nil || len(x) != 1 {
			return "bad-step"
		}
		if s := slots[atoiStep(w[1])]; s != nil {
			if s.enc {
				scribble(reflect.ValueOf(s.in), x[0], map[uintptr]bool{})
			} else {
				for i := range s.data {
					s.data[i] ^= x[0]
				}
			}
		}
		return "ok"
	case "d":
		if len(w) != 2 {
			return "bad-step"
		}
		delete(slots, atoiStep(w[1]))
		return "ok"
	}
	return "bad-step"
}

// ---------- generators ----------

const maxCallWords = 700 // characters of one call's text

// encCall: a documented, not excluded (cls = clean) Marshal call on which the real encoder answers ok (or null)
type encCall struct {
	p    byte
	t    *valgen.Ty
	gt   *valgen.GT
	text string
}

func isColl(t *valgen.Ty) bool { return t.Name == "list" || t.Name == "set" || t.Name == "map" }

func encOK(p byte, t *valgen.Ty, v *valgen.Val, allowNull bool) (string, bool) {
	if valgen.Classify(p, t, v) != "clean" {
		return "", false
	}
	_, st := valgen.Marshal(p, t, v)
	if st != "ok" && !(allowNull && st == "null") {
		return "", false
	}
	text := fmt.Sprintf("%d %s %s", p, t.String(), v.String())
	if len(text) > maxCallWords {
		return "", false
	}
	return text, true
}

// genEnc: proto 0 = any; kind "coll" = list/set/map at the top, "comp" = any composite, "" = anything
func genEnc(g *valgen.Gen, proto byte, kind string, allowNull bool) *encCall {
	return genEncX(g, proto, kind, allowNull, false)
}

// noTuple: not a tuple at the top (a tuple column of a prepared statement is bound field by field)
func genEncX(g *valgen.Gen, proto byte, kind string, allowNull, noTuple bool) *encCall {
	for tries := 0; tries < 400; tries++ {
		p := proto
		if p == 0 {
			p = byte(1 + g.R.Intn(5))
		}
		depth := []int{0, 1, 1, 1, 2, 2, 3}[g.R.Intn(7)]
		if kind != "" && depth == 0 {
			depth = 1
		}
		var t *valgen.Ty
		var gt *valgen.GT
		var v *valgen.Val
		if g.R.Intn(3) == 0 && kind != "" {
			_, t, gt, v = g.RTCase(depth)
		} else {
			_, t, gt, v = g.CaseTyped(depth)
		}
		if kind == "coll" && !isColl(t) || kind == "comp" && t.IsScalar() || noTuple && t.Name == "tuple" ||
			(kind == "tuple" || kind == "udt") && t.Name != kind {
			continue
		}
		valgen.Normalize(p, t, v)
		if text, ok := encOK(p, t, v, allowNull); ok {
			return &encCall{p: p, t: t, gt: gt, text: text}
		}
	}
	if proto == 0 {
		proto = 4
	}
	return &encCall{p: proto, t: &valgen.Ty{Name: "list", Elems: []*valgen.Ty{{Name: "int"}}}, text: fmt.Sprintf("%d list int sl k int32 2 i int32 1 i int32 2", proto)}
}

// again: another value of the same column type and Go type (similar size: the recycled-buffer family)
func (c *encCall) again(g *valgen.Gen) *encCall {
	if c.gt == nil {
		return c
	}
	for tries := 0; tries < 40; tries++ {
		var v *valgen.Val
		func() {
			defer func() { recover() }() // a Go type of the other generator's family: try the other one
			if g.R.Bool() {
				v = g.Value(c.t, c.gt)
			} else {
				v = g.RTValue(c.t, c.gt)
			}
		}()
		if v == nil {
			continue
		}
		valgen.Normalize(c.p, c.t, v)
		if text, ok := encOK(c.p, c.t, v, false); ok {
			return &encCall{p: c.p, t: c.t, gt: c.gt, text: text}
		}
	}
	return c
}

// genDec: a SPECIFICATION-conformant encoding from the independent reference codec and a documented target,
// outside the recorded decode deviations (exactly the cases the `specdec` op is emitted for)
func genDec(g *valgen.Gen) (text string, cls string) {
	for tries := 0; tries < 400; tries++ {
		p := 1 + g.R.Intn(5)
		if g.R.Intn(3) == 0 { // scalar
			t := g.Ty(0)
			av := genAV(g, t.Name)
			b, ok := refcodec.Encode(t.Name, av)
			if !ok {
				continue
			}
			gt := g.Target(t, 0)
			if unmodelledTarget(t, gt) || !documentedTarget(t.Name, gt) || decExcluded(t.Name, gt, av) ||
				(t.Name == "varint" && strings.HasSuffix(gt.String(), "string")) {
				continue
			}
			return fmt.Sprintf("%d %s %s %s", p, t.String(), valgen.HexC(b), gt.String()), t.Name
		}
		t := g.Ty([]int{1, 1, 1, 2, 2, 3}[g.R.Intn(6)])
		if t.IsScalar() || valgen.PtrKeyed(t) {
			continue
		}
		c := &cgen{g: g, proto: p}
		gt := c.target(t, true)
		if gt == nil || unmodelledTarget(t, gt) {
			continue
		}
		gt = valgen.NoByteSlices(gt)
		cv := c.value(t, gt)
		b, ok := refcodec.EncodeCV(p, node(t), cv)
		if !ok || leafExcluded(t, gt, cv) {
			continue
		}
		text := fmt.Sprintf("%d %s %s %s", p, t.String(), valgen.HexC(b), gt.String())
		if len(text) > maxCallWords {
			continue
		}
		return text, t.Name + "<>"
	}
	return "4 blob 0102 bytes", "blob"
}

func genHeld(g *valgen.Gen) (string, string) {
	r := g.R
	mode := func() string {
		if r.Intn(5) == 0 {
			return "g"
		}
		return "s"
	}
	// the main call of the scenario: mostly a collection (assembled in a buffer), also any composite / anything
	kind := []string{"coll", "coll", "coll", "tuple", "udt", "comp", ""}[r.Intn(7)]
	main := genEnc(g, 0, kind, false)
	encText := func() string {
		switch r.Intn(8) {
		case 0, 1, 2:
			return main.again(g).text
		case 3:
			return genEnc(g, main.p, "coll", false).text
		case 4:
			return genEnc(g, 0, "comp", true).text
		}
		return genEnc(g, 0, "", true).text
	}
	var steps []string
	k := 1 + r.Intn(4)
	live := []int{}
	isEnc := map[int]bool{}
	mutated := map[int]bool{}
	hold := func(slot int, first bool) {
		if !first && r.Intn(4) == 0 {
			text, _ := genDec(g)
			steps = append(steps, fmt.Sprintf("u %d %s %s", slot, mode(), text))
			isEnc[slot] = false
		} else {
			text := encText()
			if first {
				text = main.text
			}
			steps = append(steps, fmt.Sprintf("h %d %s %s", slot, mode(), text))
			isEnc[slot] = true
		}
		found := false
		for _, s := range live {
			found = found || s == slot
		}
		if !found {
			live = append(live, slot)
		}
		delete(mutated, slot)
	}
	for i := 0; i < k; i++ {
		hold(i, i == 0)
	}
	rounds := 1 + r.Intn(3)
	for rd := 0; rd < rounds; rd++ {
		for j, m := 0, 1+r.Intn(5); j < m; j++ {
			switch r.Intn(10) {
			case 0, 1, 2:
				steps = append(steps, fmt.Sprintf("x %s %s", mode(), encText()))
			case 3:
				text, _ := genDec(g)
				steps = append(steps, fmt.Sprintf("y %s %s", mode(), text))
			case 4, 5:
				hold(k+r.Intn(4), false)
			case 6:
				s := live[r.Intn(len(live))]
				if !mutated[s] {
					mutated[s] = true
					steps = append(steps, fmt.Sprintf("m %d %02x", s, 1+r.Intn(255)))
				}
			case 7:
				if len(live) > 1 && r.Intn(3) == 0 {
					s := live[len(live)-1]
					live = live[:len(live)-1]
					steps = append(steps, fmt.Sprintf("d %d", s))
				} else {
					hold(live[r.Intn(len(live))], false) // a slot is re-used: the old result is let go
				}
			case 8:
				steps = append(steps, fmt.Sprintf("c %d", live[r.Intn(len(live))]))
			case 9:
				steps = append(steps, fmt.Sprintf("i %d", live[r.Intn(len(live))]))
			}
		}
		perm := append([]int{}, live...)
		for i := len(perm) - 1; i > 0; i-- {
			j := r.Intn(i + 1)
			perm[i], perm[j] = perm[j], perm[i]
		}
		for _, s := range perm {
			steps = append(steps, fmt.Sprintf("c %d", s))
			if r.Intn(3) == 0 {
				steps = append(steps, fmt.Sprintf("i %d", s))
			}
		}
	}
	procs := "1"
	if r.Intn(4) == 0 {
		procs = "0"
	}
	return "held " + procs + " " + strings.Join(steps, " ; "), fmt.Sprintf("held/%s/K%d", sizeClass(main.t), k)
}

// fixedHeldOps: small scenarios of every family, run first on every invocation (replay inputs of the Lean
// counterexample theorems C12_cex_pooled_collection / C12_cex_alias_data / C12_passthrough_witness among them)
var fixedHeldOps = []string{
	"held 1 h 0 s 4 list bigint sl k int64 2 i int64 5 i int64 6 ; h 1 s 4 list bigint sl k int64 2 i int64 7 i int64 8 ; c 0 ; c 1",
	"held 1 h 0 s 4 map ascii smallint map string k int16 2 s 61 i int16 258 s 62 i int16 -2 ; x s 4 set boolean sl bool 3 bool 1 bool 0 bool 1 ; c 0",
	"held 1 h 0 s 3 set text sl string 2 s 6161 s 6262 ; x g 3 set text sl string 2 s 7a7a s 7979 ; c 0",
	"held 0 h 0 g 2 list int sl k int32 2 i int32 1 i int32 2 ; h 1 g 2 list bigint sl k int64 1 i int64 -1 ; c 0 ; c 1",
	"held 1 u 0 s 4 blob 010203 bytes ; m 0 ff ; c 0",
	"held 1 u 0 s 4 list blob 00000002000000020102000000010a slice bytes ; y s 4 text 7a7a7a7a7a7a7a7a7a7a7a7a7a7a7a string ; m 0 5a ; c 0",
	"held 1 h 0 s 4 blob b 010203 ; m 0 ff ; c 0",
	"held 1 h 0 s 4 list blob sl bytes 2 b 0102 b 0a ; i 0 ; m 0 ff ; c 0 ; i 0",
	"held 1 u 0 s 4 inet 0a000001 ip ; i 0 ; h 1 s 4 inet ip 00000000000000000000ffff0a000001 ; i 1 ; c 0 ; c 1 ; m 1 0f ; c 1 ; i 1",
	"held 1 h 0 s 4 tuple 2 int text st 2 i int32 7 s 6162 ; h 1 s 4 tuple 2 int text st 2 i int32 -7 s 7a7a ; u 2 s 4 int 0000002a k int32 ; c 0 ; c 1 ; c 2",
	"conn 4 q ; s ; v 4 set smallint sl k int16 2 i int16 5 i int16 6 ; v 4 int i int32 9 ; v 4 set smallint sl k int16 2 i int16 7 i int16 8",
	"conn 3 b ; s ; v 3 map ascii bigint map string k int64 1 s 6b6b i int64 72623859790382856 ; s ; v 3 list double sl f64 1 f64 4607182418800017408 ; v 3 set text sl string 1 s 61",
}
