package main

import (
	"bytes"
	"math/big"
	"sort"
	"strings"

	"verifharness/refcodec"
	"verifharness/valgen"
)

// Decode direction for composite types: abstract values (null / empty / zero fields, short UDTs and tuples) are
// serialized by the independent reference codec (harness/refcodec) and decoded by the real gocql.Unmarshal into
// documented targets; the expected answer is the Lean SPECIFICATION decoder followed by `representAny` (op `specdec`).

func node(t *valgen.Ty) *refcodec.Node {
	n := &refcodec.Node{Name: t.Name}
	for _, e := range t.Elems {
		n.Elems = append(n.Elems, node(e))
	}
	return n
}

func ptrTo(g *valgen.GT) *valgen.GT { return &valgen.GT{Name: "ptr", Elems: []*valgen.GT{g}} }

func hashableTarget(gt *valgen.GT) bool {
	switch gt.Name {
	case "k", "nk", "string", "nstring", "bool", "nbool", "uuid", "a16", "dur":
		return true
	}
	return false
}

type cgen struct {
	g     *valgen.Gen
	proto int
}

func (c *cgen) chance(pct int) bool { return c.g.R.Intn(100) < pct }

// leafTarget: a documented target of a scalar column
func (c *cgen) leafTarget(t *valgen.Ty) *valgen.GT {
	for tries := 0; tries < 20; tries++ {
		gt := c.g.Target(t, 0)
		if documentedTarget(t.Name, gt) && !unmodelledTarget(t, gt) && !(t.Name == "varint" && strings.HasSuffix(gt.String(), "string")) {
			return gt
		}
	}
	return valgen.GoTypeOf(t)
}

// fieldTarget: the type of a struct field / slice element that receives a tuple field
func (c *cgen) fieldTarget(t *valgen.Ty) *valgen.GT {
	g0 := valgen.GoTypeOf(t)
	switch x := c.g.R.Intn(10); {
	case x < 4 && g0.Name != "ptr":
		return g0
	case x < 9:
		return ptrTo(g0)
	}
	return &valgen.GT{Name: "iface"}
}

// target: a documented decode target of a column of type t (top: the value handed to Unmarshal itself)
func (c *cgen) target(t *valgen.Ty, top bool) *valgen.GT {
	if !top && c.chance(20) {
		return ptrTo(c.target(t, false))
	}
	switch t.Name {
	case "list", "set":
		e := c.target(t.Elems[0], false)
		if c.chance(12) {
			return &valgen.GT{Name: "array", N: c.g.R.Intn(4), Elems: []*valgen.GT{e}}
		}
		return &valgen.GT{Name: "slice", Elems: []*valgen.GT{e}}
	case "map":
		k := c.leafTarget(t.Elems[0])
		for tries := 0; !hashableTarget(k) && tries < 30; tries++ {
			k = c.leafTarget(t.Elems[0])
		}
		if !hashableTarget(k) {
			return nil
		}
		v := c.target(t.Elems[1], false)
		if v == nil {
			return nil
		}
		return &valgen.GT{Name: "map", Elems: []*valgen.GT{k, v}}
	case "tuple":
		uniform := true
		for _, e := range t.Elems {
			if e.String() != t.Elems[0].String() {
				uniform = false
			}
		}
		x := c.g.R.Intn(20)
		switch {
		case top && x < 5:
			s := &valgen.GT{Name: "ifs"}
			for _, e := range t.Elems {
				f := c.target(e, false)
				if f == nil {
					return nil
				}
				s.Elems = append(s.Elems, f)
			}
			return s
		case x < 8:
			return &valgen.GT{Name: "slice", Elems: []*valgen.GT{{Name: "iface"}}}
		case x < 10:
			return &valgen.GT{Name: "array", N: len(t.Elems), Elems: []*valgen.GT{{Name: "iface"}}}
		case x < 13 && uniform:
			f := c.fieldTarget(t.Elems[0])
			if c.g.R.Bool() {
				return &valgen.GT{Name: "slice", Elems: []*valgen.GT{f}}
			}
			return &valgen.GT{Name: "array", N: len(t.Elems), Elems: []*valgen.GT{f}}
		}
		s := &valgen.GT{Name: "struct"}
		for _, e := range t.Elems {
			s.Elems = append(s.Elems, c.fieldTarget(e))
		}
		return s
	case "udt":
		if c.chance(40) {
			return &valgen.GT{Name: "umap"}
		}
		s := &valgen.GT{Name: "ustruct"}
		for i, e := range t.Elems {
			if c.chance(12) {
				continue
			}
			f := c.target(e, false)
			if f == nil {
				return nil
			}
			s.Names = append(s.Names, t.Names[i])
			s.Elems = append(s.Elems, f)
		}
		if c.chance(8) || len(s.Elems) == 0 {
			s.Names = append(s.Names, "zz")
			s.Elems = append(s.Elems, &valgen.GT{Name: "string"})
		}
		return s
	}
	return c.leafTarget(t)
}

// leafGT: the scalar target that receives a value of type t when the composite target at that position is gt
// (interface{} and goType positions decode into goType(t))
func leafGT(t *valgen.Ty, gt *valgen.GT) *valgen.GT {
	for gt != nil && gt.Name == "ptr" {
		gt = gt.Elems[0]
	}
	if gt == nil || gt.Name == "iface" {
		gt = valgen.GoTypeOf(t)
		for gt.Name == "ptr" {
			gt = gt.Elems[0]
		}
	}
	return gt
}

// value: an abstract value of type t that will be decoded into gt (gt == nil: goType(t)); leaf values avoid the
// recorded decode deviations (decExcluded) of that leaf target
func (c *cgen) value(t *valgen.Ty, gt *valgen.GT) *refcodec.CV {
	gt = leafGTorSelf(t, gt)
	switch t.Name {
	case "list", "set":
		n := c.g.R.Intn(4)
		if gt.Name == "array" && c.chance(85) {
			n = gt.N
		}
		v := &refcodec.CV{}
		for i := 0; i < n; i++ {
			v.Elems = append(v.Elems, c.elem(t.Elems[0], sub(gt, 0)))
		}
		return v
	case "map":
		v := &refcodec.CV{}
		seen := map[string]bool{}
		for i, n := 0, c.g.R.Intn(4); i < n; i++ {
			k := c.value(t.Elems[0], sub(gt, 0))
			if c.proto >= 3 && c.chance(3) {
				k = &refcodec.CV{Null: true}
			}
			kb := []byte("null")
			if !k.Null {
				kb, _ = refcodec.EncodeCV(c.proto, node(t.Elems[0]), k)
			}
			if seen[string(kb)] {
				continue
			}
			seen[string(kb)] = true
			v.Elems = append(v.Elems, k, c.elem(t.Elems[1], sub(gt, 1)))
		}
		return v
	case "tuple", "udt":
		n := len(t.Elems)
		if c.chance(15) {
			n = c.g.R.Intn(n + 1) // trailing fields absent
		}
		v := &refcodec.CV{}
		for i := 0; i < n; i++ {
			var f *valgen.GT
			switch gt.Name {
			case "struct", "ifs":
				if i < len(gt.Elems) {
					f = gt.Elems[i]
				}
			case "slice", "array":
				f = gt.Elems[0]
			case "ustruct":
				for j, nm := range gt.Names {
					if nm == t.Names[i] {
						f = gt.Elems[j]
					}
				}
			}
			if c.chance(20) {
				v.Elems = append(v.Elems, &refcodec.CV{Null: true})
			} else {
				v.Elems = append(v.Elems, c.value(t.Elems[i], f))
			}
		}
		return v
	}
	lg := leafGT(t, gt)
	for tries := 0; ; tries++ {
		av := genAV(c.g, t.Name)
		if (t.Name == "ascii" || t.Name == "text" || t.Name == "varchar" || t.Name == "blob") && c.chance(30) {
			av.Bytes = []byte{} // present but EMPTY
		}
		if _, ok := refcodec.Encode(t.Name, av); ok && (!decExcluded(t.Name, lg, av) || tries > 40) {
			return &refcodec.CV{AV: av}
		}
	}
}

func leafGTorSelf(t *valgen.Ty, gt *valgen.GT) *valgen.GT {
	for gt != nil && gt.Name == "ptr" {
		gt = gt.Elems[0]
	}
	if gt == nil || gt.Name == "iface" {
		gt = valgen.GoTypeOf(t)
		for gt.Name == "ptr" {
			gt = gt.Elems[0]
		}
	}
	return gt
}

func sub(gt *valgen.GT, i int) *valgen.GT {
	if gt == nil || i >= len(gt.Elems) {
		return nil
	}
	return gt.Elems[i]
}

// elem: a collection element — null from protocol 3
func (c *cgen) elem(t *valgen.Ty, gt *valgen.GT) *refcodec.CV {
	if c.proto >= 3 && c.chance(15) {
		return &refcodec.CV{Null: true}
	}
	return c.value(t, gt)
}

// leafExcluded: does the abstract value hit a recorded decode deviation at some leaf of the target?
// (value() avoids them; this is the safety net for the 40-tries fallback)
func leafExcluded(t *valgen.Ty, gt *valgen.GT, v *refcodec.CV) bool {
	if v == nil || v.Null {
		return false
	}
	gt = leafGTorSelf(t, gt)
	switch t.Name {
	case "list", "set":
		for _, e := range v.Elems {
			if leafExcluded(t.Elems[0], sub(gt, 0), e) {
				return true
			}
		}
		return false
	case "map":
		for i, e := range v.Elems {
			if leafExcluded(t.Elems[i%2], sub(gt, i%2), e) {
				return true
			}
		}
		return false
	case "tuple", "udt":
		for i, e := range v.Elems {
			var f *valgen.GT
			switch gt.Name {
			case "struct", "ifs":
				f = sub(gt, i)
			case "slice", "array":
				f = sub(gt, 0)
			case "ustruct":
				for j, nm := range gt.Names {
					if nm == t.Names[i] {
						f = gt.Elems[j]
					}
				}
			}
			if leafExcluded(t.Elems[i], f, e) {
				return true
			}
		}
		return false
	}
	return decExcluded(t.Name, leafGT(t, gt), v.AV)
}

// ---------- abstract value of a Go value of the restricted forms the boundary campaign builds ----------

func cvOfVal(proto int, t *valgen.Ty, v *valgen.Val) (*refcodec.CV, bool) {
	v = v.Plain()
	switch v.Tag {
	case "ptr":
		return cvOfVal(proto, t, v.Elems[0])
	case "nilptr":
		return &refcodec.CV{Null: true}, true
	}
	switch t.Name {
	case "list", "set":
		if v.Tag != "sl" && v.Tag != "arr" {
			return nil, false
		}
		out := &refcodec.CV{}
		for _, e := range v.Elems {
			c, ok := cvOfVal(proto, t.Elems[0], e)
			if !ok {
				return nil, false
			}
			out.Elems = append(out.Elems, c)
		}
		return out, true
	case "map":
		if v.Tag != "map" {
			return nil, false
		}
		type kv struct {
			k, v *refcodec.CV
			enc  []byte
		}
		var es []kv
		for i := 0; i+1 < len(v.Elems); i += 2 {
			k, ok1 := cvOfVal(proto, t.Elems[0], v.Elems[i])
			val, ok2 := cvOfVal(proto, t.Elems[1], v.Elems[i+1])
			if !ok1 || !ok2 || k.Null {
				return nil, false
			}
			enc, _ := refcodec.EncodeCV(proto, node(t.Elems[0]), k)
			es = append(es, kv{k, val, enc})
		}
		// (the order of the entries of a map is free: descending encoded key here, the reverse of what gocql's
		// canonicalised output uses)
		sort.SliceStable(es, func(i, j int) bool { return bytes.Compare(es[i].enc, es[j].enc) > 0 })
		out := &refcodec.CV{}
		for _, e := range es {
			out.Elems = append(out.Elems, e.k, e.v)
		}
		return out, true
	case "tuple":
		if v.Tag != "st" || len(v.Elems) != len(t.Elems) {
			return nil, false
		}
		out := &refcodec.CV{}
		for i, e := range v.Elems {
			c, ok := cvOfVal(proto, t.Elems[i], e)
			if !ok {
				return nil, false
			}
			out.Elems = append(out.Elems, c)
		}
		return out, true
	case "udt":
		if v.Tag != "us" || len(v.Elems) != len(t.Elems) {
			return nil, false
		}
		out := &refcodec.CV{}
		for i, e := range v.Elems {
			if v.Names[i] != t.Names[i] {
				return nil, false
			}
			c, ok := cvOfVal(proto, t.Elems[i], e)
			if !ok {
				return nil, false
			}
			out.Elems = append(out.Elems, c)
		}
		return out, true
	}
	switch v.Tag {
	case "s", "ns", "b", "nb":
		return &refcodec.CV{AV: refcodec.AV{Bytes: v.Bytes}}, true
	case "i", "ni":
		return &refcodec.CV{AV: refcodec.AV{Int: new(big.Int).Set(v.Int)}}, true
	case "bool":
		return &refcodec.CV{AV: refcodec.AV{Bool: v.Bool}}, true
	}
	return nil, false
}
