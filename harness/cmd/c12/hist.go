package main

// HISTORIES inside one process (op `hist`): the SAME Go type marshalled for several different type descriptions, in
// sequence, every result compared with the specification's bytes for that call's own (type description, value):
//
//	hist ; <proto> <type> <value> ; <proto> <type> <value> ; …        →  <answer> ; <answer> ; …   (answers as for `spec`)
//
// Families (one Go value / Go type per sequence, reflect.StructOf returns the identical struct type for equal layouts):
//   - a struct with cql tags, or a map[string]interface{}, bound to look-alike UDT definitions — all `ks.u`, as every
//     UDTTypeInfo of this harness — with the fields in another order, one field renamed, a field added or removed, a
//     field of another (compatible) column type;
//   - a struct without tags / a []interface{} bound to tuples of other element types, prefixes of the []interface{} to
//     tuples of other arity;
//   - an []int64 / []string / []int bound to list / set columns of different element types.
// Marshal of the code that exists is a function of (type description, value) only (C12_history_independent); an
// implementation that remembers a resolution per Go type is caught by the second look-alike of a sequence
// (C12_cex_stale_udt_cache).  Only sequences whose calls are all in the clean class and all succeed are emitted.

import (
	"fmt"
	"strings"

	"verifharness/valgen"
)

func execHist(w []string) string {
	if len(w) == 0 || w[0] != ";" {
		panic("bad-op: hist")
	}
	var out []string
	var cur []string
	flush := func() {
		p, t, v := valgen.ParseTV(cur)
		out = append(out, valgen.MarshalAnswer(p, t, v))
		cur = nil
	}
	for _, x := range w[1:] {
		if x == ";" {
			flush()
		} else {
			cur = append(cur, x)
		}
	}
	flush()
	return strings.Join(out, " ; ")
}

type hfield struct {
	name string
	val  string   // Go value tokens
	tys  []string // column types this Go value is documented and in range for
}

func hexOf(s string) string {
	if s == "" {
		return "-"
	}
	return fmt.Sprintf("%x", s)
}

func histFieldPool(g *valgen.Gen) []hfield {
	r := g.R
	word := func() string {
		n := r.Intn(6)
		b := make([]byte, n)
		for i := range b {
			b[i] = byte('a' + r.Intn(26))
		}
		return string(b)
	}
	small := func() int { return r.Intn(201) - 100 }
	return []hfield{
		{"a", fmt.Sprintf("i int %d", small()), []string{"int", "bigint", "varint", "smallint", "tinyint"}},
		{"b", "s " + hexOf(word()), []string{"text", "varchar", "ascii", "blob"}},
		{"c", fmt.Sprintf("i int64 %d", int64(r.Intn(1<<30))*int64(r.Intn(1<<30))-(1<<58)), []string{"bigint", "varint", "time", "timestamp", "counter"}},
		{"d", fmt.Sprintf("bool %d", r.Intn(2)), []string{"boolean"}},
		{"e", fmt.Sprintf("sl k int 2 i int %d i int %d", small(), small()), []string{"list int", "set int", "list bigint", "list varint"}},
		{"f", "b " + hexOf(word()), []string{"blob", "text"}},
		{"h", fmt.Sprintf("i int32 %d", small()*1000), []string{"int", "bigint", "varint"}},
	}
}

func pick(r interface{ Intn(int) int }, xs []string) string { return xs[r.Intn(len(xs))] }

// Fisher-Yates from the one PRNG
func shuffle(r interface{ Intn(int) int }, n int, swap func(i, j int)) {
	for i := n - 1; i > 0; i-- {
		swap(i, r.Intn(i+1))
	}
}

// genHist: one sequence; ok=false when a call is not in the clean class (never emitted)
func genHist(g *valgen.Gen) (op string, class string, ok bool) {
	r := g.R
	pool := histFieldPool(g)
	shuffle(r, len(pool), func(i, j int) { pool[i], pool[j] = pool[j], pool[i] })
	k := 2 + r.Intn(3)
	fs := pool[:k]
	spare := pool[k]
	var calls []string
	m := 2 + r.Intn(4)
	switch fam := r.Intn(10); {
	case fam < 6: // UDT definitions for one tagged struct / one map[string]interface{}
		tag := "us"
		class = "hist/udt-struct"
		if fam >= 4 {
			tag = "um"
			class = "hist/udt-map"
		}
		val := fmt.Sprintf("%s %d", tag, k)
		for _, f := range fs {
			val += " " + f.name + " " + f.val
		}
		for j := 0; j < m; j++ {
			def := make([]hfield, k)
			copy(def, fs)
			shuffle(r, k, func(a, b int) { def[a], def[b] = def[b], def[a] })
			switch x := r.Intn(10); {
			case x < 5: // the same names, another order
			case x < 7: // one field renamed: the struct has no such field (null), same number of fields
				def[r.Intn(k)] = hfield{name: "zz", tys: []string{"text", "int"}}
			case x < 9: // a field added
				def = append(def, hfield{name: spare.name, tys: spare.tys})
				shuffle(r, len(def), func(a, b int) { def[a], def[b] = def[b], def[a] })
			default: // a field removed
				def = def[1:]
			}
			t := fmt.Sprintf("udt %d", len(def))
			for _, f := range def {
				ty := f.tys[0]
				if r.Intn(3) == 0 {
					ty = pick(r, f.tys)
				}
				t += " " + f.name + " " + ty
			}
			calls = append(calls, fmt.Sprintf("%d %s %s", 1+r.Intn(5), t, val))
		}
	case fam < 8: // tuples: one struct / []interface{} value, other element types; prefixes for other arities
		ifs := fam == 7
		class = "hist/tuple-struct"
		if ifs {
			class = "hist/tuple-ifaces"
		}
		for j := 0; j < m; j++ {
			n := k
			if ifs && r.Intn(2) == 0 {
				n = 1 + r.Intn(k)
			}
			t := fmt.Sprintf("tuple %d", n)
			val := fmt.Sprintf("st %d", n)
			if ifs {
				val = fmt.Sprintf("ifs %d", n)
			}
			for _, f := range fs[:n] {
				t += " " + pick(r, f.tys)
				val += " " + f.val
			}
			calls = append(calls, fmt.Sprintf("%d %s %s", 1+r.Intn(5), t, val))
		}
	default: // collections: one slice, other element types / list vs set
		class = "hist/collection"
		n := r.Intn(4)
		var val string
		var tys []string
		if r.Intn(2) == 0 {
			val = fmt.Sprintf("sl k int64 %d", n)
			for i := 0; i < n; i++ {
				val += fmt.Sprintf(" i int64 %d", int64(r.Intn(1<<20))-(1<<19))
			}
			tys = []string{"list bigint", "set bigint", "list varint", "set varint", "list time", "list timestamp", "list counter"}
		} else {
			val = fmt.Sprintf("sl string %d", n)
			for i := 0; i < n; i++ {
				val += " s " + hexOf(string(rune('a'+r.Intn(26)))+string(rune('a'+r.Intn(26))))
			}
			tys = []string{"list text", "set text", "list varchar", "list ascii", "set blob", "list blob"}
		}
		for j := 0; j < m; j++ {
			calls = append(calls, fmt.Sprintf("%d %s %s", 1+r.Intn(5), pick(r, tys), val))
		}
	}
	for _, c := range calls {
		p, t, v := valgen.ParseTV(strings.Fields(c))
		if valgen.Classify(p, t, v) != "clean" {
			return "", class, false
		}
	}
	return "hist ; " + strings.Join(calls, " ; "), class, true
}

// the regression shape of C12_cex_stale_udt_cache: {a, b} for the definition (a, b), then for (b, a)
var fixedHistOps = []string{
	"hist ; 4 udt 2 a int b text us 2 a i int 10 b s 78 ; 4 udt 2 b text a int us 2 a i int 10 b s 78 ; 4 udt 2 a int b text us 2 a i int 10 b s 78",
	"hist ; 4 udt 2 a int b text um 2 a i int 10 b s 78 ; 3 udt 2 zz text a bigint um 2 a i int 10 b s 78",
	"hist ; 4 tuple 2 int text ifs 2 i int 10 s 78 ; 4 tuple 1 varint ifs 1 i int 10 ; 4 tuple 2 bigint blob ifs 2 i int 10 s 78",
	"hist ; 2 list bigint sl k int64 2 i int64 1 i int64 -1 ; 2 set varint sl k int64 2 i int64 1 i int64 -1",
}
