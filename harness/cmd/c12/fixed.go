package main

// fixedOps: the recorded deviations (model-vs-code `enc`/`dec`, classified `excluded`) and clean neighbours
// (spec-backed) — they run first on every invocation.
var fixedOps = []string{
	// regression inputs of the repaired findings KF-C12-4, -2, -3, -6, -7 (spec-backed since the repair: on a tree
	// without the repairs each of these lines is a concrete failing input of the property)
	"spec 4 date t -43200 0", "spec 4 bigint big 5", "spec 4 duration ni int64 1", "spec 4 tuple 2 int text ifs 2 nilptr s 41", "spec 4 tuple 1 int nil",
	"spec 4 date i int64 -1", "spec 4 date t -1 999999999", "spec 4 date i int64 -86400001",
	"spec 4 counter big -1", "spec 4 bigint big 9223372036854775807", "spec 4 bigint big -9223372036854775808",
	"spec 4 duration ni int64 -9223372036854775808",
	"spec 4 tuple 2 int text ifs 2 ptr nilptr s 41", "spec 4 tuple 2 blob text ifs 2 bnil s 41",
	"spec 4 tuple 2 blob text st 2 bnil s 41", "spec 4 tuple 2 blob blob sl bytes 2 bnil b 41", "spec 4 tuple 2 blob blob arr bytes 2 b 41 bnil",
	"spec 4 tuple 2 int text st 2 nil s 41", "spec 4 tuple 2 list int text ifs 2 slnil k int s 41",
	"spec 3 list tuple 1 int ifs 2 nil ifs 1 i int 1",
	"spec 4 bigint big 9223372036854775808", "spec 4 counter big -9223372036854775809", "cls 4 bigint big 9223372036854775808",
	"spec 4 varint big 9223372036854775808", "spec 4 varint big -9223372036854775809", "spec 4 varint big 9223372036854775807",
	// KF-C12-8 behind a pointer (C12_cex_ptr_nil_v2): *interface{} holding nil as a map value, protocol 2 (excluded) and 3 (clean, -1)
	"enc 2 map int int map k int ptr iface 1 i int 1 ptr nil", "cls 2 map int int map k int ptr iface 1 i int 1 ptr nil",
	"enc 3 map int int map k int ptr iface 1 i int 1 ptr nil", "cls 3 map int int map k int ptr iface 1 i int 1 ptr nil",
	"spec 3 map int int map k int ptr iface 1 i int 1 ptr nil",
	// regression inputs of the repaired findings KF-C12-5 (date out of range: an error, the last day still written) and
	// KF-C12-10 (net.IP of a length other than 0 / 4 / 16: an error; nil net.IP: null) - spec-backed
	"spec 4 date i int64 185542587187200000", "spec 4 date i int64 185542587187199999", "spec 4 date i int64 -185542587187200001",
	"spec 4 date t 185542587187200 0", "spec 4 inet ip 0102030405", "spec 4 inet ip -", "spec 4 inet ip 01020304",
	"spec 3 list inet sl ip 1 ip 010203",
	// D9 unsigned wrap
	"enc 4 smallint i uint16 65535", "cls 4 smallint i uint16 65535",
	"enc 4 smallint i uint16 32767", "spec 4 smallint i uint16 32767",
	"enc 4 bigint i uint64 9223372036854775813", "cls 4 bigint i uint64 9223372036854775813",
	"enc 4 tinyint i uint8 200", "enc 4 int i uint32 4294967295", "enc 4 int ni uint32 4294967295",
	"spec 4 bigint i uint64 9223372036854775807",
	// big.Int into bigint: 8 bytes
	"enc 4 bigint big 5", "cls 4 bigint big 5", "enc 4 bigint big 36028797018963968", "spec 4 bigint big 36028797018963968",
	"spec 4 varint big 5", "spec 4 varint big -129", "spec 4 varint big 128",
	// named int64 into duration: vints
	"enc 4 duration ni int64 1", "cls 4 duration ni int64 1", "spec 4 duration i int64 1", "spec 4 duration dur 1", "spec 4 duration cd 1 2 3",
	// date: floor
	"enc 4 date t -43200 0", "cls 4 date t -43200 0", "spec 4 date t -86400 0", "spec 4 date t 43200 0",
	"enc 4 date i int64 -1", "cls 4 date i int64 -1", "spec 4 date i int64 -86400000", "spec 4 date i int64 86399999",
	// out-of-range day wraps silently
	"enc 4 date i int64 185542587187200000", "cls 4 date i int64 185542587187200000", "spec 4 date i int64 185542587187199999",
	// typed nil pointer inside a []interface{} tuple: null
	"enc 4 tuple 2 int text ifs 2 nilptr s 41", "cls 4 tuple 2 int text ifs 2 nilptr s 41",
	"spec 4 tuple 2 int text ifs 2 nil s 41", "spec 4 tuple 2 int text st 2 nilptr s 41",
	// nil Go value bound to a tuple column: null
	"enc 4 tuple 1 int nil",
	// null elements under protocol 2
	"enc 2 list int sl ptr k int 2 nilptr ptr i int 1", "cls 2 list int sl ptr k int 2 nilptr ptr i int 1",
	"spec 3 list int sl ptr k int 2 nilptr ptr i int 1",
	// vints
	"spec 4 duration cd 0 0 0", "spec 4 duration cd -1 -1 -1", "spec 4 duration cd 2147483647 -2147483648 9223372036854775807",
	"spec 4 duration cd 0 0 -9223372036854775808", "spec 4 duration cd 63 64 8191", "spec 4 duration cd -64 -65 8192",
	// decode
	"dec 4 smallint ffff k uint16", "dec 4 smallint ffff k int16", "dec 4 bigint ffffffffffffffff k uint64",
	"specdec 4 varint 00ffffffffffffffff k uint64", "dec 4 varint 00ffffffffffffffff k uint", "dec 4 varint 00ffffffffffffffff nk uint64",
	"specdec 4 varint ff7f k int16", "specdec 4 varint 0080 k int8", "specdec 4 date 7fffffff time", "specdec 4 timestamp ffffffffffffffff time",
	"dec 4 blob - bytes", "dec 4 blob - nbytes", "dec 4 blob null bytes",
	// the 2-byte framing of protocol <= 2: unsigned [short] lengths and counts, both directions, both sides of 2^15 / 2^16
	"spec 2 list blob sl bytes 3 b 68 b rep:61:32768 b 74", "spec 2 list text sl string 1 s rep:61:65535", "spec 2 list text sl string 1 s rep:61:65536",
	"spec 2 list text slrep string 65535 s -", "spec 2 list text slrep string 65536 s -",
	"specdec 2 list blob 0003+000168+7fff+rep:61:32767+000174 slice string", "specdec 2 list blob 0003+000168+8000+rep:61:32768+000174 slice string",
	"specdec 1 map text int 0001+ffff+rep:6b:65535+000400000007 map string k int", "specdec 2 map int text 0001+000400000001+9c40+rep:76:40000 map k int string",
	"specdec 2 list text 8000+rep:00:65536 slice string", "specdec 2 set text ffff+rep:00:131070 slice string",
	"specdec 3 list blob 00000001+00010000+rep:61:65536 slice string",
	// null (-1) / EMPTY (0) / value in tuple and UDT fields; short UDT; null vs empty UDT value
	"specdec 4 tuple 3 text text text ffffffff+00000000+0000000141 struct 3 ptr string ptr string ptr string",
	"specdec 4 tuple 3 text text text ffffffff+00000000+0000000141 ifs 3 ptr string ptr string string",
	"specdec 4 udt 2 a text b text 00000000+ffffffff ustruct 2 a ptr string b ptr string", "specdec 4 udt 2 a text b text 00000000 umap",
	"specdec 4 tuple 2 udt 1 a int udt 1 a int 00000000+ffffffff slice iface", "specdec 4 tuple 1 text 00000000 array 1 ptr string",
}
