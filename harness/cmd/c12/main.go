// Harness for C12 (encoded values = the CQL specification's encoding; conformant encodings decode):
// generates (protocol, type tree, Go value) cases and byte strings, runs the REAL gocql.Marshal /
// gocql.Unmarshal in-process, and writes op lines + the implementation's answers for comparison with the
// Lean model (`enc`, `dec`, `cls`) and with the Lean SPECIFICATION codec (`spec`, `specdec`).
package main

import (
	"fmt"
	"math/big"
	"strings"

	"verifharness/refcodec"
	"verifharness/valgen"
	"verifharness/vh"
)

func exec(op string) (res string) {
	defer func() {
		if r := recover(); r != nil {
			s := fmt.Sprint(r)
			if strings.HasPrefix(s, "bad-op") {
				res = "bad-op"
			} else {
				res = "crash"
			}
		}
	}()
	w := strings.Fields(op)
	if len(w) == 0 {
		return "bad-op"
	}
	switch w[0] {
	case "enc", "spec":
		p, t, v := valgen.ParseTV(w[1:])
		return valgen.MarshalAnswer(p, t, v)
	case "cls":
		p, t, v := valgen.ParseTV(w[1:])
		return valgen.Classify(p, t, v)
	case "dec", "specdec":
		p, t, data, g := valgen.ParseDec(w[1:])
		ans := valgen.Unmarshal(p, t, data, g)
		if w[0] == "specdec" {
			ans = normNilBytes(ans)
		}
		return ans
	case "held":
		if len(w) < 3 {
			return "bad-op"
		}
		return execHeld(w[1], w[2:])
	case "conn":
		return execConn(w[1:])
	case "hist":
		return execHist(w[1:])
	}
	return "bad-op"
}

// the semantic printer of `specdec`: []byte(nil) and []byte{} both denote the empty byte string (KF-C02-2), at
// any depth of the decoded value (Marshal.normDeep on the Lean side)
func normNilBytes(ans string) string {
	w := strings.Fields(ans)
	if len(w) < 2 || w[0] != "ok" {
		return ans
	}
	out := make([]string, 0, len(w)+4)
	for _, x := range w {
		switch x {
		case "bnil":
			out = append(out, "b", "-")
		case "nbnil":
			out = append(out, "nb", "-")
		default:
			out = append(out, x)
		}
	}
	return strings.Join(out, " ")
}

func hexOrNull(b []byte, null bool) string {
	if null {
		return "null"
	}
	return valgen.HexC(b)
}

// ---------- specification-conformant scalar encodings (reference codec) ----------

func bi(n int64) *big.Int { return big.NewInt(n) }

func clamp(n *big.Int, bytes uint) *big.Int {
	lim := new(big.Int).Lsh(bi(1), 8*bytes-1)
	m := new(big.Int).Lsh(bi(1), 8*bytes)
	x := new(big.Int).Add(n, lim)
	x.Mod(x, m)
	return x.Sub(x, lim)
}

func genAV(g *valgen.Gen, t string) refcodec.AV {
	switch t {
	case "tinyint":
		return refcodec.AV{Int: clamp(g.Pool64(), 1)}
	case "smallint":
		return refcodec.AV{Int: clamp(g.Pool64(), 2)}
	case "int":
		return refcodec.AV{Int: clamp(g.Pool64(), 4)}
	case "bigint", "counter", "timestamp", "time":
		return refcodec.AV{Int: clamp(g.Pool64(), 8)}
	case "varint":
		return refcodec.AV{Int: g.PoolBig()}
	case "date":
		d := clamp(g.Pool64(), 4)
		if g.R.Bool() {
			d = bi(int64(g.R.Intn(80000)) - 40000)
		}
		return refcodec.AV{Int: d}
	case "ascii", "text", "varchar", "blob":
		return refcodec.AV{Bytes: g.R.Bytes(g.R.Intn(10))}
	case "uuid", "timeuuid":
		return refcodec.AV{Bytes: g.R.Bytes(16)}
	case "inet":
		if g.R.Bool() {
			return refcodec.AV{Bytes: g.R.Bytes(4)}
		}
		if g.R.Intn(3) == 0 {
			return refcodec.AV{Bytes: append([]byte{0, 0, 0, 0, 0, 0, 0, 0, 0, 0, 0xff, 0xff}, g.R.Bytes(4)...)}
		}
		return refcodec.AV{Bytes: g.R.Bytes(16)}
	case "boolean":
		return refcodec.AV{Bool: g.R.Bool()}
	case "float":
		v := g.Value(&valgen.Ty{Name: "float"}, &valgen.GT{Name: "f32"})
		return refcodec.AV{Bits: v.Bits}
	case "double":
		v := g.Value(&valgen.Ty{Name: "double"}, &valgen.GT{Name: "f64"})
		return refcodec.AV{Bits: v.Bits}
	case "decimal":
		return refcodec.AV{Int: g.PoolBig(), Scale: clamp(g.Pool64(), 4)}
	case "duration":
		return refcodec.AV{M: clamp(g.Pool64(), 4), D: clamp(g.Pool64(), 4), Int: clamp(g.Pool64(), 8)}
	}
	panic("genAV " + t)
}

func isIntColName(t string) bool {
	switch t {
	case "tinyint", "smallint", "int", "bigint", "counter", "varint":
		return true
	}
	return false
}

// decExcluded: the exact known deviations of gocql.Unmarshal from "decodes to that value, or a range error"
// (hypotheses of C12_accepts_conformant_partial): an unsigned target that is filled by masking / reinterpreting
// a negative column value; varint ≥ 2^63 into uint / a named uint64 (only *uint64 has the 9-byte special case);
// a named float32 target and a signalling NaN (Go's float32→float64→float32 conversion quiets it).
func decExcluded(t string, gt *valgen.GT, av refcodec.AV) bool {
	for gt.Name == "ptr" {
		gt = gt.Elems[0]
	}
	if isIntColName(t) && (gt.Name == "k" || gt.Name == "nk") && !valgen.KindSigned(gt.Kind) {
		if av.Int.Sign() < 0 {
			switch gt.Kind {
			case "uint", "uint64":
				return true
			case "uint32":
				return t == "int" || t == "smallint" || t == "tinyint"
			case "uint16":
				return t == "smallint" || t == "tinyint"
			case "uint8":
				return t == "tinyint"
			}
		}
		if t == "varint" && av.Int.BitLen() > 63 && av.Int.Sign() > 0 && valgen.KindBits(gt.Kind) == 64 &&
			!(gt.Kind == "uint64" && gt.Name == "k") {
			return true
		}
	}
	if t == "float" && gt.Name == "nf32" {
		x := av.Bits & 0xffffffff
		return (x>>23)&0xff == 0xff && x&0x7fffff != 0 && x&0x400000 == 0
	}
	return false
}

func documentedTarget(t string, gt *valgen.GT) bool {
	for gt.Name == "ptr" {
		gt = gt.Elems[0]
	}
	n := gt.Name
	switch t {
	case "tinyint", "smallint", "int", "bigint", "counter":
		return n == "k" || n == "nk" || n == "big" || n == "string" || n == "dur"
	case "varint":
		return n == "k" || n == "nk" || n == "big" || n == "dur"
	case "ascii", "text", "varchar", "blob":
		return n == "string" || n == "nstring" || n == "bytes" || n == "nbytes"
	case "boolean":
		return n == "bool" || n == "nbool"
	case "float":
		return n == "f32" || n == "nf32"
	case "double":
		return n == "f64" || n == "nf64"
	case "decimal":
		return n == "dec"
	case "time":
		return (n == "k" || n == "nk") && gt.Kind == "int64" || n == "dur"
	case "timestamp":
		return (n == "k" || n == "nk") && gt.Kind == "int64" || n == "time"
	case "date":
		return n == "time"
	case "duration":
		return n == "cdur"
	case "uuid", "timeuuid":
		return n == "uuid" || n == "a16" || n == "bytes" || n == "string"
	case "inet":
		return n == "ip"
	}
	return false
}

// unmodelledTarget: decode targets the model does not describe (standard-library formatting / UUID timestamps)
func unmodelledTarget(t *valgen.Ty, gt *valgen.GT) bool {
	ts, gs := " "+t.String()+" ", " "+gt.String()+" "
	if strings.Contains(ts, " timeuuid ") && strings.Contains(gs, " time ") {
		return true
	}
	if strings.Contains(ts, " date ") && strings.Contains(gs, " string ") {
		return true
	}
	return false
}

// isBigInt: a big.Int, possibly behind pointers, bound to the column itself
func isBigInt(v *valgen.Val) bool {
	for v.Tag == "ptr" {
		v = v.Elems[0]
	}
	return v.Tag == "big"
}

// ---------- the run ----------

func sizeClass(t *valgen.Ty) string {
	if t.IsScalar() {
		return t.Name
	}
	return t.Name + "<>"
}

func truncations(g *valgen.Gen, b []byte) [][]byte {
	var out [][]byte
	if len(b) > 0 {
		out = append(out, b[:g.R.Intn(len(b))])
	}
	if len(b) > 1 {
		out = append(out, b[:len(b)-1])
	}
	return out
}

func main() {
	mode, tier, path := vh.Args()
	if mode == "replay" {
		for _, l := range vh.ReadLines(path) {
			fmt.Println(exec(l))
		}
		return
	}
	r := vh.NewRng(vh.EnvSeed())
	out := vh.NewOut(path)
	g := &valgen.Gen{R: r}
	n := 9000
	if tier == "thorough" {
		n = 250000
	}
	emit := func(op, class string) string {
		ans := exec(op)
		out.Case(op, ans, class, true)
		return ans
	}
	// fixed regression inputs: the recorded deviations and their clean neighbours
	for _, op := range fixedOps {
		emit(op, "fixed/"+strings.Fields(op)[0])
	}
	// OWNERSHIP of Marshal results and decoded values (held.go), and bind values through real connections (conn.go)
	for _, op := range fixedHeldOps {
		emit(op, "fixed/"+strings.Fields(op)[0])
	}
	// HISTORIES inside one process (hist.go): the same Go type for several type descriptions, in sequence
	emitHist := func(op, class string) {
		ans := exec(op)
		for _, a := range strings.Split(ans, " ; ") {
			if !strings.HasPrefix(a, "ok") && a != "null" && a != "crash" {
				return // an error produces no bytes: not this op's business (model-vs-code op enc)
			}
		}
		out.Case(op, ans, class, true)
	}
	for _, op := range fixedHistOps {
		emitHist(op, "fixed/hist")
	}
	nhist := 400
	if tier == "thorough" {
		nhist = 8000
	}
	for i := 0; i < nhist; i++ {
		if op, cls, ok := genHist(g); ok {
			emitHist(op, cls)
		}
	}
	nh, nc := 500, 60
	if tier == "thorough" {
		nh, nc = 6000, 600
	}
	for i := 0; i < nh; i++ {
		op, cls := genHeld(g)
		emit(op, cls)
	}
	for i := 0; i < nc; i++ {
		op, cls := genConn(g)
		emit(op, cls)
	}
	// sizes and counts on both sides of every width boundary of both collection framings (valgen.BoundaryCases):
	// encode direction against the specification encoder (`spec`), decode direction on bytes written by the
	// independent reference codec against the specification decoder (`specdec`), and model-vs-code (`enc`, `dec`)
	for _, c := range g.BoundaryCases(tier) {
		tv := fmt.Sprintf("%d %s %s", c.Proto, c.T.String(), c.V.String())
		ans := emit("enc "+tv, c.Class+"/enc")
		cls := emit("cls "+tv, c.Class+"/cls")
		if cls == "clean" && (strings.HasPrefix(ans, "ok") || ans == "err" || ans == "crash") {
			emit("spec "+tv, c.Class+"/spec") // incl. "must be an error": 65536 under the 2-byte framing
		}
		if strings.HasPrefix(ans, "ok ") && !c.EncodeOnly {
			emit(fmt.Sprintf("dec %d %s %s %s", c.Proto, c.T.String(), ans[3:], c.GT.String()), c.Class+"/dec")
		}
		if c.EncodeOnly {
			continue
		}
		if cv, ok := cvOfVal(int(c.Proto), c.T, c.V); ok {
			if b, ok := refcodec.EncodeCV(int(c.Proto), node(c.T), cv); ok {
				emit(fmt.Sprintf("specdec %d %s %s %s", c.Proto, c.T.String(), valgen.HexC(b), c.GT.String()), c.Class+"/specdec")
			}
		}
	}
	// the round-trip shapes of C02 (tuples / UDTs with null, empty and zero fields) in the encode direction
	for i := 0; i < n/4; i++ {
		p, t, _, v := g.RTCase([]int{1, 1, 2, 2, 3}[r.Intn(5)])
		tv := fmt.Sprintf("%d %s %s", p, t.String(), v.String())
		cls := valgen.Classify(p, t, v)
		ans := emit("enc "+tv, "enc-shape/"+sizeClass(t))
		emit("cls "+tv, "cls/"+cls)
		if cls == "clean" && (strings.HasPrefix(ans, "ok") || ans == "null" || ans == "crash") {
			emit("spec "+tv, "spec-shape/"+sizeClass(t)+fmt.Sprintf("/v%d", p))
		}
	}
	// decode direction for composite types: conformant bytes of abstract values (null / EMPTY / zero fields, short
	// tuples and UDTs, null elements from protocol 3) from the reference codec into documented targets
	for i := 0; i < n/2; i++ {
		p := 1 + r.Intn(5)
		t := g.Ty([]int{1, 1, 1, 2, 2, 3}[r.Intn(6)])
		if t.IsScalar() || valgen.PtrKeyed(t) {
			continue
		}
		c := &cgen{g: g, proto: p}
		gt := c.target(t, true)
		if gt == nil || unmodelledTarget(t, gt) {
			continue
		}
		gt = valgen.NoByteSlices(gt)
		cv := c.value(t, gt)
		b, ok := refcodec.EncodeCV(p, node(t), cv)
		if !ok {
			continue
		}
		op := fmt.Sprintf("%d %s %s %s", p, t.String(), valgen.HexC(b), gt.String())
		emit("dec "+op, "dec-ref/"+sizeClass(t))
		if leafExcluded(t, gt, cv) {
			continue
		}
		emit("specdec "+op, "specdec/"+sizeClass(t)+"/"+gt.Name)
	}
	for i := 0; i < n; i++ {
		depth := 0
		switch x := r.Intn(10); {
		case x < 5:
			depth = 0
		case x < 8:
			depth = 1
		case x < 9:
			depth = 2
		default:
			depth = 3
		}
		p, t, v := g.Case(depth)
		tv := fmt.Sprintf("%d %s %s", p, t.String(), v.String())
		cls := valgen.Classify(p, t, v)
		ans := emit("enc "+tv, "enc/"+sizeClass(t)+"/"+strings.Fields(exec("enc " + tv))[0])
		emit("cls "+tv, "cls/"+cls)
		// (a panic on a documented input is a failing input of the property as well: the specification has an answer;
		// so is an error for a big.Int, which after the repair of KF-C12-2 is refused exactly when the column cannot hold it)
		if cls == "clean" && (strings.HasPrefix(ans, "ok") || ans == "null" || ans == "crash" || (ans == "err" && isBigInt(v))) {
			emit("spec "+tv, "spec/"+sizeClass(t)+fmt.Sprintf("/v%d", p))
		}
		// decode direction: what the real encoder produced (and truncations of it), into several targets
		var datas [][]byte
		nulls := []bool{}
		if strings.HasPrefix(ans, "ok ") {
			b, _ := valgen.UnHexC(ans[3:]) // the canonical bytes (map entries in sorted order): the op lines must not depend on Go's map iteration order
			datas = append(datas, b)
			nulls = append(nulls, false)
			if r.Intn(4) == 0 && (t.IsScalar() || t.Name == "list" || t.Name == "set" || t.Name == "map") {
				for _, tb := range truncations(g, b) {
					if t.Name == "date" && len(tb) > 0 && len(tb) < 4 {
						continue // binary.BigEndian.Uint32 panic: C05 territory, modelled but not driven here
					}
					datas = append(datas, tb)
					nulls = append(nulls, false)
				}
			}
		}
		if r.Intn(5) == 0 {
			datas = append(datas, nil)
			nulls = append(nulls, true)
		}
		if r.Intn(8) == 0 {
			datas = append(datas, []byte{})
			nulls = append(nulls, false)
		}
		for k, d := range datas {
			gt := g.Target(t, depth)
			if unmodelledTarget(t, gt) {
				continue
			}
			emit(fmt.Sprintf("dec %d %s %s %s", p, t.String(), hexOrNull(d, nulls[k]), gt.String()), "dec/"+sizeClass(t))
		}
		// specification-conformant scalar encodings from the reference codec
		if t.IsScalar() {
			av := genAV(g, t.Name)
			if b, ok := refcodec.Encode(t.Name, av); ok {
				gt := g.Target(t, 0)
				op := fmt.Sprintf("%d %s %s %s", p, t.String(), valgen.HexC(b), gt.String())
				if unmodelledTarget(t, gt) {
					continue
				}
				if documentedTarget(t.Name, gt) && !(t.Name == "varint" && strings.HasSuffix(gt.String(), "string")) {
					if decExcluded(t.Name, gt, av) {
						emit("dec "+op, "specdec-excluded/"+t.Name)
					} else {
						emit("specdec "+op, "specdec/"+t.Name)
					}
				} else {
					emit("dec "+op, "dec-ref/"+t.Name)
				}
			}
		}
	}
	out.Close(map[string]interface{}{"cases": n})
}
