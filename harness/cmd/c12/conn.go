// Bind values on their way through a real connection (op `conn`).
//
// conn <proto> <q|b> ; s ; v p T V ; v p T V ; s ; …
//
// A real gocql.Session over an in-memory scripted peer (harness/memcluster): Session.Query(stmt, values…).Exec()
// → Conn.executeQuery (PREPARE, then every value through marshalQueryValue into params.values, THEN the EXECUTE
// frame is written), or Session.ExecuteBatch → Conn.executeBatch (every statement prepared, all values of all
// statements encoded, then the BATCH frame). The peer answers PREPARE with metadata naming the column types of the
// op, parses the EXECUTE / BATCH frame it receives by itself, and the answer lists the value bytes it read —
// compared with the SPECIFICATION's encoding of each value.
//
// Every wait is on an event (the client call returns after the peer answered); the 10-minute timeouts of the
// session are never reached by a run.
package main

import (
	"fmt"
	"io/ioutil"
	"log"
	"strings"
	"sync"
	"time"

	"github.com/gocql/gocql"
	"verifharness/memcluster"
	"verifharness/valgen"
)

type connEnv struct {
	sess *gocql.Session
	mu   sync.Mutex
	cols map[string][]gocql.TypeInfo // statement text → bind column types
	ids  map[string]string           // prepared id → statement text
	got  [][][]byte                  // per statement of the last EXECUTE / BATCH: the values read
	nreq int
	perr string
}

var connEnvs = map[int]*connEnv{}
var connCounter int

func writeTypeInfo(w *memcluster.W, ti gocql.TypeInfo) {
	w.Short(int(ti.Type()))
	switch x := ti.(type) {
	case gocql.CollectionType:
		if x.Type() == gocql.TypeMap {
			writeTypeInfo(w, x.Key)
		}
		writeTypeInfo(w, x.Elem)
	case gocql.TupleTypeInfo:
		w.Short(len(x.Elems))
		for _, e := range x.Elems {
			writeTypeInfo(w, e)
		}
	case gocql.UDTTypeInfo:
		w.String(x.KeySpace)
		w.String(x.Name)
		w.Short(len(x.Elements))
		for _, f := range x.Elements {
			w.String(f.Name)
			writeTypeInfo(w, f.Type)
		}
	}
}

func preparedBody(proto int, id []byte, cols []gocql.TypeInfo) []byte {
	w := &memcluster.W{}
	w.Int(4)
	w.ShortBytes(id)
	w.Int(1) // global tables spec
	w.Int(int32(len(cols)))
	if proto >= 4 {
		w.Int(0) // no partition key indexes
	}
	w.String("ks")
	w.String("tbl")
	for i, c := range cols {
		w.String(fmt.Sprintf("c%d", i))
		writeTypeInfo(w, c)
	}
	w.Int(4) // result metadata: no metadata
	w.Int(0)
	return w.B
}

func (e *connEnv) handle(proto int) func(req *memcluster.Request) {
	return func(req *memcluster.Request) {
		e.mu.Lock()
		defer e.mu.Unlock()
		switch req.Op {
		case memcluster.OpPrepare:
			cols, ok := e.cols[req.Stmt]
			if !ok {
				e.perr = "prepare-of-unknown-statement"
			}
			id := fmt.Sprintf("id%06d", len(e.ids))
			e.ids[id] = req.Stmt
			req.Conn.Reply(req.Stream, memcluster.OpResult, preparedBody(proto, []byte(id), cols))
		case memcluster.OpExecute:
			e.nreq++
			if req.ParseErr != nil {
				e.perr = "execute-frame-unparsable"
			}
			if req.QFlags&0x40 != 0 {
				e.perr = "named-values"
			}
			e.got = [][][]byte{req.Values}
			req.Conn.Reply(req.Stream, memcluster.OpResult, memcluster.VoidBody())
		case memcluster.OpBatch:
			e.nreq++
			e.got = nil
			r := &memcluster.R{B: req.Frame.Body}
			r.Byte()
			n := r.Short()
			for i := 0; i < n && r.Err == nil; i++ {
				if r.Byte() == 0 {
					r.LongString()
				} else {
					r.ShortBytes()
				}
				nv := r.Short()
				vals := [][]byte{}
				for j := 0; j < nv && r.Err == nil; j++ {
					vals = append(vals, r.Bytes())
				}
				e.got = append(e.got, vals)
			}
			if r.Err != nil {
				e.perr = "batch-frame-unparsable"
			}
			req.Conn.Reply(req.Stream, memcluster.OpResult, memcluster.VoidBody())
		default:
			req.Conn.Reply(req.Stream, memcluster.OpResult, memcluster.VoidBody())
		}
	}
}

func connGet(proto int) (*connEnv, error) {
	if e, ok := connEnvs[proto]; ok {
		return e, nil
	}
	ip := fmt.Sprintf("10.12.0.%d", proto)
	cl := memcluster.NewCluster(proto, ip)
	e := &connEnv{cols: map[string][]gocql.TypeInfo{}, ids: map[string]string{}}
	cl.Nodes[ip].Handle = e.handle(proto)
	cfg := gocql.NewCluster(ip)
	cfg.ProtoVersion = proto
	cfg.HostDialer = cl
	cfg.NumConns = 1
	cfg.Timeout = 10 * time.Minute
	cfg.ConnectTimeout = 10 * time.Minute
	cfg.DisableInitialHostLookup = true
	cfg.ReconnectInterval = 0
	cfg.WriteCoalesceWaitTime = 0
	cfg.Logger = log.New(ioutil.Discard, "", 0)
	cfg.PoolConfig.HostSelectionPolicy = gocql.RoundRobinHostPolicy()
	cfg.Consistency = gocql.One
	cfg.ReconnectionPolicy = &gocql.ConstantReconnectionPolicy{MaxRetries: 1, Interval: time.Millisecond}
	gocql.VerifC12DisableControlConn(cfg)
	s, err := cfg.CreateSession()
	if err != nil {
		return nil, err
	}
	e.sess = s
	connEnvs[proto] = e
	return e, nil
}

type connStmt struct {
	text   string
	tvs    [][]string
	values []interface{}
}

func errWord(err error) string {
	m := err.Error()
	if len(m) > 60 {
		m = m[:60]
	}
	return strings.ReplaceAll(m, " ", "_")
}

// execConn: w = <proto> <q|b> ; steps
func execConn(w []string) string {
	if len(w) < 3 || w[2] != ";" {
		return "bad-op"
	}
	proto := atoiStep(w[0])
	kind := w[1]
	if proto < 3 || proto > 4 || (kind != "q" && kind != "b") {
		return "bad-op"
	}
	steps := splitSteps(w[3:])
	var stmts []*connStmt
	for _, st := range steps {
		switch {
		case len(st) == 1 && st[0] == "s":
			stmts = append(stmts, &connStmt{})
		case len(st) > 1 && st[0] == "v" && len(stmts) > 0:
			cur := stmts[len(stmts)-1]
			cur.tvs = append(cur.tvs, st[1:])
		default:
			return "bad-op"
		}
	}
	if len(stmts) == 0 || (kind == "q" && len(stmts) != 1) {
		return "bad-op"
	}
	e, err := connGet(proto)
	if err != nil {
		return "session-error:" + errWord(err)
	}
	connCounter++
	e.mu.Lock()
	e.got, e.perr = nil, ""
	before := e.nreq
	for i, s := range stmts {
		marks := make([]string, len(s.tvs))
		for j := range marks {
			marks[j] = "?"
		}
		s.text = fmt.Sprintf("INSERT INTO ks.tbl_%d_%d (cols) VALUES (%s)", connCounter, i, strings.Join(marks, ", "))
		var cols []gocql.TypeInfo
		for _, tv := range s.tvs {
			p, t, v := valgen.ParseTV(tv)
			if int(p) != proto {
				e.mu.Unlock()
				return "bad-op"
			}
			cols = append(cols, t.Info(p))
			s.values = append(s.values, v.Build())
		}
		e.cols[s.text] = cols
	}
	e.mu.Unlock()
	if kind == "q" {
		err = e.sess.Query(stmts[0].text, stmts[0].values...).Exec()
	} else {
		b := e.sess.NewBatch(gocql.LoggedBatch)
		for _, s := range stmts {
			b.Query(s.text, s.values...)
		}
		err = e.sess.ExecuteBatch(b)
	}
	e.mu.Lock()
	defer e.mu.Unlock()
	for _, s := range stmts {
		delete(e.cols, s.text)
	}
	if err != nil {
		return "exec-err:" + errWord(err)
	}
	if e.perr != "" {
		return e.perr
	}
	if e.nreq != before+1 {
		return fmt.Sprintf("requests-seen:%d", e.nreq-before)
	}
	if len(e.got) != len(stmts) {
		return fmt.Sprintf("statements-seen:%d", len(e.got))
	}
	var ans []string
	for i, s := range stmts {
		ans = append(ans, "s")
		if len(e.got[i]) != len(s.tvs) {
			return fmt.Sprintf("values-seen:%d", len(e.got[i]))
		}
		for j, tv := range s.tvs {
			b := e.got[i][j]
			if b == nil {
				ans = append(ans, "null")
				continue
			}
			ans = append(ans, canonHex(tv, b))
		}
	}
	return strings.Join(ans, " ; ")
}

// genConn: a statement or a batch with 2–4 bind values, most of them collections
func genConn(g *valgen.Gen) (string, string) {
	r := g.R
	proto := byte(3 + r.Intn(2))
	kind := "q"
	nst := 1
	if r.Intn(2) == 0 {
		kind = "b"
		nst = 1 + r.Intn(3)
	}
	var steps []string
	var first *encCall
	total := 0
	for i := 0; i < nst; i++ {
		steps = append(steps, "s")
		nv := 2 + r.Intn(3)
		if kind == "b" && nst > 1 {
			nv = 1 + r.Intn(3)
		}
		for j := 0; j < nv; j++ {
			var c *encCall
			switch x := r.Intn(10); {
			case first != nil && x < 3:
				c = first.again(g)
			case x < 8:
				c = genEncX(g, proto, "coll", false, true)
			case x < 9:
				c = genEncX(g, proto, "comp", true, true)
			default:
				c = genEncX(g, proto, "", true, true)
			}
			if first == nil {
				first = c
			}
			steps = append(steps, "v "+c.text)
			total++
		}
	}
	return fmt.Sprintf("conn %d %s ; %s", proto, kind, strings.Join(steps, " ; ")), fmt.Sprintf("conn/%s/v%d/values%d", kind, proto, total)
}
