package main

import "verifharness/muxrun"

func main() { muxrun.Main(true) }
