// Harness for C08 (stream-id allocator, internal/streams): runs the REAL IDGenerator
//
//   - sequentially on random op sequences (`seq` lines: exact answers compared with the model; `smon` lines:
//     every answer judged by the abstract id-set specification kept in this harness, runSmon), including
//     histories in which the rotating offset word is preset near the ends of its representation range through
//     the reflection hook /repo/verif_export_c08b.go (`O…` tokens: "any history"), and
//
//   - in lock-step: k goroutines run scripts of GetStream/Clear/Available; the `verif` yield
//     points (internal/streams/yield_on.go) park a goroutine in front of every atomic operation
//     and a deterministic scheduler lets exactly one goroutine run per scheduling decision (`conc` lines).
//     The observation stream (yield point reached / values returned per decision, final Available and bitset) is
//     compared with the Lean small-step model replaying the same schedule. The scheduler assumes nothing
//     about the yield sequence of the code under test (see "lock-step scheduler" below).
//
//     The property monitors are evaluated on the real run of EVERY lock-step scenario, whether the scripts
//     respect the client protocol (Clear only by the holder, once) or not (`mon` lines; runConcX).
//
//     Scenario families: random scripts / schedules (genConc), racing releases of one id (genConcRace),
//     counter-vs-bitset windows (fixedWindows, genWindow: one goroutine paused in front of each atomic operation
//     of a Clear / GetStream on a full generator while the others run complete calls), exhaustive enumeration of
//     schedules (thorough tier).
//
// Every op line is a self-contained scenario (see lean/Driver/C08.lean for the grammar).
package main

import (
	"fmt"
	"os"
	"runtime"
	"strconv"
	"strings"
	"time"

	"github.com/gocql/gocql"
	"verifharness/vh"
)

// ---------------------------------------------------------------- sequential part

func protect(f func() string) (res string) {
	defer func() {
		if r := recover(); r != nil {
			msg := fmt.Sprint(r)
			switch {
			case strings.Contains(msg, "index out of range"):
				res = "crash:index"
			case strings.Contains(msg, "negative streams inuse"):
				res = "crash:negative"
			default:
				res = "crash:" + strings.ReplaceAll(msg, " ", "_")
			}
		}
	}()
	return f()
}

func doGet(g *gocql.VerifStreams) string {
	return protect(func() string {
		id, ok := g.GetStream()
		if ok {
			return strconv.Itoa(id) + ":t"
		}
		return strconv.Itoa(id) + ":f"
	})
}

func doClear(g *gocql.VerifStreams, id int) string {
	return protect(func() string {
		if g.Clear(id) {
			return "T"
		}
		return "F"
	})
}

func doAvail(g *gocql.VerifStreams) string {
	return protect(func() string { return "a=" + strconv.Itoa(g.Available()) })
}

// showState canonicalises IDGenerator.String(): non-zero words, equal runs compressed.
func showState(g *gocql.VerifStreams) string {
	s := strings.TrimRight(g.String(), "\x00")
	ws := strings.Fields(s)
	var items []string
	for i := 0; i < len(ws); {
		j := i
		for j+1 < len(ws) && ws[j+1] == ws[i] {
			j++
		}
		if ws[i] != "0" {
			if j == i {
				items = append(items, fmt.Sprintf("%d:%s", i, ws[i]))
			} else {
				items = append(items, fmt.Sprintf("%d-%d:%s", i, j, ws[i]))
			}
		}
		i = j + 1
	}
	if len(items) == 0 {
		return "s=-"
	}
	return "s=" + strings.Join(items, ",")
}

// idsInUse reads the non-reserved ids whose bit is set from IDGenerator.String().
func idsInUse(g *gocql.VerifStreams) (inUse []int) {
	s := strings.Fields(strings.TrimRight(g.String(), "\x00"))
	for wd, hx := range s {
		if hx == "0" {
			continue
		}
		v, _ := strconv.ParseUint(hx, 16, 64)
		for j := 0; j < 64; j++ {
			if v>>(63-uint(j))&1 == 1 && wd*64+j != 0 {
				inUse = append(inUse, wd*64+j)
			}
		}
	}
	return inUse
}

func seqTok(g *gocql.VerifStreams, w string) (string, bool) {
	switch {
	case w == "g":
		return doGet(g), true
	case w == "a":
		return doAvail(g), true
	case w == "s":
		return showState(g), true
	case strings.HasPrefix(w, "c"):
		id, err := strconv.Atoi(w[1:])
		if err != nil || id < 0 {
			return "", false
		}
		return doClear(g, id), true
	case strings.HasPrefix(w, "n"): // n<k> = Clear(-k), k >= 1: a NEGATIVE argument (seq lines only; excluded from the spec monitor)
		k, err := strconv.Atoi(w[1:])
		if err != nil || k < 1 {
			return "", false
		}
		return doClear(g, -k), true
	case strings.HasPrefix(w, "O"):
		v, ok := presetValue(g, w)
		if !ok {
			return "", false
		}
		if !g.VerifSetField(offsetField, v) {
			return "O!no-field-" + offsetField, true
		}
		return "O", true
	case strings.HasPrefix(w, "G"):
		c, err := strconv.Atoi(w[1:])
		if err != nil || c < 0 {
			return "", false
		}
		succ, x, sum, last := 0, 0, 0, 0
		for i := 0; i < c; i++ {
			id, ok := g.GetStream()
			if ok {
				succ++
				x ^= id
				sum += id
				last = id
			}
		}
		return fmt.Sprintf("G=%d/%d/%d/%d", succ, x, sum, last), true
	}
	return "", false
}

// offsetField: the state of the allocator that depends on the NUMBER of past calls (rotating start word)
const offsetField = "offset"

// presetValue resolves a preset token: `O<v>` = v, `Ot<k>` = 2^w - k (top of the representation range of the
// field, w = its width in bits: 32 in the unchanged code), `Om<k>` = 2^(w-1) - k (sign boundary).
func presetValue(g *gocql.VerifStreams, w string) (uint64, bool) {
	bits, _, ok := g.VerifFieldBits(offsetField)
	if !ok || bits <= 0 || bits > 64 {
		bits = 32
	}
	switch {
	case strings.HasPrefix(w, "Ot"), strings.HasPrefix(w, "Om"):
		k, err := strconv.ParseUint(w[2:], 10, 64)
		if err != nil {
			return 0, false
		}
		sh := uint(bits)
		if w[1] == 'm' {
			sh--
		}
		var top uint64
		if sh < 64 {
			top = uint64(1) << sh
		}
		return top - k, true // (2^64 wraps to 0: 0 - k is 2^64 - k)
	default:
		v, err := strconv.ParseUint(w[1:], 10, 64)
		return v, err == nil
	}
}

// ---------------------------------------------------------------- sequential spec monitor

// runSmon runs the ops (g, c<id>, a, G<cnt>) on the real generator and judges every answer by the abstract
// specification (a set of handed-out ids kept HERE, independent of the code): an id handed out is in
// 1..NumStreams-1 and was free; GetStream fails only when every non-reserved id is handed out; Clear reports
// whether the id was handed out (false, nothing changes, for anything outside 0..cap-1: beyond the capacity, negative); Available() = NumStreams-1-#handed out after
// every op. `n/a` if Clear(0) is among the ops (excluded case).
func runSmon(proto int, toks []string) (res string) {
	for _, w := range toks {
		if strings.HasPrefix(w, "c") {
			if id, err := strconv.Atoi(w[1:]); err == nil && id == 0 {
				return "n/a"
			}
		}
	}
	g := gocql.VerifStreamsNew(proto)
	// the capacity is the one the PROPERTY prescribes for the protocol version (1..127 for v1-2, 1..32767 for
	// v3+), not the one the code under test chose
	capN := capOf(proto)
	held := make([]bool, capN)
	cnt := 0
	k := 0
	fail := func(what string) string { return fmt.Sprintf("violated:op%d:%s", k, what) }
	checkAvail := func() string {
		if a, want := doAvail(g), fmt.Sprintf("a=%d", capN-1-cnt); a != want {
			return fail("Available-" + a + "-but-" + strconv.Itoa(cnt) + "-handed-out")
		}
		return ""
	}
	get := func() string {
		a := doGet(g)
		switch {
		case strings.HasSuffix(a, ":t"):
			id, _ := strconv.Atoi(strings.TrimSuffix(a, ":t"))
			if id < 1 || id >= capN {
				return fail("GetStream-returned-out-of-range-id-" + strconv.Itoa(id))
			}
			if held[id] {
				return fail("GetStream-returned-id-in-use-" + strconv.Itoa(id))
			}
			held[id] = true
			cnt++
		case a == "0:f":
			if cnt != capN-1 {
				return fail(fmt.Sprintf("GetStream-reported-exhaustion-with-%d-of-%d-ids-handed-out", cnt, capN-1))
			}
		default:
			return fail("GetStream-" + a)
		}
		return checkAvail()
	}
	for _, w := range toks {
		k++
		switch {
		case w == "g":
			if v := get(); v != "" {
				return v
			}
		case w == "a":
			if v := checkAvail(); v != "" {
				return v
			}
		case strings.HasPrefix(w, "O"):
			// "any history": the rotating start offset is set to the value it has after that many calls; the
			// specification does not know the offset, every later answer is judged as before
			v, ok := presetValue(g, w)
			if !ok {
				return "bad-op"
			}
			g.VerifSetField(offsetField, v)
			if v := checkAvail(); v != "" {
				return v
			}
		case strings.HasPrefix(w, "G"):
			c, err := strconv.Atoi(w[1:])
			if err != nil || c < 0 {
				return "bad-op"
			}
			for i := 0; i < c; i++ {
				if v := get(); v != "" {
					return v
				}
			}
		case strings.HasPrefix(w, "n"): // Clear(-k): not an id of the generator: false, nothing changes
			kk, err := strconv.Atoi(w[1:])
			if err != nil || kk < 1 {
				return "bad-op"
			}
			if a := doClear(g, -kk); a != "F" {
				return fail(fmt.Sprintf("Clear-minus-%d-answered-%s", kk, a))
			}
			if v := checkAvail(); v != "" {
				return v
			}
		case strings.HasPrefix(w, "c"):
			id, err := strconv.Atoi(w[1:])
			if err != nil || id < 0 {
				return "bad-op"
			}
			a := doClear(g, id)
			switch {
			case id >= capN: // not an id of the generator: false, nothing changes (KF-C08-3, repaired)
				if a != "F" {
					return fail(fmt.Sprintf("Clear-%d-beyond-capacity-answered-%s", id, a))
				}
			case a == "T" && held[id]:
				held[id] = false
				cnt--
			case a == "F" && !held[id]:
			default:
				return fail(fmt.Sprintf("Clear-%d-answered-%s-handed-out-%v", id, a, held[id]))
			}
			if v := checkAvail(); v != "" {
				return v
			}
		default:
			return "bad-op"
		}
	}
	return "ok"
}

// ---------------------------------------------------------------- lock-step scheduler
//
// k goroutines run scripts; exactly one of them is runnable at any time. A goroutine hands control back
// to the scheduler when it reaches a yield point of the allocator (hook) or when its script is finished;
// NOTHING is assumed about the yield sequence of the code under test: a goroutine may perform a whole call,
// or several calls, between two hand-overs (then the answers of all of them are part of the observation
// of that scheduling decision), may never yield, may yield at point numbers the model does not know. The
// yielding goroutine is identified by its goroutine id (registered when the goroutine starts), not by what
// the scheduler believes to be running. A yield sequence the model does not reproduce is a
// model-vs-code difference of the `conc` line; the property monitors (`mon` line) are evaluated on whatever
// the real code did, from the bitset before / after every scheduling decision.

type event struct {
	t    int
	kind byte     // 'h' goroutine started (gid), 'y' parked in front of yield point k, 'd' script finished
	k    int      // yield point
	gid  uint64   // 'h' only
	rets []string // answers of the calls that returned since the previous event of this goroutine
}

type lockstep struct {
	g      *gocql.VerifStreams
	k      int
	nw     int // number of bitset words
	capN   int // capacity the property prescribes for the protocol version (NOT taken from the code under test)
	resume []chan struct{}
	events chan event
	gids   map[uint64]int // goroutine id -> thread index
	rets   [][]string     // per thread: answers not yet reported
	done   []bool
	mine   [][]int // per thread: ids acquired and not yet released through `r`
	nsteps []int   // per thread: scheduling decisions it was given
	steps  int
	// monitors (independent of the model)
	held     map[int]bool // protocol-respecting scenarios only: ids handed out and not given back
	monitor  string
	protocol bool
	// false-exhaustion monitor: per thread inside GetStream, the ids that have been free at EVERY moment
	// since the call began (sampled at the call and after every scheduling decision of any thread; nil = not
	// inside GetStream)
	getFree [][]uint64
	// protocol-free monitors (ALL scenarios): per id, the number of GetStream calls that returned it and
	// the number of Clear(id) calls that returned true or panicked 'negative' (both after clearing the bit)
	got, rel map[int]int
	w0       []uint64 // bitset after the sequential prefix
	cur      []uint64 // bitset after the last scheduling decision
	at       []int    // yield point the thread is parked at (0 = not inside the allocator)
	inGet    []bool   // the thread is inside a GetStream call
	curClear []int    // id of the Clear call the thread is in (-1 = none)
	pendAcq  []int    // id whose bit the thread's GetStream has set, call not yet returned (-1 = none)
	negPanic []int    // ids of the Clear calls that panicked 'negative' during the current scheduling decision
	lpAcq    []int    // linearization monitor: id whose bit the thread's current GetStream call has set (-1 = none yet)
	lpRel    []bool   // linearization monitor: the thread's current Clear call has cleared the bit of its id
	c0       bool     // excluded case 1 has happened: Clear(0) called
	excl     bool     // excluded case 1 or 2 (a Clear cleared the bit of an id whose GetStream had not returned yet)
	nRogue   int
	unquiet  bool // a thread hung or was abandoned (step budget): no quiescent final state
	stray    int  // yields of goroutines the scheduler does not know (they are not parked)
	confused int  // events of a thread other than the one that was resumed (cannot happen)
	multi    int  // scheduling decisions in which more than one call returned / a call returned without any yield
}

// goid: id of the calling goroutine ("goroutine 123 [running]:")
func goid() uint64 {
	var buf [48]byte
	n := runtime.Stack(buf[:], false)
	var id uint64
	for i := len("goroutine "); i < n && buf[i] >= '0' && buf[i] <= '9'; i++ {
		id = id*10 + uint64(buf[i]-'0')
	}
	return id
}

// wordsNow: the bitset words (bit 63-j of word w = id 64w+j), read while every other goroutine is parked
func wordsNow(g *gocql.VerifStreams) []uint64 {
	if ws, ok := g.VerifWords(nil); ok {
		return ws
	}
	f := strings.Fields(strings.TrimRight(g.String(), "\x00"))
	ws := make([]uint64, len(f))
	for i, hx := range f {
		if hx != "0" {
			ws[i], _ = strconv.ParseUint(hx, 16, 64)
		}
	}
	return ws
}

// freeMask: per word the ids that are free right now (id 0 is reserved: its bit is always set)
func freeMask(g *gocql.VerifStreams) []uint64 {
	ws := wordsNow(g)
	for i := range ws {
		ws[i] = ^ws[i]
	}
	return ws
}

// sample intersects every in-progress GetStream's candidate set with the ids free right now
func (ls *lockstep) sample(now []uint64) {
	for _, m := range ls.getFree {
		if m == nil {
			continue
		}
		for i := range m {
			if i < len(now) {
				m[i] &= ^now[i]
			} else {
				m[i] = 0
			}
		}
	}
}

var active *lockstep

func (ls *lockstep) takeRets(t int) []string {
	r := ls.rets[t]
	ls.rets[t] = nil
	return r
}

func hook(k int) {
	ls := active
	if ls == nil {
		return
	}
	t, ok := ls.gids[goid()]
	if !ok { // not one of the scheduled goroutines: let it run
		ls.stray++
		return
	}
	ls.at[t] = k
	ls.events <- event{t: t, kind: 'y', k: k, rets: ls.takeRets(t)}
	<-ls.resume[t]
}

func (ls *lockstep) thread(t int, script []string) {
	ls.events <- event{t: t, kind: 'h', gid: goid()}
	<-ls.resume[t]
	for _, op := range script {
		var ret string
		switch {
		case op == "g":
			ls.getFree[t] = freeMask(ls.g)
			ls.inGet[t] = true
			ret = doGet(ls.g)
			ls.inGet[t] = false
			ls.pendAcq[t] = -1
			if strings.HasSuffix(ret, ":f") {
			scan:
				for w, m := range ls.getFree[t] {
					for j := 0; j < 64; j++ {
						if m>>(63-uint(j))&1 == 1 {
							ls.monitor += fmt.Sprintf(" MONITOR:false-exhaustion-id-%d-stayed-free", w*64+j)
							break scan
						}
					}
				}
			}
			ls.getFree[t] = nil
			if strings.HasSuffix(ret, ":t") {
				id, _ := strconv.Atoi(strings.TrimSuffix(ret, ":t"))
				ls.mine[t] = append(ls.mine[t], id)
				ls.got[id]++
				if ls.protocol && ls.held[id] {
					ls.monitor += fmt.Sprintf(" MONITOR:duplicate-id-%d", id)
				}
				if !ls.c0 && (id < 1 || id >= ls.capN) {
					ls.monitor += fmt.Sprintf(" MONITOR:id-out-of-range-%d", id)
				}
				ls.held[id] = true
			} else if !strings.HasSuffix(ret, ":f") {
				ls.monitor += " MONITOR:GetStream-" + ret
			}
		case op == "a":
			ret = doAvail(ls.g)
		case op == "r":
			if n := len(ls.mine[t]); n > 0 {
				id := ls.mine[t][n-1]
				ls.mine[t] = ls.mine[t][:n-1]
				ret = ls.clear(t, id)
			} else {
				ret = doAvail(ls.g)
			}
		case strings.HasPrefix(op, "c"):
			id, _ := strconv.Atoi(op[1:])
			ret = ls.clear(t, id)
		default:
			ret = "bad-op"
		}
		ls.rets[t] = append(ls.rets[t], ret)
		ls.at[t] = 0
	}
	ls.events <- event{t: t, kind: 'd', rets: ls.takeRets(t)}
}

// clear: Clear(id) called by thread t (running; the first atomic operation of the call is performed now)
func (ls *lockstep) clear(t, id int) string {
	delete(ls.held, id)
	if id == 0 {
		ls.c0, ls.excl = true, true
	}
	ls.curClear[t] = id
	ret := doClear(ls.g, id)
	ls.curClear[t] = -1
	switch ret {
	case "T":
		ls.rel[id]++
	case "F":
	case "crash:negative":
		ls.rel[id]++                          // the bit was cleared and the counter decremented before the panic
		ls.negPanic = append(ls.negPanic, id) // judged by the scheduler, after the bookkeeping of this decision
	case "crash:index": // no argument of Clear may panic (KF-C08-3, repaired)
		ls.monitor += fmt.Sprintf(" MONITOR:index-panic-in-Clear-%d", id)
	default:
		ls.monitor += fmt.Sprintf(" MONITOR:Clear-%d-%s", id, ret)
	}
	return ret
}

const watchdog = 20 * time.Second

// advance resumes thread t and waits for its next event. A goroutine that neither yields nor finishes
// within the watchdog while it is the only runnable one is stuck inside the allocator.
func (ls *lockstep) advance(t int) (ev event, hung bool) {
	tm := time.NewTimer(watchdog)
	defer tm.Stop()
	select {
	case ls.resume[t] <- struct{}{}:
	case <-tm.C:
		return event{}, true
	}
	for {
		select {
		case ev = <-ls.events:
			if ev.t == t {
				return ev, false
			}
			ls.confused++ // an event of a goroutine that was not resumed: cannot happen (it stays parked in the send)
		case <-tm.C:
			return event{}, true
		}
	}
}

func bitsOf(ws []uint64, f func(id int)) {
	for w, v := range ws {
		for j := 0; v != 0 && j < 64; j++ {
			if v>>(63-uint(j))&1 == 1 {
				f(w*64 + j)
			}
		}
	}
}

// linearization monitor (theorems C08_linearizable_partial, C08_lp_answers; no client protocol, Clear(0) excluded),
// evaluated on the bitset before / after every scheduling decision in which at most one call returned: the only
// bits a decision of thread t may change are ONE bit set while t is inside a GetStream call that has not set a
// bit yet (the linearization point of that call: it must then return exactly that id) and the bit of x cleared
// while t is inside Clear(x) (once: that call must then return true); a GetStream that returns an id / a Clear
// that returns true has passed its linearization point; a Clear(x) that returns false has not cleared anything and
// the bit of x was clear in front of the decision that made it return.
func (ls *lockstep) linearization(t int, wasGet bool, wasClear int, before, after []uint64, rets []string) {
	if ls.c0 || len(rets) > 1 || len(before) != len(after) {
		ls.lpAcq[t], ls.lpRel[t] = -1, false
		return
	}
	set, clr := make([]uint64, len(after)), make([]uint64, len(after))
	for w := range after {
		set[w], clr[w] = after[w]&^before[w], before[w]&^after[w]
	}
	bitsOf(set, func(id int) {
		if !wasGet || ls.lpAcq[t] >= 0 {
			ls.monitor += fmt.Sprintf(" MONITOR:bit-of-id-%d-set-outside-the-linearization-point-of-a-GetStream", id)
		} else {
			ls.lpAcq[t] = id
		}
	})
	bitsOf(clr, func(id int) {
		if wasClear != id || ls.lpRel[t] {
			ls.monitor += fmt.Sprintf(" MONITOR:bit-of-id-%d-cleared-outside-the-linearization-point-of-a-Clear-of-it", id)
		} else {
			ls.lpRel[t] = true
		}
	})
	if len(rets) == 0 {
		return
	}
	r := rets[0]
	switch {
	case wasGet && strings.HasSuffix(r, ":t"):
		if id, _ := strconv.Atoi(strings.TrimSuffix(r, ":t")); id != ls.lpAcq[t] {
			ls.monitor += fmt.Sprintf(" MONITOR:GetStream-returned-%d-but-its-linearization-point-set-the-bit-of-%d", id, ls.lpAcq[t])
		}
	case wasGet:
		if ls.lpAcq[t] >= 0 {
			ls.monitor += fmt.Sprintf(" MONITOR:GetStream-answered-%s-after-setting-the-bit-of-%d", r, ls.lpAcq[t])
		}
	case wasClear >= 0 && (r == "T" || r == "crash:negative"):
		if !ls.lpRel[t] {
			ls.monitor += fmt.Sprintf(" MONITOR:Clear-%d-answered-%s-without-having-cleared-its-bit", wasClear, r)
		}
	case wasClear >= 0 && r == "F":
		if ls.lpRel[t] {
			ls.monitor += fmt.Sprintf(" MONITOR:Clear-%d-answered-F-after-having-cleared-its-bit", wasClear)
		} else if w := wasClear / 64; w < len(before) && before[w]>>(63-uint(wasClear%64))&1 == 1 {
			ls.monitor += fmt.Sprintf(" MONITOR:Clear-%d-answered-F-while-its-bit-was-set", wasClear)
		}
	}
	ls.lpAcq[t], ls.lpRel[t] = -1, false
}

// step: one scheduling decision, thread t runs until its next hand-over; returns the observation
// `<t>:[<ret>:…]y<k>` (parked in front of yield point k) or `<t>:[<ret>:…]d` (script finished).
func (ls *lockstep) step(t int) string {
	if t < 0 || t >= len(ls.done) {
		return strconv.Itoa(t) + ":bad"
	}
	if ls.done[t] {
		return strconv.Itoa(t) + ":-"
	}
	wasGet, wasClear := ls.inGet[t], ls.curClear[t]
	before := ls.cur
	ev, hung := ls.advance(t)
	ls.steps++
	ls.nsteps[t]++
	if hung {
		// dump every goroutine so that the report shows where the goroutine is stuck
		ls.done[t] = true
		ls.unquiet = true
		hangs++
		buf := make([]byte, 1<<20)
		fmt.Fprintf(os.Stderr, "c08: goroutine %d did not reach a yield point / return within %v; goroutine dump:\n%s\n", t, watchdog, buf[:runtime.Stack(buf, true)])
		return strconv.Itoa(t) + ":hang"
	}
	after := wordsNow(ls.g)
	ls.cur = after
	if ev.kind == 'd' {
		ls.done[t] = true
	}
	if len(ev.rets) > 1 {
		ls.multi++
	}
	// bookkeeping for the excluded case 2, from the bitset before / after the decision (not from yield numbers)
	if wasGet && len(ev.rets) == 0 { // still inside the GetStream call: which bit did it set?
		for w := range after {
			if w < len(before) {
				if d := after[w] &^ before[w]; d != 0 {
					bitsOf([]uint64{d}, func(j int) { ls.pendAcq[t] = w*64 + j })
				}
			}
		}
	}
	if wasClear >= 0 && wasClear/64 < len(before) && wasClear/64 < len(after) { // did the Clear clear its bit now?
		m := uint64(1) << (63 - uint(wasClear%64))
		if before[wasClear/64]&m != 0 && after[wasClear/64]&m == 0 {
			for u, id := range ls.pendAcq {
				if u != t && id == wasClear {
					ls.excl = true
					ls.nRogue++
				}
			}
		}
	}
	ls.linearization(t, wasGet, wasClear, before, after, ev.rets)
	for _, id := range ls.negPanic {
		if !ls.excl {
			ls.monitor += fmt.Sprintf(" MONITOR:negative-streams-inuse-panic-in-Clear-%d", id)
		}
	}
	ls.negPanic = ls.negPanic[:0]
	// false-exhaustion candidates: ids free right now; a bit the GetStream call itself has just set does not make
	// the id "in use by somebody else": it stays a candidate of THAT call
	var own []uint64
	if wasGet && ls.getFree[t] != nil {
		own = append(own, ls.getFree[t]...)
		for w := range own {
			if w < len(before) && w < len(after) {
				own[w] &= after[w] &^ before[w]
			} else {
				own[w] = 0
			}
		}
	}
	ls.sample(after)
	if own != nil && ls.getFree[t] != nil {
		for w := range own {
			ls.getFree[t][w] |= own[w]
		}
	}
	o := strconv.Itoa(t) + ":"
	for _, r := range ev.rets {
		o += r + ":"
	}
	if ev.kind == 'd' {
		return o + "d"
	}
	return o + "y" + strconv.Itoa(ev.k)
}

// runConc executes one `conc` scenario. If sched is nil the schedule is produced by `choose`
// (used by the enumeration and the window scenarios), which gets the list of unfinished threads.
func runConc(proto, k int, pre []string, scripts [][]string, sched []int, choose func(ls *lockstep, enabled []int) int) (answer string, full []int, verdict string) {
	answer, full, verdict, _ = runConcX(proto, k, pre, scripts, sched, choose)
	return
}

// hangs: scheduling decisions that ended in the watchdog (each costs 20 s of wall time): after maxHangs of them
// the remaining lock-step scenarios of the run are skipped (their `conc` line then differs from the model's)
var hangs int

const maxHangs = 2

// livelocks: threads abandoned because, running alone, they kept yielding beyond the step budget without ever
// returning (their goroutines stay parked for good): after maxLivelocks the remaining lock-step scenarios are skipped
var livelocks int

const maxLivelocks = 25

func runConcX(proto, k int, pre []string, scripts [][]string, sched []int, choose func(ls *lockstep, enabled []int) int) (answer string, full []int, verdict string, ls *lockstep) {
	if hangs >= maxHangs {
		return "skipped-after-hangs", sched, "ok", nil
	}
	if livelocks >= maxLivelocks {
		return "skipped-after-livelocks", sched, "ok", nil
	}
	g := gocql.VerifStreamsNew(proto)
	active = nil
	for _, w := range pre {
		if _, ok := seqTok(g, w); !ok {
			return "bad-op", nil, "bad-op", nil
		}
	}
	ls = &lockstep{g: g, k: k, resume: make([]chan struct{}, k), events: make(chan event), rets: make([][]string, k),
		done: make([]bool, k), mine: make([][]int, k), held: map[int]bool{}, getFree: make([][]uint64, k), gids: map[uint64]int{},
		got: map[int]int{}, rel: map[int]int{}, w0: wordsNow(g), at: make([]int, k), curClear: make([]int, k), pendAcq: make([]int, k), lpAcq: make([]int, k), lpRel: make([]bool, k),
		inGet: make([]bool, k), nsteps: make([]int, k)}
	ls.cur = append([]uint64{}, ls.w0...)
	ls.nw = len(ls.w0)
	ls.capN = capOf(proto)
	if 64*ls.nw != ls.capN {
		ls.monitor += fmt.Sprintf(" MONITOR:protocol-%d-bitset-of-%d-ids-instead-of-%d", proto, 64*ls.nw, ls.capN)
	}
	for t := 0; t < k; t++ {
		ls.resume[t] = make(chan struct{})
		ls.curClear[t], ls.pendAcq[t], ls.lpAcq[t] = -1, -1, -1
	}
	for _, w := range pre {
		if w == "c0" {
			ls.c0, ls.excl = true, true
		}
	}
	// client protocol of the property: every Clear(id) of a script names an id in use after the
	// prefix, and no id is named twice (`r` releases an id the thread itself acquired)
	ls.protocol = true
	for _, id := range idsInUse(g) {
		ls.held[id] = true
	}
	seen := map[int]bool{}
	for _, sc := range scripts {
		for _, o := range sc {
			if strings.HasPrefix(o, "c") {
				id, _ := strconv.Atoi(o[1:])
				if !ls.held[id] || seen[id] {
					ls.protocol = false
				}
				seen[id] = true
			}
		}
	}
	for t := 0; t < k; t++ {
		go ls.thread(t, scripts[t])
	}
	for t := 0; t < k; t++ { // every goroutine reports its id and parks
		ev := <-ls.events
		ls.gids[ev.gid] = ev.t
	}
	active = ls
	var obs []string
	// start every thread up to its first yield point (the unchanged code performs no atomic operation before
	// it; a thread that returns from calls already now is part of the observation)
	for t := 0; t < k; t++ {
		o := ls.step(t)
		ls.nsteps[t] = 0
		if strings.Count(o, ":") > 1 || strings.HasSuffix(o, ":hang") {
			obs = append(obs, strconv.Itoa(t)+":start:"+strings.SplitN(o, ":", 2)[1])
		}
	}
	budget := func(t int) int { return 4*(len(scripts[t])*(ls.nw+8)+ls.nw+8) + 64 }
	total := 0
	for t := 0; t < k; t++ {
		total += budget(t)
	}
	for _, t := range sched {
		obs = append(obs, ls.step(t))
		full = append(full, t)
	}
	if choose != nil {
		for n := 0; n < 4*total; n++ {
			var en []int
			for t := 0; t < k; t++ {
				if !ls.done[t] {
					en = append(en, t)
				}
			}
			if len(en) == 0 {
				break
			}
			t := choose(ls, en)
			obs = append(obs, ls.step(t))
			full = append(full, t)
		}
	}
	for t := 0; t < k; t++ {
		for n := 0; !ls.done[t]; n++ {
			if n >= budget(t) {
				// running alone the goroutine keeps yielding without ever returning: abandoned (it stays parked)
				obs = append(obs, strconv.Itoa(t)+":livelock")
				livelocks++
				ls.done[t] = true
				ls.unquiet = true
				break
			}
			obs = append(obs, ls.step(t))
		}
	}
	active = nil
	if ls.stray > 0 {
		obs = append(obs, fmt.Sprintf("stray-yields:%d", ls.stray))
	}
	if ls.confused > 0 {
		obs = append(obs, fmt.Sprintf("scheduler-confused:%d", ls.confused))
	}
	wEnd := wordsNow(g)
	if !ls.unquiet {
		// monitors at quiescence, ALL scenarios (no client protocol assumed):
		// (1) per id: successful releases + [bit set now] = acquisitions + [bit set after the prefix]
		bit := func(ws []uint64, id int) int {
			if id < 0 || id/64 >= len(ws) {
				return 0
			}
			return int(ws[id/64] >> (63 - uint(id%64)) & 1)
		}
		var ids []int
		for id := range ls.got {
			ids = append(ids, id)
		}
		for id := range ls.rel {
			if _, dup := ls.got[id]; !dup {
				ids = append(ids, id)
			}
		}
		sortInts(ids)
		a, b := append([]uint64{}, wEnd...), append([]uint64{}, ls.w0...)
		for _, id := range ids {
			if ls.rel[id]+bit(wEnd, id) != ls.got[id]+bit(ls.w0, id) {
				ls.monitor += fmt.Sprintf(" MONITOR:id-%d-released-%d-times-acquired-%d-times-bit-before-%d-after-%d",
					id, ls.rel[id], ls.got[id], bit(ls.w0, id), bit(wEnd, id))
			}
			if id >= 0 && id/64 < len(a) && id/64 < len(b) {
				a[id/64] &^= 1 << (63 - uint(id%64))
				b[id/64] &^= 1 << (63 - uint(id%64))
			}
		}
		for w := range a {
			if w >= len(b) || a[w] != b[w] {
				ls.monitor += fmt.Sprintf(" MONITOR:word-%d-changed-without-acquisition-or-release", w)
				break
			}
		}
		// (2) Available() = number of zero bits of the bitset = number of free ids among 0..cap-1, cap = the
		// capacity of the protocol version
		zeros := 0
		for w, v := range wEnd {
			if 64*w >= ls.capN {
				break
			}
			for j := 0; j < 64; j++ {
				if v>>uint(j)&1 == 0 {
					zeros++
				}
			}
		}
		if want := fmt.Sprintf("a=%d", zeros); want != doAvail(g) {
			ls.monitor += " MONITOR:available-" + doAvail(g) + "-but-zero-bits-" + want
		}
	}
	for _, o := range obs {
		if strings.Contains(o, "hang") {
			ls.monitor += " MONITOR:" + o
		}
	}
	if ls.protocol { // additionally, under the client protocol: held ids = set bits, no panic at all
		if !ls.unquiet {
			if want := fmt.Sprintf("a=%d", ls.capN-1-len(ls.held)); want != doAvail(g) {
				ls.monitor += " MONITOR:available-" + doAvail(g) + "-but-held-" + want
			}
			if len(ls.held) != len(idsInUse(g)) {
				ls.monitor += fmt.Sprintf(" MONITOR:held-%d-but-bits-%d", len(ls.held), len(idsInUse(g)))
			}
		}
		for _, o := range obs {
			if strings.Contains(o, "crash") {
				ls.monitor += " MONITOR:" + o
			}
		}
	}
	verdict = "ok"
	if ls.monitor != "" {
		verdict = "violated:" + strings.ReplaceAll(strings.TrimSpace(ls.monitor), " ", ",")
	}
	return strings.Join(obs, " ") + " | " + doAvail(g) + " " + showState(g) + ls.monitor, full, verdict, ls
}

func parseConc(w []string) (proto, k int, pre []string, scripts [][]string, sched []int, ok bool) {
	// conc <proto> <k> P pre… T ops… T ops… S digits
	if len(w) < 4 || w[3] != "P" {
		return
	}
	var e1, e2 error
	proto, e1 = strconv.Atoi(w[1])
	k, e2 = strconv.Atoi(w[2])
	if e1 != nil || e2 != nil {
		return
	}
	i := 4
	for i < len(w) && w[i] != "T" && w[i] != "S" {
		pre = append(pre, w[i])
		i++
	}
	for i < len(w) && w[i] == "T" {
		i++
		var sc []string
		for i < len(w) && w[i] != "T" && w[i] != "S" {
			sc = append(sc, w[i])
			i++
		}
		scripts = append(scripts, sc)
	}
	if i < len(w) && w[i] == "S" {
		if i+1 < len(w) {
			for _, ch := range w[i+1] {
				if ch >= '0' && ch <= '9' {
					sched = append(sched, int(ch-'0'))
				}
			}
		}
	}
	ok = len(scripts) == k
	return
}

func exec(op string) (res string) {
	defer func() {
		if r := recover(); r != nil {
			res = fmt.Sprintf("crash:%v", r)
		}
	}()
	w := strings.Fields(op)
	if len(w) < 2 {
		return "bad-op"
	}
	switch w[0] {
	case "seq":
		proto, err := strconv.Atoi(w[1])
		if err != nil {
			return "bad-op"
		}
		g := gocql.VerifStreamsNew(proto)
		var out []string
		for _, t := range w[2:] {
			a, ok := seqTok(g, t)
			if !ok {
				return "bad-op"
			}
			out = append(out, a)
		}
		if len(out) == 0 {
			return "-"
		}
		return strings.Join(out, " ")
	case "conc":
		proto, k, pre, scripts, sched, ok := parseConc(w)
		if !ok {
			return "bad-op"
		}
		a, _, _ := runConc(proto, k, pre, scripts, sched, nil)
		return a
	case "smon":
		proto, err := strconv.Atoi(w[1])
		if err != nil {
			return "bad-op"
		}
		return runSmon(proto, w[2:])
	case "mon":
		if w[1] != "conc" {
			return "bad-op"
		}
		proto, k, pre, scripts, sched, ok := parseConc(w[1:])
		if !ok {
			return "bad-op"
		}
		_, _, v := runConc(proto, k, pre, scripts, sched, nil)
		return v
	}
	return "bad-op"
}

func parseConcMust(op string) (proto, k int, pre []string, scripts [][]string, sched []int, choose func(*lockstep, []int) int) {
	proto, k, pre, scripts, sched, ok := parseConc(strings.Fields(op))
	if !ok {
		panic("bad fixed scenario: " + op)
	}
	return proto, k, pre, scripts, sched, nil
}

func concLine(proto, k int, pre []string, scripts [][]string, sched []int) string {
	var sb strings.Builder
	fmt.Fprintf(&sb, "conc %d %d P", proto, k)
	for _, p := range pre {
		sb.WriteString(" " + p)
	}
	for _, sc := range scripts {
		sb.WriteString(" T")
		for _, o := range sc {
			sb.WriteString(" " + o)
		}
	}
	sb.WriteString(" S ")
	if len(sched) == 0 {
		sb.WriteString("-")
	}
	for _, t := range sched {
		sb.WriteByte(byte('0' + t))
	}
	return sb.String()
}

// ---------------------------------------------------------------- generators

func capOf(proto int) int {
	if proto > 2 {
		return 32768
	}
	return 128
}

// one in bigFillOneIn eligible 32768-id scenarios starts from an (almost) full generator
var bigFillOneIn = 100

func genSeq(r *vh.Rng, out *vh.Out) {
	proto := []int{1, 2, 2, 2, 3, 4, 4, 5}[r.Intn(8)]
	capN := capOf(proto)
	var ops []string
	var held []int // approximate bookkeeping to aim clears at ids in use; the real answers decide
	g := gocql.VerifStreamsNew(proto)
	cls := "seq/fresh"
	shape := r.Intn(6)
	if proto > 2 && shape < 2 && r.Intn(bigFillOneIn) != 0 {
		shape = 2 // filling 32767 ids costs the model ~1 s: only a few such scenarios per run
	}
	switch shape {
	case 0: // nearly full
		n := capN - 1 - r.Intn(4)
		ops = append(ops, fmt.Sprintf("G%d", n))
		seqTok(g, ops[0])
		cls = "seq/nearfull"
	case 1: // over-full request
		ops = append(ops, fmt.Sprintf("G%d", capN+r.Intn(70)))
		seqTok(g, ops[0])
		cls = "seq/exhausted"
	case 2: // one word nearly full
		n := 60 + r.Intn(8)
		ops = append(ops, fmt.Sprintf("G%d", n))
		seqTok(g, ops[0])
		cls = "seq/partial"
	}
	if len(ops) > 0 {
		held = idsInUse(g)
	}
	n := 5 + r.Intn(120)
	for i := 0; i < n; i++ {
		x := r.Intn(100)
		switch {
		case x < 45:
			ops = append(ops, "g")
			if a, _ := seqTok(g, "g"); strings.HasSuffix(a, ":t") {
				id, _ := strconv.Atoi(strings.TrimSuffix(a, ":t"))
				held = append(held, id)
			}
		case x < 75 && len(held) > 0: // release out of order
			i := r.Intn(len(held))
			id := held[i]
			held = append(held[:i], held[i+1:]...)
			ops = append(ops, fmt.Sprintf("c%d", id))
			seqTok(g, ops[len(ops)-1])
			if r.Intn(8) == 0 { // double release
				ops = append(ops, fmt.Sprintf("c%d", id))
				seqTok(g, ops[len(ops)-1])
			}
		case x < 80 && r.Intn(4) == 0: // negative argument: Clear(-k), k = 1..63 (word 0, empty mask), 64.., far below
			k := 1 + r.Intn(63)
			switch r.Intn(4) {
			case 0:
				k = 64 + r.Intn(130)
			case 1:
				k = []int{1, 63, 64, 65, 127, 128, 129, 32767, 32768, 100000}[r.Intn(10)]
			}
			ops = append(ops, fmt.Sprintf("n%d", k))
			seqTok(g, ops[len(ops)-1])
		case x < 80: // arbitrary id (possibly free, reserved or out of range)
			var id int
			switch r.Intn(5) {
			case 0:
				id = 0
			case 1:
				id = capN - 1 + r.Intn(3)
			case 2:
				id = capN + r.Intn(100000)
			default:
				id = r.Intn(capN)
			}
			ops = append(ops, fmt.Sprintf("c%d", id))
			seqTok(g, ops[len(ops)-1])
		case x < 92:
			ops = append(ops, "a")
		default:
			ops = append(ops, "s")
		}
	}
	ops = append(ops, "a", "s")
	op := fmt.Sprintf("seq %d %s", proto, strings.Join(ops, " "))
	if proto > 2 {
		cls += "/32768"
	} else {
		cls += "/128"
	}
	emitCase(out, op, exec(op), cls, true)
}

// one in bigSmonOneIn 32768-id smon scenarios is kept (a complete fill costs the model > 1 s), at most
// bigSmonBudget per run
var bigSmonOneIn = 120
var bigSmonBudget = 3

func shuffle(r *vh.Rng, a []int) {
	for i := len(a) - 1; i > 0; i-- {
		j := r.Intn(i + 1)
		a[i], a[j] = a[j], a[i]
	}
}

// genSmon: fill (completely / nearly / partly), release ids out of allocation order (holes below and above the
// number of ids in use of a word, first / last word, id 1, id cap-1, whole words, runs, random subsets; double
// releases, releases of free and out-of-range ids), refill (exactly / beyond / partly), repeat.
func genSmon(r *vh.Rng, out *vh.Out) {
	proto := []int{1, 2, 2, 1, 2, 2, 3, 4, 5}[r.Intn(9)]
	if proto > 2 && (r.Intn(bigSmonOneIn) != 0 || bigSmonBudget == 0) {
		proto = 1 + r.Intn(2)
	}
	if proto > 2 {
		bigSmonBudget--
	}
	capN := capOf(proto)
	g := gocql.VerifStreamsNew(proto)
	var ops []string
	emit := func(tok string) {
		ops = append(ops, tok)
		seqTok(g, tok)
	}
	cls := "smon/"
	switch r.Intn(6) {
	case 0, 1, 2:
		emit(fmt.Sprintf("G%d", capN-1))
		cls += "full"
	case 3:
		emit(fmt.Sprintf("G%d", capN-1-r.Intn(4)))
		cls += "nearfull"
	case 4:
		emit(fmt.Sprintf("G%d", 1+r.Intn(capN-1)))
		cls += "partial"
	default:
		emit(fmt.Sprintf("G%d", capN+r.Intn(3)))
		cls += "overfull"
	}
	rounds := 1 + r.Intn(4)
	if proto > 2 {
		rounds = 1 + r.Intn(2)
	}
	for ; rounds > 0; rounds-- {
		inUse := idsInUse(g)
		if len(inUse) == 0 {
			emit("g")
			continue
		}
		var sel []int
		switch r.Intn(7) {
		case 0: // a few random ids
			for i := 1 + r.Intn(8); i > 0; i-- {
				sel = append(sel, inUse[r.Intn(len(inUse))])
			}
		case 1: // boundary ids
			for _, id := range []int{1, 2, 31, 62, 63, 64, 65, 70, 126, 127, capN - 1, capN - 2, capN - 63, capN - 64, capN - 65, capN / 2, capN/2 - 1} {
				if id >= 1 && id < capN && r.Intn(3) != 0 {
					sel = append(sel, id)
				}
			}
		case 2: // a run of consecutive ids
			st := 1 + r.Intn(capN-1)
			for i, n := 0, 1+r.Intn(70); i < n && st+i < capN; i++ {
				sel = append(sel, st+i)
			}
		case 3: // a whole word, possibly except a few ids
			wd := []int{0, 1, capN/64 - 1, r.Intn(capN / 64)}[r.Intn(4)]
			for j := 0; j < 64; j++ {
				if wd*64+j > 0 && r.Intn(16) != 0 {
					sel = append(sel, wd*64+j)
				}
			}
		case 4: // one id per word (first words), same position
			j := r.Intn(64)
			for wd := 0; wd < capN/64 && wd < 40; wd++ {
				if wd*64+j > 0 {
					sel = append(sel, wd*64+j)
				}
			}
		case 5: // about half of everything (small capacity), a sixteenth (big)
			m := 2
			if proto > 2 {
				m = 16
			}
			for _, id := range inUse {
				if r.Intn(m) == 0 {
					sel = append(sel, id)
				}
			}
		default: // a single id
			sel = append(sel, inUse[r.Intn(len(inUse))])
		}
		switch r.Intn(3) {
		case 0:
			shuffle(r, sel)
		case 1:
			sortInts(sel)
		default:
			sortInts(sel)
			for i, j := 0, len(sel)-1; i < j; i, j = i+1, j-1 {
				sel[i], sel[j] = sel[j], sel[i]
			}
		}
		before := len(idsInUse(g))
		for _, id := range sel {
			emit(fmt.Sprintf("c%d", id))
			switch r.Intn(24) {
			case 0:
				emit(fmt.Sprintf("c%d", id)) // double release
			case 1:
				emit(fmt.Sprintf("c%d", capN+r.Intn(200))) // beyond the capacity
			case 3:
				emit(fmt.Sprintf("n%d", []int{1, 1 + r.Intn(63), 63, 64, 65, 64 + r.Intn(200), capN, capN + 1}[r.Intn(8)])) // negative argument
			case 2:
				emit("a")
			}
		}
		released := before - len(idsInUse(g))
		switch r.Intn(5) {
		case 0: // refill exactly, then one more
			emit(fmt.Sprintf("G%d", released))
			emit("g")
		case 1: // refill beyond
			emit(fmt.Sprintf("G%d", released+1+r.Intn(3)))
		case 2: // refill partly
			emit(fmt.Sprintf("G%d", r.Intn(released+1)))
		case 3: // one by one
			n := released + r.Intn(2)
			if n > 40 {
				n = 40
			}
			for i := 0; i < n; i++ {
				emit("g")
			}
			emit(fmt.Sprintf("G%d", released))
		default: // up to the brim (a failing GetStream scans every word: the model pays 512 list walks for it)
			if proto > 2 {
				emit(fmt.Sprintf("G%d", released+2))
			} else {
				emit(fmt.Sprintf("G%d", capN))
			}
		}
	}
	emit("a")
	op := fmt.Sprintf("smon %d %s", proto, strings.Join(ops, " "))
	if proto > 2 {
		cls += "/32768"
	} else {
		cls += "/128"
	}
	ans := exec(op)
	emitCase(out, op, ans, cls, true)
	out.Dist["smon-verdict/"+strings.SplitN(ans, ":", 2)[0]]++
}

// genConcRace: racing releases of ONE id by 2..3 goroutines (double release), together with acquisitions and
// other releases, on generators with few or many ids in use.
func genConcRace(r *vh.Rng, out *vh.Out) {
	proto := 1 + r.Intn(2) // both protocol versions of the small capacity
	if r.Intn(10) == 0 {
		proto = 3 + r.Intn(3) // every protocol version of the large capacity
	}
	var pre []string
	var inUse []int
	switch r.Intn(4) {
	case 0: // very few ids in use: the counter is near zero
		pre = []string{fmt.Sprintf("G%d", 1+r.Intn(3))}
	case 1:
		pre = []string{fmt.Sprintf("G%d", 1+r.Intn(70))}
	default:
		pre, inUse = genPrefill(r, proto)
	}
	if len(inUse) == 0 {
		if len(pre) == 0 {
			pre = []string{fmt.Sprintf("G%d", 1+r.Intn(5))}
		}
		g := gocql.VerifStreamsNew(proto)
		for _, w := range pre {
			seqTok(g, w)
		}
		inUse = idsInUse(g)
	}
	k := 2 + r.Intn(3)
	x := inUse[r.Intn(len(inUse))]
	racers := 2 + r.Intn(2)
	if racers > k {
		racers = k
	}
	cx := fmt.Sprintf("c%d", x)
	scripts := make([][]string, k)
	steps := 0
	rnd := func() string {
		switch y := r.Intn(10); {
		case y < 5:
			steps += 6
			return "g"
		case y < 6:
			steps += 3
			return "r"
		case y < 8:
			steps += 3
			return fmt.Sprintf("c%d", inUse[r.Intn(len(inUse))])
		default:
			steps++
			return "a"
		}
	}
	for t := 0; t < k; t++ {
		if t < racers {
			if r.Intn(4) == 0 {
				scripts[t] = append(scripts[t], rnd())
			}
			scripts[t] = append(scripts[t], cx)
			steps += 3
			for i := r.Intn(3); i > 0; i-- {
				if r.Intn(4) == 0 {
					scripts[t] = append(scripts[t], cx)
					steps += 3
				} else {
					scripts[t] = append(scripts[t], rnd())
				}
			}
		} else {
			for i := 1 + r.Intn(3); i > 0; i-- {
				scripts[t] = append(scripts[t], rnd())
			}
		}
	}
	sched := genSchedule(r, k, steps+steps/2+r.Intn(8))
	emitConc(out, proto, k, pre, scripts, sched, fmt.Sprintf("conc/race-release/k%d", k))
}

func sortInts(a []int) {
	for i := 1; i < len(a); i++ {
		for j := i; j > 0 && a[j-1] > a[j]; j-- {
			a[j-1], a[j] = a[j], a[j-1]
		}
	}
}

// prefill: leaves `free` ids free, placed to create contention on the last free ids of a word
func genPrefill(r *vh.Rng, proto int) (pre []string, inUse []int) {
	capN := capOf(proto)
	shape := r.Intn(5)
	if proto > 2 && shape > 1 && r.Intn(bigFillOneIn) != 0 {
		shape = 1 // see genSeq: few full 32768-id prefixes per run
	}
	switch shape {
	case 0: // fresh
		return nil, nil
	case 1: // word 1 / word 0 partially used
		n := 1 + r.Intn(70)
		pre = []string{fmt.Sprintf("G%d", n)}
	default: // (almost) full, then free a few ids, often in the same word
		full := capN - 1 - r.Intn(3)
		pre = []string{fmt.Sprintf("G%d", full)}
		nfree := r.Intn(4)
		base := 1 + r.Intn(capN-1)
		for i := 0; i < nfree; i++ {
			id := base + r.Intn(5)
			if r.Intn(4) == 0 {
				id = 1 + r.Intn(capN-1)
			}
			if id >= capN {
				id = capN - 1
			}
			pre = append(pre, fmt.Sprintf("c%d", id))
		}
	}
	// compute the ids in use by running the prefix on the real generator
	g := gocql.VerifStreamsNew(proto)
	for _, w := range pre {
		seqTok(g, w)
	}
	inUse = idsInUse(g)
	return pre, inUse
}

func genSchedule(r *vh.Rng, k, n int) []int {
	sched := make([]int, 0, n)
	switch r.Intn(4) {
	case 0: // uniform
		for i := 0; i < n; i++ {
			sched = append(sched, r.Intn(k))
		}
	case 1: // bursts
		for len(sched) < n {
			t := r.Intn(k)
			for b := 1 + r.Intn(6); b > 0 && len(sched) < n; b-- {
				sched = append(sched, t)
			}
		}
	case 2: // strict alternation with random phase changes
		t := r.Intn(k)
		for i := 0; i < n; i++ {
			sched = append(sched, t)
			t = (t + 1) % k
			if r.Intn(7) == 0 {
				t = r.Intn(k)
			}
		}
	default: // one thread favoured
		f := r.Intn(k)
		for i := 0; i < n; i++ {
			if r.Intn(3) > 0 {
				sched = append(sched, f)
			} else {
				sched = append(sched, r.Intn(k))
			}
		}
	}
	return sched
}

func genConc(r *vh.Rng, out *vh.Out) {
	proto := 1 + r.Intn(2) // both protocol versions of the small capacity
	if r.Intn(8) == 0 {
		proto = 3 + r.Intn(3) // every protocol version of the large capacity
	}
	k := 2 + r.Intn(3)
	pre, inUse := genPrefill(r, proto)
	protocol := r.Intn(6) != 0
	scripts := make([][]string, k)
	avail := append([]int{}, inUse...)
	steps := 0
	for t := 0; t < k; t++ {
		n := 1 + r.Intn(4)
		for i := 0; i < n; i++ {
			x := r.Intn(100)
			switch {
			case x < 45:
				scripts[t] = append(scripts[t], "g")
				steps += 6
			case x < 65:
				scripts[t] = append(scripts[t], "r")
				steps += 3
			case x < 88 && len(avail) > 0:
				i := r.Intn(len(avail))
				id := avail[i]
				if protocol { // each held id is released by exactly one thread, once
					avail = append(avail[:i], avail[i+1:]...)
				}
				scripts[t] = append(scripts[t], fmt.Sprintf("c%d", id))
				steps += 3
			case x < 92 && !protocol:
				id := []int{0, 1, 63, 64, 127, 128, 5000}[r.Intn(7)]
				scripts[t] = append(scripts[t], fmt.Sprintf("c%d", id))
				steps += 3
			default:
				scripts[t] = append(scripts[t], "a")
				steps++
			}
		}
	}
	sched := genSchedule(r, k, steps+steps/2+r.Intn(8))
	cls := fmt.Sprintf("conc/k%d", k)
	if !protocol {
		cls += "/noprotocol"
	}
	emitConc(out, proto, k, pre, scripts, sched, cls)
}

func emitConc(out *vh.Out, proto, k int, pre []string, scripts [][]string, sched []int, cls string) {
	emitConcX(out, proto, k, pre, scripts, sched, nil, cls, false)
}

// emitConcX: the schedule is `sched` followed by the decisions of `choose` (if any); the op line carries the
// complete schedule. alwaysMon: emit the spec-backed `mon` form for this scenario whatever the verdict.
func emitConcX(out *vh.Out, proto, k int, pre []string, scripts [][]string, sched []int, choose func(*lockstep, []int) int, cls string, alwaysMon bool) {
	if proto > 2 {
		cls += "/32768"
	}
	ans, full, verdict, ls := runConcX(proto, k, pre, scripts, sched, choose)
	op := concLine(proto, k, pre, scripts, full)
	emitCase(out, op, ans, cls, true)
	if alwaysMon {
		emitCase(out, "mon "+op, verdict, "mon/"+strings.SplitN(verdict, ":", 2)[0], true)
	} else {
		monCase(out, op, verdict)
	}
	if ls != nil {
		if ls.multi > 0 || strings.Contains(ans, ":start:") {
			out.Dist["obs/calls-returned-without-hand-over"]++
		}
		if ls.unquiet {
			out.Dist["obs/hang-or-livelock"]++
		}
		if !ls.protocol {
			out.Dist["mon-scope/no-client-protocol"]++
		} else {
			out.Dist["mon-scope/client-protocol"]++
		}
		if ls.c0 {
			out.Dist["excluded/clear-0-called"]++
		}
		if ls.nRogue > 0 {
			out.Dist["excluded/clear-cas-on-id-being-handed-out"]++
		}
		multi := false
		for _, n := range ls.rel {
			if n > 1 {
				multi = true
			}
		}
		if multi {
			out.Dist["obs/id-released-twice-successfully(re-acquired-in-between)"]++
		}
	}
	if strings.Contains(ans, "crash:negative") {
		out.Dist["obs/crash-negative"]++
	}
	if strings.Contains(ans, "y6") {
		out.Dist["obs/word-CAS-failed"]++
	}
	if strings.Contains(ans, "y3") {
		out.Dist["obs/offset-CAS-failed"]++
	}
	if strings.Contains(ans, "y10") {
		out.Dist["obs/clear-CAS-failed"]++
	}
	if strings.Contains(ans, "0:f") {
		out.Dist["obs/exhausted"]++
	}
}

// ---------------------------------------------------------------- counter vs bitset windows

// pause: thread t is run until it is parked in front of its atomic operation `y` for the nth time (or done);
// y < 0: until it has been given `nth` scheduling decisions (independent of the yield numbering of the code)
type pause struct{ t, y, nth int }

// windowChoose: first the pauses, in order; then the other threads run to completion INSIDE the windows (one
// after the other in index order, or interleaved at random); finally the paused threads finish, in index order.
func windowChoose(pauses []pause, r *vh.Rng) func(ls *lockstep, en []int) int {
	seen := make([]int, len(pauses))
	cnt := make([]int, len(pauses))
	for i := range seen {
		seen[i] = -1
	}
	return func(ls *lockstep, en []int) int {
		enabled := map[int]bool{}
		for _, t := range en {
			enabled[t] = true
		}
		paused := map[int]bool{}
		for i, p := range pauses {
			paused[p.t] = true
			if !enabled[p.t] {
				continue
			}
			if p.y < 0 {
				if ls.nsteps[p.t] < p.nth {
					return p.t
				}
				continue
			}
			if ls.nsteps[p.t] != seen[i] {
				seen[i] = ls.nsteps[p.t]
				if ls.at[p.t] == p.y {
					cnt[i]++
				}
			}
			if cnt[i] < p.nth {
				return p.t
			}
		}
		var others []int
		for _, t := range en {
			if !paused[t] {
				others = append(others, t)
			}
		}
		if len(others) > 0 {
			if r != nil {
				return others[r.Intn(len(others))]
			}
			return others[0]
		}
		return en[0]
	}
}

var clearYields = []int{8, 9, 11}
var getYields = []int{1, 2, 4, 5, 7}

// crossChoose: first the pauses, in order (as windowChoose); then the threads run in the order `order`: each to
// completion one after the other, or (zip) one atomic operation each in turn; threads not named finish last.
func crossChoose(pauses []pause, order []int, zip bool) func(ls *lockstep, en []int) int {
	inner := windowChoose(pauses, nil)
	reached := false
	turn := 0
	return func(ls *lockstep, en []int) int {
		enabled := map[int]bool{}
		for _, t := range en {
			enabled[t] = true
		}
		if !reached {
			t := inner(ls, en)
			allReached := true
			for _, p := range pauses {
				if !enabled[p.t] {
					continue
				}
				if p.y < 0 { // pause after p.nth scheduling decisions, whatever the yield numbering of the code
					if ls.nsteps[p.t] < p.nth {
						allReached = false
					}
				} else if ls.at[p.t] != p.y {
					allReached = false
				}
			}
			if !allReached {
				return t
			}
			reached = true
		}
		if zip {
			for n := 0; n < len(order); n++ {
				t := order[(turn+n)%len(order)]
				if enabled[t] {
					turn = (turn + n + 1) % len(order)
					return t
				}
			}
		} else {
			for _, t := range order {
				if enabled[t] {
					return t
				}
			}
		}
		return en[0]
	}
}

// fixedCross (every run, both capacities): a Clear(x) and a GetStream working on the SAME word, BOTH paused, in
// front of every pair of their atomic operations (Clear: load / CAS / decrement; GetStream: offset load / offset
// CAS / word load / word CAS / increment), then resumed in both orders and alternating one atomic operation each
// (so that each CAS is also seen failing and retrying: yields 10 and 6). Free id below / above x in the word, no
// other free id, free id in the other word; with a third goroutine releasing x a second time (no client protocol)
// or acquiring as well.
func fixedCross(out *vh.Out) {
	type cfg struct {
		proto int
		pre   []string
		x     int
	}
	cfgs := []cfg{
		{2, []string{"G127", "c70"}, 100}, {1, []string{"G127", "c100"}, 70}, {2, []string{"G127", "c5"}, 40},
		{1, []string{"G127"}, 64}, {2, []string{"G127"}, 127}, {1, []string{"G127"}, 1}, {2, []string{"G127", "c10"}, 100},
		{2, []string{"G127", "c126", "c125"}, 127},
		{3, []string{"G32767", "c16390"}, 16400}, {5, []string{"G32767"}, 32767},
	}
	orders := []struct {
		o   []int
		zip bool
	}{{[]int{0, 1}, false}, {[]int{1, 0}, false}, {[]int{0, 1}, true}, {[]int{1, 0}, true}}
	for ci, c := range cfgs {
		cx := fmt.Sprintf("c%d", c.x)
		for _, yc := range clearYields {
			for _, yg := range getYields {
				for oi, o := range orders {
					if c.proto > 2 && oi >= 2 && (yc+yg)%2 == 0 {
						continue
					}
					emitConcX(out, c.proto, 2, c.pre, [][]string{{cx, "a"}, {"g", "a"}}, nil,
						crossChoose([]pause{{0, yc, 1}, {1, yg, 1}}, o.o, o.zip), "conc/cross", true)
				}
				if ci < 3 {
					// a third goroutine inside the double window: a second release of x (racing double release, no
					// client protocol), or a second acquisition
					emitConcX(out, c.proto, 3, c.pre, [][]string{{cx}, {"g"}, {cx, "g"}}, nil,
						crossChoose([]pause{{0, yc, 1}, {1, yg, 1}}, []int{2, 1, 0}, false), "conc/cross3", true)
					emitConcX(out, c.proto, 3, c.pre, [][]string{{cx}, {"g"}, {"g", "a"}}, nil,
						crossChoose([]pause{{0, yc, 1}, {1, yg, 1}}, []int{2, 0, 1}, false), "conc/cross3", true)
				}
			}
		}
		// the same windows addressed by "the m-th atomic operation of the goroutine", WHATEVER its yield number (a
		// variant of the code with more / other atomic operations - summary words, hints, flags - is explored step by
		// step instead of being reported as an unknown yield sequence): a GetStream parked after m scheduling
		// decisions, a complete Clear(x) of the same word by another goroutine inside, the GetStream finishes, then
		// a third goroutine must still be able to acquire every free id; the dual: Clear(x) parked after m decisions,
		// complete GetStreams inside, Clear finishes, a third goroutine acquires what is left; two GetStreams parked
		// after m1 / m2 decisions, then both finish (in both orders).
		maxM := 12
		if c.proto > 2 {
			maxM = 4
		}
		for m := 1; m <= maxM; m++ {
			emitConcX(out, c.proto, 3, c.pre, [][]string{{cx}, {"g", "a"}, {"g", "g", "a"}}, nil,
				crossChoose([]pause{{1, -1, m}}, []int{0, 1, 2}, false), "conc/step-window/get", true)
			if m <= 8 {
				emitConcX(out, c.proto, 3, c.pre, [][]string{{cx, "a"}, {"g", "a"}, {"g", "g", "a"}}, nil,
					crossChoose([]pause{{0, -1, m}}, []int{1, 0, 2}, false), "conc/step-window/clear", true)
			}
			if c.proto <= 2 && m <= 8 {
				for m2 := 1; m2 <= 8; m2++ {
					for _, o := range [][]int{{0, 1, 2}, {1, 0, 2}} {
						// first Clear(x) completely (thread 2), then two GetStreams racing for what is free
						emitConcX(out, c.proto, 3, c.pre, [][]string{{"g", "a"}, {"g", "a"}, {cx}}, nil,
							crossChoose([]pause{{2, -1, 1 << 20}, {0, -1, m}, {1, -1, m2}}, o, false), "conc/step-window/get2", true)
					}
				}
			}
		}
	}
}

// fixedWindows (every run, both capacities): all ids handed out, one Clear(x) paused in front of each of its
// atomic operations (load / CAS / decrement: in the last window the bit is clear and the counter still counts
// the id), complete calls of another goroutine inside the window; the dual: one id free, a GetStream paused in
// front of each of its atomic operations (in the last window the bit is set and the counter does not count the
// id yet) while Clear / Available / GetStream run; two Clears paused at the same time.
func fixedWindows(out *vh.Out) {
	type cfg struct {
		proto int
		full  string
		xs    []int
		z     int // another id, in use
	}
	for _, c := range []cfg{{2, "G127", []int{1, 63, 64, 127}, 70}, {3, "G32767", []int{1, 16384, 32767}, 40}} {
		for _, x := range c.xs {
			cx := fmt.Sprintf("c%d", x)
			cz := fmt.Sprintf("c%d", c.z)
			inners := [][]string{{"g"}, {"g", "a"}, {"a", "g"}, {"g", "g"}, {cx}, {cx, "g"}, {"g", "r", "g"}, {"a", cz, "g", "g", "g"}}
			if c.proto > 2 {
				inners = [][]string{{"g"}, {"a", "g", "a"}, {cx, "g"}}
			}
			for _, y := range clearYields {
				for _, inner := range inners {
					emitConcX(out, c.proto, 2, []string{c.full}, [][]string{inner, {cx}}, nil, windowChoose([]pause{{1, y, 1}}, nil), "conc/window/clear", true)
					if c.proto <= 2 {
						emitConcX(out, c.proto, 2, []string{c.full}, [][]string{{cx, "a"}, inner}, nil, windowChoose([]pause{{0, y, 1}}, nil), "conc/window/clear", true)
					}
				}
			}
			ginners := [][]string{{cz}, {"a"}, {"g"}, {"g", "a"}, {cz, "g"}, {"a", cz, "a"}, {cx}}
			if c.proto > 2 {
				ginners = [][]string{{cz, "a"}, {"g", "a"}}
			}
			for _, y := range getYields {
				for _, inner := range ginners {
					emitConcX(out, c.proto, 2, []string{c.full, cx}, [][]string{inner, {"g", "a"}}, nil, windowChoose([]pause{{1, y, 1}}, nil), "conc/window/get", true)
				}
			}
		}
		// two releases paused at the same time, every combination of their windows; two / three acquisitions inside
		x1, x2 := c.xs[0], c.xs[len(c.xs)-1]
		for _, y1 := range clearYields {
			for _, y2 := range clearYields {
				emitConcX(out, c.proto, 3, []string{c.full}, [][]string{{"g", "g", "g", "a"}, {fmt.Sprintf("c%d", x1)}, {fmt.Sprintf("c%d", x2)}}, nil,
					windowChoose([]pause{{1, y1, 1}, {2, y2, 1}}, nil), "conc/window/clear2", true)
			}
		}
	}
}

// fixedSweep (every run): ONE full 32768-id generator, a single hole in EVERY one of its 512 words one after the
// other (bit position varying with the word: 64w + (7w+3)%64), ascending then a descending pass with another bit
// position: release x, GetStream must hand out exactly x (spec: must succeed), the next one must fail; then two
// holes in two different words at a time. Judged by the specification (smon) and compared id by id (seq).
func fixedSweep(out *vh.Out) {
	toks := []string{"G32767"}
	for w := 0; w < 512; w++ {
		x := 64*w + (7*w+3)%64
		toks = append(toks, fmt.Sprintf("c%d", x), "g", "g")
	}
	for w := 511; w >= 0; w -= 3 {
		x := 64*w + (11*w+63)%64
		if x == 0 {
			x = 1
		}
		toks = append(toks, fmt.Sprintf("c%d", x), "g", "g")
	}
	for w := 0; w+259 < 512; w += 37 {
		toks = append(toks, fmt.Sprintf("c%d", 64*w+63), fmt.Sprintf("c%d", 64*(w+259)+1), "a", "g", "g", "g")
	}
	toks = append(toks, "a")
	op := "smon 5 " + strings.Join(toks, " ")
	emitCase(out, op, exec(op), "smon/sweep-every-word/32768", true)
	op = "seq 4 " + strings.Join(toks, " ") + " s"
	emitCase(out, op, exec(op), "seq/sweep-every-word/32768", true)
}

// genWindow: random members of the same family: (almost) full generator of either capacity, 1..2 goroutines
// paused in front of a random atomic operation of a Clear(held id) / GetStream, the 1..2 other goroutines run
// complete scripts inside the windows (sequentially or interleaved at random), then everything finishes.
var bigWindowBudget = 12

func genWindow(r *vh.Rng, out *vh.Out) {
	proto := 1 + r.Intn(2) // both protocol versions of the small capacity
	if r.Intn(10) == 0 && bigWindowBudget > 0 {
		proto = 3 + r.Intn(3) // every protocol version of the large capacity
		bigWindowBudget--
	}
	capN := capOf(proto)
	pre := []string{fmt.Sprintf("G%d", capN-1)}
	if r.Intn(12) == 0 {
		pre = append(pre, presetTok(r, capN/64))
	}
	nfree := []int{0, 0, 0, 1, 1, 2}[r.Intn(6)]
	free := map[int]bool{}
	base := 1 + r.Intn(capN-1)
	for i := 0; i < nfree; i++ {
		id := base + r.Intn(4)
		if r.Intn(3) == 0 {
			id = 1 + r.Intn(capN-1)
		}
		if id >= capN {
			id = capN - 1
		}
		if !free[id] {
			free[id] = true
			pre = append(pre, fmt.Sprintf("c%d", id))
		}
	}
	heldID := func() int {
		for {
			id := 1 + r.Intn(capN-1)
			if r.Intn(3) == 0 {
				id = base + r.Intn(6)
			}
			if id >= 1 && id < capN && !free[id] {
				return id
			}
		}
	}
	k := 2 + r.Intn(3)
	np := 1
	if k >= 3 && r.Intn(3) == 0 {
		np = 2
		if k >= 4 && r.Intn(2) == 0 {
			np = 3
		}
	}
	scripts := make([][]string, k)
	used := map[int]bool{}
	var pauses []pause
	var pausedIDs []int
	perm := []int{0, 1, 2, 3}[:k]
	shuffle(r, perm)
	protocol := r.Intn(5) != 0
	for i := 0; i < np; i++ {
		t := perm[i]
		if r.Intn(10) < 7 {
			x := heldID()
			for protocol && used[x] {
				x = heldID()
			}
			used[x] = true
			pausedIDs = append(pausedIDs, x)
			scripts[t] = []string{fmt.Sprintf("c%d", x)}
			if r.Intn(4) == 0 {
				pauses = append(pauses, pause{t, -1, r.Intn(4)})
			} else {
				pauses = append(pauses, pause{t, clearYields[r.Intn(3)], 1})
			}
		} else {
			scripts[t] = []string{"g"}
			if r.Intn(4) == 0 {
				pauses = append(pauses, pause{t, -1, r.Intn(8)})
			} else {
				pauses = append(pauses, pause{t, getYields[r.Intn(5)], 1 + r.Intn(4)/3})
			}
		}
		if r.Intn(3) == 0 {
			scripts[t] = append(scripts[t], []string{"a", "g", "r"}[r.Intn(3)])
		}
	}
	for i := np; i < k; i++ {
		t := perm[i]
		for n := 1 + r.Intn(3); n > 0; n-- {
			switch y := r.Intn(12); {
			case y < 6:
				scripts[t] = append(scripts[t], "g")
			case y < 8:
				scripts[t] = append(scripts[t], "a")
			case y < 9:
				scripts[t] = append(scripts[t], "r")
			case y < 11 || protocol || len(pausedIDs) == 0:
				x := heldID()
				for protocol && used[x] {
					x = heldID()
				}
				used[x] = true
				scripts[t] = append(scripts[t], fmt.Sprintf("c%d", x))
			default: // a second release of an id whose release is paused (no client protocol)
				scripts[t] = append(scripts[t], fmt.Sprintf("c%d", pausedIDs[r.Intn(len(pausedIDs))]))
			}
		}
	}
	var rr *vh.Rng
	if r.Intn(2) == 0 {
		rr = r
	}
	emitConcX(out, proto, k, pre, scripts, nil, windowChoose(pauses, rr), fmt.Sprintf("conc/window/random/k%d", k), true)
}

// ---------------------------------------------------------------- "any history": the rotating offset near the ends of its range

// presetTok: the offset word as it is after ~2^32 / ~2^31 / ~2^16 calls (k below the boundary, up to three
// rotations and a bit), or an arbitrary value
func presetTok(r *vh.Rng, nb int) string {
	k := r.Intn(3*nb + 20)
	if r.Intn(3) == 0 {
		k = r.Intn(6)
	}
	switch r.Intn(8) {
	case 0, 1, 2, 3:
		return fmt.Sprintf("Ot%d", k)
	case 4, 5:
		return fmt.Sprintf("Om%d", k)
	case 6:
		return fmt.Sprintf("O%d", uint64(65536-k))
	default:
		return fmt.Sprintf("O%d", r.U64()&0xffffffff)
	}
}

// offsetScenario: prefix `pre` (fill, holes), preset, then `pairs` acquire/release steps with `hold` ids kept in
// flight (hold = 0: release at once), Available now and then. Emitted twice: judged by the abstract
// specification (`smon`, spec-backed) and with the exact answers (`seq`, model-vs-code: the rotation start
// word across the wrap).
func offsetScenario(out *vh.Out, r *vh.Rng, proto int, pre []string, tok string, pairs, hold int, cls string) {
	withSeq := proto <= 2 || len(pre) == 0 // (the model pays ~1 s for filling the big generator)
	g := gocql.VerifStreamsNew(proto)
	var ops []string
	emit := func(tok string) string {
		ops = append(ops, tok)
		a, _ := seqTok(g, tok)
		return a
	}
	for _, p := range pre {
		emit(p)
	}
	emit(tok)
	var fifo []int
	for i := 0; i < pairs; i++ {
		a := emit("g")
		if strings.HasSuffix(a, ":t") {
			id, _ := strconv.Atoi(strings.TrimSuffix(a, ":t"))
			fifo = append(fifo, id)
		}
		for len(fifo) > hold {
			emit(fmt.Sprintf("c%d", fifo[0]))
			fifo = fifo[1:]
		}
		if r != nil && r.Intn(40) == 0 {
			emit("a")
			if r.Intn(4) == 0 {
				emit(presetTok(r, capOf(proto)/64))
			}
		}
	}
	emit("a")
	if proto > 2 {
		cls += "/32768"
	} else {
		cls += "/128"
	}
	op := fmt.Sprintf("smon %d %s", proto, strings.Join(ops, " "))
	ans := exec(op)
	emitCase(out, op, ans, "smon/"+cls, true)
	out.Dist["smon-verdict/"+strings.SplitN(ans, ":", 2)[0]]++
	if withSeq {
		op = fmt.Sprintf("seq %d %s s", proto, strings.Join(ops, " "))
		emitCase(out, op, exec(op), "seq/"+cls, true)
	}
}

// fixedOffsets (every run): for both capacities the offset word at 2^32 - k and 2^31 - k followed by
// 3*numBuckets+16 acquire/release pairs (so that every start word is passed on both sides of the boundary), on
// a fresh generator and on full generators with a single hole in the first / the last / a middle word (there
// the scan has to walk from every start word to the one word with a free id)
func fixedOffsets(out *vh.Out) {
	for k := 0; k <= 6; k++ {
		for _, b := range []string{"Ot", "Om"} {
			tok := fmt.Sprintf("%s%d", b, k)
			offsetScenario(out, nil, 2, nil, tok, 3*2+16, 0, "offset-preset/fresh")
			offsetScenario(out, nil, 2, []string{"G127", "c1"}, tok, 3*2+16, 0, "offset-preset/one-hole")
			offsetScenario(out, nil, 2, []string{"G127", "c127"}, tok, 3*2+16, 0, "offset-preset/one-hole")
			offsetScenario(out, nil, 2, []string{"G127", "c63", "c64"}, tok, 3*2+16, 1, "offset-preset/two-holes")
			offsetScenario(out, nil, 2, []string{"G60"}, tok, 3*2+16, 3, "offset-preset/partial")
		}
	}
	for _, tok := range []string{"Ot1030", "Om1030", "Ot3"} {
		offsetScenario(out, nil, 3, nil, tok, 3*512+16, 0, "offset-preset/fresh")
	}
	offsetScenario(out, nil, 3, []string{"G32767", "c5"}, "Ot520", 3*512+16, 0, "offset-preset/one-hole")
	offsetScenario(out, nil, 3, []string{"G32767", "c16400"}, "Om520", 3*512+16, 0, "offset-preset/one-hole")
}

var bigOffsetBudget = 2
var bigOffsetFills = false

func genOffset(r *vh.Rng, out *vh.Out) {
	proto := 1 + r.Intn(2) // both protocol versions of the small capacity
	if r.Intn(40) == 0 && bigOffsetBudget > 0 {
		proto = 3 + r.Intn(3) // every protocol version of the large capacity
		bigOffsetBudget--
	}
	capN := capOf(proto)
	nb := capN / 64
	var pre []string
	free := 0
	cls := "offset-preset/fresh"
	shape := r.Intn(5)
	if proto > 2 && !bigOffsetFills {
		shape = 4
	}
	switch shape {
	case 0, 1: // full, 1..3 holes anywhere
		pre = []string{fmt.Sprintf("G%d", capN-1)}
		seen := map[int]bool{}
		for i := 1 + r.Intn(3); i > 0; i-- {
			x := 1 + r.Intn(capN-1)
			if !seen[x] {
				seen[x] = true
				free++
				pre = append(pre, fmt.Sprintf("c%d", x))
			}
		}
		cls = "offset-preset/holes"
	case 2:
		fill := 1 + r.Intn(capN-2)
		free = capN - 1 - fill
		pre = []string{fmt.Sprintf("G%d", fill)}
		cls = "offset-preset/partial"
	default:
		free = capN - 1
	}
	hold := 0
	if r.Intn(3) == 0 {
		hold = r.Intn(free + 1)
		if hold > 70 {
			hold = 70
		}
	}
	offsetScenario(out, r, proto, pre, presetTok(r, nb), 3*nb+16+r.Intn(8), hold, cls)
}

var monTick int

// priority: spec-backed lines on which a property monitor fired. `check` looks at the first 50 disagreements
// only; when the code under test also changed its yield pattern, hundreds of model-vs-code differences of
// `conc` lines come first. These lines are therefore ALSO put at the head of ops.txt / impl.txt at the end of the run.
var priority [][2]string

func emitCase(out *vh.Out, op, ans, cls string, nontrivial bool) {
	out.Case(op, ans, cls, nontrivial)
	if strings.HasPrefix(ans, "violated") && (strings.HasPrefix(op, "mon ") || strings.HasPrefix(op, "smon ")) && len(priority) < 40 {
		priority = append(priority, [2]string{op, ans})
	}
}

func prependPriority(dir string) {
	if len(priority) == 0 {
		return
	}
	for i, name := range []string{"/ops.txt", "/impl.txt"} {
		old, err := os.ReadFile(dir + name)
		if err != nil {
			return
		}
		var sb strings.Builder
		for _, p := range priority {
			sb.WriteString(p[i] + "\n")
		}
		os.WriteFile(dir+name, append([]byte(sb.String()), old...), 0o644)
	}
}

// monCase emits the spec-backed form of a lock-step scenario (`mon conc …` → ok | violated:…):
// always when a monitor fired, otherwise for one scenario in eight.
func monCase(out *vh.Out, concOp string, verdict string) {
	monTick++
	if verdict == "ok" || verdict == "n/a" {
		if monTick%8 != 0 {
			return
		}
	}
	emitCase(out, "mon "+concOp, verdict, "mon/"+strings.SplitN(verdict, ":", 2)[0], true)
}

// enumerate explores schedules of the scenario by stateless DFS (re-execution). Order of the
// alternatives at a decision point: the thread that ran last (no preemption), then the others.
// maxPre < 0: all schedules; otherwise only schedules with at most maxPre preemptions.
func enumerate(out *vh.Out, proto, k int, pre []string, scripts [][]string, maxPre int, cls string, limit int) int {
	type choice struct {
		order []int // alternatives in exploration order
		idx   int   // alternative taken
	}
	var stack []choice
	count := 0
	for {
		// run: follow the stack, then default = first alternative
		pos := 0
		last := -1
		npre := 0
		var cur []choice
		choose := func(_ *lockstep, enabled []int) int {
			var order []int
			lastEnabled := false
			for _, t := range enabled {
				if t == last {
					lastEnabled = true
				}
			}
			if lastEnabled {
				order = append(order, last)
			}
			for _, t := range enabled {
				if t != last && (!lastEnabled || maxPre < 0 || npre < maxPre) {
					order = append(order, t)
				}
			}
			idx := 0
			if pos < len(stack) {
				idx = stack[pos].idx
			}
			if idx >= len(order) {
				idx = 0 // cannot happen: the execution is deterministic
			}
			t := order[idx]
			if lastEnabled && t != last {
				npre++
			}
			cur = append(cur, choice{order, idx})
			pos++
			last = t
			return t
		}
		ans, full, verdict := runConc(proto, k, pre, scripts, nil, choose)
		if strings.HasPrefix(ans, "skipped-after-") {
			return count
		}
		emitCase(out, concLine(proto, k, pre, scripts, full), ans, cls, true)
		monCase(out, concLine(proto, k, pre, scripts, full), verdict)
		count++
		// next schedule: deepest decision with an untried alternative
		stack = cur
		i := len(stack) - 1
		for i >= 0 && stack[i].idx+1 >= len(stack[i].order) {
			i--
		}
		if i < 0 || count >= limit {
			return count
		}
		stack = stack[:i+1]
		stack[i].idx++
	}
}

func exhaustive(r *vh.Rng, out *vh.Out) {
	// 2 threads x 1 op, every pair of ops, several pre-filled states, ALL schedules
	prefills := [][]string{nil, {"G126"}, {"G125"}, {"G127"}, {"G62"}, {"G127", "c64", "c65"}, {"G127", "c63", "c64"}, {"G127", "c100"}}
	ops1 := []string{"g", "c1", "c100", "a", "c0"}
	for _, pre := range prefills {
		for _, a := range ops1 {
			for _, b := range ops1 {
				enumerate(out, 2, 2, pre, [][]string{{a}, {b}}, -1, "exh/2x1/all", 1<<30)
			}
		}
	}
	// 2 threads x 2 ops: all schedules
	scripts2 := [][][]string{
		{{"g", "r"}, {"g", "r"}},
		{{"g", "g"}, {"g", "g"}},
		{{"c5", "g"}, {"g", "c6"}},
		{{"g", "r"}, {"c5", "g"}},
		{{"c5", "c5"}, {"c5", "g"}},
	}
	for _, pre := range [][]string{{"G126"}, {"G127", "c5"}, {"G127", "c5", "c6"}} {
		for _, sc := range scripts2 {
			enumerate(out, 2, 2, pre, sc, -1, "exh/2x2/all", 60000)
		}
	}
	// 2 threads x 3 ops and 3 threads x 2 ops: all schedules with at most 3 / 2 preemptions
	scripts3 := [][][]string{
		{{"g", "r", "g"}, {"g", "r", "g"}},
		{{"g", "g", "r"}, {"c5", "g", "g"}},
		{{"c5", "g", "r"}, {"g", "c6", "g"}},
		{{"g", "g", "g"}, {"g", "g", "g"}},
	}
	for _, pre := range [][]string{{"G125"}, {"G127", "c5", "c6"}, {"G127", "c5", "c70"}} {
		for _, sc := range scripts3 {
			enumerate(out, 2, 2, pre, sc, 3, "exh/2x3/pre<=3", 60000)
		}
		enumerate(out, 2, 3, pre, [][]string{{"g", "r"}, {"g", "r"}, {"c5", "g"}}, 2, "exh/3x2/pre<=2", 60000)
		enumerate(out, 2, 3, pre, [][]string{{"g", "g"}, {"g", "c6"}, {"c5", "g"}}, 2, "exh/3x2/pre<=2", 60000)
	}
	// racing double release of one id by two goroutines while a third acquires: ALL schedules
	for _, pre := range [][]string{{"G1"}, {"G2", "c64"}, {"G127"}} {
		enumerate(out, 2, 3, pre, [][]string{{"c1"}, {"c1"}, {"g"}}, -1, "exh/3x1/double-release/all", 60000)
		enumerate(out, 2, 2, pre, [][]string{{"c1", "g"}, {"c1", "c1"}}, -1, "exh/2x2/double-release/all", 60000)
		enumerate(out, 2, 3, pre, [][]string{{"c1", "a"}, {"c1"}, {"g", "r"}}, 3, "exh/3x2/double-release/pre<=3", 60000)
	}
	// counter vs bitset windows: ALL schedules of a release racing acquisitions on a full generator; two releases
	// and two acquisitions (<= 3 preemptions); the offset CAS of two acquisitions racing across the wrap of the word
	for _, sc := range [][][]string{{{"c1", "a"}, {"g", "a", "g"}}, {{"c127"}, {"g", "g"}}, {{"c64", "g"}, {"a", "g"}}} {
		enumerate(out, 2, 2, []string{"G127"}, sc, -1, "exh/2x/window/all", 60000)
	}
	enumerate(out, 2, 3, []string{"G127"}, [][]string{{"c1"}, {"c127"}, {"g", "g", "a"}}, 3, "exh/3x/window/pre<=3", 60000)
	for _, tok := range []string{"Ot0", "Ot1", "Ot2", "Ot3", "Om1", "Om2"} {
		enumerate(out, 2, 2, []string{tok}, [][]string{{"g"}, {"g"}}, -1, "exh/2x1/offset-wrap/all", 60000)
		enumerate(out, 2, 2, []string{"G127", "c1", tok}, [][]string{{"g"}, {"g", "a"}}, -1, "exh/2x1/offset-wrap/all", 60000)
	}
	// every pair of holes of a full 128-id generator
	for x := 1; x < 128; x++ {
		for y := x + 1; y < 128; y++ {
			op := fmt.Sprintf("smon 2 G127 c%d c%d g g g a", y, x)
			emitCase(out, op, exec(op), "smon/two-holes/128", true)
		}
	}
	_ = r
}

func main() {
	mode, tier, path := vh.Args()
	runtime.GOMAXPROCS(1) // lock-step: exactly one goroutine is runnable at any time; hand-overs stay on one P
	// self-test of the tie: the yield points must be present in streams.go, in the expected order
	var seen []int
	gocql.VerifStreamsSetYield(func(k int) { seen = append(seen, k) })
	g0 := gocql.VerifStreamsNew(2)
	id0, _ := g0.GetStream()
	g0.Clear(id0)
	g0.Available()
	if len(seen) == 0 { // (a yield sequence other than the expected one is not fatal: the lock-step runs report it)
		fmt.Fprintf(os.Stderr, "c08: the verification yield points yield(1..12) of internal/streams/streams.go are missing "+
			"(sequential GetStream/Clear/Available passed %v, the unchanged code passes [1 2 4 5 7 8 9 11 12]); "+
			"apply harness/cmd/c08/hooks/streams_yield.patch\n", seen)
		os.Exit(3)
	}
	gocql.VerifStreamsSetYield(hook)
	if mode == "replay" {
		for _, l := range vh.ReadLines(path) {
			fmt.Println(exec(l))
		}
		return
	}
	r := vh.NewRng(vh.EnvSeed())
	out := vh.NewOut(path)
	mult := 1
	if tier == "thorough" {
		mult = 30
		bigFillOneIn = 600
		bigSmonOneIn = 1200
		bigSmonBudget = 12
		bigWindowBudget = 200
		bigOffsetBudget = 12
		bigOffsetFills = true
	}
	// fixed boundary scenarios: use every id sequentially, then fail, both capacities
	for _, op := range []string{
		"seq 2 G127 a g a s c127 a g g s",
		"seq 1 G128 a s",
		"seq 4 G32767 a g a s c32767 c1 a g g g s",
		"seq 3 G32768 a s c0 a g",
		"seq 2 c0 g",
		"seq 2 g c0 g g a s",
		"seq 2 c128 a",
		"seq 2 c127 c64 c63 a s",
		"seq 2 g n1 a s g a",
		"seq 1 n1 a g a",
		"seq 2 G5 n63 n64 n65 a s",
		"seq 3 G70 n1 n2 n128 a g a",
		"smon 2 g n1 a g n64 c128 c5000 a G125 g n3 a",
		"smon 4 G70 n1 n63 n64 n32768 c32768 a c70 n70 g a",
	} {
		emitCase(out, op, exec(op), "seq/fixed", true)
	}
	// fixed lock-step scenarios: Available() observed while a Clear sits between its CAS and its
	// decrement (transiently -1, theorem C08_cex_available_transient); last free id of a word raced for
	// by three goroutines; release racing acquire of the same id
	for _, op := range []string{
		"conc 2 2 P G127 T c1 T g a S 0011111111",
		"conc 2 3 P G126 T g T g T g S 012012012012012012012012",
		"conc 2 2 P G127 T c64 g T g g S 010101010101010101010101",
		"conc 4 2 P G40 T g r T g r S 0101010101010101",
	} {
		emitCase(out, op, exec(op), "conc/fixed", true)
	}
	// fixed sequential spec-monitor scenarios, both capacities: fill completely, release out of order (holes below
	// and above the number of ids in use of a word, first / last word, id 1, id cap-1), refill completely, fail
	for _, op := range []string{
		"smon 2 G127 g a c70 a g g c1 c127 c64 c63 a G4 g a c5 c5 c200 g g",
		"smon 1 G127 c127 c126 c3 c2 c1 G5 g c64 c100 c65 G3 g a",
		"smon 2 G60 c3 c59 g g c1 c60 c61 g g g a",
		"smon 4 G32767 g a c70 c1 c32767 c32704 c32703 c16384 c63 c64 a G7 g a c9 c9 c40000 g g",
		"smon 2 g c0 g a",
	} {
		emitCase(out, op, exec(op), "smon/fixed", true)
	}
	// every single hole of a full 128-id generator: release x, GetStream must succeed, the next one must fail
	for x := 1; x < 128; x++ {
		op := fmt.Sprintf("smon 2 G127 c%d g g a", x)
		emitCase(out, op, exec(op), "smon/single-hole/128", true)
	}
	// the same on ONE full 32768-id generator, for every position of the second word and ids at the borders
	{
		var holes []int
		for x := 64; x < 128; x++ {
			holes = append(holes, x)
		}
		holes = append(holes, 1, 2, 63, 128, 16383, 16384, 32703, 32704, 32705, 32766, 32767)
		toks := []string{"G32767"}
		for _, x := range holes {
			toks = append(toks, fmt.Sprintf("c%d", x), "g", "g")
		}
		op := "smon 3 " + strings.Join(toks, " ")
		emitCase(out, op, exec(op), "smon/single-hole/32768", true)
	}
	// fixed lock-step scenarios outside the client protocol: racing double release of one id by 2 and 3
	// goroutines; double release racing the re-acquisition of the id (the excluded case 2: the unchanged code
	// panics 'negative streams inuse', theorem C08_cex_double_release_negative); Clear(0) (excluded case 1)
	for _, op := range []string{
		"conc 2 2 P G5 T c3 T c3 S 01010101",
		"conc 2 3 P G127 T c70 T c70 T c70 g S 012012012012012012012012",
		"conc 2 3 P G2 c64 T c1 T c1 T g S 1000222211112",
		"conc 2 2 P - T c0 T g S 00011111",
	} {
		op = strings.Replace(op, "P - T", "P T", 1)
		ans, _, verdict := runConc(parseConcMust(op))
		emitCase(out, op, ans, "conc/fixed", true)
		emitCase(out, "mon "+op, verdict, "mon/fixed", true)
	}
	fixedWindows(out)
	fixedCross(out)
	fixedOffsets(out)
	fixedSweep(out)
	for i := 0; i < 1500*mult; i++ {
		genSeq(r, out)
	}
	smonN := 1500
	if tier == "thorough" {
		smonN = 15000 // the model pays ~3 ms per fill/release/refill scenario
	}
	for i := 0; i < smonN; i++ {
		genSmon(r, out)
	}
	for i := 0; i < 5000*mult; i++ {
		genConc(r, out)
	}
	for i := 0; i < 2500*mult; i++ {
		genConcRace(r, out)
	}
	for i := 0; i < 1500*mult; i++ {
		genWindow(r, out)
	}
	for i := 0; i < 150*mult; i++ {
		genOffset(r, out)
	}
	if tier == "thorough" {
		exhaustive(r, out)
	}
	out.Close(nil)
	prependPriority(path)
}
